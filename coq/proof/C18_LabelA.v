(** C18 — reading a selection's label back (round 6): the label string of the generic canonicaliser determines, position by position,
    the printed node pieces and the printed edge bits, provided every piece is non-empty and free of '|'.  With injectivity of
    the pieces / bits on the selected attributes and a loop-free view (every bipartite view without a view-id collision), two
    leaves with the same label differ by a self-map that preserves the selected attributes: the second half of clause 4. *)
From Coq Require Import List NArith ZArith Bool Arith Lia Permutation.
From SK Require Import lib.IRSortKeys lib.IRCore lib.IRSearch lib.StrJoin lib.C18_IRValid lib.C18_IRLeaves model.C18_Model model.C18_AttrModel
  model.C18_SpAttrModel proof.C18_Order proof.C18_Spec proof.C18_Graph proof.C18_Canon proof.C18_Equiv proof.C18_Label proof.C18_Aut
  proof.C18_Invariant proof.C18_Count proof.C18_WL proof.C18_SpAttr proof.C18_Attr proof.C18_AttrEquiv.
From SK Require lib.IRInst.
Import ListNotations.

Section ReadX.
Variables (nodes : list N) (npiece : N -> list N) (bitf : N -> N -> list N).
Definition edge_bitsX (perm : list N) : list (list N) :=
  let ip := indexed perm in
  flat_map (fun iv => flat_map (fun jw => if Nat.eqb (fst iv) (fst jw) then [] else [bitf (snd iv) (snd jw)]) ip) ip.
Definition labelX (perm : list N) : list N := join BAR (map npiece perm) ++ [BAR; BAR] ++ join BAR (edge_bitsX perm).
Hypothesis Hpn : forall v, In v nodes -> piece (npiece v).
Hypothesis Hpb : forall a b, piece (bitf a b).

Theorem label_readX p q : incl p nodes -> incl q nodes -> labelX p = labelX q ->
  length p = length q /\
  (forall i, i < length p -> npiece (nth i p 0%N) = npiece (nth i q 0%N)) /\
  (forall i j, i < length p -> j < length p -> i <> j ->
     bitf (nth i p 0%N) (nth j p 0%N) = bitf (nth i q 0%N) (nth j q 0%N)).
Proof.
  intros Hp Hq E. unfold labelX in E.
  assert (Pp : forall l, incl l nodes -> Forall piece (map npiece l)).
  { intros l Hl. apply Forall_forall. intros x Hx. apply in_map_iff in Hx. destruct Hx as (v & <- & Hv). apply Hpn. apply Hl. auto. }
  assert (Pb : forall l, Forall piece (edge_bitsX l)).
  { intros l. apply Forall_forall. intros x Hx. unfold edge_bitsX in Hx.
    apply in_flat_map in Hx. destruct Hx as (iv & _ & Hx). apply in_flat_map in Hx. destruct Hx as (jw & _ & Hx).
    destruct (Nat.eqb (fst iv) (fst jw)); [contradiction|]. destruct Hx as [<-|[]]. apply Hpb. }
  destruct (seg_split _ _ _ _ (Pp p Hp) (Pp q Hq) E) as [E1 E2].
  apply (join_inj_pieces _ _ (Pb p) (Pb q)) in E2.
  assert (Hl : length p = length q).
  { rewrite <- (map_length npiece p), E1, map_length. reflexivity. }
  split; [exact Hl|]. split.
  - intros i Hi. pose proof (f_equal (fun l => nth i l []) E1) as En. simpl in En.
    rewrite (nth_indep _ [] (npiece 0%N)) in En by (rewrite map_length; auto).
    rewrite (nth_indep (map _ q) [] (npiece 0%N)) in En by (rewrite map_length; lia).
    rewrite !(map_nth npiece) in En. exact En.
  - unfold edge_bitsX, indexed in E2. rewrite <- Hl in E2.
    pose proof (Forall2_fst_combine (seq 0 (length p)) p q Hl) as HF.
    set (ip := combine (seq 0 (length p)) p) in *. set (iq := combine (seq 0 (length p)) q) in *.
    assert (Rows : Forall2 (fun iv iv' =>
              flat_map (fun jw => if Nat.eqb (fst iv) (fst jw) then [] else [bitf (snd iv) (snd jw)]) ip
              = flat_map (fun jw => if Nat.eqb (fst iv') (fst jw) then [] else [bitf (snd iv') (snd jw)]) iq) ip iq).
    { apply flat_map_inj2; auto. eapply Forall2_impl'; [|exact HF]. intros iv iv' Efst. simpl in Efst. rewrite Efst.
      apply row_length. exact HF. }
    intros i j Hi Hj Hij.
    pose proof (Forall2_combine_nth _ p q 0%N 0%N 0 Hl Rows i Hi) as Ri. cbn [fst snd plus] in Ri.
    assert (Cells : Forall2 (fun jw jw' =>
              (if Nat.eqb i (fst jw) then [] else [bitf (nth i p 0%N) (snd jw)])
              = (if Nat.eqb i (fst jw') then [] else [bitf (nth i q 0%N) (snd jw')])) ip iq).
    { apply flat_map_inj2; auto. eapply Forall2_impl'; [|exact HF]. intros jw jw' Efst. simpl in Efst. rewrite Efst.
      destruct (Nat.eqb i (fst jw')); reflexivity. }
    pose proof (Forall2_combine_nth _ p q 0%N 0%N 0 Hl Cells j Hj) as Cj. cbn [fst snd plus] in Cj.
    destruct (Nat.eqb_spec i j) as [->|_]; [congruence|]. congruence.
Qed.
End ReadX.

Lemma labelG_X g nv ev nek p : labelG g nv ev nek p = labelX (fun v => join COLON (map snd (nv v))) (bitG g ev nek) p.
Proof. reflexivity. Qed.

(* ---------------- the position-wise map between two leaves is a selected-attribute self-map ---------------- *)
Theorem seq_autG g nv ev r r' : wf g -> NoDup r -> NoDup r' ->
  Permutation r (node_ids g) -> Permutation r' (node_ids g) ->
  (forall i, i < length r -> nv (nth i r 0%N) = nv (nth i r' 0%N)) ->
  (forall i j, i < length r -> j < length r ->
     option_map ev (find_arc g (nth i r 0%N) (nth j r 0%N)) = option_map ev (find_arc g (nth i r' 0%N) (nth j r' 0%N))) ->
  is_autG g nv ev (seqmap r r').
Proof.
  intros Hw Hnd Hnd' Hp Hp' Hk Ha.
  assert (Hl : length r = length r') by (rewrite (Permutation_length Hp), (Permutation_length Hp'); auto).
  assert (Hpos : forall v, In v (node_ids g) -> exists i, i < length r /\ v = nth i r 0%N).
  { intros v Hv. apply (Permutation_in _ (Permutation_sym Hp)) in Hv. destruct (idx_in _ _ Hv). eauto. }
  split; [|split; [|split]].
  - intros x y Hx Hy E. destruct (Hpos x Hx) as (i & Hi & ->). destruct (Hpos y Hy) as (j & Hj & ->).
    rewrite !seqmap_nth in E; auto. f_equal. apply (proj1 (NoDup_nth r' 0%N) Hnd'); auto; lia.
  - intros v Hv. destruct (Hpos v Hv) as (i & Hi & ->). rewrite seqmap_nth; auto.
    apply (Permutation_in _ Hp'). apply nth_In. lia.
  - intros v Hv. destruct (Hpos v Hv) as (i & Hi & ->). rewrite seqmap_nth; auto. symmetry. auto.
  - intros u v Hu Hv. destruct (Hpos u Hu) as (i & Hi & ->). destruct (Hpos v Hv) as (j & Hj & ->).
    rewrite !seqmap_nth; auto. symmetry. auto.
Qed.

Section ExactG.
Variables (g : vgraph) (nv : N -> list (Z * list N)) (ev : eattr -> list (Z * list N)) (nnk nek : nat).
Hypothesis Hw : wf g.
Let npiece := fun v => join COLON (map snd (nv v)).
Hypothesis Hpn : forall v, In v (node_ids g) -> piece (npiece v).
Hypothesis Hpb : forall a b, piece (bitG g ev nek a b).
Hypothesis Hin : forall v w, In v (node_ids g) -> In w (node_ids g) -> npiece v = npiece w -> nv v = nv w.
Hypothesis Hib : forall a b a' b', bitG g ev nek a b = bitG g ev nek a' b' ->
  option_map ev (find_arc g a b) = option_map ev (find_arc g a' b').
Hypothesis Hloop : forall v, find_arc g v v = None.

Lemma best_leafG lab p : fst (canon_searchG g nv ev nnk nek) = Some (lab, p) ->
  lab = labelG g nv ev nek p /\ In p (leaves_ofG g nv ev nnk) /\
  snd (canon_searchG g nv ev nnk nek) = filter (fun q => eqb lexlebN (labelG g nv ev nek q) lab) (leaves_ofG g nv ev nnk).
Proof.
  rewrite canon_searchG_fold. intros Eb.
  assert (HB : lab = labelG g nv ev nek p /\ In p (leaves_ofG g nv ev nnk)).
  { revert Eb. apply fold_visit_best. simpl. intros; discriminate. }
  destruct HB as [H1 H2]. split; auto. split; auto.
  apply (fold_min_leaves _ lexlebN lexlebN_total lexlebN_trans lexlebN_antisym _ _ _ _ Eb).
Qed.

Theorem same_label_autG p q : In p (leaves_ofG g nv ev nnk) -> In q (leaves_ofG g nv ev nnk) ->
  labelG g nv ev nek p = labelG g nv ev nek q ->
  exists pre r pre' r', p = pre ++ r /\ q = pre' ++ r' /\ length pre = length pre' /\ NoDup r /\ length r = length r' /\
    Permutation r' (node_ids g) /\ is_autG g nv ev (seqmap r r').
Proof.
  intros Hp Hq E.
  destruct (leafG_shape g nv ev nnk Hw p Hp) as (pre & r & -> & Hr & Ipre).
  destruct (leafG_shape g nv ev nnk Hw q Hq) as (pre' & r' & -> & Hr' & Ipre').
  assert (Hnd : NoDup r) by (eapply Permutation_NoDup; [apply Permutation_sym; exact Hr|apply Hw]).
  assert (Hnd' : NoDup r') by (eapply Permutation_NoDup; [apply Permutation_sym; exact Hr'|apply Hw]).
  assert (Hl : length r = length r') by (rewrite (Permutation_length Hr), (Permutation_length Hr'); auto).
  assert (Ip : incl (pre ++ r) (node_ids g)).
  { intros x Hx. apply in_app_or in Hx. destruct Hx as [Hx|Hx]; [apply Ipre; auto|apply (Permutation_in _ Hr Hx)]. }
  assert (Iq : incl (pre' ++ r') (node_ids g)).
  { intros x Hx. apply in_app_or in Hx. destruct Hx as [Hx|Hx]; [apply Ipre'; auto|apply (Permutation_in _ Hr' Hx)]. }
  rewrite !labelG_X in E.
  destruct (label_readX (node_ids g) npiece (bitG g ev nek) Hpn Hpb _ _ Ip Iq E) as (Hlen & Hkind & Harc).
  rewrite !app_length in Hlen. assert (Hlp : length pre = length pre') by lia.
  exists pre, r, pre', r'. split; [reflexivity|]. split; [reflexivity|]. split; [exact Hlp|]. split; [exact Hnd|]. split; [exact Hl|].
  split; [exact Hr'|]. apply seq_autG; auto.
  - intros i Hi. specialize (Hkind (length pre + i)). rewrite app_length in Hkind. specialize (Hkind ltac:(lia)).
    rewrite nth_app_r in Hkind. rewrite Hlp, nth_app_r in Hkind. apply Hin; auto.
    + apply (Permutation_in _ Hr). apply nth_In. auto.
    + apply (Permutation_in _ Hr'). apply nth_In. lia.
  - intros i j Hi Hj. destruct (Nat.eq_dec i j) as [->|Hij]; [rewrite !Hloop; reflexivity|].
    apply Hib. specialize (Harc (length pre + i) (length pre + j)). rewrite app_length in Harc.
    specialize (Harc ltac:(lia) ltac:(lia) ltac:(lia)).
    rewrite !nth_app_r in Harc. rewrite Hlp, !nth_app_r in Harc. exact Harc.
Qed.

(** clause 4, count, in full for the selection: the minimal leaves are exactly the images of the best permutation under the
    self-maps that preserve the selected attributes *)
Theorem autG_count_exact lab p : fst (canon_searchG g nv ev nnk nek) = Some (lab, p) ->
  NoDup (snd (canon_searchG g nv ev nnk nek)) /\
  forall q, In q (snd (canon_searchG g nv ev nnk nek)) <-> exists s, is_autG g nv ev s /\ q = map s p.
Proof.
  intros Hb. destruct (best_leafG lab p Hb) as (El & Hp & Ef).
  pose proof (init_partG_vpart g nv nnk (proj1 Hw)) as Hvp.
  assert (Hpm : In p (snd (canon_searchG g nv ev nnk nek))).
  { rewrite Ef. apply filter_In. split; auto. apply (eqb_eq lexlebN lexlebN_total lexlebN_antisym). auto. }
  split.
  - rewrite Ef. apply NoDup_filter. unfold leaves_ofG.
    apply (leaves_nodup _ lexleb IRInst.lexleb_total (fun a b c H1 H2 => IRInst.lexleb_trans a b c H1 H2)
             IRInst.lexleb_antisym (sigG g nv ev) _ (node_ids g) (proj1 Hw)). auto.
  - intros q. split.
    + intros Hqm. pose proof Hqm as Hq'. rewrite Ef in Hq'. apply filter_In in Hq'. destruct Hq' as [Hq Elq].
      apply (eqb_eq lexlebN lexlebN_total lexlebN_antisym) in Elq.
      assert (E : labelG g nv ev nek p = labelG g nv ev nek q) by congruence.
      destruct (same_label_autG p q Hp Hq E) as (pre & r & pre' & r' & -> & -> & Hlp & Hnd & Hl & Hr' & Haut).
      exists (seqmap r r'). split; auto.
      pose proof (min_leavesG_leaf g nv ev nnk nek _ (autG_count_lower g nv ev nnk nek Hw _ _ Haut Hpm)) as Hq2.
      rewrite map_app, (map_seqmap r r' Hnd Hl) in *.
      unfold leaves_ofG in Hq, Hq2.
      apply (leaves_tail_inj _ lexleb IRInst.lexleb_total (fun a b c H1 H2 => IRInst.lexleb_trans a b c H1 H2)
               IRInst.lexleb_antisym (sigG g nv ev) _ (node_ids g) (proj1 Hw) _ _ _ _ _ Hvp Hq Hq2).
      exists pre', (map (seqmap r r') pre), r'. repeat split; auto. apply (Permutation_length Hr').
    + intros (s & Hs & ->). apply autG_count_lower; auto.
Qed.
End ExactG.

(* ---------------- the bipartite selections satisfy the hypotheses ---------------- *)
Lemma join_nosep b sep (xs : list (list N)) : sep <> b -> Forall (nosep b) xs -> nosep b (join sep xs).
Proof.
  intros Hs. induction xs as [|x xs IH]; intros H; [intros []|]. inversion H; subst.
  destruct xs as [|x2 xs]; [simpl; auto|].
  change (join sep (x :: x2 :: xs)) with (x ++ sep :: join sep (x2 :: xs)).
  apply nosep_app; auto. intros [E|I]; [congruence|]. apply (IH H3). exact I.
Qed.
Lemma join_nonnil sep (xs : list (list N)) : (exists x, In x xs /\ x <> []) -> join sep xs <> [].
Proof.
  induction xs as [|x xs IH]; intros (y & Hy & Hne); [contradiction|].
  destruct xs as [|x2 xs].
  - simpl. destruct Hy as [<-|[]]. auto.
  - change (join sep (x :: x2 :: xs)) with (x ++ sep :: join sep (x2 :: xs)). destruct x; discriminate.
Qed.

Definition nocolon (x : list N) : Prop := nosep COLON x.
Lemma codes_nocolon (s : String.string) : forallb (fun c => negb (N.eqb c COLON)) (codes s) = true -> nocolon (codes s).
Proof. intros H I. rewrite forallb_forall in H. specialize (H _ I). rewrite N.eqb_refl in H. discriminate. Qed.
Lemma kind_str_nocolon k : nocolon (kind_str k).
Proof.
  unfold kind_str. destruct (Z.eqb k KREACTION); [apply codes_nocolon; reflexivity|].
  destruct (Z.eqb k KSPECIES); [apply codes_nocolon; reflexivity|intros []].
Qed.
Lemma role_str_nocolon r : nocolon (role_str r).
Proof.
  unfold role_str. destruct (Z.eqb r RPRODUCT); [apply codes_nocolon; reflexivity|].
  destruct (Z.eqb r RREACTANT); [apply codes_nocolon; reflexivity|intros []].
Qed.
Lemma st_str_nocolon s : nocolon (st_str s).
Proof.
  unfold st_str. destruct (Z.ltb s 0); [intros []|]. intros I. pose proof (dec_digits (Z.to_N s)) as H.
  rewrite Forall_forall in H. specialize (H _ I). unfold digitc, COLON in H. lia.
Qed.

Definition nolabel (nk : list nsel) : Prop := Forall (fun x => x <> NLabel) nk.
Lemma nolabel_in nk s : nolabel nk -> In s nk -> s <> NLabel.
Proof. unfold nolabel. rewrite Forall_forall. auto. Qed.

Lemma nval_str_props g t v s : s <> NLabel -> nosep BAR (snd (nval g t v s)) /\ nocolon (snd (nval g t v s)).
Proof.
  destruct s; simpl; intros Hs; try congruence.
  - split; [apply kind_str_nosep|apply kind_str_nocolon].
  - destruct (Z.eqb (kind_of g v) KSPECIES); simpl; split; intros [E|[]]; discriminate.
  - split; intros [].
Qed.
Lemma nval_by_str g t v w s : s <> NLabel ->
  (kind_of g v = KREACTION \/ kind_of g v = KSPECIES) -> (kind_of g w = KREACTION \/ kind_of g w = KSPECIES) ->
  snd (nval g t v s) = snd (nval g t w s) -> nval g t v s = nval g t w s.
Proof.
  destruct s; simpl; intros Hs Hv Hw E; try congruence.
  - rewrite (kind_str_inj _ _ Hv Hw E). reflexivity.
  - destruct (Z.eqb (kind_of g v) KSPECIES), (Z.eqb (kind_of g w) KSPECIES); simpl in *; congruence.
Qed.

Lemma eval_str_props a s : nosep BAR (snd (eval a s)) /\ nocolon (snd (eval a s)).
Proof.
  destruct s; simpl.
  - split; [apply role_str_nosep|apply role_str_nocolon].
  - split; [apply st_str_nosep|apply st_str_nocolon].
  - split; intros [].
Qed.
Lemma role_str_inj r r' : (r = -1 \/ r = 0 \/ r = 1)%Z -> (r' = -1 \/ r' = 0 \/ r' = 1)%Z -> role_str r = role_str r' -> r = r'.
Proof. intros [-> | [-> | ->]] [-> | [-> | ->]] E; auto; vm_compute in E; discriminate. Qed.
Lemma eval_by_str a b s : attr_ok a -> attr_ok b -> snd (eval a s) = snd (eval b s) -> eval a s = eval b s.
Proof.
  intros [Ha1 Ha2] [Hb1 Hb2]. destruct s; simpl; intros E; auto.
  - rewrite (role_str_inj _ _ Ha1 Hb1 E). reflexivity.
  - rewrite (st_str_inj _ _ Ha2 Hb2 E). reflexivity.
Qed.

Lemma map_by_str {A} (f f' : A -> Z * list N) (l : list A) :
  (forall s, In s l -> snd (f s) = snd (f' s) -> f s = f' s) -> map snd (map f l) = map snd (map f' l) -> map f l = map f' l.
Proof.
  induction l as [|x l IH]; simpl; intros H E; auto. inversion E. f_equal; auto.
Qed.

Section BipInst.
Variables (g : vgraph) (t : ltab) (nk : list nsel) (ek : list esel).
Hypothesis Hw : wf g.
Hypothesis Hk : kinds_ok g.
Hypothesis Ha : arcs_ok g.
Hypothesis Hnl : nolabel nk.
Hypothesis Hne : In NKind nk \/ In NBip nk.

Lemma kind_dom v : In v (node_ids g) -> kind_of g v = KREACTION \/ kind_of g v = KSPECIES.
Proof. intros Hv. apply kind_of_l_dom; auto. Qed.

Lemma pieceA v : In v (node_ids g) -> piece (join COLON (map snd (nvA g t nk v))).
Proof.
  intros Hv. split.
  - apply join_nosep; [discriminate|]. apply Forall_forall. intros x Hx. unfold nvA in Hx. rewrite map_map in Hx.
    apply in_map_iff in Hx. destruct Hx as (s & <- & Hs). apply nval_str_props. apply (nolabel_in nk); auto.
  - apply join_nonnil. unfold nvA. rewrite map_map. destruct Hne as [H|H].
    + exists (snd (nval g t v NKind)). split; [apply in_map_iff; exists NKind; auto|]. simpl. apply kind_str_nonnil. apply kind_dom. auto.
    + exists (snd (nval g t v NBip)). split; [apply in_map_iff; exists NBip; auto|]. simpl.
      destruct (Z.eqb (kind_of g v) KSPECIES); discriminate.
Qed.

Lemma bit_pieceA a b : piece (bitG g (evA ek) (length ek) a b).
Proof.
  unfold bitG. destruct (find_arc g a b) as [x|].
  - split; [|discriminate]. apply (nosep_app BAR [49%N; COLON]); [intros [E|[E|[]]]; discriminate|].
    apply join_nosep; [discriminate|]. apply Forall_forall. intros y Hy. unfold evA in Hy. rewrite map_map in Hy.
    apply in_map_iff in Hy. destruct Hy as (s & <- & _). apply eval_str_props.
  - split; [|discriminate]. apply (nosep_app BAR [48%N; COLON]); [intros [E|[E|[]]]; discriminate|].
    apply join_nosep; [discriminate|]. apply Forall_forall. intros y Hy. apply repeat_spec in Hy. subst. intros [].
Qed.

Lemma join_colon_inj (xs ys : list (list N)) : length xs = length ys -> Forall nocolon xs -> Forall nocolon ys ->
  join COLON xs = join COLON ys -> xs = ys.
Proof.
  intros Hl Hx Hy E. destruct xs as [|x xs], ys as [|y ys]; try discriminate; auto.
  apply (join_inj (sep := COLON)); auto; discriminate.
Qed.

Lemma npiece_injA v w : In v (node_ids g) -> In w (node_ids g) ->
  join COLON (map snd (nvA g t nk v)) = join COLON (map snd (nvA g t nk w)) -> nvA g t nk v = nvA g t nk w.
Proof.
  intros Hv Hw' E. unfold nvA in *.
  assert (Hc : forall u, Forall nocolon (map snd (map (nval g t u) nk))).
  { intros u. apply Forall_forall. intros x Hx. rewrite map_map in Hx. apply in_map_iff in Hx. destruct Hx as (s & <- & Hs).
    apply nval_str_props. apply (nolabel_in nk); auto. }
  apply join_colon_inj in E; auto; [|rewrite !map_length; reflexivity].
  apply map_by_str; auto. intros s Hs. apply nval_by_str; [apply (nolabel_in nk); auto| |]; apply kind_dom; auto.
Qed.

Lemma bit_injA a b a' b' : bitG g (evA ek) (length ek) a b = bitG g (evA ek) (length ek) a' b' ->
  option_map (evA ek) (find_arc g a b) = option_map (evA ek) (find_arc g a' b').
Proof.
  unfold bitG. destruct (find_arc g a b) as [x|] eqn:E1, (find_arc g a' b') as [y|] eqn:E2; simpl; intros E; try discriminate; auto.
  inversion E as [E']. f_equal. unfold evA in *.
  assert (Hc : forall z, Forall nocolon (map snd (map (eval z) ek))).
  { intros z. apply Forall_forall. intros u Hu. rewrite map_map in Hu. apply in_map_iff in Hu. destruct Hu as (s & <- & _). apply eval_str_props. }
  apply join_colon_inj in E'; auto; [|rewrite !map_length; reflexivity].
  apply map_by_str; auto. intros s _. apply eval_by_str; eapply find_arc_ok; eauto.
Qed.

(** clause 4 (count) in full for a bipartite selection without 'label' that contains 'kind' or 'bipartite', on a loop-free view *)
Theorem attr_count_exact lab p : (forall v, find_arc g v v = None) ->
  fst (canon_searchA g t nk ek) = Some (lab, p) ->
  NoDup (snd (canon_searchA g t nk ek)) /\
  forall q, In q (snd (canon_searchA g t nk ek)) <-> exists s, is_autG g (nvA g t nk) (evA ek) s /\ q = map s p.
Proof.
  intros Hloop. rewrite canon_searchA_G.
  apply (autG_count_exact g (nvA g t nk) (evA ek) (length nk) (length ek) Hw pieceA bit_pieceA npiece_injA bit_injA Hloop).
Qed.
End BipInst.

(* ---------------- bipartite views without a view-id collision have no self-loops ---------------- *)
From SK Require Import proof.C18_View proof.C18_NetBip.
Lemma view_bip_loopfree st n : net_ok st n -> forall v, find_arc (view_bip st n) v v = None.
Proof.
  intros (Hnd & Hcl & Hk) v. rewrite (view_bip_closed st n Hnd Hcl Hk). unfold find_arc. simpl.
  destruct (find_arc_l (arcs_of st n) v v) as [a|] eqn:E; auto. exfalso.
  apply find_arc_l_some in E. unfold arcs_of in E. apply in_flat_map in E. destruct E as (r & Hr & He).
  unfold arcs_of_rxn in He. apply in_app_or in He.
  assert (Hdis : forall sc, In sc (lhs r ++ rhs r) -> fst sc <> rid r).
  { intros sc Hsc E'. apply (NoDup_app_disj _ _ (rid r) Hnd); [rewrite <- E'; apply (Hcl r Hr sc Hsc)|apply in_map; auto]. }
  destruct He as [He|He]; apply in_map_iff in He; destruct He as (sc & E' & Hsc); inversion E'; subst.
  - apply (Hdis sc); [apply in_or_app; auto|congruence].
  - apply (Hdis sc); [apply in_or_app; auto|congruence].
Qed.

(** clause 4 (count) in full for the bipartite view of a collision-free network under such a selection *)
Theorem net_attr_count_exact st n t nk ek lab p : net_ok st n -> coeffs_ok n -> nolabel nk -> (In NKind nk \/ In NBip nk) ->
  fst (canon_searchA (view true st n) t nk ek) = Some (lab, p) ->
  NoDup (snd (canon_searchA (view true st n) t nk ek)) /\
  forall q, In q (snd (canon_searchA (view true st n) t nk ek)) <->
            exists s, is_autG (view true st n) (nvA (view true st n) t nk) (evA ek) s /\ q = map s p.
Proof.
  intros Hn Hc Hnl Hne. destruct (view_bip_GI st n Hc) as (Hw & Hk & Ha). simpl.
  apply attr_count_exact; auto. apply view_bip_loopfree. exact Hn.
Qed.

(* ---------------- the selected-attribute self-maps form a group; orbits of the canonicaliser under a selection ---------------- *)
From SK Require Import proof.C18_Vf2 proof.C18_Orbits proof.C18_OrbSound proof.C18_OrbComplete proof.C18_OrbCanon.
Lemma autG_id g nv ev : is_autG g nv ev (fun v => v).
Proof. split; [intros x y _ _ E; exact E|repeat split; auto]. Qed.
Lemma autG_comp g nv ev s t : is_autG g nv ev s -> is_autG g nv ev t -> is_autG g nv ev (fun v => t (s v)).
Proof.
  intros (I1 & M1 & K1 & A1) (I2 & M2 & K2 & A2). split; [|split; [|split]].
  - intros x y Hx Hy E. apply I1; [exact Hx|exact Hy|]. apply I2; [apply M1; exact Hx|apply M1; exact Hy|exact E].
  - intros v Hv. apply M2. apply M1. exact Hv.
  - intros v Hv. rewrite K2; auto.
  - intros u v Hu Hv. rewrite A2; auto.
Qed.
Lemma autG_surj g nv ev s : wf g -> is_autG g nv ev s -> forall y, In y (node_ids g) -> exists x, In x (node_ids g) /\ s x = y.
Proof.
  intros Hw (I1 & M1 & _) y Hy.
  assert (P : Permutation (map s (node_ids g)) (node_ids g)).
  { apply NoDup_Permutation_bis.
    - apply NoDup_map_inj_on; auto. apply Hw.
    - rewrite map_length. auto.
    - intros z Hz. apply in_map_iff in Hz. destruct Hz as (x & <- & Hx). auto. }
  apply (Permutation_in _ (Permutation_sym P)) in Hy. apply in_map_iff in Hy. destruct Hy as (x & E & Hx). eauto.
Qed.
Lemma autG_inv g nv ev s : wf g -> is_autG g nv ev s -> exists t, is_autG g nv ev t /\ forall v, In v (node_ids g) -> t (s v) = v.
Proof.
  intros Hw Hs. pose proof Hs as (I1 & M1 & K1 & A1).
  exists (finv s (node_ids g)).
  assert (L : forall v, In v (node_ids g) -> finv s (node_ids g) (s v) = v) by (intros; apply finv_left; auto).
  split; auto. split; [|split; [|split]].
  - intros x y Hx Hy E. destruct (autG_surj g nv ev s Hw Hs x Hx) as (a & Ha & <-). destruct (autG_surj g nv ev s Hw Hs y Hy) as (b & Hb & <-).
    rewrite !L in E; auto. subst. auto.
  - intros y Hy. destruct (autG_surj g nv ev s Hw Hs y Hy) as (a & Ha & <-). rewrite L; auto.
  - intros y Hy. destruct (autG_surj g nv ev s Hw Hs y Hy) as (a & Ha & <-). rewrite L; auto. symmetry. auto.
  - intros x y Hx Hy. destruct (autG_surj g nv ev s Hw Hs x Hx) as (a & Ha & <-). destruct (autG_surj g nv ev s Hw Hs y Hy) as (b & Hb & <-).
    rewrite !L; auto. symmetry. auto.
Qed.

Section OrbitsG.
Variables (g : vgraph) (nv : N -> list (Z * list N)) (ev : eattr -> list (Z * list N)) (nnk nek : nat) (lab p : list N).
Hypothesis Hw : wf g.
Hypothesis Hb : fst (canon_searchG g nv ev nnk nek) = Some (lab, p).
(** what autG_count_exact provides *)
Hypothesis Miff : forall q, In q (snd (canon_searchG g nv ev nnk nek)) <-> exists s, is_autG g nv ev s /\ q = map s p.

Lemma min_leavesG_head : exists rest, snd (canon_searchG g nv ev nnk nek) = p :: rest.
Proof.
  revert Hb. rewrite canon_searchG_fold. intros Hb'.
  assert (H' : hd_error (snd (fold_left (visit lexlebN (labelG g nv ev nek)) (leaves_ofG g nv ev nnk) (None, []))) = Some p).
  { apply (fold_visit_head lexlebN (labelG g nv ev nek) (leaves_ofG g nv ev nnk) (None, [])) with (bl := lab); auto. simpl. intros; discriminate. }
  destruct (snd (fold_left (visit lexlebN (labelG g nv ev nek)) (leaves_ofG g nv ev nnk) (None, []))) as [|x r]; simpl in H'; [discriminate|].
  inversion H'; subst. eauto.
Qed.

Lemma bestG_nodes : (forall v, In v p -> In v (node_ids g)) /\ (forall v, In v (node_ids g) -> In v p).
Proof.
  assert (Hleaf : In p (leaves_ofG g nv ev nnk)).
  { apply (min_leavesG_leaf g nv ev nnk nek). apply Miff. exists (fun v => v). split; [apply autG_id|]. rewrite map_id. reflexivity. }
  destruct (leafG_shape g nv ev nnk Hw p Hleaf) as (pre & r & Ep & Hr & Ipre). split.
  - intros v Hv. rewrite Ep in Hv. apply in_app_or in Hv. destruct Hv; [apply Ipre; auto|apply (Permutation_in _ Hr); auto].
  - intros v Hv. rewrite Ep. apply in_or_app. right. apply (Permutation_in _ (Permutation_sym Hr)); auto.
Qed.

Theorem orbitsG_sound :
  (forall c, In c (orbits_from_perms (snd (canon_searchG g nv ev nnk nek))) -> forall x y, In x c -> In y c -> exists s, is_autG g nv ev s /\ s x = y) /\
  (forall v, In v (node_ids g) -> exists c, In c (orbits_from_perms (snd (canon_searchG g nv ev nnk nek))) /\ In v c).
Proof.
  destruct min_leavesG_head as (rest & Eml). destruct bestG_nodes as [Ip Inp].
  set (R := fun x y => In x (node_ids g) /\ In y (node_ids g) /\ exists s, is_autG g nv ev s /\ s x = y).
  rewrite Eml.
  destruct (orbits_from_perms_sound p rest R) as [S1 S2].
  - intros x y (Hx & Hy & s & Hs & <-). split; auto. split; auto.
    destruct (autG_inv g nv ev s Hw Hs) as (t & Ht & Hl). exists t. split; auto.
  - intros x y z (Hx & Hy & s & Hs & <-) (_ & Hz & t & Ht & <-). split; auto. split; auto.
    exists (fun v => t (s v)). split; [apply autG_comp; auto|reflexivity].
  - intros x Hx. split; [apply Ip; auto|]. split; [apply Ip; auto|]. exists (fun v => v). split; [apply autG_id|reflexivity].
  - intros q Hq. assert (Hq' : In q (snd (canon_searchG g nv ev nnk nek))) by (rewrite Eml; right; auto).
    apply Miff in Hq'. destruct Hq' as (s & Hs & ->). split; [apply map_length|].
    intros i Hi. rewrite (nth_indep _ 0%N (s 0%N)) by (rewrite map_length; auto). rewrite map_nth.
    assert (Hn : In (nth i p 0%N) (node_ids g)) by (apply Ip; apply nth_In; auto).
    split; [apply Inp; apply Hs; auto|]. split; auto. split; [apply Hs; auto|eauto].
  - split.
    + intros c Hc x y Hx Hy. destruct (S1 c Hc x y Hx Hy) as (_ & _ & H). exact H.
    + intros v Hv. apply S2. apply Inp. auto.
Qed.

Theorem orbitsG_exact u v : In u (node_ids g) ->
  ((exists c, In c (orbits_from_perms (snd (canon_searchG g nv ev nnk nek))) /\ In u c /\ In v c) <-> (exists s, is_autG g nv ev s /\ s u = v)).
Proof.
  intros Hu. destruct orbitsG_sound as [Snd Cov].
  split; [intros (c & Hc & Huc & Hvc); apply (Snd c Hc u v Huc Hvc)|].
  intros (s & Hs & <-).
  destruct min_leavesG_head as (rest & Eml). destruct bestG_nodes as [Ip Inp].
  destruct (Cov u Hu) as (c & Hc & Huc). exists c. split; auto. split; auto.
  set (R := fun x y => In x (node_ids g) /\ In y (node_ids g) /\ exists t, is_autG g nv ev t /\ t x = y).
  pose proof Hc as Hc'. rewrite Eml in Hc'.
  destruct (orbits_from_perms_complete p rest R) with (c := c) as (a & Hal & Hhome & Hall); auto.
  - intros x y (Hx & Hy & t & Ht & <-). split; auto. split; auto.
    destruct (autG_inv g nv ev t Hw Ht) as (t' & Ht' & Hl). exists t'. split; auto.
  - intros x y z (Hx & Hy & t & Ht & <-) (_ & Hz & t' & Ht' & <-). split; auto. split; auto.
    exists (fun w => t' (t w)). split; [apply autG_comp; auto|reflexivity].
  - intros x Hx. split; [apply Ip; auto|]. split; [apply Ip; auto|]. exists (fun w => w). split; [apply autG_id|reflexivity].
  - intros q Hq. assert (Hq' : In q (snd (canon_searchG g nv ev nnk nek))) by (rewrite Eml; right; auto).
    apply Miff in Hq'. destruct Hq' as (t & Ht & ->). split; [apply map_length|].
    intros i Hi. rewrite (nth_indep _ 0%N (t 0%N)) by (rewrite map_length; auto). rewrite map_nth.
    assert (Hn : In (nth i p 0%N) (node_ids g)) by (apply Ip; apply nth_In; auto).
    split; [apply Inp; apply Ht; auto|]. split; auto. split; [apply Ht; auto|eauto].
  - destruct (Snd c Hc _ _ Hhome Huc) as (w & Hw' & Ew).
    set (t := fun x => s (w x)).
    assert (Ht : is_autG g nv ev t) by (unfold t; apply (autG_comp g nv ev w s); auto).
    assert (Hq : In (map t p) (snd (canon_searchG g nv ev nnk nek))) by (apply Miff; exists t; split; [exact Ht|reflexivity]).
    assert (En : nth a (map t p) 0%N = s u).
    { rewrite (nth_indep _ 0%N (t 0%N)) by (rewrite map_length; auto). rewrite map_nth. unfold t. rewrite Ew. reflexivity. }
    rewrite Eml in Hq. destruct Hq as [Eq|Hq].
    + rewrite <- En, <- Eq. exact Hhome.
    + rewrite <- En. apply Hall. exact Hq.
Qed.
End OrbitsG.

(** clause 4 (orbits) in full for a bipartite selection (no 'label'; 'kind' or 'bipartite' selected) on a loop-free view *)
Theorem attr_orbits_exact g t nk ek lab p : wf g -> kinds_ok g -> arcs_ok g -> nolabel nk -> (In NKind nk \/ In NBip nk) ->
  (forall v, find_arc g v v = None) -> fst (canon_searchA g t nk ek) = Some (lab, p) ->
  forall u v, In u (node_ids g) ->
    ((exists c, In c (orbits_from_perms (snd (canon_searchA g t nk ek))) /\ In u c /\ In v c) <->
     (exists s, is_autG g (nvA g t nk) (evA ek) s /\ s u = v)).
Proof.
  intros Hw Hk Ha Hnl Hne Hloop Hb.
  destruct (attr_count_exact g t nk ek Hw Hk Ha Hnl Hne lab p Hloop Hb) as [_ Miff].
  rewrite canon_searchA_G in *. apply (orbitsG_exact g (nvA g t nk) (evA ek) (length nk) (length ek) lab p Hw Hb Miff).
Qed.

(* ---------------- clause 2 in full: the canonical graphs agree on the selected attributes ---------------- *)
(** the canonical graph read on the selected attributes: canonical id with the selected node attributes; canonical arc with the
    selected edge attributes *)
Definition canon_nodesG (g : vgraph) (nv : N -> list (Z * list N)) (p : list N) : list (N * list (Z * list N)) :=
  map (fun v => (cid p v, nv v)) (node_ids g).
Definition canon_arcsG (g : vgraph) (ev : eattr -> list (Z * list N)) (p : list N) : list (N * N * list (Z * list N)) :=
  map (fun e => (cid p (asrc e), cid p (adst e), ev (aattr e))) (varcs g).

Lemma arcs_by_source g : wf g -> Permutation (varcs g) (flat_map (fun u => flat_map (arc_out g u) (node_ids g)) (node_ids g)).
Proof.
  intros Hw. pose proof Hw as (Hn & Hak & Hends).
  apply perm_trans with (flat_map (fun u => filter (fun e => N.eqb (asrc e) u) (varcs g)) (node_ids g)).
  - apply NoDup_Permutation.
    + apply (NoDup_map_inv akey). exact Hak.
    + apply NoDup_flat_map; auto.
      * intros a _. apply NoDup_filter. apply (NoDup_map_inv akey). exact Hak.
      * intros a b x _ _ Ha Hb. apply filter_In in Ha, Hb. destruct Ha as [_ Ea], Hb as [_ Eb]. apply N.eqb_eq in Ea, Eb. congruence.
    + intros e. rewrite in_flat_map. split.
      * intros He. exists (asrc e). split; [apply (Hends e He)|]. apply filter_In. split; auto. apply N.eqb_refl.
      * intros (u & _ & Hu). apply filter_In in Hu. tauto.
  - apply flat_map_perm_pointwise. intros u _. apply out_arcs_perm. exact Hw.
Qed.

Section LeafClass.
Variables (g : vgraph) (nv : N -> list (Z * list N)) (ev : eattr -> list (Z * list N)) (s : N -> N).
Hypothesis Hw : wf g.
Hypothesis Hs : is_autG g nv ev s.
Let S := extG g s.
Let S_inj : forall x y, S x = S y -> x = y := extG_inj g nv ev s Hs.

Lemma map_S p : incl p (node_ids g) -> map s p = map S p.
Proof. intros Hp. apply map_ext_in. intros v Hv. symmetry. apply extG_on. apply Hp. exact Hv. Qed.
Lemma S_nodes : Permutation (map S (node_ids g)) (node_ids g).
Proof. rewrite <- (map_S (node_ids g)) by (intros x Hx; exact Hx). apply (nodes_perm_s g nv ev s Hw Hs). Qed.

Lemma canon_nodes_aut p : incl p (node_ids g) -> Permutation (canon_nodesG g nv (map s p)) (canon_nodesG g nv p).
Proof.
  intros Hp. rewrite (map_S p Hp). unfold canon_nodesG.
  eapply perm_trans; [apply Permutation_map; apply Permutation_sym; exact S_nodes|].
  rewrite map_map. rewrite (map_ext_in _ (fun v => (cid p v, nv v))); [apply Permutation_refl|].
  intros u Hu. rewrite (cid_map S S_inj). f_equal. unfold S. rewrite extG_on by auto. apply Hs. exact Hu.
Qed.

Lemma canon_arcs_aut p : incl p (node_ids g) -> Permutation (canon_arcsG g ev (map s p)) (canon_arcsG g ev p).
Proof.
  intros Hp. rewrite (map_S p Hp). unfold canon_arcsG.
  set (F := fun (q : list N) (e : arc) => (cid q (asrc e), cid q (adst e), ev (aattr e))).
  change (Permutation (map (F (map S p)) (varcs g)) (map (F p) (varcs g))).
  eapply perm_trans; [apply Permutation_map; apply arcs_by_source; exact Hw|].
  eapply perm_trans; [|apply Permutation_sym; apply Permutation_map; apply arcs_by_source; exact Hw].
  rewrite !map_flat_map.
  eapply perm_trans; [apply perm_flat_map; apply Permutation_sym; exact S_nodes|]. rewrite flat_map_map.
  apply flat_map_perm_pointwise. intros u Hu. rewrite !map_flat_map.
  eapply perm_trans; [apply perm_flat_map; apply Permutation_sym; exact S_nodes|]. rewrite flat_map_map.
  rewrite (flat_map_ext_in' _ (fun v => map (F p) (arc_out g u v))); [apply Permutation_refl|].
  intros v Hv. unfold arc_out. pose proof (ev_ext g nv ev s Hw Hs u v) as He. fold S in He.
  destruct (find_arc g (S u) (S v)) as [x|], (find_arc g u v) as [y|]; simpl in *; try discriminate; auto.
  unfold F, asrc, adst, aattr. simpl. rewrite !(cid_map S S_inj). inversion He. reflexivity.
Qed.
End LeafClass.

Section InvariantFull.
Variable f : N -> N.
Hypothesis f_inj : forall x y, f x = f y -> x = y.
Variables (g g' : vgraph) (nv nv' : N -> list (Z * list N)) (ev : eattr -> list (Z * list N)) (nnk nek : nat).
Hypothesis Hw : wf g.
Hypothesis Hg : geq g' (relabel f g).
Hypothesis Hnv : forall v, nv' (f v) = nv v.
(* the hypotheses under which the label of g can be read back *)
Hypothesis Hpn : forall v, In v (node_ids g) -> piece (join COLON (map snd (nv v))).
Hypothesis Hpb : forall a b, piece (bitG g ev nek a b).
Hypothesis Hin : forall v w, In v (node_ids g) -> In w (node_ids g) ->
  join COLON (map snd (nv v)) = join COLON (map snd (nv w)) -> nv v = nv w.
Hypothesis Hib : forall a b a' b', bitG g ev nek a b = bitG g ev nek a' b' ->
  option_map ev (find_arc g a b) = option_map ev (find_arc g a' b').
Hypothesis Hloop : forall v, find_arc g v v = None.

Theorem invariantG_full lab p lab' p' :
  fst (canon_searchG g nv ev nnk nek) = Some (lab, p) -> fst (canon_searchG g' nv' ev nnk nek) = Some (lab', p') ->
  lab' = lab /\ Permutation (canon_nodesG g' nv' p') (canon_nodesG g nv p) /\ Permutation (canon_arcsG g' ev p') (canon_arcsG g ev p).
Proof.
  intros Hb Hb'.
  destruct (renameG_rel f f_inj g g' nv nv' ev nnk nek Hw Hg Hnv) as [Hlab Hml].
  split; [unfold best_label in Hlab; rewrite Hb, Hb' in Hlab; simpl in Hlab; congruence|].
  assert (Hw' : wf g') by (apply (geq_wf (relabel f g)); [apply geq_sym; exact Hg|apply wf_relabel; auto; intros x y _ _; apply f_inj]).
  (* p' is the image of a minimal leaf q of g, and q is the image of p under a selected-attribute self-map *)
  assert (Hp' : In p' (snd (canon_searchG g' nv' ev nnk nek))).
  { destruct (best_leafG g' nv' ev nnk nek lab' p' Hb') as (El & Hl & Ef). rewrite Ef. apply filter_In. split; auto.
    apply (eqb_eq lexlebN lexlebN_total lexlebN_antisym). auto. }
  apply (Permutation_in _ (Permutation_sym Hml)) in Hp'. apply in_map_iff in Hp'. destruct Hp' as (q & <- & Hq).
  destruct (autG_count_exact g nv ev nnk nek Hw Hpn Hpb Hin Hib Hloop lab p Hb) as [_ Miff].
  apply Miff in Hq. destruct Hq as (s & Hs & ->).
  assert (Hpin : incl p (node_ids g)).
  { destruct (best_leafG g nv ev nnk nek lab p Hb) as (_ & Hl & _).
    destruct (leafG_shape g nv ev nnk Hw p Hl) as (pre & r & -> & Hr & Ipre).
    intros x Hx. apply in_app_or in Hx. destruct Hx as [Hx|Hx]; [apply Ipre; auto|apply (Permutation_in _ Hr Hx)]. }
  assert (Hnodes : Permutation (node_ids g') (map f (node_ids g))).
  { rewrite <- node_ids_relabel. apply geq_node_ids. exact Hg. }
  split.
  - eapply perm_trans; [|apply (canon_nodes_aut g nv ev s Hw Hs p Hpin)].
    unfold canon_nodesG. eapply perm_trans; [apply Permutation_map; exact Hnodes|]. rewrite map_map.
    rewrite (map_ext _ (fun v => (cid (map s p) v, nv v))); [apply Permutation_refl|].
    intros v. rewrite (cid_map f f_inj), Hnv. reflexivity.
  - eapply perm_trans; [|apply (canon_arcs_aut g nv ev s Hw Hs p Hpin)].
    unfold canon_arcsG. eapply perm_trans; [apply Permutation_map; apply Hg|]. unfold relabel. simpl. rewrite map_map.
    rewrite (map_ext _ (fun e => (cid (map s p) (asrc e), cid (map s p) (adst e), ev (aattr e)))); [apply Permutation_refl|].
    intros e. unfold asrc, adst, aattr. simpl. rewrite !(cid_map f f_inj). reflexivity.
Qed.
End InvariantFull.

(** clause 2 in full for a bipartite selection (no 'label'; 'kind' or 'bipartite' selected) on a loop-free view: the renamed,
    re-presented view gets the same minimal label and the same canonical graph on the selected attributes *)
Theorem attr_invariant_full f (f_inj : forall x y, f x = f y -> x = y) g g' t nk ek lab p lab' p' :
  wf g -> kinds_ok g -> arcs_ok g -> nolabel nk -> (In NKind nk \/ In NBip nk) -> (forall v, find_arc g v v = None) ->
  geq g' (relabel f g) ->
  fst (canon_searchA g t nk ek) = Some (lab, p) -> fst (canon_searchA g' (relab_tab f t) nk ek) = Some (lab', p') ->
  lab' = lab /\
  Permutation (canon_nodesG g' (nvA g' (relab_tab f t) nk) p') (canon_nodesG g (nvA g t nk) p) /\
  Permutation (canon_arcsG g' (evA ek) p') (canon_arcsG g (evA ek) p).
Proof.
  intros Hw Hk Ha Hnl Hne Hloop Hg. rewrite !canon_searchA_G.
  apply (invariantG_full f f_inj g g' (nvA g t nk) (nvA g' (relab_tab f t) nk) (evA ek) (length nk) (length ek) Hw Hg); auto.
  - intros v. unfold nvA. apply map_ext. intros s.
    assert (Hkd : kind_of g' (f v) = kind_of g v).
    { rewrite (geq_kind_of (relabel f g) g' (f v) (Hwr f f_inj g Hw) (Hgs f g g' Hg)). apply kind_of_rn; auto. }
    destruct s; simpl; rewrite ?Hkd; auto. apply ltab_get_relab; auto.
  - apply pieceA; auto.
  - apply bit_pieceA.
  - apply npiece_injA; auto.
  - apply bit_injA; auto.
Qed.

(* ---------------- the species-view selections (aggregates), on loop-free species views ---------------- *)
Definition arcsS_ok (g : vgraph) : Prop := forall e, In e (varcs g) -> (-1 <= fst (aattr e))%Z /\ (-1 <= snd (aattr e))%Z.
Lemma evalS_str_props a s : nosep BAR (snd (evalS a s)) /\ nocolon (snd (evalS a s)).
Proof.
  destruct s; simpl.
  - split; [apply st_str_nosep|apply st_str_nocolon].
  - split; [apply st_str_nosep|apply st_str_nocolon].
  - split; intros [].
Qed.
Lemma evalS_by_str a b s : (-1 <= fst a)%Z /\ (-1 <= snd a)%Z -> (-1 <= fst b)%Z /\ (-1 <= snd b)%Z ->
  snd (evalS a s) = snd (evalS b s) -> evalS a s = evalS b s.
Proof.
  intros [Ha1 Ha2] [Hb1 Hb2]. destruct s; simpl; intros E; auto.
  - rewrite (st_str_inj _ _ Ha1 Hb1 E). reflexivity.
  - rewrite (st_str_inj _ _ Ha2 Hb2 E). reflexivity.
Qed.

Section SpInst.
Variables (g : vgraph) (t : ltab) (nk : list nsel) (ek : list sesel).
Hypothesis Hw : wf g.
Hypothesis Hk : kinds_ok g.
Hypothesis Ha : arcsS_ok g.
Hypothesis Hnl : nolabel nk.
Hypothesis Hne : In NKind nk \/ In NBip nk.

Lemma bit_pieceS a b : piece (bitG g (evS ek) (length ek) a b).
Proof.
  unfold bitG. destruct (find_arc g a b) as [x|].
  - split; [|discriminate]. apply (nosep_app BAR [49%N; COLON]); [intros [E|[E|[]]]; discriminate|].
    apply join_nosep; [discriminate|]. apply Forall_forall. intros y Hy. unfold evS in Hy. rewrite map_map in Hy.
    apply in_map_iff in Hy. destruct Hy as (s & <- & _). apply evalS_str_props.
  - split; [|discriminate]. apply (nosep_app BAR [48%N; COLON]); [intros [E|[E|[]]]; discriminate|].
    apply join_nosep; [discriminate|]. apply Forall_forall. intros y Hy. apply repeat_spec in Hy. subst. intros [].
Qed.
Lemma find_arcS_ok u v x : find_arc g u v = Some x -> (-1 <= fst x)%Z /\ (-1 <= snd x)%Z.
Proof. intros E. unfold find_arc in E. apply find_arc_l_some in E. apply (Ha _ E). Qed.
Lemma bit_injS a b a' b' : bitG g (evS ek) (length ek) a b = bitG g (evS ek) (length ek) a' b' ->
  option_map (evS ek) (find_arc g a b) = option_map (evS ek) (find_arc g a' b').
Proof.
  unfold bitG. destruct (find_arc g a b) as [x|] eqn:E1, (find_arc g a' b') as [y|] eqn:E2; simpl; intros E; try discriminate; auto.
  inversion E as [E']. f_equal. unfold evS in *.
  assert (Hc : forall z, Forall nocolon (map snd (map (evalS z) ek))).
  { intros z. apply Forall_forall. intros u Hu. rewrite map_map in Hu. apply in_map_iff in Hu. destruct Hu as (s & <- & _). apply evalS_str_props. }
  apply join_colon_inj in E'; auto; [|rewrite !map_length; reflexivity].
  apply map_by_str; auto. intros s _. apply evalS_by_str; eapply find_arcS_ok; eauto.
Qed.

(** clause 4 (count) in full for a species-view selection on a loop-free species view *)
Theorem spattr_count_exact lab p : (forall v, find_arc g v v = None) ->
  fst (canon_searchS g t nk ek) = Some (lab, p) ->
  NoDup (snd (canon_searchS g t nk ek)) /\
  forall q, In q (snd (canon_searchS g t nk ek)) <-> exists s, is_autG g (nvA g t nk) (evS ek) s /\ q = map s p.
Proof.
  intros Hloop. unfold canon_searchS.
  apply (autG_count_exact g (nvA g t nk) (evS ek) (length nk) (length ek) Hw (pieceA g t nk Hk Hnl Hne) bit_pieceS
           (npiece_injA g t nk Hk Hnl) bit_injS Hloop).
Qed.
End SpInst.

(** label_read for labelA: the label of a bipartite selection (no 'label'; 'kind' or 'bipartite' selected) determines, position by
    position, the selected node attributes and -- for distinct positions -- presence and selected attributes of the arcs *)
Theorem labelA_read g t nk ek p q : wf g -> kinds_ok g -> arcs_ok g -> nolabel nk -> (In NKind nk \/ In NBip nk) ->
  incl p (node_ids g) -> incl q (node_ids g) -> labelA g t nk ek p = labelA g t nk ek q ->
  length p = length q /\
  (forall i, i < length p -> nvA g t nk (nth i p 0%N) = nvA g t nk (nth i q 0%N)) /\
  (forall i j, i < length p -> j < length p -> i <> j ->
     option_map (evA ek) (find_arc g (nth i p 0%N) (nth j p 0%N)) = option_map (evA ek) (find_arc g (nth i q 0%N) (nth j q 0%N))).
Proof.
  intros Hw Hk Ha Hnl Hne Hp Hq E. rewrite !labelA_G, !labelG_X in E.
  destruct (label_readX (node_ids g) _ _ (pieceA g t nk Hk Hnl Hne) (bit_pieceA g ek) p q Hp Hq E) as (Hl & Hn & Hb).
  split; [exact Hl|]. split.
  - intros i Hi. apply (npiece_injA g t nk Hk Hnl); [apply Hp; apply nth_In; auto|apply Hq; apply nth_In; lia|apply Hn; auto].
  - intros i j Hi Hj Hij. apply (bit_injA g ek Ha). apply Hb; auto.
Qed.

(** clause 2 in full for a species-view selection on a loop-free species view *)
Theorem spattr_invariant_full f (f_inj : forall x y, f x = f y -> x = y) g g' t nk ek lab p lab' p' :
  wf g -> kinds_ok g -> arcsS_ok g -> nolabel nk -> (In NKind nk \/ In NBip nk) -> (forall v, find_arc g v v = None) ->
  geq g' (relabel f g) ->
  fst (canon_searchS g t nk ek) = Some (lab, p) -> fst (canon_searchS g' (relab_tab f t) nk ek) = Some (lab', p') ->
  lab' = lab /\
  Permutation (canon_nodesG g' (nvA g' (relab_tab f t) nk) p') (canon_nodesG g (nvA g t nk) p) /\
  Permutation (canon_arcsG g' (evS ek) p') (canon_arcsG g (evS ek) p).
Proof.
  intros Hw Hk Ha Hnl Hne Hloop Hg. unfold canon_searchS.
  apply (invariantG_full f f_inj g g' (nvA g t nk) (nvA g' (relab_tab f t) nk) (evS ek) (length nk) (length ek) Hw Hg); auto.
  - intros v. unfold nvA. apply map_ext. intros s.
    assert (Hkd : kind_of g' (f v) = kind_of g v).
    { rewrite (geq_kind_of (relabel f g) g' (f v) (Hwr f f_inj g Hw) (Hgs f g g' Hg)). apply kind_of_rn; auto. }
    destruct s; simpl; rewrite ?Hkd; auto. apply ltab_get_relab; auto.
  - apply pieceA; auto.
  - apply bit_pieceS.
  - apply npiece_injA; auto.
  - apply bit_injS; auto.
Qed.
