(** C06 — attribute selections: the closures over the caller's attribute dictionaries are the
    comparators of the projected graphs; every enumeration the search can ask for with the
    closures is the enumeration on the projections; hence every theorem about [find] speaks
    about [find_sel]. *)
From Coq Require Import List NArith Bool Arith Lia Permutation SetoidList.
From SK Require Import lib.LGraph lib.Mono lib.Reach model.C06_Model model.C06_Attrs lib.C06_Spec.
Import ListNotations.

(** ---------- the closures ---------- *)
Lemma leqb_map_forallb (f g : N -> N) na :
  leqb (map f na) (map g na) = forallb (fun k => N.eqb (f k) (g k)) na.
Proof. induction na as [|k r IH]; simpl; [reflexivity|]. rewrite IH. reflexivity. Qed.

Lemma node_match_sel_proj na h p : node_match_sel na h p = nm (proj_n na h) (proj_n na p).
Proof. unfold node_match_sel, nm, proj_n. simpl. rewrite leqb_map_forallb. reflexivity. Qed.

Lemma edge_match_sel_proj ea h p : edge_match_sel ea h p = em (proj_e ea h) (proj_e ea p).
Proof. unfold edge_match_sel, em, proj_e. rewrite leqb_map_forallb. reflexivity. Qed.

Lemma forallb_eqb_spec (f g : N -> N) l :
  forallb (fun k => N.eqb (f k) (g k)) l = true <-> forall k, In k l -> f k = g k.
Proof.
  rewrite forallb_forall. split; intros A k Hk.
  - apply N.eqb_eq. apply A. exact Hk.
  - apply N.eqb_eq. apply A. exact Hk.
Qed.

Lemma node_match_sel_meaning na h p :
  node_match_sel na h p = true <->
  (forall k, In k na -> aget k (fst h) = aget k (fst p)) /\ (hc p <= hc h)%N.
Proof.
  unfold node_match_sel. rewrite andb_true_iff, forallb_eqb_spec, N.leb_le. reflexivity.
Qed.

Lemma edge_match_sel_meaning ea h p :
  edge_match_sel ea h p = true <-> forall k, In k ea -> aget k h = aget k p.
Proof. unfold edge_match_sel. apply forallb_eqb_spec. Qed.

(** ---------- structure of a projection ---------- *)
Lemma node_ids_project na ea g : node_ids (project na ea g) = node_ids g.
Proof. unfold node_ids, project. simpl. rewrite map_map. reflexivity. Qed.

Lemma label_project na ea (g : rgraph) u :
  label (project na ea g) u = option_map (proj_n na) (label g u).
Proof.
  unfold label, project. simpl.
  induction (gnodes g) as [|[k v] r IH]; simpl; [reflexivity|].
  destruct (N.eqb u k); [reflexivity|exact IH].
Qed.

Lemma assoc_none_notin {V} k (l : list (N * V)) : assoc k l = None -> ~ In k (map fst l).
Proof.
  induction l as [|[k' v] r IH]; simpl; [intros _ []|].
  destruct (N.eqb_spec k k') as [->|Hne]; [discriminate|].
  intros E [E'|Hin]; [apply Hne; symmetry; exact E'|exact (IH E Hin)].
Qed.

Lemma lab_project na ea (g : rgraph) u :
  In u (node_ids g) -> lab (project na ea g) u = proj_n na (rlab g u).
Proof.
  intros Hin. unfold lab, rlab. rewrite label_project.
  destruct (label g u) eqn:E; simpl; [reflexivity|].
  exfalso. exact (assoc_none_notin _ _ E Hin).
Qed.

Lemma adj_project na ea (g : rgraph) u v :
  LGraph.adj (project na ea g) u v = option_map (proj_e ea) (LGraph.adj g u v).
Proof.
  unfold LGraph.adj, project. simpl.
  induction (gedges g) as [|[[a b] x] r IH]; simpl; [reflexivity|].
  destruct ((N.eqb a u && N.eqb b v) || (N.eqb a v && N.eqb b u)); [reflexivity|exact IH].
Qed.

Lemma nbrs_project na ea (g : rgraph) u : nbrs (project na ea g) u = nbrs g u.
Proof.
  unfold nbrs, project. simpl.
  induction (gedges g) as [|[[a b] x] r IH]; simpl; [reflexivity|].
  rewrite IH. reflexivity.
Qed.

Lemma degree_project na ea (g : rgraph) u : degree (project na ea g) u = rdegree g u.
Proof. unfold degree, rdegree. rewrite nbrs_project. reflexivity. Qed.

(** ---------- the enumerator on dictionaries = the enumerator on projections ---------- *)
Lemma forallb_ext_l {X} (f g : X -> bool) l : (forall x, f x = g x) -> forallb f l = forallb g l.
Proof. intros E. induction l as [|x r IH]; simpl; [reflexivity|]. rewrite E, IH. reflexivity. Qed.

Section ExtendMap.
Variables (A A' B B' : Type) (f : A -> A') (g : B -> B').
Variables (hn : list N) (pl hl : N -> A) (pl' hl' : N -> A').
Variables (pe he : N -> N -> option B) (pe' he' : N -> N -> option B').
Variables (nm0 : A -> A -> bool) (nm1 : A' -> A' -> bool) (em0 : B -> B -> bool) (em1 : B' -> B' -> bool).
Variable ind : bool.
Hypothesis Hnm : forall a b, nm1 (f a) (f b) = nm0 a b.
Hypothesis Hem : forall a b, em1 (g a) (g b) = em0 a b.
Hypothesis Hpe : forall u v, pe' u v = option_map g (pe u v).
Hypothesis Hhe : forall u v, he' u v = option_map g (he u v).
Hypothesis Hhl : forall h, In h hn -> hl' h = f (hl h).

Lemma edge_ok_map p h ph : edge_ok pe' he' em1 ind p h ph = edge_ok pe he em0 ind p h ph.
Proof.
  unfold edge_ok. rewrite Hpe, Hhe.
  destruct (pe p (fst ph)), (he h (snd ph)); simpl; auto.
Qed.

Lemma extend_map ps : (forall p, In p ps -> pl' p = f (pl p)) -> forall acc,
  extend hn pl' hl' pe' he' nm1 em1 ind ps acc = extend hn pl hl pe he nm0 em0 ind ps acc.
Proof.
  induction ps as [|p ps IH]; intros Hpl acc; simpl; [reflexivity|].
  assert (E : forall l, incl l hn ->
     flat_map (fun h => if ok pl' hl' pe' he' nm1 em1 ind p h acc
                        then extend hn pl' hl' pe' he' nm1 em1 ind ps ((p, h) :: acc) else []) l =
     flat_map (fun h => if ok pl hl pe he nm0 em0 ind p h acc
                        then extend hn pl hl pe he nm0 em0 ind ps ((p, h) :: acc) else []) l).
  { induction l as [|h l IHl]; intros Hincl; simpl; [reflexivity|].
    rewrite IHl by (intros x Hx; apply Hincl; right; exact Hx).
    f_equal.
    assert (Eok : ok pl' hl' pe' he' nm1 em1 ind p h acc = ok pl hl pe he nm0 em0 ind p h acc).
    { unfold ok. rewrite (Hhl h) by (apply Hincl; left; reflexivity).
      rewrite (Hpl p) by (left; reflexivity). rewrite Hnm.
      f_equal. apply forallb_ext_l. intros ph. apply edge_ok_map. }
    rewrite Eok. destruct (ok pl hl pe he nm0 em0 ind p h acc); [|reflexivity].
    apply IH. intros q Hq. apply Hpl. right. exact Hq. }
  apply E. apply incl_refl.
Qed.
End ExtendMap.


Theorem monos_sel_project na ea (H P : rgraph) hn pn :
  incl hn (node_ids H) -> incl pn (node_ids P) ->
  monos_on (project na ea H) (project na ea P) hn pn = monos_sel na ea H P hn pn.
Proof.
  intros Hh Hp. unfold monos_on, monos_sel, monos.
  apply (@extend_map _ _ _ _ (proj_n na) (proj_e ea)).
  - intros a b. symmetry. apply node_match_sel_proj.
  - intros a b. symmetry. apply edge_match_sel_proj.
  - intros u v. apply adj_project.
  - intros u v. apply adj_project.
  - intros h Hin. apply lab_project. apply Hh. exact Hin.
  - intros p Hin. apply lab_project. apply Hp. exact Hin.
Qed.

(** ---------- [find] only asks for whole-graph and component x component enumerations ---------- *)
Lemma comps_go_incl (g : graph) todo seen c : In c (comps_go g todo seen) -> incl c (node_ids g).
Proof.
  revert seen. induction todo as [|u r IH]; intros seen; simpl; [intros []|].
  destruct (LGraph.mem u seen); [apply IH|].
  intros [<-|Hin]; [|exact (IH _ Hin)].
  intros x Hx. apply filter_In in Hx. exact (proj1 Hx).
Qed.
Lemma comps_incl (g : graph) c : In c (comps g) -> incl c (node_ids g).
Proof. apply comps_go_incl. Qed.

Section EnumExt.
Variables (e1 e2 : list N -> list N -> list mapping) (H P : graph).
Hypothesis Hext : forall hn pn, incl hn (node_ids H) -> incl pn (node_ids P) -> e1 hn pn = e2 hn pn.

Lemma find_all_enum_ext maxr thr : find_all e1 maxr thr H P = find_all e2 maxr thr H P.
Proof. unfold find_all. rewrite Hext by apply incl_refl. reflexivity. Qed.

Lemma cc_outer_enum_ext cap thr pc : incl pc (node_ids P) -> forall cands maps n,
  (forall ih, In ih cands -> incl (snd ih) (node_ids H)) ->
  cc_outer e1 cap thr pc cands maps n = cc_outer e2 cap thr pc cands maps n.
Proof.
  intros Hpc. induction cands as [|[i hc] r IH]; intros maps n Hc; simpl; [reflexivity|].
  rewrite Hext by (try exact Hpc; apply (Hc (i, hc)); left; reflexivity).
  destruct (cc_inner cap thr i (e2 hc pc) maps n) as [[maps' n']|]; [|reflexivity].
  destruct (capped cap n'); [reflexivity|].
  apply IH. intros ih Hin. apply Hc. right. exact Hin.
Qed.

Lemma per_cc_all_enum_ext cap thr hcs : (forall ih, In ih hcs -> incl (snd ih) (node_ids H)) ->
  forall pcs, (forall pc, In pc pcs -> incl pc (node_ids P)) ->
  per_cc_all e1 cap thr hcs pcs = per_cc_all e2 cap thr hcs pcs.
Proof.
  intros Hh. induction pcs as [|pc r IH]; intros Hp; simpl; [reflexivity|].
  rewrite IH by (intros pc' Hin; apply Hp; right; exact Hin).
  rewrite (cc_outer_enum_ext cap thr pc (Hp pc (or_introl eq_refl))).
  - reflexivity.
  - intros ih Hin. apply filter_In in Hin. apply Hh. exact (proj1 Hin).
Qed.

Lemma index_from_snd {X} (l : list X) : forall k ih, In ih (index_from k l) -> In (snd ih) l.
Proof.
  induction l as [|x r IH]; intros k ih; simpl; [intros []|].
  intros [<-|Hin]; [left; reflexivity|right; exact (IH _ _ Hin)].
Qed.

Lemma find_comp_enum_ext maxr thr strict : find_comp e1 maxr thr strict H P = find_comp e2 maxr thr strict H P.
Proof.
  unfold find_comp. rewrite find_all_enum_ext.
  rewrite (per_cc_all_enum_ext (cc_cap maxr (length (comps P))) thr (index_from 0 (comps H))).
  - reflexivity.
  - intros ih Hin. apply comps_incl. exact (index_from_snd _ _ _ Hin).
  - intros pc Hin. apply comps_incl. exact Hin.
Qed.

Theorem find_enum_ext c : find e1 c H P = find e2 c H P.
Proof.
  unfold find, find_bt. rewrite !find_comp_enum_ext, !find_all_enum_ext. reflexivity.
Qed.
End EnumExt.

(** what the correspondence evaluates ([find_sel] with the enumerator run on the dictionaries)
    is [find] on the projections with the enumerator of the theorems *)
Theorem find_sel_project c na ea (H P : rgraph) :
  find_sel (monos_sel na ea H P) c na ea H P =
  find (monos_on (project na ea H) (project na ea P)) c (project na ea H) (project na ea P).
Proof.
  unfold find_sel. apply find_enum_ext. intros hn pn Hh Hp.
  symmetry. apply monos_sel_project.
  - rewrite <- (node_ids_project na ea H). exact Hh.
  - rewrite <- (node_ids_project na ea P). exact Hp.
Qed.

(** ---------- the pre-filter on the caller's graphs ---------- *)
Lemma qpf_loop_sel_project na ea (H P : rgraph) thr : forall ps est, incl ps (node_ids P) ->
  qpf_loop_sel na H P thr ps est = qpf_loop (project na ea H) (project na ea P) thr ps est.
Proof.
  induction ps as [|p ps IH]; intros est Hp; simpl; [reflexivity|].
  rewrite node_ids_project.
  assert (E : forall l, incl l (node_ids H) ->
    filter (fun h => node_match_sel na (rlab H h) (rlab P p) && (rdegree P p <=? rdegree H h)%N) l =
    filter (fun h => nm (lab (project na ea H) h) (lab (project na ea P) p) &&
                     (degree (project na ea P) p <=? degree (project na ea H) h)%N) l).
  { induction l as [|h l IHl]; intros Hl; simpl; [reflexivity|].
    rewrite IHl by (intros x Hx; apply Hl; right; exact Hx).
    rewrite (lab_project na ea H h) by (apply Hl; left; reflexivity).
    rewrite (lab_project na ea P p) by (apply Hp; left; reflexivity).
    rewrite <- node_match_sel_proj, !degree_project. reflexivity. }
  rewrite (E _ (incl_refl _)).
  destruct (lenN _ =? 0)%N; [reflexivity|].
  destruct (thr * 10000 <? _)%N; [reflexivity|].
  apply IH. intros x Hx. apply Hp. right. exact Hx.
Qed.

Theorem quick_pre_filter_sel_project na ea (H P : rgraph) thr :
  quick_pre_filter_sel na H P thr = quick_pre_filter (project na ea H) (project na ea P) thr.
Proof.
  unfold quick_pre_filter_sel, quick_pre_filter. rewrite node_ids_project.
  apply qpf_loop_sel_project. apply incl_refl.
Qed.
