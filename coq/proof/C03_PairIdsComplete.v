(** C03 — completeness of the pair ids handed out by _strip_explicit_h (default mode, templates with the same element on
    both sides of every atom and no h_pairs of their own): every removed hydrogen has ONE pair id of its own, and every
    non-hydrogen atom bonded to it in the template (on either side) carries that id in the prepared rule.  Together with
    [synrule_default_pairs]: two rule atoms share a pair id exactly when they are bonded to one removed hydrogen.
    Stdlib lists only. *)
From Coq Require Import List NArith ZArith Bool Lia.
From SK Require Import lib.Tok lib.LGraph model.C03_Model proof.C03_Proof proof.C03_Glue proof.C03_Backward proof.C03_Skeleton
                       proof.C03_StripCounts proof.C03_WiringCount proof.C03_Wiring proof.C03_PairIds proof.C03_StripExact proof.C03_StripCor.
Import ListNotations.
Local Open Scope Z_scope.

Definition bstep_i (pid : option N) (g' : its) (y : N) : its := if is_H_i g' y then g' else upd_node g' y (bump_i pid).

Lemma hp_of_bump_in pid A p : In p (hp_of A) -> In p (hp_of (bump_i pid A)).
Proof.
  unfold hp_of, bump_i. cbn [i_hp]. destruct pid as [q|]; [|auto]. unfold hp_append.
  destruct (i_hp A); simpl; intros I; [apply in_or_app; auto|destruct I].
Qed.
Lemma hp_of_bump_new p A : In p (hp_of (bump_i (Some p) A)).
Proof. unfold hp_of, bump_i. cbn [i_hp]. unfold hp_append. destruct (i_hp A); [apply in_or_app; right|]; left; reflexivity. Qed.

Lemma bstep_i_spec pid (g : its) y x A : NoDup (node_ids g) -> In (x, A) (gnodes g) ->
  node_ids (bstep_i pid g y) = node_ids g /\
  exists A', In (x, A') (gnodes (bstep_i pid g y)) /\ a_el (iG A') = a_el (iG A) /\
             (forall p, In p (hp_of A) -> In p (hp_of A')) /\
             (forall p, pid = Some p -> y = x -> N.eqb (a_el (iG A)) EL_H = false -> In p (hp_of A')).
Proof.
  intros Hnd I. unfold bstep_i. destruct (is_H_i g y) eqn:EH.
  - split; [reflexivity|]. exists A. split; [exact I|]. split; [reflexivity|]. split; [auto|].
    intros p _ -> Hx. exfalso. unfold is_H_i, label in EH. rewrite (assoc_nodup_in x (gnodes g) A Hnd I) in EH. congruence.
  - split; [apply ids_upd|]. unfold upd_node; cbn [gnodes].
    destruct (N.eqb_spec x y) as [->|Ne].
    + exists (bump_i pid A). split; [|split; [reflexivity|split]].
      * apply in_map_iff. exists (y, A). cbn [fst snd]. rewrite N.eqb_refl. auto.
      * intros p. apply hp_of_bump_in.
      * intros p -> _ _. apply hp_of_bump_new.
    + exists A. split; [|split; [reflexivity|split; [auto|]]].
      * apply in_map_iff. exists (x, A). cbn [fst snd]. destruct (N.eqb_spec x y); [contradiction|auto].
      * intros p _ E. congruence.
Qed.

Lemma bump_fold_i_spec pid ns : forall (g : its) x A, NoDup (node_ids g) -> In (x, A) (gnodes g) ->
  exists A', In (x, A') (gnodes (fold_left (bstep_i pid) ns g)) /\ a_el (iG A') = a_el (iG A) /\
             (forall p, In p (hp_of A) -> In p (hp_of A')) /\
             (forall p, pid = Some p -> In x ns -> N.eqb (a_el (iG A)) EL_H = false -> In p (hp_of A')).
Proof.
  induction ns as [|y r IH]; intros g x A Hnd I.
  - exists A. repeat split; auto. intros p _ [].
  - cbn [fold_left]. destruct (bstep_i_spec pid g y x A Hnd I) as (Eids & A1 & I1 & E1 & M1 & N1).
    assert (Hnd1 : NoDup (node_ids (bstep_i pid g y))) by (rewrite Eids; exact Hnd).
    destruct (IH _ x A1 Hnd1 I1) as (A' & I' & E' & M' & N'). exists A'. split; [exact I'|]. split; [congruence|]. split; [auto|].
    intros p Ep [->|Ix] Hx.
    + apply M'. apply (N1 p Ep eq_refl Hx).
    + apply (N' p Ep Ix). rewrite E1. exact Hx.
Qed.

(** completeness invariant on the rule graph during step 2 *)
Definition cinv (tpl g : its) (asg : list (N * N)) : Prop :=
  forall p h, In (p, h) asg -> forall x, In x (nbrs tpl h) -> is_H_i tpl x = false -> has_node tpl x = true ->
  exists A, In (x, A) (gnodes g) /\ In p (hp_of A).

Lemma skel_nodup tpl g R : NoDup (node_ids tpl) -> skel tpl g R -> NoDup (node_ids g).
Proof.
  intros Hnd S. rewrite (skel_ids tpl g R S). clear - Hnd. unfold node_ids in Hnd. induction (gnodes tpl) as [|x r IH]; simpl; [constructor|].
  inversion Hnd as [|? ? N1 N2]; subst. destruct (keepn R x); simpl; [constructor|]; auto.
  intros I. apply N1. apply in_map_iff in I. destruct I as (y & E & I). apply filter_In in I. apply in_map_iff. exists y. tauto.
Qed.

Lemma skel_entry tpl g R x : NoDup (node_ids tpl) -> skel tpl g R -> has_node tpl x = true -> ~ In x R ->
  exists A a0, In (x, A) (gnodes g) /\ label tpl x = Some a0 /\ a_el (iG A) = a_el (iG a0).
Proof.
  intros Hnd S Hx HnR. pose proof S as [_ S2 _]. unfold has_node in Hx. destruct (label tpl x) as [a0|] eqn:El; [|discriminate].
  unfold label in El. apply assoc_in in El.
  assert (Iq : In (x, a0) (filter (keepn R) (gnodes tpl))).
  { apply filter_In. split; [exact El|]. unfold keepn. cbn [fst]. destruct (mem x R) eqn:Em; [apply mem_spec in Em; contradiction|reflexivity]. }
  destruct (Forall2_in_r _ _ _ _ S2 Iq) as ([k A] & IA & (E1 & E2 & _)). cbn [fst snd] in *. subst k.
  exists A, a0. split; [exact IA|]. split; [reflexivity|]. destruct (iG A), (iG a0); inversion E2; reflexivity.
Qed.

Lemma cinv_strip tpl g R asg h p : NoDup (node_ids tpl) -> skel tpl g R -> (forall x, In x R -> is_H_i tpl x = true) ->
  is_H_i tpl h = true -> has_node g h = true -> cinv tpl g asg -> cinv tpl (strip_i g h (Some p)) ((p, h) :: asg).
Proof.
  intros Hnd S HR Hh Hg C. pose proof (skel_nodup tpl g R Hnd S) as Ng.
  unfold strip_i. rewrite Hg. change (fold_left _ (nbrs g h) g) with (fold_left (bstep_i (Some p)) (nbrs g h) g).
  assert (HhR : ~ In h R).
  { intros Ch. apply has_node_in in Hg. rewrite (skel_ids tpl g R S) in Hg. apply in_map_iff in Hg. destruct Hg as ([k a] & E & I). cbn [fst] in E. subst k.
    apply filter_In in I. destruct I as [_ I]. unfold keepn in I. cbn [fst] in I. apply negb_true_iff in I. apply mem_spec in Ch. congruence. }
  intros q h0 Iq x Ix Hx Hnx.
  assert (HxR : ~ In x R) by (intros Cx; rewrite (HR x Cx) in Hx; discriminate).
  assert (Nxh : x <> h) by (intros ->; congruence).
  assert (Keep : forall A', In (x, A') (gnodes (fold_left (bstep_i (Some p)) (nbrs g h) g)) ->
                 In (x, A') (gnodes (remove_node (fold_left (bstep_i (Some p)) (nbrs g h) g) h))).
  { intros A' I'. unfold remove_node; cbn [gnodes]. apply filter_In. split; [exact I'|]. cbn [fst]. destruct (N.eqb_spec x h); [contradiction|reflexivity]. }
  destruct Iq as [E|Iq].
  - inversion E; subst q h0. clear E.
    destruct (skel_entry tpl g R x Hnd S Hnx HxR) as (A & a0 & IA & La & Ea).
    destruct (bump_fold_i_spec (Some p) (nbrs g h) g x A Ng IA) as (A' & I' & _ & _ & N').
    exists A'. split; [apply Keep; exact I'|]. apply (N' p eq_refl).
    + (* x is still a neighbour of h in the current graph *)
      pose proof S as [_ _ S3]. apply nbrs_in in Ix. destruct Ix as (e & Ie & He). apply nbrs_in. exists e. split; [|exact He].
      rewrite S3. apply filter_In. split; [exact Ie|]. unfold keepe.
      assert (Mh : mem h R = false) by (destruct (mem h R) eqn:Em; [apply mem_spec in Em; contradiction|reflexivity]).
      assert (Mx : mem x R = false) by (destruct (mem x R) eqn:Em; [apply mem_spec in Em; contradiction|reflexivity]).
      destruct He as [[E1 E2]|(_ & E1 & E2)]; rewrite E1, E2, Mh, Mx; reflexivity.
    + rewrite Ea. unfold is_H_i in Hx. rewrite La in Hx. exact Hx.
  - destruct (C q h0 Iq x Ix Hx Hnx) as (A & IA & PA).
    destruct (bump_fold_i_spec (Some p) (nbrs g h) g x A Ng IA) as (A' & I' & _ & M' & _).
    exists A'. split; [apply Keep; exact I'|auto].
Qed.

Lemma strip_shared_complete tpl L0 R0 hs : NoDup (node_ids tpl) -> NoDup (node_ids L0) -> NoDup (node_ids R0) ->
  NoDup hs -> (forall h, In h hs -> is_H_i tpl h = true /\ has_node tpl h = true /\ has_node L0 h = true /\ has_node R0 h = true) ->
  forall (t : triple) pid R asg, (forall h, In h hs -> ~ In h R) -> (forall x, In x R -> is_H_i tpl x = true) ->
  inv3 tpl L0 R0 t R -> cinv tpl (fst (fst t)) asg ->
  exists asg', cinv tpl (fst (fst (fst (fold_left (fun (st : triple * N) h =>
         let '(rc, l, r, pid) := st in
         (strip_i rc h (Some pid), strip_m l h (Some pid), strip_m r h (Some pid), N.succ pid)) hs (t, pid))))) asg' /\
    (forall h, In h hs -> exists p, In (p, h) asg') /\ (forall q, In q asg -> In q asg').
Proof.
  intros NT NL NR Hnd. induction Hnd as [|h r Hx Hn IH]; intros Hall t pid R asg Hdis HR I C; [cbn [fold_left fst]; exists asg; split; [exact C|split; [intros h []|auto]]|].
  cbn [fold_left]. destruct t as [[rc l] rr]. destruct I as [I1 I2 I3 I4 I5]. unfold tl_, tr_ in *. cbn [fst snd] in *.
  destruct (Hall h (or_introl eq_refl)) as (H1 & H2 & H3 & H4). pose proof (Hdis h (or_introl eq_refl)) as HhR.
  assert (Em : mem h R = false) by (destruct (mem h R) eqn:E; [apply mem_spec in E; contradiction|reflexivity]).
  assert (El : has_node l h = true) by (rewrite (has_node_mskel L0 l R h NL I2), H3, Em; reflexivity).
  assert (Er : has_node rr h = true) by (rewrite (has_node_mskel R0 rr R h NR I3), H4, Em; reflexivity).
  assert (Ec : has_node rc h = true) by (exact (has_node_skel tpl rc R h I1 H2 HhR)).
  destruct (IH (fun x Ix => Hall x (or_intror Ix)) (strip_i rc h (Some pid), strip_m l h (Some pid), strip_m rr h (Some pid)) (N.succ pid) (h :: R) ((pid, h) :: asg))
    as (asg' & C' & A' & B').
  - intros x Ix [E|Cx]; [subst; contradiction|exact (Hdis x (or_intror Ix) Cx)].
  - intros x [<-|Ix]; [exact H1|exact (HR x Ix)].
  - constructor; unfold tl_, tr_; cbn [fst snd].
    + pose proof (skel_strip_i_exact tpl rc R h (Some pid) (fun _ => H1) I1) as S. rewrite Ec in S. exact S.
    + pose proof (mskel_strip_exact L0 l R h (Some pid) NL I4 I2) as S. rewrite El in S. exact S.
    + pose proof (mskel_strip_exact R0 rr R h (Some pid) NR I5 I3) as S. rewrite Er in S. exact S.
    + apply strip_m_nodup. exact I4.
    + apply strip_m_nodup. exact I5.
  - cbn [fst]. exact (cinv_strip tpl rc R asg h pid NT I1 HR H1 Ec C).
  - exists asg'. split; [exact C'|]. split.
    + intros x [<-|Ix]; [exists pid; apply B'; left; reflexivity|exact (A' x Ix)].
    + intros q Iq. apply B'. right. exact Iq.
Qed.

Lemma refresh_types_hp_fwd rc l r rc' : refresh_types rc l r = Some rc' ->
  forall x A0, In (x, A0) (gnodes rc) -> exists A, In (x, A) (gnodes rc') /\ i_hp A = i_hp A0.
Proof.
  unfold refresh_types.
  match goal with |- context [fold_right ?f _ _] => set (F := f) end.
  destruct (fold_right F (Some []) (gnodes rc)) as [ns|] eqn:E; [|discriminate]. intros H. inversion H; subst. cbn [gnodes].
  clear H. revert ns E. induction (gnodes rc) as [|[k0 a0] r0 IH]; intros ns E x A0 I; [destruct I|].
  cbn [fold_right] in E. destruct (fold_right F (Some []) r0) as [ns0|]; [|unfold F in E; discriminate].
  unfold F at 1 in E. cbn [fst snd] in E.
  destruct (label l k0); [|discriminate]. destruct (label r k0); [|discriminate]. inversion E; subst. destruct I as [I|I].
  - inversion I; subst. eexists. split; [left; reflexivity|reflexivity].
  - destruct (IH ns0 eq_refl x A0 I) as (A & IA & EA). exists A. split; [right; exact IA|exact EA].
Qed.

Theorem synrule_default_pairs_complete (tpl rc : its) (l r : molg) :
  nodupb (node_ids tpl) = true -> (forall k a, In (k, a) (gnodes tpl) -> a_el (iH a) = a_el (iG a)) ->
  synrule tpl true = Some (rc, l, r) ->
  forall h, is_H_i tpl h = true -> heavy_nbr (side0 iG eG tpl) h = true -> heavy_nbr (side0 iH eH tpl) h = true ->
  exists p, forall x, In x (nbrs tpl h) -> is_H_i tpl x = false -> has_node tpl x = true ->
            exists A, label rc x = Some A /\ In p (hp_of A).
Proof.
  intros Hnd0 Hel H h Hh Hl Hr. pose proof (nodupb_NoDup _ Hnd0) as Hnd.
  destruct (synrule_default_pointwise tpl rc l r Hnd0 Hel H) as (R & _ & Memb & _ & _ & _ & Nrc & _).
  unfold synrule in H. cbn [negb] in H. unfold its_decompose in H.
  destruct (strip_explicit_h _ _ _) as [[[rc1 l1] r1]|] eqn:Es; [|discriminate].
  destruct (refresh_types rc1 l1 r1) as [rc'|] eqn:Er; [|discriminate]. inversion H; subst rc' l1 r1. clear H.
  destruct (strip_exact tpl Hnd Hel rc1 l r Es) as (hs & Eh & _).
  pose proof (strip_value tpl Hnd Hel hs Eh) as Ev. rewrite Ev in Es. inversion Es as [Et]. clear Es.
  pose proof Eh as Eh'. rewrite shared_h_unfold in Eh'. destruct (sh_fold_spec _ _ _ hs Eh') as [Hspec Hnodup].
  assert (Hhs : forall x, In x (sort_N hs) -> is_H_i tpl x = true /\ has_node tpl x = true /\ has_node (side0 iG eG tpl) x = true /\ has_node (side0 iH eH tpl) x = true).
  { intros x I. apply (proj1 (in_sort_N_iff x hs)) in I. apply (proj1 (Hspec x)) in I. destruct I as (I & _ & _).
    apply (proj1 (h_nodes_isH (side0 iG eG tpl) x (NL0 tpl Hnd))) in I. rewrite (isH_L0 tpl) in I. pose proof (isH_has tpl x I) as Hx.
    rewrite (has_L0 tpl), (has_R0 tpl). auto. }
  assert (I0 : inv3 tpl (side0 iG eG tpl) (side0 iH eH tpl) (init_i (standardize_hydrogen tpl), side0 iG eG tpl, side0 iH eH tpl) []).
  { constructor; unfold tl_, tr_; cbn [fst snd]; [apply skel_nil|apply mskel_nil|apply mskel_nil|exact (NL0 tpl Hnd)|exact (NR0 tpl Hnd)]. }
  destruct (strip_shared_complete tpl _ _ (sort_N hs) Hnd (NL0 tpl Hnd) (NR0 tpl Hnd)
              (nodup_sort_N hs (Hnodup (NoDup_map_filter _ (gnodes (side0 iG eG tpl)) (NL0 tpl Hnd)))) Hhs
              (init_i (standardize_hydrogen tpl), side0 iG eG tpl, side0 iH eH tpl) 1%N [] [] (fun _ _ C => C) (fun x C => match C with end) I0)
    as (asg & C & A & _).
  { intros p0 h0 []. }
  assert (C2 : cinv tpl (fst (fst (run2 tpl hs))) asg) by exact C. clear C. rename C2 into C. rewrite Et in C. cbn [fst] in C.
  assert (Ih : In h (sort_N hs)).
  { apply (proj2 (in_sort_N_iff h hs)). apply (proj2 (Hspec h)). split; [apply (proj2 (h_nodes_isH _ h (NL0 tpl Hnd))); rewrite (isH_L0 tpl); exact Hh|].
    pose proof (isH_has tpl h Hh) as Hn. split; [rewrite (has_R0 tpl); exact Hn|].
    unfold fully_removable. rewrite !removable_on_spec, (has_L0 tpl), (has_R0 tpl), Hn, Hl, Hr. reflexivity. }
  destruct (A h Ih) as [p Ip]. exists p. intros x Ix Hx Hnx.
  destruct (C p h Ip x Ix Hx Hnx) as (A0 & IA0 & PA0).
  destruct (refresh_types_hp_fwd _ _ _ _ Er x A0 IA0) as (A1 & IA1 & EA1).
  exists A1. split; [apply assoc_nodup_in; assumption|]. unfold hp_of in *. rewrite EA1. exact PA0.
Qed.
