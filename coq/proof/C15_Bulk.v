(** C15 (round 5) — the bulk entry points (model/C15_Bulk.v) are folds of individual additions:
    parse_rxns = one add_rxn_from_str per item, in order, stopping at the first line that raises; add_rxn_from_str = one add_rxn.
    Consequences: the store invariant survives every bulk call (also a failing one), and a successful parse_rxns stores
    exactly one reaction per item — repeated lines and repeated reactions under different rules included. *)
From stdpp Require Import gmap strings sets pretty.
From SK Require Import lib.Tok model.C15_Model model.C15_Ext proof.C15_Proof proof.C15_Ext model.C16_Model proof.C16_Defs proof.C16_Chars
                       proof.C16_Str proof.C16_StrOrder proof.C16_BipA proof.C16_BipB proof.C16_Reach model.C15_Bulk.
Local Open Scope string_scope.
Local Open Scope list_scope.

(** parse_rxns item by item *)
Lemma parse_items_nil s dr ps pf : parse_items s [] dr ps pf = (s, None).
Proof. done. Qed.
Lemma parse_items_cons s it items dr ps pf :
  parse_items s (it :: items) dr ps pf =
  match parse_item s it.1 it.2 dr ps pf with
  | (s', None) => parse_items s' items dr ps pf
  | (s', Some e) => (s', Some e)
  end.
Proof.
  unfold parse_items. cbn [foldl]. destruct (parse_item s it.1 it.2 dr ps pf) as [s' [e|]]; [|done].
  induction items as [|it' items IH]; [done|]. cbn [foldl]. exact IH.
Qed.

(** one item = one add_rxn_from_str call, with the rule / suffix arguments parse_rxns chooses *)
Lemma parse_item_is_add_from_str s line ex dr ps pf :
  ∃ rule' ps', parse_item s line ex dr ps pf = add_from_str s line rule' ps'.
Proof.
  unfold parse_item. destruct ex as [r|].
  - destruct (pf && ps); [destruct (bar_rule_search _)|]; eauto.
  - destruct ps; eauto.
Qed.

(** a successful add_rxn_from_str stores exactly one new reaction, at the end, under a fresh id *)
Lemma add_from_str_one s line rule ps s' : add_from_str s line rule ps = (s', None) →
  ∃ e rx, edges s !! e = None ∧ edges s' = <[ e := rx ]> (edges s) ∧ order s' = order s ++ [e].
Proof. apply add_from_str_appends. Qed.

(** NO DEDUPLICATION: a parse_rxns that raises nothing stores one reaction per item, whatever the items are *)
Lemma parse_items_count items : ∀ s dr ps pf s', parse_items s items dr ps pf = (s', None) →
  length (order s') = (length (order s) + length items)%nat ∧ order s `prefix_of` order s'.
Proof.
  induction items as [|it items IH]; intros s dr ps pf s' Hp.
  - rewrite parse_items_nil in Hp. injection Hp as <-. split; [cbn; lia|done].
  - rewrite parse_items_cons in Hp. destruct (parse_item s it.1 it.2 dr ps pf) as [s1 [e|]] eqn:Hi; [done|].
    destruct (parse_item_is_add_from_str s it.1 it.2 dr ps pf) as (rule' & ps' & Heq). rewrite Heq in Hi.
    destruct (add_from_str_one _ _ _ _ _ Hi) as (e & rx & _ & _ & Ho).
    destruct (IH s1 dr ps pf s' Hp) as [Hlen Hpre]. split.
    + rewrite Hlen, Ho, app_length. cbn. lia.
    + etrans; [|exact Hpre]. rewrite Ho. by apply prefix_app_r.
Qed.

(** the invariant under the bulk operations *)
Lemma step6_Inv w o : Forall Inv (nets w) → Forall Inv (nets (step6 w o).1.1).
Proof.
  intros Hw. destruct o as [o2|i items dr ps pf|i line rule ps]; cbn [step6].
  - pose proof (step2_Inv w o2 Hw) as H. destruct (step2 w o2) as [[w' er] a]. exact H.
  - cbn. apply Forall_insert; [done|]. apply parse_items_Inv. by apply getn_Inv.
  - cbn. apply Forall_insert; [done|]. apply add_from_str_Inv. by apply getn_Inv.
Qed.
Lemma run6_Inv n k ops : Forall Inv (nets (fold_left (λ w o, (step6 w o).1.1) ops (init_world2 n k))).
Proof.
  assert (∀ w, Forall Inv (nets w) → Forall Inv (nets (fold_left (λ w o, (step6 w o).1.1) ops w))) as H.
  { induction ops as [|o ops IH]; intros w Hw; [done|]. cbn. apply IH. by apply step6_Inv. }
  apply H. cbn. apply Forall_replicate. apply Inv_init.
Qed.

(** a bulk call touches only its target network, never the caller's side objects *)
Lemma step6_frame w o j :
  match o with B2 _ => False | BParse i _ _ _ _ | BAddStr i _ _ _ => j ≠ i end →
  nets (step6 w o).1.1 !! j = nets w !! j ∧ pool (step6 w o).1.1 = pool w.
Proof.
  destruct o as [o2|i items dr ps pf|i line rule ps]; [done| |]; intros Hj; cbn [step6 fst snd nets pool];
    (split; [by apply list_lookup_insert_ne|done]).
Qed.

(** non-vacuity: the same transformation under two rules, a repeated item, a line equal to a stored reaction — five items,
    five reactions; a line without arrow stops the call after the items before it *)
Definition exb_ops : list op6 :=
  [ B2 (OBase (OAdd 0 [("A", 1%Z)] [("B", 1%Z)] "r" None));
    BParse 0 [("A >> B", Some "q"); ("A >> B", Some "R1"); ("A >> B", Some "q"); ("B >> C", None); ("A >> B", None)] "dflt" true false;
    BParse 0 [("C >> D", None); ("no arrow", None); ("D >> E", None)] "r" true false;
    BAddStr 0 "2A + B >> C | rule=R1" None true ].
Definition exb_net : net := getn (nets (fold_left (λ w o, (step6 w o).1.1) exb_ops (init_world2 1 0))) 0.
Example ex_bulk_nonvacuous :
  order exb_net = ["r_1"; "q_1"; "R1_1"; "q_2"; "dflt_1"; "dflt_2"; "r_2"; "R1_2"] ∧
  (step6 (fold_left (λ w o, (step6 w o).1.1) (take 2 exb_ops) (init_world2 1 0)) (BParse 0 [("C >> D", None); ("no arrow", None); ("D >> E", None)] "r" true false)).1.2
    = I 2.
Proof. split; by vm_compute. Qed.
