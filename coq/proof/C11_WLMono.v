(** C11 (round 5) — the sweeps of the estimate: one more permitted sweep either changes nothing or is one application of
    [refine_once]; the colour classes only get FINER (nodes with equal colours after k+1 permitted sweeps had equal colours
    after k), and once a sweep has changed nothing every larger [max_iter] gives the same colouring.  With
    C11_wl_never_splits: true orbits <= classes after k+1 sweeps <= classes after k sweeps.  Stdlib lists. *)
From Coq Require Import List NArith ZArith Bool Arith Lia.
From SK Require Import lib.Tok lib.LGraph model.C11_Model proof.C11_Aut proof.C11_WL proof.C11_Main.
Import ListNotations.

(** ---------- the palette: equal numbers = equal labels (for labels that were assigned) ---------- *)
Section Pal2.
Variable X : Type.
Variable xeqb : X -> X -> bool.
Hypothesis xeqb_eq : forall x y, xeqb x y = true <-> x = y.

Lemma index_of_some_nth x l : forall k i, index_of xeqb x l k = Some i ->
  exists j, (i = k + N.of_nat j)%N /\ nth_error l j = Some x.
Proof.
  induction l as [|y r IH]; simpl; intros k i H; [discriminate|].
  destruct (xeqb x y) eqn:E.
  - inversion H; subst. apply xeqb_eq in E. subst y. exists 0%nat. split; [lia | reflexivity].
  - destruct (IH _ _ H) as (j & Ei & Hn). exists (S j). split; [lia | exact Hn].
Qed.

Lemma index_of_in x l : In x l -> forall k, index_of xeqb x l k <> None.
Proof.
  induction l as [|y r IH]; intros Hin k; [destruct Hin|]. simpl.
  destruct (xeqb x y) eqn:E; [discriminate|]. apply IH. destruct Hin as [->|Hin]; [|exact Hin].
  rewrite (proj2 (xeqb_eq x x) eq_refl) in E. discriminate.
Qed.

Lemma final_covers labels : forall seen x, In x labels \/ In x seen -> In x (final xeqb labels seen).
Proof.
  induction labels as [|y r IH]; intros seen x H; simpl.
  - destruct H as [[]|H]; exact H.
  - destruct (index_of xeqb y seen 0%N) as [i|] eqn:E.
    + apply IH. destruct H as [[<-|H]|H]; [|left; exact H | right; exact H].
      right. destruct (index_of_some_nth y seen 0%N i E) as (j & _ & Hn). exact (nth_error_In _ _ Hn).
    + apply IH. destruct H as [[<-|H]|H]; [right; apply in_or_app; right; left; reflexivity | left; exact H |
                                         right; apply in_or_app; left; exact H].
Qed.

Lemma idx_inj l x y : In x l -> In y l -> idx xeqb l x = idx xeqb l y -> x = y.
Proof.
  intros Hx Hy. unfold idx.
  destruct (index_of xeqb x l 0%N) as [i|] eqn:Ex; [|exfalso; exact (index_of_in x l Hx 0%N Ex)].
  destruct (index_of xeqb y l 0%N) as [j|] eqn:Ey; [|exfalso; exact (index_of_in y l Hy 0%N Ey)].
  intros ->. destruct (index_of_some_nth x l _ _ Ex) as (a & Ea & Hna). destruct (index_of_some_nth y l _ _ Ey) as (b & Eb & Hnb).
  assert (a = b) by lia. subst b. congruence.
Qed.
End Pal2.

Lemma rl_eqb_eq a b : rl_eqb a b = true <-> a = b.
Proof.
  unfold rl_eqb. rewrite andb_true_iff, N.eqb_eq. destruct a as [a1 a2], b as [b1 b2]. simpl. split.
  - intros [-> H]. f_equal. revert b2 H. induction a2 as [|x r IH]; intros [|y r'] H; simpl in H; try discriminate; [reflexivity|].
    apply andb_true_iff in H. destruct H as [H1 H2]. unfold pair_eqb in H1. apply andb_true_iff in H1.
    destruct H1 as [Hf Hs]. apply N.eqb_eq in Hf. apply N.eqb_eq in Hs. destruct x, y. simpl in *. subst. f_equal. apply IH. exact H2.
  - intros [= -> ->]. split; [reflexivity | apply lpeqb_refl].
Qed.

(** ---------- one sweep refines ---------- *)
Lemma sweep_refines fe (g : graph) cs u v : In u (node_ids g) -> In v (node_ids g) ->
  col (fst (refine_once fe g cs)) u = col (fst (refine_once fe g cs)) v -> col cs u = col cs v.
Proof.
  intros Hu Hv. rewrite (refine_once_colour fe g cs u Hu), (refine_once_colour fe g cs v Hv). intros E.
  assert (Hin : forall w, In w (node_ids g) -> In (rlabel fe g cs w) (final rl_eqb (map (rlabel fe g cs) (node_ids g)) [])).
  { intros w Hw. apply (final_covers _ rl_eqb rl_eqb_eq). left. apply in_map. exact Hw. }
  apply (idx_inj _ rl_eqb rl_eqb_eq _ _ _ (Hin u Hu) (Hin v Hv)) in E.
  unfold rlabel in E. inversion E. reflexivity.
Qed.

(** ---------- one more permitted sweep ---------- *)
Lemma refine_S fe (g : graph) k : forall cs,
  refine fe g (S k) cs = refine fe g k cs \/ refine fe g (S k) cs = fst (refine_once fe g (refine fe g k cs)).
Proof.
  induction k as [|k IH]; intros cs.
  - right. change (refine fe g 1 cs) with (let '(cs', ch) := refine_once fe g cs in if ch then cs' else cs').
    change (refine fe g 0 cs) with cs. destruct (refine_once fe g cs) as [cs' ch]. destruct ch; reflexivity.
  - change (refine fe g (S (S k)) cs) with (let '(cs', ch) := refine_once fe g cs in if ch then refine fe g (S k) cs' else cs').
    change (refine fe g (S k) cs) with (let '(cs', ch) := refine_once fe g cs in if ch then refine fe g k cs' else cs').
    destruct (refine_once fe g cs) as [cs' ch]. destruct ch; [|left; reflexivity]. apply IH.
Qed.

Lemma colouring_canonical (ids : list N) (cs : colouring) :
  map fst cs = ids -> NoDup ids -> cs = combine ids (map (col cs) ids).
Proof.
  intros <-. induction cs as [|[u c] r IH]; simpl; intros Hnd; [reflexivity|].
  inversion Hnd as [|? ? Hu Hr]; subst. unfold col at 1. simpl. rewrite N.eqb_refl. f_equal.
  rewrite (IH Hr) at 1. f_equal. apply map_ext_in. intros w Hw. unfold col. simpl.
  destruct (N.eqb_spec w u) as [->|Hne]; [contradiction | reflexivity].
Qed.

Lemma refine_nodes' fe (g : graph) k : forall cs, map fst cs = node_ids g -> map fst (refine fe g k cs) = node_ids g.
Proof. exact (refine_nodes fe g k). Qed.

Lemma unchanged_sweep_is_identity fe (g : graph) cs :
  map fst cs = node_ids g -> NoDup (node_ids g) ->
  snd (refine_once fe g cs) = false -> fst (refine_once fe g cs) = cs.
Proof.
  intros Hfst Hnd Hch.
  assert (Hfst' : map fst (fst (refine_once fe g cs)) = node_ids g) by apply refine_once_nodes.
  transitivity (combine (node_ids g) (map (col (fst (refine_once fe g cs))) (node_ids g)));
    [apply colouring_canonical; assumption|].
  transitivity (combine (node_ids g) (map (col cs) (node_ids g))); [|symmetry; apply colouring_canonical; assumption].
  f_equal. apply map_ext_in. intros u Hu.
  unfold refine_once in Hch. simpl in Hch. apply negb_false_iff in Hch. rewrite forallb_forall in Hch.
  specialize (Hch u Hu). apply N.eqb_eq in Hch. exact Hch.
Qed.

Theorem wl_sweeps (fn : nlab -> N) (fe : elab -> N) (g : graph) (k : nat) : NoDup (node_ids g) ->
  (wl fn fe g (S k) = wl fn fe g k \/ wl fn fe g (S k) = fst (refine_once fe g (wl fn fe g k))) /\
  (forall u v, In u (node_ids g) -> In v (node_ids g) ->
     col (wl fn fe g (S k)) u = col (wl fn fe g (S k)) v -> col (wl fn fe g k) u = col (wl fn fe g k) v) /\
  (forall j u v, In u (node_ids g) -> In v (node_ids g) ->
     col (wl fn fe g (k + j)) u = col (wl fn fe g (k + j)) v -> col (wl fn fe g k) u = col (wl fn fe g k) v) /\
  (snd (refine_once fe g (wl fn fe g k)) = false -> forall j, wl fn fe g (k + j) = wl fn fe g k).
Proof.
  intros Hnd.
  assert (Hstep : forall k', wl fn fe g (S k') = wl fn fe g k' \/ wl fn fe g (S k') = fst (refine_once fe g (wl fn fe g k')))
    by (intros k'; apply refine_S).
  assert (Hmono : forall k' u v, In u (node_ids g) -> In v (node_ids g) ->
            col (wl fn fe g (S k')) u = col (wl fn fe g (S k')) v -> col (wl fn fe g k') u = col (wl fn fe g k') v).
  { intros k' u v Hu Hv. destruct (Hstep k') as [->| ->]; [tauto | apply sweep_refines; assumption]. }
  split; [apply Hstep|]. split; [apply Hmono|]. split.
  - intros j. induction j as [|j IH]; intros u v Hu Hv; [rewrite Nat.add_0_r; tauto|].
    rewrite Nat.add_succ_r. intros E. apply IH; [exact Hu | exact Hv|]. apply Hmono; assumption.
  - intros Hch j. induction j as [|j IH]; [rewrite Nat.add_0_r; reflexivity|].
    rewrite Nat.add_succ_r. destruct (Hstep (k + j)%nat) as [E|E]; rewrite E, IH; [reflexivity|].
    apply unchanged_sweep_is_identity; [apply wl_nodes | exact Hnd | exact Hch].
Qed.

(** non-vacuity: the path C-C-C-C-C: degree colours after 0 sweeps (ends / inner), the centre separates after 1 sweep,
    the second sweep changes nothing, more sweeps give the same colouring *)
Definition ex_p5 : graph :=
  LG (map (fun i => (i, (0%N, 0%N, 0%N))) [1; 2; 3; 4; 5]%N)
     [(1%N, 2%N, (0%N, 0%N)); (2%N, 3%N, (0%N, 0%N)); (3%N, 4%N, (0%N, 0%N)); (4%N, 5%N, (0%N, 0%N))].
Example ex_sweeps :
  map snd (wl n_exact e_order ex_p5 0) = [0; 1; 1; 1; 0]%N /\ map snd (wl n_exact e_order ex_p5 1) = [0; 1; 2; 1; 0]%N /\
  snd (refine_once e_order ex_p5 (wl n_exact e_order ex_p5 1)) = false /\
  wl n_exact e_order ex_p5 10 = wl n_exact e_order ex_p5 1.
Proof. vm_compute. repeat split. Qed.
