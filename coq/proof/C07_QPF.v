(** C07 — round 5: SubgraphSearchEngine._quick_pre_filter, the third pre-filter the property anchors.  Unlike the WL filter, the
    use_filter label filters and the fast invariant check it is NOT a necessary condition: its estimate guard (running product of the
    candidate counts > threshold * 1e4) empties results that exist.  Documented behaviour of find_subgraph_mappings ("Empty if none or
    if any guard (pre-filter or enumeration) exceeds the threshold"), kept as it is: the clause "turning any cheap pre-filter on or off
    never changes a result set" is REFUTED for it, with a concrete witness; what does hold is stated next to it.  Stdlib lists. *)
From Coq Require Import List NArith Bool Arith Lia.
From SK Require Import lib.Tok lib.LGraph lib.Mono model.C07_Model proof.C07_Spec proof.C07_History proof.C07_Filters proof.C07_Main proof.C07_WL
  proof.C07_Relabel proof.C07_Final proof.C07_Examples.
Import ListNotations.

(* a chain of n carbon atoms (element code 1, charge code 3, order code 5) with ids base+1 .. base+n *)
Fixpoint chain_nodes (base : N) (n : nat) : list (N * attrs) :=
  match n with O => [] | S k => chain_nodes base k ++ [((base + N.of_nat n)%N, aC)] end.
Fixpoint chain_edges (base : N) (n : nat) : list (N * N * attrs) :=
  match n with
  | O => []
  | S k => match k with O => [] | S _ => chain_edges base k ++ [((base + N.of_nat k)%N, (base + N.of_nat n)%N, b1)] end
  end.
Definition chain (base : N) (n : nat) : graph := LG (chain_nodes base n) (chain_edges base n).
Definition hostQ : graph := chain 0 12.
Definition patQ : graph := chain 20 6.
Lemma wf_hostQ : gwf hostQ. Proof. wf_small. Qed.
Lemma wf_patQ : gwf patQ. Proof. wf_small. Qed.

(** witness: a chain of 6 carbons occurs 14 times (7 positions x 2 directions) in a chain of 12 carbons — fewer than threshold = 20
    — but the candidate product 12 * 10^4 * 12 exceeds 20 * 10^4, so with pre_filter=True nothing is returned *)
Example qpf_witness_values :
  length (find_all [1]%N [4]%N 20 false hostQ patQ) = 14%nat /\ find_all [1]%N [4]%N 20 true hostQ patQ = [] /\
  quick_pre_filter [1]%N hostQ patQ 20 = true /\ qpf_guard [1]%N hostQ patQ 20 (node_ids patQ) 1 = true.
Proof. repeat split; vm_compute; reflexivity. Qed.

Theorem quick_pre_filter_refuted : exists na ea thr H P, gwf H /\ gwf P /\
  find_all na ea thr false H P <> [] /\ find_all na ea thr true H P = [].
Proof.
  exists [1]%N, [4]%N, 20%N, hostQ, patQ. split; [exact wf_hostQ|]. split; [exact wf_patQ|]. split.
  - intros E. pose proof (proj1 qpf_witness_values) as L. rewrite E in L. discriminate.
  - apply qpf_witness_values.
Qed.

(** what holds for all inputs: switching the pre-filter on either leaves the result as it is or empties it *)
Theorem quick_pre_filter_only_empties na ea thr H P :
  find_all na ea thr true H P = find_all na ea thr false H P \/ find_all na ea thr true H P = [].
Proof. unfold find_all. simpl. destruct (quick_pre_filter na H P thr); auto. Qed.

(** ... and it leaves it as it is whenever _quick_pre_filter answers False *)
Theorem quick_pre_filter_pass na ea thr H P : quick_pre_filter na H P thr = false ->
  find_all na ea thr true H P = find_all na ea thr false H P.
Proof. intros E. unfold find_all. rewrite E. reflexivity. Qed.

(* ------------------------------------------------------------------ below the estimate guard the pre-filter IS transparent *)
Definition engQ (na ea : list N) : engine := Eng na ea false None.

(** a monomorphism cannot lower the degree: the neighbours of p go injectively to neighbours of f p *)
Lemma mono_degree nm em H P f p : gwf H -> gwf P -> emb false nm em H P f -> In p (node_ids P) ->
  length (nbrs P p) <= length (nbrs H (f p)).
Proof.
  intros WH WP (E1 & E2 & E3) Ip. rewrite <- (map_length f (nbrs P p)). apply NoDup_incl_length.
  - apply NoDup_map_inj_in; [rewrite nbrs_nbrs_of; apply nbrs_nodup, wf_uniq; exact WP|].
    intros a b Ia Ib. apply E2; [apply (nbrs_wf P p a WP Ia) | apply (nbrs_wf P p b WP Ib)].
  - intros h Ih. apply in_map_iff in Ih. destruct Ih as (v & <- & Iv).
    destruct (nbrs_wf P p v WP Iv) as (_ & Inv & Hne & A). apply adj_nbrs.
    specialize (E3 p v Ip Inv Hne). destruct (LGraph.adj P p v); [|congruence]. destruct (LGraph.adj H (f p) (f v)); [discriminate|contradiction].
Qed.

(** hence the image of every pattern node is one of the candidates _quick_pre_filter counts *)
Lemma mono_candidate na ea H P f p : gwf H -> gwf P -> emb false (nm_eng (engQ na ea)) (em_eng (engQ na ea)) H P f ->
  In p (node_ids P) -> qpf_count na H P p <> 0%N.
Proof.
  intros WH WP He Ip. pose proof (mono_degree _ _ H P f p WH WP He Ip) as Hd. destruct He as (E1 & _).
  destruct (E1 p Ip) as (Ih & Hn). apply nm_eng_spec in Hn. destruct Hn as (Ha & Hh). simpl in Ha.
  unfold qpf_count.
  assert (I : In (f p) (filter (fun h => forallb (fun k => opt_eqb (get k (nlabel H h)) (get k (nlabel P p))) na
                                         && (hc (nlabel P p) <=? hc (nlabel H h))%N && (length (nbrs P p) <=? length (nbrs H h))%nat) (node_ids H))).
  { apply filter_In. split; [exact Ih|]. apply andb_true_intro. split; [apply andb_true_intro; split|].
    - apply forallb_forall. intros k Ik. apply opt_eqb_eq. apply Ha. exact Ik.
    - apply N.leb_le. exact Hh.
    - apply Nat.leb_le. exact Hd. }
  destruct (filter _ (node_ids H)) as [|x r]; [destruct I|]. simpl. lia.
Qed.

Lemma qpf_loop_guard na H P thr ps : (forall p, In p ps -> qpf_count na H P p <> 0%N) ->
  forall est, qpf_loop na H P thr ps est = qpf_guard na H P thr ps est.
Proof.
  induction ps as [|p r IH]; intros Hc est; simpl; [reflexivity|].
  destruct (N.eqb (qpf_count na H P p) 0) eqn:E; [apply N.eqb_eq in E; exfalso; apply (Hc p); [left; reflexivity | exact E]|].
  destruct (thr * 10000 <? est * qpf_count na H P p)%N; [reflexivity|]. apply IH. intros q Iq. apply Hc. right. exact Iq.
Qed.

(** (6, third pre-filter) pre_filter on / off gives the same result list whenever the estimate guard does not decide: the only other way
    _quick_pre_filter can answer "skip" is a pattern node without candidate, and then there is provably no monomorphism at all *)
Theorem quick_pre_filter_transparent_below_guard na ea thr H P : gwf H -> gwf P ->
  qpf_guard na H P thr (node_ids P) 1 = false -> find_all na ea thr true H P = find_all na ea thr false H P.
Proof.
  intros WH WP G. destruct (quick_pre_filter na H P thr) eqn:Q; [|apply quick_pre_filter_pass; exact Q].
  unfold find_all. rewrite Q. simpl.
  destruct (monos_g false (nm_eng (Eng na ea false None)) (em_eng (Eng na ea false None)) H P) as [|m r] eqn:M; [simpl; destruct (thr <? 0)%N; reflexivity|]. exfalso.
  assert (I : In m (monos_g false (nm_eng (Eng na ea false None)) (em_eng (Eng na ea false None)) H P)) by (rewrite M; left; reflexivity).
  destruct (monos_g_sound false _ _ H P m (gwf_nodup P WP) I) as (_ & _ & He).
  unfold quick_pre_filter in Q. rewrite (qpf_loop_guard na H P thr (node_ids P)) in Q; [congruence|].
  intros p Ip. apply (mono_candidate na ea H P (mfun m) p WH WP He Ip).
Qed.
