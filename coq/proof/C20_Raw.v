(** C20 — the attribute layer (model/C20_RawModel.v): the graph the siphon / trap / persistence code works on depends only on each
    node's identifier, its two classification tests and its effective label, and on each arc's end points, role and effective
    coefficient; the fully annotated export normalises to the export of model/C20_Model.v, so every C20 theorem about
    [bipartite_of] / [with_species_order] applies to what the code computes from it and from every attribute-equivalent graph. *)
From Coq Require Import ZArith List Bool Arith Lia.
Import ListNotations.
From SK Require Import model.C20_Model model.C20_Persist model.C20_RawModel.

Definition node_eqv (a b : rnode) : Prop :=
  rn_id a = rn_id b /\ species_like a = species_like b /\ reaction_like a = reaction_like b /\ label_of a = label_of b.
Definition arc_eqv (a b : rarc) : Prop :=
  ra_src a = ra_src b /\ ra_dst a = ra_dst b /\ ra_role a = ra_role b /\ eff_stoich a = eff_stoich b.

Lemma filter_map_eqv {B} (p : rnode -> bool) (f : rnode -> B) ns ns' :
  (forall a b, node_eqv a b -> p a = p b) -> (forall a b, node_eqv a b -> f a = f b) ->
  Forall2 node_eqv ns ns' -> map f (filter p ns) = map f (filter p ns').
Proof.
  intros Hp Hf. induction 1 as [|a b ns ns' Hab Hrest IH]; simpl; auto.
  rewrite (Hp a b Hab). destruct (p b); simpl; [rewrite (Hf a b Hab), IH|]; auto.
Qed.

Theorem normalise_eqv G G' :
  Forall2 node_eqv (rg_nodes G) (rg_nodes G') -> Forall2 arc_eqv (rg_arcs G) (rg_arcs G') ->
  normalise G = normalise G'.
Proof.
  intros Hn Ha. unfold normalise. f_equal.
  - apply filter_map_eqv; auto.
    + intros a b (_ & Hs & _ & _). exact Hs.
    + intros a b (Hid & _ & _ & Hl). now rewrite Hid, Hl.
  - apply filter_map_eqv; auto.
    + intros a b (_ & Hs & Hr & _). unfold is_reaction. now rewrite Hs, Hr.
    + intros a b (Hid & _). exact Hid.
  - induction Ha as [|a b l l' (Hs & Hd & Hr & Hc) Hrest IH]; simpl; auto.
    unfold arc_of at 1 3. rewrite Hs, Hd, Hr, Hc, IH. reflexivity.
Qed.

Corollary run_net_raw_eqv G G' k cands sup :
  Forall2 node_eqv (rg_nodes G) (rg_nodes G') -> Forall2 arc_eqv (rg_arcs G) (rg_arcs G') ->
  run_net_raw G k cands sup = run_net_raw G' k cands sup.
Proof. intros Hn Ha. unfold run_net_raw. now rewrite (normalise_eqv G G' Hn Ha). Qed.

Lemma filter_map_all {A B} (p : B -> bool) (f : A -> B) l : (forall x, p (f x) = true) -> filter p (map f l) = map f l.
Proof. intros H. induction l as [|x l IH]; simpl; auto. now rewrite H, IH. Qed.

Lemma filter_map_none {A B} (p : B -> bool) (f : A -> B) l : (forall x, p (f x) = false) -> filter p (map f l) = [].
Proof. intros H. induction l as [|x l IH]; simpl; auto. now rewrite H. Qed.

Theorem normalise_raw_export sp_order n rs :
  normalise (raw_export sp_order n rs) =
  BG (map (fun i => (sp_node i, i)) sp_order) (g_reactions (bipartite_of n rs)) (g_arcs (bipartite_of n rs)).
Proof.
  unfold normalise, raw_export. simpl rg_nodes. simpl rg_arcs. f_equal.
  - rewrite filter_app, filter_map_all, filter_map_none, app_nil_r by reflexivity. now rewrite map_map.
  - rewrite filter_app, filter_map_none, filter_map_all by reflexivity. simpl. now rewrite map_map.
  - simpl. induction (arcs_from n 0 rs) as [|a l IH]; simpl; auto. rewrite IH. destruct a; reflexivity.
Qed.

(** in label order the raw export normalises to [bipartite_of]; in any other insertion order to [with_species_order] *)
Corollary normalise_raw_export_sorted n rs : normalise (raw_export (seq 0 n) n rs) = bipartite_of n rs.
Proof. rewrite normalise_raw_export. reflexivity. Qed.

Corollary normalise_raw_export_order order n rs : order <> [] ->
  normalise (raw_export order n rs) = with_species_order order (bipartite_of n rs).
Proof. intros H. rewrite normalise_raw_export. destruct order; [congruence|reflexivity]. Qed.

(** non-vacuity: A -> B with full attributes, and the same graph with the classification carried by one attribute only, labels
    left to the node ids' strings, no coefficient, plus junk: same graph, siphon {A}, trap {B} *)
Definition raw20_full : rgraph := raw_export [0; 1] 2 [([(0, 1%Z)], [(1, 1%Z)])].
Definition raw20_bare : rgraph :=
  RG [RNode 1 None (Some true) None 0; RNode 9 None None None 7; RNode 2 (Some true) None None 1; RNode 3 (Some false) None (Some 5) 0]
     [RArc 1 3 (Some Reactant) None; RArc 3 2 (Some Product) None; RArc 1 2 None (Some 4%Z); RArc 9 3 None None].
Example raw20_examples :
  normalise raw20_full = bipartite_of 2 [([(0, 1%Z)], [(1, 1%Z)])] /\
  normalise raw20_bare = normalise raw20_full /\
  find_siphons (normalise raw20_bare) None = Some [[0]] /\ find_traps (normalise raw20_bare) None = Some [[1]].
Proof. vm_compute. repeat split; reflexivity. Qed.

(* ------------------------------------------------------------------ undirected inputs at the attribute level *)
From SK Require Import proof.C20_Spec.

Section Undirected.
  Variables (order : list nat) (n : nat) (rs : list rxn).
  Hypothesis Hwf : wf_net n rs.
  Hypothesis Horder : Forall (fun i => i < n) order.

  Let G := raw_export order n rs.

  Lemma orient_rarc_nodes G1 G2 a : rg_nodes G1 = rg_nodes G2 -> orient_rarc G1 a = orient_rarc G2 a.
  Proof. intros H. unfold orient_rarc, find_rnode. now rewrite H. Qed.

  Lemma find_species_end i : i < n ->
    match find_rnode G (sp_node i) with Some nd => u_is_rxn nd = false | None => True end.
  Proof.
    intros Hi. unfold find_rnode.
    destruct (find (fun nd => Nat.eqb (rn_id nd) (sp_node i)) (rg_nodes G)) as [nd|] eqn:E; auto.
    apply find_some in E as [Hin Hp]. apply Nat.eqb_eq in Hp.
    unfold G, raw_export in Hin. simpl in Hin. apply in_app_iff in Hin as [Hin|Hin].
    - apply in_map_iff in Hin as [i' [<- _]]. reflexivity.
    - apply in_map_iff in Hin as [j [<- _]]. simpl in Hp. unfold rx_node, sp_node in Hp. lia.
  Qed.

  Lemma find_reaction_end j : j < length rs ->
    exists nd, find_rnode G (rx_node n j) = Some nd /\ u_is_rxn nd = true.
  Proof.
    intros Hj. unfold find_rnode.
    destruct (find (fun nd => Nat.eqb (rn_id nd) (rx_node n j)) (rg_nodes G)) as [nd|] eqn:E.
    - exists nd. split; auto. apply find_some in E as [Hin Hp]. apply Nat.eqb_eq in Hp.
      unfold G, raw_export in Hin. simpl in Hin. apply in_app_iff in Hin as [Hin|Hin].
      + apply in_map_iff in Hin as [i' [<- Hi']]. simpl in Hp. rewrite Forall_forall in Horder.
        specialize (Horder i' Hi'). unfold rx_node, sp_node in Hp. lia.
      + apply in_map_iff in Hin as [j' [<- _]]. reflexivity.
    - exfalso.
      assert (Hin : In (RNode (rx_node n j) (Some false) (Some false) None 0) (rg_nodes G)).
      { unfold G, raw_export. simpl. apply in_app_iff. right. apply in_map_iff. exists j. split; auto. apply in_seq. lia. }
      pose proof (find_none _ _ E _ Hin) as Hf. simpl in Hf. rewrite Nat.eqb_refl in Hf. discriminate.
  Qed.

  (** the shape of the arcs of the export *)
  Definition arc_shape (a : arc) : Prop :=
    exists i j, i < n /\ j < length rs /\
      ((a_role a = Reactant /\ a_src a = sp_node i /\ a_dst a = rx_node n j) \/
       (a_role a = Product /\ a_src a = rx_node n j /\ a_dst a = sp_node i)).

  Lemma arcs_from_shape rs' : forall j0, (forall r, In r rs' -> In r rs) -> j0 + length rs' <= length rs ->
    forall a, In a (arcs_from n j0 rs') -> arc_shape a.
  Proof.
    induction rs' as [|r rs' IH]; intros j0 Hsub Hlen a Hin; simpl in *; [destruct Hin|].
    apply in_app_iff in Hin as [Hin|Hin].
    - unfold arcs_of_rxn in Hin. apply in_app_iff in Hin as [Hin|Hin]; apply in_map_iff in Hin as [sc [<- Hsc]]; simpl.
      + exists (fst sc), j0. split; [|split; [lia|left; auto]].
        apply (Hwf r (Hsub r (or_introl eq_refl)) sc). apply in_app_iff. auto.
      + exists (fst sc), j0. split; [|split; [lia|right; auto]].
        apply (Hwf r (Hsub r (or_introl eq_refl)) sc). apply in_app_iff. auto.
    - apply (IH (S j0)); auto. lia.
  Qed.

  Definition mk_rarc (a : arc) : rarc := RArc (a_src a) (a_dst a) (Some (a_role a)) (Some (a_stoich a)).

  Lemma orient_flip b a : arc_shape a -> orient_rarc G (flip_rarc b (mk_rarc a)) = mk_rarc a.
  Proof.
    intros (i & j & Hi & Hj & Hsh).
    pose proof (find_species_end i Hi) as Fs. destruct (find_reaction_end j Hj) as [nr [Fr Ur]].
    unfold mk_rarc.
    destruct Hsh as [(Hro & Hs & Hd)|(Hro & Hs & Hd)]; rewrite Hro, Hs, Hd; destruct b;
      unfold flip_rarc, orient_rarc; simpl ra_src; simpl ra_dst; simpl ra_role.
    - rewrite Fr, Ur. reflexivity.
    - destruct (find_rnode G (sp_node i)) as [ns|]; [rewrite Fs|]; reflexivity.
    - destruct (find_rnode G (sp_node i)) as [ns|]; [rewrite Fs|]; reflexivity.
    - rewrite Fr, Ur. reflexivity.
  Qed.

  Lemma stored_orient l : (forall a, In a l -> arc_shape a) ->
    forall flips, map (orient_rarc G) (stored flips (map mk_rarc l)) = map mk_rarc l.
  Proof.
    induction l as [|a l IH]; intros Hall flips; [destruct flips; reflexivity|].
    assert (Ha : arc_shape a) by (apply Hall; now left).
    assert (Hl : forall a', In a' l -> arc_shape a') by (intros; apply Hall; now right).
    destruct flips as [|b flips]; simpl.
    - pose proof (orient_flip false a Ha) as E. unfold flip_rarc in E. rewrite E. f_equal. apply (IH Hl []).
    - rewrite (orient_flip b a Ha). f_equal. apply (IH Hl flips).
  Qed.

  (** whichever way the undirected graph stores its edges, orienting them by role gives back the directed raw export — so undirected
      inputs are covered by [normalise_raw_export] and everything that follows from it *)
  Theorem orient_undirected_raw flips : orient_raw (undirected_raw flips G) = G.
  Proof.
    unfold orient_raw, undirected_raw. cbn [rg_nodes rg_arcs].
    rewrite (map_ext _ (orient_rarc G)) by (intros a; apply orient_rarc_nodes; reflexivity).
    assert (E : map (orient_rarc G) (stored flips (rg_arcs G)) = rg_arcs G).
    { unfold G at 2 3. unfold raw_export. cbn [rg_arcs]. apply stored_orient.
      intros a Ha. apply (arcs_from_shape rs 0); auto. }
    rewrite E. unfold G, raw_export. reflexivity.
  Qed.
End Undirected.
