(** C14 — fit calls with per-call entry lists and the Benchmark facade (model/C14_BenchModel.v): every call's outputs are,
    per entry of THAT call, the rules applied to that entry alone in the call's direction — whatever earlier calls on the
    same object (same applier, same cache) processed. *)
From Coq Require Import NArith List Bool Arith Lia.
Import ListNotations.
From SK Require Import lib.Tok model.C14_Model model.C14_BenchModel model.C14_WorkersModel proof.C14_Proof proof.C14_Batch.
Local Open Scope N_scope.

Section Bench.
  Variable execute : N -> N -> bool -> list N.

  Definition call_results2 (pool : list N) (call : call2) : list (list (list N)) :=
    let '(rs, inv, subs) := call in call_results execute pool subs (rs, inv).

  Lemma calls_spec2 pool calls : forall nx cs,
    nx = N.of_nat (length cs) -> (exists t, cs = pool ++ t) ->
    Forall (fun call : call2 => Forall (robj_ok pool) (fst (fst call))) calls ->
    cspec execute cs (calls_prog2 nx calls) = concat (map (fun call => concat (call_results2 pool call)) calls).
  Proof.
    induction calls as [|[[rs inv] subs] calls IH]; intros nx cs Hnx Hpre Hok; simpl; auto.
    inversion Hok as [|? ? Hc0 Hcs0]; subst. simpl in Hc0.
    destruct (fit_prog (N.of_nat (length cs)) rs inv subs) as [ops n'] eqn:E.
    destruct (fit_spec execute pool rs inv subs _ cs _ _ E) as (H1 & H2 & H3); auto.
    rewrite cspec_app, H1. f_equal. rewrite H2. apply IH; [exact H3| |exact Hcs0].
    destruct Hpre as [t Ht]. exists (t ++ strs rs ++ subs). rewrite Ht, <- app_assoc. reflexivity.
  Qed.

  Lemma batch_spec2 pool calls :
    Forall (fun call : call2 => Forall (robj_ok pool) (fst (fst call))) calls ->
    cspec execute [] (batch_prog2 pool calls) = concat (map (fun call => concat (call_results2 pool call)) calls).
  Proof.
    intro Hok. unfold batch_prog2.
    rewrite cspec_app, cspec_allocs, allocs_allocs. simpl.
    rewrite cspec_app, cspec_releases, app_nil_r.
    apply calls_spec2; auto. exists []. rewrite app_nil_r. reflexivity.
  Qed.

  Lemma fit_outputs2_spec dd pool calls :
    fit_outputs2 dd calls (concat (map (fun call => concat (call_results2 pool call)) calls)) =
    map (fun call : call2 => map (single execute dd (map (rule_content pool) (fst (fst call))) (snd (fst call))) (snd call)) calls.
  Proof.
    induction calls as [|[[rs inv] subs] calls IH]; simpl; auto.
    assert (Hlen : length (call_results execute pool subs (rs, inv)) = length subs)
      by (unfold call_results; rewrite map_length; reflexivity).
    rewrite <- Hlen at 1. rewrite chop_concat.
    - f_equal; auto. unfold call_results. rewrite map_map. apply map_ext. intro c. reflexivity.
    - unfold call_results. rewrite Forall_map. apply Forall_forall. intros c _. simpl.
      rewrite !map_length. reflexivity.
  Qed.

  (** any sequence of fit calls on one object, each over its own entries *)
  Theorem calls_are_maps cache_on cmax dd pool calls tr outs fin :
    run (list N) execute true cache_on cmax (init _) tr = (true, outs, fin) ->
    client_view tr = batch_prog2 pool calls ->
    Forall (fun call : call2 => Forall (robj_ok pool) (fst (fst call))) calls ->
    fit_outputs2 dd calls (map snd outs) =
    map (fun call : call2 => map (single execute dd (map (rule_content pool) (fst (fst call))) (snd (fst call))) (snd call)) calls.
  Proof.
    intros Hrun Hview Hok.
    rewrite (cache_transparent _ _ _ _ _ _ _ Hrun), spec_client_view, Hview, batch_spec2; auto.
    apply fit_outputs2_spec.
  Qed.

  (** Benchmark.fit: entry k gets (rules applied forward to its reactant side alone, rules applied backward to its product
      side alone) *)
  Theorem bench_is_map cache_on cmax dd pool rules subs_r subs_p tr outs fin :
    run (list N) execute true cache_on cmax (init _) tr = (true, outs, fin) ->
    client_view tr = batch_prog2 pool (bench_calls rules subs_r subs_p) ->
    Forall (robj_ok pool) rules ->
    bench_entries (fit_outputs2 dd (bench_calls rules subs_r subs_p) (map snd outs)) =
    combine (map (single execute dd (map (rule_content pool) rules) false) subs_r)
            (map (single execute dd (map (rule_content pool) rules) true) subs_p).
  Proof.
    intros Hrun Hview Hok.
    rewrite (calls_are_maps cache_on cmax dd pool _ tr outs fin Hrun Hview).
    - reflexivity.
    - unfold bench_calls. repeat constructor; exact Hok.
  Qed.
End Bench.

(** non-vacuity: one shared rule object, two reactions; the backward pass reads other contents (the product sides) than the
    forward pass, on the same applier with a cache of size 2 (trace produced by the adversarial synthetic environment of
    model/C14_WorkersModel.v: freed addresses are handed out again at once) *)
Definition nvk_exec (s r : N) (inv : bool) : list N := [s + r; if inv then 1 else 0].
Definition nvk_trace : list event :=
  synth (list N) nvk_exec true 2 (init _) (batch_prog2 [50] (bench_calls [RObj 0] [1; 2] [11; 12])).

Example bench_nonvacuous :
  let '(ok, outs, fin) := run (list N) nvk_exec true true 2 (init _) nvk_trace in
  ok = true /\ client_view nvk_trace = batch_prog2 [50] (bench_calls [RObj 0] [1; 2] [11; 12]) /\
  bench_entries (fit_outputs2 true (bench_calls [RObj 0] [1; 2] [11; 12]) (map snd outs)) =
    [([51; 0], [61; 1]); ([52; 0], [62; 1])].
Proof. vm_compute. repeat split; reflexivity. Qed.
