(** C16 — reaction strings keep the ORDER of the reactions: the lines are parsed one by one, each appended to the
    insertion-order list, so the sequence of (rule, reactants, products) in insertion order of the parsed network is the
    sequence in printing order (ids are regenerated). *)
From stdpp Require Import gmap strings sets pretty sorting.
From Coq Require Import Ascii.
From SK Require Import lib.Tok model.C15_Model proof.C15_Proof model.C16_Model proof.C16_Defs proof.C16_Chars proof.C16_Str
  proof.C16_StrItems.
Local Open Scope string_scope.
Local Open Scope list_scope.

(** the stored reactions in insertion order *)
Definition rxn_seq (H : net) : list rxn := (edge_seq H).*2.

Lemma add_generated_order s l r rule s' e : add s l r rule None = (s', None, e) →
  edges s !! e = None ∧ edges s' = <[ e := Rxn (norm_rule rule) l r ]> (edges s) ∧ order s' = order s ++ [e].
Proof. intros Ha. apply add_spec in Ha as [_ (? & _ & ? & ?)]. done. Qed.

Lemma omap_ext_in {A B} (f g : A → option B) (l : list A) : (∀ x, x ∈ l → f x = g x) → omap f l = omap g l.
Proof.
  induction l as [|x l IH]; intros Hfg; [done|]. cbn. rewrite Hfg by left. rewrite IH; [done|]. intros ??. apply Hfg. by right.
Qed.

Lemma edge_seq_snoc s s' e rx : (∀ e0, e0 ∈ order s → is_Some (edges s !! e0)) → edges s !! e = None →
  edges s' = <[ e := rx ]> (edges s) → order s' = order s ++ [e] → edge_seq s' = edge_seq s ++ [(e, rx)].
Proof.
  intros Hall Hfresh He Ho. unfold edge_seq. rewrite Ho, He, omap_app. cbn. rewrite lookup_insert. cbn. f_equal.
  apply omap_ext_in. intros e0 Hin. rewrite lookup_insert_ne; [done|]. intros <-. destruct (Hall e Hin). congruence.
Qed.

Local Opaque add.
(** every successful add_rxn_from_str appends exactly one reaction under a fresh id *)
Lemma add_from_str_appends s line rule ps s' : add_from_str s line rule ps = (s', None) →
  ∃ e rx, edges s !! e = None ∧ edges s' = <[ e := rx ]> (edges s) ∧ order s' = order s ++ [e].
Proof.
  unfold add_from_str. intros Ha. repeat case_match; simplify_eq.
  all: match goal with H : add _ _ _ _ None = (_, ?er, _) |- _ =>
         destruct er; [done|]; apply add_generated_order in H as (? & ? & ?); eauto end.
Qed.

Definition order_ok (s : net) : Prop := ∀ e0, e0 ∈ order s → is_Some (edges s !! e0).

Lemma appended_seq s s' e rx : order_ok s → edges s !! e = None → edges s' = <[ e := rx ]> (edges s) →
  order s' = order s ++ [e] → order_ok s' ∧ edge_seq s' = edge_seq s ++ [(e, rx)].
Proof.
  intros Hok Hf He Ho. split; [|by apply edge_seq_snoc].
  intros e0. rewrite Ho, He, elem_of_app, elem_of_list_singleton. intros [Hin| ->].
  - rewrite lookup_insert_ne; [by apply Hok|]. intros <-. destruct (Hok e Hin). congruence.
  - rewrite lookup_insert. eauto.
Qed.

Lemma insert_fresh_inj (E : gmap string rxn) e1 e2 rx1 rx2 :
  E !! e1 = None → E !! e2 = None → <[e1 := rx1]> E = <[e2 := rx2]> E → e1 = e2 ∧ rx1 = rx2.
Proof.
  intros H1 H2 Heq. assert (e1 = e2) as ->.
  { destruct (decide (e1 = e2)) as [|Hne]; [done|]. pose proof (f_equal (.!! e1) Heq) as Hl.
    rewrite lookup_insert, lookup_insert_ne, H1 in Hl by done. done. }
  split; [done|]. pose proof (f_equal (.!! e2) Heq) as Hl. rewrite !lookup_insert in Hl. congruence.
Qed.

Lemma parse_printed_seq ii (items : list (string * rxn)) : Forall (λ p, rxn_ok p.2) items → ∀ s dr pf, order_ok s →
  ∃ s', parse_rxns s ((λ p, of_chars (line_chars ii p.1 p.2)) <$> items) dr true pf = (s', None) ∧
        order_ok s' ∧ rxn_seq s' = rxn_seq s ++ items.*2.
Proof.
  induction 1 as [|[e rx] items Hok _ IH]; intros s dr pf Hs.
  - exists s. split; [done|]. split; [done|]. by rewrite app_nil_r.
  - unfold parse_rxns. cbn [fmap list_fmap foldl].
    destruct (add_from_str_line s ii e rx Hok) as (s1 & e1 & Hadd & Hfresh & Hedges). cbn [fst snd].
    rewrite (rule_or_default_line ii e rx dr Hok), Hadd.
    destruct (add_from_str_appends _ _ _ _ _ Hadd) as (e2 & rx2 & Hf2 & He2 & Ho2).
    destruct (insert_fresh_inj (edges s) e1 e2 rx rx2 Hfresh Hf2) as [-> ->]; [by rewrite <-Hedges|].
    destruct (appended_seq s s1 e2 rx2 Hs Hf2 He2 Ho2) as [Hs1 Hseq].
    destruct (IH s1 dr pf Hs1) as (s' & Hparse & Hs' & Hq). exists s'. split; [exact Hparse|]. split; [done|].
    rewrite Hq. unfold rxn_seq. rewrite Hseq, fmap_app. cbn. by rewrite <-(assoc_L (++)).
Qed.

(** printing in insertion order ([sort = False]) and parsing back keeps the sequence of reactions *)
Lemma strings_roundtrip_order (H : net) (include_id prefer_suffix : bool) (default_rule : string) :
  wf16 H → strings_domain H = true →
  rxn_seq (rxns_to_hypergraph (hypergraph_to_rxn_strings H true include_id false) default_rule true prefer_suffix).1 = rxn_seq H.
Proof.
  intros (Hwf & _ & Hord & _) Hdom. unfold strings_domain in Hdom. rewrite bool_decide_eq_true in Hdom.
  unfold rxns_to_hypergraph, hypergraph_to_rxn_strings.
  assert (Forall (λ p : string * rxn, rxn_ok p.2) (edge_seq H)) as Hok.
  { apply Forall_forall. intros [e rx] Hin. rewrite (edge_seq_perm H Hord) in Hin. apply elem_of_map_to_list in Hin.
    destruct (Hdom e rx Hin) as (? & ? & ?). destruct (Hwf e rx Hin) as [? _]. done. }
  assert ((λ p : string * rxn, fmt_line true include_id p.1 p.2) <$> edge_seq H
          = (λ p, of_chars (line_chars include_id p.1 p.2)) <$> edge_seq H) as ->.
  { apply Forall_fmap_ext. apply Forall_forall. intros [e rx] Hin. rewrite (edge_seq_perm H Hord) in Hin.
    apply elem_of_map_to_list in Hin. destruct (Hwf e rx Hin) as [_ Hr]. simpl. by rewrite <-fmt_line_chars, of_to_chars. }
  destruct (parse_printed_seq include_id (edge_seq H) Hok empty_net default_rule prefer_suffix) as (s' & -> & _ & Hq).
  { intros ? ?%elem_of_nil. done. }
  cbn. rewrite Hq. done.
Qed.

Definition ex_order_net : net :=
  mk_net [] [(Some "z", "r", [("B", 1%Z)], [("C", 2%Z)]); (Some "a", "q", [("A", 1%Z)], [("B", 1%Z)])] [].
Example ex_order : (r_rule <$> rxn_seq ex_order_net) = ["r"; "q"] ∧
  (r_rule <$> rxn_seq (rxns_to_hypergraph (hypergraph_to_rxn_strings ex_order_net true false true) "r" true false).1) = ["q"; "r"].
Proof. by vm_compute. Qed.
