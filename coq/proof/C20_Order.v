(** C20 — caller-supplied graphs: the order in which the species nodes were inserted into the graph does not matter.
    _species_order sorts the nodes by label and hands out BOTH the sorted nodes and the sorted labels, so index i of the
    checked node set and index i of the reported label refer to the same species whatever the insertion order. *)
From Coq Require Import ZArith NArith List Bool Arith Lia Permutation Sorting.Sorted.
Import ListNotations.
From SK Require Import model.C20_Model proof.C20_Spec proof.C20_Siphon.
Local Open Scope nat_scope.

Definition lt_label (a b : nat * nat) : Prop := snd a < snd b.

Lemma insert_by_label_perm x l : Permutation (insert_by_label x l) (x :: l).
Proof.
  induction l as [|y l IH]; simpl; auto. destruct (snd x <? snd y); auto.
  eapply perm_trans; [apply perm_skip; exact IH|apply perm_swap].
Qed.

Lemma sort_by_label_perm l : Permutation (sort_by_label l) l.
Proof.
  induction l as [|x l IH]; simpl; auto. unfold sort_by_label in *. simpl.
  eapply perm_trans; [apply insert_by_label_perm|apply perm_skip; exact IH].
Qed.

Lemma insert_by_label_sorted x s :
  StronglySorted lt_label s -> (forall y, In y s -> snd y <> snd x) -> StronglySorted lt_label (insert_by_label x s).
Proof.
  induction s as [|y s IH]; intros Hs Hne; simpl.
  - constructor; constructor.
  - inversion Hs as [|? ? Hs' Hy]; subst. destruct (snd x <? snd y) eqn:E.
    + apply Nat.ltb_lt in E. constructor; [exact Hs|]. constructor; [exact E|].
      rewrite Forall_forall in *. intros z Hz. specialize (Hy z Hz). unfold lt_label in *. lia.
    + apply Nat.ltb_ge in E. assert (snd y <> snd x) by (apply Hne; left; reflexivity).
      constructor.
      * apply IH; [exact Hs'|]. intros z Hz. apply Hne. right. exact Hz.
      * rewrite Forall_forall in *. intros z Hz.
        apply (Permutation_in _ (insert_by_label_perm x s)) in Hz. destruct Hz as [<-|Hz].
        -- unfold lt_label. lia.
        -- apply Hy. exact Hz.
Qed.

Lemma sort_by_label_sorted l : NoDup (map snd l) -> StronglySorted lt_label (sort_by_label l).
Proof.
  induction l as [|x l IH]; intros ND; [constructor|].
  inversion ND as [|? ? Hx ND']; subst. unfold sort_by_label. simpl.
  apply insert_by_label_sorted; [apply IH; exact ND'|].
  intros y Hy E. apply Hx. rewrite <- E. apply in_map.
  eapply Permutation_in; [apply sort_by_label_perm|exact Hy].
Qed.

Lemma sorted_perm_eq (l : list (nat * nat)) : forall l',
  StronglySorted lt_label l -> StronglySorted lt_label l' -> Permutation l l' -> l = l'.
Proof.
  induction l as [|a t IH]; intros l' Hl Hl' P.
  - apply Permutation_nil in P. now subst.
  - destruct l' as [|b t']; [apply Permutation_sym, Permutation_nil in P; discriminate|].
    inversion Hl as [|? ? Ht Ha]; subst. inversion Hl' as [|? ? Ht' Hb]; subst.
    assert (a = b).
    { assert (Ia : In a (b :: t')) by (eapply Permutation_in; [exact P|left; reflexivity]).
      assert (Ib : In b (a :: t)) by (eapply Permutation_in; [apply Permutation_sym; exact P|left; reflexivity]).
      destruct Ia as [->|Ia]; [reflexivity|]. destruct Ib as [->|Ib]; [reflexivity|].
      rewrite Forall_forall in Ha, Hb. specialize (Ha b Ib). specialize (Hb a Ia). unfold lt_label in *. lia. }
    subst. f_equal. apply IH; auto. eapply Permutation_cons_inv; exact P.
Qed.

Lemma sort_species_order n order :
  Permutation order (seq 0 n) ->
  sort_by_label (map (fun i => (sp_node i, i)) order) = map (fun i => (sp_node i, i)) (seq 0 n).
Proof.
  intros P.
  assert (NDo : NoDup order) by (eapply Permutation_NoDup; [apply Permutation_sym; exact P|apply seq_NoDup]).
  apply sorted_perm_eq.
  - apply sort_by_label_sorted. rewrite map_map. simpl. now rewrite map_id.
  - rewrite <- (sort_sorted_seq sp_node n 0). apply sort_by_label_sorted. rewrite map_map. simpl. rewrite map_id. apply seq_NoDup.
  - eapply perm_trans; [apply sort_by_label_perm|]. apply Permutation_map. exact P.
Qed.

(** the index predicates read the arcs only *)
Lemma touches_arcs G G' : g_arcs G = g_arcs G' -> forall S r ro, touches G S r ro = touches G' S r ro.
Proof. intros E S r ro. unfold touches, incident. now rewrite E. Qed.

Lemma forallb_ext' {A} (f g : A -> bool) l : (forall x, f x = g x) -> forallb f l = forallb g l.
Proof. intros H. induction l as [|x l IH]; simpl; [reflexivity|]. now rewrite H, IH. Qed.

Lemma siphon_arcs G G' : g_arcs G = g_arcs G' ->
  forall sns rn S, is_siphon_indices G sns rn S = is_siphon_indices G' sns rn S.
Proof.
  intros E sns rn S. unfold is_siphon_indices. destruct S; [reflexivity|].
  apply forallb_ext'. intros r. now rewrite !(touches_arcs G G' E).
Qed.

Lemma trap_arcs G G' : g_arcs G = g_arcs G' ->
  forall sns rn S, is_trap_indices G sns rn S = is_trap_indices G' sns rn S.
Proof.
  intros E sns rn S. unfold is_trap_indices. destruct S; [reflexivity|].
  apply forallb_ext'. intros r. now rewrite !(touches_arcs G G' E).
Qed.

Lemma candidates_ext p q n k : (forall S, p S = q S) -> candidates p n k = candidates q n k.
Proof.
  intros H. unfold candidates. apply flat_map_ext. intros j. apply filter_ext. exact H.
Qed.

Lemma main_species_insertion_order :
  forall (n : nat) (rs : list rxn) (order : list nat) (max_size : option nat),
  Permutation order (seq 0 n) ->
  let G := bipartite_of n rs in
  let G' := with_species_order order G in
  species_nodes_sorted G' = species_nodes_sorted G /\
  species_labels G' = species_labels G /\
  find_siphons G' max_size = find_siphons G max_size /\
  find_traps G' max_size = find_traps G max_size.
Proof.
  intros n rs order k P G G'.
  destruct order as [|o order'] eqn:Eo; [repeat split; reflexivity|].
  assert (EG : G' = BG (map (fun i => (sp_node i, i)) (o :: order')) (g_reactions G) (g_arcs G)) by reflexivity.
  clearbody G'. subst G'.
  set (G' := BG (map (fun i => (sp_node i, i)) (o :: order')) (g_reactions G) (g_arcs G)).
  assert (Es : sort_by_label (g_species G') = sort_by_label (g_species G)).
  { unfold G'. cbn [g_species]. rewrite (sort_species_order n _ P). unfold G, bipartite_of. cbn [g_species].
    symmetry. apply sort_sorted_seq. }
  assert (Ea : g_arcs G' = g_arcs G) by reflexivity.
  assert (Er : g_reactions G' = g_reactions G) by reflexivity.
  assert (Ens : species_nodes_sorted G' = species_nodes_sorted G) by (unfold species_nodes_sorted; now rewrite Es).
  assert (Elb : species_labels G' = species_labels G) by (unfold species_labels; now rewrite Es).
  assert (Eok : split_ok G' = split_ok G).
  { unfold split_ok. rewrite Er. unfold G'. cbn [g_species map]. unfold G, bipartite_of. cbn [g_species].
    destruct n as [|n']; [simpl in P; apply Permutation_sym, Permutation_nil in P; discriminate|]. reflexivity. }
  split; [exact Ens|]. split; [exact Elb|].
  split; unfold find_siphons, find_traps, find_sets; rewrite Eok, Ens, Elb, Er.
  - rewrite (candidates_ext _ _ _ _ (siphon_arcs G' G Ea _ _)). reflexivity.
  - rewrite (candidates_ext _ _ _ _ (trap_arcs G' G Ea _ _)). reflexivity.
Qed.

(** Non-vacuity: A -> B, B -> C with the species nodes inserted A, C, B: trap {C}, siphon {A}, as for the export *)
Example ex_insertion_order :
  find_traps (with_species_order [0; 2; 1] (bipartite_of 3 [([(0, 1%Z)], [(1, 1%Z)]); ([(1, 1%Z)], [(2, 1%Z)])])) None = Some [[2]] /\
  find_siphons (with_species_order [0; 2; 1] (bipartite_of 3 [([(0, 1%Z)], [(1, 1%Z)]); ([(1, 1%Z)], [(2, 1%Z)])])) None = Some [[0]] /\
  g_species (with_species_order [0; 2; 1] (bipartite_of 3 [])) <> g_species (bipartite_of 3 []).
Proof. repeat split; try (vm_compute; reflexivity). vm_compute. discriminate. Qed.
