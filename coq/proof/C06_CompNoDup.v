(** C06 — proofs, part 6: the limit-free component-aware result has no duplicates
    (no two entries are equal as sets of pairs).  Stdlib lists. *)
From Coq Require Import List NArith Bool Arith Lia Permutation SetoidList Relations Morphisms.
From SK Require Import lib.LGraph lib.Mono lib.Reach lib.C01_GraphLemmas model.C06_Model lib.C06_Spec
  proof.C06_All proof.C06_Comp proof.C06_Comps proof.C06_CompSem.
Import ListNotations.

(** ---------- generic facts ---------- *)
Lemma Permutation_filter' {X} (g : X -> bool) l l' : Permutation l l' -> Permutation (filter g l) (filter g l').
Proof.
  induction 1 as [|x l l' _ IH|x y l|l l' l'' _ IH1 _ IH2]; simpl.
  - constructor.
  - destruct (g x); [constructor|]; exact IH.
  - destruct (g x), (g y); try apply Permutation_refl. apply perm_swap.
  - eapply Permutation_trans; eauto.
Qed.

Lemma filter_all {X} (g : X -> bool) l : (forall x, In x l -> g x = true) -> filter g l = l.
Proof.
  induction l as [|x l IH]; simpl; intros Hg; [reflexivity|].
  rewrite (Hg x) by (left; reflexivity). f_equal. apply IH. intros y I. apply Hg. right. exact I.
Qed.

Lemma filter_none {X} (g : X -> bool) l : (forall x, In x l -> g x = false) -> filter g l = [].
Proof.
  induction l as [|x l IH]; simpl; intros Hg; [reflexivity|].
  rewrite (Hg x) by (left; reflexivity). apply IH. intros y I. apply Hg. right. exact I.
Qed.

Section Generic.
Context {X Y : Type} (eqB : Y -> Y -> Prop) {EB : Equivalence eqB}.

Lemma NoDupA_flat_map (f : X -> list Y) l :
  NoDup l -> (forall x, In x l -> NoDupA eqB (f x)) ->
  (forall x x' y y', In x l -> In x' l -> In y (f x) -> In y' (f x') -> eqB y y' -> x = x') ->
  NoDupA eqB (flat_map f l).
Proof.
  induction l as [|x l IH]; simpl; intros Hnd Hf Hx; [constructor|].
  inversion Hnd as [|? ? Hnot Hnd']; subst.
  apply NoDupA_app; auto.
  - apply IH; auto. intros a a' y y' Ia Ia'. apply Hx; right; assumption.
  - intros y I1 I2. apply InA_alt in I1. destruct I1 as (y0 & E0 & I0).
    apply InA_alt in I2. destruct I2 as (y1 & E1 & I1). apply in_flat_map in I1. destruct I1 as (x' & Ix' & I1).
    assert (x = x').
    { apply (Hx x x' y0 y1); auto. etransitivity; [symmetry; exact E0|exact E1]. }
    subst x'. contradiction.
Qed.

Lemma NoDupA_in_eq (l : list Y) x y : NoDupA eqB l -> In x l -> In y l -> eqB x y -> x = y.
Proof.
  induction 1 as [|a l Hnot _ IH]; intros Ix Iy E; [destruct Ix|].
  destruct Ix as [<-|Ix], Iy as [<-|Iy]; auto.
  - exfalso. apply Hnot. apply InA_alt. exists y. auto.
  - exfalso. apply Hnot. apply InA_alt. exists x. split; [symmetry; exact E|exact Ix].
Qed.

Lemma NoDupA_NoDup (l : list Y) : NoDupA eqB l -> NoDup l.
Proof.
  induction 1 as [|a l Hnot _ IH]; constructor; auto.
  intros I. apply Hnot. apply InA_alt. exists a. split; [reflexivity|exact I].
Qed.
End Generic.

Definition eqm (a b : nat * mapping) : Prop := Permutation (snd a) (snd b).
#[local] Instance eqm_equiv : Equivalence eqm.
Proof.
  split.
  - intros a. apply Permutation_refl.
  - intros a b. apply Permutation_sym.
  - intros a b c. apply Permutation_trans.
Qed.

Lemma map_fst_index_from {X} (l : list X) k : map fst (index_from k l) = seq k (length l).
Proof. revert k. induction l as [|x l IH]; intros k; simpl; [reflexivity|]. f_equal. apply IH. Qed.

Lemma NoDup_index_from {X} (l : list X) k : NoDup (index_from k l).
Proof. eapply NoDup_map_inv. rewrite map_fst_index_from. apply seq_NoDup. Qed.

Lemma NoDupA_map_pair (i : nat) (L : list mapping) :
  NoDupA (@Permutation (N * N)) L -> NoDupA eqm (map (pair i) L).
Proof.
  induction 1 as [|m L Hnot _ IH]; simpl; constructor; auto.
  intros I. apply Hnot. apply InA_alt in I. destruct I as ([i' m'] & E & I).
  apply in_map_iff in I. destruct I as (m'' & [= <- <-] & I). apply InA_alt. exists m''. auto.
Qed.

Section Sem.
Variable enum : list N -> list N -> list mapping.
Variables H P : graph.
Hypothesis HwfH : gwf H.
Hypothesis HwfP : gwf P.
Hypothesis Hor : oracle_ok enum H P.

(** what membership in a per-component list gives *)
Lemma percc_facts pc j m : In pc (comps P) -> In (j, m) (percc_of enum H pc) ->
  exists hc, nth_error (comps H) j = Some hc /\ In m (enum hc pc) /\ is_mono_on H P hc pc m.
Proof.
  intros Ipc I. apply (in_percc_of enum H) in I. destruct I as (hc & Ej & Hle & Im).
  exists hc. split; [exact Ej|]. split; [exact Im|].
  apply (proj2 Hor hc pc); auto. eapply nth_error_In; eauto.
Qed.

Lemma percc_nodupA pc : In pc (comps P) -> NoDupA eqm (percc_of enum H pc).
Proof.
  intros Ipc. unfold percc_of, percc. apply NoDupA_flat_map.
  - exact eqm_equiv.
  - unfold cands. apply NoDup_filter. apply NoDup_index_from.
  - intros [i hc] I. cbn [fst snd]. apply NoDupA_map_pair.
    unfold cands in I. apply filter_In in I. destruct I as [I Hle]. cbn [snd] in Hle. apply Nat.leb_le in Hle.
    apply in_index_from in I.
    destruct I as [_ I]. rewrite Nat.sub_0_r in I. apply (proj2 Hor hc pc); auto. eapply nth_error_In; eauto.
  - intros [i hc] [i' hc'] [j m] [j' m'] I I' Iy Iy' E. cbn [fst snd] in *.
    apply in_map_iff in Iy. destruct Iy as (m0 & [= <- <-] & Im).
    apply in_map_iff in Iy'. destruct Iy' as (m1 & [= <- <-] & Im').
    unfold cands in I, I'. apply filter_In in I. apply filter_In in I'. destruct I as [I Hle], I' as [I' Hle'].
    cbn [snd] in Hle, Hle'. apply Nat.leb_le in Hle. apply Nat.leb_le in Hle'.
    apply in_index_from in I. apply in_index_from in I'. destruct I as [_ I], I' as [_ I']. rewrite Nat.sub_0_r in I, I'.
    unfold eqm in E. cbn [snd] in E.
    assert (Ihc : In hc (comps H)) by (eapply nth_error_In; eauto).
    assert (Ihc' : In hc' (comps H)) by (eapply nth_error_In; eauto).
    destruct (proj1 (proj2 Hor hc pc Ihc Ipc Hle) m0 Im) as (_ & B & _ & D & _).
    destruct (proj1 (proj2 Hor hc' pc Ihc' Ipc Hle') m1 Im') as (_ & _ & _ & D' & _).
    destruct (comps_class P HwfP pc Ipc) as (Hne & _).
    destruct pc as [|p0 pc']; [congruence|].
    assert (I0 : In p0 (map fst m0)) by (apply B; left; reflexivity).
    apply in_map_fst in I0. destruct I0 as (h0 & I0).
    assert (I1 : In (p0, h0) m1) by (eapply Permutation_in; eauto).
    assert (i = i') by (eapply (comps_disjoint H HwfH i i' hc hc' h0); eauto; [apply (D p0 h0 I0)|apply (D' p0 h0 I1)]).
    subst i'. congruence.
Qed.

Lemma bt_shape : forall rem used acc y,
  (forall pc, In pc rem -> In pc (comps P)) ->
  In y (bt_unl (map (percc_of enum H) rem) used acc) ->
  exists X, y = X ++ acc /\ forall p, In p (map fst X) -> exists pc, In pc rem /\ In p pc.
Proof.
  induction rem as [|pc r IH]; intros used acc y Hrem Hin.
  - simpl in Hin. destruct Hin as [<-|[]]. exists []. split; [reflexivity|intros p []].
  - cbn [map bt_unl] in Hin. apply in_flat_map in Hin. destruct Hin as ([j m] & Ihm & Hin). cbn [fst snd] in Hin.
    destruct (memnat j used || clash m acc); [destruct Hin|].
    destruct (IH (j :: used) (m ++ acc) y) as (X & -> & HX); [intros pc' I; apply Hrem; right; exact I|exact Hin|].
    exists (X ++ m). split; [rewrite <- app_assoc; reflexivity|].
    intros p Ip. rewrite map_app, in_app_iff in Ip. destruct Ip as [Ip|Ip].
    + destruct (HX p Ip) as (pc' & I & Ip'). exists pc'. split; [right; exact I|exact Ip'].
    + exists pc. split; [left; reflexivity|].
      destruct (percc_facts pc j m (Hrem pc (or_introl eq_refl)) Ihm) as (hc & _ & _ & (_ & B & _)). apply B. exact Ip.
Qed.

Lemma bt_nodupA : forall rem used acc,
  NoDup rem -> (forall pc, In pc rem -> In pc (comps P)) ->
  (forall pc p, In pc rem -> In p pc -> ~ In p (map fst acc)) ->
  NoDupA (@Permutation (N * N)) (bt_unl (map (percc_of enum H) rem) used acc).
Proof.
  induction rem as [|pc r IH]; intros used acc Hnd Hrem Hacc.
  - simpl. constructor; [intros I; inversion I|constructor].
  - cbn [map bt_unl]. inversion Hnd as [|? ? Hnotin Hnd']; subst.
    assert (Ipc : In pc (comps P)) by (apply Hrem; left; reflexivity).
    assert (Hr : forall pc', In pc' r -> In pc' (comps P)) by (intros pc' I; apply Hrem; right; exact I).
    assert (Hother : forall pc' p, In pc' r -> In p pc' -> ~ In p pc).
    { intros pc' p I Ip Ip'. assert (pc = pc') by (eapply (comps_disjoint_val P HwfP pc pc' p); eauto).
      subst pc'. contradiction. }
    apply NoDupA_flat_map.
    + apply Permutation_Equivalence.
    + eapply NoDupA_NoDup; [exact eqm_equiv|]. apply percc_nodupA. exact Ipc.
    + intros [j m] Ihm. cbn [fst snd]. destruct (memnat j used || clash m acc); [constructor|].
      apply IH; auto. intros pc' p I Ip. rewrite map_app, in_app_iff. intros [I'|I'].
      * destruct (percc_facts pc j m Ipc Ihm) as (hc & _ & _ & (_ & B & _)). apply B in I'. eapply Hother; eauto.
      * apply (Hacc pc' p); auto. right. exact I.
    + intros [j m] [j' m'] y y' Ihm Ihm' Iy Iy' E. cbn [fst snd] in Iy, Iy'.
      destruct (memnat j used || clash m acc); [destruct Iy|].
      destruct (memnat j' used || clash m' acc); [destruct Iy'|].
      destruct (bt_shape r (j :: used) (m ++ acc) y Hr Iy) as (X & -> & HX).
      destruct (bt_shape r (j' :: used) (m' ++ acc) y' Hr Iy') as (X' & -> & HX').
      destruct (percc_facts pc j m Ipc Ihm) as (hc & _ & _ & (_ & B & _)).
      destruct (percc_facts pc j' m' Ipc Ihm') as (hc' & _ & _ & (_ & B' & _)).
      set (g := fun ph : N * N => LGraph.mem (fst ph) pc).
      assert (Hfil : forall X0 m0, (forall p, In p (map fst X0) -> exists pc', In pc' r /\ In p pc') ->
                                   (forall p, In p (map fst m0) <-> In p pc) ->
                                   filter g (X0 ++ m0 ++ acc) = m0).
      { intros X0 m0 H0 B0. rewrite !filter_app.
        rewrite (filter_none g X0), (filter_all g m0), (filter_none g acc); [apply app_nil_r| | |].
        - intros [p h] I. unfold g. cbn [fst]. rewrite <- not_true_iff_false, LGraph.mem_spec. intros Ip.
          apply (Hacc pc p); [left; reflexivity|exact Ip|]. apply in_map_fst. eauto.
        - intros [p h] I. unfold g. cbn [fst]. apply LGraph.mem_spec. apply B0. apply in_map_fst. eauto.
        - intros [p h] I. unfold g. cbn [fst]. rewrite <- not_true_iff_false, LGraph.mem_spec. intros Ip.
          destruct (H0 p) as (pc' & I' & Ip'); [apply in_map_fst; eauto|]. eapply Hother; eauto. }
      apply (Permutation_filter' g) in E. rewrite (Hfil X m HX B), (Hfil X' m' HX' B') in E.
      eapply (NoDupA_in_eq eqm); [apply percc_nodupA; exact Ipc|exact Ihm|exact Ihm'|exact E].
Qed.

Theorem comp_unl_nodup strict :
  NoDupA (@Permutation (N * N)) (comp_unl enum strict H P).
Proof.
  unfold comp_unl.
  destruct (length (comps P) =? 0); [constructor; [intros I; inversion I|constructor]|].
  destruct (length (comps H) <? length (comps P)); [apply (proj1 Hor)|].
  destruct ((length (comps P) <? length (comps H)) && strict); [constructor|].
  destruct (Permutation_map_inv _ _ (sort_len_perm (map (percc_of enum H) (comps P)))) as (rem & Er & Hp).
  rewrite Er. apply bt_nodupA.
  - eapply Permutation_NoDup; [exact Hp|apply comps_NoDup; exact HwfP].
  - intros pc I. eapply Permutation_in; [apply Permutation_sym; exact Hp|exact I].
  - intros pc p _ _ [].
Qed.
End Sem.
