(** C09 — API-level statements composed from the pieces (round 5). *)
From Coq Require Import List NArith ZArith Bool.
From SK Require Import lib.StrJoin lib.LGraph model.C01_Model model.C02_Model model.C09_Model model.C09_Strings
  proof.C09_Valid proof.C09_Main proof.C09_Expand.
From SK Require model.C01_Opts.
Import ListNotations.

(** AAMValidator.smiles_check with its options is exact: on two readable strings it answers True exactly when the graphs the
    method string selects (reaction centres for "RC" in any capitalisation, full ITS graphs for every other string), built
    with the given ignore_aromaticity, are isomorphic on typesGH and bond-order pairs *)
Theorem smiles_check_exact (m : str) (ia : bool) (G1 H1 G2 H2 : mgraph) : wf G2 -> wf H2 ->
  (smiles_check_full m ia (Some (G1, H1)) (Some (G2, H2)) = true <->
   if is_rc m
   then its_isomorphic (get_rc (C01_Opts.its_construct_o (vopts ia) G1 H1)) (get_rc (C01_Opts.its_construct_o (vopts ia) G2 H2))
   else its_isomorphic (C01_Opts.its_construct_o (vopts ia) G1 H1) (C01_Opts.its_construct_o (vopts ia) G2 H2)).
Proof.
  intros W1 W2. rewrite (proj1 (smiles_check_full_spec m ia G1 H1 G2 H2)).
  destruct (validator_exact_o ia G1 H1 G2 H2 W1 W2) as (A & B). destruct (is_rc m); assumption.
Qed.

(** non-vacuity: see C09_Main.ex_validator / C09_Expand.ex_is_rc; here: the default call on the toy reaction against itself *)
Example ex_smiles_check_exact : smiles_check_full [82; 67]%N false (Some (ex_G, ex_H)) (Some (ex_G, ex_H)) = true /\
                                smiles_check_full [105; 116; 115]%N true (Some (ex_G, ex_H)) (Some (ex_G, ex_H3)) = false.
Proof. vm_compute. split; reflexivity. Qed.
