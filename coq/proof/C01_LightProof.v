(** C01 — _create_light_weight_graph with the flags of rsmi_to_graph (drop_non_aam = use_index_as_atom_map = True) on a molecule
    with distinct maps and at most one bond per pair of mapped atoms: the labels and bonds of transform *)
From Coq Require Import List NArith ZArith Bool Lia Arith.
From SK Require Import lib.LGraph lib.C01_GraphLemmas model.C01_Model model.C02_Model model.C01_String model.C01_DecRaw model.C01_Builders
  proof.C01_Proof proof.C01_StringProof proof.C01_StringPipe.
Import ListNotations.

(** * association-list effects *)
Lemma upsert_assoc {V} k (v : V) l n : assoc n (upsert k v l) = if N.eqb n k then Some v else assoc n l.
Proof.
  induction l as [|[k' v'] r IH]; cbn [upsert assoc].
  - destruct (N.eqb n k); reflexivity.
  - destruct (N.eqb_spec k k') as [->|Hne]; cbn [assoc].
    + destruct (N.eqb n k'); reflexivity.
    + rewrite IH. destruct (N.eqb_spec n k') as [->|]; [|reflexivity]. destruct (N.eqb_spec k' k); [congruence|reflexivity].
Qed.

Lemma ensure_assoc k (l : list (N * option gnode)) n :
  assoc n (ensure_o k l) = match assoc n l with Some x => Some x | None => if N.eqb n k then Some None else None end.
Proof.
  unfold ensure_o. destruct (assoc k l) as [y|] eqn:Ek.
  - destruct (assoc n l) eqn:En; [reflexivity|]. destruct (N.eqb_spec n k) as [->|]; [congruence|reflexivity].
  - rewrite assoc_app. destruct (assoc n l); [reflexivity|]. cbn [assoc]. destruct (N.eqb n k); reflexivity.
Qed.

Definition pair_eq (a b u v : N) : bool := (N.eqb a u && N.eqb b v) || (N.eqb a v && N.eqb b u).

Lemma find_edge_cons a b (x : Z) es u v : find_edge u v ((a, b, x) :: es) = if pair_eq a b u v then Some x else find_edge u v es.
Proof. reflexivity. Qed.

Lemma pair_eq_spec a b u v : pair_eq a b u v = true <-> (a = u /\ b = v) \/ (a = v /\ b = u).
Proof. apply match_pair_spec. Qed.

Lemma pair_eq_false a b u v : pair_eq a b u v = false <-> ~ ((a = u /\ b = v) \/ (a = v /\ b = u)).
Proof.
  rewrite <- pair_eq_spec. destruct (pair_eq a b u v); split; intros K.
  - discriminate.
  - exfalso. apply K. reflexivity.
  - intros F. discriminate.
  - reflexivity.
Qed.

(** two pairs that both equal (u, v) as unordered pairs *)
Lemma pair_eq_trans c d a b u v : pair_eq c d u v = true -> pair_eq c d a b = pair_eq a b u v.
Proof.
  intros P. apply pair_eq_spec in P.
  destruct (pair_eq c d a b) eqn:Q1, (pair_eq a b u v) eqn:Q2; try reflexivity; exfalso.
  - apply pair_eq_spec in Q1. apply pair_eq_false in Q2. apply Q2. destruct P as [[-> ->]|[-> ->]], Q1 as [[E1 E2]|[E1 E2]]; subst; tauto.
  - apply pair_eq_spec in Q2. apply pair_eq_false in Q1. apply Q1. destruct P as [[-> ->]|[-> ->]], Q2 as [[E1 E2]|[E1 E2]]; subst; tauto.
Qed.

Lemma find_edge_pair_eq (es : list (N * N * Z)) a b u v : pair_eq a b u v = true -> find_edge a b es = find_edge u v es.
Proof.
  intros P. apply pair_eq_spec in P. destruct P as [[-> ->]|[-> ->]]; [reflexivity|apply find_edge_sym].
Qed.

Lemma find_edge_map_upd a b o (es : list (N * N * Z)) u v :
  find_edge u v (map (fun e : N * N * Z => let '(c, d, x) := e in if same_pair c d a b then (c, d, o) else e) es) =
  match find_edge u v es with Some x => if pair_eq a b u v then Some o else Some x | None => None end.
Proof.
  induction es as [|[[c d] x] r IH]; [reflexivity|]. cbn [map]. unfold same_pair. fold (pair_eq c d a b).
  rewrite (find_edge_cons c d x r u v). destruct (pair_eq c d u v) eqn:P.
  - rewrite (pair_eq_trans c d a b u v P). destruct (pair_eq a b u v); rewrite find_edge_cons, P; reflexivity.
  - destruct (pair_eq c d a b); rewrite find_edge_cons, P; exact IH.
Qed.

Lemma upsert_edge_find a b o es u v :
  find_edge u v (upsert_edge a b o es) = if pair_eq a b u v then Some o else find_edge u v es.
Proof.
  unfold upsert_edge. destruct (find_edge a b es) as [y|] eqn:F.
  - rewrite find_edge_map_upd. destruct (pair_eq a b u v) eqn:Q.
    + rewrite <- (find_edge_pair_eq es a b u v Q), F. reflexivity.
    + destruct (find_edge u v es); reflexivity.
  - rewrite find_edge_app. destruct (pair_eq a b u v) eqn:Q.
    + rewrite <- (find_edge_pair_eq es a b u v Q), F. rewrite find_edge_cons, Q. reflexivity.
    + destruct (find_edge u v es); [reflexivity|]. rewrite find_edge_cons, Q. reflexivity.
Qed.

(** * distinct maps, index-wise *)
Lemma nodup_filter_index {X Y} (f : X -> Y) (p : X -> bool) (l : list X) :
  NoDup (map f (filter p l)) -> forall i j a b, nth_error l i = Some a -> nth_error l j = Some b ->
  p a = true -> p b = true -> f a = f b -> i = j.
Proof.
  induction l as [|x r IH]; intros Hn i j a b Ei Ej Pa Pb E; [destruct i; discriminate|].
  cbn [filter] in Hn.
  assert (NoDup (map f (filter p r))) as Hr by (destruct (p x); [inversion Hn; assumption|exact Hn]).
  destruct i as [|i], j as [|j]; cbn in Ei, Ej.
  - reflexivity.
  - exfalso. inversion Ei; subst x. rewrite Pa in Hn. inversion Hn as [|? ? Hx _]; subst. apply Hx.
    apply in_map_iff. exists b. split; [symmetry; exact E|]. apply filter_In. split; [eapply nth_error_In; eauto|exact Pb].
  - exfalso. inversion Ej; subst x. rewrite Pb in Hn. inversion Hn as [|? ? Hx _]; subst. apply Hx.
    apply in_map_iff. exists a. split; [exact E|]. apply filter_In. split; [eapply nth_error_In; eauto|exact Pa].
  - f_equal. eapply IH; eauto.
Qed.

Lemma mapped_nodes_keys (l : list ratom) :
  map fst (flat_map (fun a => if is_mapped a then [(ra_map a, atom_node a)] else []) l) = map ra_map (filter is_mapped l).
Proof. induction l as [|a l IH]; [reflexivity|]. cbn [flat_map filter]. destruct (is_mapped a); cbn [app map fst]; rewrite IH; reflexivity. Qed.

Section Light.
Variable m : rmol.
Hypothesis Ok : rmol_ok m.
Let atoms := rm_atoms m.
Let bs := rm_bonds m.

Lemma maps_distinct i j a b : nth_error atoms i = Some a -> nth_error atoms j = Some b ->
  is_mapped a = true -> is_mapped b = true -> ra_map a = ra_map b -> i = j.
Proof.
  destruct Ok as [Hn _]. unfold mapped_nodes in Hn. rewrite mapped_nodes_keys in Hn. apply (nodup_filter_index ra_map is_mapped atoms Hn).
Qed.

Lemma atom_id_tt i a : is_mapped a = true -> atom_id true i a = ra_map a.
Proof. apply atom_id_mapped. Qed.

(** * nodes *)
Definition is_atom_map (n : N) : Prop := exists i a, nth_error atoms i = Some a /\ is_mapped a = true /\ ra_map a = n.

Lemma inner_nodes id L : forall st,
  let st' := fold_left (lw_edge true true atoms id) L st in
  (forall n x, assoc n (fst st) = Some x -> assoc n (fst st') = Some x) /\
  (forall n x, assoc n (fst st') = Some x -> assoc n (fst st) = Some x \/ n = id \/ is_atom_map n).
Proof.
  induction L as [|[j o] L IH]; intros st; [cbn; split; auto|]. cbn [fold_left].
  set (st1 := lw_edge true true atoms id st (j, o)).
  assert ((forall n x, assoc n (fst st) = Some x -> assoc n (fst st1) = Some x) /\
          (forall n x, assoc n (fst st1) = Some x -> assoc n (fst st) = Some x \/ n = id \/ is_atom_map n)) as [K1 K2].
  { unfold st1, lw_edge. destruct (nth_error atoms j) as [b|] eqn:Ej; [|split; auto]. cbn [negb orb].
    destruct (N.eqb (ra_map b) 0) eqn:Eb; cbn [negb]; [split; auto|]. cbn [fst].
    assert (is_mapped b = true) as Mb by (unfold is_mapped; rewrite Eb; reflexivity). rewrite (atom_id_tt j b Mb). split.
    - intros n x A. rewrite !ensure_assoc, A. reflexivity.
    - intros n x A. rewrite !ensure_assoc in A. destruct (assoc n (fst st)) as [y|]; [left; exact A|].
      destruct (N.eqb_spec n id) as [->|]; [right; left; reflexivity|].
      destruct (N.eqb_spec n (ra_map b)) as [->|]; [|discriminate]. right. right. exists j, b. auto. }
  destruct (IH st1) as [I1 I2]. split.
  - intros n x A. apply I1. apply K1. exact A.
  - intros n x A. destruct (I2 n x A) as [B|[B|B]]; [|auto|auto]. apply K2 in B. exact B.
Qed.

Definition NInv1 (st : lw_state) (s : nat) : Prop :=
  forall i a, (i < s)%nat -> nth_error atoms i = Some a -> is_mapped a = true -> assoc (ra_map a) (fst st) = Some (Some (atom_node a)).
Definition NInv2 (st : lw_state) : Prop := forall n x, assoc n (fst st) = Some x -> is_atom_map n.

Lemma step_nodes st s a : nth_error atoms s = Some a -> NInv1 st s -> NInv2 st ->
  NInv1 (lw_atom true true atoms bs st (s, a)) (S s) /\ NInv2 (lw_atom true true atoms bs st (s, a)).
Proof.
  intros Es I1 I2. unfold lw_atom. cbn [andb]. destruct (N.eqb (ra_map a) 0) eqn:Ea.
  - split; [|exact I2]. intros i c Hi Ei Mc. destruct (Nat.eq_dec i s) as [->|Hne].
    + rewrite Es in Ei. inversion Ei; subst c. unfold is_mapped in Mc. rewrite Ea in Mc. discriminate.
    + apply (I1 i c); [lia|exact Ei|exact Mc].
  - assert (is_mapped a = true) as Ma by (unfold is_mapped; rewrite Ea; reflexivity). rewrite (atom_id_tt s a Ma).
    set (st0 := (upsert (ra_map a) (Some (atom_node a)) (fst st), snd st)).
    destruct (inner_nodes (ra_map a) (atom_bonds bs s) st0) as [K1 K2]. split.
    + intros i c Hi Ei Mc. apply K1. unfold st0. cbn [fst]. rewrite upsert_assoc.
      destruct (N.eqb_spec (ra_map c) (ra_map a)) as [E|Ne].
      * assert (i = s) as -> by (apply (maps_distinct i s c a Ei Es Mc Ma E)). rewrite Es in Ei. inversion Ei. reflexivity.
      * apply (I1 i c); [|exact Ei|exact Mc]. destruct (Nat.eq_dec i s) as [->|]; [rewrite Es in Ei; inversion Ei; subst; congruence|lia].
    + intros n x A. destruct (K2 n x A) as [B|[->|B]]; [| |exact B].
      * unfold st0 in B. cbn [fst] in B. rewrite upsert_assoc in B. destruct (N.eqb_spec n (ra_map a)) as [->|]; [exists s, a; auto|apply (I2 n x B)].
      * exists s, a. auto.
Qed.

Lemma fold_nodes l : forall s st, (forall k, nth_error l k = nth_error atoms (s + k)) -> NInv1 st s -> NInv2 st ->
  NInv1 (fold_left (lw_atom true true atoms bs) (combine (seq s (length l)) l) st) (s + length l) /\
  NInv2 (fold_left (lw_atom true true atoms bs) (combine (seq s (length l)) l) st).
Proof.
  induction l as [|a l IH]; intros s st Hl I1 I2.
  - cbn. rewrite Nat.add_0_r. auto.
  - cbn [length seq combine fold_left].
    assert (nth_error atoms s = Some a) as Es by (specialize (Hl 0%nat); cbn in Hl; rewrite Nat.add_0_r in Hl; auto).
    destruct (step_nodes st s a Es I1 I2) as [J1 J2].
    replace (s + S (length l))%nat with (S s + length l)%nat by lia. apply IH; [|exact J1|exact J2].
    intros k. specialize (Hl (S k)). cbn in Hl. rewrite Hl. f_equal. lia.
Qed.

Theorem light_labels g' : light_graph true true m = Some g' -> forall n, label g' n = option_map Some (label (graph_of m) n).
Proof.
  unfold light_graph. cbn [andb negb]. intros E. inversion E; subst g'. clear E. intros n. unfold label. cbn [gnodes]. unfold enumerate.
  destruct (fold_nodes atoms 0 ([], []) (fun k => eq_refl)) as [I1 I2]; [intros i a Hi; lia|intros k x A; discriminate|].
  fold atoms bs in I1, I2 |- *. cbn [plus] in I1. change (gnodes (graph_of m)) with (mapped_nodes m).
  destruct (assoc n (mapped_nodes m)) as [g|] eqn:L.
  - apply assoc_in in L. apply mapped_nodes_in in L. destruct L as (a & Ia & Ma & -> & ->).
    apply In_nth_error in Ia. destruct Ia as (i & Ei). cbn [option_map]. apply (I1 i a); [|exact Ei|exact Ma].
    apply nth_error_Some. unfold atoms. rewrite Ei. discriminate.
  - cbn [option_map]. destruct (assoc n (fst (fold_left (lw_atom true true atoms bs) (combine (seq 0 (length atoms)) atoms) ([], [])))) as [x|] eqn:A; [|reflexivity].
    exfalso. destruct (I2 n x A) as (i & a & Ei & Ma & En). apply assoc_none in L. apply L. apply in_map_iff.
    exists (n, atom_node a). split; [reflexivity|]. apply mapped_nodes_in. exists a. split; [eapply nth_error_In; eauto|]. auto.
Qed.

(** * bonds *)
Definition bond_lt (s : nat) (u v : N) (o : Z) : Prop :=
  exists i j a b, (In (i, j, o) bs \/ In (j, i, o) bs) /\ nth_error atoms i = Some a /\ nth_error atoms j = Some b /\
    is_mapped a = true /\ is_mapped b = true /\ ra_map a = u /\ ra_map b = v /\ (i < s \/ j < s)%nat.

Lemma mapped_bonds_in u v o : In (u, v, o) (mapped_bonds m) <->
  exists i j a b, In (i, j, o) bs /\ nth_error atoms i = Some a /\ nth_error atoms j = Some b /\
    is_mapped a = true /\ is_mapped b = true /\ ra_map a = u /\ ra_map b = v.
Proof.
  unfold mapped_bonds. rewrite in_flat_map. split.
  - intros ([[i j] x] & Ib & K). cbn [fst snd] in K. rewrite !mapped_ix_spec in K. fold atoms in K.
    destruct (nth_error atoms i) as [a|] eqn:Ei; [|destruct K]. destruct (is_mapped a) eqn:Ma; [|destruct K].
    destruct (nth_error atoms j) as [b|] eqn:Ej; [|destruct K]. destruct (is_mapped b) eqn:Mb; [|destruct K].
    destruct K as [K|[]]. inversion K; subst. exists i, j, a, b. auto 10.
  - intros (i & j & a & b & Ib & Ei & Ej & Ma & Mb & <- & <-). exists (i, j, o). split; [exact Ib|]. cbn [fst snd].
    rewrite !mapped_ix_spec. fold atoms. rewrite Ei, Ej, Ma, Mb. left. reflexivity.
Qed.

Lemma final_bonds u v o : find_edge u v (mapped_bonds m) = Some o <-> bond_lt (length atoms) u v o.
Proof.
  destruct Ok as [_ Hs]. rewrite (find_edge_iff (simple_consistent Hs)), !mapped_bonds_in. split.
  - intros [(i & j & a & b & Ib & Ei & Ej & Ma & Mb & Eu & Ev)|(i & j & a & b & Ib & Ei & Ej & Ma & Mb & Eu & Ev)].
    + exists i, j, a, b. repeat split; auto. left. apply nth_error_Some. congruence.
    + exists j, i, b, a. repeat split; auto. left. apply nth_error_Some. congruence.
  - intros (i & j & a & b & [Ib|Ib] & Ei & Ej & Ma & Mb & Eu & Ev & _).
    + left. exists i, j, a, b. auto 10.
    + right. exists j, i, b, a. auto 10.
Qed.

Lemma bond_lt_mono s s' u v o : (s <= s')%nat -> bond_lt s u v o -> bond_lt s' u v o.
Proof. intros Hle (i & j & a & b & K1 & K2 & K3 & K4 & K5 & K6 & K7 & K8). exists i, j, a, b. repeat split; auto. lia. Qed.

Lemma bond_lt_all s u v o : bond_lt s u v o -> bond_lt (length atoms) u v o.
Proof.
  intros (i & j & a & b & K1 & Ei & K3 & K4 & K5 & K6 & K7 & K8). exists i, j, a, b. repeat split; auto. left. apply nth_error_Some. congruence.
Qed.

Lemma bond_unique s s' u v o o' : bond_lt s u v o -> bond_lt s' u v o' -> o = o'.
Proof. intros B1 B2. apply bond_lt_all, final_bonds in B1. apply bond_lt_all, final_bonds in B2. congruence. Qed.

Lemma bond_lt_sym s u v o : bond_lt s u v o -> bond_lt s v u o.
Proof. intros (i & j & a & b & K1 & K2 & K3 & K4 & K5 & K6 & K7 & K8). exists j, i, b, a. repeat split; auto; tauto. Qed.

Lemma atom_bonds_in k j o : In (j, o) (atom_bonds bs k) <-> In (k, j, o) bs \/ In (j, k, o) bs.
Proof.
  unfold atom_bonds. rewrite in_flat_map. split.
  - intros ([[x y] z] & Ib & Ij). destruct (Nat.eqb_spec x k) as [->|Nx].
    + destruct Ij as [E|[]]. inversion E; subst. left. exact Ib.
    + destruct (Nat.eqb_spec y k) as [->|Ny]; [|destruct Ij]. destruct Ij as [E|[]]. inversion E; subst. right. exact Ib.
  - intros [Ib|Ib].
    + exists (k, j, o). split; [exact Ib|]. rewrite Nat.eqb_refl. left. reflexivity.
    + exists (j, k, o). split; [exact Ib|]. destruct (Nat.eqb_spec j k) as [->|N]; [left; reflexivity|]. rewrite Nat.eqb_refl. left. reflexivity.
Qed.

(** the last matching bond of the atom decides *)
Fixpoint val (id : N) (L : list (nat * Z)) (u v : N) : option Z :=
  match L with
  | [] => None
  | (j, o) :: r =>
      match val id r u v with
      | Some x => Some x
      | None => match nth_error atoms j with
                | Some b => if is_mapped b && pair_eq id (ra_map b) u v then Some o else None
                | None => None
                end
      end
  end.

Lemma inner_edges id L u v : forall st,
  find_edge u v (snd (fold_left (lw_edge true true atoms id) L st)) =
  match val id L u v with Some x => Some x | None => find_edge u v (snd st) end.
Proof.
  induction L as [|[j o] L IH]; intros st; [reflexivity|]. cbn [fold_left val]. rewrite IH.
  destruct (val id L u v); [reflexivity|]. unfold lw_edge. destruct (nth_error atoms j) as [b|]; [|reflexivity]. cbn [negb orb].
  unfold is_mapped. destruct (N.eqb (ra_map b) 0) eqn:Eb; cbn [negb andb]; [reflexivity|]. cbn [snd].
  assert (is_mapped b = true) as Mb by (unfold is_mapped; rewrite Eb; reflexivity). rewrite (atom_id_tt j b Mb).
  rewrite upsert_edge_find. destruct (pair_eq id (ra_map b) u v); reflexivity.
Qed.

Lemma val_some id L u v x : val id L u v = Some x ->
  exists j b, In (j, x) L /\ nth_error atoms j = Some b /\ is_mapped b = true /\ pair_eq id (ra_map b) u v = true.
Proof.
  induction L as [|[j o] L IH]; cbn [val]; [discriminate|]. destruct (val id L u v) as [y|] eqn:V.
  - intros E. inversion E; subst y. destruct (IH eq_refl) as (j' & b & I & K). exists j', b. split; [right; exact I|exact K].
  - destruct (nth_error atoms j) as [b|] eqn:Ej; [|discriminate]. destruct (is_mapped b && pair_eq id (ra_map b) u v) eqn:C; [|discriminate].
    intros E. inversion E; subst x. apply andb_true_iff in C. destruct C as [C1 C2]. exists j, b. split; [left; reflexivity|auto].
Qed.

Lemma val_exists id L u v j b o : In (j, o) L -> nth_error atoms j = Some b -> is_mapped b = true -> pair_eq id (ra_map b) u v = true ->
  val id L u v <> None.
Proof.
  induction L as [|[j' o'] L IH]; intros I Ej Mb P; [destruct I|]. cbn [val]. destruct (val id L u v) eqn:V; [discriminate|].
  destruct I as [E|I]; [inversion E; subst; rewrite Ej, Mb, P; discriminate|]. exfalso. apply (IH I Ej Mb P). reflexivity.
Qed.

Definition EInv (E : list (N * N * Z)) (s : nat) : Prop := forall u v o, find_edge u v E = Some o <-> bond_lt s u v o.

Lemma step_edges st s a : nth_error atoms s = Some a -> EInv (snd st) s -> EInv (snd (lw_atom true true atoms bs st (s, a))) (S s).
Proof.
  intros Es I u v o. unfold lw_atom. cbn [andb]. destruct (N.eqb (ra_map a) 0) eqn:Ea.
  - (* unmapped atom: nothing happens, and no bond with a mapped end at index s exists *)
    rewrite (I u v o). split; [apply bond_lt_mono; lia|].
    intros (i & j & c & d & K1 & Ei & Ej & Mc & Md & Eu & Ev & Hlt). exists i, j, c, d. repeat split; auto.
    destruct Hlt as [H|H]; [destruct (Nat.eq_dec i s) as [->|]; [|left; lia]|destruct (Nat.eq_dec j s) as [->|]; [|right; lia]].
    + rewrite Es in Ei. inversion Ei; subst c. unfold is_mapped in Mc. rewrite Ea in Mc. discriminate.
    + rewrite Es in Ej. inversion Ej; subst d. unfold is_mapped in Md. rewrite Ea in Md. discriminate.
  - assert (is_mapped a = true) as Ma by (unfold is_mapped; rewrite Ea; reflexivity). rewrite (atom_id_tt s a Ma).
    rewrite inner_edges. cbn [snd]. split.
    + destruct (val (ra_map a) (atom_bonds bs s) u v) as [x|] eqn:V.
      * intros E. inversion E; subst x. destruct (val_some _ _ _ _ _ V) as (j & b & Ij & Ej & Mb & P).
        apply atom_bonds_in in Ij. apply pair_eq_spec in P. destruct P as [[<- <-]|[<- <-]].
        -- exists s, j, a, b. repeat split; auto; try tauto; try (left; lia); try (right; lia).
        -- exists j, s, b, a. repeat split; auto; try tauto; try (left; lia); try (right; lia).
      * intros E. apply I in E. apply (bond_lt_mono s); [lia|exact E].
    + intros B. pose proof B as (i & j & c & d & K1 & Ei & Ej & Mc & Md & Eu & Ev & Hlt).
      assert ((i = s \/ j = s) \/ bond_lt s u v o) as [Inc|Old].
      { destruct (Nat.eq_dec i s); [left; left; assumption|]. destruct (Nat.eq_dec j s); [left; right; assumption|].
        right. exists i, j, c, d. repeat split; auto. lia. }
      * (* a bond of atom s itself: it is in the atom's bond list, so val is not None, and by uniqueness it is o *)
        assert (val (ra_map a) (atom_bonds bs s) u v <> None) as NV.
        { destruct Inc as [-> | ->].
          - rewrite Es in Ei. inversion Ei; subst c. apply (val_exists _ _ u v j d o); auto.
            + apply atom_bonds_in. tauto.
            + apply pair_eq_spec. left. auto.
          - rewrite Es in Ej. inversion Ej; subst d. apply (val_exists _ _ u v i c o); auto.
            + apply atom_bonds_in. tauto.
            + apply pair_eq_spec. right. auto. }
        destruct (val (ra_map a) (atom_bonds bs s) u v) as [x|] eqn:V; [|congruence]. f_equal.
        destruct (val_some _ _ _ _ _ V) as (j' & b' & Ij & Ej' & Mb' & P). apply atom_bonds_in in Ij. apply pair_eq_spec in P.
        assert (bond_lt (S s) u v x) as Bx.
        { destruct P as [[<- <-]|[<- <-]].
          - exists s, j', a, b'. repeat split; auto; try tauto; try (left; lia); try (right; lia).
          - exists j', s, b', a. repeat split; auto; try tauto; try (left; lia); try (right; lia). }
        apply (bond_unique _ _ u v x o Bx B).
      * destruct (val (ra_map a) (atom_bonds bs s) u v) as [x|] eqn:V; [|apply I; exact Old]. f_equal.
        destruct (val_some _ _ _ _ _ V) as (j' & b' & Ij & Ej' & Mb' & P). apply atom_bonds_in in Ij. apply pair_eq_spec in P.
        assert (bond_lt (S s) u v x) as Bx.
        { destruct P as [[<- <-]|[<- <-]].
          - exists s, j', a, b'. repeat split; auto; try tauto; try (left; lia); try (right; lia).
          - exists j', s, b', a. repeat split; auto; try tauto; try (left; lia); try (right; lia). }
        apply (bond_unique _ _ u v x o Bx B).
Qed.

Lemma fold_edges l : forall s st, (forall k, nth_error l k = nth_error atoms (s + k)) -> EInv (snd st) s ->
  EInv (snd (fold_left (lw_atom true true atoms bs) (combine (seq s (length l)) l) st)) (s + length l).
Proof.
  induction l as [|a l IH]; intros s st Hl I.
  - cbn. rewrite Nat.add_0_r. exact I.
  - cbn [length seq combine fold_left].
    assert (nth_error atoms s = Some a) as Es by (specialize (Hl 0%nat); cbn in Hl; rewrite Nat.add_0_r in Hl; auto).
    replace (s + S (length l))%nat with (S s + length l)%nat by lia. apply IH; [|apply step_edges; assumption].
    intros k. specialize (Hl (S k)). cbn in Hl. rewrite Hl. f_equal. lia.
Qed.

Theorem light_bonds g' : light_graph true true m = Some g' -> forall u v, adj g' u v = adj (graph_of m) u v.
Proof.
  unfold light_graph. cbn [andb negb]. intros E. inversion E; subst g'. clear E. intros u v. unfold adj. cbn [gedges]. unfold enumerate.
  change (gedges (graph_of m)) with (mapped_bonds m). fold atoms bs.
  assert (EInv (snd (fold_left (lw_atom true true atoms bs) (combine (seq 0 (length atoms)) atoms) ([], []))) (0 + length atoms)) as I.
  { apply fold_edges; [reflexivity|]. intros a b o. cbn. split; [discriminate|]. intros (i & j & _ & _ & _ & _ & _ & _ & _ & _ & _ & [H|H]); lia. }
  cbn [plus] in I. apply option_ext. intros o. rewrite (I u v o), final_bonds. reflexivity.
Qed.

(** C01_light_builder: labels and bonds of transform *)
Theorem light_is_transform g' : light_graph true true m = Some g' ->
  (forall n, label g' n = option_map Some (label (graph_of m) n)) /\ (forall u v, adj g' u v = adj (graph_of m) u v).
Proof. intros E. split; [apply light_labels; exact E|apply light_bonds; exact E]. Qed.
End Light.

Example C01_light_builder_nonvacuous :
  rmol_ok ex_mr /\ exists g', light_graph true true ex_mr = Some g' /\ gedges g' = [(1%N, 2%N, 2%Z)] /\ map fst (gnodes g') = [1; 2; 3]%N /\
  (forall n, label g' n = option_map Some (label (graph_of ex_mr) n)) /\ (forall u v, adj g' u v = adj (graph_of ex_mr) u v).
Proof.
  assert (rmol_ok ex_mr) as O by (split; cbn; repeat constructor; cbn; intuition discriminate).
  split; [exact O|]. eexists. split; [reflexivity|]. split; [reflexivity|]. split; [reflexivity|].
  apply (light_is_transform ex_mr O). reflexivity.
Qed.
