(** C17 — the attribute layer (model/C17_RawModel.v): what [normalise] — hence every label, index and matrix computed from a
    caller-supplied graph — depends on.  Two raw graphs whose nodes agree, position by position, on identifier, on the two
    classification tests and on the effective label, and whose edges agree on end points, role and effective coefficient, are
    normalised to the SAME node-level graph (and raise KeyError alike): it does not matter WHICH of kind / bipartite carries the
    classification, whether a label is written out or falls back to the identifier, or whether a coefficient 1 is written out. *)
From Coq Require Import List NArith ZArith Bool Arith Lia.
From SK Require Import lib.Tok lib.IRSortKeys lib.C17_Farkas model.C17_Model model.C17_NodeModel model.C17_RawModel.
Import ListNotations.

Definition node_eqv (a b : rnode) : Prop :=
  rn_id a = rn_id b /\ species_like a = species_like b /\ reaction_like a = reaction_like b /\ label_of a = label_of b.

Definition eff_stoich (e : redge) : Z := match re_stoich e with Some c => c | None => 1%Z end.

Definition edge_eqv (e f : redge) : Prop :=
  re_u e = re_u f /\ re_v e = re_v f /\ re_role e = re_role f /\ eff_stoich e = eff_stoich f.

Lemma find_node_eqv ns ns' u : Forall2 node_eqv ns ns' ->
  match find (fun n => N.eqb (rn_id n) u) ns, find (fun n => N.eqb (rn_id n) u) ns' with
  | Some a, Some b => node_eqv a b
  | None, None => True
  | _, _ => False
  end.
Proof.
  induction 1 as [|a b ns ns' Hab Hrest IH]; simpl; auto.
  destruct Hab as (Hid & Hs & Hr & Hl). rewrite <- Hid.
  destruct (N.eqb (rn_id a) u); [repeat split; auto|exact IH].
Qed.

Lemma is_species_eqv a b : node_eqv a b -> is_species a = is_species b.
Proof. intros (_ & Hs & _ & _). exact Hs. Qed.

Lemma is_reaction_eqv a b : node_eqv a b -> is_reaction a = is_reaction b.
Proof. intros (_ & Hs & Hr & _). unfold is_reaction. now rewrite Hs, Hr. Qed.

Lemma bnode_of_eqv a b : node_eqv a b -> bnode_of a = bnode_of b.
Proof. intros (Hid & _ & _ & Hl). unfold bnode_of. now rewrite Hid, Hl. Qed.

Lemma filter_map_eqv (p : rnode -> bool) ns ns' :
  (forall a b, node_eqv a b -> p a = p b) -> Forall2 node_eqv ns ns' ->
  map bnode_of (filter p ns) = map bnode_of (filter p ns').
Proof.
  intros Hp. induction 1 as [|a b ns ns' Hab Hrest IH]; simpl; auto.
  rewrite (Hp a b Hab). destruct (p b); simpl; [rewrite (bnode_of_eqv a b Hab), IH|]; auto.
Qed.

Section Eqv.
  Variables G G' : rgraph.
  Hypothesis Hn : Forall2 node_eqv (rg_nodes G) (rg_nodes G').

  (** the two end points are determined alike, up to [node_eqv] *)
  Lemma ends_eqv e f : edge_eqv e f ->
    match ends G e, ends G' f with
    | Some (s, r), Some (s', r') => node_eqv s s' /\ node_eqv r r'
    | None, None => True
    | _, _ => False
    end.
  Proof.
    intros (Hu & Hv & _ & _). unfold ends, find_node. rewrite <- Hu, <- Hv.
    pose proof (find_node_eqv _ _ (re_u e) Hn) as Fu. pose proof (find_node_eqv _ _ (re_v e) Hn) as Fv.
    destruct (find (fun n => N.eqb (rn_id n) (re_u e)) (rg_nodes G)) as [u|],
             (find (fun n => N.eqb (rn_id n) (re_u e)) (rg_nodes G')) as [u'|]; try contradiction; auto.
    destruct (find (fun n => N.eqb (rn_id n) (re_v e)) (rg_nodes G)) as [v|],
             (find (fun n => N.eqb (rn_id n) (re_v e)) (rg_nodes G')) as [v'|]; try contradiction; auto.
    destruct Fu as (Hu1 & Hu2 & Hu3 & Hu4). destruct Fv as (Hv1 & Hv2 & Hv3 & Hv4).
    rewrite <- Hu2, <- Hu3, <- Hv2, <- Hv3.
    destruct (species_like u && reaction_like v); [split; repeat split; auto|].
    destruct (species_like v && reaction_like u); [split; repeat split; auto|exact Logic.I].
  Qed.

  Lemma arc_of_eqv e f : edge_eqv e f -> arc_of G e = arc_of G' f.
  Proof.
    intros Hef. pose proof (ends_eqv e f Hef) as He. destruct Hef as (_ & _ & Hro & Hst).
    unfold arc_of. fold (eff_stoich e). fold (eff_stoich f). rewrite <- Hro, <- Hst.
    destruct (ends G e) as [[s r]|], (ends G' f) as [[s' r']|]; try contradiction; auto.
    destruct He as [(Hs & _) (Hr & _)]. now rewrite Hs, Hr.
  Qed.

  Lemma key_error_edge_eqv e f : edge_eqv e f ->
    match ends G e with Some (_, r) => negb (is_reaction r) | None => false end =
    match ends G' f with Some (_, r) => negb (is_reaction r) | None => false end.
  Proof.
    intros Hef. pose proof (ends_eqv e f Hef) as He.
    destruct (ends G e) as [[s r]|], (ends G' f) as [[s' r']|]; try contradiction; auto.
    destruct He as [_ Hr]. now rewrite (is_reaction_eqv r r' Hr).
  Qed.

  Hypothesis He : Forall2 edge_eqv (rg_edges G) (rg_edges G').

  Theorem normalise_eqv : normalise G = normalise G' /\ key_error G = key_error G'.
  Proof.
    split.
    - unfold normalise. f_equal.
      + apply filter_map_eqv; auto using is_species_eqv.
      + apply filter_map_eqv; auto using is_reaction_eqv.
      + induction He as [|e f es fs Hef Hrest IH]; simpl; auto. now rewrite (arc_of_eqv e f Hef), IH.
    - unfold key_error. induction He as [|e f es fs Hef Hrest IH]; simpl; auto.
      now rewrite (key_error_edge_eqv e f Hef), IH.
  Qed.

  Corollary run_raw_eqv : run_raw G = run_raw G'.
  Proof. unfold run_raw. destruct normalise_eqv as [-> ->]. reflexivity. Qed.
End Eqv.

(** an edge without a usable role, or one that does not join a species-like to a reaction-like node, contributes nothing *)
Lemma arc_of_ignored G e : re_role e = None \/ ends G e = None -> arc_of G e = [].
Proof. unfold arc_of. intros [H|H]; rewrite H; auto. destruct (ends G e) as [[s r]|]; auto. Qed.

(** non-vacuity: A -> B written with full attributes, and the same graph with the classification carried by the bipartite flag
    only, labels left to the identifiers' strings and no coefficient — plus a node without attributes, an edge between the two
    species and a role-less edge: same labels, same matrices *)
Definition sA : str := [65%N]. Definition sB : str := [66%N]. Definition sr : str := [114%N].
Definition raw_full : rgraph :=
  RG [RNode 1 [49%N] (Some true) (Some true) (Some sA); RNode 2 [50%N] (Some true) (Some true) (Some sB);
      RNode 3 [51%N] (Some false) (Some false) (Some sr)]
     [REdge 1 3 (Some Reactant) (Some 1%Z); REdge 3 2 (Some Product) (Some 1%Z)].
Definition raw_bare : rgraph :=
  RG [RNode 1 sA None (Some true) None; RNode 2 sB None (Some true) None; RNode 3 sr None (Some false) None;
      RNode 9 [57%N] None None None]
     [REdge 1 3 (Some Reactant) None; REdge 3 2 (Some Product) None; REdge 1 2 (Some Product) (Some 5%Z);
      REdge 2 3 None (Some 7%Z); REdge 9 3 (Some Reactant) None].

Example raw_examples :
  normalise raw_full = BG [BNode 1 sA; BNode 2 sB] [BNode 3 sr] [BArc 1 3 1 Reactant; BArc 2 3 1 Product] /\
  normalise raw_bare = normalise raw_full /\ key_error raw_bare = false /\
  build_S_nodes (normalise raw_bare) = [[(-1)%Z]; [1%Z]] /\
  run_raw (RG [RNode 1 sA None None None] []) = L [I 2%Z] /\
  (* contradictory attributes: node 3 says kind = "reaction" but bipartite = 0 -> classified as a species, an edge reaching it as
     a reaction end raises KeyError *)
  run_raw (RG [RNode 1 sA (Some true) None None; RNode 3 sr (Some false) (Some true) None; RNode 4 sr (Some false) None None]
              [REdge 1 3 (Some Reactant) None]) = L [I 3%Z].
Proof. vm_compute. repeat split; reflexivity. Qed.

(* ------------------------------------------------------------------ the fully annotated export, seen through the attribute layer *)
From Coq Require Import Permutation.
From SK Require Import proof.C17_Proof.

(** hypergraph_to_bipartite as a RAW graph: every node carries kind, bipartite and label, every arc role and stoich; reactant arcs
    run species -> reaction, product arcs reaction -> species; [strs] = str(node), irrelevant here since every label is present *)
Definition raw_species (ids : str -> N) (strs : N -> str) (s : str) : rnode :=
  RNode (ids s) (strs (ids s)) (Some true) (Some true) (Some s).
Definition raw_rxn (idr : str -> N) (strs : N -> str) (e : rxn) : rnode :=
  RNode (idr (rid e)) (strs (idr (rid e))) (Some false) (Some false) (Some (rrule e)).
Definition raw_arc (ids idr : str -> N) (a : arc) : redge :=
  match a_role a with
  | Reactant => REdge (ids (a_species a)) (idr (a_rxn a)) (Some Reactant) (Some (a_stoich a))
  | Product => REdge (idr (a_rxn a)) (ids (a_species a)) (Some Product) (Some (a_stoich a))
  end.
Definition raw_export (ids idr : str -> N) (strs : N -> str) (net : list rxn) (iso : list str) : rgraph :=
  RG (map (raw_species ids strs) (species_set net iso) ++ map (raw_rxn idr strs) (edges_sorted net))
     (map (raw_arc ids idr) (bip_arcs net)).

Lemma filter_map_all {A B} (p : B -> bool) (f : A -> B) l : (forall x, p (f x) = true) -> filter p (map f l) = map f l.
Proof. intros H. induction l as [|x l IH]; simpl; auto. now rewrite H, IH. Qed.

Lemma filter_map_none {A B} (p : B -> bool) (f : A -> B) l : (forall x, p (f x) = false) -> filter p (map f l) = [].
Proof. intros H. induction l as [|x l IH]; simpl; auto. now rewrite H. Qed.

Lemma find_app_l {A} (p : A -> bool) l1 l2 x : In x l1 -> p x = true -> find p (l1 ++ l2) = find p l1.
Proof.
  induction l1 as [|y l1 IH]; intros Hin Hp; [destruct Hin|]. simpl.
  destruct (p y) eqn:E; auto. destruct Hin as [->|Hin]; [congruence|]. now apply IH.
Qed.

Lemma find_app_r {A} (p : A -> bool) l1 l2 : (forall x, In x l1 -> p x = false) -> find p (l1 ++ l2) = find p l2.
Proof.
  induction l1 as [|y l1 IH]; intros H; simpl; auto.
  rewrite (H y (or_introl eq_refl)). apply IH. intros x Hx. apply H. now right.
Qed.

Lemma find_exists {A} (p : A -> bool) l x : In x l -> p x = true -> exists y, find p l = Some y /\ In y l /\ p y = true.
Proof.
  induction l as [|z l IH]; intros Hin Hp; [destruct Hin|]. simpl.
  destruct (p z) eqn:E.
  - exists z. split; [reflexivity|split; [now left|exact E]].
  - destruct Hin as [->|Hin]; [congruence|]. destruct (IH Hin Hp) as [y (H1 & H2 & H3)].
    exists y. split; [exact H1|split; [now right|exact H3]].
Qed.

Section RawExport.
  Variables (ids idr : str -> N) (strs : N -> str) (net : list rxn) (iso : list str).
  (** species identifiers and reaction identifiers are different objects (node ids of one graph) *)
  Hypothesis disjoint : forall s e, In s (species_set net iso) -> In e net -> ids s <> idr (rid e).

  Let G := raw_export ids idr strs net iso.

  Lemma raw_find_species s : In s (species_set net iso) ->
    exists n, find_node G (ids s) = Some n /\ rn_id n = ids s /\ species_like n = true /\ reaction_like n = false.
  Proof.
    intros Hs. unfold find_node, G, raw_export. simpl rg_nodes.
    assert (Hin : In (raw_species ids strs s) (map (raw_species ids strs) (species_set net iso))) by now apply in_map.
    set (p := fun n : rnode => N.eqb (rn_id n) (ids s)).
    assert (Hp : p (raw_species ids strs s) = true) by apply N.eqb_refl.
    rewrite (find_app_l p _ _ _ Hin Hp).
    destruct (find_exists p _ _ Hin Hp) as [y (H1 & H2 & H3)]. exists y. split; [exact H1|].
    apply in_map_iff in H2 as [s' [<- _]]. apply N.eqb_eq in H3. split; [exact H3|split; reflexivity].
  Qed.

  Lemma raw_find_rxn e : In e (edges_sorted net) ->
    exists n, find_node G (idr (rid e)) = Some n /\ rn_id n = idr (rid e) /\ species_like n = false /\ reaction_like n = true.
  Proof.
    intros He. assert (Hen : In e net) by (eapply Permutation_in; [apply edges_sorted_perm|exact He]).
    unfold find_node, G, raw_export. simpl rg_nodes.
    set (p := fun n : rnode => N.eqb (rn_id n) (idr (rid e))).
    rewrite (find_app_r p).
    - assert (Hin : In (raw_rxn idr strs e) (map (raw_rxn idr strs) (edges_sorted net))) by now apply in_map.
      assert (Hp : p (raw_rxn idr strs e) = true) by apply N.eqb_refl.
      destruct (find_exists p _ _ Hin Hp) as [y (H1 & H2 & H3)]. exists y. split; [exact H1|].
      apply in_map_iff in H2 as [e' [<- _]]. apply N.eqb_eq in H3. split; [exact H3|split; reflexivity].
    - intros x Hx. apply in_map_iff in Hx as [s [<- Hs]]. unfold p. simpl. apply N.eqb_neq. now apply disjoint.
  Qed.

  Lemma raw_arc_ends a : In a (bip_arcs net) ->
    arc_of G (raw_arc ids idr a) = [BArc (ids (a_species a)) (idr (a_rxn a)) (a_stoich a) (a_role a)] /\
    match ends G (raw_arc ids idr a) with Some (_, r) => negb (is_reaction r) | None => false end = false.
  Proof.
    intros Ha. unfold bip_arcs in Ha. apply in_flat_map in Ha as (e & Ie & Ia).
    assert (Ien : In e net) by (eapply Permutation_in; [apply edges_sorted_perm|exact Ie]).
    assert (Hs : In (a_species a) (rxn_species e) /\ a_rxn a = rid e).
    { unfold arcs_of in Ia. unfold rxn_species. rewrite in_app_iff. apply in_app_iff in Ia.
      destruct Ia as [Ia|Ia]; apply in_map_iff in Ia; destruct Ia as (p & <- & Ip); simpl; split; auto;
        [left|right]; apply in_map; exact Ip. }
    destruct Hs as [Hsp Hr].
    assert (Hss : In (a_species a) (species_set net iso)) by (apply species_set_in; left; exists e; auto).
    destruct (raw_find_species _ Hss) as [u (Fu & Iu & Su & Ru)].
    destruct (raw_find_rxn e Ie) as [v (Fv & Iv & Sv & Rv)]. rewrite <- Hr in Fv, Iv.
    unfold arc_of, ends, raw_arc. destruct (a_role a); simpl re_u; simpl re_v; simpl re_role; simpl re_stoich.
    - rewrite Fu, Fv, Su, Rv. simpl. rewrite Iu, Iv. split; auto. unfold is_reaction. now rewrite Sv, Rv.
    - rewrite Fv, Fu, Sv, Su, Rv. simpl. rewrite Iu, Iv. split; auto. unfold is_reaction. now rewrite Sv, Rv.
  Qed.

  (** the attribute layer applied to the fully annotated export is the node-level export of model/C17_NodeModel.v — so
      [C17_S_node_ids] (labels and matrices = the label-level model, for every injective identifier assignment) applies to what the
      code computes from it, and by [normalise_eqv] to every graph that is attribute-equivalent to it *)
  Theorem normalise_raw_export : normalise G = export ids idr net iso /\ key_error G = false.
  Proof.
    split.
    - unfold normalise, export, G, raw_export. simpl rg_nodes. simpl rg_edges. f_equal.
      + rewrite filter_app, filter_map_all, filter_map_none, app_nil_r by reflexivity. now rewrite map_map.
      + rewrite filter_app, filter_map_none, filter_map_all by reflexivity. simpl. now rewrite map_map.
      + assert (H : forall l, incl l (bip_arcs net) ->
                      flat_map (arc_of (raw_export ids idr strs net iso)) (map (raw_arc ids idr) l) =
                      map (fun a => BArc (ids (a_species a)) (idr (a_rxn a)) (a_stoich a) (a_role a)) l).
        { induction l as [|a l IH]; intros Hl; simpl; auto.
          destruct (raw_arc_ends a (Hl a (or_introl eq_refl))) as [E _]. unfold G in E. rewrite E. simpl. f_equal. apply IH.
          intros x Hx. apply Hl. now right. }
        apply H, incl_refl.
    - unfold key_error, G, raw_export. simpl rg_edges.
      assert (H : forall l, incl l (bip_arcs net) ->
                    existsb (fun e => match ends (raw_export ids idr strs net iso) e with
                                      | Some (_, r) => negb (is_reaction r) | None => false end)
                            (map (raw_arc ids idr) l) = false).
      { induction l as [|a l IH]; intros Hl; simpl; auto.
        destruct (raw_arc_ends a (Hl a (or_introl eq_refl))) as [_ E]. unfold G in E. rewrite E. simpl. apply IH.
        intros x Hx. apply Hl. now right. }
      apply H, incl_refl.
  Qed.
End RawExport.

(* ------------------------------------------------------------------ undirected inputs at the attribute level *)
Section Undirected.
  Variables (ids idr : str -> N) (strs : N -> str) (net : list rxn) (iso : list str).
  Hypothesis disjoint : forall s e, In s (species_set net iso) -> In e net -> ids s <> idr (rid e).

  Let G := raw_export ids idr strs net iso.

  Lemma orient_redge_nodes G1 G2 e : rg_nodes G1 = rg_nodes G2 -> orient_redge G1 e = orient_redge G2 e.
  Proof. intros H. unfold orient_redge, find_node. now rewrite H. Qed.

  Lemma u_is_rxn_species n0 : species_like n0 = true -> rn_kind n0 = Some true -> u_is_rxn n0 = false.
  Proof. intros _ Hk. unfold u_is_rxn. now rewrite Hk. Qed.

  (** the species end of an arc of the export is found as a species node, the reaction end as a reaction node *)
  Lemma und_find_species s : In s (species_set net iso) ->
    exists nd, find_node G (ids s) = Some nd /\ u_is_rxn nd = false.
  Proof.
    intros Hs. unfold find_node, G, raw_export. simpl rg_nodes.
    set (p := fun nd : rnode => N.eqb (rn_id nd) (ids s)).
    assert (Hin : In (raw_species ids strs s) (map (raw_species ids strs) (species_set net iso))) by now apply in_map.
    assert (Hp : p (raw_species ids strs s) = true) by apply N.eqb_refl.
    rewrite (find_app_l p _ _ _ Hin Hp).
    destruct (find_exists p _ _ Hin Hp) as [y (H1 & H2 & H3)]. exists y. split; [exact H1|].
    apply in_map_iff in H2 as [s' [<- _]]. reflexivity.
  Qed.

  Lemma und_find_rxn e : In e (edges_sorted net) ->
    exists nd, find_node G (idr (rid e)) = Some nd /\ u_is_rxn nd = true.
  Proof.
    intros He. assert (Hen : In e net) by (eapply Permutation_in; [apply edges_sorted_perm|exact He]).
    unfold find_node, G, raw_export. simpl rg_nodes.
    set (p := fun nd : rnode => N.eqb (rn_id nd) (idr (rid e))).
    rewrite (find_app_r p).
    - assert (Hin : In (raw_rxn idr strs e) (map (raw_rxn idr strs) (edges_sorted net))) by now apply in_map.
      assert (Hp : p (raw_rxn idr strs e) = true) by apply N.eqb_refl.
      destruct (find_exists p _ _ Hin Hp) as [y (H1 & H2 & H3)]. exists y. split; [exact H1|].
      apply in_map_iff in H2 as [e' [<- _]]. reflexivity.
    - intros x Hx. apply in_map_iff in Hx as [s [<- Hs]]. unfold p. simpl. apply N.eqb_neq. now apply disjoint.
  Qed.

  Lemma orient_flip b a : In a (bip_arcs net) -> orient_redge G (flip_redge b (raw_arc ids idr a)) = raw_arc ids idr a.
  Proof.
    intros Ha. unfold bip_arcs in Ha. apply in_flat_map in Ha as (e & Ie & Ia).
    assert (Ien : In e net) by (eapply Permutation_in; [apply edges_sorted_perm|exact Ie]).
    assert (Hs : In (a_species a) (rxn_species e) /\ a_rxn a = rid e).
    { unfold arcs_of in Ia. unfold rxn_species. rewrite in_app_iff. apply in_app_iff in Ia.
      destruct Ia as [Ia|Ia]; apply in_map_iff in Ia; destruct Ia as (p & <- & Ip); simpl; split; auto;
        [left|right]; apply in_map; exact Ip. }
    destruct Hs as [Hsp Hr].
    assert (Hss : In (a_species a) (species_set net iso)) by (apply species_set_in; left; exists e; auto).
    destruct (und_find_species _ Hss) as [u (Fu & Uu)].
    destruct (und_find_rxn e Ie) as [v (Fv & Uv)]. rewrite <- Hr in Fv.
    unfold raw_arc. destruct (a_role a); destruct b; unfold flip_redge, orient_redge; simpl re_u; simpl re_v; simpl re_role.
    - rewrite Fv, Uv. reflexivity.
    - rewrite Fu, Uu. reflexivity.
    - rewrite Fu, Uu. reflexivity.
    - rewrite Fv, Uv. reflexivity.
  Qed.

  Lemma stored_orient l : incl l (bip_arcs net) ->
    forall flips, map (orient_redge G) (stored flips (map (raw_arc ids idr) l)) = map (raw_arc ids idr) l.
  Proof.
    induction l as [|a l IH]; intros Hl flips; [destruct flips; reflexivity|].
    assert (Ha : In a (bip_arcs net)) by (apply Hl; now left).
    assert (Hl' : incl l (bip_arcs net)) by (intros x Hx; apply Hl; now right).
    destruct flips as [|b flips]; simpl.
    - pose proof (orient_flip false a Ha) as E. unfold flip_redge in E. rewrite E. f_equal. apply (IH Hl' []).
    - rewrite (orient_flip b a Ha). f_equal. apply (IH Hl' flips).
  Qed.

  (** whichever way the undirected graph stores its edges, orienting them by role gives back the directed raw export — so undirected
      inputs are covered by [normalise_raw_export] and everything that follows from it *)
  Theorem orient_undirected_raw flips : orient_raw (undirected_raw flips G) = G.
  Proof.
    unfold orient_raw, undirected_raw. cbn [rg_nodes rg_edges].
    rewrite (map_ext _ (orient_redge G)) by (intros a; apply orient_redge_nodes; reflexivity).
    assert (E : map (orient_redge G) (stored flips (rg_edges G)) = rg_edges G).
    { unfold G at 2 3. unfold raw_export. cbn [rg_edges]. apply stored_orient, incl_refl. }
    rewrite E. unfold G, raw_export. reflexivity.
  Qed.
End Undirected.
