(** C16 — species graph, continued: the species of the rebuilt network and its molecule labels. *)
From stdpp Require Import gmap strings sets pretty sorting.
From SK Require Import lib.Tok model.C15_Model proof.C15_Proof model.C16_Model proof.C16_Defs proof.C16_Common proof.C16_Sg
  proof.C16_BipA proof.C16_BipB.
Local Open Scope string_scope.
Local Open Scope list_scope.

(** * the species nodes of the exported graph *)
Definition sg_node (im : bool) (H : net) (x : string) : snode :=
  SNode (Some x) (Some "species") (if im then mol H !! x else None).
Record NInv2 (im : bool) (H : net) (nodes : gmap string snode) : Prop := {
  n2_sp : ∀ x, x ∈ species H → nodes !! x = Some (sg_node im H x);
  n2_other : ∀ x nd, nodes !! x = Some nd → x ∈ species H ∨ nd = SNode None None None
}.

Lemma ensure_node_NInv2 im H x nodes : NInv2 im H nodes → NInv2 im H (ensure_node x nodes).
Proof.
  intros [Ha Hb]. unfold ensure_node. destruct (nodes !! x) eqn:E; [done|]. split.
  - intros y Hy. rewrite lookup_insert_ne; [by apply Ha|]. intros ->. rewrite Ha in E by done. done.
  - intros y nd. rewrite lookup_insert_Some. intros [[<- <-]|[_ ?]]; [by right|by eapply Hb].
Qed.
Lemma fold_NInv2 im H l : ∀ G, NInv2 im H (g_nodes G) → NInv2 im H (g_nodes (foldl step_tuple G l)).
Proof.
  induction l as [|t l IH]; intros G HG; [done|]. cbn [foldl]. apply IH.
  unfold step_tuple, collapse_pair. cbn [g_nodes]. by repeat apply ensure_node_NInv2.
Qed.
Lemma insert_fold_lookup {A} (f : string → A) (l : list string) : ∀ (m : gmap string A) x,
  foldl (λ acc s, <[ s := f s ]> acc) m l !! x = if decide (x ∈ l) then Some (f x) else m !! x.
Proof.
  induction l as [|s l IH]; intros m x; cbn [foldl].
  - by rewrite decide_False by apply not_elem_of_nil.
  - rewrite IH. destruct (decide (x ∈ l)) as [Hin|Hnin].
    + by rewrite decide_True by (by right).
    + destruct (decide (x = s)) as [->|Hne].
      * rewrite decide_True by left. by rewrite lookup_insert.
      * rewrite decide_False by (intros [?|?]%elem_of_cons; done). by rewrite lookup_insert_ne.
Qed.
Lemma export_NInv2 im H : NInv2 im H (g_nodes (hypergraph_to_species_graph im H)).
Proof.
  unfold hypergraph_to_species_graph. rewrite export_flat. apply fold_NInv2. cbn [g_nodes]. split.
  - intros x Hx. rewrite (insert_fold_lookup (sg_node im H)). by rewrite decide_True by (by apply elem_of_elements).
  - intros x nd. rewrite (insert_fold_lookup (sg_node im H)). destruct (decide (x ∈ elements (species H))) as [Hin|_].
    + left. by apply elem_of_elements in Hin.
    + by intros ?%lookup_empty_Some.
Qed.

(** * the full result *)
Lemma species_graph_roundtrip_full (pick : gset string → string) (default_rule : string) (include_mol mol_attr : bool) (H : net) :
  two_sided H → occurring H ⊆ species H →
  (species_graph_to_hypergraph pick default_rule mol_attr (hypergraph_to_species_graph include_mol H)).2 = None ∧
  stoich_of <$> edges (species_graph_to_hypergraph pick default_rule mol_attr (hypergraph_to_species_graph include_mol H)).1
    = stoich_of <$> edges H ∧
  species (species_graph_to_hypergraph pick default_rule mol_attr (hypergraph_to_species_graph include_mol H)).1 = occurring H ∧
  mol (species_graph_to_hypergraph pick default_rule mol_attr (hypergraph_to_species_graph include_mol H)).1
    = if include_mol && mol_attr then filter (λ p, p.1 ∈ occurring H) (mol H) else ∅.
Proof.
  intros H2 Hocc. destruct (species_graph_roundtrip pick default_rule include_mol mol_attr H H2) as [Herr Hst].
  split; [done|]. split; [done|]. clear Herr Hst.
  destruct (export_inv include_mol H) as [HA HN]. pose proof (export_NInv2 include_mol H) as [Hna Hnb].
  set (G := hypergraph_to_species_graph include_mol H) in *.
  unfold species_graph_to_hypergraph. rewrite (entries_flat G) by (intros; eapply ai_ne; eauto).
  fold (sg_ents G). cbn [orb].
  pose proof (sg_ents_spec H G (AInv_VAInv _ _ HA) HN H2) as Hspec. pose proof (sg_ents_dom H G (AInv_VAInv _ _ HA) HN H2) as Hdom.
  rewrite bool_decide_eq_false_2.
  2:{ intros (e & ent & He & Hc). destruct (Hspec e ent He) as (rx & _ & Hcl & _). congruence. }
  set (l := sort_by_key (map_to_list (sg_ents G))).
  assert (l ≡ₚ map_to_list (sg_ents G)) as Hperm by apply merge_sort_Permutation.
  assert (∀ e ent, (e, ent) ∈ l ↔ sg_ents G !! e = Some ent) as Hl.
  { intros e ent. by rewrite Hperm, elem_of_map_to_list. }
  set (fl := λ p : string * sentry, normalize (map_to_list (se_r p.2))).
  set (fr := λ p : string * sentry, normalize (map_to_list (se_p p.2))).
  set (frule := λ p : string * sentry, if decide (se_rules p.2 = ∅) then default_rule else pick (se_rules p.2)).
  assert (∀ e ent, (e, ent) ∈ l → ∃ rx, edges H !! e = Some rx ∧ fl (e, ent) = r_lhs rx ∧ fr (e, ent) = r_rhs rx) as Hside.
  { intros e ent Hin%Hl. destruct (Hspec e ent Hin) as (rx & Hrx & _ & Hr & Hp). exists rx. split; [done|].
    unfold fl, fr. cbn [snd]. by rewrite Hr, Hp, !normalize_pos_map. }
  assert (NoDup l.*1) as Hnd by (rewrite Hperm; apply NoDup_fst_map_to_list).
  destruct (rebuild_fold fst fl fr frule l Hnd) with (s := empty_net) as (s' & Hf & _ & Hs & Hm).
  { apply Forall_forall. intros [e ent] Hin. destruct (Hside e ent Hin) as (rx & Hrx & -> & ->).
    destruct (H2 e rx Hrx). tauto. }
  { done. }
  match goal with |- context [foldl ?f (empty_net, None) l] =>
    change (foldl f (empty_net, None) l) with (foldl (rebuild_step fst fl fr frule) (empty_net, None) l) end.
  rewrite Hf. cbn [fst].
  assert (species s' = occurring H) as Hsp.
  { rewrite Hs. cbn [species empty_net]. rewrite (left_id_L ∅ (∪)). apply set_eq. intros x.
    rewrite elem_of_union_list, elem_of_occurring. split.
    - intros (X & ([e ent] & -> & Hin)%elem_of_list_fmap & Hx).
      destruct (Hside e ent Hin) as (rx & Hrx & Hfl & Hfr). rewrite Hfl, Hfr in Hx. by exists e, rx.
    - intros (e & rx & Hrx & Hx). destruct (Hdom e rx Hrx) as [ent Hent]. apply Hl in Hent as Hin.
      destruct (Hside e ent Hin) as (rx' & Hrx' & Hfl & Hfr). assert (rx' = rx) as -> by congruence.
      exists (dom (fl (e, ent)) ∪ dom (fr (e, ent))). split; [|by rewrite Hfl, Hfr].
      apply elem_of_list_fmap. by exists (e, ent). }
  destruct mol_attr; [|by rewrite andb_false_r].
  rewrite andb_true_r.
  set (fmol := λ xn : string * snode, (λ m, (default xn.1 (sn_label xn.2), m)) <$> sn_mol xn.2).
  match goal with |- species ?X = _ ∧ _ => assert (X = foldl (mol_step fmol) s' (map_to_list (g_nodes G))) as -> end.
  { apply foldl_ext_in. intros acc xn _. unfold mol_step, fmol. destruct (sn_mol xn.2); done. }
  assert (∀ x nd, (x, nd) ∈ map_to_list (g_nodes G) →
            fmol (x, nd) = if decide (x ∈ species H) then (λ m, (x, m)) <$> (if include_mol then mol H !! x else None) else None) as Hfm.
  { intros x nd Hin%elem_of_map_to_list. destruct (decide (x ∈ species H)) as [Hx|Hx].
    - rewrite (Hna x Hx) in Hin. injection Hin as <-. done.
    - destruct (Hnb x nd Hin) as [?|Hq]; [done|by subst nd]. }
  destruct (mol_fold_spec fmol (map_to_list (g_nodes G)) s') as (_ & Hs' & Hmol); [by rewrite Hm| |].
  { intros [x nd] [y nd'] k v v' Hx Hy Hfx Hfy. rewrite (Hfm x nd Hx) in Hfx. rewrite (Hfm y nd' Hy) in Hfy.
    destruct (decide (x ∈ species H)); [|done]. destruct (decide (y ∈ species H)); [|done].
    destruct include_mol; [|done]. destruct (mol H !! x) eqn:E1; [|done]. destruct (mol H !! y) eqn:E2; [|done].
    cbn in *. congruence. }
  split; [by rewrite Hs'|]. apply map_eq. intros k. apply option_eq. intros v. rewrite Hmol, Hsp. split.
  - intros ([x nd] & Hin & Hfx & Hk). rewrite (Hfm x nd Hin) in Hfx. destruct (decide (x ∈ species H)); [|done].
    destruct include_mol; [|done]. destruct (mol H !! x) eqn:E; [|done]. cbn in Hfx. injection Hfx as -> ->.
    by apply map_filter_lookup_Some.
  - destruct include_mol eqn:Him; [|by rewrite lookup_empty].
    intros [Hv Hk]%map_filter_lookup_Some. cbn in Hk. assert (k ∈ species H) as Hks by set_solver.
    exists (k, sg_node true H k). split; [by apply elem_of_map_to_list, Hna|]. split; [|done].
    rewrite (Hfm k _ (proj2 (elem_of_map_to_list _ _ _) (Hna k Hks))). rewrite decide_True by done. by rewrite Hv.
Qed.
