(** C18 — graph lemmas: relabelling, well-formed views, presentation equality, isomorphism as an equivalence,
    and the canonical numbering [cid]. *)
From Coq Require Import List NArith ZArith Bool Arith Lia Permutation.
From SK Require Import lib.IRSortKeys lib.IRCore lib.IRSearch model.C18_Model proof.C18_Spec.
Import ListNotations.

(* ---------------- basics ---------------- *)
Lemma memN_spec x c : memN x c = true <-> In x c.
Proof.
  unfold memN. rewrite existsb_exists. split.
  - intros (y & I & E). apply N.eqb_eq in E. subst. auto.
  - intros I. exists x. split; auto. apply N.eqb_refl.
Qed.

Lemma node_ids_relabel f g : node_ids (relabel f g) = map f (node_ids g).
Proof. unfold node_ids, relabel. simpl. rewrite !map_map. reflexivity. Qed.

Lemma eqb_inj_on f l x y : inj_on f l -> In x l -> In y l -> N.eqb (f x) (f y) = N.eqb x y.
Proof.
  intros Hf Hx Hy. destruct (N.eqb_spec x y) as [->|Hne]; [apply N.eqb_refl|].
  apply N.eqb_neq. intro E. apply Hne. apply Hf; auto.
Qed.

Lemma kind_of_l_relabel f l v : inj_on f (map fst l) -> In v (map fst l) ->
  kind_of_l (map (fun p => (f (fst p), snd p)) l) (f v) = kind_of_l l v.
Proof.
  intros Hf Hv. assert (H : forall l', incl (map fst l') (map fst l) ->
    kind_of_l (map (fun p => (f (fst p), snd p)) l') (f v) = kind_of_l l' v).
  { induction l' as [|[u k] l' IH]; simpl; intros Hi; auto.
    rewrite (eqb_inj_on f (map fst l)); auto; [|apply Hi; left; auto].
    destruct (N.eqb u v); auto. apply IH. intros x Hx. apply Hi. right. auto. }
  apply H. apply incl_refl.
Qed.
Lemma kind_of_relabel f g v : inj_on f (node_ids g) -> In v (node_ids g) -> kind_of (relabel f g) (f v) = kind_of g v.
Proof. intros. apply kind_of_l_relabel; auto. Qed.

Lemma find_arc_relabel f g u v : wf g -> inj_on f (node_ids g) -> In u (node_ids g) -> In v (node_ids g) ->
  find_arc (relabel f g) (f u) (f v) = find_arc g u v.
Proof.
  intros (_ & _ & He) Hf Hu Hv. unfold find_arc, relabel. simpl.
  induction (varcs g) as [|e l IH]; simpl; auto.
  destruct (He e (or_introl eq_refl)) as [Hs Hd].
  change (asrc (f (asrc e), f (adst e), aattr e)) with (f (asrc e)).
  change (adst (f (asrc e), f (adst e), aattr e)) with (f (adst e)).
  change (aattr (f (asrc e), f (adst e), aattr e)) with (aattr e).
  rewrite !(eqb_inj_on f (node_ids g)); auto.
  destruct (N.eqb (asrc e) u && N.eqb (adst e) v); auto.
  apply IH. intros e' I. apply He. right. auto.
Qed.

Lemma NoDup_map_inj_on {A B} (f : A -> B) l : (forall x y, In x l -> In y l -> f x = f y -> x = y) -> NoDup l -> NoDup (map f l).
Proof.
  induction l as [|x l IH]; simpl; intros Hf Hnd; [constructor|].
  inversion Hnd; subst. constructor.
  - intro I. apply in_map_iff in I. destruct I as (y & E & I). assert (y = x) by (apply Hf; auto). subst. auto.
  - apply IH; auto.
Qed.

Lemma wf_relabel f g : wf g -> inj_on f (node_ids g) -> wf (relabel f g).
Proof.
  intros (Hn & Ha & He) Hf. split; [|split].
  - rewrite node_ids_relabel. apply NoDup_map_inj_on; auto.
  - unfold relabel; simpl. rewrite map_map.
    assert (E : map (fun x => akey (f (asrc x), f (adst x), aattr x)) (varcs g)
                = map (fun k => (f (fst k), f (snd k))) (map akey (varcs g))).
    { rewrite map_map. reflexivity. }
    rewrite E. apply NoDup_map_inj_on; auto.
    intros [a b] [c d] I1 I2 E'. simpl in E'. inversion E'.
    apply in_map_iff in I1. destruct I1 as (e1 & E1 & I1). apply in_map_iff in I2. destruct I2 as (e2 & E2 & I2).
    unfold akey in E1, E2. inversion E1; inversion E2; subst.
    destruct (He _ I1), (He _ I2). f_equal; apply Hf; auto.
  - intros e I. unfold relabel in I; simpl in I. apply in_map_iff in I. destruct I as (e0 & <- & I).
    rewrite node_ids_relabel. destruct (He _ I). unfold asrc, adst; simpl. split; apply in_map; auto.
Qed.

(* ---------------- presentation equality ---------------- *)
Lemma geq_refl g : geq g g.
Proof. split; auto. Qed.
Lemma geq_sym g h : geq g h -> geq h g.
Proof. intros [H1 H2]. split; apply Permutation_sym; auto. Qed.
Lemma geq_trans g h k : geq g h -> geq h k -> geq g k.
Proof. intros [H1 H2] [H3 H4]. split; eapply perm_trans; eauto. Qed.
Lemma geq_relabel f g h : geq g h -> geq (relabel f g) (relabel f h).
Proof. intros [H1 H2]. split; unfold relabel; simpl; apply Permutation_map; auto. Qed.
Lemma geq_node_ids g h : geq g h -> Permutation (node_ids g) (node_ids h).
Proof. intros [H1 _]. unfold node_ids. apply Permutation_map. auto. Qed.
Lemma geq_wf g h : geq g h -> wf g -> wf h.
Proof.
  intros Hg (Hn & Ha & He). pose proof (geq_node_ids g h Hg) as Hp. destruct Hg as [H1 H2]. split; [|split].
  - eapply Permutation_NoDup; eauto.
  - eapply Permutation_NoDup; [apply Permutation_map; exact H2|auto].
  - intros e I. apply (Permutation_in _ (Permutation_sym H2)) in I. destruct (He _ I).
    split; eapply Permutation_in; eauto.
Qed.

Lemma kind_of_l_in l v k : NoDup (map fst l) -> In (v, k) l -> kind_of_l l v = k.
Proof.
  induction l as [|[u k'] l IH]; simpl; intros Hnd I; [contradiction|].
  inversion Hnd; subst. destruct I as [E|I].
  - inversion E; subst. rewrite N.eqb_refl. auto.
  - destruct (N.eqb_spec u v) as [->|Hne]; auto.
    exfalso. apply H1. apply in_map_iff. exists (v, k). auto.
Qed.
Lemma kind_of_l_notin l v : ~ In v (map fst l) -> kind_of_l l v = NONE.
Proof.
  induction l as [|[u k'] l IH]; simpl; intros Hn; auto.
  destruct (N.eqb_spec u v) as [->|Hne]; [exfalso; auto|auto].
Qed.
Lemma in_map_fst_ex {A B} (l : list (A * B)) v : In v (map fst l) -> exists k, In (v, k) l.
Proof. intros I. apply in_map_iff in I. destruct I as ([a b] & <- & I). eauto. Qed.

Lemma geq_kind_of g h v : wf g -> geq g h -> kind_of h v = kind_of g v.
Proof.
  intros Hw Hg. pose proof (geq_wf _ _ Hg Hw) as Hw'. destruct Hg as [H1 _]. unfold kind_of.
  destruct (in_dec N.eq_dec v (node_ids g)) as [I|I].
  - destruct (in_map_fst_ex _ _ I) as (k & Ik).
    rewrite (kind_of_l_in (vnodes g) v k); [|apply Hw|auto].
    apply kind_of_l_in; [apply Hw'|]. eapply Permutation_in; eauto.
  - rewrite (kind_of_l_notin (vnodes g)); auto. apply kind_of_l_notin.
    intro I'. apply I. eapply Permutation_in; [apply Permutation_sym, Permutation_map; exact H1|auto].
Qed.

Lemma find_arc_l_in l u v a : NoDup (map akey l) -> In (u, v, a) l -> find_arc_l l u v = Some a.
Proof.
  induction l as [|e l IH]; simpl; intros Hnd I; [contradiction|].
  inversion Hnd; subst. destruct I as [E|I].
  - subst e. unfold asrc, adst, aattr. simpl. rewrite !N.eqb_refl. auto.
  - destruct (N.eqb (asrc e) u && N.eqb (adst e) v) eqn:E; auto.
    apply andb_prop in E. destruct E as [E1 E2]. apply N.eqb_eq in E1, E2.
    exfalso. apply H1. apply in_map_iff. exists (u, v, a). split; auto. unfold akey, asrc, adst in *. simpl. subst. destruct e as [[? ?] ?]; auto.
Qed.
Lemma find_arc_l_some l u v a : find_arc_l l u v = Some a -> In (u, v, a) l.
Proof.
  induction l as [|e l IH]; simpl; intros H; [discriminate|].
  destruct (N.eqb (asrc e) u && N.eqb (adst e) v) eqn:E; auto.
  apply andb_prop in E. destruct E as [E1 E2]. apply N.eqb_eq in E1, E2. inversion H. left.
  destruct e as [[? ?] ?]. unfold asrc, adst, aattr in *. simpl in *. subst. auto.
Qed.
Lemma geq_find_arc g h u v : wf g -> geq g h -> find_arc h u v = find_arc g u v.
Proof.
  intros Hw Hg. pose proof (geq_wf _ _ Hg Hw) as Hw'. destruct Hg as [_ H2]. unfold find_arc.
  destruct (find_arc_l (varcs g) u v) as [a|] eqn:E.
  - apply find_arc_l_some in E. apply find_arc_l_in; [apply Hw'|]. eapply Permutation_in; eauto.
  - destruct (find_arc_l (varcs h) u v) as [a|] eqn:E'; auto.
    apply find_arc_l_some in E'. apply (Permutation_in _ (Permutation_sym H2)) in E'.
    rewrite (find_arc_l_in _ _ _ a (proj1 (proj2 Hw)) E') in E. discriminate.
Qed.

(* ---------------- isomorphism is an equivalence on well-formed views ---------------- *)
Lemma relabel_comp f1 f2 g : relabel f2 (relabel f1 g) = relabel (fun v => f2 (f1 v)) g.
Proof. unfold relabel. simpl. rewrite !map_map. reflexivity. Qed.
Lemma relabel_ext f f' g : wf g -> (forall v, In v (node_ids g) -> f v = f' v) -> relabel f g = relabel f' g.
Proof.
  intros (_ & _ & He) H. unfold relabel. f_equal.
  - apply map_ext_in. intros [v k] I. simpl. rewrite H; auto. apply in_map_iff. exists (v, k). auto.
  - apply map_ext_in. intros e I. destruct (He _ I). rewrite !H; auto.
Qed.
Lemma relabel_id g : relabel (fun v => v) g = g.
Proof.
  unfold relabel. destruct g as [ns es]. simpl. f_equal.
  - rewrite <- (map_id ns) at 2. apply map_ext. intros [? ?]; auto.
  - rewrite <- (map_id es) at 2. apply map_ext. intros [[? ?] ?]; auto.
Qed.

Lemma geq_iso g h : geq g h -> iso g h.
Proof. intros H. exists (fun v => v). split; [intros x y _ _ E; exact E|]. rewrite relabel_id. auto. Qed.

Definition finv (f : N -> N) (l : list N) (y : N) : N :=
  match find (fun v => N.eqb (f v) y) l with Some v => v | None => y end.
Lemma finv_left f l v : inj_on f l -> In v l -> finv f l (f v) = v.
Proof.
  intros Hf Hv. unfold finv. destruct (find (fun v0 => N.eqb (f v0) (f v)) l) as [w|] eqn:E.
  - apply find_some in E. destruct E as [Hw E]. apply N.eqb_eq in E. apply Hf; auto.
  - exfalso. apply (find_none _ _ E) in Hv. rewrite N.eqb_refl in Hv. discriminate.
Qed.

Lemma iso_sym g h : wf g -> iso g h -> iso h g.
Proof.
  intros Hw (f & Hf & Hg). exists (finv f (node_ids g)).
  pose proof (geq_node_ids _ _ Hg) as Hp. rewrite node_ids_relabel in Hp.
  split.
  - intros x y Hx Hy E.
    apply (Permutation_in _ (Permutation_sym Hp)) in Hx, Hy. apply in_map_iff in Hx, Hy.
    destruct Hx as (a & <- & Ha), Hy as (b & <- & Hb). rewrite !finv_left in E; auto. subst. auto.
  - eapply geq_trans; [apply geq_relabel; apply geq_sym; exact Hg|].
    rewrite relabel_comp. rewrite (relabel_ext _ (fun v => v) g Hw); [rewrite relabel_id; apply geq_refl|].
    intros v Hv. apply finv_left; auto.
Qed.

Lemma iso_trans g h k : iso g h -> iso h k -> iso g k.
Proof.
  intros (f1 & H1 & G1) (f2 & H2 & G2). exists (fun v => f2 (f1 v)).
  pose proof (geq_node_ids _ _ G1) as Hp. rewrite node_ids_relabel in Hp.
  split.
  - intros x y Hx Hy E. apply H1; auto. apply H2; auto; eapply Permutation_in; try exact Hp; apply in_map; auto.
  - rewrite <- relabel_comp. eapply geq_trans; [apply geq_relabel; exact G1|exact G2].
Qed.

(* ---------------- the canonical numbering ---------------- *)
Lemma last_pos_notin v l : forall i cur, ~ In v l -> last_pos v l i cur = cur.
Proof.
  induction l as [|w l IH]; simpl; intros i cur Hn; auto.
  destruct (N.eqb_spec w v) as [->|Hne]; [exfalso; auto|]. apply IH. auto.
Qed.
Lemma last_pos_split v l1 l2 : forall i cur, ~ In v l2 -> last_pos v (l1 ++ v :: l2) i cur = i + length l1 + 1.
Proof.
  induction l1 as [|w l1 IH]; simpl; intros i cur Hn.
  - rewrite N.eqb_refl. rewrite last_pos_notin; auto. lia.
  - rewrite IH; auto. lia.
Qed.
Lemma cid_split v l1 l2 : ~ In v l2 -> cid (l1 ++ v :: l2) v = N.of_nat (S (length l1)).
Proof. intros H. unfold cid. rewrite last_pos_split; auto. f_equal. lia. Qed.

Lemma cid_tail pre r : NoDup r -> map (cid (pre ++ r)) r = map N.of_nat (seq (S (length pre)) (length r)).
Proof.
  revert pre. induction r as [|x r IH]; intros pre Hnd; simpl; auto.
  inversion Hnd; subst. f_equal.
  - apply cid_split. auto.
  - replace (pre ++ x :: r) with ((pre ++ [x]) ++ r) by (rewrite <- app_assoc; reflexivity).
    rewrite IH; auto. rewrite app_length. simpl. replace (length pre + 1) with (S (length pre)) by lia. reflexivity.
Qed.

Lemma NoDup_map_inj_inv {A B} (f : A -> B) l : NoDup (map f l) -> forall x y, In x l -> In y l -> f x = f y -> x = y.
Proof.
  induction l as [|a l IH]; simpl; intros Hnd x y Hx Hy E; [contradiction|].
  inversion Hnd; subst.
  destruct Hx as [->|Hx], Hy as [->|Hy]; auto.
  - exfalso. apply H1. rewrite E. apply in_map. auto.
  - exfalso. apply H1. rewrite <- E. apply in_map. auto.
Qed.

Lemma NoDup_seq_N a n : NoDup (map N.of_nat (seq a n)).
Proof. apply NoDup_map_inj_on; [|apply seq_NoDup]. intros x y _ _ E. lia. Qed.

Lemma cid_inj_on pre r nodes : NoDup r -> Permutation r nodes -> inj_on (cid (pre ++ r)) nodes.
Proof.
  intros Hnd Hp x y Hx Hy. apply (Permutation_in _ (Permutation_sym Hp)) in Hx, Hy.
  apply (NoDup_map_inj_inv (cid (pre ++ r)) r); auto. rewrite cid_tail; auto. apply NoDup_seq_N.
Qed.
Lemma cid_range pre r nodes : NoDup r -> Permutation r nodes ->
  Permutation (map (cid (pre ++ r)) nodes) (map N.of_nat (seq (S (length pre)) (length nodes))).
Proof.
  intros Hnd Hp. rewrite <- (Permutation_length Hp), <- (cid_tail pre r Hnd). apply Permutation_map. apply Permutation_sym. auto.
Qed.
