(** C05 — non-vacuity for proof/C05_Prefilter.v (halogen exchange on ClCCBr.ClCCBr, proof/C05_Cap.v) *)
From Coq Require Import List NArith ZArith Bool Arith Lia.
From SK Require Import lib.Tok lib.LGraph lib.Mono.
From SK Require model.C06_Model model.C11_Model.
From SK Require Import model.C03_Model model.C05_Model proof.C05_Proof proof.C05_Pipe proof.C05_Cap proof.C05_Order proof.C05_Partial proof.C05_PartialCap proof.C05_Prefilter proof.C05_PrefilterOrder.
Import ListNotations.

Example prefilter_examples :
  (* default cap: the guard does not fire, the option changes nothing: 4 glued graphs *)
  @prefilter_fires (thr_of None) cx_host cx_p = false /\
  length (@glued_of_pf (thr_of None) true 0%N cx_host cx_p) = 4%nat /\
  (* a pattern atom without candidate (no Cl / Br in CCS.CS): the guard fires *)
  @prefilter_fires (thr_of None) px_host cx_p = true /\ @glued_of_pf (thr_of None) true 0%N px_host cx_p = [] /\
  (* cap 1: 4 * 2 * 4 * 2 = 64 candidate combinations do not exceed 1 * 10000, the guard does not fire, the cap empties the
     exhaustive search (4 embeddings > 1) *)
  @prefilter_fires (thr_of (Some 1%N)) cx_host cx_p = false /\ @glued_of_pf (thr_of (Some 1%N)) true 0%N cx_host cx_p = [] /\
  (* cap 0: 64 > 0, the guard fires *)
  @prefilter_fires (thr_of (Some 0%N)) cx_host cx_p = true.
Proof. repeat split; vm_compute; reflexivity. Qed.

(** non-vacuity of the decision invariance: the substrate CCS.CS stored in two orders, premises evaluated *)
Example prefilter_order_nonvacuous :
  same_graph px_host px_host2 /\ gnodes px_host2 <> gnodes px_host /\
  C06_Model.wfb (host_c06 px_host) = true /\ C06_Model.wfb (host_c06 px_host2) = true /\
  C06_Model.wfb (pat_c06 (p_pat px_p)) = true /\
  @prefilter_fires (thr_of None) px_host2 px_p = @prefilter_fires (thr_of None) px_host px_p /\
  @prefilter_fires (thr_of None) px_host px_p = false /\
  @prefilter_fires (thr_of (Some 0%N)) px_host2 px_p = true /\ @prefilter_fires (thr_of (Some 0%N)) px_host px_p = true.
Proof.
  split; [exact px_same|]. repeat split; try (vm_compute; reflexivity). vm_compute; discriminate.
Qed.
