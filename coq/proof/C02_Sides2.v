(** C02 — the centre stated on the two sides, for EVERY balance_its (the base graph only decides the order of the ITS
    nodes and which atom_map a shared atom inherits; the bonds and the well-formedness do not depend on it). *)
From Coq Require Import List NArith ZArith Bool Lia.
From SK Require Import lib.LGraph lib.C01_GraphLemmas model.C01_Model model.C02_Model
                       proof.C01_Proof proof.C02_Proof proof.C02_Opts proof.C02_Ctx proof.C02_Sides.
Import ListNotations.
Local Open Scope Z_scope.

Lemma nodup_app_disj (l1 l2 : list N) : NoDup l1 -> NoDup l2 -> (forall x, In x l1 -> ~ In x l2) -> NoDup (l1 ++ l2).
Proof.
  induction l1 as [|a l1 IH]; simpl; intros H1 H2 Hd. { exact H2. } inversion H1 as [|? ? Hna Hnd]; subst. constructor.
  - rewrite in_app_iff. intros [I|I]; [exact (Hna I)|exact (Hd a (or_introl eq_refl) I)].
  - apply IH; [exact Hnd|exact H2|]. intros x I. apply Hd. right. exact I.
Qed.

Lemma nodup_map_filter {V} (p : N * V -> bool) (l : list (N * V)) : NoDup (map fst l) -> NoDup (map fst (filter p l)).
Proof.
  induction l as [|[k v] l IH]; simpl; intros H. { constructor. } inversion H; subst.
  destruct (p (k, v)); simpl; [constructor|]; auto.
  intros I. apply in_map_iff in I. destruct I as ([k' v'] & E & I). simpl in E. subst k'. apply filter_In in I. destruct I as [I _].
  apply H2. apply in_map_iff. exists (k, v'). auto.
Qed.

(** node ids of the construction for either base choice *)
Lemma node_ids_construct_ab ia bal G H n :
  In n (node_ids (its_construct_ab ia bal G H)) <-> In n (node_ids G) \/ In n (node_ids H).
Proof.
  unfold its_construct_ab, node_ids. simpl. rewrite map_map. simpl.
  set (gb := if bal then (length (gnodes G) <=? length (gnodes H))%nat else base_is_G G H).
  change (map (fun x : N * gnode => fst x)) with (@map (N * gnode) N fst). rewrite map_app, in_app_iff.
  assert (forall (B O : mgraph), In n (map fst (filter (fun p => negb (has_node B (fst p))) (gnodes O))) <->
                                 In n (node_ids O) /\ ~ In n (node_ids B)) as F.
  { intros B O. rewrite in_map_iff. split.
    - intros ([k v] & <- & I). apply filter_In in I. destruct I as [I P]. simpl in *. split.
      + apply in_map_iff. exists (k, v). auto.
      + intros J. apply has_node_spec in J. rewrite J in P. discriminate.
    - intros [I J]. apply in_map_iff in I. destruct I as ([k v] & <- & I). exists (k, v). split; [reflexivity|].
      apply filter_In. split; [exact I|]. simpl. destruct (has_node B k) eqn:Hn; [|reflexivity].
      apply has_node_spec in Hn. contradiction. }
  destruct gb; rewrite F; fold (node_ids G); fold (node_ids H).
  - destruct (In_dec N.eq_dec n (node_ids G)); tauto.
  - destruct (In_dec N.eq_dec n (node_ids H)); tauto.
Qed.

Lemma wf_construct_ab ia bal G H : wf G -> wf H -> wf (its_construct_ab ia bal G H).
Proof.
  intros WG WH. pose proof (wf_construct_o ia G H WG WH) as W0. apply wf_intro.
  - unfold its_construct_ab, node_ids. simpl. rewrite map_map. simpl.
    change (map (fun x : N * gnode => fst x)) with (@map (N * gnode) N fst). rewrite map_app.
    destruct (if bal then (length (gnodes G) <=? length (gnodes H))%nat else base_is_G G H).
    + apply nodup_app_disj; [exact (proj1 WG)|apply nodup_map_filter; exact (proj1 WH)|].
      intros x I J. apply in_map_iff in J. destruct J as ([k v] & <- & J). apply filter_In in J. destruct J as [_ P]. simpl in *.
      apply (has_node_spec G) in I. rewrite I in P. discriminate.
    + apply nodup_app_disj; [exact (proj1 WH)|apply nodup_map_filter; exact (proj1 WG)|].
      intros x I J. apply in_map_iff in J. destruct J as ([k v] & <- & J). apply filter_In in J. destruct J as [_ P]. simpl in *.
      apply (has_node_spec H) in I. rewrite I in P. discriminate.
  - intros a b x I.
    assert (gedges (its_construct_ab ia bal G H) = gedges (its_construct_ab ia false G H)) as E by reflexivity.
    rewrite E in I. destruct (wf_edge_nodes W0 I) as (Ia & Ib & Hab).
    rewrite !node_ids_construct_ab in *. auto.
  - exact (wf_simple W0).
Qed.

Theorem centre_vs_sides_all ia bal (G H : mgraph) : wf G -> wf H ->
  let I := its_construct_ab ia bal G H in
  forall u v,
    (exists e, adj (get_rc I) u v = Some e) <->
    (adj G u v <> None \/ adj H u v <> None) /\
    ((if ia then 2 <= Z.abs (order_in G u v - order_in H u v) else order_in G u v <> order_in H u v) \/
     (is_h I u = true /\ is_h I v = true)).
Proof.
  intros WG WH I u v. subst I.
  pose proof (wf_construct_ab ia bal G H WG WH) as W.
  destruct (union G H WG WH) as (_ & _ & Hadj & _ & _).
  assert (forall e, adj (its_construct_ab ia bal G H) u v = Some e <->
                    (adj G u v <> None \/ adj H u v <> None) /\
                    e = IE (order_in G u v) (order_in H u v) (std_ab ia (order_in G u v) (order_in H u v))) as Ha.
  { intros e. rewrite adj_construct_o. destruct (adj (its_construct G H) u v) as [[a b s]|] eqn:A; simpl.
    - apply Hadj in A. destruct A as (-> & -> & P & ->). unfold restd. simpl. split.
      + intros [= <-]. auto.
      + intros [_ ->]. reflexivity.
    - split; [discriminate|]. intros [P _]. exfalso.
      assert (adj (its_construct G H) u v = Some (IE (order_in G u v) (order_in H u v) (order_in G u v - order_in H u v))) as C
          by (apply Hadj; auto).
      congruence. }
  destruct ia.
  - pose proof (its_construct_ia_consistent bal G H) as Hc. split.
    + intros (e & A). apply (rc_edges_ia _ W Hc) in A. destruct A as [A Hd]. apply Ha in A. destruct A as [P ->]. simpl in Hd. auto.
    + intros [P Hd]. eexists. apply (rc_edges_ia _ W Hc). split; [apply Ha; split; [exact P|reflexivity]|]. simpl. exact Hd.
  - pose proof (its_construct_noia_consistent bal G H) as Hc. split.
    + intros (e & A). apply (rc_edges _ W Hc) in A. destruct A as [A Hd]. apply Ha in A. destruct A as [P ->]. simpl in Hd. auto.
    + intros [P Hd]. eexists. apply (rc_edges _ W Hc). split; [apply Ha; split; [exact P|reflexivity]|]. simpl. exact Hd.
Qed.

(** non-vacuity: sides with different atom counts, balance_its=True picks the smaller graph as base *)
Definition ub_G : mgraph := LG [(1%N, GN 70%N false 0 0 None 1); (2%N, GN 82%N false 0 0 None 2)] [(1%N, 2%N, 4)].
Definition ub_H : mgraph := LG [(1%N, GN 70%N false 1 0 None 1); (2%N, GN 82%N false 1 0 None 2); (3%N, GN 2%N false 0 0 None 3)]
                               [(1%N, 2%N, 2); (2%N, 3%N, 2)].
Example C02_sides_all_nonvacuous :
  wf ub_G /\ wf ub_H /\ length (gnodes ub_G) <> length (gnodes ub_H) /\
  map fst (gnodes (get_rc (its_construct_ab false true ub_G ub_H))) = [1; 2; 3]%N /\
  length (gedges (get_rc (its_construct_ab false true ub_G ub_H))) = 2%nat.
Proof.
  split; [|split; [|vm_compute; repeat split; discriminate]].
  - apply wf_intro; simpl.
    + repeat constructor; simpl; intuition discriminate.
    + intros a b x I. repeat (destruct I as [E|I]; [inversion E; subst; simpl; intuition discriminate|]). destruct I.
    + repeat constructor.
  - apply wf_intro; simpl.
    + repeat constructor; simpl; intuition discriminate.
    + intros a b x I. repeat (destruct I as [E|I]; [inversion E; subst; simpl; intuition discriminate|]). destruct I.
    + repeat constructor.
Qed.
