(** C20 — proofs about Part 1 of the model: the index predicates are the Petri-net definitions,
    [_minimal_sets] computes the inclusion-minimal candidates, [find_siphons]/[find_traps] report
    exactly the minimal non-empty siphons / traps. *)
From Coq Require Import ZArith NArith List Bool Arith Lia Permutation.
Import ListNotations.
From SK Require Import model.C20_Model proof.C20_Spec.
Local Open Scope nat_scope.

(** * Basic list facts *)

Lemma mem_spec x l : mem x l = true <-> In x l.
Proof.
  unfold mem. rewrite existsb_exists. split.
  - intros [y [H1 H2]]. apply Nat.eqb_eq in H2. subst. auto.
  - intros H. exists x. split; auto. apply Nat.eqb_refl.
Qed.

Lemma subset_spec T X : subset T X = true <-> incl T X.
Proof.
  unfold subset. rewrite forallb_forall. unfold incl.
  split; intros H a Ha; apply mem_spec; auto.
Qed.

Lemma subset_false T X : subset T X = false <-> ~ incl T X.
Proof.
  rewrite <- subset_spec. destruct (subset T X); split; intros; congruence.
Qed.

(** * The bipartite export as seen by the predicates *)

Lemma insert_head x l : (forall y, In y l -> snd x < snd y) -> insert_by_label x l = x :: l.
Proof.
  destruct l as [|y l]; simpl; auto. intros H.
  specialize (H y (or_introl eq_refl)). apply Nat.ltb_lt in H. now rewrite H.
Qed.

Lemma sort_sorted_seq (f : nat -> nat) n : forall a,
  sort_by_label (map (fun i => (f i, i)) (seq a n)) = map (fun i => (f i, i)) (seq a n).
Proof.
  induction n; intros a; simpl; auto.
  unfold sort_by_label in *. simpl. rewrite IHn. apply insert_head.
  intros y Hy. apply in_map_iff in Hy as [i [<- Hi]]. apply in_seq in Hi. simpl. lia.
Qed.

Lemma sns_bipartite n rs : species_nodes_sorted (bipartite_of n rs) = map sp_node (seq 0 n).
Proof.
  unfold species_nodes_sorted, bipartite_of. simpl. rewrite sort_sorted_seq, map_map. reflexivity.
Qed.

Lemma labels_bipartite n rs : species_labels (bipartite_of n rs) = seq 0 n.
Proof.
  unfold species_labels, bipartite_of. simpl. rewrite sort_sorted_seq, map_map. simpl. apply map_id.
Qed.

Lemma nth_sns n i : i < n -> nth i (map sp_node (seq 0 n)) 0 = S i.
Proof.
  intros H. rewrite (nth_indep _ 0 (sp_node 0)) by (rewrite map_length, seq_length; auto).
  rewrite map_nth, seq_nth; auto.
Qed.

Lemma in_nodes_of n X i : in_range n X -> i < n ->
  (In (S i) (nodes_of (map sp_node (seq 0 n)) X) <-> In i X).
Proof.
  intros HX Hi. unfold nodes_of. rewrite in_map_iff. split.
  - intros [i' [H1 H2]]. rewrite nth_sns in H1 by auto. congruence.
  - intros H. exists i. split; auto. apply nth_sns; auto.
Qed.

Lemma in_arcs_of_rxn a n j r :
  In a (arcs_of_rxn n j r) <->
  (exists i c, In (i, c) (fst r) /\ a = Arc (sp_node i) (rx_node n j) Reactant c) \/
  (exists i c, In (i, c) (snd r) /\ a = Arc (rx_node n j) (sp_node i) Product c).
Proof.
  unfold arcs_of_rxn. rewrite in_app_iff, !in_map_iff. split.
  - intros [[[i c] [H1 H2]]|[[i c] [H1 H2]]]; [left|right]; exists i, c; simpl in *; auto.
  - intros [[i [c [H1 H2]]]|[i [c [H1 H2]]]]; [left|right]; exists (i, c); simpl; auto.
Qed.

Lemma in_arcs_from a n rs : forall j0,
  In a (arcs_from n j0 rs) <-> exists k r, nth_error rs k = Some r /\ In a (arcs_of_rxn n (j0 + k) r).
Proof.
  induction rs as [|r rs IH]; intros j0; simpl.
  - split; [tauto|]. intros [k [r [H _]]]. destruct k; discriminate.
  - rewrite in_app_iff, IH. split.
    + intros [H|[k [r' [H1 H2]]]].
      * exists 0, r. rewrite Nat.add_0_r. auto.
      * exists (S k), r'. simpl. rewrite <- plus_n_Sm. auto.
    + intros [k [r' [H1 H2]]]. destruct k; simpl in *.
      * inversion H1; subst. rewrite Nat.add_0_r in H2. auto.
      * right. exists k, r'. rewrite <- plus_n_Sm in H2. auto.
Qed.

Lemma in_incident G r a : In a (incident G r) <-> In a (g_arcs G) /\ (a_dst a = r \/ a_src a = r).
Proof.
  unfold incident. rewrite in_app_iff, !filter_In, !Nat.eqb_eq. tauto.
Qed.

Lemma siphon_unfold G0 sns rn Y : Y <> [] ->
  is_siphon_indices G0 sns rn Y =
  forallb (fun r => if touches G0 (nodes_of sns Y) r Product then touches G0 (nodes_of sns Y) r Reactant else true) rn.
Proof. destruct Y; [congruence|reflexivity]. Qed.

Lemma trap_unfold G0 sns rn Y : Y <> [] ->
  is_trap_indices G0 sns rn Y =
  forallb (fun r => if touches G0 (nodes_of sns Y) r Reactant then touches G0 (nodes_of sns Y) r Product else true) rn.
Proof. destruct Y; [congruence|reflexivity]. Qed.

Section Touches.
Variables (n : nat) (rs : list rxn).
Hypothesis Hwf : wf_net n rs.
Variable X : list nat.
Hypothesis HX : in_range n X.

Let G := bipartite_of n rs.
Let S_nodes := nodes_of (map sp_node (seq 0 n)) X.

Lemma wf_fst r i c : In r rs -> In (i, c) (fst r) -> i < n.
Proof. intros Hr Hi. apply (Hwf r Hr (i, c)). apply in_app_iff; auto. Qed.
Lemma wf_snd r i c : In r rs -> In (i, c) (snd r) -> i < n.
Proof. intros Hr Hi. apply (Hwf r Hr (i, c)). apply in_app_iff; auto. Qed.

Lemma touches_product j r : nth_error rs j = Some r ->
  (touches G S_nodes (rx_node n j) Product = true <-> exists i, In i X /\ produces r i).
Proof.
  intros Hj. unfold touches. rewrite existsb_exists. split.
  - intros [a [Ha Hc]]. apply in_incident in Ha as [Ha Hinc].
    unfold G, bipartite_of in Ha; simpl in Ha. apply in_arcs_from in Ha as [k [r' [Hk Ha]]].
    simpl in Ha. apply andb_true_iff in Hc as [Hc Hst]. apply andb_true_iff in Hc as [Hm Hro].
    assert (Hr' : In r' rs) by (eapply nth_error_In; eauto).
    apply in_arcs_of_rxn in Ha as [[i [c [Hi ->]]]|[i [c [Hi ->]]]]; simpl in *; try discriminate.
    pose proof (wf_snd _ _ _ Hr' Hi) as Hlt.
    unfold other in Hm; simpl in Hm. unfold rx_node, sp_node in *.
    destruct Hinc as [Hinc|Hinc]; [lia|].
    assert (k = j) by lia. subst k. rewrite Hj in Hk. inversion Hk; subst r'.
    rewrite Nat.eqb_refl in Hm. apply mem_spec in Hm. apply in_nodes_of in Hm; auto.
    exists i. split; auto. exists c. split; auto. now apply Z.ltb_lt.
  - intros [i [Hi [c [Hc Hpos]]]].
    assert (Hr : In r rs) by (eapply nth_error_In; eauto).
    pose proof (wf_snd _ _ _ Hr Hc) as Hlt.
    exists (Arc (rx_node n j) (sp_node i) Product c). split.
    + apply in_incident. simpl. split; auto. unfold G, bipartite_of; simpl.
      apply in_arcs_from. exists j, r. split; auto. apply in_arcs_of_rxn. right. exists i, c. auto.
    + unfold other; simpl. rewrite Nat.eqb_refl. simpl.
      apply andb_true_iff. split; [|now apply Z.ltb_lt].
      rewrite andb_true_r. apply mem_spec. apply in_nodes_of; auto.
Qed.

Lemma touches_reactant j r : nth_error rs j = Some r ->
  (touches G S_nodes (rx_node n j) Reactant = true <-> exists i, In i X /\ consumes r i).
Proof.
  intros Hj. unfold touches. rewrite existsb_exists. split.
  - intros [a [Ha Hc]]. apply in_incident in Ha as [Ha Hinc].
    unfold G, bipartite_of in Ha; simpl in Ha. apply in_arcs_from in Ha as [k [r' [Hk Ha]]].
    simpl in Ha. apply andb_true_iff in Hc as [Hc Hst]. apply andb_true_iff in Hc as [Hm Hro].
    assert (Hr' : In r' rs) by (eapply nth_error_In; eauto).
    apply in_arcs_of_rxn in Ha as [[i [c [Hi ->]]]|[i [c [Hi ->]]]]; simpl in *; try discriminate.
    pose proof (wf_fst _ _ _ Hr' Hi) as Hlt.
    unfold other in Hm; simpl in Hm. unfold rx_node, sp_node in *.
    destruct Hinc as [Hinc|Hinc]; [|lia].
    assert (k = j) by lia. subst k. rewrite Hj in Hk. inversion Hk; subst r'.
    match type of Hm with context [if ?b then _ else _] => destruct b eqn:Eb end;
      [apply Nat.eqb_eq in Eb; lia|].
    apply mem_spec in Hm. apply in_nodes_of in Hm; auto.
    exists i. split; auto. exists c. split; auto. now apply Z.ltb_lt.
  - intros [i [Hi [c [Hc Hpos]]]].
    assert (Hr : In r rs) by (eapply nth_error_In; eauto).
    pose proof (wf_fst _ _ _ Hr Hc) as Hlt.
    exists (Arc (sp_node i) (rx_node n j) Reactant c). split.
    + apply in_incident. simpl. split; auto. unfold G, bipartite_of; simpl.
      apply in_arcs_from. exists j, r. split; auto. apply in_arcs_of_rxn. left. exists i, c. auto.
    + unfold other; simpl. unfold rx_node, sp_node.
      match goal with |- context [if ?b then _ else _] => destruct b eqn:Eb end;
        [apply Nat.eqb_eq in Eb; lia|].
      simpl. apply andb_true_iff. split; [|now apply Z.ltb_lt].
      rewrite andb_true_r. apply mem_spec. apply in_nodes_of; auto.
Qed.

Lemma forall_rnodes (P : nat -> bool) (Q : rxn -> Prop) :
  (forall j r, nth_error rs j = Some r -> (P (rx_node n j) = true <-> Q r)) ->
  (forallb P (g_reactions G) = true <-> forall r, In r rs -> Q r).
Proof.
  intros H. unfold G, bipartite_of; simpl. rewrite forallb_forall. split.
  - intros HP r Hr. apply In_nth_error in Hr as [j Hj]. apply (H j r Hj). apply HP.
    apply in_map. apply in_seq. split; [lia|]. simpl. apply nth_error_Some. congruence.
  - intros HQ x Hx. apply in_map_iff in Hx as [j [<- Hj]]. apply in_seq in Hj.
    destruct (nth_error rs j) as [r|] eqn:E.
    + apply (H j r E). apply HQ. eapply nth_error_In; eauto.
    + apply nth_error_None in E. lia.
Qed.

Lemma siphon_pred :
  is_siphon_indices G (species_nodes_sorted G) (g_reactions G) X = true <-> siphon rs X.
Proof.
  unfold siphon. destruct (list_eq_dec Nat.eq_dec X []) as [E|E].
  - rewrite E. simpl. split; [discriminate|]. intros [H _]. congruence.
  - rewrite siphon_unfold by auto.
    replace (species_nodes_sorted G) with (map sp_node (seq 0 n)) by (symmetry; apply sns_bipartite).
    fold S_nodes.
    rewrite forall_rnodes with (Q := fun r =>
      (exists i, In i X /\ produces r i) -> (exists i, In i X /\ consumes r i)).
    + split; [intros H; split; auto | intros [_ H]; auto].
    + intros j r Hj. pose proof (touches_product j r Hj) as Hp. pose proof (touches_reactant j r Hj) as Hr.
      destruct (touches G S_nodes (rx_node n j) Product).
      * rewrite Hr. split; [auto|]. intros H. apply H. apply Hp. reflexivity.
      * split; [|reflexivity]. intros _ H. apply Hp in H. discriminate.
Qed.

Lemma trap_pred :
  is_trap_indices G (species_nodes_sorted G) (g_reactions G) X = true <-> trap rs X.
Proof.
  unfold trap. destruct (list_eq_dec Nat.eq_dec X []) as [E|E].
  - rewrite E. simpl. split; [discriminate|]. intros [H _]. congruence.
  - rewrite trap_unfold by auto.
    replace (species_nodes_sorted G) with (map sp_node (seq 0 n)) by (symmetry; apply sns_bipartite).
    fold S_nodes.
    rewrite forall_rnodes with (Q := fun r =>
      (exists i, In i X /\ consumes r i) -> (exists i, In i X /\ produces r i)).
    + split; [intros H; split; auto | intros [_ H]; auto].
    + intros j r Hj. pose proof (touches_product j r Hj) as Hp. pose proof (touches_reactant j r Hj) as Hr.
      destruct (touches G S_nodes (rx_node n j) Reactant).
      * rewrite Hp. split; [auto|]. intros H. apply H. apply Hr. reflexivity.
      * split; [|reflexivity]. intros _ H. apply Hr in H. discriminate.
Qed.
End Touches.

(** * [_minimal_sets] *)

Definition incomparable (X Y : list nat) : Prop := ~ incl X Y /\ ~ incl Y X.

Lemma FOP_app_one (R : list nat -> list nat -> Prop) l x :
  ForallOrdPairs R l -> Forall (fun y => R y x) l -> ForallOrdPairs R (l ++ [x]).
Proof.
  induction 1; intros HF; simpl.
  - constructor; constructor.
  - inversion HF; subst. constructor.
    + apply Forall_app. split; auto.
    + apply IHForallOrdPairs. auto.
Qed.

Lemma FOP_filter (R : list nat -> list nat -> Prop) f l :
  ForallOrdPairs R l -> ForallOrdPairs R (filter f l).
Proof.
  induction 1; simpl; [constructor|].
  destruct (f a); auto. constructor; auto.
  rewrite Forall_forall in *. intros y Hy. apply filter_In in Hy as [Hy _]. auto.
Qed.

(** invariant of the loop: [P] = candidates processed so far *)
Definition ms_inv (P out : list (list nat)) : Prop :=
  (forall X, In X out -> In X P) /\
  (forall T, In T P -> exists X, In X out /\ incl X T) /\
  ForallOrdPairs incomparable out.

Lemma ms_go_inv cands : forall P out, ms_inv P out -> ms_inv (P ++ cands) (minimal_sets_go cands out).
Proof.
  induction cands as [|X rest IH]; intros P out Hinv; simpl.
  - now rewrite app_nil_r.
  - replace (P ++ X :: rest) with ((P ++ [X]) ++ rest) by (rewrite <- app_assoc; reflexivity).
    destruct Hinv as [Ha [Hb Hc]].
    destruct (existsb (fun T => subset T X) out) eqn:E; apply IH.
    + apply existsb_exists in E as [T [HT Hs]]. apply subset_spec in Hs.
      split; [|split]; auto.
      * intros Y HY. apply in_app_iff. left. auto.
      * intros T0 HT0. apply in_app_iff in HT0 as [HT0|[<-|[]]]; eauto.
    + assert (Hno : forall T, In T out -> ~ incl T X).
      { intros T HT Hi. apply subset_spec in Hi.
        assert (existsb (fun T => subset T X) out = true) by (apply existsb_exists; eauto). congruence. }
      split; [|split].
      * intros Y HY. apply in_app_iff in HY as [HY|[<-|[]]]; apply in_app_iff.
        -- apply filter_In in HY as [HY _]. left. auto.
        -- right. simpl. auto.
      * intros T0 HT0. apply in_app_iff in HT0 as [HT0|[<-|[]]].
        -- destruct (Hb T0 HT0) as [X0 [HX0 Hi]].
           destruct (subset X X0) eqn:ES.
           ++ exists X. split; [apply in_app_iff; right; simpl; auto|].
              apply subset_spec in ES. eapply incl_tran; eauto.
           ++ exists X0. split; auto. apply in_app_iff. left. apply filter_In. split; auto. now rewrite ES.
        -- exists X. split; [apply in_app_iff; right; simpl; auto|apply incl_refl].
      * apply FOP_app_one; [apply FOP_filter; auto|].
        apply Forall_forall. intros T HT. apply filter_In in HT as [HT Hf].
        apply negb_true_iff in Hf. apply subset_false in Hf. split; auto.
Qed.

Lemma ms_inv_final cands : ms_inv cands (minimal_sets cands).
Proof.
  unfold minimal_sets. apply (ms_go_inv cands [] []).
  split; [|split]; simpl; try tauto. constructor.
Qed.

Lemma FOP_In_incl out X Y :
  ForallOrdPairs incomparable out -> In X out -> In Y out -> incl X Y -> X = Y.
Proof.
  intros H HX HY Hi.
  destruct (ForallOrdPairs_In H _ _ HX HY) as [E|[[H1 _]|[_ H1]]]; auto; contradiction.
Qed.

(** every output is a candidate and inclusion-minimal among the candidates *)
Lemma minimal_sets_sound cands X :
  In X (minimal_sets cands) -> In X cands /\ forall T, In T cands -> incl T X -> incl X T.
Proof.
  destruct (ms_inv_final cands) as [Ha [Hb Hc]]. intros HX. split; auto.
  intros T HT Hi. destruct (Hb T HT) as [X' [HX' Hi']].
  assert (X' = X) by (eapply FOP_In_incl; eauto; eapply incl_tran; eauto). subst. auto.
Qed.

(** every inclusion-minimal candidate is reported (up to equality as a set) *)
Lemma minimal_sets_complete cands X :
  In X cands -> (forall T, In T cands -> incl T X -> incl X T) ->
  exists X', In X' (minimal_sets cands) /\ same_set X' X.
Proof.
  destruct (ms_inv_final cands) as [Ha [Hb Hc]]. intros HX Hmin.
  destruct (Hb X HX) as [X' [HX' Hi]]. exists X'. split; auto. split; auto.
Qed.

Lemma minimal_sets_antichain cands : antichain (minimal_sets cands).
Proof. destruct (ms_inv_final cands) as [_ [_ Hc]]. exact Hc. Qed.

(** * [itertools.combinations] *)

Inductive sublist : list nat -> list nat -> Prop :=
| sub_nil l : sublist [] l
| sub_take x c l : sublist c l -> sublist (x :: c) (x :: l)
| sub_skip x c l : sublist c l -> sublist c (x :: l).

Lemma in_combs l : forall k c, In c (combs k l) <-> sublist c l /\ length c = k.
Proof.
  induction l as [|x l IH]; intros k c.
  - destruct k; simpl.
    + split; [intros [<-|[]]; split; [constructor|reflexivity]|].
      intros [_ H]. destruct c; [auto|discriminate].
    + split; [tauto|]. intros [H1 H2]. inversion H1; subst. discriminate.
  - destruct k; simpl.
    + split; [intros [<-|[]]; split; [constructor|reflexivity]|].
      intros [_ H]. destruct c; [auto|discriminate].
    + rewrite in_app_iff, in_map_iff. split.
      * intros [[c' [<- Hc']]|H].
        -- apply IH in Hc' as [H1 H2]. split; [constructor; auto|simpl; lia].
        -- apply IH in H as [H1 H2]. split; [constructor; auto|auto].
      * intros [H1 H2]. inversion H1; subst.
        -- discriminate.
        -- left. exists c0. split; auto. apply IH. simpl in H2. split; auto.
        -- right. apply IH. auto.
Qed.

Lemma sublist_in c l : sublist c l -> incl c l.
Proof.
  induction 1; intros y Hy; simpl in *; try tauto.
  - destruct Hy; auto.
  - right. auto.
Qed.

Lemma sublist_filter f l : sublist (filter f l) l.
Proof.
  induction l; simpl; [constructor|]. destruct (f a); constructor; auto.
Qed.

Lemma sublist_length c l : sublist c l -> length c <= length l.
Proof. induction 1; simpl; lia. Qed.

(** the canonical (sorted, duplicate-free) list of a set of indices below n *)
Definition canon (n : nat) (Y : list nat) : list nat := filter (fun i => mem i Y) (seq 0 n).

Lemma canon_in n Y i : In i (canon n Y) <-> i < n /\ In i Y.
Proof.
  unfold canon. rewrite filter_In, in_seq, mem_spec. intuition lia.
Qed.

Lemma canon_same n Y : in_range n Y -> same_set (canon n Y) Y.
Proof.
  intros H. split; intros i Hi.
  - apply canon_in in Hi. tauto.
  - apply canon_in. auto.
Qed.

Lemma canon_nodup n Y : NoDup (canon n Y).
Proof. apply NoDup_filter, seq_NoDup. Qed.

Lemma canon_length n Y : in_range n Y -> NoDup Y -> length (canon n Y) = length Y.
Proof.
  intros H Hn. apply Permutation_length. apply NoDup_Permutation; auto using canon_nodup.
  intros i. rewrite canon_in. split; [tauto|auto].
Qed.

Lemma canon_candidate pred n ms Y :
  in_range n Y -> Y <> [] -> pred (canon n Y) = true -> length (canon n Y) <= ms ->
  In (canon n Y) (candidates pred n ms).
Proof.
  intros HY Hne Hp Hlen. unfold candidates. apply in_flat_map.
  exists (length (canon n Y)). split.
  - apply in_seq. split; [|lia].
    destruct Y as [|y Y']; [congruence|].
    assert (In y (canon n (y :: Y'))) by (apply canon_in; split; [apply HY|]; simpl; auto).
    destruct (canon n (y :: Y')); simpl in *; [tauto|lia].
  - apply filter_In. split; auto. apply in_combs. split; auto. apply sublist_filter.
Qed.

Lemma in_candidates pred n ms c :
  In c (candidates pred n ms) -> pred c = true /\ in_range n c /\ c <> [] /\ length c <= ms.
Proof.
  unfold candidates. intros H. apply in_flat_map in H as [k [Hk H]].
  apply filter_In in H as [H Hp]. apply in_combs in H as [Hs Hl]. apply in_seq in Hk.
  split; auto. split; [|split].
  - intros i Hi. apply sublist_in in Hs. apply Hs in Hi. apply in_seq in Hi. lia.
  - destruct c; simpl in *; [lia|congruence].
  - lia.
Qed.

(** * [find_siphons] / [find_traps] on the export of a network *)

Lemma nth_seq_id n X : in_range n X -> map (fun i => nth i (seq 0 n) 0) X = X.
Proof.
  intros H. induction X as [|x X IH]; simpl; auto.
  rewrite seq_nth by (apply H; simpl; auto). simpl. f_equal. apply IH.
  intros i Hi. apply H. simpl. auto.
Qed.

Section Find.
Variables (n : nat) (rs : list rxn).
Hypothesis Hwf : wf_net n rs.
Variable pred : bgraph -> list nat -> list nat -> list nat -> bool.
Variable P : list nat -> Prop.
Let G := bipartite_of n rs.
Hypothesis pred_spec : forall X, in_range n X ->
  (pred G (species_nodes_sorted G) (g_reactions G) X = true <-> P X).
Hypothesis P_ext : forall X Y, same_set X Y -> P X -> P Y.
Hypothesis P_nonempty : forall X, P X -> X <> [].

Variable max_size : option nat.
Let ms := match max_size with None => n | Some k => k end.

Lemma find_sets_eq out : find_sets pred G max_size = Some out ->
  out = minimal_sets (candidates (pred G (species_nodes_sorted G) (g_reactions G)) n ms).
Proof.
  unfold find_sets. destruct (split_ok G); [|discriminate]. intros H. injection H as <-.
  assert (EL : species_labels G = seq 0 n) by apply labels_bipartite.
  rewrite !EL, seq_length. unfold ms.
  set (cs := candidates _ n _).
  assert (Hr : forall X, In X (minimal_sets cs) -> in_range n X).
  { intros X HX. apply minimal_sets_sound in HX as [HX _]. apply in_candidates in HX. tauto. }
  induction (minimal_sets cs) as [|X l IH]; simpl; auto.
  rewrite nth_seq_id by (apply Hr; simpl; auto). f_equal. apply IH. intros; apply Hr; simpl; auto.
Qed.

(** every reported set satisfies the definition and is inclusion-minimal among ALL sets of species
    (of any size) that satisfy it *)
Lemma find_sets_sound out X : find_sets pred G max_size = Some out -> In X out ->
  in_range n X /\ length X <= ms /\ minimal_among (fun Y => in_range n Y /\ P Y) X.
Proof.
  intros Hf HX. rewrite (find_sets_eq _ Hf) in HX.
  apply minimal_sets_sound in HX as [HX Hmin].
  pose proof (in_candidates _ _ _ _ HX) as [Hp [Hr [Hne Hlen]]].
  split; auto. split; auto. split; [split; auto; apply pred_spec; auto|].
  intros Y [HYr HY] Hi.
  (* the canonical form of Y is a candidate *)
  assert (Hs : same_set (canon n Y) Y) by (apply canon_same; auto).
  assert (Hc : In (canon n Y) (candidates (pred G (species_nodes_sorted G) (g_reactions G)) n ms)).
  { assert (Hcr : in_range n (canon n Y)) by (intros i Hi'; apply canon_in in Hi'; tauto).
    assert (HPc : P (canon n Y)) by (apply P_ext with Y; auto; destruct Hs; split; auto).
    unfold canon. apply in_flat_map. exists (length (canon n Y)). split.
    - apply in_seq. split.
      + pose proof (P_nonempty _ HPc). destruct (canon n Y); simpl; [congruence|lia].
      + (* canon n Y is a duplicate-free sub-set of X, hence no longer than X *)
        assert (length (canon n Y) <= length X); [|lia].
        apply NoDup_incl_length; [apply canon_nodup|].
        eapply incl_tran; [apply Hs|auto].
    - apply filter_In. split; [|apply pred_spec; auto].
      apply in_combs. split; auto. apply sublist_filter. }
  specialize (Hmin _ Hc). eapply incl_tran; [apply Hmin|apply Hs].
  eapply incl_tran; [apply Hs|auto].
Qed.

(** every inclusion-minimal set satisfying the definition (with at most [ms] members) is reported *)
Lemma find_sets_complete out Y : find_sets pred G max_size = Some out ->
  NoDup Y -> length Y <= ms ->
  minimal_among (fun Y => in_range n Y /\ P Y) Y ->
  exists X, In X out /\ same_set X Y.
Proof.
  intros Hf Hnd Hlen [[HYr HY] Hmin]. rewrite (find_sets_eq _ Hf).
  assert (Hs : same_set (canon n Y) Y) by (apply canon_same; auto).
  assert (Hcr : in_range n (canon n Y)) by (intros i Hi'; apply canon_in in Hi'; tauto).
  assert (HPc : P (canon n Y)) by (apply P_ext with Y; auto; destruct Hs; split; auto).
  destruct (minimal_sets_complete (candidates (pred G (species_nodes_sorted G) (g_reactions G)) n ms) (canon n Y))
    as [X' [HX' Hs']].
  - apply canon_candidate; auto.
    + apply pred_spec; auto.
    + rewrite canon_length; auto.
  - intros T HT Hi. apply in_candidates in HT as [Hp [Hr _]].
    apply pred_spec in Hp; auto.
    eapply incl_tran; [apply Hs|]. apply Hmin; [split; auto|].
    eapply incl_tran; [apply Hi|apply Hs].
  - exists X'. split; auto. destruct Hs, Hs'. split; eapply incl_tran; eauto.
Qed.

Lemma find_sets_antichain out : find_sets pred G max_size = Some out -> antichain out.
Proof. intros Hf. rewrite (find_sets_eq _ Hf). apply minimal_sets_antichain. Qed.

End Find.

Lemma find_sets_defined pred n rs max_size : n <> 0 -> rs <> [] ->
  exists out, find_sets pred (bipartite_of n rs) max_size = Some out.
Proof.
  intros Hn Hr. unfold find_sets.
  replace (split_ok (bipartite_of n rs)) with true; [eauto|].
  unfold split_ok, bipartite_of. simpl.
  destruct n; [congruence|]. destruct rs; [congruence|]. reflexivity.
Qed.

Lemma nonempty_incl (X Y : list nat) : X <> [] -> incl X Y -> Y <> [].
Proof. destruct X as [|x X]; [congruence|]. intros _ H E. subst. apply (H x). simpl; auto. Qed.

Lemma siphon_ext rs X Y : same_set X Y -> siphon rs X -> siphon rs Y.
Proof.
  intros [H1 H2] [Hne H]. split; [eapply nonempty_incl; eauto|].
  intros r Hr [i [Hi Hp]]. destruct (H r Hr) as [i' [Hi' Hc]]; eauto.
Qed.

Lemma trap_ext rs X Y : same_set X Y -> trap rs X -> trap rs Y.
Proof.
  intros [H1 H2] [Hne H]. split; [eapply nonempty_incl; eauto|].
  intros r Hr [i [Hi Hp]]. destruct (H r Hr) as [i' [Hi' Hc]]; eauto.
Qed.

Section FindSpec.
Variables (n : nat) (rs : list rxn) (max_size : option nat).
Hypothesis Hwf : wf_net n rs.
Hypothesis Hn : n <> 0.
Hypothesis Hrs : rs <> [].
Let ms := match max_size with None => n | Some k => k end.

Lemma find_siphons_spec :
  exists out, find_siphons (bipartite_of n rs) max_size = Some out /\
    (forall X, In X out ->
       in_range n X /\ length X <= ms /\ minimal_among (fun Y => in_range n Y /\ siphon rs Y) X) /\
    (forall Y, NoDup Y -> length Y <= ms -> minimal_among (fun Y => in_range n Y /\ siphon rs Y) Y ->
       exists X, In X out /\ same_set X Y) /\
    antichain out.
Proof.
  destruct (find_sets_defined is_siphon_indices n rs max_size Hn Hrs) as [out Hout].
  exists out. split; [exact Hout|].
  assert (Hps : forall X, in_range n X ->
            (is_siphon_indices (bipartite_of n rs) (species_nodes_sorted (bipartite_of n rs))
               (g_reactions (bipartite_of n rs)) X = true <-> siphon rs X))
    by (intros X HX; apply siphon_pred; auto).
  assert (Hext : forall A B, same_set A B -> siphon rs A -> siphon rs B) by (intros A B; apply siphon_ext).
  assert (Hne : forall A, siphon rs A -> A <> []) by (intros A [HA _]; exact HA).
  split; [|split].
  - intros X HX. exact (find_sets_sound n rs _ _ Hps Hext Hne max_size out X Hout HX).
  - intros Y Hnd Hl Hm. exact (find_sets_complete n rs _ _ Hps Hext Hne max_size out Y Hout Hnd Hl Hm).
  - exact (find_sets_antichain n rs _ max_size out Hout).
Qed.

Lemma find_traps_spec :
  exists out, find_traps (bipartite_of n rs) max_size = Some out /\
    (forall X, In X out ->
       in_range n X /\ length X <= ms /\ minimal_among (fun Y => in_range n Y /\ trap rs Y) X) /\
    (forall Y, NoDup Y -> length Y <= ms -> minimal_among (fun Y => in_range n Y /\ trap rs Y) Y ->
       exists X, In X out /\ same_set X Y) /\
    antichain out.
Proof.
  destruct (find_sets_defined is_trap_indices n rs max_size Hn Hrs) as [out Hout].
  exists out. split; [exact Hout|].
  assert (Hps : forall X, in_range n X ->
            (is_trap_indices (bipartite_of n rs) (species_nodes_sorted (bipartite_of n rs))
               (g_reactions (bipartite_of n rs)) X = true <-> trap rs X))
    by (intros X HX; apply trap_pred; auto).
  assert (Hext : forall A B, same_set A B -> trap rs A -> trap rs B) by (intros A B; apply trap_ext).
  assert (Hne : forall A, trap rs A -> A <> []) by (intros A [HA _]; exact HA).
  split; [|split].
  - intros X HX. exact (find_sets_sound n rs _ _ Hps Hext Hne max_size out X Hout HX).
  - intros Y Hnd Hl Hm. exact (find_sets_complete n rs _ _ Hps Hext Hne max_size out Y Hout Hnd Hl Hm).
  - exact (find_sets_antichain n rs _ max_size out Hout).
Qed.
End FindSpec.

(** * Non-vacuity: the design witness  A <-> B, B -> C *)

Definition witness_net : list rxn :=
  [([(0, 1%Z)], [(1, 1%Z)]); ([(1, 1%Z)], [(0, 1%Z)]); ([(1, 1%Z)], [(2, 1%Z)])].

Example witness_siphons : find_siphons (bipartite_of 3 witness_net) None = Some [[0; 1]].
Proof. vm_compute. reflexivity. Qed.
Example witness_traps : find_traps (bipartite_of 3 witness_net) None = Some [[2]].
Proof. vm_compute. reflexivity. Qed.
Example witness_wf : wf_net 3 witness_net.
Proof.
  intros r Hr ic Hic. simpl in Hr.
  repeat (destruct Hr as [<-|Hr]; [simpl in Hic; repeat (destruct Hic as [<-|Hic]; [simpl; lia|]); tauto|]).
  tauto.
Qed.
Example witness_siphon_def : siphon witness_net [0; 1] /\ ~ siphon witness_net [0].
Proof.
  split.
  - apply (siphon_pred 3 witness_net witness_wf [0; 1]).
    + intros i Hi. simpl in Hi. lia.
    + vm_compute. reflexivity.
  - intros H. apply (siphon_pred 3 witness_net witness_wf [0]) in H.
    + vm_compute in H. discriminate.
    + intros i Hi. simpl in Hi. lia.
Qed.
Example minimal_sets_example : minimal_sets [[0; 1]; [1]; [0; 1; 2]; [2; 0]; [1]] = [[1]; [2; 0]].
Proof. vm_compute. reflexivity. Qed.
