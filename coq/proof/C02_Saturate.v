From Coq Require Import List NArith ZArith Bool Lia.
From SK Require Import lib.LGraph lib.Reach lib.C01_GraphLemmas model.C01_Model model.C02_Model proof.C02_Proof proof.C02_Store proof.C02_StoreCtx.
From SK Require Import model.C02_Store.
Import ListNotations.

(** contexts saturate: beyond radius |atoms| + 1 nothing is added any more — a large radius (the degenerate "radius 50" cases) gives the
    atoms connected to the start atoms, and the same context as radius |atoms| + 1.  Generic in the node and bond types. *)
Section Saturate.
Context {A B : Type}.
Variable g : lgraph A B.
Hypothesis W : wf g.
Local Notation stp := (Reach.step (nbrs g)).

Lemma nbrs_in_nodes u v : In v (nbrs g u) -> In v (node_ids g).
Proof.
  intros I. apply in_nbrs in I. destruct (adj g u v) as [e|] eqn:E; [|congruence]. apply (wf_adj_iff W) in E.
  destruct E as [E|E]; destruct (wf_edge_nodes W E) as (P & Q & _); assumption.
Qed.

Lemma add_all_noop l : forall X, (forall y, In y l -> In y X) -> Reach.add_all l X = X.
Proof.
  induction l as [|x l IH]; intros X H; simpl; [reflexivity|].
  assert (Reach.mem x X = true) as -> by (apply Reach.mem_spec; apply H; left; reflexivity). apply IH. intros y I. apply H. right. exact I.
Qed.

Lemma step_fix_of_len X : length (stp X) = length X -> stp X = X.
Proof. intros L. unfold Reach.step. apply add_all_noop. apply (Reach.add_all_same_length _ _ L). Qed.

Lemma iter_fix X j : stp X = X -> Nat.iter j stp X = X.
Proof. intros F. induction j as [|j IH]; simpl; [reflexivity|]. rewrite IH. exact F. Qed.

Lemma iter_succ_r j X : Nat.iter (S j) stp X = Nat.iter j stp (stp X).
Proof. induction j as [|j IH]; [reflexivity|]. simpl in *. rewrite IH. reflexivity. Qed.

Lemma iter_stabilises : forall fuel X j, NoDup X -> incl X (node_ids g) -> (length (node_ids g) - length X < fuel)%nat ->
  Nat.iter (fuel + j) stp X = Nat.iter fuel stp X.
Proof.
  induction fuel as [|f IH]; intros X j Hn Hi Hf; [lia|].
  destruct (Nat.eq_dec (length (stp X)) (length X)) as [L|L].
  - pose proof (step_fix_of_len X L) as F. rewrite !(iter_fix X _ F). reflexivity.
  - change (Datatypes.S f + j)%nat with (Datatypes.S (f + j)). rewrite !iter_succ_r. apply IH.
    + apply (@Reach.step_nodup (nbrs g)). exact Hn.
    + apply (@Reach.step_incl (node_ids g) (nbrs g) nbrs_in_nodes). exact Hi.
    + pose proof (Reach.add_all_length (flat_map (nbrs g) X) X) as G. fold (stp X) in G.
      pose proof (NoDup_incl_length (@Reach.step_nodup (nbrs g) X Hn) (@Reach.step_incl (node_ids g) (nbrs g) nbrs_in_nodes X Hi)). lia.
Qed.

Theorem ball_saturates (seeds : list N) (j : nat) : (forall s, In s seeds -> In s (node_ids g)) ->
  knn_g g seeds (S (length (node_ids g)) + j) = knn_g g seeds (S (length (node_ids g))) /\
  ball_sub g seeds (S (length (node_ids g)) + j) = ball_sub g seeds (S (length (node_ids g))).
Proof.
  intros HS. assert (knn_g g seeds (S (length (node_ids g)) + j) = knn_g g seeds (S (length (node_ids g)))) as E.
  { unfold knn_g. apply iter_stabilises.
    - apply Reach.add_all_nodup. constructor.
    - intros y I. apply Reach.add_all_in in I. destruct I as [I|[]]. apply HS. exact I.
    - lia. }
  split; [exact E|]. unfold ball_sub. rewrite E. reflexivity.
Qed.
End Saturate.

(** instance: extract_k on full-label ITS graphs *)
Corollary extract_k_saturates (g : its) (j : nat) : wf g ->
  extract_k g (S (length (node_ids g)) + j) = extract_k g (S (length (node_ids g))).
Proof.
  intros W. change (S (length (node_ids g)) + j)%nat with (S (length (node_ids g) + j)). rewrite !C02_Proof.extract_k_S.
  destruct (ball_saturates g W (node_ids (get_rc g)) j) as [E _]; [intros s; apply rc_keys_in|].
  change (knn g (node_ids (get_rc g)) (S (length (node_ids g) + j))) with (knn_g g (node_ids (get_rc g)) (S (length (node_ids g)) + j)).
  rewrite E. reflexivity.
Qed.

Example C02_saturates_nonvacuous :
  wf ex_its /\ extract_k ex_its 50 = extract_k ex_its 9 /\ length (gnodes (extract_k ex_its 50)) = 8%nat /\ length (gnodes (extract_k ex_its 2)) = 7%nat.
Proof.
  split; [apply ex_its_wf|]. split; [|split; reflexivity]. exact (extract_k_saturates ex_its 41 ex_its_wf).
Qed.

(** the saturated context is the set of atoms CONNECTED to the start atoms (by any number of bonds) *)
Section Component.
Context {A B : Type}.
Variable g : lgraph A B.
Hypothesis W : wf g.
Variable seeds : list N.
Hypothesis HS : forall s, In s seeds -> In s (node_ids g).

Inductive connected : N -> Prop :=
| conn_start s : In s seeds -> connected s
| conn_bond u v : connected u -> adj g u v <> None -> connected v.

Lemma connected_walk n : connected n <-> exists s m, In s seeds /\ walk_g g s n m.
Proof.
  split.
  - induction 1 as [s I|u v _ (s & m & Is & Wk) Ad]; [exists s, O; split; [exact I|constructor]|].
    exists s, (S m). split; [exact Is|econstructor; eauto].
  - intros (s & m & Is & Wk). induction Wk as [s|s u n m Wk IH Ad]; [apply conn_start; exact Is|].
    eapply conn_bond; [apply IH; exact Is|exact Ad].
Qed.

Theorem saturated_is_component n :
  In n (knn_g g seeds (S (length (node_ids g)))) <-> connected n.
Proof.
  rewrite connected_walk, knn_g_spec. split.
  - intros (s & m & Is & _ & Wk). exists s, m. auto.
  - intros (s & m & Is & Wk).
    assert (In n (knn_g g seeds (S (length (node_ids g)) + m))) as I by (apply knn_g_spec; exists s, m; repeat split; auto; lia).
    rewrite (proj1 (ball_saturates g W seeds m HS)) in I. apply knn_g_spec in I. exact I.
Qed.
End Component.

(** instance for pair-/absent-label graphs *)
Corollary extract_k_S_saturates (g : sits) (j : nat) : wf g ->
  extract_k_S g (S (length (node_ids g)) + j) = extract_k_S g (S (length (node_ids g))).
Proof.
  intros W. change (S (length (node_ids g)) + j)%nat with (S (length (node_ids g) + j)).
  change (extract_k_S g (S (length (node_ids g) + j))) with (ball_sub g (node_ids (get_rc_S K_default false false g)) (S (length (node_ids g)) + j)).
  change (extract_k_S g (S (length (node_ids g)))) with (ball_sub g (node_ids (get_rc_S K_default false false g)) (S (length (node_ids g)))).
  apply (ball_saturates g W). intros s. apply rcS_nodes_in. exact (proj1 W).
Qed.

Example C02_component_nonvacuous :
  connected ex_its [1%N] 7%N /\ ~ In 7%N (knn_g ex_its [1%N] 2) /\ In 7%N (knn_g ex_its [1%N] 9).
Proof.
  split; [|split; [vm_compute; intuition discriminate|vm_compute; auto 10]].
  apply (conn_bond ex_its [1%N] 6%N 7%N); [|vm_compute; discriminate].
  apply (conn_bond ex_its [1%N] 5%N 6%N); [|vm_compute; discriminate].
  apply (conn_bond ex_its [1%N] 1%N 5%N); [|vm_compute; discriminate]. apply conn_start. left. reflexivity.
Qed.

Theorem saturated_is_component_walk {A B} (g : lgraph A B) (seeds : list N) : wf g -> (forall s, In s seeds -> In s (node_ids g)) ->
  forall n, In n (knn_g g seeds (S (length (node_ids g)))) <-> exists s m, In s seeds /\ walk_g g s n m.
Proof. intros W HS n. rewrite (saturated_is_component g W seeds HS n). apply connected_walk. Qed.
