From Coq Require Import List NArith ZArith Bool Lia.
From SK Require Import lib.LGraph lib.Reach lib.C01_GraphLemmas model.C01_Model model.C02_Model proof.C02_Proof proof.C02_Store proof.C02_StoreCtx.
From SK Require Import model.C02_Store.
Import ListNotations.

(** contexts saturate: beyond radius |atoms| + 1 nothing is added any more — a large radius (the degenerate "radius 50" cases) gives the
    atoms connected to the start atoms, and the same context as radius |atoms| + 1.  Generic in the node and bond types. *)
Section Saturate.
Context {A B : Type}.
Variable g : lgraph A B.
Hypothesis W : wf g.
Local Notation stp := (Reach.step (nbrs g)).

Lemma nbrs_in_nodes u v : In v (nbrs g u) -> In v (node_ids g).
Proof.
  intros I. apply in_nbrs in I. destruct (adj g u v) as [e|] eqn:E; [|congruence]. apply (wf_adj_iff W) in E.
  destruct E as [E|E]; destruct (wf_edge_nodes W E) as (P & Q & _); assumption.
Qed.

Lemma add_all_noop l : forall X, (forall y, In y l -> In y X) -> Reach.add_all l X = X.
Proof.
  induction l as [|x l IH]; intros X H; simpl; [reflexivity|].
  assert (Reach.mem x X = true) as -> by (apply Reach.mem_spec; apply H; left; reflexivity). apply IH. intros y I. apply H. right. exact I.
Qed.

Lemma step_fix_of_len X : length (stp X) = length X -> stp X = X.
Proof. intros L. unfold Reach.step. apply add_all_noop. apply (Reach.add_all_same_length _ _ L). Qed.

Lemma iter_fix X j : stp X = X -> Nat.iter j stp X = X.
Proof. intros F. induction j as [|j IH]; simpl; [reflexivity|]. rewrite IH. exact F. Qed.

Lemma iter_succ_r j X : Nat.iter (S j) stp X = Nat.iter j stp (stp X).
Proof. induction j as [|j IH]; [reflexivity|]. simpl in *. rewrite IH. reflexivity. Qed.

Lemma iter_stabilises : forall fuel X j, NoDup X -> incl X (node_ids g) -> (length (node_ids g) - length X < fuel)%nat ->
  Nat.iter (fuel + j) stp X = Nat.iter fuel stp X.
Proof.
  induction fuel as [|f IH]; intros X j Hn Hi Hf; [lia|].
  destruct (Nat.eq_dec (length (stp X)) (length X)) as [L|L].
  - pose proof (step_fix_of_len X L) as F. rewrite !(iter_fix X _ F). reflexivity.
  - change (Datatypes.S f + j)%nat with (Datatypes.S (f + j)). rewrite !iter_succ_r. apply IH.
    + apply (@Reach.step_nodup (nbrs g)). exact Hn.
    + apply (@Reach.step_incl (node_ids g) (nbrs g) nbrs_in_nodes). exact Hi.
    + pose proof (Reach.add_all_length (flat_map (nbrs g) X) X) as G. fold (stp X) in G.
      pose proof (NoDup_incl_length (@Reach.step_nodup (nbrs g) X Hn) (@Reach.step_incl (node_ids g) (nbrs g) nbrs_in_nodes X Hi)). lia.
Qed.

Theorem ball_saturates (seeds : list N) (j : nat) : (forall s, In s seeds -> In s (node_ids g)) ->
  knn_g g seeds (S (length (node_ids g)) + j) = knn_g g seeds (S (length (node_ids g))) /\
  ball_sub g seeds (S (length (node_ids g)) + j) = ball_sub g seeds (S (length (node_ids g))).
Proof.
  intros HS. assert (knn_g g seeds (S (length (node_ids g)) + j) = knn_g g seeds (S (length (node_ids g)))) as E.
  { unfold knn_g. apply iter_stabilises.
    - apply Reach.add_all_nodup. constructor.
    - intros y I. apply Reach.add_all_in in I. destruct I as [I|[]]. apply HS. exact I.
    - lia. }
  split; [exact E|]. unfold ball_sub. rewrite E. reflexivity.
Qed.
End Saturate.

(** instance: extract_k on full-label ITS graphs *)
Corollary extract_k_saturates (g : its) (j : nat) : wf g ->
  extract_k g (S (length (node_ids g)) + j) = extract_k g (S (length (node_ids g))).
Proof.
  intros W. change (S (length (node_ids g)) + j)%nat with (S (length (node_ids g) + j)). rewrite !C02_Proof.extract_k_S.
  destruct (ball_saturates g W (node_ids (get_rc g)) j) as [E _]; [intros s; apply rc_keys_in|].
  change (knn g (node_ids (get_rc g)) (S (length (node_ids g) + j))) with (knn_g g (node_ids (get_rc g)) (S (length (node_ids g)) + j)).
  rewrite E. reflexivity.
Qed.

Example C02_saturates_nonvacuous :
  wf ex_its /\ extract_k ex_its 50 = extract_k ex_its 9 /\ length (gnodes (extract_k ex_its 50)) = 8%nat /\ length (gnodes (extract_k ex_its 2)) = 7%nat.
Proof.
  split; [apply ex_its_wf|]. split; [|split; reflexivity]. exact (extract_k_saturates ex_its 41 ex_its_wf).
Qed.
