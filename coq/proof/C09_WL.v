(** C09 — back-end wl: when the WL colours of corresponding atoms correspond and are pairwise distinct, the canonical
    ids of corresponding atoms coincide (this discharges the invariance premise of C09_numbering_independent_partial /
    C09_fixed_point_partial for wl; "WL colours are invariant under renaming" is networkx's contract: premise). *)
From Coq Require Import List NArith ZArith Bool Arith Lia Permutation.
From SK Require Import lib.LGraph lib.C01_GraphLemmas model.C01_Model model.C09_Model
  proof.C09_Lists proof.C09_Canon proof.C09_Equiv proof.C09_Main.
From SK Require model.C08_Model proof.C08_Sort lib.IRInst.
Import ListNotations.

Notation lexleb := IRInst.lexleb.

(** the insertion sort only looks at comparisons *)
Lemma insert_by_ext {A} (k k' : A -> list Z) x l :
  (forall y, In y l -> lexleb (k x) (k y) = lexleb (k' x) (k' y)) -> C08_Model.insert_by k x l = C08_Model.insert_by k' x l.
Proof.
  induction l as [|y r IH]; simpl; intros Hc; [reflexivity|].
  rewrite (Hc y (or_introl eq_refl)). destruct (lexleb (k' x) (k' y)); [reflexivity|]. f_equal. apply IH. intros z I. apply Hc. right. exact I.
Qed.
Lemma sort_by_ext {A} (k k' : A -> list Z) l :
  (forall x y, In x l -> In y l -> lexleb (k x) (k y) = lexleb (k' x) (k' y)) -> C08_Model.sort_by k l = C08_Model.sort_by k' l.
Proof.
  induction l as [|x l IH]; simpl; intros Hc; [reflexivity|].
  rewrite IH by (intros a b Ia Ib; apply Hc; right; assumption).
  apply insert_by_ext. intros y I. apply Hc; [left; reflexivity|right]. apply (C08_Sort.sort_by_in k' l y). exact I.
Qed.

Lemma lexleb_head (a b : Z) (r s r' s' : list Z) : a <> b -> lexleb (a :: r) (b :: s) = lexleb (a :: r') (b :: s').
Proof. intros Hne. simpl. destruct (Z.ltb_spec a b); [reflexivity|]. destruct (Z.ltb_spec b a); [reflexivity|]. lia. Qed.

Lemma combine_map_l {Y} (p : N -> N) (l : list N) : forall vals : list Y, combine (map p l) vals = map (fun q => (p (fst q), snd q)) (combine l vals).
Proof. induction l as [|x l IH]; intros [|v vals]; simpl; auto. f_equal. apply IH. Qed.
Lemma sigma_of_map (p : N -> N) (Pinj : forall a b, p a = p b -> a = b) order n : sigma_of (map p order) (p n) = sigma_of order n.
Proof.
  unfold sigma_of, C08_Model.apply_map, C08_Model.mapping_of. rewrite map_length, combine_map_l.
  rewrite (assoc_map_key Pinj). reflexivity.
Qed.

Definition wl_key (ranks : list (N * Z)) (G : mgraph) (v : N) : list Z :=
  [C08_Model.rank_of ranks v; C08_Model.degree (to_c08 G) v; Z.of_N v].

Theorem wl_order_renamed (ranks1 ranks2 : list (N * Z)) (G G2 : mgraph) (p : N -> N) :
  (forall a b, p a = p b -> a = b) -> NoDup (node_ids G) ->
  Permutation (node_ids G2) (map p (node_ids G)) ->
  (forall n, In n (node_ids G) -> C08_Model.rank_of ranks2 (p n) = C08_Model.rank_of ranks1 n) ->
  (forall x y, In x (node_ids G) -> In y (node_ids G) -> C08_Model.rank_of ranks1 x = C08_Model.rank_of ranks1 y -> x = y) ->
  wl_order ranks2 G2 = map p (wl_order ranks1 G).
Proof.
  intros Pinj Hnd P Hr Hd. unfold wl_order. cbv zeta. rewrite !node_ids_to_c08.
  fold (wl_key ranks2 G2). fold (wl_key ranks1 G).
  rewrite (C08_Sort.sort_by_perm_eq (wl_key ranks2 G2) (node_ids G2) (map p (node_ids G)) P).
  - rewrite C08_Sort.sort_by_map. f_equal. apply sort_by_ext. intros x y Ix Iy.
    destruct (N.eq_dec x y) as [->|Hne]; [rewrite !C08_Sort.lexleb_refl; reflexivity|].
    unfold wl_key. rewrite !Hr by assumption. apply lexleb_head. intros E. apply Hne. apply Hd; auto.
  - intros x y _ _ E. unfold wl_key in E. inversion E. apply N2Z.inj. assumption.
Qed.

(** the invariance premise for wl *)
Theorem wl_invariance (ranks1 ranks2 : list (N * Z)) (G G2' : mgraph) (p : N -> N) :
  (forall a b, p a = p b -> a = b) -> wf G -> relabelled_by p G G2' ->
  (forall n, In n (node_ids G) -> C08_Model.rank_of ranks2 (p n) = C08_Model.rank_of ranks1 n) ->
  (forall x y, In x (node_ids G) -> In y (node_ids G) -> C08_Model.rank_of ranks1 x = C08_Model.rank_of ranks1 y -> x = y) ->
  forall n, sigma_of (wl_order ranks2 (set_amap G2')) (p n) = sigma_of (wl_order ranks1 G) n.
Proof.
  intros Pinj (Hnd & _) (RP & _) Hr Hd n.
  rewrite (wl_order_renamed ranks1 ranks2 G (set_amap G2') p Pinj Hnd); auto.
  - apply sigma_of_map. exact Pinj.
  - rewrite node_ids_set_amap, <- (node_ids_relabel p G). unfold node_ids. apply Permutation_map. exact RP.
Qed.

From SK Require Import proof.C09_Indep proof.C09_Indep2.

Definition ranks_distinct (ranks : list (N * Z)) (G : mgraph) : Prop :=
  forall x y, In x (node_ids G) -> In y (node_ids G) -> C08_Model.rank_of ranks x = C08_Model.rank_of ranks y -> x = y.

(** numbering / atom-order independence of [canonicalise_wl] (what [run_canon_wl] evaluates) *)
Theorem numbering_independent_wl (ranks1 ranks2 : list (N * Z)) (G H G2' H2' : mgraph) (p : N -> N) :
  parsed G -> parsed H -> (exists s, In s (node_ids G) /\ In s (node_ids H)) ->
  (forall a b, p a = p b -> a = b) -> (forall n, In n (node_ids G) \/ In n (node_ids H) -> p n <> 0%N) ->
  (forall m n, In m (node_ids H) -> ~ In m (node_ids G) -> In n (node_ids H) -> ~ In n (node_ids G) -> (m <= n)%N -> (p m <= p n)%N) ->
  relabelled_by p G G2' -> relabelled_by p H H2' ->
  (forall n, In n (node_ids G) -> C08_Model.rank_of ranks2 (p n) = C08_Model.rank_of ranks1 n) -> ranks_distinct ranks1 G ->
  exists (pairs1 pairs2 : list (N * N)) (Gc1 Gc2 Hc1 Hc2 : mgraph),
    canonicalise_wl ranks1 G H = Some (Gc1, pairs1, Hc1) /\
    canonicalise_wl ranks2 (set_amap G2') (set_amap H2') = Some (Gc2, pairs2, Hc2) /\
    same_upto_order Gc2 Gc1 /\ same_upto_order Hc2 Hc1.
Proof.
  intros PG PH Hs Pinj Ppos Pmono RG2 RH2 Hr Hd. pose proof PG as (WG & _).
  assert (WG2 : wf (set_amap G2')) by (apply wf_set_amap; apply (rel_wf p Pinj G G2' WG RG2)).
  pose proof (wl_enumerates ranks1 G WG) as En1. pose proof (wl_enumerates ranks2 (set_amap G2') WG2) as En2.
  destruct (presentation_independent_mono G H G2' H2' (canon_rebuild (wl_order ranks1 G) G) (canon_rebuild (wl_order ranks2 (set_amap G2')) (set_amap G2'))
              (wl_order ranks1 G) (wl_order ranks2 (set_amap G2')) p PG PH Hs Pinj Ppos Pmono RG2 RH2 En1 (rebuild_relabelled _ G WG En1)
              En2 (rebuild_relabelled _ _ WG2 En2))
    as (pairs1 & pairs2 & Hc1 & Hc2 & E1 & E2 & S1 & S2).
  - intros n _. apply (wl_invariance ranks1 ranks2 G G2' p Pinj WG RG2 Hr Hd).
  - exists pairs1, pairs2, (set_amap (canon_rebuild (wl_order ranks1 G) G)), (set_amap (canon_rebuild (wl_order ranks2 (set_amap G2')) (set_amap G2'))),
      (set_amap Hc1), (set_amap Hc2). unfold canonicalise_wl. auto.
Qed.

(** fixed point of [canonicalise_wl]: the second run (colours [ranks2] of the canonical reactant graph) returns the
    canonical graphs, given the colours correspond and are pairwise distinct *)
Theorem fixed_point_wl (ranks1 ranks2 : list (N * Z)) (G H : mgraph) :
  parsed G -> parsed H -> (exists s, In s (node_ids G) /\ In s (node_ids H)) ->
  ranks_distinct ranks1 G ->
  (forall n, In n (node_ids G) -> C08_Model.rank_of ranks2 (sigma_of (wl_order ranks1 G) n) = C08_Model.rank_of ranks1 n) ->
  exists (pairs1 : list (N * N)) (Gc1 Hc1 : mgraph),
    canonicalise_wl ranks1 G H = Some (Gc1, pairs1, Hc1) /\
    exists (pairs2 : list (N * N)) (Gc2 Hc2 : mgraph),
      canonicalise_wl ranks2 Gc1 Hc1 = Some (Gc2, pairs2, Hc2) /\ same_upto_order Gc2 Gc1 /\ same_upto_order Hc2 Hc1.
Proof.
  intros PG PH Hs Hd Hr. pose proof PG as (WG & AG & PG'). pose proof PH as (WH & AH & PH').
  pose proof (wl_enumerates ranks1 G WG) as En1. pose proof En1 as (O1 & I1).
  set (order1 := wl_order ranks1 G) in *. set (Gc1 := canon_rebuild order1 G).
  pose proof (rebuild_relabelled order1 G WG En1) as R1. fold Gc1 in R1.
  destruct (canonicalise_with_spec G H Gc1 order1 WG WH AG AH PG' PH' O1 I1 R1 Hs) as (Hc1 & E1 & RF1 & EH1 & Fs1 & _).
  set (f1 := C09_Canon.f H Gc1 order1) in *.
  destruct (fixed_point_gen G H Gc1 order1 PG PH Hs En1 R1) as (pairs1 & Gc1' & Hc1' & E1' & Hfix).
  rewrite E1 in E1'. assert (EG : set_amap Gc1 = Gc1') by congruence. assert (EHc : set_amap Hc1 = Hc1') by congruence. subst Gc1' Hc1'.
  exists (aam_pairs Gc1 H), (set_amap Gc1), (set_amap Hc1). split; [exact E1|].
  assert (WGc : wf (set_amap Gc1)) by (apply wf_set_amap; apply (rel_wf f1 (fun a b => tau_injective _ _ a b) G Gc1 WG RF1)).
  pose proof (wl_enumerates ranks2 (set_amap Gc1) WGc) as En2.
  assert (Hr' : forall n, In n (node_ids G) -> C08_Model.rank_of ranks2 (f1 n) = C08_Model.rank_of ranks1 n).
  { intros n I. rewrite Fs1 by (apply I1; exact I). apply Hr. exact I. }
  assert (Hid : forall m, In m (node_ids (set_amap Gc1)) -> sigma_of (wl_order ranks2 (set_amap Gc1)) m = m).
  { intros m I. rewrite node_ids_set_amap in I. apply (rel_node_ids f1 G Gc1 RF1) in I. apply in_map_iff in I. destruct I as (n & <- & In').
    rewrite (wl_invariance ranks1 ranks2 G Gc1 f1 (fun a b => tau_injective _ _ a b) WG RF1 Hr' Hd n). symmetry. apply Fs1. apply I1. exact In'. }
  destruct (Hfix (wl_order ranks2 (set_amap Gc1)) (canon_rebuild (wl_order ranks2 (set_amap Gc1)) (set_amap Gc1)) En2
              (rebuild_relabelled _ _ WGc En2) Hid) as (pairs2 & Hc2' & E2 & S1 & S2).
  exists pairs2, (set_amap (canon_rebuild (wl_order ranks2 (set_amap Gc1)) (set_amap Gc1))), Hc2'.
  unfold canonicalise_wl. auto.
Qed.

(** non-vacuity: CH3Br + OH- with three different colours; second presentation renumbered 1,2,7 -> 5,6,4 *)
Definition ex_ranks1 : list (N * Z) := [(1%N, 0%Z); (2%N, 2%Z); (7%N, 1%Z)].
Definition ex_ranks2 : list (N * Z) := [(5%N, 0%Z); (6%N, 2%Z); (4%N, 1%Z)].
Example ex_wl_hyps :
  ranks_distinct ex_ranks1 ex_G /\
  (forall n, In n (node_ids ex_G) -> C08_Model.rank_of ex_ranks2 (ex_ren n) = C08_Model.rank_of ex_ranks1 n) /\
  wl_order ex_ranks1 ex_G = [1%N; 7%N; 2%N] /\
  wl_order ex_ranks2 (set_amap (relabel ex_ren ex_G)) = map ex_ren (wl_order ex_ranks1 ex_G).
Proof.
  split; [|split; [|split]].
  - intros x y Ix Iy E. simpl in Ix, Iy. destruct Ix as [<-|[<-|[<-|[]]]]; destruct Iy as [<-|[<-|[<-|[]]]]; try reflexivity; vm_compute in E; discriminate.
  - intros n I. simpl in I. intuition (subst; reflexivity).
  - vm_compute. reflexivity.
  - vm_compute. reflexivity.
Qed.
