(** C02 (round 5) — the facade synkit.Rule.Modify.implict_rule.implicit_rule(rsmi, disconnected, balance_its)
      = get_rc(ITSGraph(r, p, balance_its=balance_its), disconnected=disconnected)
    on the graphs (r, p) of the hydrogen-stripped reaction: [implicit_rule_m]; what it returns, stated on the two sides. *)
From Coq Require Import List NArith ZArith Bool Lia.
From SK Require Import lib.LGraph lib.C01_GraphLemmas model.C01_Model model.C02_Model
                       proof.C02_Proof proof.C02_Opts proof.C02_OptsEquiv proof.C02_Sides2 proof.C02_Store.
Import ListNotations.
Local Open Scope Z_scope.

Definition implicit_rule_m (disconnected bal : bool) (G H : mgraph) : xits :=
  get_rc_x K_default disconnected false (emb (its_construct_ab false bal G H)).

Theorem implicit_rule_spec bal (G H : mgraph) : wf G -> wf H ->
  (* disconnected = False: the centre of the ITS — joined iff bonded on some side and the order differs, or both hydrogens *)
  (forall u v, (exists y, adj (implicit_rule_m false bal G H) u v = Some y) <->
               (adj G u v <> None \/ adj H u v <> None) /\
               (order_in G u v <> order_in H u v \/ (is_h (its_construct_ab false bal G H) u = true /\ is_h (its_construct_ab false bal G H) v = true))) /\
  (* disconnected = True: additionally the atoms whose charge changes, and every ITS bond between atoms of the result *)
  (forall n, In n (node_ids (implicit_rule_m true bal G H)) <->
             In n (node_ids (implicit_rule_m false bal G H)) \/
             (exists a, label (its_construct_ab false bal G H) n = Some a /\ a_ch (i_G a) <> a_ch (i_H a))) /\
  (forall u v e, (exists y, adj (implicit_rule_m true bal G H) u v = Some y /\ fst y = e) <->
                 adj (its_construct_ab false bal G H) u v = Some e /\ In u (node_ids (implicit_rule_m true bal G H)) /\ In v (node_ids (implicit_rule_m true bal G H))).
Proof.
  intros WG WH. pose proof (wf_construct_ab false bal G H WG WH) as WI. set (I := its_construct_ab false bal G H) in *.
  assert (wf (emb I)) as WE by (apply (wf_gmap xn_of (fun e : iedge => (e, @None bool))); exact WI).
  assert (forall u v, adj (emb I) u v = option_map (fun e : iedge => (e, @None bool)) (adj I u v)) as AE
    by (intros u v; unfold adj, emb, gmap; simpl; apply find_edge_map).
  assert (forall n, label (emb I) n = option_map xn_of (label I n)) as LE
    by (intros n; unfold label, emb, gmap; simpl; apply (assoc_map_val (fun _ a => xn_of a))).
  unfold implicit_rule_m. fold I. split; [|split].
  - intros u v.
    assert (adj (get_rc_x K_default false false (emb I)) u v = option_map (fun e : iedge => (e, Some false)) (adj (get_rc I) u v)) as ->
      by (rewrite rcx_default_emb; unfold adj, gmap; simpl; apply find_edge_map).
    pose proof (centre_vs_sides_all false bal G H WG WH u v) as CS. fold I in CS. cbv zeta in CS. rewrite <- CS.
    destruct (adj (get_rc I) u v) as [e|]; simpl; split; try (intros _; eexists; reflexivity); intros (y & C); discriminate.
  - intros n. destruct (rcx_disconnected K_default false (emb I) WE) as [HN _]. rewrite (HN n). clear HN.
    split; (intros [L|R]; [left; exact L|right]).
    + destruct R as (a & La & C). rewrite LE in La. destruct (label I n) as [a0|]; [|discriminate]. simpl in La. injection La as <-.
      exists a0. split; [reflexivity|]. unfold charge_changed, xn_of in C. simpl in C. apply negb_true_iff, Z.eqb_neq in C. exact C.
    + destruct R as (a0 & La & C). exists (xn_of a0). split; [rewrite LE, La; reflexivity|].
      unfold charge_changed, xn_of. simpl. apply negb_true_iff, Z.eqb_neq. exact C.
  - intros u v e. destruct (rcx_disconnected K_default false (emb I) WE) as [_ HA]. rewrite (HA u v e). clear HA. rewrite AE.
    split.
    + intros ((x & A & E) & Iu & Iv). destruct (adj I u v) as [e0|]; [|discriminate]. simpl in A. injection A as <-. simpl in E. subst e0. auto.
    + intros (A & Iu & Iv). rewrite A. simpl. split; [eexists; split; reflexivity|auto].
Qed.

(** non-vacuity: C-O becomes C=O while a spectator nitrogen gains a charge: the connected centre is {1,2}, the disconnected one adds atom 3 *)
Definition ir_G : mgraph := LG [(1%N, GN 70%N false 3 0 (Some []) 1); (2%N, GN 82%N false 1 0 (Some []) 2); (3%N, GN 81%N false 3 0 (Some []) 3)] [(1%N, 2%N, 2)].
Definition ir_H : mgraph := LG [(1%N, GN 70%N false 2 0 (Some []) 1); (2%N, GN 82%N false 0 0 (Some []) 2); (3%N, GN 81%N false 4 1 (Some []) 3)] [(1%N, 2%N, 4)].
Example C02_implicit_rule_nonvacuous :
  wf ir_G /\ wf ir_H /\ node_ids (implicit_rule_m false false ir_G ir_H) = [1%N; 2%N] /\ node_ids (implicit_rule_m true false ir_G ir_H) = [1%N; 2%N; 3%N] /\
  adj (implicit_rule_m true true ir_G ir_H) 1%N 2%N = Some (IE 2 4 (-2), Some false).
Proof.
  assert (forall G : mgraph, G = ir_G \/ G = ir_H -> wf G) as Wf.
  { intros G [-> | ->]; (apply wf_intro; simpl; [repeat constructor; simpl; intuition discriminate| |repeat constructor]);
      intros a b x [E|[]]; inversion E; subst; simpl; intuition discriminate. }
  split; [apply Wf; auto|]. split; [apply Wf; auto|]. vm_compute. repeat split; reflexivity.
Qed.
