(** C11 — de-duplication: both de-duplicators return a subsequence of their input
    (clause 3), and pruning by rule automorphisms keeps a representative of every
    class of matches (clause 4). Stdlib lists. *)
From Coq Require Import List NArith ZArith Bool Arith Lia.
From SK Require Import lib.Tok lib.LGraph lib.Mono lib.Reach model.C11_Model.
Import ListNotations.

(** [subseq out inp]: [out] is obtained from [inp] by deleting elements (original order kept) *)
Inductive subseq {X : Type} : list X -> list X -> Prop :=
| sub_nil : subseq [] []
| sub_skip x l l' : subseq l l' -> subseq l (x :: l')
| sub_keep x l l' : subseq l l' -> subseq (x :: l) (x :: l').

Lemma subseq_refl {X} (l : list X) : subseq l l.
Proof. induction l; [constructor | apply sub_keep; auto]. Qed.

Lemma subseq_in {X} (a b : list X) x : subseq a b -> In x a -> In x b.
Proof. induction 1; simpl; intuition. Qed.

Lemma subseq_map {X Y} (f : X -> Y) (a b : list X) : subseq a b -> subseq (map f a) (map f b).
Proof. induction 1; simpl; [apply sub_nil | apply sub_skip | apply sub_keep]; auto. Qed.

Lemma subseq_length {X} (a b : list X) : subseq a b -> (length a <= length b)%nat.
Proof. induction 1; simpl; lia. Qed.

Section Sub.
Variable X : Type.
Variable key : X -> mapping.

Lemma dedup_aut_go_subseq A xs : forall seen, subseq (dedup_aut_go key A xs seen) xs.
Proof.
  induction xs as [|x r IH]; intros seen; simpl; [constructor|].
  destruct (existsb (set_eqb (key x)) seen); [apply sub_skip | apply sub_keep]; apply IH.
Qed.

Lemma dedup_aut_subseq A xs : subseq (dedup_aut key A xs) xs.
Proof. apply dedup_aut_go_subseq. Qed.

Lemma dedup_sig_go_subseq sg xs : forall seen out, dedup_sig_go key sg xs seen = Some out -> subseq out xs.
Proof.
  induction xs as [|x r IH]; intros seen out; simpl.
  - intros [= <-]. constructor.
  - destruct (sg (key x)) as [s|]; [|discriminate].
    destruct (existsb (sig_eqb s) seen).
    + intros H. apply sub_skip. eapply IH; eauto.
    + destruct (dedup_sig_go key sg r (s :: seen)) as [o|] eqn:E; [|discriminate].
      intros [= <-]. apply sub_keep. eapply IH; eauto.
Qed.

Lemma dedup_anchor_subseq xs porbs anchor horbs out :
  dedup_anchor key xs porbs anchor horbs = Some out -> subseq out xs.
Proof.
  unfold dedup_anchor. destruct porbs as [po|], horbs as [ho|];
    try (destruct (prepare _ anchor) as [free anchored]; apply dedup_sig_go_subseq).
  intros [= <-]. apply subseq_refl.
Qed.

Lemma prune_subseq rc raw : subseq (prune key rc raw) raw.
Proof.
  unfold prune. destruct (1 <? length raw)%nat; [apply dedup_aut_subseq | apply subseq_refl].
Qed.
End Sub.

Lemma dedup_sublist_all (X : Type) (key : X -> mapping) (xs : list X) :
    (forall porbs anchor horbs out, dedup_anchor key xs porbs anchor horbs = Some out -> subseq out xs) /\
    (forall A, subseq (dedup_aut key A xs) xs) /\
    (forall rc, subseq (prune key rc xs) xs).
Proof.
  split; [|split].
  - intros. eapply dedup_anchor_subseq; eauto.
  - intros. apply dedup_aut_subseq.
  - intros. apply prune_subseq.
Qed.

(** ---------- clause 5: pruning keeps a representative of every class of matches ---------- *)
Lemma pair_eqb_eq a b : pair_eqb a b = true <-> a = b.
Proof.
  unfold pair_eqb. destruct a as [a1 a2], b as [b1 b2]; simpl.
  rewrite andb_true_iff, !N.eqb_eq. split; [intros [-> ->]; reflexivity | intros [= -> ->]; auto].
Qed.

Lemma pair_mem_spec x l : pair_mem x l = true <-> In x l.
Proof.
  unfold pair_mem. rewrite existsb_exists. split.
  - intros (y & Hy & E). apply pair_eqb_eq in E. subst. exact Hy.
  - intros H. exists x. split; [exact H | apply pair_eqb_eq; reflexivity].
Qed.

Lemma set_eqb_spec a b : set_eqb a b = true <-> (forall x, In x a <-> In x b).
Proof.
  unfold set_eqb. rewrite andb_true_iff, !forallb_forall. split.
  - intros [H1 H2] x. split; intros H; [apply pair_mem_spec, H1, H | apply pair_mem_spec, H2, H].
  - intros H. split; intros x Hx; apply pair_mem_spec, H, Hx.
Qed.

(** the image of a pattern node under an automorphism given as a list of pairs (sigma[p]) *)
Definition app_map (s : mapping) (p : N) : N := match assoc p s with Some q => q | None => p end.

Lemma in_act s m p h : In (p, h) (act s m) <-> exists p', In (p', h) m /\ p = app_map s p'.
Proof.
  unfold act, app_map. rewrite in_map_iff. split.
  - intros ([p' h'] & E & Hin). simpl in E. inversion E; subst. exists p'. split; auto.
  - intros (p' & Hin & ->). exists (p', h). split; auto.
Qed.

Section Complete.
Variable X : Type.
Variable key : X -> mapping.
Variable A : list mapping.

(** [y] stands for [x]: the same element, the same set of (pattern node, host node) items, or the items of [x]
    are those of [y] with the pattern side moved by one of the automorphisms *)
Definition covers (y x : X) : Prop :=
  y = x \/ set_eqb (key x) (key y) = true \/ exists s, In s A /\ set_eqb (key x) (act s (key y)) = true.

Lemma dedup_aut_go_complete xs : forall seen x, In x xs ->
  existsb (set_eqb (key x)) seen = true \/ exists y, In y (dedup_aut_go key A xs seen) /\ covers y x.
Proof.
  induction xs as [|h r IH]; intros seen x Hin; [destruct Hin|].
  simpl. destruct Hin as [->|Hin].
  - destruct (existsb (set_eqb (key x)) seen) eqn:E; [left; reflexivity|].
    right. exists x. split; [left; reflexivity | left; reflexivity].
  - destruct (existsb (set_eqb (key h)) seen) eqn:E.
    + apply IH; exact Hin.
    + destruct (IH (key h :: map (fun s => act s (key h)) A ++ seen) x Hin) as [Hs | (y & Hy & Hc)].
      * simpl in Hs. apply orb_true_iff in Hs. destruct Hs as [Hs|Hs].
        { right. exists h. split; [left; reflexivity|]. right; left; exact Hs. }
        rewrite existsb_app in Hs. apply orb_true_iff in Hs. destruct Hs as [Hs|Hs]; [|left; exact Hs].
        apply existsb_exists in Hs. destruct Hs as (m & Hm & Heq).
        apply in_map_iff in Hm. destruct Hm as (s & <- & Hs).
        right. exists h. split; [left; reflexivity|]. right; right. exists s. split; assumption.
      * right. exists y. split; [right; exact Hy | exact Hc].
Qed.

Lemma dedup_aut_complete xs x : In x xs -> exists y, In y (dedup_aut key A xs) /\ covers y x.
Proof.
  intros Hin. destruct (dedup_aut_go_complete xs [] x Hin) as [H|H]; [discriminate | exact H].
Qed.
End Complete.

Lemma prune_complete_all (X : Type) (key : X -> mapping) (rc : graph) (raw : list X) x :
  In x raw ->
  exists y, In y (prune key rc raw) /\
    (y = x \/ (forall ph, In ph (key x) <-> In ph (key y)) \/
     exists s, In s (rule_auts rc) /\
       forall p h, In (p, h) (key x) <-> exists p', In (p', h) (key y) /\ p = app_map s p').
Proof.
  intros Hin. unfold prune. destruct (1 <? length raw)%nat.
  - destruct (dedup_aut_complete X key (rule_auts rc) raw x Hin) as (y & Hy & [E | [E | (s & Hs & E)]]).
    + exists y. split; auto.
    + exists y. split; auto. right; left. apply set_eqb_spec; exact E.
    + exists y. split; auto. right; right. exists s. split; auto.
      intros p h. rewrite <- in_act. apply (proj1 (set_eqb_spec _ _) E (p, h)).
  - exists x. split; auto.
Qed.

(** consequence: any result function that does not depend on the item order of a match and is invariant under
    the rule automorphisms takes the same set of values on the kept matches as on all raw matches *)
Lemma prune_same_results (X R : Type) (key : X -> mapping) (rc : graph) (raw : list X) (res : mapping -> R) :
  (forall m m', (forall ph, In ph m <-> In ph m') -> res m = res m') ->
  (forall s x, In s (rule_auts rc) -> In x raw -> res (act s (key x)) = res (key x)) ->
  forall r, In r (map (fun x => res (key x)) raw) <-> In r (map (fun x => res (key x)) (prune key rc raw)).
Proof.
  intros Hext Hinv r. rewrite !in_map_iff. split.
  - intros (x & <- & Hin).
    destruct (prune_complete_all X key rc raw x Hin) as (y & Hy & [E | [E | (s & Hs & E)]]).
    + exists y. subst. auto.
    + exists y. split; auto. apply Hext. intros ph. symmetry. apply E.
    + exists y. split; auto.
      rewrite <- (Hinv s y Hs (subseq_in _ _ _ (prune_subseq X key rc raw) Hy)).
      apply Hext. intros [p h]. rewrite in_act. symmetry. apply E.
  - intros (y & <- & Hy). exists y. split; auto. exact (subseq_in _ _ _ (prune_subseq X key rc raw) Hy).
Qed.

(** non-vacuity: a list on which something is dropped and something is kept *)
Example dedup_aut_drops :
  dedup_aut (fun m => m) [[(1, 2); (2, 1)]]%N [[(1, 7); (2, 8)]; [(1, 8); (2, 7)]; [(1, 7); (2, 9)]]%N
  = [[(1, 7); (2, 8)]; [(1, 7); (2, 9)]]%N.
Proof. vm_compute. reflexivity. Qed.

(** the computed form of the completeness statement ([rep_ok], evaluated by the correspondence) is always true *)
Lemma set_eqb_refl a : set_eqb a a = true.
Proof. apply set_eqb_spec. intros x. tauto. Qed.

Lemma rep_ok_true (rc : graph) (raw : list mapping) : rep_ok rc raw = true.
Proof.
  unfold rep_ok. apply forallb_forall. intros x Hx. apply existsb_exists.
  unfold prune. destruct (1 <? length raw)%nat.
  - destruct (dedup_aut_complete mapping (fun m => m) (rule_auts rc) raw x Hx) as (y & Hy & [E | [E | (s & Hs & E)]]).
    + exists y. split; [exact Hy|]. subst y. rewrite set_eqb_refl. reflexivity.
    + exists y. split; [exact Hy|]. rewrite E. reflexivity.
    + exists y. split; [exact Hy|]. apply orb_true_iff. right. apply existsb_exists. exists s. split; assumption.
  - exists x. split; [exact Hx|]. rewrite set_eqb_refl. reflexivity.
Qed.
