(** C11 — de-duplication: both de-duplicators return a subsequence of their input
    (clause 3), and pruning by rule automorphisms keeps a representative of every
    class of matches (clause 4). Stdlib lists. *)
From Coq Require Import List NArith ZArith Bool Arith Lia.
From SK Require Import lib.Tok lib.LGraph lib.Mono lib.Reach model.C11_Model.
Import ListNotations.

(** [subseq out inp]: [out] is obtained from [inp] by deleting elements (original order kept) *)
Inductive subseq {X : Type} : list X -> list X -> Prop :=
| sub_nil : subseq [] []
| sub_skip x l l' : subseq l l' -> subseq l (x :: l')
| sub_keep x l l' : subseq l l' -> subseq (x :: l) (x :: l').

Lemma subseq_refl {X} (l : list X) : subseq l l.
Proof. induction l; [constructor | apply sub_keep; auto]. Qed.

Lemma subseq_in {X} (a b : list X) x : subseq a b -> In x a -> In x b.
Proof. induction 1; simpl; intuition. Qed.

Lemma subseq_map {X Y} (f : X -> Y) (a b : list X) : subseq a b -> subseq (map f a) (map f b).
Proof. induction 1; simpl; [apply sub_nil | apply sub_skip | apply sub_keep]; auto. Qed.

Lemma subseq_length {X} (a b : list X) : subseq a b -> (length a <= length b)%nat.
Proof. induction 1; simpl; lia. Qed.

Section Sub.
Variable X : Type.
Variable key : X -> mapping.

Lemma dedup_aut_go_subseq A xs : forall seen, subseq (dedup_aut_go key A xs seen) xs.
Proof.
  induction xs as [|x r IH]; intros seen; simpl; [constructor|].
  destruct (existsb (set_eqb (key x)) seen); [apply sub_skip | apply sub_keep]; apply IH.
Qed.

Lemma dedup_aut_subseq A xs : subseq (dedup_aut key A xs) xs.
Proof. apply dedup_aut_go_subseq. Qed.

Lemma dedup_sig_go_subseq sg xs : forall seen out, dedup_sig_go key sg xs seen = Some out -> subseq out xs.
Proof.
  induction xs as [|x r IH]; intros seen out; simpl.
  - intros [= <-]. constructor.
  - destruct (sg (key x)) as [s|]; [|discriminate].
    destruct (existsb (sig_eqb s) seen).
    + intros H. apply sub_skip. eapply IH; eauto.
    + destruct (dedup_sig_go key sg r (s :: seen)) as [o|] eqn:E; [|discriminate].
      intros [= <-]. apply sub_keep. eapply IH; eauto.
Qed.

Lemma dedup_anchor_subseq xs porbs anchor horbs out :
  dedup_anchor key xs porbs anchor horbs = Some out -> subseq out xs.
Proof.
  unfold dedup_anchor. destruct porbs as [po|], horbs as [ho|];
    try (destruct (prepare _ anchor) as [free anchored]; apply dedup_sig_go_subseq).
  intros [= <-]. apply subseq_refl.
Qed.

Lemma prune_subseq rc raw : subseq (prune key rc raw) raw.
Proof.
  unfold prune. destruct (1 <? length raw)%nat; [apply dedup_aut_subseq | apply subseq_refl].
Qed.
End Sub.

Lemma dedup_sublist_all (X : Type) (key : X -> mapping) (xs : list X) :
    (forall porbs anchor horbs out, dedup_anchor key xs porbs anchor horbs = Some out -> subseq out xs) /\
    (forall A, subseq (dedup_aut key A xs) xs) /\
    (forall rc, subseq (prune key rc xs) xs).
Proof.
  split; [|split].
  - intros. eapply dedup_anchor_subseq; eauto.
  - intros. apply dedup_aut_subseq.
  - intros. apply prune_subseq.
Qed.

(** non-vacuity: a list on which something is dropped and something is kept *)
Example dedup_aut_drops :
  dedup_aut (fun m => m) [[(1, 2); (2, 1)]]%N [[(1, 7); (2, 8)]; [(1, 8); (2, 7)]; [(1, 7); (2, 9)]]%N
  = [[(1, 7); (2, 8)]; [(1, 7); (2, 9)]]%N.
Proof. vm_compute. reflexivity. Qed.
