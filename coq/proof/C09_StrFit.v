(** C09 — Standardize.fit is idempotent (model/C09_Strings.v), relative to explicit contracts of the RDKit oracles:
    std.replace("[HH]", "[H][H]") commutes with the '.' / '>>' structure of the string, and reading a standard side back
    gives the same canonical fragments. *)
From Coq Require Import List NArith ZArith Bool Arith Lia Permutation.
From SK Require Import lib.StrJoin lib.LGraph model.C01_Model model.C09_Model model.C09_Strings proof.C08_Sort proof.C09_Str.
From SK Require model.C08_Model.
Import ListNotations.

(** * replace_HH and separators *)
Definition pat (a b c d : N) : bool := (N.eqb a 91 && N.eqb b 72 && N.eqb c 72 && N.eqb d 93)%bool.
Definition head_match (s : str) : bool := match s with a :: b :: c :: d :: _ => pat a b c d | _ => false end.

Lemma pat_true a b c d : pat a b c d = true -> a = 91%N /\ b = 72%N /\ c = 72%N /\ d = 93%N.
Proof. unfold pat. rewrite !andb_true_iff, !N.eqb_eq. tauto. Qed.
Lemma replace_HH_nomatch a r : head_match (a :: r) = false -> replace_HH (a :: r) = a :: replace_HH r.
Proof.
  destruct r as [|b [|c [|d r4]]]; try reflexivity. intros H. cbn [head_match] in H. unfold pat in H.
  cbn [replace_HH]. rewrite H. reflexivity.
Qed.
Lemma replace_HH_match a b c d r : pat a b c d = true -> replace_HH (a :: b :: c :: d :: r) = HH2 ++ replace_HH r.
Proof. intros H. unfold pat in H. cbn [replace_HH]. rewrite H. reflexivity. Qed.

Definition plain (c : N) : Prop := c <> 91%N /\ c <> 72%N /\ c <> 93%N.

Lemma head_match_app_sep x c y : plain c -> head_match (x ++ c :: y) = head_match x.
Proof.
  intros (P1 & P2 & P3).
  destruct x as [|a [|b [|c' [|d x4]]]]; cbn [app head_match]; try reflexivity.
  - destruct y as [|? [|? [|? ?]]]; try reflexivity. unfold pat. destruct (N.eqb_spec c 91); [contradiction|reflexivity].
  - destruct y as [|? [|? ?]]; try reflexivity. unfold pat. destruct (N.eqb_spec c 72); [contradiction|]. rewrite andb_false_r. reflexivity.
  - destruct y as [|? ?]; try reflexivity. unfold pat. destruct (N.eqb_spec c 72); [contradiction|]. rewrite !andb_false_r. reflexivity.
  - unfold pat. destruct (N.eqb_spec c 93); [contradiction|]. rewrite !andb_false_r. reflexivity.
Qed.

Lemma replace_HH_sep_n : forall n x, (length x <= n)%nat -> forall c y, plain c ->
  replace_HH (x ++ c :: y) = replace_HH x ++ c :: replace_HH y.
Proof.
  induction n as [|n IH]; intros x Hl c y Pc.
  - destruct x as [|a0 x0]; [|exfalso; cbn [length] in Hl; lia]. cbn [app]. apply replace_HH_nomatch. apply (head_match_app_sep [] c y Pc).
  - destruct x as [|a x']; [cbn [app]; apply replace_HH_nomatch; apply (head_match_app_sep [] c y Pc)|].
    cbn [length] in Hl. pose proof (head_match_app_sep (a :: x') c y Pc) as Hm. cbn [app] in *.
    destruct (head_match (a :: x')) eqn:E.
    + destruct x' as [|b [|c' [|d x4]]]; try discriminate E. cbn [head_match] in E.
      cbn [app]. rewrite !(replace_HH_match a b c' d _ E).
      assert (L4 : (length x4 <= n)%nat) by (cbn [length] in Hl; lia).
      rewrite (IH x4 L4 c y Pc). rewrite app_assoc. reflexivity.
    + rewrite (replace_HH_nomatch a (x' ++ c :: y) Hm), (replace_HH_nomatch a x' E).
      assert (L1 : (length x' <= n)%nat) by lia. rewrite (IH x' L1 c y Pc). reflexivity.
Qed.
Lemma replace_HH_sep x c y : plain c -> replace_HH (x ++ c :: y) = replace_HH x ++ c :: replace_HH y.
Proof. apply (replace_HH_sep_n (length x)). apply Nat.le_refl. Qed.

Lemma plain_DOT : plain DOT. Proof. repeat split; discriminate. Qed.
Lemma plain_GT : plain GT. Proof. repeat split; discriminate. Qed.

Lemma replace_HH_join : forall l, replace_HH (join DOT l) = join DOT (map replace_HH l).
Proof.
  induction l as [|x l IH]; [reflexivity|]. destruct l as [|y l]; [reflexivity|].
  change (join DOT (x :: y :: l)) with (x ++ DOT :: join DOT (y :: l)).
  rewrite (replace_HH_sep x DOT _ plain_DOT), IH. reflexivity.
Qed.
Lemma replace_HH_gg a b : replace_HH (a ++ GG ++ b) = replace_HH a ++ GG ++ replace_HH b.
Proof.
  change (a ++ GG ++ b) with (a ++ GT :: (GT :: b)). rewrite (replace_HH_sep a GT _ plain_GT).
  pose proof (replace_HH_sep [] GT b plain_GT) as E. change ([] ++ GT :: b) with (GT :: b) in E.
  change (replace_HH [] ++ GT :: replace_HH b) with (GT :: replace_HH b) in E. rewrite E. reflexivity.
Qed.

(** replace_HH introduces only '[', 'H', ']' *)
Lemma replace_HH_in_n : forall n x, (length x <= n)%nat -> forall c, In c (replace_HH x) -> In c x \/ c = 91%N \/ c = 72%N \/ c = 93%N.
Proof.
  induction n as [|n IH]; intros x Hl c I.
  - destruct x; [destruct I|simpl in Hl; lia].
  - destruct x as [|a x']; [destruct I|]. simpl in Hl.
    destruct (head_match (a :: x')) eqn:E.
    + destruct x' as [|b [|c' [|d x4]]]; try discriminate E. cbn [head_match] in E.
      rewrite (replace_HH_match a b c' d _ E) in I. apply in_app_or in I. destruct I as [I|I].
      * right. unfold HH2 in I. simpl in I. intuition.
      * apply IH in I; [|simpl in Hl; lia]. destruct I as [I|I]; [left; simpl; auto|right; exact I].
    + rewrite (replace_HH_nomatch a x' E) in I. destruct I as [<-|I]; [left; left; reflexivity|].
      apply IH in I; [|lia]. destruct I as [I|I]; [left; right; exact I|right; exact I].
Qed.
Lemma replace_HH_nosep c x : plain c -> nosep c x -> nosep c (replace_HH x).
Proof.
  intros (P1 & P2 & P3) H I. apply (replace_HH_in_n (length x) x (Nat.le_refl _)) in I.
  destruct I as [I|[I|[I|I]]]; auto.
Qed.

(** * fit is idempotent *)
(** [reader side] = the canonical fragments the pipeline obtains from one side string:
    remove_aam=True: clean the side, then filter + write its fragments; remove_aam=False: filter + write directly *)
Definition reader (clean : str -> option str) (c : str -> option str) (ra : bool) (side : str) : option (list str) :=
  if ra then match clean side with Some x => if existsb (N.eqb GT) x then None else Some (valid_frags c x) | None => None end
  else Some (valid_frags c side).

(** contract on the OUTPUT sides (explicit premise about RDKit, monitored by the clause standardize-idempotent): a side of a
    standard form - sorted canonical fragments joined by '.', "[HH]" written "[H][H]" - is read back as the same fragments *)
Definition side_contract (clean : str -> option str) (c : str -> option str) (ra : bool) : Prop :=
  forall A : list str, A <> [] -> (forall f, In f A -> exists g, c g = Some f) ->
    exists B, reader clean c ra (replace_HH (join DOT A)) = Some B /\ Permutation B A.

Lemma existsb_GT x : existsb (N.eqb GT) x = false -> nosep GT x.
Proof.
  intros H I. assert (T : existsb (N.eqb GT) x = true) by (apply existsb_exists; exists GT; split; [exact I|apply N.eqb_refl]). congruence.
Qed.

Lemma fit_on_sides clean canon ra ist ua ub A B : nosep GT ua -> nosep GT ub ->
  reader clean (canon (negb ist)) ra ua = Some A -> reader clean (canon (negb ist)) ra ub = Some B ->
  std_fit clean canon ra ist (ua ++ GG ++ ub) =
  (if (is_nil A || is_nil B)%bool then SNone else SSome (replace_HH (join DOT (sort_strs A) ++ GG ++ join DOT (sort_strs B)))).
Proof.
  intros Ha Hb RA RB. unfold std_fit, reader in *. destruct ra.
  - unfold remove_atom_mapping. rewrite split_gg_app by assumption.
    destruct (clean ua) as [xa|]; [|discriminate]. destruct (existsb (N.eqb GT) xa) eqn:Ea; [discriminate|].
    destruct (clean ub) as [xb|]; [|discriminate]. destruct (existsb (N.eqb GT) xb) eqn:Eb; [discriminate|].
    injection RA as <-. injection RB as <-.
    unfold standardize_rsmi, std_sides. rewrite split_gg_app by (apply existsb_GT; assumption).
    destruct (is_nil (valid_frags (canon (negb ist)) xa) || is_nil (valid_frags (canon (negb ist)) xb))%bool; reflexivity.
  - injection RA as <-. injection RB as <-.
    unfold standardize_rsmi, std_sides. rewrite split_gg_app by assumption.
    destruct (is_nil (valid_frags (canon (negb ist)) ua) || is_nil (valid_frags (canon (negb ist)) ub))%bool; reflexivity.
Qed.

Theorem std_fit_idempotent clean canon ra ist s u :
  writer_contract (canon (negb ist)) -> side_contract clean (canon (negb ist)) ra ->
  std_fit clean canon ra ist s = SSome u -> std_fit clean canon ra ist u = SSome u.
Proof.
  intros WC SC E. destruct (std_fit_shape clean canon ra ist s u E) as (s1 & t & _ & Et & ->).
  destruct (standardize_shape _ _ _ Et) as (a & b & _ & -> & Na & Nb).
  set (c := canon (negb ist)) in *.
  set (A := sort_strs (valid_frags c a)) in *. set (B := sort_strs (valid_frags c b)) in *.
  assert (QA : forall f, In f A -> exists g, c g = Some f).
  { intros f I. unfold A in I. apply (proj1 (sort_strs_in _ _)) in I. rewrite valid_frags_eq in I. apply in_flat_okeep in I. exact I. }
  assert (QB : forall f, In f B -> exists g, c g = Some f).
  { intros f I. unfold B in I. apply (proj1 (sort_strs_in _ _)) in I. rewrite valid_frags_eq in I. apply in_flat_okeep in I. exact I. }
  assert (NA : A <> []).
  { intro Z. pose proof (sort_strs_permutation (valid_frags c a)) as P. fold A in P. rewrite Z in P. apply Permutation_nil in P. auto. }
  assert (NB : B <> []).
  { intro Z. pose proof (sort_strs_permutation (valid_frags c b)) as P. fold B in P. rewrite Z in P. apply Permutation_nil in P. auto. }
  destruct (SC A NA QA) as (A' & RA & PA). destruct (SC B NB QB) as (B' & RB & PB).
  rewrite replace_HH_gg.
  assert (GA : nosep GT (replace_HH (join DOT A))).
  { apply replace_HH_nosep; [exact plain_GT|]. apply join_nosep; [exact GT_ne_DOT|]. apply Forall_forall. intros f I.
    destruct (QA f I) as (g & Eg). apply (WC g f Eg). }
  assert (GB : nosep GT (replace_HH (join DOT B))).
  { apply replace_HH_nosep; [exact plain_GT|]. apply join_nosep; [exact GT_ne_DOT|]. apply Forall_forall. intros f I.
    destruct (QB f I) as (g & Eg). apply (WC g f Eg). }
  rewrite (fit_on_sides clean canon ra ist _ _ A' B' GA GB RA RB).
  rewrite (is_nil_perm _ _ PA), (is_nil_perm _ _ PB), (sort_strs_perm _ _ PA), (sort_strs_perm _ _ PB).
  assert (SA : sort_strs A = A) by (unfold A; apply sort_strs_idem).
  assert (SB : sort_strs B = B) by (unfold B; apply sort_strs_idem).
  rewrite SA, SB.
  destruct A; [congruence|]. destruct B; [congruence|]. cbn [is_nil orb]. rewrite replace_HH_gg. reflexivity.
Qed.

(** non-vacuity: the toy oracle of C09_Str satisfies the side contract for remove_aam=False; "[HH]" is rewritten once *)
Example ex_replace_HH_idem : replace_HH (replace_HH [91; 72; 72; 93; 46; 67]%N) = replace_HH [91; 72; 72; 93; 46; 67]%N.
Proof. reflexivity. Qed.
Example ex_fit : std_fit (fun _ => None) (fun _ => ex_canon) false true [79; 67; 46; 67; 62; 62; 79; 46; 120; 120]%N = SSome [67; 46; 67; 79; 62; 62; 79]%N /\
                 std_fit (fun _ => None) (fun _ => ex_canon) false true [67; 46; 67; 79; 62; 62; 79]%N = SSome [67; 46; 67; 79; 62; 62; 79]%N.
Proof. vm_compute. split; reflexivity. Qed.
(** the side contract on the sides of that standard form: read back as the same fragments (both readers) *)
Example ex_side_contract_instance :
  reader (fun _ => None) ex_canon false (replace_HH (join DOT [[67]; [67; 79]]%N)) = Some [[67]; [67; 79]]%N /\
  reader (fun x => Some x) ex_canon true (replace_HH (join DOT [[79]]%N)) = Some [[79]]%N /\
  reader (fun _ => Some [62]%N) ex_canon true [79]%N = None.
Proof. vm_compute. repeat split. Qed.
