(** C01 — GraphToMol after MolToGraph, without RDKit in between: the RWMol content built from the graph of a molecule is that
    molecule's mapped part.  This reduces the RDKit contract R1 to a statement about RDKit alone ("constructing, sanitising,
    writing and re-reading a molecule from its own atoms and bonds gives it back"). *)
From Coq Require Import List NArith ZArith Bool Lia Arith.
From SK Require Import lib.LGraph lib.C01_GraphLemmas model.C01_Model model.C02_Model model.C01_String
  proof.C01_Proof proof.C01_StringProof proof.C01_StringPipe.
Import ListNotations.
Local Open Scope Z_scope.

Definition watom_of_ratom (a : ratom) : watom := WA (ra_el a) (ra_ch a) (Z.of_N (ra_map a)) (ra_hs a).

Lemma watoms_mapped (l : list ratom) :
  map (fun p : N * gnode => watom_of (snd p)) (flat_map (fun a => if is_mapped a then [(ra_map a, atom_node a)] else []) l) =
  map watom_of_ratom (filter is_mapped l).
Proof.
  induction l as [|a l IH]; [reflexivity|]. cbn [flat_map filter]. destruct (is_mapped a); cbn [app map]; rewrite IH; reflexivity.
Qed.

(** C01_read_write_content *)
Theorem read_write_content (m : rmol) : rmol_ok m -> (forall u v o, In (u, v, o) (mapped_bonds m) -> u <> v) ->
  exists w, graph_to_wmol (graph_of m) = Some w /\
    fst w = map watom_of_ratom (filter is_mapped (rm_atoms m)) /\
    length (snd w) = length (mapped_bonds m) /\
    forall k u v o, nth_error (mapped_bonds m) k = Some (u, v, o) ->
      exists i j a b, nth_error (snd w) k = Some (i, j, bond_code o) /\
        nth_error (filter is_mapped (rm_atoms m)) i = Some a /\ ra_map a = u /\
        nth_error (filter is_mapped (rm_atoms m)) j = Some b /\ ra_map b = v.
Proof.
  intros Ok Hne. pose proof (graph_of_wf m Ok Hne) as W.
  destruct (graph_to_wmol_spec (graph_of m)) as [Tot Spec].
  destruct (graph_to_wmol (graph_of m)) as [w|] eqn:E; [|exfalso; apply (Tot W); reflexivity].
  exists w. split; [reflexivity|]. destruct (Spec w eq_refl) as (A & Lb & B).
  unfold graph_of in A, Lb, B. cbn [gnodes gedges] in A, Lb, B. unfold mapped_nodes in A. rewrite watoms_mapped in A.
  split; [exact A|]. split; [exact Lb|].
  intros k u v o Ek. destruct (B k u v o Ek) as (i & j & Eb & Ni & Nj).
  assert (forall n x, nth_error (node_ids (LG (mapped_nodes m) (mapped_bonds m))) n = Some x ->
            exists a, nth_error (filter is_mapped (rm_atoms m)) n = Some a /\ ra_map a = x) as K.
  { unfold node_ids, mapped_nodes. cbn [gnodes]. generalize (rm_atoms m). intros l. induction l as [|a l IH]; intros n x En.
    - destruct n; discriminate.
    - cbn [flat_map filter] in *. destruct (is_mapped a); [|apply IH; exact En].
      destruct n as [|n]; cbn in En |- *; [inversion En; eauto|apply IH; exact En]. }
  destruct (K i u Ni) as (a & Ea & Ma). destruct (K j v Nj) as (b & Eb' & Mb).
  exists i, j, a, b. auto.
Qed.

Example C01_read_write_content_nonvacuous :
  rmol_ok ex_mr /\ graph_to_wmol (graph_of ex_mr) =
    Some ([WA 70%N 0 1 3; WA 17013%N 0 2 0; WA 82%N (-1) 3 1], [(0%nat, 1%nat, 1%N)]).
Proof. split; [split; cbn; repeat constructor; cbn; intuition discriminate|reflexivity]. Qed.
