(** C04 — _explicit_h does not raise on the ITS glued along the identity from a default-mode rule, provided every stripped
    template hydrogen has no more bonds on the reactant side than on the product side of the template (a boolean of the
    template and the prepared rule; for a hydrogen atom with one bond on each side it is 1 <= 1).  Instance of the criterion of
    proof/C04_Total.v: the transfers are the stripped hydrogens, transfer [h] changes the count of atom [k] by (bonds h-k on the
    reactant side) - (bonds h-k on the product side), all atoms it touches carry its pair id (C03: pair ids are complete). *)
From Coq Require Import List NArith ZArith Bool Arith Lia.
From SK Require Import lib.Tok lib.LGraph model.C03_Model model.C04_Model model.C04_Reactor proof.C03_Proof proof.C03_Glue proof.C03_Spec proof.C03_StripCounts
                       proof.C03_StripExact proof.C03_StripCor proof.C03_PairIdsComplete proof.C03_ExplicitTotal
                       proof.C04_Glue proof.C04_Template proof.C04_Fold proof.C04_Default proof.C04_DefaultProof proof.C04_Total.
Import ListNotations.
Local Open Scope Z_scope.

Lemma sumX_sub {X} (f g : X -> Z) (l : list X) : sumX (fun h => f h - g h) l = sumX f l - sumX g l.
Proof. induction l as [|x r IH]; simpl; [reflexivity|]. rewrite IH. lia. Qed.
Lemma sumX_zero {X} (f : X -> Z) (l : list X) : (forall h, In h l -> f h = 0) -> sumX f l = 0.
Proof. induction l as [|x r IH]; simpl; intros H; [reflexivity|]. rewrite (H x (or_introl eq_refl)), IH; [reflexivity|]. intros h I. apply H. right. exact I. Qed.
Lemma sumX_ext {X} (f g : X -> Z) (l : list X) : (forall h, In h l -> f h = g h) -> sumX f l = sumX g l.
Proof. induction l as [|x r IH]; simpl; intros H; [reflexivity|]. rewrite (H x (or_introl eq_refl)), IH; [reflexivity|]. intros h I. apply H. right. exact I. Qed.

(** sums over two duplicate-free lists, restricted to each other *)
Lemma sumF_mem_single (f : N -> Z) (x : N) (S : list N) : NoDup S ->
  sumF (fun k => if N.eqb k x then f k else 0) S = if mem x S then f x else 0.
Proof.
  induction S as [|y r IH]; intros H; simpl; [reflexivity|]. inversion H as [|? ? Hy Hr]; subst. rewrite (IH Hr).
  rewrite (N.eqb_sym x y). destruct (N.eqb_spec y x) as [->|Ne]; simpl.
  - destruct (mem x r) eqn:E; [apply mem_spec in E; contradiction|lia].
  - reflexivity.
Qed.
Lemma sumF_plus (f g : N -> Z) l : sumF (fun n => f n + g n) l = sumF f l + sumF g l.
Proof. induction l as [|x r IH]; simpl; [reflexivity|]. rewrite IH. lia. Qed.
Lemma double_count (f : N -> Z) (c S : list N) : NoDup c -> NoDup S ->
  sumF (fun n => if mem n S then f n else 0) c = sumF (fun k => if mem k c then f k else 0) S.
Proof.
  intros Hc HS. induction c as [|x r IH]; simpl.
  - symmetry. apply sumF_zero. intros; reflexivity.
  - inversion Hc as [|? ? Hx Hr]; subst. rewrite (IH Hr).
    rewrite <- (sumF_mem_single f x S HS), <- sumF_plus. apply sumF_ext. intros k Ik. cbn [mem existsb]. fold (mem k r).
    destruct (N.eqb_spec k x) as [E|Ne]; simpl.
    + subst k. destruct (mem x r) eqn:E; [apply mem_spec in E; contradiction|lia].
    + destruct (mem k r); lia.
Qed.

(** a bond counted on one side of the template makes the two atoms neighbours in the template *)
Lemma cnt_side_nbr (sn : inode -> nattr) (se : iedge -> Z) (tpl : its) h k :
  cnt (flat_map (fun e : N * N * iedge => let '(u, v, x) := e in if 0 <? se x then [(u, v, se x)] else []) (gedges tpl)) h k <> 0 ->
  h <> k -> In k (nbrs tpl h).
Proof.
  unfold cnt. intros Hc Hne.
  destruct (filter _ _) as [|e0 es] eqn:Ef; [exfalso; apply Hc; reflexivity|].
  assert (I0 : In e0 (e0 :: es)) by (left; reflexivity). rewrite <- Ef in I0. apply filter_In in I0. destruct I0 as [I0 Hp].
  apply in_flat_map in I0. destruct I0 as ([[u v] x] & Ix & I'). destruct (0 <? se x); [|destruct I'].
  destruct I' as [I'|[]]. subst e0. cbn [fst snd] in Hp. unfold nbrs. apply in_flat_map. exists (u, v, x). split; [exact Ix|].
  unfold peq in Hp. apply orb_prop in Hp. destruct Hp as [Hp|Hp]; apply andb_prop in Hp; destruct Hp as [P1 P2]; apply N.eqb_eq in P1; apply N.eqb_eq in P2; subst.
  - rewrite N.eqb_refl. left. reflexivity.
  - destruct (N.eqb_spec k h) as [E|_]; [exfalso; apply Hne; symmetry; exact E|]. rewrite N.eqb_refl. left. reflexivity.
Qed.

Lemma h_nodes_i_spec (g : its) h : NoDup (node_ids g) -> (In h (h_nodes_i g) <-> is_H_i g h = true).
Proof.
  intros Hnd. unfold h_nodes_i, is_H_i. split.
  - intros I. apply in_map_iff in I. destruct I as ([k a] & E & I). simpl in E; subst. apply filter_In in I. destruct I as [I Ha].
    rewrite (label_in g h a Hnd I). exact Ha.
  - destruct (label g h) as [a|] eqn:E; [|discriminate]. intros Ha. apply in_map_iff. exists (h, a). split; [reflexivity|].
    apply filter_In. split; [apply assoc_in; exact E|exact Ha].
Qed.

(** [valence_okb]: model/C04_Reactor.v *)
Section TotalDefault.
  Variables (A B : hostg) (tpl rc : its) (l r : molg) (T : its).
  Hypothesis PW : pair_wf A B.
  Hypothesis D : describes A B tpl.
  Hypothesis OK : default_okb A B tpl = true.
  Hypothesis Es : synrule tpl true = Some (rc, l, r).
  Let A' := h_to_implicit_host A.
  Let B' := h_to_implicit_host B.
  Hypothesis PW' : pair_wf A' B'.
  Hypothesis D' : describes A' B' rc.
  Let m := id_map (node_ids rc).
  Hypothesis Hg : glue A' rc m = Some T.
  Hypothesis VAL : valence_okb tpl rc = true.

  Let EG := gedges (side0 iG eG tpl).
  Let EH := gedges (side0 iH eH tpl).
  Let Hnd0 : nodupb (node_ids tpl) = true := tpl_nodupb A B tpl D.
  Let Hel := tpl_el A B tpl PW D.
  Let Hwr := d_wf _ _ _ D'.
  Let Hwh := pw_A _ _ PW'.
  Let Hm : match_rcb A' rc m = true := fits_match_rc A' B' rc (d_fits _ _ _ D').

  Theorem default_total : explicit_h T <> None.
  Proof.
    pose proof (nodupb_NoDup _ Hnd0) as Hnd.
    destruct (synrule_default_pointwise tpl rc l r Hnd0 Hel Es) as (R & RN & RH & Ri & _ & _ & Nrc & _ & RCa & _).
    assert (AllH : forall h, is_H_i tpl h = true -> In h R).
    { intros h Hh. apply RH. destruct (all_H_strippable A B tpl OK h Hh). auto. }
    assert (RinH : forall h, In h R -> is_H_i tpl h = true) by (intros h I; exact (proj1 (proj1 (RH h) I))).
    assert (RCi : forall k, In k (node_ids rc) <-> In k (node_ids tpl) /\ ~ In k R).
    { intros k. rewrite Ri, filter_In. split; intros [I K]; (split; [exact I|]).
      - apply negb_true_iff in K. intros J. apply mem_spec in J. congruence.
      - apply negb_true_iff. destruct (mem k R) eqn:E; [apply mem_spec in E; contradiction|reflexivity]. }
    (* hydrogen change of a rule atom *)
    assert (Delta : forall k a, label rc k = Some a -> a_hc (iG a) - a_hc (iH a) = sumX (fun h => cnt EG h k - cnt EH h k) R).
    { intros k a Ea. destruct (proj1 (RCi k) (label_some_in rc k a Ea)) as [Ik NR].
      destruct (in_ids_label tpl k Ik) as [a0 Ea0]. destruct (RCa k a0 Ea0 NR) as (a' & Ea' & _ & _ & C1 & C2).
      rewrite Ea in Ea'. inversion Ea'; subst a'.
      assert (NH : N.eqb (a_el (iG a0)) EL_H = false).
      { destruct (N.eqb (a_el (iG a0)) EL_H) eqn:Eh; [|reflexivity]. exfalso. apply NR. apply AllH. unfold is_H_i. rewrite Ea0. exact Eh. }
      rewrite NH in C1, C2. rewrite C1, C2, sumX_sub. reflexivity. }
    (* the glued ITS: matched atoms carry the rule's change and pair ids, the others nothing *)
    assert (Tin : forall k a, label rc k = Some a -> exists hn, label T k = Some (IN hn (NA (a_el hn) (a_aro hn) (a_hc hn - (a_hc (iG a) - a_hc (iH a))) (a_ch (iH a)) (a_nb hn)) 0
                                  (match i_hp a with Some l0 => Some l0 | None => None end))).
    { intros k a Ea. destruct (glued_node A' rc m T Hwr Hm Hg k k a) as (hn & _ & Hl).
      - apply mget_id. exact (label_some_in rc k a Ea).
      - exact (assoc_in k (gnodes rc) Ea).
      - exists hn. exact Hl. }
    assert (Tout : forall n, ~ In n (node_ids rc) -> dl_of T n = 0).
    { intros n NI. unfold dl_of. rewrite (unglued_node A' rc m T Hg n).
      - destruct (label A' n); simpl; [unfold delta_h; simpl; lia|reflexivity].
      - unfold m. rewrite id_map_snd. exact NI. }
    apply (explicit_h_total T N R (fun h n => if mem n (node_ids rc) then cnt EG h n - cnt EH h n else 0)).
    - intros n. destruct (mem n (node_ids rc)) eqn:Em.
      + apply mem_spec in Em. destruct (in_ids_label rc n Em) as [a Ea]. destruct (Tin n a Ea) as (hn & Hl).
        unfold dl_of. rewrite Hl. unfold delta_h. cbn [iG iH a_hc]. rewrite <- (Delta n a Ea). lia.
      + rewrite sumX_zero by (intros; reflexivity). apply Tout. intros I. apply mem_spec in I. congruence.
    - intros h Ih. pose proof (RinH h Ih) as Hh. destruct (all_H_strippable A B tpl OK h Hh) as [S1 S2].
      destruct (synrule_default_pairs_complete tpl rc l r Hnd0 Hel Es h Hh S1 S2) as (pid & Hp). exists pid. intros n Wn.
      destruct (mem n (node_ids rc)) eqn:Em; [|exfalso; apply Wn; reflexivity]. apply mem_spec in Em.
      destruct (proj1 (RCi n) Em) as [In_ NR].
      assert (Hne : h <> n) by (intros ->; contradiction).
      assert (Inb : In n (nbrs tpl h)).
      { destruct (Z.eq_dec (cnt EG h n) 0) as [Z1|Z1].
        - assert (Z2 : cnt EH h n <> 0) by lia. exact (cnt_side_nbr iH eH tpl h n Z2 Hne).
        - exact (cnt_side_nbr iG eG tpl h n Z1 Hne). }
      assert (NHn : is_H_i tpl n = false).
      { destruct (is_H_i tpl n) eqn:E; [|reflexivity]. exfalso. apply NR. apply AllH. exact E. }
      assert (Hasn : has_node tpl n = true).
      { destruct (in_ids_label tpl n In_) as [a0 Ea0]. unfold has_node. rewrite Ea0. reflexivity. }
      destruct (Hp n Inb NHn Hasn) as (An & EAn & PAn). destruct (Tin n An EAn) as (hn & Hl).
      eexists. split; [exact (assoc_in n (gnodes T) Hl)|]. unfold hp_of in *. cbn [i_hp]. destruct (i_hp An); exact PAn.
    - intros h c Ih Hc Hsup.
      rewrite (double_count (fun k => cnt EG h k - cnt EH h k) c (node_ids rc) Hc Nrc).
      unfold valence_okb in VAL. rewrite forallb_forall in VAL.
      specialize (VAL h (proj2 (h_nodes_i_spec tpl h Hnd) (RinH h Ih))). apply Z.leb_le in VAL. fold EG in VAL. fold EH in VAL.
      rewrite (sumF_ext _ (fun k => cnt EG h k - cnt EH h k) (node_ids rc)); [exact VAL|].
      intros k Ik. destruct (mem k c) eqn:E; [reflexivity|].
      destruct (Z.eq_dec (cnt EG h k - cnt EH h k) 0) as [Z0|Z0]; [symmetry; exact Z0|]. exfalso.
      assert (In k c); [|apply mem_spec in H; congruence]. apply Hsup.
      assert (Mk : mem k (node_ids rc) = true) by (apply mem_spec; exact Ik). rewrite Mk. exact Z0.
  Qed.
End TotalDefault.
