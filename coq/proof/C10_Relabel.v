(** C10 — proofs, part 12: nx.relabel_nodes(G, mapping, copy=True) with a mapping that is injective on the nodes of G,
    seen through [label] / [adj]. *)
From Coq Require Import String List NArith ZArith Bool Lia.
From SK Require Import lib.Tok lib.LGraph lib.StrJoin model.C10_Model proof.C10_Views proof.C10_Build proof.C10_Copy.
Import ListNotations.
Local Open Scope Z_scope.

Lemma NoDup_map_inj_in {A B} (f : A -> B) l :
  (forall a b, In a l -> In b l -> f a = f b -> a = b) -> NoDup l -> NoDup (map f l).
Proof.
  induction l as [|x r IH]; intros Hinj Hnd; [constructor|]. inversion Hnd as [|? ? Hnot Hnd']; subst. simpl. constructor.
  - intros Hin. apply in_map_iff in Hin. destruct Hin as (y & E & Hy).
    assert (y = x) as -> by (apply Hinj; [right; exact Hy|left; reflexivity|exact E]). contradiction.
  - apply IH; [|exact Hnd']. intros a b Ha Hb. apply Hinj; right; assumption.
Qed.

Lemma fold_set_label (l : list (N * natt)) : forall (G : gr) k, NoDup (map fst l) ->
  label (fold_left (fun acc p => set_node acc (fst p) (fun _ => snd p)) l G) k =
  match assoc k l with Some a => option_map (fun _ => a) (label G k) | None => label G k end.
Proof.
  induction l as [|[n a0] r IH]; intros G k Hnd; [reflexivity|]. inversion Hnd as [|? ? Hnot Hnd']; subst.
  cbn [fold_left fst snd]. rewrite IH by exact Hnd'. simpl assoc. rewrite label_set_node.
  destruct (N.eqb_spec k n) as [->|Hne].
  - apply assoc_none_iff in Hnot. rewrite Hnot. reflexivity.
  - reflexivity.
Qed.
Lemma fold_set_gedges (l : list (N * natt)) : forall G : gr,
  gedges (fold_left (fun acc p => set_node acc (fst p) (fun _ => snd p)) l G) = gedges G.
Proof. induction l as [|p r IH]; intros G; simpl; [reflexivity|]. rewrite IH. reflexivity. Qed.
Lemma fold_set_gwf (l : list (N * natt)) : forall G : gr, gwf G ->
  gwf (fold_left (fun acc p => set_node acc (fst p) (fun _ => snd p)) l G).
Proof. induction l as [|p r IH]; intros G W; simpl; [exact W|]. apply IH, gwf_set_node, W. Qed.

Section Relabel.
Variable f : N -> N.
Variable ids : list N.
Hypothesis ids_nd : NoDup ids.
Hypothesis finj : forall a b, In a ids -> In b ids -> f a = f b -> a = b.

(** inverse of f on ids *)
Definition finv (k : N) : option N := assoc k (map (fun n => (f n, n)) ids).
Lemma finv_keys : NoDup (map fst (map (fun n => (f n, n)) ids)).
Proof. rewrite map_map. simpl. apply NoDup_map_inj_in; assumption. Qed.
Lemma finv_f n : In n ids -> finv (f n) = Some n.
Proof.
  intros Hn. unfold finv. apply assoc_nodup_in; [exact finv_keys|]. apply in_map_iff. exists n. auto.
Qed.
Lemma finv_some k n : finv k = Some n -> k = f n /\ In n ids.
Proof.
  unfold finv. intros H. apply assoc_in in H. apply in_map_iff in H. destruct H as (n' & E & Hn). inversion E; subst. auto.
Qed.

Variable g : gr.
Hypothesis W : gwf g.
Hypothesis g_ids : node_ids g = ids.

Definition rl_nodes : list (N * natt) := map (fun p : N * natt => (f (fst p), snd p)) (gnodes g).
Lemma rl_keys : NoDup (map fst rl_nodes).
Proof.
  unfold rl_nodes. rewrite map_map. simpl. rewrite <- (map_map fst f). fold (node_ids g). rewrite g_ids.
  apply NoDup_map_inj_in; assumption.
Qed.
Lemma rl_assoc k : assoc k rl_nodes = match finv k with Some n => label g n | None => None end.
Proof.
  destruct (assoc k rl_nodes) as [a|] eqn:E.
  - apply assoc_in in E. unfold rl_nodes in E. apply in_map_iff in E. destruct E as ([n a'] & E & Hin). simpl in E.
    inversion E; subst. assert (In n ids) as Hn by (rewrite <- g_ids; apply (in_map fst _ _ Hin)).
    rewrite (finv_f n Hn). symmetry. apply assoc_nodup_in; [apply (gwf_nd g W)|exact Hin].
  - destruct (finv k) as [n|] eqn:F; [|reflexivity]. apply finv_some in F. destruct F as [-> Hn].
    destruct (label g n) as [a|] eqn:L; [|reflexivity]. exfalso. apply assoc_in in L.
    apply assoc_none_iff in E. apply E. unfold rl_nodes. rewrite map_map. simpl. apply in_map_iff. exists (n, a). auto.
Qed.

Definition rl_d (k l : N) : option eatt :=
  match finv k, finv l with Some u, Some v => adj g u v | _, _ => None end.
Lemma rl_d_sym k l : rl_d k l = rl_d l k.
Proof. unfold rl_d. destruct (finv k), (finv l); try reflexivity. apply adj_sym. Qed.

Definition rl_g2 : gr :=
  fold_left (fun acc p => set_node acc (fst p) (fun _ => snd p)) rl_nodes
            (fold_left (nstep (fun _ => na_empty)) rl_nodes g_empty).
Lemma rl_g2_label k : label rl_g2 k = assoc k rl_nodes.
Proof.
  unfold rl_g2. rewrite fold_set_label by exact rl_keys. rewrite fold_nstep_label by exact rl_keys.
  destruct (assoc k rl_nodes); reflexivity.
Qed.
Lemma rl_g2_gedges : gedges rl_g2 = [].
Proof. unfold rl_g2. rewrite fold_set_gedges, fold_nstep_gedges. reflexivity. Qed.
Lemma rl_g2_gwf : gwf rl_g2.
Proof. unfold rl_g2. apply fold_set_gwf, fold_nstep_gwf, gwf_empty. Qed.

Definition rl_pairs : list (N * N) := map (fun e : N * N * eatt => (f (fst (fst e)), f (snd (fst e)))) (edges_iter g).

Lemma edges_iter_ends a b x : In (a, b, x) (edges_iter g) -> In a ids /\ In b ids.
Proof.
  intros H. apply in_edges_from in H. rewrite <- g_ids.
  destruct H as [H|H]; destruct (gwf_cl g W _ _ _ H) as [H1 H2]; apply has_node_in in H1, H2; auto.
Qed.

Lemma nx_relabel_fold (m : list (N * N)) : (forall n, mapget m n = f n) ->
  nx_relabel m g = fold_left (estep rl_d) rl_pairs rl_g2.
Proof.
  intros Hm. unfold nx_relabel, rl_pairs. rewrite fold_left_map'.
  assert (fold_left (fun acc (p : N * natt) => add_node acc (mapget m (fst p)) na_empty) (gnodes g) g_empty
          = fold_left (nstep (fun _ => na_empty)) rl_nodes g_empty) as E1.
  { unfold rl_nodes. rewrite fold_left_map'. apply fold_left_ext_in. intros acc p _. unfold nstep. simpl. rewrite Hm. reflexivity. }
  assert (forall G : gr, fold_left (fun acc (p : N * natt) => set_node acc (mapget m (fst p)) (fun _ => snd p)) (gnodes g) G
          = fold_left (fun acc p => set_node acc (fst p) (fun _ => snd p)) rl_nodes G) as E2.
  { intros G. unfold rl_nodes. rewrite fold_left_map'. apply fold_left_ext_in. intros acc p _. simpl. rewrite Hm. reflexivity. }
  rewrite E2, E1. fold rl_g2.
  apply fold_left_ext_in. intros acc [[a b] x] Hin. unfold estep. simpl. rewrite !Hm.
  destruct (edges_iter_ends a b x Hin) as [Ha Hb]. unfold rl_d. rewrite (finv_f a Ha), (finv_f b Hb).
  rewrite (edges_iter_data g a b x W Hin). reflexivity.
Qed.

Variable m : list (N * N).
Hypothesis Hm : forall n, mapget m n = f n.
Let R := nx_relabel m g.

Lemma relabel_gwf : gwf R.
Proof. unfold R. rewrite (nx_relabel_fold m Hm). apply fold_estep_gwf, rl_g2_gwf. Qed.

Lemma relabel_label k : label R k = match finv k with Some n => label g n | None => None end.
Proof.
  unfold R. rewrite (nx_relabel_fold m Hm). unfold label at 1. rewrite fold_estep_node_ids.
  - fold (label rl_g2 k). rewrite rl_g2_label. apply rl_assoc.
  - intros e He. unfold rl_pairs in He. apply in_map_iff in He. destruct He as ([[a b] x] & <- & Hin). simpl.
    destruct (edges_iter_ends a b x Hin) as [Ha Hb]. unfold has_node. rewrite !rl_g2_label, !rl_assoc.
    rewrite (finv_f a Ha), (finv_f b Hb).
    rewrite <- g_ids in Ha, Hb. apply has_node_in, has_node_label in Ha. apply has_node_in, has_node_label in Hb.
    destruct Ha as [x1 ->]. destruct Hb as [x2 ->]. auto.
Qed.

Lemma relabel_adj k l : adj R k l = rl_d k l.
Proof.
  unfold R. rewrite (nx_relabel_fold m Hm). rewrite (fold_estep_adj rl_d rl_d_sym).
  - unfold adj. rewrite rl_g2_gedges. simpl. destruct (pmatch k l rl_pairs) eqn:PM; [reflexivity|].
    destruct (rl_d k l) as [x|] eqn:D; [|reflexivity]. exfalso. unfold rl_d in D.
    destruct (finv k) as [u|] eqn:Fk; [|discriminate]. destruct (finv l) as [v|] eqn:Fl; [|discriminate].
    apply finv_some in Fk, Fl. destruct Fk as [-> Hu]. destruct Fl as [-> Hv].
    assert (has_pair u v (edges_iter g) = true) as HP by (rewrite has_pair_edges_iter, D by exact W; reflexivity).
    unfold has_pair in HP. apply existsb_exists in HP. destruct HP as ([[a b] x'] & Hin & P). simpl in P.
    assert (pmatch (f u) (f v) rl_pairs = true); [|congruence].
    unfold pmatch. apply existsb_exists. exists (f a, f b). split.
    + unfold rl_pairs. apply in_map_iff. exists (a, b, x'). auto.
    + simpl. apply pair_eqb_spec in P. apply pair_eqb_spec. destruct P as [[-> ->]|[-> ->]]; auto.
  - left. unfold adj. rewrite rl_g2_gedges. reflexivity.
Qed.
End Relabel.

(** ** the renumbering NXToGML.transform uses: old id -> position (from 1) in the node order of L *)
Lemma enum_from_assoc l : forall k n, In n l -> exists j, assoc n (enum_from k l) = Some j /\ (k <= j)%N.
Proof.
  induction l as [|x r IH]; intros k n Hn; [destruct Hn|]. simpl.
  destruct (N.eqb_spec n x) as [->|Hne]; [exists k; split; [reflexivity|lia]|].
  destruct Hn as [->|Hn]; [congruence|]. destruct (IH (N.succ k) n Hn) as (j & E & Hj). exists j. split; [exact E|lia].
Qed.
Lemma enum_from_inj l : forall k a b, NoDup l -> In a l -> In b l ->
  mapget (enum_from k l) a = mapget (enum_from k l) b -> a = b.
Proof.
  induction l as [|x r IH]; intros k a b Hnd Ha Hb; [destruct Ha|]. inversion Hnd as [|? ? Hnot Hnd']; subst.
  unfold mapget. simpl. destruct (N.eqb_spec a x) as [->|Hax]; destruct (N.eqb_spec b x) as [->|Hbx]; try reflexivity.
  - destruct Hb as [->|Hb]; [congruence|]. destruct (enum_from_assoc r (N.succ k) b Hb) as (j & E & Hj). rewrite E. intros ->. lia.
  - destruct Ha as [->|Ha]; [congruence|]. destruct (enum_from_assoc r (N.succ k) a Ha) as (j & E & Hj). rewrite E. intros <-. lia.
  - destruct Ha as [->|Ha]; [congruence|]. destruct Hb as [->|Hb]; [congruence|]. apply (IH (N.succ k) a b Hnd' Ha Hb).
Qed.
