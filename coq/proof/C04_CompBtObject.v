(** C04 — strategies comp / bt through the reactor OBJECT in implicit mode: from "some kept mapping glues to the reaction"
    (proof/C04_CompBt.v) to "its_list of a fresh reactor contains it" (no _explicit_h stage in implicit mode). *)
From Coq Require Import List NArith ZArith Bool Arith Lia.
From Coq Require Import Permutation SetoidList.
From SK Require Import lib.Tok lib.LGraph lib.Mono model.C06_Model lib.C06_Spec proof.C06_All proof.C06_Main model.C11_Model proof.C11_Aut proof.C11_Dedup proof.C11_Main.
From SK Require Import model.C03_Model model.C04_Model model.C04_Reactor proof.C03_Proof proof.C04_Glue proof.C04_Template proof.C04_Proof
                       proof.C03_Glue proof.C03_Backward proof.C04_Any proof.C04_Prune proof.C04_Engine proof.C04_Object proof.C04_Chain proof.C04_DefaultChain proof.C04_CompBt.
Import ListNotations.
Local Open Scope Z_scope.

(** a reactor without _explicit_h stage and without explicit pattern hydrogens: its_list is the list of glued ITS graphs *)
Lemma its_of_mappings (engine : sarg -> option N -> bool -> C06_Model.graph -> C06_Model.graph -> outcome)
    (rematch : nat -> hostg -> molg -> list C03_Model.mapping) (o : ropts) (host : hostg) (rc : its) (l r : molg)
    (ms : list C03_Model.mapping) (y : C03_Model.mapping) (T : its) :
  o_explicit_h o = false -> has_XH l = false ->
  compute_mappings engine o host (rc, l, r) = Some ms -> In y ms -> glue host rc y = Some T ->
  exists gs, fst (read_its engine rematch o host (rc, l, r) fresh) = Some gs /\ In T gs.
Proof.
  intros Ho Hf Em Iy Eg. exists (concat (mapi (glue_graph rematch host (rc, l, r) false) ms)). split.
  - unfold read_its, read_mappings. cbn [fresh s_its s_maps s_flag s_smarts]. rewrite Em. cbn [fst snd s_flag orb]. rewrite Hf, Ho. reflexivity.
  - apply (in_concat_mapi (glue_graph rematch host (rc, l, r) false) ms y T); [|exact Iy].
    intros i. unfold glue_graph. cbn [fst snd]. simpl. rewrite Eg. left. reflexivity.
Qed.

Section OwnImplicitObject.
  Variable enum : list N -> list N -> list C06_Model.mapping.
  Variable rematch : nat -> hostg -> molg -> list C03_Model.mapping.
  Variables (core invert : bool) (G H : hostg).
  Hypothesis W : pair_wfb G H = true.
  Hypothesis NH : no_explicit_H G = true.
  Hypothesis CC : core = true -> centre_carries (its_construct G H) = true.
  Let A := if invert then H else G.
  Let B := if invert then G else H.
  Let tpl := template core invert G H.
  Let l := dec_side iG eG tpl.
  Let r := dec_side iH eH tpl.

  (** strategy code [s] = 1 (comp) or 2 (bt), threshold [T]: the reactor for the own template in implicit mode *)
  Definition own_reactor_opts (s T : N) : ropts := own_opts invert false (SMember s) (Some T) false.

  Theorem own_comp_implicit_object :
    forallb (fun p => 0 <=? m_hc (snd p)) (gnodes l) = true ->
    oracle_ok enum (tr_host A) (tr_pat l) ->
    (0 <? length (comps (tr_pat l)))%nat && (length (comps (tr_pat l)) <? length (comps (tr_host A)))%nat = false ->
    ((length (comps (tr_host A)) <? length (comps (tr_pat l)))%nat = true \/ id_separatingb (tr_host A) (tr_pat l) = true) ->
    exists T0 : N, forall T : N, (T0 <= T)%N ->
      exists gs Tt, fst (read_its (api_engine enum) rematch (own_reactor_opts 1 T) A (tpl, l, r) fresh) = Some gs /\
                    In Tt gs /\ regen_exact Tt A B = true.
  Proof.
    intros Hnn Hor NG Hc. destruct (own_comp_implicit enum core invert G H W NH CC Hnn Hor NG Hc) as (T0 & HT0).
    exists T0. intros T HT. destruct (HT0 T (own_reactor_opts 1 T) HT eq_refl eq_refl eq_refl) as (ms & y & Tt & Em & Iy & Eg & Rg).
    destruct (its_of_mappings (api_engine enum) rematch (own_reactor_opts 1 T) A tpl l r ms y Tt eq_refl (own_no_XH core invert G H W NH) Em Iy Eg) as (gs & Egs & It).
    exists gs, Tt. auto.
  Qed.
  Theorem own_bt_implicit_object :
    forallb (fun p => 0 <=? m_hc (snd p)) (gnodes l) = true ->
    oracle_ok enum (tr_host A) (tr_pat l) ->
    ((0 <? length (comps (tr_pat l)))%nat && (length (comps (tr_pat l)) <? length (comps (tr_host A)))%nat = true \/
     (length (comps (tr_host A)) <? length (comps (tr_pat l)))%nat = true \/ id_separatingb (tr_host A) (tr_pat l) = true) ->
    exists T0 : N, forall T : N, (T0 <= T)%N ->
      exists gs Tt, fst (read_its (api_engine enum) rematch (own_reactor_opts 2 T) A (tpl, l, r) fresh) = Some gs /\
                    In Tt gs /\ regen_exact Tt A B = true.
  Proof.
    intros Hnn Hor Hc. destruct (own_bt_implicit enum core invert G H W NH CC Hnn Hor Hc) as (T0 & HT0).
    exists T0. intros T HT. destruct (HT0 T (own_reactor_opts 2 T) HT eq_refl eq_refl eq_refl) as (ms & y & Tt & Em & Iy & Eg & Rg).
    destruct (its_of_mappings (api_engine enum) rematch (own_reactor_opts 2 T) A tpl l r ms y Tt eq_refl (own_no_XH core invert G H W NH) Em Iy Eg) as (gs & Egs & It).
    exists gs, Tt. auto.
  Qed.
End OwnImplicitObject.

(** * the same theorems about any rule, also exporting that every kept mapping is a monomorphism (needed for the _explicit_h stage) *)
Section CompBtSound.
  Variable enum : list N -> list N -> list C06_Model.mapping.
  Variables (A B : hostg) (rc : its) (l r : molg).
  Hypothesis PW : pair_wf A B.
  Hypothesis D : describes A B rc.
  Hypothesis LO : left_of rc l.
  Hypothesis Hf : has_XH l = false.
  Hypothesis Hnn : forallb (fun p => 0 <=? m_hc (snd p)) (gnodes l) = true.
  Let Hh := tr_host A.
  Let Pp := tr_pat l.
  Hypothesis HwfH : gwf Hh.
  Hypothesis HwfP : gwf Pp.
  (** C06's contract for every VF2 call the component-aware strategy can make (whole graphs, pattern component x host component) *)
  Hypothesis Hor : oracle_ok enum Hh Pp.
  Let hcc := length (comps Hh).
  Let pcc := length (comps Pp).
  Let idm := id_map (node_ids l).

  Lemma id_mono' : is_mono Hh Pp idm.
  Proof.
    assert (Nl : NoDup (node_ids l)) by (rewrite (lo_ids _ _ LO); exact (wf_rc_nodup rc (d_wf _ _ _ D))).
    apply (match_is_mono A l idm Nl).
    - intros n a I. rewrite forallb_forall in Hnn. specialize (Hnn _ I). simpl in Hnn. apply Z.leb_le. exact Hnn.
    - exact (any_identity_match A B rc l D LO).
  Qed.

  (** what the theorems conclude, for the options [o]: the engine answers, and among the kept mappings there is one whose
      glued ITS decomposes to the pair *)
  Definition regenerates_sound (o : ropts) : Prop :=
    exists ms y T, compute_mappings (api_engine enum) o A (rc, l, r) = Some ms /\ (forall m, In m ms -> is_mono Hh Pp m) /\ In y ms /\
                   glue A rc y = Some T /\ regen_exact T A B = true.

  Lemma regen_of_raw' (o : ropts) (raw : list C03_Model.mapping) :
    api_engine enum (o_strategy o) (o_thr o) (o_pref o) Hh Pp = Result raw ->
    (forall m, In m raw -> is_mono Hh Pp m) -> (exists m0, In m0 raw /\ Permutation idm m0) -> regenerates_sound o.
  Proof.
    intros Er Hs Hi. destruct (raw_chain A B rc l raw PW D LO Hs Hi) as (y & T & Iy & ET & ER).
    exists (C11_Model.prune (fun m : C03_Model.mapping => m) (rule_graph rc) raw), y, T.
    split; [|split; [intros m0 I0; apply Hs; exact (subseq_in _ _ m0 (prune_subseq C03_Model.mapping (fun m => m) (rule_graph rc) raw) I0)|auto]]. unfold compute_mappings. cbn [fst snd]. unfold pattern_of. rewrite Hf. fold Hh. fold Pp. rewrite Er. reflexivity.
  Qed.

  (** strategy comp (strict_cc_count at its default): outside the guard region, if the substrate has fewer components than
      the pattern or the identity separates the pattern components *)
  Theorem comp_regenerates_sound :
    (0 <? pcc)%nat && (pcc <? hcc)%nat = false ->
    ((hcc <? pcc)%nat = true \/ separating Hh Pp idm) ->
    exists T0 : N, forall (T : N) (o : ropts), (T0 <= T)%N ->
      o_strategy o = SMember 1%N -> o_thr o = Some T -> o_pref o = false -> regenerates_sound o.
  Proof.
    intros NG Hcase. destruct (comp_spec enum true Hh Pp HwfH HwfP Hor) as (T0 & HT0). exists T0. intros T o HT Es Et Ep.
    specialize (HT0 T HT). cbv zeta in HT0. fold hcc in HT0. fold pcc in HT0. destruct HT0 as [_ HT0].
    rewrite NG in HT0. cbn [andb] in HT0.
    apply (regen_of_raw' o (C06_Model.find enum (Cfg 1 0 T true false) Hh Pp)).
    - rewrite Es, Et, Ep. reflexivity.
    - destruct (hcc <? pcc)%nat; [exact (proj1 HT0)|]. intros m I. exact (proj1 (proj1 HT0 m I)).
    - destruct (hcc <? pcc)%nat eqn:E.
      + exact (proj2 HT0 idm id_mono').
      + destruct Hcase as [Hc|Hc]; [discriminate|]. exact (proj2 HT0 idm id_mono' Hc).
  Qed.

  (** strategy bt: additionally inside the guard region (comp returns nothing there and bt falls back to the exhaustive strategy) *)
  Theorem bt_regenerates_sound :
    ((0 <? pcc)%nat && (pcc <? hcc)%nat = true \/ (hcc <? pcc)%nat = true \/ separating Hh Pp idm) ->
    exists T0 : N, forall (T : N) (o : ropts), (T0 <= T)%N ->
      o_strategy o = SMember 2%N -> o_thr o = Some T -> o_pref o = false -> regenerates_sound o.
  Proof.
    intros Hcase.
    destruct (comp_spec enum true Hh Pp HwfH HwfP Hor) as (T1 & HT1).
    destruct (bt_spec_unlimited enum true Hh Pp) as (T2 & HT2).
    exists (N.max (N.max T1 T2) (lenN (enum (node_ids Hh) (node_ids Pp)))). intros T o HT Es Et Ep.
    assert (H1 : (T1 <= T)%N) by lia. assert (H2 : (T2 <= T)%N) by lia. assert (H3 : (lenN (enum (node_ids Hh) (node_ids Pp)) <= T)%N) by lia.
    specialize (HT1 T H1). specialize (HT2 T H2). cbv zeta in HT1. fold hcc in HT1. fold pcc in HT1. destruct HT1 as [_ HT1].
    destruct (all_exact enum T true Hh Pp (proj1 Hor) H3) as (As & Ac & _).
    apply (regen_of_raw' o (C06_Model.find enum (Cfg 2 0 T true false) Hh Pp)).
    - rewrite Es, Et, Ep. reflexivity.
    - rewrite HT2. destruct ((0 <? pcc)%nat && (pcc <? hcc)%nat) eqn:EG; cbn [andb] in HT1.
      + rewrite HT1. exact As.
      + destruct (C06_Model.find enum (Cfg 1 0 T true false) Hh Pp) as [|x0 xs] eqn:E1; [exact As|].
        destruct (hcc <? pcc)%nat; [exact (proj1 HT1)|]. intros m I. exact (proj1 (proj1 HT1 m I)).
    - rewrite HT2. destruct ((0 <? pcc)%nat && (pcc <? hcc)%nat) eqn:EG; cbn [andb] in HT1.
      + rewrite HT1. exact (Ac idm id_mono').
      + assert (Hin : exists m0, In m0 (C06_Model.find enum (Cfg 1 0 T true false) Hh Pp) /\ Permutation idm m0).
        { destruct (hcc <? pcc)%nat eqn:E.
          - exact (proj2 HT1 idm id_mono').
          - destruct Hcase as [Hc|[Hc|Hc]]; [discriminate|discriminate|]. exact (proj2 HT1 idm id_mono' Hc). }
        destruct (C06_Model.find enum (Cfg 1 0 T true false) Hh Pp) as [|x0 xs] eqn:E1; [destruct Hin as (m0 & [] & _)|exact Hin].
  Qed.
End CompBtSound.
