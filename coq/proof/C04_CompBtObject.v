(** C04 — strategies comp / bt through the reactor OBJECT in implicit mode: from "some kept mapping glues to the reaction"
    (proof/C04_CompBt.v) to "its_list of a fresh reactor contains it" (no _explicit_h stage in implicit mode). *)
From Coq Require Import List NArith ZArith Bool Arith Lia.
From Coq Require Import Permutation SetoidList.
From SK Require Import lib.Tok lib.LGraph lib.Mono model.C06_Model lib.C06_Spec proof.C06_All proof.C06_Comp proof.C06_Main model.C11_Model proof.C11_Aut proof.C11_Dedup proof.C11_Main.
From SK Require Import model.C03_Model model.C04_Model model.C04_Reactor proof.C03_Proof proof.C04_Glue proof.C04_Template proof.C04_Proof
                       proof.C03_Glue proof.C03_Backward proof.C04_Any proof.C04_Prune proof.C04_Engine proof.C04_Object proof.C04_Chain proof.C04_DefaultChain proof.C04_CompBt.
Import ListNotations.
Local Open Scope Z_scope.

(** a reactor without _explicit_h stage and without explicit pattern hydrogens: its_list is the list of glued ITS graphs *)
Lemma its_of_mappings (engine : sarg -> option N -> bool -> C06_Model.graph -> C06_Model.graph -> outcome)
    (rematch : nat -> hostg -> molg -> list C03_Model.mapping) (o : ropts) (host : hostg) (rc : its) (l r : molg)
    (ms : list C03_Model.mapping) (y : C03_Model.mapping) (T : its) :
  o_explicit_h o = false -> has_XH l = false ->
  compute_mappings engine o host (rc, l, r) = Some ms -> In y ms -> glue host rc y = Some T ->
  exists gs, fst (read_its engine rematch o host (rc, l, r) fresh) = Some gs /\ In T gs.
Proof.
  intros Ho Hf Em Iy Eg. exists (concat (mapi (glue_graph rematch host (rc, l, r) false) ms)). split.
  - unfold read_its, read_mappings. cbn [fresh s_its s_maps s_flag s_smarts]. rewrite Em. cbn [fst snd s_flag orb]. rewrite Hf, Ho. reflexivity.
  - apply (in_concat_mapi (glue_graph rematch host (rc, l, r) false) ms y T); [|exact Iy].
    intros i. unfold glue_graph. cbn [fst snd]. simpl. rewrite Eg. left. reflexivity.
Qed.

Section OwnImplicitObject.
  Variable enum : list N -> list N -> list C06_Model.mapping.
  Variable rematch : nat -> hostg -> molg -> list C03_Model.mapping.
  Variables (core invert : bool) (G H : hostg).
  Hypothesis W : pair_wfb G H = true.
  Hypothesis NH : no_explicit_H G = true.
  Hypothesis CC : core = true -> centre_carries (its_construct G H) = true.
  Let A := if invert then H else G.
  Let B := if invert then G else H.
  Let tpl := template core invert G H.
  Let l := dec_side iG eG tpl.
  Let r := dec_side iH eH tpl.

  (** strategy code [s] = 1 (comp) or 2 (bt), threshold [T]: the reactor for the own template in implicit mode *)
  Definition own_reactor_opts (s T : N) : ropts := own_opts invert false (SMember s) (Some T) false.

  Theorem own_comp_implicit_object :
    forallb (fun p => 0 <=? m_hc (snd p)) (gnodes l) = true ->
    oracle_ok enum (tr_host A) (tr_pat l) ->
    (0 <? length (comps (tr_pat l)))%nat && (length (comps (tr_pat l)) <? length (comps (tr_host A)))%nat = false ->
    ((length (comps (tr_host A)) <? length (comps (tr_pat l)))%nat = true \/ id_separatingb (tr_host A) (tr_pat l) = true) ->
    exists T0 : N, forall T : N, (T0 <= T)%N ->
      exists gs Tt, fst (read_its (api_engine enum) rematch (own_reactor_opts 1 T) A (tpl, l, r) fresh) = Some gs /\
                    In Tt gs /\ regen_exact Tt A B = true.
  Proof.
    intros Hnn Hor NG Hc. destruct (own_comp_implicit enum core invert G H W NH CC Hnn Hor NG Hc) as (T0 & HT0).
    exists T0. intros T HT. destruct (HT0 T (own_reactor_opts 1 T) HT eq_refl eq_refl eq_refl) as (ms & y & Tt & Em & Iy & Eg & Rg).
    destruct (its_of_mappings (api_engine enum) rematch (own_reactor_opts 1 T) A tpl l r ms y Tt eq_refl (own_no_XH core invert G H W NH) Em Iy Eg) as (gs & Egs & It).
    exists gs, Tt. auto.
  Qed.
  Theorem own_bt_implicit_object :
    forallb (fun p => 0 <=? m_hc (snd p)) (gnodes l) = true ->
    oracle_ok enum (tr_host A) (tr_pat l) ->
    ((0 <? length (comps (tr_pat l)))%nat && (length (comps (tr_pat l)) <? length (comps (tr_host A)))%nat = true \/
     (length (comps (tr_host A)) <? length (comps (tr_pat l)))%nat = true \/ id_separatingb (tr_host A) (tr_pat l) = true) ->
    exists T0 : N, forall T : N, (T0 <= T)%N ->
      exists gs Tt, fst (read_its (api_engine enum) rematch (own_reactor_opts 2 T) A (tpl, l, r) fresh) = Some gs /\
                    In Tt gs /\ regen_exact Tt A B = true.
  Proof.
    intros Hnn Hor Hc. destruct (own_bt_implicit enum core invert G H W NH CC Hnn Hor Hc) as (T0 & HT0).
    exists T0. intros T HT. destruct (HT0 T (own_reactor_opts 2 T) HT eq_refl eq_refl eq_refl) as (ms & y & Tt & Em & Iy & Eg & Rg).
    destruct (its_of_mappings (api_engine enum) rematch (own_reactor_opts 2 T) A tpl l r ms y Tt eq_refl (own_no_XH core invert G H W NH) Em Iy Eg) as (gs & Egs & It).
    exists gs, Tt. auto.
  Qed.
End OwnImplicitObject.

(** * the same theorems about any rule, also exporting that every kept mapping is a monomorphism (needed for the _explicit_h stage) *)
Section CompBtSound.
  Variable enum : list N -> list N -> list C06_Model.mapping.
  Variables (A B : hostg) (rc : its) (l r : molg).
  Hypothesis PW : pair_wf A B.
  Hypothesis D : describes A B rc.
  Hypothesis LO : left_of rc l.
  Hypothesis Hf : has_XH l = false.
  Hypothesis Hnn : forallb (fun p => 0 <=? m_hc (snd p)) (gnodes l) = true.
  Let Hh := tr_host A.
  Let Pp := tr_pat l.
  Hypothesis HwfH : gwf Hh.
  Hypothesis HwfP : gwf Pp.
  (** C06's contract for every VF2 call the component-aware strategy can make (whole graphs, pattern component x host component) *)
  Hypothesis Hor : oracle_ok enum Hh Pp.
  Let hcc := length (comps Hh).
  Let pcc := length (comps Pp).
  Let idm := id_map (node_ids l).

  Lemma id_mono' : is_mono Hh Pp idm.
  Proof.
    assert (Nl : NoDup (node_ids l)) by (rewrite (lo_ids _ _ LO); exact (wf_rc_nodup rc (d_wf _ _ _ D))).
    apply (match_is_mono A l idm Nl).
    - intros n a I. rewrite forallb_forall in Hnn. specialize (Hnn _ I). simpl in Hnn. apply Z.leb_le. exact Hnn.
    - exact (any_identity_match A B rc l D LO).
  Qed.

  (** what the theorems conclude, for the options [o]: the engine answers, and among the kept mappings there is one whose
      glued ITS decomposes to the pair *)
  Definition regenerates_sound (o : ropts) : Prop :=
    exists ms y T, compute_mappings (api_engine enum) o A (rc, l, r) = Some ms /\ (forall m, In m ms -> is_mono Hh Pp m) /\ In y ms /\
                   glue A rc y = Some T /\ regen_exact T A B = true.

  Lemma regen_of_raw' (o : ropts) (raw : list C03_Model.mapping) :
    api_engine enum (o_strategy o) (o_thr o) (o_pref o) Hh Pp = Result raw ->
    (forall m, In m raw -> is_mono Hh Pp m) -> (exists m0, In m0 raw /\ Permutation idm m0) -> regenerates_sound o.
  Proof.
    intros Er Hs Hi. destruct (raw_chain A B rc l raw PW D LO Hs Hi) as (y & T & Iy & ET & ER).
    exists (C11_Model.prune (fun m : C03_Model.mapping => m) (rule_graph rc) raw), y, T.
    split; [|split; [intros m0 I0; apply Hs; exact (subseq_in _ _ m0 (prune_subseq C03_Model.mapping (fun m => m) (rule_graph rc) raw) I0)|auto]]. unfold compute_mappings. cbn [fst snd]. unfold pattern_of. rewrite Hf. fold Hh. fold Pp. rewrite Er. reflexivity.
  Qed.

  (** strategy comp (strict_cc_count at its default): outside the guard region, if the substrate has fewer components than
      the pattern or the identity separates the pattern components *)
  Theorem comp_regenerates_sound :
    (0 <? pcc)%nat && (pcc <? hcc)%nat = false ->
    ((hcc <? pcc)%nat = true \/ separating Hh Pp idm) ->
    exists T0 : N, forall (T : N) (o : ropts), (T0 <= T)%N ->
      o_strategy o = SMember 1%N -> o_thr o = Some T -> o_pref o = false -> regenerates_sound o.
  Proof.
    intros NG Hcase. destruct (comp_spec enum true Hh Pp HwfH HwfP Hor) as (T0 & HT0). exists T0. intros T o HT Es Et Ep.
    specialize (HT0 T HT). cbv zeta in HT0. fold hcc in HT0. fold pcc in HT0. destruct HT0 as [_ HT0].
    rewrite NG in HT0. cbn [andb] in HT0.
    apply (regen_of_raw' o (C06_Model.find enum (Cfg 1 0 T true false) Hh Pp)).
    - rewrite Es, Et, Ep. reflexivity.
    - destruct (hcc <? pcc)%nat; [exact (proj1 HT0)|]. intros m I. exact (proj1 (proj1 HT0 m I)).
    - destruct (hcc <? pcc)%nat eqn:E.
      + exact (proj2 HT0 idm id_mono').
      + destruct Hcase as [Hc|Hc]; [discriminate|]. exact (proj2 HT0 idm id_mono' Hc).
  Qed.

  (** strategy bt: additionally inside the guard region (comp returns nothing there and bt falls back to the exhaustive strategy) *)
  Theorem bt_regenerates_sound :
    ((0 <? pcc)%nat && (pcc <? hcc)%nat = true \/ (hcc <? pcc)%nat = true \/ separating Hh Pp idm) ->
    exists T0 : N, forall (T : N) (o : ropts), (T0 <= T)%N ->
      o_strategy o = SMember 2%N -> o_thr o = Some T -> o_pref o = false -> regenerates_sound o.
  Proof.
    intros Hcase.
    destruct (comp_spec enum true Hh Pp HwfH HwfP Hor) as (T1 & HT1).
    destruct (bt_spec_unlimited enum true Hh Pp) as (T2 & HT2).
    exists (N.max (N.max T1 T2) (lenN (enum (node_ids Hh) (node_ids Pp)))). intros T o HT Es Et Ep.
    assert (H1 : (T1 <= T)%N) by lia. assert (H2 : (T2 <= T)%N) by lia. assert (H3 : (lenN (enum (node_ids Hh) (node_ids Pp)) <= T)%N) by lia.
    specialize (HT1 T H1). specialize (HT2 T H2). cbv zeta in HT1. fold hcc in HT1. fold pcc in HT1. destruct HT1 as [_ HT1].
    destruct (all_exact enum T true Hh Pp (proj1 Hor) H3) as (As & Ac & _).
    apply (regen_of_raw' o (C06_Model.find enum (Cfg 2 0 T true false) Hh Pp)).
    - rewrite Es, Et, Ep. reflexivity.
    - rewrite HT2. destruct ((0 <? pcc)%nat && (pcc <? hcc)%nat) eqn:EG; cbn [andb] in HT1.
      + rewrite HT1. exact As.
      + destruct (C06_Model.find enum (Cfg 1 0 T true false) Hh Pp) as [|x0 xs] eqn:E1; [exact As|].
        destruct (hcc <? pcc)%nat; [exact (proj1 HT1)|]. intros m I. exact (proj1 (proj1 HT1 m I)).
    - rewrite HT2. destruct ((0 <? pcc)%nat && (pcc <? hcc)%nat) eqn:EG; cbn [andb] in HT1.
      + rewrite HT1. exact (Ac idm id_mono').
      + assert (Hin : exists m0, In m0 (C06_Model.find enum (Cfg 1 0 T true false) Hh Pp) /\ Permutation idm m0).
        { destruct (hcc <? pcc)%nat eqn:E.
          - exact (proj2 HT1 idm id_mono').
          - destruct Hcase as [Hc|[Hc|Hc]]; [discriminate|discriminate|]. exact (proj2 HT1 idm id_mono' Hc). }
        destruct (C06_Model.find enum (Cfg 1 0 T true false) Hh Pp) as [|x0 xs] eqn:E1; [destruct Hin as (m0 & [] & _)|exact Hin].
  Qed.

  (** * the same with an EXPLICIT threshold bound (C06's [comp_bound]: the largest intermediate list of the component-aware search),
      for any embed_threshold including the default None = 5000 *)
  Lemma comp_find_at (T : N) : (comp_bound enum true Hh Pp <= T)%N ->
    C06_Model.find enum (Cfg 1 0 T true false) Hh Pp = comp_unl enum true Hh Pp.
  Proof. intros HT. exact (find_comp_unlimited enum T true Hh Pp HT). Qed.

  Theorem comp_regenerates_at (o : ropts) :
    (0 <? pcc)%nat && (pcc <? hcc)%nat = false ->
    ((hcc <? pcc)%nat = true \/ separating Hh Pp idm) ->
    o_strategy o = SMember 1%N -> o_pref o = false ->
    (comp_bound enum true Hh Pp <= dflt DEFAULT_THRESHOLD (o_thr o))%N ->
    regenerates_sound o.
  Proof.
    intros NG Hcase Es Ep Hb. set (T := dflt DEFAULT_THRESHOLD (o_thr o)) in *.
    destruct (comp_spec enum true Hh Pp HwfH HwfP Hor) as (T0 & HT0).
    set (Tm := N.max T0 (comp_bound enum true Hh Pp)).
    assert (H0 : (T0 <= Tm)%N) by (unfold Tm; lia). assert (H1 : (comp_bound enum true Hh Pp <= Tm)%N) by (unfold Tm; lia).
    specialize (HT0 Tm H0). cbv zeta in HT0. fold hcc in HT0. fold pcc in HT0. destruct HT0 as [_ HT0].
    rewrite (comp_find_at Tm H1), <- (comp_find_at T Hb) in HT0.
    rewrite NG in HT0. cbn [andb] in HT0.
    apply (regen_of_raw' o (C06_Model.find enum (Cfg 1 0 T true false) Hh Pp)).
    - rewrite Es, Ep. reflexivity.
    - destruct (hcc <? pcc)%nat; [exact (proj1 HT0)|]. intros m I. exact (proj1 (proj1 HT0 m I)).
    - destruct (hcc <? pcc)%nat eqn:E.
      + exact (proj2 HT0 idm id_mono').
      + destruct Hcase as [Hc|Hc]; [discriminate|]. exact (proj2 HT0 idm id_mono' Hc).
  Qed.

  Theorem bt_regenerates_at (o : ropts) :
    ((0 <? pcc)%nat && (pcc <? hcc)%nat = true \/ (hcc <? pcc)%nat = true \/ separating Hh Pp idm) ->
    o_strategy o = SMember 2%N -> o_pref o = false ->
    (N.max (comp_bound enum true Hh Pp) (lenN (enum (node_ids Hh) (node_ids Pp))) <= dflt DEFAULT_THRESHOLD (o_thr o))%N ->
    regenerates_sound o.
  Proof.
    intros Hcase Es Ep Hb. set (T := dflt DEFAULT_THRESHOLD (o_thr o)) in *.
    assert (Hb1 : (comp_bound enum true Hh Pp <= T)%N) by lia. assert (Hb2 : (lenN (enum (node_ids Hh) (node_ids Pp)) <= T)%N) by lia.
    destruct (comp_spec enum true Hh Pp HwfH HwfP Hor) as (T1 & HT1).
    destruct (bt_spec_unlimited enum true Hh Pp) as (T2 & HT2).
    set (Tm := N.max (N.max T1 T2) T).
    assert (G1 : (T1 <= Tm)%N) by (unfold Tm; lia). assert (G2 : (T2 <= Tm)%N) by (unfold Tm; lia).
    assert (G3 : (comp_bound enum true Hh Pp <= Tm)%N) by (unfold Tm; lia). assert (G4 : (lenN (enum (node_ids Hh) (node_ids Pp)) <= Tm)%N) by (unfold Tm; lia).
    specialize (HT1 Tm G1). specialize (HT2 Tm G2). cbv zeta in HT1. fold hcc in HT1. fold pcc in HT1. destruct HT1 as [_ HT1].
    (* every quantity at Tm is the quantity at T *)
    assert (Ebt : C06_Model.find enum (Cfg 2 0 T true false) Hh Pp = C06_Model.find enum (Cfg 2 0 Tm true false) Hh Pp).
    { rewrite (find_bt_unlimited enum T true Hh Pp Hb1 Hb2), (find_bt_unlimited enum Tm true Hh Pp G3 G4). reflexivity. }
    assert (Eall : C06_Model.find enum (Cfg 0 0 Tm true false) Hh Pp = C06_Model.find enum (Cfg 0 0 T true false) Hh Pp).
    { rewrite (find_all_unlimited enum Tm true Hh Pp G4), (find_all_unlimited enum T true Hh Pp Hb2). reflexivity. }
    rewrite (comp_find_at Tm G3), <- (comp_find_at T Hb1) in HT1, HT2. rewrite Eall in HT2.
    destruct (all_exact enum T true Hh Pp (proj1 Hor) Hb2) as (As & Ac & _).
    apply (regen_of_raw' o (C06_Model.find enum (Cfg 2 0 T true false) Hh Pp)).
    - rewrite Es, Ep. reflexivity.
    - rewrite Ebt, HT2. destruct ((0 <? pcc)%nat && (pcc <? hcc)%nat) eqn:EG; cbn [andb] in HT1.
      + rewrite HT1. exact As.
      + destruct (C06_Model.find enum (Cfg 1 0 T true false) Hh Pp) as [|x0 xs] eqn:E1; [exact As|].
        destruct (hcc <? pcc)%nat; [exact (proj1 HT1)|]. intros m I. exact (proj1 (proj1 HT1 m I)).
    - rewrite Ebt, HT2. destruct ((0 <? pcc)%nat && (pcc <? hcc)%nat) eqn:EG; cbn [andb] in HT1.
      + rewrite HT1. exact (Ac idm id_mono').
      + assert (Hin : exists m0, In m0 (C06_Model.find enum (Cfg 1 0 T true false) Hh Pp) /\ Permutation idm m0).
        { destruct (hcc <? pcc)%nat eqn:E.
          - exact (proj2 HT1 idm id_mono').
          - destruct Hcase as [Hc|[Hc|Hc]]; [discriminate|discriminate|]. exact (proj2 HT1 idm id_mono' Hc). }
        destruct (C06_Model.find enum (Cfg 1 0 T true false) Hh Pp) as [|x0 xs] eqn:E1; [destruct Hin as (m0 & [] & _)|exact Hin].
  Qed.
End CompBtSound.

(** * own templates, implicit mode, at the level of the reactor object, for ANY embed_threshold [thr] (None = the default 5000) that
    is not below C06's bound *)
Section OwnImplicitAt.
  Variable enum : list N -> list N -> list C06_Model.mapping.
  Variable rematch : nat -> hostg -> molg -> list C03_Model.mapping.
  Variables (core invert : bool) (G H : hostg) (thr : option N).
  Hypothesis W : pair_wfb G H = true.
  Hypothesis NH : no_explicit_H G = true.
  Hypothesis CC : core = true -> centre_carries (its_construct G H) = true.
  Let A := if invert then H else G.
  Let B := if invert then G else H.
  Let tpl := template core invert G H.
  Let l := dec_side iG eG tpl.
  Let r := dec_side iH eH tpl.
  Hypothesis Hnn : forallb (fun p => 0 <=? m_hc (snd p)) (gnodes l) = true.
  Hypothesis Hor : oracle_ok enum (tr_host A) (tr_pat l).

  Let D : describes A B tpl := template_describes core invert G H W NH CC.
  Let PW : pair_wf A B := pair_AB core invert G H W.
  Let LO : left_of tpl l := own_left_of tpl (d_wf _ _ _ D).
  Let Hf : has_XH l = false := own_no_XH core invert G H W NH.
  Let GH : gwf (tr_host A) := own_gwf_host core invert G H W NH CC.
  Let GP : gwf (tr_pat l) := own_gwf_pat core invert G H W NH CC.

  Lemma own_sep : id_separatingb (tr_host A) (tr_pat l) = true -> separating (tr_host A) (tr_pat l) (id_map (node_ids l)).
  Proof.
    intros Hc. rewrite <- tr_pat_ids. apply id_separatingb_sound; [exact GH|exact GP| |exact Hc].
    intros n In_. rewrite tr_pat_ids in In_. rewrite tr_host_ids. unfold l, tpl in In_. rewrite (pattern_ids core invert G H) in In_. fold tpl in In_.
    destruct (in_ids_label tpl n In_) as [a Ea]. destruct (d_nodes _ _ _ D n a (assoc_in n (gnodes tpl) Ea)) as (x & _ & Ex & _).
    exact (label_some_in A n x Ex).
  Qed.

  Theorem own_comp_implicit_at :
    (0 <? length (comps (tr_pat l)))%nat && (length (comps (tr_pat l)) <? length (comps (tr_host A)))%nat = false ->
    ((length (comps (tr_host A)) <? length (comps (tr_pat l)))%nat = true \/ id_separatingb (tr_host A) (tr_pat l) = true) ->
    (comp_bound enum true (tr_host A) (tr_pat l) <= dflt DEFAULT_THRESHOLD thr)%N ->
    exists gs Tt, fst (read_its (api_engine enum) rematch (own_opts invert false (SMember 1%N) thr false) A (tpl, l, r) fresh) = Some gs /\
                  In Tt gs /\ regen_exact Tt A B = true.
  Proof.
    intros NG Hc Hb.
    destruct (comp_regenerates_at enum A B tpl l r PW D LO Hf Hnn GH GP Hor (own_opts invert false (SMember 1%N) thr false) NG) as (ms & y & Tt & Em & _ & Iy & Eg & Rg);
      [destruct Hc as [Hc|Hc]; [left; exact Hc|right; exact (own_sep Hc)]|reflexivity|reflexivity|exact Hb|].
    destruct (its_of_mappings (api_engine enum) rematch (own_opts invert false (SMember 1%N) thr false) A tpl l r ms y Tt eq_refl Hf Em Iy Eg) as (gs & Egs & It).
    exists gs, Tt. auto.
  Qed.
  Theorem own_bt_implicit_at :
    ((0 <? length (comps (tr_pat l)))%nat && (length (comps (tr_pat l)) <? length (comps (tr_host A)))%nat = true \/
     (length (comps (tr_host A)) <? length (comps (tr_pat l)))%nat = true \/ id_separatingb (tr_host A) (tr_pat l) = true) ->
    (N.max (comp_bound enum true (tr_host A) (tr_pat l)) (lenN (enum (node_ids (tr_host A)) (node_ids (tr_pat l)))) <= dflt DEFAULT_THRESHOLD thr)%N ->
    exists gs Tt, fst (read_its (api_engine enum) rematch (own_opts invert false (SMember 2%N) thr false) A (tpl, l, r) fresh) = Some gs /\
                  In Tt gs /\ regen_exact Tt A B = true.
  Proof.
    intros Hc Hb.
    destruct (bt_regenerates_at enum A B tpl l r PW D LO Hf Hnn GH GP Hor (own_opts invert false (SMember 2%N) thr false)) as (ms & y & Tt & Em & _ & Iy & Eg & Rg);
      [destruct Hc as [Hc|[Hc|Hc]]; [left; exact Hc|right; left; exact Hc|right; right; exact (own_sep Hc)]|reflexivity|reflexivity|exact Hb|].
    destruct (its_of_mappings (api_engine enum) rematch (own_opts invert false (SMember 2%N) thr false) A tpl l r ms y Tt eq_refl Hf Em Iy Eg) as (gs & Egs & It).
    exists gs, Tt. auto.
  Qed.
End OwnImplicitAt.
