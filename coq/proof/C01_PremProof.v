(** C01 — [reaction_okb] (model/C01_Prem.v) is sound for the reaction-side hypotheses of the string theorems *)
From Coq Require Import List NArith ZArith Bool Lia Arith.
From SK Require Import lib.LGraph lib.C01_GraphLemmas model.C01_Model model.C02_Model model.C01_String model.C01_HBal model.C01_Prem
  proof.C01_Proof proof.C01_StringProof proof.C01_StringPipe.
Import ListNotations.
Local Open Scope Z_scope.

Lemma nodupNb_spec l : nodupNb l = true -> NoDup l.
Proof.
  induction l as [|x r IH]; cbn; intros E; [constructor|]. apply andb_true_iff in E. destruct E as [E1 E2].
  constructor; [|apply IH; exact E2]. intros I. apply mem_spec in I. rewrite I in E1. discriminate.
Qed.

Lemma simpleb_spec {B} (es : list (N * N * B)) : simpleb es = true -> simple es.
Proof.
  induction es as [|[[a b] x] r IH]; cbn; intros E; [constructor|].
  destruct (find_edge a b r) eqn:F; [discriminate|]. constructor; [exact F|apply IH; exact E].
Qed.

Lemma rmol_okb_spec m : rmol_okb m = true -> rmol_ok m.
Proof. unfold rmol_okb. intros E. apply andb_true_iff in E. destruct E as [E1 E2]. split; [apply nodupNb_spec; exact E1|apply simpleb_spec; exact E2]. Qed.

Lemma same_nodesb_spec G H : same_nodesb G H = true -> same_nodes G H.
Proof.
  unfold same_nodesb. intros E. apply andb_true_iff in E. destruct E as [E1 E2]. rewrite forallb_forall in E1, E2.
  intros n. split; intros I; apply mem_spec; auto.
Qed.

Lemma orders_posb_spec G : orders_posb G = true -> orders_pos G.
Proof. unfold orders_posb. rewrite forallb_forall. intros E u v o I. specialize (E _ I). cbn in E. apply Z.ltb_lt in E. exact E. Qed.

Lemma one_parentb_spec g : one_parentb g = true -> one_parent g.
Proof.
  unfold one_parentb. intros F h Hh. rewrite forallb_forall in F.
  assert (In h (node_ids g)) as Ih.
  { unfold is_Hn in Hh. destruct (label g h) as [a|] eqn:L; [eapply label_some_node; eauto|discriminate]. }
  specialize (F h Ih). rewrite Hh in F. cbn in F. apply Nat.leb_le in F. exact F.
Qed.

(** C01_reaction_test_sound *)
Theorem reaction_okb_sound mr mp : reaction_okb mr mp = true ->
  rmol_ok mr /\ rmol_ok mp /\ wf (graph_of mr) /\ wf (graph_of mp) /\ same_nodes (graph_of mr) (graph_of mp) /\
  orders_pos (graph_of mr) /\ orders_pos (graph_of mp) /\ one_parent (graph_of mr) /\ one_parent (graph_of mp).
Proof.
  unfold reaction_okb. intros E. repeat (apply andb_true_iff in E; destruct E as [E ?]).
  assert (rmol_ok mr) as Or by (split; [apply nodupNb_spec; exact E|apply simpleb_spec; exact H7]).
  pose proof (rmol_okb_spec mp H6) as Op.
  assert (forall m, no_loopb m = true -> forall u v o, In (u, v, o) (mapped_bonds m) -> u <> v) as NL.
  { intros m F u v o I. unfold no_loopb in F. rewrite forallb_forall in F. specialize (F _ I). cbn in F.
    apply negb_true_iff in F. apply N.eqb_neq in F. exact F. }
  split; [exact Or|]. split; [exact Op|].
  split; [apply graph_of_wf; [exact Or|apply NL; assumption]|]. split; [apply graph_of_wf; [exact Op|apply NL; assumption]|].
  split; [apply same_nodesb_spec; assumption|]. split; [apply orders_posb_spec; assumption|]. split; [apply orders_posb_spec; assumption|].
  split; apply one_parentb_spec; assumption.
Qed.

Example C01_reaction_test_nonvacuous : reaction_okb ex_mr ex_mp = true /\ reaction_okb ex_mr ex_mr = true /\
  reaction_okb ex_mr (RM [RA 70%N false 3 0 1%N []] []) = false.
Proof. repeat split; reflexivity. Qed.

Lemma h_safeb_spec sel ns : h_safeb sel ns = true -> h_safe sel ns.
Proof.
  unfold h_safeb. rewrite forallb_forall. intros F n a I E. specialize (F _ I). cbn [snd] in F. rewrite E, N.eqb_refl in F.
  cbn in F. apply Z.leb_le in F. exact F.
Qed.

Theorem eh_okb_sound mr mp : eh_okb mr mp = true ->
  h_safe i_G (gnodes (its_construct (graph_of mr) (graph_of mp))) /\ h_safe i_H (gnodes (its_construct (graph_of mr) (graph_of mp))).
Proof. unfold eh_okb. intros E. apply andb_true_iff in E. destruct E as [E1 E2]. split; apply h_safeb_spec; assumption. Qed.

Example C01_eh_test_nonvacuous : eh_okb ex_mr ex_mp = true.
Proof. reflexivity. Qed.
