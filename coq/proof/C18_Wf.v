(** C18 — the decidable premises reflect the propositional ones. *)
From Coq Require Import List NArith ZArith Bool Arith Lia Permutation.
From SK Require Import lib.IRCore model.C18_Model proof.C18_Spec proof.C18_Graph proof.C18_Label.
Import ListNotations.

Lemma nodupb_spec {A} (eqb : A -> A -> bool) (Heq : forall x y, eqb x y = true <-> x = y) l :
  nodupb eqb l = true -> NoDup l.
Proof.
  induction l as [|x l IH]; simpl; intros H; [constructor|].
  apply andb_prop in H. destruct H as [H1 H2]. constructor; auto.
  intro I. apply negb_true_iff in H1. rewrite <- not_true_iff_false in H1. apply H1.
  apply existsb_exists. exists x. split; auto. apply Heq. auto.
Qed.
Lemma pairN_eqb_spec a b : pairN_eqb a b = true <-> a = b.
Proof.
  destruct a as [a1 a2], b as [b1 b2]. unfold pairN_eqb. simpl. rewrite andb_true_iff, !N.eqb_eq.
  split; [intros [-> ->]; auto|intros E; inversion E; auto].
Qed.

Theorem wfb_wf g : wfb g = true -> wf g.
Proof.
  unfold wfb. intros H. apply andb_prop in H. destruct H as [H H3]. apply andb_prop in H. destruct H as [H1 H2].
  split; [|split].
  - apply (nodupb_spec N.eqb N.eqb_eq). auto.
  - apply (nodupb_spec pairN_eqb pairN_eqb_spec). exact H2.
  - intros e I. rewrite forallb_forall in H3. specialize (H3 _ I). apply andb_prop in H3. destruct H3.
    split; apply memN_spec; auto.
Qed.
Theorem kinds_okb_ok g : kinds_okb g = true -> kinds_ok g.
Proof.
  unfold kinds_okb, kinds_ok. rewrite forallb_forall. intros H p I. specialize (H _ I).
  apply orb_prop in H. destruct H as [H|H]; apply Z.eqb_eq in H; auto.
Qed.
Theorem arcs_okb_ok g : arcs_okb g = true -> arcs_ok g.
Proof.
  unfold arcs_okb, arcs_ok, attr_ok. rewrite forallb_forall. intros H e I. specialize (H _ I).
  apply andb_prop in H. destruct H as [H1 H2]. apply Z.leb_le in H2. split; auto.
  apply orb_prop in H1. destruct H1 as [H1|H1]; [apply orb_prop in H1; destruct H1 as [H1|H1]|]; apply Z.eqb_eq in H1; auto.
Qed.
