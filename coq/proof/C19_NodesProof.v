(** C19 — the attribute / identifier level of _complex_vectors (model/C19_Nodes.v) computes, on the export of a reaction
    list under ANY injective identifier assignment with disjoint species / reaction identifiers, exactly the complex list
    and complex graph of the label-level model (model/C19_Model.v).  stdlib lists. *)
From Coq Require Import List NArith ZArith Bool Arith Lia Permutation.
From SK Require Import lib.Tok lib.Reach lib.IRSortKeys lib.C17_Farkas model.C17_Model model.C17_NodeModel model.C19_Model
                       model.C19_Nodes proof.C17_Proof proof.C17_Nodes proof.C19_Complexes.
Import ListNotations.
Local Open Scope nat_scope.

(* ------------------------------------------------------------------ sums of per-arc contributions *)

Definition csum {A} (f : A -> Z) (l : list A) : Z := fold_right (fun a acc => (f a + acc)%Z) 0%Z l.

Lemma csum_app {A} (f : A -> Z) l1 l2 : csum f (l1 ++ l2) = (csum f l1 + csum f l2)%Z.
Proof. induction l1 as [|a l1 IH]; simpl; [reflexivity|]. rewrite IH. lia. Qed.
Lemma csum_filter {A} (f : A -> Z) p l : csum f (filter p l) = csum (fun a => if p a then f a else 0%Z) l.
Proof. induction l as [|a l IH]; simpl; [reflexivity|]. destruct (p a); simpl; rewrite IH; reflexivity. Qed.
Lemma csum_plus {A} (f g : A -> Z) l : (csum f l + csum g l)%Z = csum (fun a => (f a + g a)%Z) l.
Proof. induction l as [|a l IH]; simpl; [reflexivity|]. rewrite <- IH. lia. Qed.
Lemma csum_map {A B} (f : B -> Z) (g : A -> B) l : csum f (map g l) = csum (fun a => f (g a)) l.
Proof. induction l as [|a l IH]; simpl; [reflexivity|]. rewrite IH. reflexivity. Qed.
Lemma csum_ext_in {A} (f g : A -> Z) l : (forall a, In a l -> f a = g a) -> csum f l = csum g l.
Proof.
  induction l as [|a l IH]; intros H; simpl; [reflexivity|]. rewrite (H a (or_introl eq_refl)), IH; [reflexivity|].
  intros b I. apply H. right. exact I.
Qed.

Lemma entry_csum ro arcs s id :
  entry ro arcs s id =
  csum (fun a => if streqb (a_species a) s && streqb (a_rxn a) id && role_eqb (a_role a) ro then a_stoich a else 0%Z) arcs.
Proof.
  induction arcs as [|a arcs IH]; [reflexivity|]. rewrite entry_cons. simpl. rewrite IH.
  destruct (streqb (a_species a) s && streqb (a_rxn a) id && role_eqb (a_role a) ro); [reflexivity|lia].
Qed.

(* ------------------------------------------------------------------ one reaction node: the accumulation loop *)

Definition coeff (a : rarc) : Z := match ra_stoich a with Some c => c | None => 1%Z end.
Definition contrib (si : list (N * nat)) (r : N) (ro : role) (i : nat) (a : rarc) : Z :=
  match index_get si (if N.eqb (ra_u a) r then ra_v a else ra_u a) with
  | Some idx => if Nat.eqb idx i
                then match ra_role a with Some ro' => if role_eqb ro' ro then coeff a else 0%Z | None => 0%Z end
                else 0%Z
  | None => 0%Z
  end.

Lemma acc_fold si r n : (forall u idx, index_get si u = Some idx -> idx < n) ->
  forall l st, length (fst st) = n -> length (snd st) = n ->
  length (fst (fold_left (acc_arc si r) l st)) = n /\ length (snd (fold_left (acc_arc si r) l st)) = n /\
  forall i, i < n ->
    nth i (fst (fold_left (acc_arc si r) l st)) 0%Z = (nth i (fst st) 0 + csum (contrib si r Reactant i) l)%Z /\
    nth i (snd (fold_left (acc_arc si r) l st)) 0%Z = (nth i (snd st) 0 + csum (contrib si r Product i) l)%Z.
Proof.
  intros Hsi. induction l as [|a l IH]; intros st L1 L2; simpl.
  - split; [exact L1|]. split; [exact L2|]. intros i _. unfold csum. simpl. split; lia.
  - assert (S1 : length (fst (acc_arc si r st a)) = n /\ length (snd (acc_arc si r st a)) = n /\
                 forall i, i < n ->
                   nth i (fst (acc_arc si r st a)) 0%Z = (nth i (fst st) 0 + contrib si r Reactant i a)%Z /\
                   nth i (snd (acc_arc si r st a)) 0%Z = (nth i (snd st) 0 + contrib si r Product i a)%Z).
    { unfold acc_arc, contrib, coeff.
      destruct (index_get si (if N.eqb (ra_u a) r then ra_v a else ra_u a)) as [idx|] eqn:E.
      - pose proof (Hsi _ _ E) as Hidx.
        destruct (ra_role a) as [[|]|]; simpl.
        + split; [rewrite row_add_length; exact L1|]. split; [exact L2|]. intros i _.
          rewrite row_add_nth by lia. destruct (Nat.eqb idx i); split; lia.
        + split; [exact L1|]. split; [rewrite row_add_length; exact L2|]. intros i _.
          rewrite row_add_nth by lia. destruct (Nat.eqb idx i); split; lia.
        + split; [exact L1|]. split; [exact L2|]. intros i _. destruct (Nat.eqb idx i); split; lia.
      - split; [exact L1|]. split; [exact L2|]. intros i _. split; lia. }
    destruct S1 as (A1 & A2 & A3). destruct (IH _ A1 A2) as (B1 & B2 & B3).
    split; [exact B1|]. split; [exact B2|]. intros i Hi. destruct (B3 i Hi) as [C1 C2]. destruct (A3 i Hi) as [D1 D2].
    rewrite C1, C2, D1, D2. unfold csum. simpl. split; lia.
Qed.

(** the walk over identifiers = the walk over reactions when the vectors agree *)
Lemma fold_cstepN (vecN : role -> N -> list Z) (vec : role -> rxn -> list Z) (h : rxn -> N) l :
  (forall e ro, In e l -> vecN ro (h e) = vec ro e) ->
  forall st, fold_left (cstepN vecN) (map h l) st = fold_left (cstep vec) l st.
Proof.
  induction l as [|e l IH]; intros H st; simpl; [reflexivity|].
  assert (E : cstepN vecN st (h e) = cstep vec st e).
  { unfold cstepN, cstep. destruct st as [cs arcs].
    rewrite (H e Reactant (or_introl eq_refl)), (H e Product (or_introl eq_refl)). reflexivity. }
  rewrite E. apply IH. intros e' ro I. apply H. right. exact I.
Qed.

Lemma index_get_notin d u : ~ In u (map fst d) -> index_get d u = None.
Proof.
  induction d as [|[v k] d IH]; intros H; simpl; [reflexivity|].
  destruct (N.eqb_spec v u) as [->|NE]; [exfalso; apply H; left; reflexivity|]. apply IH. intros I. apply H. right. exact I.
Qed.

(* ------------------------------------------------------------------ the export *)

Section Refine.
Variables (ids idr : str -> N) (net : list rxn) (iso : list str).
Hypothesis ids_inj : forall s s', In s (species_set net iso) -> In s' (species_set net iso) -> ids s = ids s' -> s = s'.
Hypothesis idr_inj : forall e e', In e net -> In e' net -> idr (rid e) = idr (rid e') -> rid e = rid e'.
Hypothesis disjoint : forall s e, In s (species_set net iso) -> In e net -> ids s <> idr (rid e).

Let G := raw_export ids idr net iso.
Let sp := species_order net iso.
Let es := edges_sorted net.
Definition gsn (s : str) : rnode := RNode (ids s) (Some 0) (Some 0%Z) (Some s) [].
Definition grn (e : rxn) : rnode := RNode (idr (rid e)) (Some 1) (Some 1%Z) (Some (rrule e)) [].
Definition gan (a : arc) : rarc :=
  match a_role a with
  | Reactant => RArc (ids (a_species a)) (idr (a_rxn a)) (Some Reactant) (Some (a_stoich a))
  | Product => RArc (idr (a_rxn a)) (ids (a_species a)) (Some Product) (Some (a_stoich a))
  end.

Lemma filter_map_all {A B} (p : B -> bool) (g : A -> B) l : (forall a, p (g a) = true) -> filter p (map g l) = map g l.
Proof. intros H. induction l as [|a l IH]; simpl; [reflexivity|]. rewrite H, IH. reflexivity. Qed.
Lemma filter_map_none {A B} (p : B -> bool) (g : A -> B) l : (forall a, p (g a) = false) -> filter p (map g l) = [].
Proof. intros H. induction l as [|a l IH]; simpl; [reflexivity|]. rewrite H, IH. reflexivity. Qed.

Lemma G_species_nodes : species_nodes G = map gsn (species_set net iso).
Proof.
  unfold species_nodes, G, raw_export. simpl. rewrite filter_app.
  rewrite (filter_map_all is_species gsn) by reflexivity. rewrite (filter_map_none is_species grn) by reflexivity.
  apply app_nil_r.
Qed.
Lemma G_reaction_nodes : reaction_nodes G = map grn es.
Proof.
  unfold reaction_nodes, G, raw_export. simpl. rewrite filter_app.
  rewrite (filter_map_none is_reaction gsn) by reflexivity. rewrite (filter_map_all is_reaction grn) by reflexivity.
  reflexivity.
Qed.
Lemma G_species_sorted : species_sorted G = map gsn sp.
Proof. unfold species_sorted. rewrite G_species_nodes, isort_map. reflexivity. Qed.
Lemma G_species_index : species_index G = combine (map ids sp) (seq 0 (length sp)).
Proof. unfold species_index. rewrite G_species_sorted, map_map, map_length. reflexivity. Qed.

Lemma si_species s i : nth_error sp i = Some s -> index_get (species_index G) (ids s) = Some i.
Proof.
  intros H. rewrite G_species_index. rewrite (index_get_nth ids sp 0 i s); auto.
  - apply sp_nodup.
  - intros a b Ia Ib. apply ids_inj; apply sp_in; assumption.
Qed.
Lemma si_reaction e : In e net -> index_get (species_index G) (idr (rid e)) = None.
Proof.
  intros I. apply index_get_notin. rewrite G_species_index. intros H. apply in_map_iff in H. destruct H as ([v k] & E & H).
  simpl in E. subst v. apply in_combine_l in H. apply in_map_iff in H. destruct H as (s & E & Is).
  apply (disjoint s e); [apply sp_in; exact Is|exact I|exact E].
Qed.
Lemma si_bound u idx : index_get (species_index G) u = Some idx -> idx < length sp.
Proof. rewrite G_species_index. apply index_get_lt. Qed.

(** per arc of the export: what it contributes to position i of the ro-vector of the node of reaction e *)
Lemma contrib_export e ro i a : In e net -> i < length sp -> arc_ok net iso a ->
  ((if N.eqb (ra_v (gan a)) (idr (rid e)) then contrib (species_index G) (idr (rid e)) ro i (gan a) else 0) +
   (if N.eqb (ra_u (gan a)) (idr (rid e)) then contrib (species_index G) (idr (rid e)) ro i (gan a) else 0))%Z
  = if streqb (a_species a) (nth i sp []) && streqb (a_rxn a) (rid e) && role_eqb (a_role a) ro then a_stoich a else 0%Z.
Proof.
  intros Ie Hi (Is & e' & Ie' & Er). apply (proj1 (rx_in net e')) in Ie'.
  assert (Iss : In (a_species a) (species_set net iso)) by (apply sp_in; exact Is).
  destruct (In_nth_error _ _ Is) as [j Hj].
  assert (Hlook : index_get (species_index G) (ids (a_species a)) = Some j) by (apply si_species; exact Hj).
  assert (Hne : N.eqb (ids (a_species a)) (idr (rid e)) = false) by (apply N.eqb_neq; apply disjoint; assumption).
  assert (Hji : Nat.eqb j i = streqb (a_species a) (nth i sp [])).
  { destruct (Nat.eqb_spec j i) as [->|NE].
    - rewrite (nth_error_nth _ _ _ Hj). symmetry. apply streqb_refl.
    - symmetry. apply streqb_neq. intros E. apply NE.
      apply (proj1 (NoDup_nth_error sp) (sp_nodup net iso)); unfold sp in *; [apply nth_error_Some; congruence|].
      rewrite Hj. rewrite E. symmetry. apply nth_error_nth'. exact Hi. }
  assert (Hr : N.eqb (idr (a_rxn a)) (idr (rid e)) = streqb (a_rxn a) (rid e)).
  { rewrite Er. destruct (N.eqb_spec (idr (rid e')) (idr (rid e))) as [E|NE].
    - rewrite (idr_inj e' e Ie' Ie E). symmetry. apply streqb_refl.
    - symmetry. apply streqb_neq. intros E. apply NE. rewrite E. reflexivity. }
  unfold gan, contrib, coeff. destruct (a_role a); simpl.
  - rewrite Hne, Hr. destruct (streqb (a_rxn a) (rid e)); simpl.
    + rewrite Hlook, Hji. destruct (streqb (a_species a) (nth i sp [])); simpl; [destruct ro; simpl; lia|lia].
    + rewrite andb_false_r. reflexivity.
  - rewrite Hne, Hr. destruct (streqb (a_rxn a) (rid e)); simpl.
    + rewrite Hlook, Hji. destruct (streqb (a_species a) (nth i sp [])); simpl; [destruct ro; simpl; lia|lia].
    + rewrite andb_false_r. reflexivity.
Qed.

(** the two vectors of a reaction node are the reactant / product vectors of the label-level model *)
Lemma node_vec_export e ro : In e net -> node_vec G ro (idr (rid e)) = cvec ro net iso e.
Proof.
  intros Ie.
  assert (Hn : length (species_index G) = length sp).
  { rewrite G_species_index, combine_length, map_length, seq_length. apply Nat.min_id. }
  pose proof (acc_fold (species_index G) (idr (rid e)) (length sp) si_bound
                (incident (rg_arcs G) (idr (rid e))) (repeat 0%Z (length sp), repeat 0%Z (length sp))
                (repeat_length _ _) (repeat_length _ _)) as (L1 & L2 & Hnth).
  assert (Hlen : length (node_vec G ro (idr (rid e))) = length sp).
  { unfold node_vec, node_vecs. rewrite Hn. destruct ro; assumption. }
  apply (nth_ext _ _ 0%Z 0%Z); [rewrite Hlen; unfold cvec; rewrite map_length; reflexivity|].
  intros i Hi. rewrite Hlen in Hi. destruct (Hnth i Hi) as [H1 H2].
  assert (Hv : nth i (node_vec G ro (idr (rid e))) 0%Z
               = csum (contrib (species_index G) (idr (rid e)) ro i) (incident (rg_arcs G) (idr (rid e)))).
  { unfold node_vec, node_vecs. rewrite Hn. cbn [fst snd] in H1, H2. rewrite nth_repeat in H1, H2. destruct ro; [rewrite H1|rewrite H2]; lia. }
  rewrite Hv. unfold cvec. fold sp.
  rewrite (nth_indep _ 0%Z (entry ro (bip_arcs net) [] (rid e))) by (rewrite map_length; exact Hi).
  rewrite (map_nth (fun s => entry ro (bip_arcs net) s (rid e)) sp [] i).
  rewrite entry_csum. unfold incident. rewrite csum_app, !csum_filter, csum_plus.
  unfold G, raw_export. simpl rg_arcs. fold gan. change (map (fun a => match a_role a with
    | Reactant => RArc (ids (a_species a)) (idr (a_rxn a)) (Some Reactant) (Some (a_stoich a))
    | Product => RArc (idr (a_rxn a)) (ids (a_species a)) (Some Product) (Some (a_stoich a)) end) (bip_arcs net))
    with (map gan (bip_arcs net)).
  rewrite csum_map. apply csum_ext_in. intros a Ia.
  apply (contrib_export e ro i a Ie Hi).
  exact (proj1 (Forall_forall _ _) (C17_Nodes.arcs_ok idr net iso idr_inj) a Ia).
Qed.

Theorem nodes_refine : net <> [] -> species_set net iso <> [] ->
  complex_graph_nodes G = Some (complex_graph net iso).
Proof.
  intros NE SE. unfold complex_graph_nodes. rewrite G_species_nodes, G_reaction_nodes.
  assert (es <> []) as EE.
  { unfold es. intros E. apply NE. pose proof (edges_sorted_perm net) as P. rewrite E in P. apply Permutation_nil in P. exact P. }
  destruct (map gsn (species_set net iso)) eqn:E1; [apply map_eq_nil in E1; congruence|].
  destruct (map grn es) eqn:E2; [apply map_eq_nil in E2; congruence|].
  rewrite <- E2. f_equal. rewrite map_map. unfold complex_graph. fold es.
  apply (fold_cstepN (node_vec G) (fun ro e => cvec ro net iso e) (fun e => idr (rid e))).
  intros e ro I. apply node_vec_export. apply in_edges_sorted. exact I.
Qed.
End Refine.


(* ------------------------------------------------------------------ sides that are dicts give distinct incidences *)

Definition akey (a : arc) : str * str * role := (a_species a, a_rxn a, a_role a).

Lemma nodup_app_intro {A} (l1 l2 : list A) : NoDup l1 -> NoDup l2 -> (forall x, In x l1 -> ~ In x l2) -> NoDup (l1 ++ l2).
Proof.
  induction l1 as [|a l1 IH]; intros H1 H2 H; simpl; [exact H2|]. inversion H1; subst. constructor.
  - intros I. apply in_app_iff in I. destruct I as [I|I]; [contradiction|]. exact (H a (or_introl eq_refl) I).
  - apply IH; auto. intros x I. apply H. right. exact I.
Qed.

Lemma nodup_side_keys (id : str) (ro : role) (sd : side) : NoDup (map fst sd) ->
  NoDup (map akey (map (fun p => Arc (fst p) id (snd p) ro) sd)).
Proof.
  induction sd as [|p sd IH]; intros H; simpl; [constructor|]. inversion H; subst. constructor; [|apply IH; assumption].
  intros I. apply in_map_iff in I. destruct I as (a & E & I). apply in_map_iff in I. destruct I as (q & <- & I).
  unfold akey in E. simpl in E. inversion E. apply H2. rewrite <- H1. apply in_map. exact I.
Qed.

Lemma arcs_of_keys e : NoDup (map fst (rlhs e)) -> NoDup (map fst (rrhs e)) -> NoDup (map akey (arcs_of e)).
Proof.
  intros H1 H2. unfold arcs_of. rewrite map_app. apply nodup_app_intro; [apply nodup_side_keys; exact H1|apply nodup_side_keys; exact H2|].
  intros k I1 I2. apply in_map_iff in I1. destruct I1 as (a & <- & I1). apply in_map_iff in I1. destruct I1 as (p & <- & _).
  apply in_map_iff in I2. destruct I2 as (b & E & I2). apply in_map_iff in I2. destruct I2 as (q & <- & _).
  unfold akey in E. simpl in E. inversion E.
Qed.

Lemma arcs_of_rxn e a : In a (arcs_of e) -> a_rxn a = rid e.
Proof.
  unfold arcs_of. intros I. apply in_app_iff in I. destruct I as [I|I]; apply in_map_iff in I; destruct I as (p & <- & _); reflexivity.
Qed.

Lemma flat_keys es : NoDup (map rid es) -> (forall e, In e es -> NoDup (map fst (rlhs e)) /\ NoDup (map fst (rrhs e))) ->
  NoDup (map akey (flat_map arcs_of es)).
Proof.
  induction es as [|e es IH]; intros H Hd; simpl; [constructor|]. inversion H; subst. rewrite map_app. apply nodup_app_intro.
  - destruct (Hd e (or_introl eq_refl)). apply arcs_of_keys; assumption.
  - apply IH; auto. intros e' I. apply Hd. right. exact I.
  - intros k I1 I2. apply in_map_iff in I1. destruct I1 as (a & <- & I1). apply in_map_iff in I2. destruct I2 as (b & E & I2).
    apply in_flat_map in I2. destruct I2 as (e' & Ie' & Ib). apply H2. apply in_map_iff. exists e'. split; [|exact Ie'].
    rewrite <- (arcs_of_rxn e a I1), <- (arcs_of_rxn e' b Ib). unfold akey in E. inversion E. reflexivity.
Qed.

(** unique edge ids + sides without repeated species (dicts) => the premise of [undirected_refine] *)
Lemma keys_nodup_of_dicts net : NoDup (map rid net) ->
  (forall e, In e net -> NoDup (map fst (rlhs e)) /\ NoDup (map fst (rrhs e))) ->
  NoDup (map (fun a => (a_species a, a_rxn a, a_role a)) (bip_arcs net)).
Proof.
  intros H Hd. unfold bip_arcs. apply (flat_keys (edges_sorted net)).
  - eapply NoDup_rid_perm; [apply edges_sorted_perm|exact H].
  - intros e I. apply Hd. apply in_edges_sorted. exact I.
Qed.

(* ------------------------------------------------------------------ the direction of an arc plays no part *)

Definition rev_arc (x : rarc) : rarc := RArc (ra_v x) (ra_u x) (ra_role x) (ra_stoich x).

Lemma species_index_bound G u idx : index_get (species_index G) u = Some idx -> idx < length (species_index G).
Proof.
  unfold species_index. rewrite combine_length, map_length, seq_length, Nat.min_id. apply index_get_lt.
Qed.

Lemma node_vec_nth G ro r i : i < length (species_index G) ->
  length (node_vec G ro r) = length (species_index G) /\
  nth i (node_vec G ro r) 0%Z = csum (contrib (species_index G) r ro i) (incident (rg_arcs G) r).
Proof.
  intros Hi. set (n := length (species_index G)).
  pose proof (acc_fold (species_index G) r n (species_index_bound G) (incident (rg_arcs G) r) (repeat 0%Z n, repeat 0%Z n)
                (repeat_length _ _) (repeat_length _ _)) as (L1 & L2 & Hnth).
  destruct (Hnth i Hi) as [H1 H2]. cbn [fst snd] in H1, H2. rewrite nth_repeat in H1, H2.
  unfold node_vec, node_vecs. fold n. destruct ro; (split; [assumption|]); [rewrite H1|rewrite H2]; lia.
Qed.

Lemma incident_csum (f : rarc -> Z) arcs r :
  csum f (incident arcs r) = csum (fun x => ((if N.eqb (ra_v x) r then f x else 0) + (if N.eqb (ra_u x) r then f x else 0))%Z) arcs.
Proof. unfold incident. rewrite csum_app, !csum_filter, csum_plus. reflexivity. Qed.

Lemma contrib_rev si r ro i x :
  ((if N.eqb (ra_v (rev_arc x)) r then contrib si r ro i (rev_arc x) else 0) +
   (if N.eqb (ra_u (rev_arc x)) r then contrib si r ro i (rev_arc x) else 0))%Z
  = ((if N.eqb (ra_v x) r then contrib si r ro i x else 0) + (if N.eqb (ra_u x) r then contrib si r ro i x else 0))%Z.
Proof.
  unfold contrib, rev_arc, coeff. simpl.
  destruct (N.eqb_spec (ra_u x) r) as [Eu|Nu], (N.eqb_spec (ra_v x) r) as [Ev|Nv]; try lia.
  rewrite Eu, Ev. lia.
Qed.

Lemma csum_forall2 {A} (f g : A -> Z) l l' : Forall2 (fun x y => g y = f x) l l' -> csum g l' = csum f l.
Proof. induction 1 as [|x y l l' H _ IH]; simpl; [reflexivity|]. rewrite H, IH. reflexivity. Qed.

Lemma forall2_impl {A B} (P Q : A -> B -> Prop) l l' : (forall x y, P x y -> Q x y) -> Forall2 P l l' -> Forall2 Q l l'.
Proof. intros H. induction 1; constructor; auto. Qed.

Lemma fold_cstepN_ext (v1 v2 : role -> N -> list Z) l : (forall ro r, v1 ro r = v2 ro r) ->
  forall st, fold_left (cstepN v1) l st = fold_left (cstepN v2) l st.
Proof.
  intros H. induction l as [|r l IH]; intros st; simpl; [reflexivity|].
  assert (E : cstepN v1 st r = cstepN v2 st r) by (unfold cstepN; destruct st; rewrite !H; reflexivity).
  rewrite E. apply IH.
Qed.

(** reversing any set of arcs (keeping role and coefficient) changes neither a vector nor the complex graph: the role, not the
    direction, says on which side of the reaction a species stands *)
Theorem direction_irrelevant ns A A' : Forall2 (fun x y => y = x \/ y = rev_arc x) A A' ->
  (forall ro r, node_vec (RG ns A') ro r = node_vec (RG ns A) ro r) /\
  complex_graph_nodes (RG ns A') = complex_graph_nodes (RG ns A).
Proof.
  intros HA.
  assert (V : forall ro r, node_vec (RG ns A') ro r = node_vec (RG ns A) ro r).
  { intros ro r. assert (SI : species_index (RG ns A') = species_index (RG ns A)) by reflexivity.
    apply (nth_ext _ _ 0%Z 0%Z).
    - destruct (Nat.eq_dec (length (species_index (RG ns A))) 0) as [Z0|NZ].
      + unfold node_vec, node_vecs. rewrite SI, Z0. simpl.
        assert (forall l st, fst st = [] -> snd st = [] ->
                  fst (fold_left (acc_arc (species_index (RG ns A)) r) l st) = [] /\ snd (fold_left (acc_arc (species_index (RG ns A)) r) l st) = []) as K.
        { induction l as [|a l IH]; intros st E1 E2; simpl; [split; assumption|]. apply IH; unfold acc_arc;
            destruct (index_get _ _); try assumption; destruct (ra_role a) as [[|]|]; simpl; try assumption; rewrite ?E1, ?E2; destruct n; reflexivity. }
        destruct (K (incident A' r) ([], []) eq_refl eq_refl) as [K1 K2]. destruct (K (incident A r) ([], []) eq_refl eq_refl) as [K3 K4].
        simpl rg_arcs. destruct ro; [rewrite K1, K3|rewrite K2, K4]; reflexivity.
      + assert (P : 0 < length (species_index (RG ns A))) by lia.
        rewrite (proj1 (node_vec_nth (RG ns A') ro r 0 (eq_ind_r (fun t => 0 < length t) P SI))).
        rewrite (proj1 (node_vec_nth (RG ns A) ro r 0 P)). rewrite SI. reflexivity.
    - intros i Hi.
      assert (Hi' : i < length (species_index (RG ns A))).
      { destruct (Nat.eq_dec (length (species_index (RG ns A))) 0) as [Z0|NZ].
        - exfalso. revert Hi. unfold node_vec, node_vecs. rewrite SI, Z0. simpl.
          assert (forall l st, fst st = [] -> snd st = [] ->
                    fst (fold_left (acc_arc (species_index (RG ns A)) r) l st) = [] /\ snd (fold_left (acc_arc (species_index (RG ns A)) r) l st) = []) as K.
          { induction l as [|a l IH]; intros st E1 E2; simpl; [split; assumption|]. apply IH; unfold acc_arc;
              destruct (index_get _ _); try assumption; destruct (ra_role a) as [[|]|]; simpl; try assumption; rewrite ?E1, ?E2; destruct n; reflexivity. }
          destruct (K (incident A' r) ([], []) eq_refl eq_refl) as [K1 K2]. simpl rg_arcs. destruct ro; [rewrite K1|rewrite K2]; simpl; lia.
        - rewrite (proj1 (node_vec_nth (RG ns A') ro r 0 (eq_ind_r (fun t => 0 < length t) (proj1 (Nat.neq_0_lt_0 _) NZ) SI))) in Hi.
          rewrite SI in Hi. exact Hi. }
      rewrite (proj2 (node_vec_nth (RG ns A') ro r i (eq_ind_r (fun t => i < length t) Hi' SI))).
      rewrite (proj2 (node_vec_nth (RG ns A) ro r i Hi')). rewrite SI. simpl rg_arcs.
      rewrite !incident_csum. apply csum_forall2.
      eapply forall2_impl; [|exact HA]. intros x y [->| ->]; [reflexivity|apply contrib_rev]. }
  split; [exact V|]. unfold complex_graph_nodes.
  change (species_nodes (RG ns A')) with (species_nodes (RG ns A)). change (reaction_nodes (RG ns A')) with (reaction_nodes (RG ns A)).
  destruct (species_nodes (RG ns A)); [reflexivity|]. destruct (reaction_nodes (RG ns A)); [reflexivity|].
  f_equal. apply fold_cstepN_ext. exact V.
Qed.

(* ------------------------------------------------------------------ the order of the arcs plays no part either *)

Lemma node_vec_len G ro r : length (node_vec G ro r) = length (species_index G).
Proof.
  set (n := length (species_index G)).
  pose proof (acc_fold (species_index G) r n (species_index_bound G) (incident (rg_arcs G) r) (repeat 0%Z n, repeat 0%Z n)
                (repeat_length _ _) (repeat_length _ _)) as (L1 & L2 & _).
  unfold node_vec, node_vecs. fold n. destruct ro; assumption.
Qed.

Lemma node_vec_ext ns A A' :
  (forall ro r i, i < length (species_index (RG ns A)) ->
     csum (contrib (species_index (RG ns A)) r ro i) (incident A' r) = csum (contrib (species_index (RG ns A)) r ro i) (incident A r)) ->
  forall ro r, node_vec (RG ns A') ro r = node_vec (RG ns A) ro r.
Proof.
  intros H ro r. assert (SI : species_index (RG ns A') = species_index (RG ns A)) by reflexivity.
  apply (nth_ext _ _ 0%Z 0%Z); [rewrite !node_vec_len, SI; reflexivity|].
  intros i Hi. rewrite node_vec_len, SI in Hi.
  rewrite (proj2 (node_vec_nth (RG ns A') ro r i (eq_ind_r (fun t => i < length t) Hi SI))).
  rewrite (proj2 (node_vec_nth (RG ns A) ro r i Hi)). rewrite SI. simpl rg_arcs. apply H. exact Hi.
Qed.

Lemma complex_graph_nodes_ext ns A A' : (forall ro r, node_vec (RG ns A') ro r = node_vec (RG ns A) ro r) ->
  complex_graph_nodes (RG ns A') = complex_graph_nodes (RG ns A).
Proof.
  intros V. unfold complex_graph_nodes.
  change (species_nodes (RG ns A')) with (species_nodes (RG ns A)). change (reaction_nodes (RG ns A')) with (reaction_nodes (RG ns A)).
  destruct (species_nodes (RG ns A)); [reflexivity|]. destruct (reaction_nodes (RG ns A)); [reflexivity|].
  f_equal. apply fold_cstepN_ext. exact V.
Qed.

Lemma csum_perm {A} (f : A -> Z) l l' : Permutation l l' -> csum f l = csum f l'.
Proof. induction 1; simpl; lia. Qed.

(** ... so the vectors and the complex graph depend only on the MULTISET of incidences *)
Theorem arc_order_irrelevant ns A A' : Permutation A A' ->
  (forall ro r, node_vec (RG ns A') ro r = node_vec (RG ns A) ro r) /\
  complex_graph_nodes (RG ns A') = complex_graph_nodes (RG ns A).
Proof.
  intros P. assert (V : forall ro r, node_vec (RG ns A') ro r = node_vec (RG ns A) ro r).
  { apply node_vec_ext. intros ro r i _. rewrite !incident_csum. symmetry. apply csum_perm. exact P. }
  split; [exact V|apply complex_graph_nodes_ext; exact V].
Qed.

Lemma forall2_perm_map {A B C} (R : A -> B -> Prop) (g : C -> B) E E0 : Permutation E E0 ->
  forall L, Forall2 R E0 (map g L) -> exists L', Permutation L' L /\ Forall2 R E (map g L').
Proof.
  induction 1 as [|x l l' P IH|x y l|l l1 l2 P1 IH1 P2 IH2]; intros L H.
  - destruct L; inversion H. exists []. split; constructor.
  - destruct L as [|c L]; inversion H; subst. destruct (IH L H5) as (L' & PL & F). exists (c :: L'). split; [constructor; exact PL|constructor; assumption].
  - destruct L as [|c [|d L]]; inversion H as [|? ? ? ? Hx H']; subst; inversion H' as [|? ? ? ? Hy H'']; subst.
    exists (d :: c :: L). split; [apply perm_swap|constructor; [exact Hy|constructor; [exact Hx|exact H'']]].
  - destruct (IH2 L H) as (L1 & PL1 & F1). destruct (IH1 L1 F1) as (L2 & PL2 & F2). exists L2. split; [eapply Permutation_trans; eassumption|exact F2].
Qed.

(* ------------------------------------------------------------------ undirected input: orientation by role *)

Lemma find_app_none {A} (p : A -> bool) l1 l2 : (forall x, In x l1 -> p x = false) -> find p (l1 ++ l2) = find p l2.
Proof.
  induction l1 as [|a l1 IH]; intros H; simpl; [reflexivity|]. rewrite (H a (or_introl eq_refl)). apply IH.
  intros x I. apply H. right. exact I.
Qed.
Lemma find_map_some {A B} (p : B -> bool) (g : A -> B) l rest x : In x l -> p (g x) = true ->
  exists x', In x' l /\ p (g x') = true /\ find p (map g l ++ rest) = Some (g x').
Proof.
  induction l as [|a l IH]; intros I Hp; [destruct I|]. simpl. destruct (p (g a)) eqn:E.
  - exists a. split; [left; reflexivity|]. split; [exact E|reflexivity].
  - destruct I as [->|I]; [congruence|]. destruct (IH I Hp) as (x' & I' & Hp' & F). exists x'. split; [right; exact I'|]. split; assumption.
Qed.

(** an undirected edge is a re-orientation of a directed arc: same attributes, same two ends *)
Definition reor (e x : rarc) : Prop :=
  ra_role e = ra_role x /\ ra_stoich e = ra_stoich x /\
  ((ra_u e = ra_u x /\ ra_v e = ra_v x) \/ (ra_u e = ra_v x /\ ra_v e = ra_u x)).

Section Orient.
Variables (ids idr : str -> N) (net : list rxn) (iso : list str).
Hypothesis ids_inj : forall s s', In s (species_set net iso) -> In s' (species_set net iso) -> ids s = ids s' -> s = s'.
Hypothesis idr_inj : forall e e', In e net -> In e' net -> idr (rid e) = idr (rid e') -> rid e = rid e'.
Hypothesis disjoint : forall s e, In s (species_set net iso) -> In e net -> ids s <> idr (rid e).
(** the sides are dicts: no two incidences with the same species, reaction and role *)
Hypothesis keys_nodup : NoDup (map (fun a => (a_species a, a_rxn a, a_role a)) (bip_arcs net)).

Let G := raw_export ids idr net iso.
Let ns := rg_nodes G.
Notation gsn := (gsn ids).
Notation grn := (grn idr).
Notation gan := (gan ids idr).

Lemma ns_eq : ns = map gsn (species_set net iso) ++ map grn (edges_sorted net).
Proof. reflexivity. Qed.

Lemma is_rxn_species s : In s (species_set net iso) -> u_is_rxn ns (ids s) = false.
Proof.
  intros I. unfold u_is_rxn, node_of. rewrite ns_eq.
  destruct (find_map_some (fun n => N.eqb (rn_id n) (ids s)) gsn (species_set net iso) (map grn (edges_sorted net)) s I (N.eqb_refl _))
    as (s' & _ & _ & ->). reflexivity.
Qed.
Lemma is_rxn_reaction e : In e net -> u_is_rxn ns (idr (rid e)) = true.
Proof.
  intros I. unfold u_is_rxn, node_of. rewrite ns_eq. rewrite find_app_none.
  - rewrite <- (app_nil_r (map grn (edges_sorted net))).
    destruct (find_map_some (fun n => N.eqb (rn_id n) (idr (rid e))) grn (edges_sorted net) [] e
                (proj2 (in_edges_sorted net e) I) (N.eqb_refl _)) as (e' & _ & _ & ->). reflexivity.
  - intros x Ix. apply in_map_iff in Ix. destruct Ix as (s & <- & Is). simpl. apply N.eqb_neq. apply disjoint; assumption.
Qed.

Definition okA (a : arc) : Prop := In (a_species a) (species_set net iso) /\ exists e, In e net /\ a_rxn a = rid e.
Lemma okA_bip a : In a (bip_arcs net) -> okA a.
Proof.
  intros I. destruct (proj1 (Forall_forall _ _) (C17_Nodes.arcs_ok idr net iso idr_inj) a I) as (Is & e & Ie & Er).
  split; [apply sp_in; exact Is|]. exists e. split; [apply rx_in; exact Ie|exact Er].
Qed.

Lemma orient_pair_export a e : okA a -> reor e (gan a) -> orient_pair ns e = (ra_u (gan a), ra_v (gan a)).
Proof.
  intros (Is & e' & Ie' & Er) (Hr & _ & Hor). unfold orient_pair. rewrite Hr.
  pose proof (is_rxn_species _ Is) as Hs. pose proof (is_rxn_reaction _ Ie') as Hx. rewrite <- Er in Hx.
  unfold C19_NodesProof.gan in *. destruct (a_role a); simpl in *; destruct Hor as [[-> ->]|[-> ->]]; rewrite ?Hs, ?Hx; reflexivity.
Qed.

Lemma gan_pair_inj a a' : okA a -> okA a' ->
  ra_u (gan a) = ra_u (gan a') -> ra_v (gan a) = ra_v (gan a') ->
  (a_species a, a_rxn a, a_role a) = (a_species a', a_rxn a', a_role a').
Proof.
  intros (Is & e & Ie & Er) (Is' & e' & Ie' & Er'). unfold C19_NodesProof.gan.
  destruct (a_role a), (a_role a'); simpl; intros H1 H2.
  - rewrite (ids_inj _ _ Is Is' H1). rewrite Er, Er' in *. rewrite (idr_inj _ _ Ie Ie' H2). reflexivity.
  - exfalso. rewrite Er' in H1. exact (disjoint _ _ Is Ie' H1).
  - exfalso. rewrite Er in H1. exact (disjoint _ _ Is' Ie (eq_sym H1)).
  - rewrite (ids_inj _ _ Is Is' H2). rewrite Er, Er' in *. rewrite (idr_inj _ _ Ie Ie' H1). reflexivity.
Qed.

Lemma rarc_eta x : RArc (ra_u x) (ra_v x) (ra_role x) (ra_stoich x) = x.
Proof. destruct x; reflexivity. Qed.

Lemma orient_fold L : Forall okA L -> NoDup (map (fun a => (a_species a, a_rxn a, a_role a)) L) ->
  forall E D0, Forall2 reor E (map gan L) ->
  (forall x a, In x D0 -> In a L -> ~ (ra_u x = ra_u (gan a) /\ ra_v x = ra_v (gan a))) ->
  fold_left (orient_step ns) E D0 = D0 ++ map gan L.
Proof.
  induction L as [|a L IH]; intros Hok Hnd E D0 HE Hfree.
  - inversion HE; subst. simpl. rewrite app_nil_r. reflexivity.
  - simpl in HE. inversion HE as [|e ? E' ? He HE']; subst. simpl.
    inversion Hok as [|? ? Hoka Hok']; subst. simpl in Hnd. inversion Hnd as [|? ? Hnotin Hnd']; subst.
    assert (Hstep : orient_step ns D0 e = D0 ++ [gan a]).
    { unfold orient_step. rewrite (orient_pair_export a e Hoka He). simpl fst. simpl snd.
      assert (X : existsb (same_arc (ra_u (gan a)) (ra_v (gan a))) D0 = false).
      { apply not_true_is_false. intros X. apply existsb_exists in X. destruct X as (x & Ix & Hx).
        unfold same_arc in Hx. apply andb_true_iff in Hx. destruct Hx as [H1 H2]. apply N.eqb_eq in H1, H2.
        apply (Hfree x a Ix (or_introl eq_refl)). split; assumption. }
      rewrite X. destruct He as (Hr & Hst & _). rewrite Hr, Hst, rarc_eta. reflexivity. }
    rewrite Hstep. rewrite (IH Hok' Hnd' E' (D0 ++ [gan a]) HE').
    + rewrite <- app_assoc. reflexivity.
    + intros x a' Ix Ia' [H1 H2]. apply in_app_iff in Ix. destruct Ix as [Ix|[<-|[]]].
      * apply (Hfree x a' Ix (or_intror Ia')). split; assumption.
      * apply Hnotin. rewrite (gan_pair_inj a a' Hoka (proj1 (Forall_forall _ _) Hok' a' Ia') H1 H2).
        apply (in_map (fun a => (a_species a, a_rxn a, a_role a))). exact Ia'.
Qed.

(** an undirected (multi)graph with the nodes and incidences of the export, each incidence listed in either orientation, is
    turned by _as_bipartite into exactly the directed export, hence gives the label-level complex graph *)
Theorem undirected_refine E : Forall2 reor E (rg_arcs G) -> net <> [] -> species_set net iso <> [] ->
  as_bipartite_undirected (RG ns E) = G /\
  complex_graph_nodes (as_bipartite_undirected (RG ns E)) = Some (complex_graph net iso).
Proof.
  intros HE NE SE.
  assert (EQ : as_bipartite_undirected (RG ns E) = G).
  { unfold as_bipartite_undirected, orient. simpl rg_nodes. simpl rg_arcs.
    rewrite (orient_fold (bip_arcs net)); [reflexivity| | |exact HE|intros x a []].
    - apply Forall_forall. exact okA_bip.
    - exact keys_nodup. }
  split; [exact EQ|]. rewrite EQ. apply nodes_refine; assumption.
Qed.
(** the same when the incidences are listed in ANY order *)
Theorem undirected_refine_perm E E0 : Permutation E E0 -> Forall2 reor E0 (rg_arcs G) -> net <> [] -> species_set net iso <> [] ->
  complex_graph_nodes (as_bipartite_undirected (RG ns E)) = Some (complex_graph net iso).
Proof.
  intros P HE NE SE. unfold G, raw_export in HE. simpl rg_arcs in HE.
  change (map (fun a => match a_role a with
    | Reactant => RArc (ids (a_species a)) (idr (a_rxn a)) (Some Reactant) (Some (a_stoich a))
    | Product => RArc (idr (a_rxn a)) (ids (a_species a)) (Some Product) (Some (a_stoich a)) end) (bip_arcs net))
    with (map gan (bip_arcs net)) in HE.
  destruct (forall2_perm_map reor gan E E0 P (bip_arcs net) HE) as (L' & PL & F).
  assert (EQ : as_bipartite_undirected (RG ns E) = RG ns (map gan L')).
  { unfold as_bipartite_undirected, orient. simpl rg_nodes. simpl rg_arcs. f_equal.
    rewrite (orient_fold L'); [reflexivity| | |exact F|intros x a []].
    - apply Forall_forall. intros a Ia. apply okA_bip. eapply Permutation_in; [exact PL|exact Ia].
    - eapply Permutation_NoDup; [apply Permutation_map, Permutation_sym, PL|exact keys_nodup]. }
  rewrite EQ. rewrite (proj2 (arc_order_irrelevant ns (map gan (bip_arcs net)) (map gan L') (Permutation_map gan (Permutation_sym PL)))).
  apply (nodes_refine ids idr net iso ids_inj idr_inj disjoint NE SE).
Qed.
End Orient.

(* non-vacuity: A + B <-> C, C -> 2A with species identifiers 11, 2, 10 and reaction identifiers 7, 3, 5 *)
Definition exn_G : rgraph :=
  raw_export (look (species_set C19_Complexes.ex_net []) [11%N; 2%N; 10%N])
             (look (map rid (edges_sorted C19_Complexes.ex_net)) [7%N; 3%N; 5%N]) C19_Complexes.ex_net [].
Example ex_nodes : complex_graph_nodes exn_G = Some (complex_graph C19_Complexes.ex_net []) /\
  map rn_id (rg_nodes exn_G) = [11%N; 2%N; 10%N; 7%N; 3%N; 5%N].
Proof. split; vm_compute; reflexivity. Qed.

(** attribute rules on a hand-made graph: node 1 (no kind, flag 0, no label -> "1"), node 2 ("species", label "B"), node 3
    (kind "reaction" but flag 0: a SPECIES), node 4 (flag 1): arcs 1 -> 4 (reactant, no stoich = 1), 4 -> 2 (product, 2),
    2 -> 4 written backwards as 4 -> 2 is one arc only; 3 -> 4 without role is ignored *)
Definition exn_raw : rgraph :=
  RG [RNode 1 None (Some 0%Z) None [49%N]; RNode 2 (Some 0) None (Some [66%N]) [50%N];
      RNode 3 (Some 1) (Some 0%Z) (Some [67%N]) [51%N]; RNode 4 None (Some 1%Z) None [52%N]]
     [RArc 1 4 (Some Reactant) None; RArc 4 2 (Some Product) (Some 2%Z); RArc 3 4 None (Some 5%Z)].
Example ex_raw_attributes :
  map eff_label (species_sorted exn_raw) = [[49%N]; [66%N]; [67%N]] /\ map rn_id (reaction_nodes exn_raw) = [4%N] /\
  complex_graph_nodes exn_raw = Some ([[1; 0; 0]; [0; 2; 0]]%Z, [(0, 1)]).
Proof. repeat split; vm_compute; reflexivity. Qed.

(* the same export handed over as an undirected graph with some edges listed reaction-first *)
Definition exn_U : list rarc :=
  map (fun x => if N.eqb (ra_v x) 7 then RArc (ra_v x) (ra_u x) (ra_role x) (ra_stoich x) else x) (rg_arcs exn_G).
Example ex_undirected : as_bipartite_undirected (RG (rg_nodes exn_G) exn_U) = exn_G /\ exn_U <> rg_arcs exn_G /\
  orient [RNode 1 (Some 0) None None []; RNode 2 (Some 1) None None []]
         [RArc 2 1 (Some Reactant) None; RArc 1 2 (Some Reactant) (Some 2%Z); RArc 1 2 (Some Product) (Some 3%Z)]
  = [RArc 1 2 (Some Reactant) (Some 3%Z); RArc 2 1 (Some Product) (Some 3%Z)].
Proof. split; [vm_compute; reflexivity|]. split; [vm_compute; discriminate|vm_compute; reflexivity]. Qed.

Example ex_direction :
  complex_graph_nodes (RG (rg_nodes exn_raw) (map rev_arc (rg_arcs exn_raw))) = complex_graph_nodes exn_raw /\
  map rev_arc (rg_arcs exn_raw) <> rg_arcs exn_raw /\
  NoDup (map (fun a => (a_species a, a_rxn a, a_role a)) (bip_arcs C19_Complexes.ex_net)).
Proof. split; [vm_compute; reflexivity|]. split; [vm_compute; discriminate|]. apply keys_nodup_of_dicts; vm_compute.
  - repeat constructor; simpl; intuition discriminate.
  - intros e [<-|[<-|[<-|[]]]]; split; repeat constructor; simpl; intuition discriminate.
Qed.

(* ------------------------------------------------------------------ the reading rules for attributes, stated *)

(** classification: "species" (kind) or flag 0 makes a species — even when the other attribute says reaction; a reaction
    needs kind "reaction" or flag 1 and must not be a species; a node with neither attribute (or other values) is neither *)
Theorem classification_spec n :
  (is_species n = true <-> rn_kind n = Some 0 \/ rn_bflag n = Some 0%Z) /\
  (is_reaction n = true <-> is_species n = false /\ (rn_kind n = Some 1 \/ rn_bflag n = Some 1%Z)) /\
  (is_species n = true -> is_reaction n = false).
Proof.
  unfold is_reaction, is_species, kind_is, bflag_is.
  destruct (rn_kind n) as [[|[|k]]|], (rn_bflag n) as [[|[|p|]|p]|]; simpl;
    repeat split; intros; try discriminate; try tauto; try (left; reflexivity); try (right; reflexivity);
    repeat match goal with H : _ \/ _ |- _ => destruct H | H : _ /\ _ |- _ => destruct H end; try discriminate; try congruence.
Qed.

Definition with_default_stoich (a : rarc) : rarc := RArc (ra_u a) (ra_v a) (ra_role a) (Some (coeff a)).
Definition counts_for (G : rgraph) (r : N) (a : rarc) : bool :=
  match ra_role a, index_get (species_index G) (if N.eqb (ra_u a) r then ra_v a else ra_u a) with
  | Some _, Some _ => true
  | _, _ => false
  end.

Lemma fold_acc_ext si r (f : rarc -> rarc) l : (forall a st, acc_arc si r st (f a) = acc_arc si r st a) ->
  forall st, fold_left (acc_arc si r) (map f l) st = fold_left (acc_arc si r) l st.
Proof. intros H. induction l as [|a l IH]; intros st; simpl; [reflexivity|]. rewrite H. apply IH. Qed.
Lemma fold_acc_filter si r (p : rarc -> bool) l : (forall a st, p a = false -> acc_arc si r st a = st) ->
  forall st, fold_left (acc_arc si r) (filter p l) st = fold_left (acc_arc si r) l st.
Proof.
  intros H. induction l as [|a l IH]; intros st; simpl; [reflexivity|]. destruct (p a) eqn:E; simpl; [apply IH|].
  rewrite (H a st E). apply IH.
Qed.
Lemma filter_map_comm {A} (p : A -> bool) (f : A -> A) l : (forall a, p (f a) = p a) -> filter p (map f l) = map f (filter p l).
Proof. intros H. induction l as [|a l IH]; simpl; [reflexivity|]. rewrite H. destruct (p a); simpl; rewrite IH; reflexivity. Qed.
Lemma filter_filter_comm {A} (p q : A -> bool) l : filter p (filter q l) = filter q (filter p l).
Proof. induction l as [|a l IH]; simpl; [reflexivity|]. destruct (p a) eqn:P, (q a) eqn:Q; simpl; rewrite ?P, ?Q, IH; reflexivity. Qed.

(** an arc without a stoich attribute counts with coefficient 1; an arc without (or with an unknown) role, and an arc whose other
    end is not a species node, contribute nothing to the vectors of a reaction node *)
Theorem attribute_defaults ns A r :
  node_vecs (RG ns (map with_default_stoich A)) r = node_vecs (RG ns A) r /\
  node_vecs (RG ns (filter (counts_for (RG ns A) r) A)) r = node_vecs (RG ns A) r.
Proof.
  split.
  - unfold node_vecs. change (species_index (RG ns (map with_default_stoich A))) with (species_index (RG ns A)). simpl rg_arcs.
    unfold incident. rewrite !(filter_map_comm _ with_default_stoich) by reflexivity. rewrite <- map_app.
    apply fold_acc_ext. intros a st. unfold acc_arc, with_default_stoich, coeff. simpl. reflexivity.
  - unfold node_vecs. change (species_index (RG ns (filter (counts_for (RG ns A) r) A))) with (species_index (RG ns A)). simpl rg_arcs.
    unfold incident. rewrite !(filter_filter_comm _ (counts_for (RG ns A) r)). rewrite <- filter_app.
    apply fold_acc_filter. intros a st H. unfold counts_for in H. unfold acc_arc.
    destruct (ra_role a) as [ro|]; destruct (index_get _ _); try reflexivity; discriminate.
Qed.

Example ex_attribute_rules :
  is_species (RNode 3 (Some 1) (Some 0%Z) None []) = true /\ is_reaction (RNode 3 (Some 1) (Some 0%Z) None []) = false /\
  is_reaction (RNode 4 (Some 2) (Some 1%Z) None []) = true /\ is_species (RNode 5 None None None []) = false /\
  node_vecs exn_raw 4 = ([1; 0; 0]%Z, [0; 2; 0]%Z) /\ filter (counts_for exn_raw 4) (rg_arcs exn_raw) = firstn 2 (rg_arcs exn_raw).
Proof. repeat split; vm_compute; reflexivity. Qed.

Lemma attribute_rules :
  (forall n, (is_species n = true <-> rn_kind n = Some 0 \/ rn_bflag n = Some 0%Z) /\
             (is_reaction n = true <-> is_species n = false /\ (rn_kind n = Some 1 \/ rn_bflag n = Some 1%Z)) /\
             (is_species n = true -> is_reaction n = false)) /\
  (forall ns A r,
     node_vecs (RG ns (map (fun a => RArc (ra_u a) (ra_v a) (ra_role a) (Some (match ra_stoich a with Some c => c | None => 1%Z end))) A)) r
       = node_vecs (RG ns A) r /\
     node_vecs (RG ns (filter (counts_for (RG ns A) r) A)) r = node_vecs (RG ns A) r).
Proof. split; [exact classification_spec|exact attribute_defaults]. Qed.

(** the species labels in index order, and the node counts, of the export are those of the label-level model *)
Lemma nodes_labels ids idr net iso :
  map eff_label (species_sorted (raw_export ids idr net iso)) = species_order net iso /\
  length (species_nodes (raw_export ids idr net iso)) = length (species_order net iso) /\
  length (reaction_nodes (raw_export ids idr net iso)) = length (reaction_order net).
Proof.
  rewrite G_species_sorted, G_species_nodes, G_reaction_nodes, map_map, !map_length. split; [apply map_id|]. split.
  - rewrite species_order_eq. reflexivity.
  - apply Permutation_length. eapply Permutation_trans; [apply edges_sorted_perm|apply Permutation_sym, reaction_order_perm].
Qed.

Example ex_arc_order :
  complex_graph_nodes (RG (rg_nodes exn_raw) (rev (rg_arcs exn_raw))) = complex_graph_nodes exn_raw /\ rev (rg_arcs exn_raw) <> rg_arcs exn_raw /\
  complex_graph_nodes (as_bipartite_undirected (RG (rg_nodes exn_G) (rev exn_U))) = Some (complex_graph C19_Complexes.ex_net []) /\
  as_bipartite_undirected (RG (rg_nodes exn_G) (rev exn_U)) <> exn_G.
Proof. split; [vm_compute; reflexivity|]. split; [vm_compute; discriminate|]. split; [vm_compute; reflexivity|vm_compute; discriminate]. Qed.

(* ------------------------------------------------------------------ parallel arcs add up (multigraph inputs) *)

Lemma csum_cons {A} (f : A -> Z) a l : csum f (a :: l) = (f a + csum f l)%Z.
Proof. reflexivity. Qed.

Lemma contrib_split si r ro i u v role c1 c2 :
  contrib si r ro i (RArc u v role (Some (c1 + c2)%Z)) =
  (contrib si r ro i (RArc u v role (Some c1)) + contrib si r ro i (RArc u v role (Some c2)))%Z.
Proof.
  unfold contrib, coeff. simpl. destruct (index_get si (if N.eqb u r then v else u)); [|reflexivity].
  destruct (Nat.eqb n i); [|reflexivity]. destruct role as [ro'|]; [|reflexivity]. destruct (role_eqb ro' ro); reflexivity.
Qed.

(** a multiset written with a coefficient, as one arc per molecule, or in any batches is the same multiset: splitting an arc of
    coefficient c1 + c2 into two parallel arcs c1, c2 (same ends, same role) changes no vector and not the complex graph *)
Theorem parallel_arcs_add ns pre post u v role c1 c2 :
  let A := pre ++ RArc u v role (Some (c1 + c2)%Z) :: post in
  let A' := pre ++ RArc u v role (Some c1) :: RArc u v role (Some c2) :: post in
  (forall ro r, node_vec (RG ns A') ro r = node_vec (RG ns A) ro r) /\
  complex_graph_nodes (RG ns A') = complex_graph_nodes (RG ns A).
Proof.
  intros A A'. assert (V : forall ro r, node_vec (RG ns A') ro r = node_vec (RG ns A) ro r).
  { apply node_vec_ext. intros ro r i _. set (si := species_index (RG ns A)). rewrite !incident_csum. unfold A, A'.
    rewrite !csum_app, !csum_cons. cbn [ra_u ra_v]. rewrite (contrib_split si r ro i u v role c1 c2).
    destruct (N.eqb v r), (N.eqb u r); lia. }
  split; [exact V|apply complex_graph_nodes_ext; exact V].
Qed.

Example ex_parallel :
  complex_graph_nodes (RG (rg_nodes exn_raw) [RArc 1 4 (Some Reactant) None; RArc 4 2 (Some Product) (Some 1%Z); RArc 4 2 (Some Product) None;
                                                RArc 3 4 None (Some 5%Z)]) = complex_graph_nodes exn_raw.
Proof. vm_compute. reflexivity. Qed.
