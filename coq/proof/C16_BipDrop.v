(** C16 (round 5) — the bipartite round trip survives the removal of every attribute the importer can
    re-derive: `kind` (from the node-id prefixes), `label` (from the node id / the default rule), `mol`
    (labels are then simply absent) and the networkx marker.  Model of the deletions: model/C16_Edit.v. *)
From stdpp Require Import gmap strings sets pretty sorting.
From SK Require Import lib.Tok model.C15_Model proof.C15_Proof model.C16_Model proof.C16_Defs proof.C16_Common
                       proof.C16_BipA proof.C16_BipB model.C16_Edit proof.C16_BipArcs.
Local Open Scope string_scope.
Local Open Scope list_scope.

(** * small generic facts *)
Lemma prefix_app (p s : string) : String.prefix p (p +:+ s) = true.
Proof.
  induction p as [|a p IH]; simpl; [by destruct s|].
  destruct (Ascii.ascii_dec a a) as [_|Hne]; [exact IH|by destruct Hne].
Qed.

Lemma omap_ext_in {A B} (f g : A → option B) (l : list A) : (∀ x, x ∈ l → f x = g x) → omap f l = omap g l.
Proof.
  induction l as [|x l IH]; intros Hfg; [done|]. cbn. rewrite (Hfg x) by (by left).
  rewrite IH; [done|]. intros y Hy. apply Hfg. by right.
Qed.

Lemma foldl_id_step {A B} (f : A → B → A) (s : A) (l : list B) : (∀ acc x, x ∈ l → f acc x = acc) → foldl f s l = s.
Proof.
  revert s. induction l as [|x l IH]; intros s Hf; [done|]. cbn. rewrite (Hf s x) by (by left).
  apply IH. intros acc y Hy. apply Hf. by right.
Qed.

Lemma dom_filter_fmap_in (P : nid * bnode → Prop) `{∀ x, Decision (P x)} (f : bnode → bnode) (m : gmap nid bnode) :
  (∀ n nd, m !! n = Some nd → (P (n, f nd) ↔ P (n, nd))) →
  dom (filter P (f <$> m)) = dom (filter P m).
Proof.
  intros HP. apply set_eq. intros n. rewrite !elem_of_dom. split.
  - intros [nd [Hl Hp]%map_filter_lookup_Some]. rewrite lookup_fmap in Hl.
    destruct (m !! n) as [nd0|] eqn:E; [|done]. cbn in Hl. injection Hl as <-.
    exists nd0. apply map_filter_lookup_Some. split; [done|]. by apply (HP n nd0 E).
  - intros [nd [Hl Hp]%map_filter_lookup_Some]. exists (f nd). apply map_filter_lookup_Some.
    split; [by rewrite lookup_fmap, Hl|]. by apply (HP n nd Hl).
Qed.

(** * the exported graph with string ids: the shape of the node ids *)
Lemma export_spec_str fl H : wf_species H → bip_names_ok fl H → f_int fl = false →
  ∃ Ms Rs, bip_spec fl H (hypergraph_to_bipartite fl H) Ms Rs ∧
    (∀ s n, Ms !! s = Some n → n = inr (default "" (f_sp fl) +:+ s)) ∧
    (∀ e n, Rs !! e = Some n → n = inr (default "" (f_rp fl) +:+ e)).
Proof.
  intros Hwf Hnames Hint. unfold hypergraph_to_bipartite, export_state. fold (st0 fl H).
  set (l := sort_by_key (map_to_list (edges H))).
  assert (l ≡ₚ map_to_list (edges H)) as Hperm by apply merge_sort_Permutation.
  assert (∀ e rx, (e, rx) ∈ l ↔ edges H !! e = Some rx) as Hl.
  { intros e rx. by rewrite Hperm, elem_of_map_to_list. }
  destruct (export_fold fl H l) with (st := st0 fl H) (R := (∅ : gmap string nid)) (D := @nil (string * rxn)) as [R HI].
  - rewrite Hperm. apply NoDup_fst_map_to_list.
  - intros e rx Hin%Hl. split.
    + intros s Hs. apply M_occurring; [done|]. apply elem_of_occurring. eauto.
    + intros _ s n Hs. pose proof (i1_mode _ _ _ (st0_Inv1 fl H) s n Hs) as Hm. unfold sp_mode in Hm. rewrite Hint in Hm.
      subst n. intros [= Hq]. destruct Hnames as [?|Hnm]; [congruence|].
      apply (Hnm s (M_species fl H s _ Hs) e); [|done]. apply elem_of_dom. eauto.
  - apply Inv2_init.
  - intros e _. cbn. apply not_elem_of_nil.
  - cbn [app] in HI. destruct HI as [Hsm Hnodes Harcs HRdom HRinj Hdisj HMm HRm].
    exists (M fl H), R. split; [split; cbn [b_nodes b_arcs]|split].
    + intros n nd. rewrite Hnodes. by setoid_rewrite Hl.
    + intros u v a. rewrite Harcs. unfold arc_spec. by setoid_rewrite Hl.
    + intros e. rewrite HRdom. rewrite elem_of_list_fmap. split.
      * intros ([e' rx] & -> & Hin%Hl). eauto.
      * intros [rx Hrx%Hl]. by exists (e, rx).
    + done.
    + apply M_inj.
    + done.
    + intros s Hs. by apply M_occurring.
    + intros s n Hs. specialize (HMm s n Hs). unfold sp_mode in HMm. by rewrite Hint in HMm.
    + intros e n He. specialize (HRm e n He). unfold rx_mode in HRm. by rewrite Hint in HRm.
Qed.

Definition with_mol (ifl : iflags) (b : bool) : iflags := IFlags (i_sp ifl) (i_rp ifl) (i_default_rule ifl) b.

(** * importing the graph after the deletions = importing the graph as exported *)
Section drop.
  Context (fl : bflags) (ifl : iflags) (d : drops) (H : net) (G : bgraph) (Ms Rs : gmap string nid).
  Context (HS : bip_spec fl H G Ms Rs) (Hwf : wf_rxns H) (Heid : f_eid fl = true).
  (** arcs keep their attributes that are read (`stoich`); `role` is kept too (it is never read, but dropping it changes
      every arc record) *)
  Context (Hst : d_stoich d = false) (Hro : d_role d = false).
  (** species nodes without `kind` / `label`: string ids, recognised by the importer's species prefix; the label is the
      node id itself only when the exporter used no species prefix *)
  Context (HMs : d_kind_sp d = true ∨ d_label_sp d = true → ∀ s n, Ms !! s = Some n → n = inr (default "" (f_sp fl) +:+ s)).
  Context (Hksp : d_kind_sp d = true → i_sp ifl = default "" (f_sp fl)).
  Context (Hlsp : d_label_sp d = true → default "" (f_sp fl) = "").
  (** reaction nodes without `kind`: string ids that the importer's reaction prefix matches and its species prefix does not *)
  Context (HRs : d_kind_rx d = true → ∀ e n, Rs !! e = Some n → n = inr (default "" (f_rp fl) +:+ e)).
  Context (Hkrx : d_kind_rx d = true → i_rp ifl = default "" (f_rp fl) ∧
                    ∀ e, is_Some (edges H !! e) → String.prefix (i_sp ifl) (default "" (f_rp fl) +:+ e) = false).
  (** reaction nodes without `label`: every rule is the importer's default rule *)
  Context (Hlrx : d_label_rx d = true → ∀ e rx, edges H !! e = Some rx → r_rule rx = i_default_rule ifl).

  Lemma drop_arc_id a : drop_arc d a = a.
  Proof. destruct a. unfold drop_arc. cbn. by rewrite Hst, Hro. Qed.
  Lemma drop_arcs : b_arcs (drop_attrs d G) = b_arcs G.
  Proof.
    cbn [drop_attrs b_arcs]. rewrite (map_fmap_ext _ id); [apply map_fmap_id|]. intros ? a _. apply drop_arc_id.
  Qed.
  Lemma drop_lookup n : b_nodes (drop_attrs d G) !! n = drop_node d <$> b_nodes G !! n.
  Proof. cbn [drop_attrs b_nodes]. apply lookup_fmap. Qed.

  Lemma is_rx_sp s : is_rx_node (sp_attrs fl H s) = false.
  Proof. unfold is_rx_node, sp_attrs. cbn. by apply bool_decide_eq_false. Qed.
  Lemma is_rx_rx e rule : is_rx_node (rx_attrs fl e rule) = true.
  Proof. unfold is_rx_node, rx_attrs. cbn. by apply bool_decide_eq_true. Qed.

  Lemma node_cases n nd : b_nodes G !! n = Some nd →
    (∃ s, Ms !! s = Some n ∧ nd = sp_attrs fl H s) ∨
    (∃ e rx, edges H !! e = Some rx ∧ Rs !! e = Some n ∧ nd = rx_attrs fl e (r_rule rx)).
  Proof. apply (bs_nodes _ _ _ _ _ HS). Qed.

  (** ** classification *)
  Lemma sp_iff n nd : b_nodes G !! n = Some nd →
    (bn_kind (drop_node d nd) = Some "species" ∨
     ((bn_kind (drop_node d nd) ≠ Some "species" ∧ bn_kind (drop_node d nd) ≠ Some "reaction") ∧ starts_with (i_sp ifl) n = true))
    ↔ (bn_kind nd = Some "species" ∨
       ((bn_kind nd ≠ Some "species" ∧ bn_kind nd ≠ Some "reaction") ∧ starts_with (i_sp ifl) n = true)).
  Proof.
    intros [(s & Hs & ->)|(e & rx & Hrx & He & ->)]%node_cases.
    - unfold drop_node. rewrite is_rx_sp. cbn. destruct (d_kind_sp d) eqn:Ek.
      + split; [by left|]. intros _. right. split; [done|].
        rewrite (HMs (or_introl eq_refl) s n Hs), (Hksp eq_refl). cbn. apply bool_decide_eq_true, prefix_app.
      + split; intros _; by left.
    - unfold drop_node. rewrite is_rx_rx. cbn. destruct (d_kind_rx d) eqn:Ek.
      + split.
        * intros [?|[_ Hp]]; [done|]. exfalso. destruct (Hkrx eq_refl) as [_ Hno].
          rewrite (HRs eq_refl e n He) in Hp. cbn in Hp. apply bool_decide_eq_true in Hp.
          rewrite Hno in Hp by eauto. done.
        * intros [?|[[_ ?] _]]; done.
      + split; (intros [?|[[_ ?] _]]; done).
  Qed.

  Lemma rx_iff n nd : b_nodes G !! n = Some nd →
    (bn_kind (drop_node d nd) = Some "reaction" ∨
     ((bn_kind (drop_node d nd) ≠ Some "species" ∧ bn_kind (drop_node d nd) ≠ Some "reaction") ∧
      starts_with (i_sp ifl) n = false ∧ starts_with (i_rp ifl) n = true))
    ↔ (bn_kind nd = Some "reaction" ∨
       ((bn_kind nd ≠ Some "species" ∧ bn_kind nd ≠ Some "reaction") ∧
        starts_with (i_sp ifl) n = false ∧ starts_with (i_rp ifl) n = true)).
  Proof.
    intros [(s & Hs & ->)|(e & rx & Hrx & He & ->)]%node_cases.
    - unfold drop_node. rewrite is_rx_sp. cbn. destruct (d_kind_sp d) eqn:Ek.
      + split.
        * intros [?|[_ [Hp _]]]; [done|]. exfalso.
          rewrite (HMs (or_introl eq_refl) s n Hs), (Hksp eq_refl) in Hp. cbn in Hp. apply bool_decide_eq_false in Hp.
          apply Hp, prefix_app.
        * intros [?|[[? _] _]]; done.
      + split; (intros [?|[[? _] _]]; done).
    - unfold drop_node. rewrite is_rx_rx. cbn. destruct (d_kind_rx d) eqn:Ek.
      + split; [by left|]. intros _. right. split; [done|]. destruct (Hkrx eq_refl) as [Hq Hno].
        rewrite (HRs eq_refl e n He). cbn. split.
        * apply bool_decide_eq_false. rewrite Hno by eauto. done.
        * rewrite Hq. apply bool_decide_eq_true, prefix_app.
      + split; intros _; by left.
  Qed.

  Lemma classify_drop : classify ifl (drop_attrs d G) = classify ifl G.
  Proof.
    unfold classify. cbv zeta. rewrite drop_arcs. cbn [b_nodes drop_attrs].
    rewrite !(dom_filter_fmap_in _ (drop_node d)); [done| |].
    - intros n nd Hn. exact (rx_iff n nd Hn).
    - intros n nd Hn. exact (sp_iff n nd Hn).
  Qed.

  (** ** labels and coefficient maps *)
  Lemma node_label_drop_sp s n : Ms !! s = Some n → node_label (drop_attrs d G) n = node_label G n.
  Proof.
    intros Hs. rewrite (label_of_species fl H G Ms Rs HS s n Hs). unfold node_label.
    rewrite drop_lookup, (node_of_species fl H G Ms Rs HS s n Hs). cbn. unfold drop_node. rewrite is_rx_sp. cbn.
    destruct (d_label_sp d) eqn:El; [|done]. cbn.
    rewrite (HMs (or_intror eq_refl) s n Hs), (Hlsp eq_refl). done.
  Qed.

  Context (spN rxN : gset nid).
  Context (HspN : ∀ n, n ∈ spN ↔ ∃ s, Ms !! s = Some n) (HrxN : ∀ n, n ∈ rxN ↔ ∃ e, Rs !! e = Some n).

  Lemma side_map_drop rnd inc : side_map (drop_attrs d G) spN rnd inc = side_map G spN rnd inc.
  Proof.
    unfold side_map, side_contribs. rewrite drop_arcs. f_equal. apply omap_ext_in.
    intros [[u v] a] _. cbn. destruct (decide _) as [[_ Hin]|]; [|done].
    apply HspN in Hin as [s Hs]. by rewrite (node_label_drop_sp s _ Hs).
  Qed.

  Lemma import_rxn_drop b acc rnd : rnd ∈ rxN →
    import_rxn ifl (drop_attrs d G) spN acc rnd = import_rxn (with_mol ifl b) G spN acc rnd.
  Proof.
    intros [e He]%HrxN. unfold import_rxn. destruct acc as [s [er|]]; [done|]. cbv zeta.
    rewrite !side_map_drop, drop_lookup.
    destruct (proj1 (bs_Rdom _ _ _ _ _ HS e)) as [rx Hrx]; [eauto|].
    rewrite (node_of_rxn fl H G Ms Rs HS e rx rnd Hrx He). cbn [fmap option_fmap option_map default].
    destruct (decide _); [done|]. unfold drop_node. rewrite is_rx_rx. cbn.
    destruct (f_eid fl); [|done]. cbn. destruct (d_label_rx d) eqn:El; [|done]. cbn.
    by rewrite (Hlrx eq_refl e rx Hrx).
  Qed.

  Lemma import_mols_drop s : import_mols (drop_attrs d G) spN s = if d_mol d then s else import_mols G spN s.
  Proof.
    unfold import_mols. destruct (d_mol d) eqn:Em.
    - apply foldl_id_step. intros acc n [s0 Hs0]%elem_of_elements%HspN.
      rewrite drop_lookup, (node_of_species fl H G Ms Rs HS s0 n Hs0). cbn. unfold drop_node. by rewrite Em.
    - apply foldl_ext_in. intros acc n [s0 Hs0]%elem_of_elements%HspN.
      rewrite drop_lookup, (node_of_species fl H G Ms Rs HS s0 n Hs0), (node_label_drop_sp s0 n Hs0).
      cbn. unfold drop_node. rewrite Em. done.
  Qed.
End drop.

Lemma classify_with_mol ifl b G : classify (with_mol ifl b) G = classify ifl G.
Proof. done. Qed.

Lemma import_drop fl ifl d H G Ms Rs :
  bip_spec fl H G Ms Rs → wf_rxns H → f_eid fl = true →
  d_stoich d = false → d_role d = false →
  (d_kind_sp d = true ∨ d_label_sp d = true → ∀ s n, Ms !! s = Some n → n = inr (default "" (f_sp fl) +:+ s)) →
  (d_kind_sp d = true → i_sp ifl = default "" (f_sp fl)) →
  (d_label_sp d = true → default "" (f_sp fl) = "") →
  (d_kind_rx d = true → ∀ e n, Rs !! e = Some n → n = inr (default "" (f_rp fl) +:+ e)) →
  (d_kind_rx d = true → i_rp ifl = default "" (f_rp fl) ∧
     ∀ e, is_Some (edges H !! e) → String.prefix (i_sp ifl) (default "" (f_rp fl) +:+ e) = false) →
  (d_label_rx d = true → ∀ e rx, edges H !! e = Some rx → r_rule rx = i_default_rule ifl) →
  bipartite_to_hypergraph ifl (drop_attrs d G) = bipartite_to_hypergraph (with_mol ifl (i_mol ifl && negb (d_mol d))) G.
Proof.
  intros HS Hwf Heid Hst Hro HMs Hksp Hlsp HRs Hkrx Hlrx.
  unfold bipartite_to_hypergraph.
  rewrite (classify_drop fl ifl d H G Ms Rs HS Hst Hro HMs Hksp HRs Hkrx), classify_with_mol.
  destruct (classify_spec fl ifl H G Ms Rs HS Hwf Heid) as (spN & rxN & -> & HspN & HrxN).
  rewrite (foldl_ext_in (import_rxn ifl (drop_attrs d G) spN)
                        (import_rxn (with_mol ifl (i_mol ifl && negb (d_mol d))) G spN)).
  2:{ intros acc n Hn. eapply (import_rxn_drop fl ifl d H G Ms Rs HS Heid Hst Hro HMs Hlsp Hlrx spN rxN HspN HrxN).
      by rewrite merge_sort_Permutation, elem_of_elements in Hn. }
  destruct (foldl _ _ _) as [s [e|]]; [done|]. cbn [i_mol with_mol].
  destruct (i_mol ifl); [|done]. cbn.
  rewrite (import_mols_drop fl d H G Ms Rs HS HMs Hlsp spN HspN). by destruct (d_mol d).
Qed.

(** * the round trip through an edited graph *)
Definition edit_ok (fl : bflags) (ifl : iflags) (d : drops) (H : net) : Prop :=
  (f_int fl = true → d_kind_sp d = false ∧ d_kind_rx d = false ∧ d_label_sp d = false) ∧
  (d_kind_sp d = true → i_sp ifl = default "" (f_sp fl)) ∧
  (d_label_sp d = true → default "" (f_sp fl) = "") ∧
  (d_kind_rx d = true → i_rp ifl = default "" (f_rp fl) ∧
     map_Forall (λ e _, String.prefix (i_sp ifl) (default "" (f_rp fl) +:+ e) = false) (edges H)) ∧
  (d_label_rx d = true → map_Forall (λ _ rx, r_rule rx = i_default_rule ifl) (edges H)).
Global Instance edit_ok_dec fl ifl d H : Decision (edit_ok fl ifl d H).
Proof. unfold edit_ok. apply _. Defined.

(** node attributes deleted only (the arcs as exported by [fl]) *)
Lemma roundtrip_nodes_edited (fl : bflags) (ifl : iflags) (d : drops) (H : net) :
  wf16 H → f_eid fl = true → bip_names_ok fl H → d_stoich d = false → d_role d = false → edit_ok fl ifl d H →
  (bipartite_to_hypergraph ifl (drop_attrs d (hypergraph_to_bipartite fl H))).2 = None ∧
  edges (bipartite_to_hypergraph ifl (drop_attrs d (hypergraph_to_bipartite fl H))).1 = cvr fl <$> edges H ∧
  species (bipartite_to_hypergraph ifl (drop_attrs d (hypergraph_to_bipartite fl H))).1 = occurring H ∧
  mol (bipartite_to_hypergraph ifl (drop_attrs d (hypergraph_to_bipartite fl H))).1
    = if f_mol fl && i_mol ifl && negb (d_mol d) then filter (λ p, p.1 ∈ occurring H) (mol H) else ∅.
Proof.
  intros Hwf16 Heid Hnames Hst Hro (Hint & Hksp & Hlsp & Hkrx & Hlrx).
  pose proof Hwf16 as (Hwf & Hwsp & _ & _).
  assert (bipartite_to_hypergraph ifl (drop_attrs d (hypergraph_to_bipartite fl H))
          = bipartite_to_hypergraph (with_mol ifl (i_mol ifl && negb (d_mol d))) (hypergraph_to_bipartite fl H)) as ->.
  { destruct (f_int fl) eqn:Ei.
    - destruct (Hint eq_refl) as (Hk1 & Hk2 & Hl1).
      destruct (export_spec fl H Hwsp Hnames) as (Ms & Rs & HS).
      eapply (import_drop fl ifl d H _ Ms Rs HS); try done;
        try (intros [?|?]; congruence); try (intros ?; congruence);
        try (intros Hd e rx Hrx; by apply (Hlrx Hd e rx Hrx)).
    - destruct (export_spec_str fl H Hwsp Hnames Ei) as (Ms & Rs & HS & HMs & HRs).
      eapply (import_drop fl ifl d H _ Ms Rs HS); try done;
        try (intros Hd e rx Hrx; by apply (Hlrx Hd e rx Hrx)).
      intros Hd. destruct (Hkrx Hd) as [Hq Hall]. split; [done|]. intros e [rx Hrx]. by apply (Hall e rx Hrx). }
  destruct (bipartite_roundtrip_gen fl (with_mol ifl (i_mol ifl && negb (d_mol d))) H Hwf16 Heid Hnames) as (H1 & H2 & H3 & H4).
  split; [done|]. split; [done|]. split; [done|]. rewrite H4. cbn [i_mol with_mol]. by rewrite andb_assoc.
Qed.

(** ANY deletion: the arc part is the export with the flags switched off ([export_drop_arcs]), the node part is re-derived *)
Lemma bipartite_roundtrip_edited (fl : bflags) (ifl : iflags) (d : drops) (H : net) :
  wf16 H → f_eid fl = true → bip_names_ok fl H → edit_ok fl ifl d H →
  (bipartite_to_hypergraph ifl (drop_attrs d (hypergraph_to_bipartite fl H))).2 = None ∧
  edges (bipartite_to_hypergraph ifl (drop_attrs d (hypergraph_to_bipartite fl H))).1 = cvr (fl_drop fl d) <$> edges H ∧
  species (bipartite_to_hypergraph ifl (drop_attrs d (hypergraph_to_bipartite fl H))).1 = occurring H ∧
  mol (bipartite_to_hypergraph ifl (drop_attrs d (hypergraph_to_bipartite fl H))).1
    = if f_mol fl && i_mol ifl && negb (d_mol d) then filter (λ p, p.1 ∈ occurring H) (mol H) else ∅.
Proof.
  intros Hwf Heid Hnames Hok.
  rewrite (drop_split d), <-(export_drop_arcs fl d H).
  exact (roundtrip_nodes_edited (fl_drop fl d) ifl (nodes_only d) H Hwf Heid Hnames eq_refl eq_refl Hok).
Qed.

(** the default prefixes "S:" / "R:" on both sides *)
Lemma untagged_default_prefixes (fl : bflags) (d : drops) (mol_attr : bool) (H : net) :
  wf16 H → f_eid fl = true → f_stoich fl = true → f_int fl = false → f_sp fl = Some "S:" → f_rp fl = Some "R:" →
  d_stoich d = false → d_label_sp d = false →
  (d_label_rx d = true → map_Forall (λ _ rx, r_rule rx = "r") (edges H)) →
  (bipartite_to_hypergraph (default_iflags mol_attr) (drop_attrs d (hypergraph_to_bipartite fl H))).2 = None ∧
  edges (bipartite_to_hypergraph (default_iflags mol_attr) (drop_attrs d (hypergraph_to_bipartite fl H))).1 = edges H.
Proof.
  intros Hwf Heid Hsto Hint Hsp Hrp Hst Hlsp Hlrx.
  destruct (bipartite_roundtrip_edited fl (default_iflags mol_attr) d H Hwf Heid) as (H1 & H2 & _).
  - by apply default_prefixes_ok.
  - unfold edit_ok. rewrite Hsp, Hrp, Hint, Hlsp. cbn.
    split; [done|]. split; [done|]. split; [done|]. split; [|done].
    intros _. split; [done|]. by intros e rx _.
  - split; [done|]. rewrite H2. rewrite (map_fmap_ext _ id); [apply map_fmap_id|].
    intros e rx _. apply cvr_id. unfold fl_drop. cbn. by rewrite Hsto, Hst.
Qed.

(** * non-vacuity, and the premises are needed *)
Definition exd_net : net :=
  mk_net ["K"] [(None, "r", [("A", 2%Z)], [("B", 1%Z); ("A", 1%Z)]); (Some "x", "r", [("B", 1%Z)], [("C", 12%Z)])] [("A", "CCO")].
Definition exd_fl (sp rp : option string) (int_ : bool) : bflags := BFlags sp rp 0 1 true true true int_ true true.
Definition exd_untagged : drops := Drops true true false false false false false true.      (* no kind, no marker *)
Definition exd_bare : drops := Drops true true true true false false true true.            (* only edge_id, stoich, role left *)
Definition exd_back (fl : bflags) (ifl : iflags) (d : drops) : net * option cerr :=
  bipartite_to_hypergraph ifl (drop_attrs d (hypergraph_to_bipartite fl exd_net)).

Example ex_edit_untagged :
  bool_decide (wf16 exd_net) = true ∧
  bool_decide (edit_ok (exd_fl (Some "S:") (Some "R:") false) (default_iflags true) exd_untagged exd_net) = true ∧
  (exd_back (exd_fl (Some "S:") (Some "R:") false) (default_iflags true) exd_untagged).2 = None ∧
  bool_decide (edges (exd_back (exd_fl (Some "S:") (Some "R:") false) (default_iflags true) exd_untagged).1 = edges exd_net) = true ∧
  size (edges exd_net) = 2%nat.
Proof. split_and!; by vm_compute. Qed.

(** everything but the id and the coefficients deleted: un-prefixed species ids, the importer told the reaction prefix
    and that the rule is "r" *)
Example ex_edit_bare :
  bool_decide (edit_ok (exd_fl None (Some "R:") false) (IFlags "" "R:" "r" true) exd_bare exd_net) = false ∧
  bool_decide (edit_ok (exd_fl None (Some "R:") false) (IFlags "" "R:" "r" true) (Drops true false true true false false true true) exd_net) = true ∧
  bool_decide (edges (exd_back (exd_fl None (Some "R:") false) (IFlags "" "R:" "r" true)
                               (Drops true false true true false false true true)).1 = edges exd_net) = true.
Proof. split_and!; by vm_compute. Qed.

(** integer ids cannot be recognised by a prefix: without `kind` the network is lost (the degree heuristic takes product
    species for reactions and has to invent ids for them) *)
Example ex_edit_int_needed :
  bool_decide (edit_ok (exd_fl (Some "S:") (Some "R:") true) (default_iflags true) exd_untagged exd_net) = false ∧
  (exd_back (exd_fl (Some "S:") (Some "R:") true) (default_iflags true) exd_untagged).2 = Some EUnmodelled.
Proof. split_and!; by vm_compute. Qed.

(** a species prefix that also matches the reaction node ids: the untagged reaction nodes are taken for species *)
Example ex_edit_prefix_needed :
  bool_decide (edit_ok (exd_fl (Some "") (Some "R:") false) (IFlags "" "R:" "r" true) exd_untagged exd_net) = false ∧
  bool_decide (edges (exd_back (exd_fl (Some "") (Some "R:") false) (IFlags "" "R:" "r" true) exd_untagged).1 = edges exd_net) = false.
Proof. split_and!; by vm_compute. Qed.

(** coefficients and roles deleted as well (and every `kind`): the supports come back under the same ids *)
Definition exd_all_arcs : drops := Drops true true false false true true false true.
Example ex_edit_arcs :
  bool_decide (edit_ok (exd_fl (Some "S:") (Some "R:") false) (default_iflags true) exd_all_arcs exd_net) = true ∧
  bool_decide (edges (exd_back (exd_fl (Some "S:") (Some "R:") false) (default_iflags true) exd_all_arcs).1
               = cvr (fl_drop (exd_fl (Some "S:") (Some "R:") false) exd_all_arcs) <$> edges exd_net) = true ∧
  bool_decide (edges (exd_back (exd_fl (Some "S:") (Some "R:") false) (default_iflags true) exd_all_arcs).1 = edges exd_net) = false ∧
  (r_rhs <$> edges (exd_back (exd_fl (Some "S:") (Some "R:") false) (default_iflags true) exd_all_arcs).1 !! "x") = Some {[ "C" := 1%positive ]}.
Proof. split_and!; by vm_compute. Qed.
