(** C12 -- the level-by-level search of MCSMatcher._search_subgraphs (model/C12_Model.v) against the
    specification "common induced sub-graph mapping", for arbitrary node / edge matchers.

    [common_induced nm em pattern host m]: m is a list of (pattern node, host node) pairs that is a function,
    injective, maps nodes to nodes with matching labels, and for every two mapped pattern nodes the bond is
    present on both sides with matching attributes or absent on both sides.

    Main results (NoDup node ids in both graphs):
      level_sound / level_complete   the candidates of size k are exactly (up to the order of the pairs) the
                                     common induced mappings of size k  -- via Mono.monos_spec, induced:=true
      search_mcs_spec                maximum mode: every result is a common induced mapping of size [last];
                                     no common induced mapping is larger; every one of that size is returned
      search_all_spec                all-sizes mode: the results are exactly the non-empty common induced mappings *)
From Coq Require Import List NArith ZArith Bool Arith Lia Permutation.
From SK Require Import lib.LGraph lib.Mono lib.C12_MonoPw model.C12_Model.
Import ListNotations.

(* ------------------------------------------------------------------ small list facts *)
Lemma map_fst_combine (c hs : list N) : length hs = length c -> map fst (combine c hs) = c.
Proof.
  revert hs. induction c as [|x r IH]; intros [|h hs] H; simpl in *; try discriminate; [reflexivity|].
  f_equal. apply IH. lia.
Qed.

Lemma combine_fst_snd (m : list (N * N)) : combine (map fst m) (map snd m) = m.
Proof. induction m as [|[a b] r IH]; simpl; [reflexivity|now rewrite IH]. Qed.

Lemma NoDup_map_fst_eq (m : list (N * N)) x y :
  NoDup (map fst m) -> In x m -> In y m -> fst x = fst y -> x = y.
Proof.
  induction m as [|a r IH]; simpl; intros Hnd Ix Iy E; [destruct Ix|].
  inversion Hnd as [|? ? Hnotin Hnd']; subst.
  destruct Ix as [<-|Ix], Iy as [<-|Iy].
  - reflexivity.
  - exfalso. apply Hnotin. rewrite E. now apply in_map.
  - exfalso. apply Hnotin. rewrite <- E. now apply in_map.
  - now apply IH.
Qed.

Lemma nil_iff_no_elt {X} (l : list X) : (forall x, ~ In x l) -> l = [].
Proof. destruct l as [|x r]; [reflexivity|]. intros H. exfalso. apply (H x). now left. Qed.

(* ------------------------------------------------------------------ itertools.combinations *)
Lemma combs_length l : forall k c, In c (combs l k) -> length c = k.
Proof.
  induction l as [|x r IH]; intros [|k'] c H; simpl in H.
  - destruct H as [<-|[]]; reflexivity.
  - destruct H.
  - destruct H as [<-|[]]; reflexivity.
  - apply in_app_or in H. destruct H as [H|H].
    + apply in_map_iff in H. destruct H as (c' & <- & H). simpl. f_equal. now apply IH.
    + now apply IH.
Qed.

Lemma combs_incl l : forall k c, In c (combs l k) -> incl c l.
Proof.
  induction l as [|x r IH]; intros [|k'] c H; simpl in H.
  - destruct H as [<-|[]]. intros ? [].
  - destruct H.
  - destruct H as [<-|[]]. intros ? [].
  - apply in_app_or in H. destruct H as [H|H].
    + apply in_map_iff in H. destruct H as (c' & <- & H). intros y [<-|Hy]; [now left|right; eapply IH; eauto].
    + intros y Hy. right. eapply IH; eauto.
Qed.

Lemma combs_nodup l : NoDup l -> forall k c, In c (combs l k) -> NoDup c.
Proof.
  induction l as [|x r IH]; intros Hnd [|k'] c H; simpl in H.
  - destruct H as [<-|[]]. constructor.
  - destruct H.
  - destruct H as [<-|[]]. constructor.
  - inversion Hnd as [|? ? Hx Hr]; subst. apply in_app_or in H. destruct H as [H|H].
    + apply in_map_iff in H. destruct H as (c' & <- & H). constructor; [|eapply IH; eauto].
      intros I. apply Hx. eapply combs_incl; eauto.
    + eapply IH; eauto.
Qed.

(** every sub-list selected by a predicate is one of the combinations of its size *)
Lemma combs_filter (f : N -> bool) l : In (filter f l) (combs l (length (filter f l))).
Proof.
  induction l as [|x r IH]; simpl; [now left|].
  destruct (f x); simpl.
  - apply in_or_app. left. now apply in_map.
  - destruct (length (filter f r)) as [|k'] eqn:E.
    + apply length_zero_iff_nil in E. rewrite E. now left.
    + apply in_or_app. right. exact IH.
Qed.

(* ------------------------------------------------------------------ the two insertion sorts are permutations *)
Lemma insert_pair_perm x l : Permutation (insert_pair x l) (x :: l).
Proof.
  induction l as [|y r IH]; simpl; [reflexivity|].
  destruct (pair_ltb y x); [|reflexivity].
  eapply perm_trans; [apply perm_skip; exact IH|apply perm_swap].
Qed.

Lemma sort_items_perm m : Permutation (sort_items m) m.
Proof.
  unfold sort_items. induction m as [|x r IH]; simpl; [constructor|].
  eapply perm_trans; [apply insert_pair_perm|now apply perm_skip].
Qed.

Lemma insert_result_perm x l : Permutation (insert_result x l) (x :: l).
Proof.
  induction l as [|y r IH]; simpl; [reflexivity|].
  destruct (result_ltb x y); [reflexivity|].
  eapply perm_trans; [apply perm_skip; exact IH|apply perm_swap].
Qed.

Lemma sort_results_perm l : Permutation (sort_results l) l.
Proof.
  unfold sort_results. induction l as [|x r IH]; simpl; [constructor|].
  eapply perm_trans; [apply insert_result_perm|now apply perm_skip].
Qed.

Lemma sort_results_in l m : In m (sort_results l) <-> In m l.
Proof.
  split; apply Permutation_in; [apply sort_results_perm|apply Permutation_sym, sort_results_perm].
Qed.

(* ------------------------------------------------------------------ the [seen] set *)
Lemma pair_eqb_eq a b : pair_eqb a b = true <-> a = b.
Proof.
  destruct a as [a1 a2], b as [b1 b2]. unfold pair_eqb. simpl. rewrite andb_true_iff, !N.eqb_eq.
  split; [intros [-> ->]; reflexivity|intros E; inversion E; auto].
Qed.

Lemma map_eqb_eq a b : map_eqb a b = true <-> a = b.
Proof.
  revert b. induction a as [|x a IH]; intros [|y b]; simpl; split; try discriminate; try reflexivity.
  - intros H. apply andb_prop in H. destruct H as [H1 H2]. apply pair_eqb_eq in H1. apply IH in H2. congruence.
  - intros E. inversion E; subst. apply andb_true_intro. split; [now apply pair_eqb_eq|now apply IH].
Qed.

Lemma seen_spec m acc : seen m acc = true <-> In m acc.
Proof.
  unfold seen. rewrite existsb_exists. split.
  - intros (y & Hy & E). apply map_eqb_eq in E. now subst.
  - intros H. exists m. split; [exact H|now apply map_eqb_eq].
Qed.

Lemma add_new_spec cands : forall acc acc' found, add_new acc cands = (acc', found) ->
  (forall m, In m acc' <-> In m acc \/ In m cands) /\
  (found = true <-> exists m, In m cands /\ ~ In m acc).
Proof.
  induction cands as [|m r IH]; intros acc acc' found E; simpl in E.
  - inversion E; subst. split; [intros m; simpl; tauto|]. split; [discriminate|intros (m & [] & _)].
  - destruct (seen m acc) eqn:Es.
    + apply seen_spec in Es. destruct (IH _ _ _ E) as (H1 & H2). split.
      * intros m'. rewrite H1. simpl. split; [tauto|]. intros [H|[<-|H]]; auto.
      * rewrite H2. split; intros (m' & Hm' & Hn); [exists m'; split; [now right|exact Hn]|].
        destruct Hm' as [<-|Hm']; [contradiction|exists m'; auto].
    + assert (Hn : ~ In m acc) by (intros I; apply seen_spec in I; congruence).
      destruct (add_new (acc ++ [m]) r) as [a f] eqn:Er. inversion E; subst a found.
      destruct (IH _ _ _ Er) as (H1 & _). split.
      * intros m'. rewrite H1, in_app_iff. simpl. tauto.
      * split; [intros _|reflexivity]. exists m. split; [now left|exact Hn].
Qed.

(* ------------------------------------------------------------------ the specification *)
Definition common_induced (nm : option nattr -> option nattr -> bool) (em : eattr -> eattr -> bool)
           (pattern host : graph) (m : mapping) : Prop :=
  NoDup (map fst m) /\ NoDup (map snd m) /\
  (forall p h, In (p, h) m ->
     In p (node_ids pattern) /\ In h (node_ids host) /\ nm (label host h) (label pattern p) = true) /\
  (forall p h p' h', In (p, h) m -> In (p', h') m -> p <> p' ->
     match LGraph.adj pattern p p', LGraph.adj host h h' with
     | Some b, Some b' => em b' b = true
     | None, None => True
     | _, _ => False
     end).

Section Search.
Variable nm : option nattr -> option nattr -> bool.
Variable em : eattr -> eattr -> bool.
Variables pattern host : graph.
Hypothesis pat_nodup : NoDup (node_ids pattern).
Hypothesis host_nodup : NoDup (node_ids host).

Notation CI := (common_induced nm em pattern host).
Notation PW := (pw (node_ids host) (label pattern) (label host) (LGraph.adj pattern) (LGraph.adj host) nm em true).
Notation LEVEL := (level nm em pattern host).

Lemma ci_iff_pw m : CI m <-> NoDup (map fst m) /\ incl (map fst m) (node_ids pattern) /\ PW m.
Proof.
  split.
  - intros (H1 & H2 & H3 & H4). split; [exact H1|]. split.
    + intros p Hp. apply in_map_iff in Hp. destruct Hp as ([p' h] & <- & I). simpl. now apply (H3 p' h).
    + split; [|split; [exact H2|]].
      * intros p h I. destruct (H3 p h I) as (_ & Hh & Hn). auto.
      * intros [p h] [p' h'] Ix Iy Hne. unfold edge_ok. simpl.
        assert (Hp : p <> p').
        { intros ->. apply Hne. apply (NoDup_map_fst_eq m (p', h) (p', h')); auto. }
        specialize (H4 p h p' h' Ix Iy Hp).
        destruct (LGraph.adj pattern p p'), (LGraph.adj host h h'); simpl; tauto.
  - intros (H1 & Hincl & (P1 & P2 & P3)). split; [exact H1|]. split; [exact P2|]. split.
    + intros p h I. destruct (P1 p h I) as (Hh & Hn). split; [|auto].
      apply Hincl. change p with (fst (p, h)). now apply in_map.
    + intros p h p' h' Ix Iy Hp.
      assert (Hne : (p, h) <> (p', h')) by (intros E; inversion E; contradiction).
      specialize (P3 _ _ Ix Iy Hne). unfold edge_ok in P3. simpl in P3.
      destruct (LGraph.adj pattern p p'), (LGraph.adj host h h'); simpl in P3; try discriminate; auto.
Qed.

Lemma ci_perm m m' : Permutation m m' -> CI m -> CI m'.
Proof.
  intros P H. apply ci_iff_pw in H. destruct H as (H1 & H2 & H3). apply ci_iff_pw. split; [|split].
  - eapply Permutation_NoDup; [apply Permutation_map; exact P|exact H1].
  - intros p Hp. apply H2. eapply Permutation_in; [apply Permutation_sym, Permutation_map; exact P|exact Hp].
  - eapply pw_perm; eauto.
Qed.

Lemma ci_length m : CI m -> length m <= Nat.min (n_nodes pattern) (n_nodes host).
Proof.
  intros (H1 & H2 & H3 & _). unfold n_nodes.
  assert (Ha : length m <= length (node_ids pattern)).
  { rewrite <- (map_length fst m). apply NoDup_incl_length; [exact H1|].
    intros p Hp. apply in_map_iff in Hp. destruct Hp as ([p' h] & <- & I). now apply (H3 p' h). }
  assert (Hb : length m <= length (node_ids host)).
  { rewrite <- (map_length snd m). apply NoDup_incl_length; [exact H2|].
    intros h Hh. apply in_map_iff in Hh. destruct Hh as ([p h'] & <- & I). now apply (H3 p h'). }
  unfold node_ids in Ha, Hb. rewrite map_length in Ha, Hb. lia.
Qed.

(** one level: soundness *)
Lemma level_sound k m : In m (LEVEL k) -> CI m /\ length m = k.
Proof.
  unfold level. intros H. apply in_flat_map in H. destruct H as (c & Hc & Hm).
  unfold sub_isos in Hm. apply in_map_iff in Hm. destruct Hm as (m0 & <- & Hm0).
  destruct (monos_only_such _ _ _ _ _ _ _ _ _ _ Hm0) as (hs & Hl & E & Hv).
  apply (valid_pw _ _ _ _ _ _ _ _ (adj_sym pattern) (adj_sym host)) in Hv.
  assert (Hfst : map fst m0 = rev c) by (rewrite E, map_rev, map_fst_combine; auto).
  assert (Hcn : NoDup c) by (exact (combs_nodup _ pat_nodup _ _ Hc)).
  split.
  - apply (ci_perm m0); [apply Permutation_sym, sort_items_perm|]. apply ci_iff_pw. split; [|split; [|exact Hv]].
    + rewrite Hfst. eapply Permutation_NoDup; [apply Permutation_rev|exact Hcn].
    + rewrite Hfst. intros p Hp. apply in_rev in Hp. eapply combs_incl; eauto.
  - rewrite (Permutation_length (sort_items_perm m0)), <- (map_length fst m0), Hfst, rev_length.
    eapply combs_length; eauto.
Qed.

(** one level: completeness (up to the order in which the pairs are listed) *)
Lemma level_complete m : CI m -> exists m', In m' (LEVEL (length m)) /\ Permutation m m'.
Proof.
  intros H. apply ci_iff_pw in H. destruct H as (Hnd & Hincl & Hpw).
  set (c := filter (fun p => mem p (map fst m)) (node_ids pattern)).
  assert (Pc : Permutation c (map fst m)).
  { apply NoDup_Permutation; [apply NoDup_filter; exact pat_nodup|exact Hnd|].
    intros p. unfold c. rewrite filter_In, mem_spec. split; [tauto|]. intros I. split; [now apply Hincl|exact I]. }
  destruct (Permutation_map_inv fst _ Pc) as (m1 & Ec & P1).
  set (m0 := rev (combine c (map snd m1))).
  assert (Em0 : m0 = rev m1) by (unfold m0; rewrite Ec, combine_fst_snd; reflexivity).
  assert (P0 : Permutation m m0).
  { rewrite Em0. eapply perm_trans; [exact P1|apply Permutation_rev]. }
  assert (Hl : length (map snd m1) = length c) by (rewrite Ec, !map_length; reflexivity).
  assert (Hin : In m0 (monos c (node_ids host) (label pattern) (label host) (LGraph.adj pattern) (LGraph.adj host) nm em true)).
  { apply (monos_spec c (node_ids host) (label pattern) (label host) (LGraph.adj pattern) (LGraph.adj host) nm em true _ Hl).
    apply pw_valid. eapply pw_perm; [exact P0|exact Hpw]. }
  exists (sort_items m0). split.
  - unfold level. apply in_flat_map. exists c. split.
    + assert (El : length m = length c).
      { rewrite (Permutation_length Pc). now rewrite map_length. }
      rewrite El. apply combs_filter.
    + unfold sub_isos. apply in_map. exact Hin.
  - eapply perm_trans; [exact P0|apply Permutation_sym, sort_items_perm].
Qed.

Lemma level_empty_no_ci k : LEVEL k = [] -> forall m, CI m -> length m <> k.
Proof.
  intros E m Hm <-. destruct (level_complete m Hm) as (m' & I & _). rewrite E in I. destruct I.
Qed.

(* ---- the descending loop ---- *)
Lemma search_loop_mcs k : forall tried acc' best' tried',
  search_loop nm em true pattern host k [] 0 tried = (acc', best', tried') ->
  (best' = 0 /\ acc' = [] /\ forall j, 1 <= j <= k -> LEVEL j = []) \/
  (1 <= best' <= k /\ (forall m, In m acc' <-> In m (LEVEL best')) /\ LEVEL best' <> [] /\
   forall j, best' < j <= k -> LEVEL j = []).
Proof.
  induction k as [|k' IH]; intros tried acc' best' tried' E.
  - simpl in E. inversion E; subst. left. split; [reflexivity|]. split; [reflexivity|]. intros j Hj. lia.
  - cbn [search_loop] in E. cbn [andb negb Nat.eqb] in E.
    destruct (add_new [] (LEVEL (S k'))) as [acc1 found] eqn:Ea.
    destruct (add_new_spec _ _ _ _ Ea) as (H1 & H2).
    destruct found.
    + inversion E; subst. right. split; [lia|]. split.
      * intros m. rewrite H1. simpl. tauto.
      * split; [|intros j Hj; lia].
        destruct (proj1 H2 eq_refl) as (m & Hm & _). intros E0. rewrite E0 in Hm. destruct Hm.
    + assert (Hl : LEVEL (S k') = []).
      { apply nil_iff_no_elt. intros m Hm.
        assert (Hf : false = true) by (apply H2; exists m; split; [exact Hm|intros []]). discriminate. }
      assert (Ha : acc1 = []).
      { apply nil_iff_no_elt. intros m Hm. apply H1 in Hm. rewrite Hl in Hm. destruct Hm as [[]|[]]. }
      subst acc1. destruct (IH _ _ _ _ E) as [(Hb & Hacc & Hall)|(Hb & Hacc & Hne & Hall)].
      * left. split; [exact Hb|]. split; [exact Hacc|]. intros j Hj.
        destruct (Nat.eq_dec j (S k')) as [->|Hn]; [exact Hl|apply Hall; lia].
      * right. split; [lia|]. split; [exact Hacc|]. split; [exact Hne|]. intros j Hj.
        destruct (Nat.eq_dec j (S k')) as [->|Hn]; [exact Hl|apply Hall; lia].
Qed.

Lemma search_loop_all k : forall acc best tried acc' best' tried',
  search_loop nm em false pattern host k acc best tried = (acc', best', tried') ->
  forall m, In m acc' <-> In m acc \/ exists j, 1 <= j <= k /\ In m (LEVEL j).
Proof.
  induction k as [|k' IH]; intros acc best tried acc' best' tried' E m.
  - simpl in E. inversion E; subst. split; [auto|]. intros [H|(j & Hj & _)]; [exact H|lia].
  - cbn [search_loop andb] in E.
    destruct (add_new acc (LEVEL (S k'))) as [acc1 found] eqn:Ea.
    destruct (add_new_spec _ _ _ _ Ea) as (H1 & _).
    assert (G : In m acc' <-> In m acc1 \/ exists j, 1 <= j <= k' /\ In m (LEVEL j)).
    { destruct found; eapply IH; exact E. }
    rewrite G, H1. split.
    + intros [[H|H]|(j & Hj & H)]; [now left|right; exists (S k'); split; [lia|exact H]|right; exists j; split; [lia|exact H]].
    + intros [H|(j & Hj & H)]; [now left; left|].
      destruct (Nat.eq_dec j (S k')) as [->|Hn]; [left; now right|right; exists j; split; [lia|exact H]].
Qed.

(* ---- _search_subgraphs ---- *)
Theorem search_mcs_spec maps last tried :
  search_subgraphs nm em pattern host true = (maps, last, tried) ->
  (forall m, In m maps -> CI m /\ length m = last) /\
  (forall m, CI m -> length m <= last) /\
  (forall m, CI m -> length m = last -> 1 <= last -> exists m', In m' maps /\ Permutation m m') /\
  (maps = [] <-> last = 0).
Proof.
  unfold search_subgraphs. set (max_k := Nat.min (n_nodes pattern) (n_nodes host)).
  destruct (search_loop nm em true pattern host max_k [] 0 0) as [[acc best] tr] eqn:E.
  cbn [andb]. intros Er.
  destruct (search_loop_mcs _ _ _ _ _ E) as [(Hb & Hacc & Hall)|(Hb & Hacc & Hne & Hall)].
  - subst best acc. simpl in Er. inversion Er; subst maps last tried. clear Er.
    assert (Hz : forall m, CI m -> length m <= 0).
    { intros m Hm. pose proof (ci_length m Hm) as Hlen. fold max_k in Hlen.
      destruct (Nat.eq_dec (length m) 0) as [->|Hn]; [lia|].
      exfalso. apply (level_empty_no_ci (length m) (Hall (length m) ltac:(lia)) m Hm). reflexivity. }
    split; [intros m []|]. split; [exact Hz|]. split; [intros m _ _ H0; lia|]. split; reflexivity.
  - assert (Eb : negb (best =? 0) = true) by (destruct best; [lia|reflexivity]).
    rewrite Eb in Er. inversion Er; subst maps last tried. clear Er.
    assert (Hin : forall m, In m (sort_results (filter (fun m0 : mapping => length m0 =? best) acc)) <-> In m (LEVEL best)).
    { intros m. rewrite sort_results_in, filter_In, Hacc. split; [tauto|]. intros I. split; [exact I|].
      apply Nat.eqb_eq. now apply (level_sound best m). }
    split; [intros m Hm; apply (level_sound best m); now apply Hin|]. split.
    + intros m Hm. pose proof (ci_length m Hm) as Hlen. fold max_k in Hlen.
      destruct (le_lt_dec (length m) best) as [Hle|Hlt]; [exact Hle|].
      exfalso. apply (level_empty_no_ci (length m) (Hall (length m) ltac:(lia)) m Hm). reflexivity.
    + split.
      * intros m Hm El _. destruct (level_complete m Hm) as (m' & I & P). rewrite El in I.
        exists m'. split; [now apply Hin|exact P].
      * split; [|lia]. intros E0. exfalso.
        destruct (LEVEL best) as [|m0 r] eqn:El; [now apply Hne|].
        assert (I : In m0 (@nil mapping)) by (rewrite <- E0; apply Hin; now left).
        destruct I.
Qed.

Theorem search_all_spec maps last tried :
  search_subgraphs nm em pattern host false = (maps, last, tried) ->
  (forall m, In m maps -> CI m /\ 1 <= length m) /\
  (forall m, CI m -> 1 <= length m -> exists m', In m' maps /\ Permutation m m').
Proof.
  unfold search_subgraphs. set (max_k := Nat.min (n_nodes pattern) (n_nodes host)).
  destruct (search_loop nm em false pattern host max_k [] 0 0) as [[acc best] tr] eqn:E.
  cbn [andb]. intros Er. inversion Er; subst maps. clear Er.
  pose proof (search_loop_all _ _ _ _ _ _ _ E) as Hacc.
  split.
  - intros m Hm. apply sort_results_in, Hacc in Hm. destruct Hm as [[]|(j & Hj & Hm)].
    destruct (level_sound j m Hm) as (G1 & G2). split; [exact G1|lia].
  - intros m Hm Hl. destruct (level_complete m Hm) as (m' & I & P).
    exists m'. split; [|exact P]. apply sort_results_in, Hacc. right. exists (length m). split; [|exact I].
    pose proof (ci_length m Hm). fold max_k in H. lia.
Qed.

End Search.
