(** C02 — proofs about model/C02_Model.v (get_rc, knn, extract_k). *)
From Coq Require Import List NArith ZArith Bool Lia.
From SK Require Import lib.LGraph lib.Reach lib.C01_GraphLemmas model.C01_Model model.C02_Model.
Import ListNotations.
Local Open Scope Z_scope.

(** * ensure_node *)
Definition keys (ns : list (N * inode)) : list N := map fst ns.

Lemma has_key_spec n ns : has_key n ns = true <-> In n (keys ns).
Proof.
  unfold has_key, keys. destruct (assoc n ns) eqn:E.
  - split; [intros _; eapply assoc_some_key; eauto|reflexivity].
  - split; [discriminate|]. intros I. apply assoc_none in E. contradiction.
Qed.

Lemma keys_ensure g n ns k :
  In k (keys (ensure_node g n ns)) <-> In k (keys ns) \/ (k = n /\ In n (node_ids g)).
Proof.
  unfold ensure_node. destruct (has_key n ns) eqn:Hk.
  - apply has_key_spec in Hk. split; [auto|]. intros [I|[-> _]]; assumption.
  - destruct (label g n) as [a|] eqn:L.
    + unfold keys. rewrite map_app, in_app_iff. simpl. apply label_some_node in L. intuition (subst; auto).
    + split; [auto|]. intros [I|[-> I]]; [exact I|]. apply node_label_some in I. destruct I. congruence.
Qed.

(** invariant of the node component: distinct ids, each with the selected labels of the ITS node *)
Definition NInv (g : its) (ns : list (N * inode)) : Prop :=
  NoDup (keys ns) /\ forall k b, In (k, b) ns -> exists a, label g k = Some a /\ b = rc_attr a.

Lemma NInv_nil g : NInv g [].
Proof. split; [constructor|intros ? ? []]. Qed.

Lemma NInv_ensure g n ns : NInv g ns -> NInv g (ensure_node g n ns).
Proof.
  intros [Hn Hv]. unfold ensure_node. destruct (has_key n ns) eqn:Hk; [split; assumption|].
  destruct (label g n) as [a|] eqn:L; [|split; assumption]. split.
  - unfold keys. rewrite map_app. simpl.
    assert (forall l : list N, NoDup l -> ~ In n l -> NoDup (l ++ [n])) as G.
    { induction l as [|y l IH]; simpl; intros Hl Hni; [constructor; [intros []|constructor]|].
      inversion Hl; subst. constructor; [rewrite in_app_iff; simpl; intuition|apply IH; intuition]. }
    apply G; [exact Hn|]. intros I. apply has_key_spec in I. congruence.
  - intros k b I. apply in_app_iff in I. destruct I as [I|[E|[]]]; [apply Hv; exact I|].
    inversion E; subst. eauto.
Qed.

(** * the node component of both loops *)
Definition ends_step (g : its) (sel : N * N * iedge -> bool) (ns : list (N * inode)) (e : N * N * iedge) :=
  if sel e then ensure_node g (snd (fst e)) (ensure_node g (fst (fst e)) ns) else ns.

Definition sel_changed (e : N * N * iedge) : bool := changed (snd e).
Definition sel_hh (g : its) (e : N * N * iedge) : bool := is_hh g (fst (fst e)) (snd (fst e)).

Lemma fold_changed_fst g L : forall st,
  fst (fold_left (step_changed g) L st) = fold_left (ends_step g sel_changed) L (fst st).
Proof.
  induction L as [|[[u v] x] L IH]; intros st; simpl; [reflexivity|]. rewrite IH. f_equal.
  unfold ends_step, sel_changed. simpl. destruct (changed x); reflexivity.
Qed.

Lemma fold_hh_fst g L : forall st,
  fst (fold_left (step_hh g) L st) = fold_left (ends_step g (sel_hh g)) L (fst st).
Proof.
  induction L as [|[[u v] x] L IH]; intros st; simpl; [reflexivity|]. rewrite IH. f_equal.
  unfold ends_step, sel_hh. simpl. destruct (is_hh g u v); reflexivity.
Qed.

Lemma ends_fold_NInv g sel L : forall ns, NInv g ns -> NInv g (fold_left (ends_step g sel) L ns).
Proof.
  induction L as [|e L IH]; intros ns Hi; simpl; [exact Hi|]. apply IH. unfold ends_step.
  destruct (sel e); [|exact Hi]. apply NInv_ensure, NInv_ensure, Hi.
Qed.

Lemma ends_fold_keys g sel L : forall ns k,
  In k (keys (fold_left (ends_step g sel) L ns)) <->
  In k (keys ns) \/ exists a b x, In (a, b, x) L /\ sel (a, b, x) = true /\ (k = a \/ k = b) /\ In k (node_ids g).
Proof.
  induction L as [|[[u v] y] L IH]; intros ns k; simpl.
  - split; [auto|]. intros [I|(a & b & x & [] & _)]. exact I.
  - rewrite IH. unfold ends_step at 1. simpl. destruct (sel (u, v, y)) eqn:Se.
    + rewrite !keys_ensure. split.
      * intros [[[I|[-> In]]|[-> In]]|(a & b & x & I & S' & Hk & In)]; auto.
        -- right. exists u, v, y. auto 6.
        -- right. exists u, v, y. auto 6.
        -- right. exists a, b, x. auto 6.
      * intros [I|(a & b & x & [E|I] & S' & Hk & In)]; auto.
        -- inversion E; subst. destruct Hk as [->| ->]; auto.
        -- right. exists a, b, x. auto.
    + split.
      * intros [I|(a & b & x & I & S' & Hk & In)]; auto. right. exists a, b, x. auto 6.
      * intros [I|(a & b & x & [E|I] & S' & Hk & In)]; auto.
        -- inversion E; subst. congruence.
        -- right. exists a, b, x. auto.
Qed.

(** * the edge component *)
Lemma fold_changed_snd g L : forall st,
  snd (fold_left (step_changed g) L st) = snd st ++ filter sel_changed L.
Proof.
  induction L as [|[[u v] x] L IH]; intros st; simpl; [rewrite app_nil_r; reflexivity|].
  rewrite IH. unfold sel_changed at 2. simpl. destruct (changed x); simpl; [rewrite <- app_assoc|]; reflexivity.
Qed.

Lemma step_hh_snd_mono g st e t : In t (snd st) -> In t (snd (step_hh g st e)).
Proof.
  destruct e as [[u v] x]. simpl. destruct (is_hh g u v); [|auto]. simpl.
  destruct (find_edge u v (snd st)); [auto|]. intros I. apply in_or_app. auto.
Qed.

Lemma fold_hh_snd_mono g L : forall st t, In t (snd st) -> In t (snd (fold_left (step_hh g) L st)).
Proof.
  induction L as [|e L IH]; intros st t I; simpl; [exact I|]. apply IH, step_hh_snd_mono, I.
Qed.

Lemma fold_hh_snd_sound g L : forall st a b x, In (a, b, x) (snd (fold_left (step_hh g) L st)) ->
  In (a, b, x) (snd st) \/ (In (a, b, x) L /\ is_hh g a b = true).
Proof.
  induction L as [|[[u v] y] L IH]; intros st a b x I; simpl in *; [auto|].
  apply IH in I. destruct I as [I|[I Hh]]; [|auto].
  destruct (is_hh g u v) eqn:Hh; [|auto]. simpl in I.
  destruct (find_edge u v (snd st)); [auto|]. apply in_app_iff in I. destruct I as [I|[E|[]]]; [auto|].
  inversion E; subst. auto.
Qed.

Lemma fold_hh_snd_complete g L : forall st a b x, In (a, b, x) L -> is_hh g a b = true ->
  find_edge a b (snd (fold_left (step_hh g) L st)) <> None.
Proof.
  induction L as [|[[u v] y] L IH]; intros st a b x I Hh; simpl in *; [destruct I|].
  destruct I as [E|I]; [|eapply IH; eauto]. inversion E; subst. rewrite Hh.
  assert (exists z, In (a, b, z) (snd (ensure_node g b (ensure_node g a (fst st)),
              match find_edge a b (snd st) with Some _ => snd st | None => snd st ++ [(a, b, x)] end)) \/
                    In (b, a, z) (snd (ensure_node g b (ensure_node g a (fst st)),
              match find_edge a b (snd st) with Some _ => snd st | None => snd st ++ [(a, b, x)] end))) as (z & Hz).
  { simpl. destruct (find_edge a b (snd st)) as [z|] eqn:F.
    - exists z. apply find_edge_some_in. exact F.
    - exists x. left. apply in_or_app. right. left. reflexivity. }
  apply (find_edge_not_none _ _ _ z).
  destruct Hz as [Hz|Hz]; [left|right]; apply fold_hh_snd_mono; exact Hz.
Qed.

Lemma step_hh_simple g st e : simple (snd st) -> simple (snd (step_hh g st e)).
Proof.
  destruct e as [[u v] x]. simpl. destruct (is_hh g u v); [|auto]. simpl.
  destruct (find_edge u v (snd st)) eqn:F; [auto|]. intros Hs. apply simple_snoc; assumption.
Qed.

Lemma fold_hh_simple g L : forall st, simple (snd st) -> simple (snd (fold_left (step_hh g) L st)).
Proof.
  induction L as [|e L IH]; intros st Hs; simpl; [exact Hs|]. apply IH, step_hh_simple, Hs.
Qed.

(** * get_rc: edges *)
Definition st1 (g : its) : rc_state := fold_left (step_changed g) (gedges g) ([], []).

Lemma gedges_rc g : gedges (get_rc g) = snd (fold_left (step_hh g) (gedges g) (st1 g)).
Proof. reflexivity. Qed.
Lemma gnodes_rc g : gnodes (get_rc g) = fst (fold_left (step_hh g) (gedges g) (st1 g)).
Proof. reflexivity. Qed.

Lemma st1_snd g : snd (st1 g) = filter sel_changed (gedges g).
Proof. unfold st1. rewrite fold_changed_snd. reflexivity. Qed.

Lemma is_hh_sym g u v : is_hh g u v = is_hh g v u.
Proof. unfold is_hh. apply andb_comm. Qed.

Lemma rc_edge_sound g a b x : In (a, b, x) (gedges (get_rc g)) ->
  In (a, b, x) (gedges g) /\ (changed x = true \/ is_hh g a b = true).
Proof.
  rewrite gedges_rc. intros I. apply fold_hh_snd_sound in I. destruct I as [I|[I Hh]]; [|auto].
  rewrite st1_snd in I. apply filter_In in I. destruct I as [I C]. auto.
Qed.

Lemma rc_edge_complete g a b x : consistent (gedges g) -> In (a, b, x) (gedges g) ->
  changed x = true \/ is_hh g a b = true -> In (a, b, x) (gedges (get_rc g)) \/ In (b, a, x) (gedges (get_rc g)).
Proof.
  intros Hc I [C|Hh].
  - left. rewrite gedges_rc. apply fold_hh_snd_mono. rewrite st1_snd. apply filter_In. auto.
  - pose proof (fold_hh_snd_complete g (gedges g) (st1 g) a b x I Hh) as F. rewrite <- gedges_rc in F.
    destruct (find_edge a b (gedges (get_rc g))) as [y|] eqn:Fy; [|congruence].
    apply find_edge_some_in in Fy.
    assert (y = x) as ->; [|exact Fy].
    destruct Fy as [Fy|Fy]; apply rc_edge_sound in Fy; destruct Fy as [Fy _]; eapply Hc; eauto.
Qed.

Lemma rc_simple g : simple (gedges g) -> simple (gedges (get_rc g)).
Proof.
  intros Hs. rewrite gedges_rc. apply fold_hh_simple. rewrite st1_snd. apply simple_filter. exact Hs.
Qed.

(** the edge map of the centre *)
Lemma rc_adj g : wf g -> forall u v e,
  adj (get_rc g) u v = Some e <-> adj g u v = Some e /\ (changed e = true \/ is_hh g u v = true).
Proof.
  intros W u v e. pose proof (wf_consistent W) as Hc.
  unfold adj at 1. rewrite (find_edge_iff (simple_consistent (rc_simple g (wf_simple W)))), (wf_adj_iff W). split.
  - intros [I|I]; apply rc_edge_sound in I; destruct I as [I Hs]; [tauto|]. rewrite is_hh_sym. tauto.
  - intros [[I|I] Hs].
    + apply (rc_edge_complete g u v e Hc I Hs).
    + rewrite is_hh_sym in Hs. destruct (rc_edge_complete g v u e Hc I Hs); tauto.
Qed.

Lemma changed_spec g u v e : std_consistent g -> In (u, v, e) (gedges g) \/ In (v, u, e) (gedges g) ->
  (changed e = true <-> e_G e <> e_H e).
Proof.
  intros Sc I. assert (e_std e = e_G e - e_H e) as E by (destruct I as [I|I]; eapply Sc; eauto).
  unfold changed. rewrite negb_true_iff, Z.eqb_neq, E. lia.
Qed.

Theorem rc_edges g : wf g -> std_consistent g -> forall u v e,
  adj (get_rc g) u v = Some e <->
  adj g u v = Some e /\ (e_G e <> e_H e \/ (is_h g u = true /\ is_h g v = true)).
Proof.
  intros W Sc u v e. rewrite (rc_adj g W). unfold is_hh. rewrite andb_true_iff. split.
  - intros [A Hs]. split; [exact A|]. apply (wf_adj_iff W) in A. rewrite <- (changed_spec g u v e Sc A). exact Hs.
  - intros [A Hs]. split; [exact A|]. pose proof (proj1 (wf_adj_iff W u v e) A) as A'.
    rewrite (changed_spec g u v e Sc A'). exact Hs.
Qed.

(** * get_rc: nodes *)
Lemma rc_NInv g : NInv g (gnodes (get_rc g)).
Proof.
  rewrite gnodes_rc, fold_hh_fst. apply ends_fold_NInv. unfold st1. rewrite fold_changed_fst.
  apply ends_fold_NInv. apply NInv_nil.
Qed.

Lemma rc_keys g k : In k (node_ids (get_rc g)) <->
  exists a b x, In (a, b, x) (gedges g) /\ (changed x = true \/ is_hh g a b = true) /\ (k = a \/ k = b) /\ In k (node_ids g).
Proof.
  unfold node_ids. rewrite gnodes_rc, fold_hh_fst. fold (keys (fold_left (ends_step g (sel_hh g)) (gedges g) (fst (st1 g)))).
  rewrite ends_fold_keys. unfold st1. rewrite fold_changed_fst, ends_fold_keys. simpl. split.
  - intros [[[]|(a & b & x & I & S' & R)]|(a & b & x & I & S' & R)]; exists a, b, x; auto.
  - intros (a & b & x & I & [C|Hh] & R); [left; right|right]; exists a, b, x; auto.
Qed.

Lemma rc_label_sound g n b : label (get_rc g) n = Some b -> exists a, label g n = Some a /\ b = rc_attr a.
Proof. intros L. apply assoc_in in L. apply (proj2 (rc_NInv g)). exact L. Qed.

Lemma rc_label_keys g n a : In n (node_ids (get_rc g)) -> label g n = Some a -> label (get_rc g) n = Some (rc_attr a).
Proof.
  intros I L. apply node_label_some in I. destruct I as (b & Lb). rewrite Lb.
  apply rc_label_sound in Lb. destruct Lb as (a' & L' & ->). congruence.
Qed.

Theorem rc_nodes g : wf g -> forall n b,
  label (get_rc g) n = Some b <->
  (exists a, label g n = Some a /\ b = rc_attr a) /\ (exists v e, adj (get_rc g) n v = Some e).
Proof.
  intros W n b. pose proof (wf_consistent W) as Hc.
  pose proof (simple_consistent (rc_simple g (wf_simple W))) as Hr. split.
  - intros L. split; [apply rc_label_sound; exact L|].
    apply label_some_node, rc_keys in L. destruct L as (a & b' & x & I & Hs & Hk & _).
    destruct (rc_edge_complete g a b' x Hc I Hs) as [R|R]; destruct Hk as [-> | ->].
    + exists b', x. apply (find_edge_iff Hr). auto.
    + exists a, x. apply (find_edge_iff Hr). auto.
    + exists b', x. apply (find_edge_iff Hr). auto.
    + exists a, x. apply (find_edge_iff Hr). auto.
  - intros [(a & L & ->) (v & e & A)]. apply rc_label_keys; [|exact L]. apply rc_keys.
    apply (find_edge_iff Hr) in A. destruct A as [A|A]; apply rc_edge_sound in A; destruct A as [A Hs].
    + exists n, v, e. repeat split; auto. eapply label_some_node; eauto.
    + exists v, n, e. repeat split; auto. eapply label_some_node; eauto.
Qed.

(** * the centre is a well-formed graph *)
Lemma rc_wf g : wf g -> wf (get_rc g).
Proof.
  intros W. apply wf_intro.
  - apply (proj1 (rc_NInv g)).
  - intros a b x I. apply rc_edge_sound in I. destruct I as [I Hs].
    destruct (wf_edge_nodes W I) as (Ia & Ib & Hab). rewrite !rc_keys. split; [|split; [|exact Hab]].
    + exists a, b, x. auto.
    + exists a, b, x. auto.
  - apply rc_simple, wf_simple, W.
Qed.

(** * idempotence *)
Lemma is_h_rc g n : In n (node_ids (get_rc g)) -> is_h (get_rc g) n = is_h g n.
Proof.
  intros I. unfold is_h. apply node_label_some in I. destruct I as (b & L). rewrite L.
  apply rc_label_sound in L. destruct L as (a & L & ->). rewrite L. reflexivity.
Qed.

Theorem rc_idem g : wf g -> geq (get_rc (get_rc g)) (get_rc g).
Proof.
  intros W. pose proof (rc_wf g W) as W'.
  assert (forall u v, adj (get_rc (get_rc g)) u v = adj (get_rc g) u v) as Hadj.
  { intros u v. apply option_ext. intros e. rewrite (rc_adj (get_rc g) W'). split; [tauto|].
    intros A. split; [exact A|]. pose proof A as A0. apply (rc_adj g W) in A. destruct A as [A [C|Hh]]; [auto|right].
    assert (In u (node_ids (get_rc g)) /\ In v (node_ids (get_rc g))) as [Iu Iv].
    { apply (wf_adj_iff W') in A0. destruct A0 as [A0|A0]; destruct (wf_edge_nodes W' A0) as (P & Q & _); auto. }
    unfold is_hh in *. rewrite (is_h_rc g u Iu), (is_h_rc g v Iv). exact Hh. }
  split; [|exact Hadj].
  intros n. apply option_ext. intros b. rewrite (rc_nodes (get_rc g) W'). split.
  - intros [(a & L & ->) _]. pose proof L as L0. apply rc_label_sound in L. destruct L as (a0 & _ & ->). exact L0.
  - intros L. split.
    + exists b. split; [exact L|]. apply rc_label_sound in L. destruct L as (a0 & _ & ->). reflexivity.
    + apply (rc_nodes g W) in L. destruct L as [_ (v & e & A)]. exists v, e. rewrite Hadj. exact A.
Qed.

(** * equivariance *)
Section Equivariant.
Variable f : N -> N.
Hypothesis Hinj : forall a b, f a = f b -> a = b.

Definition mapn (ns : list (N * inode)) := map (fun p : N * inode => (f (fst p), snd p)) ns.
Definition mape (es : list (N * N * iedge)) := map (fun e : N * N * iedge => let '(a, b, x) := e in (f a, f b, x)) es.
Definition mapst (st : rc_state) : rc_state := (mapn (fst st), mape (snd st)).

Lemma ensure_equiv (g : its) n ns : ensure_node (relabel f g) (f n) (mapn ns) = mapn (ensure_node g n ns).
Proof.
  unfold ensure_node, has_key, mapn. rewrite (assoc_map_key Hinj), (label_relabel Hinj).
  destruct (assoc n ns); [reflexivity|]. destruct (label g n); [|reflexivity]. rewrite map_app. reflexivity.
Qed.

Lemma is_hh_equiv (g : its) u v : is_hh (relabel f g) (f u) (f v) = is_hh g u v.
Proof. unfold is_hh, is_h. rewrite !(label_relabel Hinj). reflexivity. Qed.

Lemma step_changed_equiv (g : its) st u v x :
  step_changed (relabel f g) (mapst st) (f u, f v, x) = mapst (step_changed g st (u, v, x)).
Proof.
  unfold step_changed. destruct (changed x); [|reflexivity]. unfold mapst. simpl.
  rewrite !ensure_equiv. unfold mape. rewrite map_app. reflexivity.
Qed.

Lemma step_hh_equiv (g : its) st u v x :
  step_hh (relabel f g) (mapst st) (f u, f v, x) = mapst (step_hh g st (u, v, x)).
Proof.
  unfold step_hh. rewrite is_hh_equiv. destruct (is_hh g u v); [|reflexivity]. unfold mapst. simpl.
  rewrite !ensure_equiv. unfold mape at 1. rewrite (find_edge_relabel Hinj).
  destruct (find_edge u v (snd st)); [reflexivity|]. unfold mape. rewrite map_app. reflexivity.
Qed.

Lemma fold_changed_equiv (g : its) L : forall st,
  fold_left (step_changed (relabel f g)) (mape L) (mapst st) = mapst (fold_left (step_changed g) L st).
Proof.
  induction L as [|[[u v] x] L IH]; intros st; [reflexivity|].
  change (mape ((u, v, x) :: L)) with ((f u, f v, x) :: mape L).
  cbn [fold_left]. rewrite step_changed_equiv. apply IH.
Qed.

Lemma fold_hh_equiv (g : its) L : forall st,
  fold_left (step_hh (relabel f g)) (mape L) (mapst st) = mapst (fold_left (step_hh g) L st).
Proof.
  induction L as [|[[u v] x] L IH]; intros st; [reflexivity|].
  change (mape ((u, v, x) :: L)) with ((f u, f v, x) :: mape L).
  cbn [fold_left]. rewrite step_hh_equiv. apply IH.
Qed.

Lemma rc_state_equiv (g : its) :
  fold_left (step_hh (relabel f g)) (mape (gedges g))
            (fold_left (step_changed (relabel f g)) (mape (gedges g)) ([], [])) =
  mapst (fold_left (step_hh g) (gedges g) (fold_left (step_changed g) (gedges g) ([], []))).
Proof.
  change (@nil (N * inode), @nil (N * N * iedge)) with (mapst ([], [])) at 1.
  rewrite fold_changed_equiv, fold_hh_equiv. reflexivity.
Qed.

Lemma rc_equivariant (g : its) : get_rc (relabel f g) = relabel f (get_rc g).
Proof.
  unfold get_rc. cbv zeta. change (gedges (relabel f g)) with (mape (gedges g)).
  rewrite rc_state_equiv. reflexivity.
Qed.
End Equivariant.

(** * the radius-k neighbourhood *)
Lemma dist_le_mono g S k k' n : (k <= k')%nat -> dist_le g S k n -> dist_le g S k' n.
Proof. intros Hk (s & m & I & Hm & Wk). exists s, m. repeat split; auto. lia. Qed.

Lemma knn_spec g S k n : In n (knn g S k) <-> dist_le g S k n.
Proof.
  revert n. induction k as [|k IH]; intros n.
  - unfold knn. simpl. rewrite add_all_in. split.
    + intros [I|[]]. exists n, O. repeat split; auto. constructor.
    + intros (s & m & I & Hm & Wk). left. assert (m = O) as -> by lia. inversion Wk; subst. exact I.
  - unfold knn in *. simpl. rewrite step_in. split.
    + intros [I|(u & Iu & In)].
      * apply IH in I. eapply dist_le_mono; [|exact I]. lia.
      * apply IH in Iu. destruct Iu as (s & m & I & Hm & Wk). exists s, (Datatypes.S m). repeat split; [exact I|lia|].
        econstructor; [exact Wk|]. apply in_nbrs. exact In.
    + intros (s & m & I & Hm & Wk). destruct (Nat.eq_dec m (Datatypes.S k)) as [->|Hne].
      * inversion Wk; subst. right. exists u. split; [|apply in_nbrs; assumption].
        apply IH. exists s, k. repeat split; auto.
      * left. apply IH. exists s, m. repeat split; auto. lia.
Qed.

Lemma walk_in_nodes g s n m : wf g -> In s (node_ids g) -> walk g s n m -> In n (node_ids g).
Proof.
  intros W Is Wk. induction Wk as [s|s u n m Wk IH A]; [exact Is|].
  destruct (adj g u n) as [e|] eqn:Ad; [|congruence]. apply (wf_adj_iff W) in Ad.
  destruct Ad as [Ad|Ad]; destruct (wf_edge_nodes W Ad) as (P & Q & _); assumption.
Qed.

Lemma rc_keys_in g n : In n (node_ids (get_rc g)) -> In n (node_ids g).
Proof. intros I. apply rc_keys in I. destruct I as (a & b & x & _ & _ & _ & I). exact I. Qed.

Lemma dist_le_in_nodes g k n : wf g -> dist_le g (node_ids (get_rc g)) k n -> In n (node_ids g).
Proof.
  intros W (s & m & I & _ & Wk). eapply walk_in_nodes; eauto. apply rc_keys_in. exact I.
Qed.

Lemma extract_k_S g k : extract_k g (S k) = induced_sub g (knn g (node_ids (get_rc g)) (S k)).
Proof. reflexivity. Qed.

(** membership tests of lib/LGraph.v and lib/Reach.v coincide *)
Lemma mem_in_knn g S k n : LGraph.mem n (knn g S k) = true <-> dist_le g S k n.
Proof. rewrite LGraph.mem_spec. apply knn_spec. Qed.

Theorem ctx_spec g : wf g -> forall k, (1 <= k)%nat ->
  let B := dist_le g (node_ids (get_rc g)) k in
  (forall n, In n (node_ids (extract_k g k)) <-> B n) /\
  (forall n a, label (extract_k g k) n = Some a <-> label g n = Some a /\ B n) /\
  (forall u v e, adj (extract_k g k) u v = Some e <-> adj g u v = Some e /\ B u /\ B v).
Proof.
  intros W k Hk B. destruct k as [|k]; [lia|]. rewrite extract_k_S. split; [|split].
  - intros n. rewrite node_ids_induced, knn_spec. split; [tauto|]. intros H. split; [|exact H].
    eapply dist_le_in_nodes; eauto.
  - intros n a. rewrite label_induced.
    destruct (LGraph.mem n (knn g (node_ids (get_rc g)) (S k))) eqn:M.
    + apply mem_in_knn in M. tauto.
    + split; [discriminate|]. intros [_ Bn]. apply mem_in_knn in Bn. congruence.
  - intros u v e. rewrite (adj_induced _ _ _ W).
    destruct (LGraph.mem u (knn g (node_ids (get_rc g)) (S k))) eqn:Mu;
      destruct (LGraph.mem v (knn g (node_ids (get_rc g)) (S k))) eqn:Mv; simpl.
    + apply mem_in_knn in Mu, Mv. tauto.
    + split; [discriminate|]. intros (_ & _ & Bv). apply mem_in_knn in Bv. congruence.
    + split; [discriminate|]. intros (_ & Bu & _). apply mem_in_knn in Bu. congruence.
    + split; [discriminate|]. intros (_ & Bu & _). apply mem_in_knn in Bu. congruence.
Qed.

(** * the chain  centre = context(0) within context(1) within context(2) ... within ITS *)
Lemma dist_le_seed g S k n : In n S -> dist_le g S k n.
Proof. intros I. exists n, O. repeat split; [exact I|lia|constructor]. Qed.

Theorem ctx_chain g : wf g -> forall k k', (k <= k')%nat ->
  extract_k g 0 = get_rc g /\
  (forall n, In n (node_ids (extract_k g k)) -> In n (node_ids (extract_k g k'))) /\
  (forall u v e, adj (extract_k g k) u v = Some e -> adj (extract_k g k') u v = Some e) /\
  (forall n, In n (node_ids (extract_k g k')) -> In n (node_ids g)) /\
  (forall u v e, adj (extract_k g k') u v = Some e -> adj g u v = Some e).
Proof.
  intros W k k' Hk. split; [reflexivity|].
  assert (forall j, (forall n, In n (node_ids (extract_k g j)) -> In n (node_ids g)) /\
                    (forall u v e, adj (extract_k g j) u v = Some e -> adj g u v = Some e)) as Hsub.
  { intros [|j].
    - split; [apply rc_keys_in|]. intros u v e A. apply (rc_adj g W) in A. tauto.
    - destruct (ctx_spec g W (S j) ltac:(lia)) as (N1 & _ & A1). split.
      + intros n I. apply N1 in I. eapply dist_le_in_nodes; eauto.
      + intros u v e A. apply A1 in A. tauto. }
  split; [|split; [|split; apply Hsub]].
  - intros n I. destruct k' as [|k']; [assert (k = O) as -> by lia; exact I|].
    destruct (ctx_spec g W (S k') ltac:(lia)) as (N1 & _ & _). apply N1.
    destruct k as [|k].
    + apply dist_le_seed. exact I.
    + destruct (ctx_spec g W (S k) ltac:(lia)) as (N0 & _ & _). apply N0 in I.
      eapply dist_le_mono; [|exact I]. lia.
  - intros u v e A. destruct k' as [|k']; [assert (k = O) as -> by lia; exact A|].
    destruct (ctx_spec g W (S k') ltac:(lia)) as (_ & _ & A1). apply A1.
    destruct k as [|k].
    + simpl in A. pose proof (rc_wf g W) as W'. pose proof A as A0. apply (rc_adj g W) in A. split; [tauto|].
      apply (wf_adj_iff W') in A0.
      destruct A0 as [A0|A0]; destruct (wf_edge_nodes W' A0) as (P & Q & _); split; apply dist_le_seed; assumption.
    + destruct (ctx_spec g W (S k) ltac:(lia)) as (_ & _ & A0). apply A0 in A. destruct A as (A & Bu & Bv).
      split; [exact A|]. split; (eapply dist_le_mono; [|eassumption]); lia.
Qed.

(** * non-vacuity: the ITS of C01's 4-atom substitution extended by a spectator chain 1-5-6-7 *)
Definition ex_n (el : N) : inode := IN el 0 0 None (NA el false 0 0 []) (NA el false 0 0 []).
Definition ex_its : its :=
  LG [(1%N, ex_n 70%N); (2%N, ex_n 17013%N); (3%N, ex_n 82%N); (4%N, ex_n 2%N); (5%N, ex_n 70%N);
      (6%N, ex_n 70%N); (7%N, ex_n 70%N); (8%N, ex_n 2%N)]
     [(1%N, 2%N, IE 2 0 2); (3%N, 4%N, IE 2 0 2); (3%N, 1%N, IE 0 2 (-2)); (4%N, 2%N, IE 0 2 (-2));
      (1%N, 5%N, IE 2 2 0); (5%N, 6%N, IE 4 4 0); (6%N, 7%N, IE 2 2 0); (4%N, 8%N, IE 2 2 0)].

Lemma ex_its_wf : wf ex_its.
Proof.
  apply wf_intro; simpl.
  - repeat constructor; simpl; intuition discriminate.
  - intros a b x I. repeat (destruct I as [E|I]; [inversion E; subst; simpl; intuition discriminate|]). destruct I.
  - repeat constructor.
Qed.

Lemma ex_its_std : std_consistent ex_its.
Proof. intros u v x I. simpl in I. repeat (destruct I as [E|I]; [inversion E; reflexivity|]). destruct I. Qed.

(** hypotheses satisfiable; the centre is a proper, non-empty part (4 changed bonds + the unchanged H-H bond 4-8);
    the contexts grow strictly up to radius 3 *)
Example C02_nonvacuous :
  wf ex_its /\ std_consistent ex_its /\
  map fst (gnodes (get_rc ex_its)) = [1; 2; 3; 4; 8]%N /\
  length (gedges (get_rc ex_its)) = 5%nat /\
  adj (get_rc ex_its) 4%N 8%N = Some (IE 2 2 0) /\ adj (get_rc ex_its) 1%N 5%N = None /\
  map (fun k => length (gnodes (extract_k ex_its k))) [0; 1; 2; 3]%nat = [5; 6; 7; 8]%nat.
Proof.
  split; [apply ex_its_wf|]. split; [apply ex_its_std|]. repeat split.
Qed.

Example C02_equivariant_nonvacuous :
  get_rc (relabel (N.add 10) ex_its) = relabel (N.add 10) (get_rc ex_its) /\
  relabel (N.add 10) (get_rc ex_its) <> get_rc ex_its.
Proof.
  split; [apply rc_equivariant; intros a b; apply N.add_cancel_l|]. intros E. vm_compute in E. discriminate.
Qed.
