From Coq Require Import List NArith ZArith Bool Lia.
From SK Require Import lib.LGraph model.C01_Model model.C02_Model.
Lemma stub_c02 : forall a, rc_attr (rc_attr a) = rc_attr a. Proof. reflexivity. Qed.
