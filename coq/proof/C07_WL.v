(** C07 — the WL-1 colour-histogram containment filter is a necessary condition for an isomorphism between graphs of
    equal order (the only case in which the repaired _pre_check applies it).  Stdlib lists. *)
From Coq Require Import List NArith Bool Arith Lia Permutation.
From SK Require Import lib.Tok lib.LGraph lib.Mono model.C07_Model proof.C07_Spec proof.C07_Filters proof.C07_History proof.C07_Main.
Import ListNotations.

(* ------------------------------------------------------------------ equality tests reflect equality *)
Lemma opt_eqb_sym x y : opt_eqb x y = opt_eqb y x.
Proof. destruct x, y; simpl; auto. apply N.eqb_sym. Qed.

Lemma opt_eqb_rfl x : opt_eqb x x = true.
Proof. apply opt_eqb_eq. reflexivity. Qed.

Lemma bl_eqb_eq a : forall b, bl_eqb a b = true <-> a = b.
Proof.
  induction a as [|x a IH]; intros [|y b]; simpl; split; try discriminate; auto.
  - intros E. apply andb_prop in E. destruct E as (E1 & E2). apply opt_eqb_eq in E1. apply IH in E2. congruence.
  - intros [= -> ->]. rewrite opt_eqb_rfl. apply IH. reflexivity.
Qed.

Lemma bll_eqb_eq a : forall b, bll_eqb a b = true <-> a = b.
Proof.
  induction a as [|x a IH]; intros [|y b]; simpl; split; try discriminate; auto.
  - intros E. apply andb_prop in E. destruct E as (E1 & E2). apply bl_eqb_eq in E1. apply IH in E2. congruence.
  - intros [= -> ->]. rewrite (proj2 (bl_eqb_eq y y) eq_refl). apply IH. reflexivity.
Qed.

Lemma colour_eqb_eq c d : colour_eqb c d = true <-> c = d.
Proof.
  destruct c as [c1 c2], d as [d1 d2]. unfold colour_eqb; simpl. rewrite andb_true_iff, bl_eqb_eq, bll_eqb_eq.
  split; [intros [-> ->]; reflexivity | intros [= -> ->]; auto].
Qed.

Lemma colour_eqb_rfl c : colour_eqb c c = true.
Proof. apply colour_eqb_eq. reflexivity. Qed.

(* ------------------------------------------------------------------ the order used by sorted() on base labels *)
Lemma ole_total x y : ole x y = false -> ole y x = true.
Proof. destruct x, y; simpl; auto; try discriminate. rewrite N.leb_gt, N.leb_le. lia. Qed.

Lemma ole_antisym x y : ole x y = true -> ole y x = true -> x = y.
Proof. destruct x, y; simpl; auto; try discriminate. rewrite !N.leb_le. intros. f_equal. lia. Qed.

Lemma ole_trans x y z : ole x y = true -> ole y z = true -> ole x z = true.
Proof. destruct x, y, z; simpl; auto; try discriminate. rewrite !N.leb_le. lia. Qed.

Lemma lle_total a : forall b, lle a b = false -> lle b a = true.
Proof.
  induction a as [|x a IH]; intros [|y b]; simpl; auto; try discriminate.
  rewrite (opt_eqb_sym y x). destruct (opt_eqb x y); [apply IH | apply ole_total].
Qed.

Lemma lle_antisym a : forall b, lle a b = true -> lle b a = true -> a = b.
Proof.
  induction a as [|x a IH]; intros [|y b]; simpl; auto; try discriminate.
  rewrite (opt_eqb_sym y x). destruct (opt_eqb x y) eqn:E.
  - apply opt_eqb_eq in E. subst. intros A B. f_equal. apply IH; auto.
  - intros A B. pose proof (ole_antisym x y A B) as F. subst. rewrite opt_eqb_rfl in E. discriminate.
Qed.

Lemma lle_trans a : forall b c, lle a b = true -> lle b c = true -> lle a c = true.
Proof.
  induction a as [|x a IH]; intros [|y b] [|z c]; simpl; auto; try discriminate.
  destruct (opt_eqb x y) eqn:E1.
  - apply opt_eqb_eq in E1. subst y. destruct (opt_eqb x z); [apply IH | auto].
  - destruct (opt_eqb y z) eqn:E2.
    + apply opt_eqb_eq in E2. subst z. rewrite E1. auto.
    + intros A B. destruct (opt_eqb x z) eqn:E3.
      * apply opt_eqb_eq in E3. subst z. pose proof (ole_antisym x y A B) as F. subst. rewrite opt_eqb_rfl in E1. discriminate.
      * eapply ole_trans; eauto.
Qed.

Lemma insert_comm x y l : insert_l x (insert_l y l) = insert_l y (insert_l x l).
Proof.
  induction l as [|z l IH]; simpl.
  - destruct (lle x y) eqn:A, (lle y x) eqn:B; auto.
    + rewrite (lle_antisym x y A B). reflexivity.
    + rewrite (lle_total x y A) in B. discriminate.
  - destruct (lle y z) eqn:Yz, (lle x z) eqn:Xz; simpl.
    + destruct (lle x y) eqn:A, (lle y x) eqn:B; simpl; rewrite ?Yz, ?Xz; auto.
      * rewrite (lle_antisym x y A B). reflexivity.
      * rewrite (lle_total x y A) in B. discriminate.
    + rewrite Yz. destruct (lle x y) eqn:A; [|simpl; rewrite Xz; reflexivity].
      rewrite (lle_trans x y z A Yz) in Xz. discriminate.
    + rewrite Xz. destruct (lle y x) eqn:B; [|simpl; rewrite Yz; reflexivity].
      rewrite (lle_trans y x z B Xz) in Yz. discriminate.
    + rewrite Yz, Xz. f_equal. exact IH.
Qed.

Lemma sort_perm l l' : Permutation l l' -> sort_l l = sort_l l'.
Proof.
  induction 1; simpl; auto; try congruence. apply insert_comm.
Qed.

(* ------------------------------------------------------------------ histograms count colours *)
Definition cnt (c : colour) (l : list colour) : N := fold_right (fun d a => if colour_eqb c d then N.succ a else a) 0%N l.

Lemma cnt_perm c l l' : Permutation l l' -> cnt c l = cnt c l'.
Proof.
  induction 1; simpl; auto; try congruence.
  - rewrite IHPermutation. reflexivity.
  - destruct (colour_eqb c x), (colour_eqb c y); reflexivity.
Qed.

Lemma hist_get_add c d h : hist_get c (hist_add d h) = if colour_eqb c d then N.succ (hist_get c h) else hist_get c h.
Proof.
  induction h as [|[c' n] r IH]; simpl.
  - destruct (colour_eqb c d); reflexivity.
  - destruct (colour_eqb d c') eqn:E1; simpl.
    + apply colour_eqb_eq in E1. subst c'. destruct (colour_eqb c d); reflexivity.
    + destruct (colour_eqb c c') eqn:E2.
      * apply colour_eqb_eq in E2. subst c'. destruct (colour_eqb c d) eqn:E3; auto.
        apply colour_eqb_eq in E3. subst d. rewrite colour_eqb_rfl in E1. discriminate.
      * exact IH.
Qed.

Lemma hist_get_fold (col : N -> colour) l : forall h0 c,
  hist_get c (fold_left (fun h u => hist_add (col u) h) l h0) = (cnt c (map col l) + hist_get c h0)%N.
Proof.
  induction l as [|u l IH]; intros h0 c; simpl; [reflexivity|].
  rewrite IH, hist_get_add. destruct (colour_eqb c (col u)); lia.
Qed.

Lemma hist_add_entries d h c n : In (c, n) (hist_add d h) ->
  In (c, n) h \/ (c = d /\ n = 1%N) \/ (c = d /\ exists n', n = N.succ n' /\ In (c, n') h).
Proof.
  induction h as [|[c' m] r IH]; simpl.
  - intros [[= <- <-]|[]]. right. left. auto.
  - destruct (colour_eqb d c') eqn:E; simpl.
    + apply colour_eqb_eq in E. subst c'. intros [[= <- <-]|I]; [|auto].
      right. right. split; auto. exists m. auto.
    + intros [E1|I]; [auto|]. destruct (IH I) as [A|[A|(A & n' & B & C)]]; auto.
      right. right. split; auto. exists n'. auto.
Qed.

Lemma hist_entries_fold (col : N -> colour) l : forall h0 (K : colour -> N),
  (forall c n, In (c, n) h0 -> (n <= K c)%N) ->
  forall c n, In (c, n) (fold_left (fun h u => hist_add (col u) h) l h0) -> (n <= K c + cnt c (map col l))%N.
Proof.
  induction l as [|u l IH]; intros h0 K HK c n; simpl.
  - intros I. specialize (HK c n I). lia.
  - intros I.
    specialize (IH (hist_add (col u) h0) (fun c => (K c + (if colour_eqb c (col u) then 1 else 0))%N)).
    simpl in IH. assert (G : (n <= K c + (if colour_eqb c (col u) then 1 else 0) + cnt c (map col l))%N).
    { apply IH; auto. intros c0 n0 I0. destruct (hist_add_entries _ _ _ _ I0) as [A|[(A & B)|(A & n' & B & C)]].
      - specialize (HK c0 n0 A). lia.
      - subst. rewrite colour_eqb_rfl. lia.
      - subst. rewrite colour_eqb_rfl. specialize (HK _ _ C). lia. }
    destruct (colour_eqb c (col u)); lia.
Qed.

(* ------------------------------------------------------------------ neighbours *)
Definition nbrs_of (es : list (N * N * attrs)) (u : N) : list N :=
  flat_map (fun e : N * N * attrs => let '(a, b, _) := e in if N.eqb a u then [b] else if N.eqb b u then [a] else []) es.

Lemma nbrs_nbrs_of (g : graph) u : nbrs g u = nbrs_of (gedges g) u.
Proof. reflexivity. Qed.

Lemma nbrs_in es u v : In v (nbrs_of es u) <-> find_edge u v es <> None.
Proof.
  induction es as [|[[a b] x] r IH]; simpl.
  - split; [intros []|congruence].
  - rewrite in_app_iff, IH.
    destruct (N.eqb_spec a u), (N.eqb_spec b u), (N.eqb_spec a v), (N.eqb_spec b v); simpl; subst;
      intuition (try congruence; try discriminate).
Qed.

Lemma nbrs_nodup es u : uniq_edges es -> NoDup (nbrs_of es u).
Proof.
  induction es as [|[[a b] x] r IH]; intros U; simpl; [constructor|].
  pose proof (U [] a b x r eq_refl) as Hn. specialize (IH (uniq_edges_tail _ _ U)).
  destruct (N.eqb_spec a u).
  - subst. simpl. constructor; auto. rewrite nbrs_in. congruence.
  - destruct (N.eqb_spec b u); simpl; auto.
    subst. constructor; auto. rewrite nbrs_in, find_edge_sym. congruence.
Qed.

Lemma nbrs_wf (g : graph) u v : gwf g -> In v (nbrs g u) -> In u (node_ids g) /\ In v (node_ids g) /\ u <> v /\ LGraph.adj g u v <> None.
Proof.
  intros W I. rewrite nbrs_nbrs_of, nbrs_in in I.
  destruct (find_edge u v (gedges g)) as [y|] eqn:E; [|congruence].
  destruct (find_edge_some _ _ _ _ E) as (a & b & Iy & S). destruct W as (_ & W2 & _).
  destruct (W2 a b y Iy) as (Ia & Ib & Hne). unfold LGraph.adj. rewrite E.
  destruct S as [[-> ->]|[-> ->]]; repeat split; auto; congruence.
Qed.

Lemma adj_nbrs (g : graph) u v : LGraph.adj g u v <> None -> In v (nbrs g u).
Proof. intros A. rewrite nbrs_nbrs_of, nbrs_in. exact A. Qed.

(* ------------------------------------------------------------------ the filter *)
Section WL.
Variables (na : list N) (nm em : attrs -> attrs -> bool) (H P : graph) (f : N -> N).
Hypothesis WH : gwf H.
Hypothesis WP : gwf P.
Hypothesis En : n_nodes H = n_nodes P.
Hypothesis R : respects na nm.
Hypothesis He : emb true nm em H P f.

Lemma wl_base u : In u (node_ids P) -> base na H (f u) = base na P u.
Proof.
  intros Iu. unfold base. apply map_ext_in. intros k Ik. destruct He as (E1 & _). apply (R _ _ (proj2 (E1 u Iu)) k Ik).
Qed.

Lemma wl_nbrs u : In u (node_ids P) -> Permutation (map f (nbrs P u)) (nbrs H (f u)).
Proof.
  intros Iu. pose proof (emb_onto nm em H P f WH WP En He) as (_ & On). destruct He as (E1 & E2 & E3).
  apply NoDup_Permutation.
  - apply NoDup_map_inj_in; [rewrite nbrs_nbrs_of; apply nbrs_nodup, wf_uniq; exact WP|].
    intros a b Ia Ib. apply E2; [apply (nbrs_wf P u a WP Ia) | apply (nbrs_wf P u b WP Ib)].
  - rewrite nbrs_nbrs_of. apply nbrs_nodup, wf_uniq. exact WH.
  - intros x. split.
    + intros I. apply in_map_iff in I. destruct I as (v & <- & Iv). destruct (nbrs_wf P u v WP Iv) as (_ & Inv & Hne & A).
      apply adj_nbrs. specialize (E3 u v Iu Inv Hne). destruct (LGraph.adj P u v); [|congruence].
      destruct (LGraph.adj H (f u) (f v)); [discriminate|destruct E3].
    + intros I. destruct (nbrs_wf H (f u) x WH I) as (_ & Ix & Hne & A). destruct (On x Ix) as (v & Iv & <-).
      apply in_map. apply adj_nbrs. assert (Huv : u <> v) by congruence. specialize (E3 u v Iu Iv Huv).
      destruct (LGraph.adj P u v); [discriminate|]. destruct (LGraph.adj H (f u) (f v)); [discriminate|congruence].
Qed.

Lemma wl_colour u : In u (node_ids P) -> colour_of na H (f u) = colour_of na P u.
Proof.
  intros Iu. unfold colour_of. rewrite (wl_base u Iu). f_equal.
  rewrite <- (sort_perm _ _ (Permutation_map (base na H) (wl_nbrs u Iu))). rewrite map_map. f_equal.
  apply map_ext_in. intros v Iv. apply wl_base. apply (nbrs_wf P u v WP Iv).
Qed.

Lemma wl_nodes_perm : Permutation (map f (node_ids P)) (node_ids H).
Proof.
  pose proof (emb_onto nm em H P f WH WP En He) as (_ & On).
  apply NoDup_Permutation; [eapply emb_image_nodup; eauto; apply gwf_nodup; auto | apply gwf_nodup; auto |].
  intros x. split.
  - apply (emb_image_incl _ _ _ _ _ _ He).
  - intros Ix. destruct (On x Ix) as (u & Iu & <-). apply in_map. exact Iu.
Qed.

Lemma wl_cnt c : cnt c (map (colour_of na H) (node_ids H)) = cnt c (map (colour_of na P) (node_ids P)).
Proof.
  rewrite <- (cnt_perm c _ _ (Permutation_map (colour_of na H) wl_nodes_perm)), map_map. f_equal.
  apply map_ext_in. intros u Iu. apply wl_colour. exact Iu.
Qed.

Lemma wl_contained : hist_contained (wl1_hash na P) (wl1_hash na H) = true.
Proof.
  unfold hist_contained. apply forallb_forall. intros [c n] I. simpl. apply N.leb_le.
  unfold wl1_hash in *. rewrite hist_get_fold. simpl. rewrite N.add_0_r, wl_cnt.
  pose proof (hist_entries_fold (colour_of na P) (node_ids P) [] (fun _ => 0%N)) as B. simpl in B.
  apply B; auto. intros ? ? [].
Qed.
End WL.

Theorem wl_necessary_holds : wl_necessary.
Proof. intros na nm em H P f WH WP En R He. eapply wl_contained; eauto. Qed.
