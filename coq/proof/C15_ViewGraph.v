(** C15 (round 5) — the cached view IS the export of the current network.

    model/C15_View.v represents a cached view by the snapshot of the store it was built from and states
    currency through [vproj] ("what the export reads").  Here the snapshot is pushed through the export
    functions themselves — the Gallina models of hypergraph_to_bipartite / hypergraph_to_species_graph of
    C16 (model/C16_Model.v: [backend_bipartite], [hypergraph_to_species_graph]), exactly what
    _CRNGraphBackend._build_graph calls — so the statement is about the graph object handed out. *)
From stdpp Require Import gmap strings sets pretty.
From SK Require Import lib.Tok model.C15_Model model.C15_Ext model.C15_View proof.C15_View model.C16_Model model.C15_ViewObs.
Local Open Scope string_scope.

(** [view_graph o s] (model/C15_ViewObs.v) = the graph _CRNGraphBackend._build_graph builds from a store; it is what the
    correspondence compares with the graph object handed out ([step3g]) *)

(** the exports never read the per-rule id counters: stores with the same content export to the same graph *)
Lemma same_content_bipartite fl s s' : same_content s s' → hypergraph_to_bipartite fl s' = hypergraph_to_bipartite fl s.
Proof.
  destruct s as [sp ed od si so cn ml kp], s' as [sp' ed' od' si' so' cn' ml' kp'].
  intros (? & ? & ? & ? & ? & ? & ?). cbn in *. subst. reflexivity.
Qed.
Lemma same_content_species_graph b s s' : same_content s s' → hypergraph_to_species_graph b s' = hypergraph_to_species_graph b s.
Proof.
  destruct s as [sp ed od si so cn ml kp], s' as [sp' ed' od' si' so' cn' ml' kp'].
  intros (? & ? & ? & ? & ? & ? & ?). cbn in *. subst. reflexivity.
Qed.
Lemma same_content_view_graph o s s' : same_content s s' → view_graph o s' = view_graph o s.
Proof.
  intros Hs. unfold view_graph, backend_bipartite. destruct (include_rule o).
  - by rewrite (same_content_bipartite _ s s' Hs).
  - by rewrite (same_content_species_graph _ s s' Hs).
Qed.

Lemma exports_ignore_counters (fl : bflags) (b : bool) (s s' : net) :
  species s' = species s → edges s' = edges s → order s' = order s → s_in s' = s_in s → s_out s' = s_out s →
  mol s' = mol s → kept s' = kept s →
  hypergraph_to_bipartite fl s' = hypergraph_to_bipartite fl s ∧
  hypergraph_to_species_graph b s' = hypergraph_to_species_graph b s.
Proof.
  intros H1 H2 H3 H4 H5 H6 H7. split.
  - apply same_content_bipartite. repeat split; assumption.
  - apply same_content_species_graph. repeat split; assumption.
Qed.

(** every world reachable through the methods of the store: the graph a backend hands out on access equals the graph
    exported from the network as it is now *)
Lemma view_graph_current (n k nb : nat) (ops : list op3) (b : nat) :
  Forall (λ o, match o with O2 (OSideSet _ _ _ _ _) | O2 (OSideIncr _ _ _ _ _) => False | _ => True end) ops →
  let w := fold_left (λ w o, (step3 w o).1.1) ops (init_world3 n k nb) in
  let be := getb (backends w) b in
  view_graph (b_opts be) (access w b).2 = view_graph (b_opts be) (getn (nets (w2 w)) (b_net be)).
Proof.
  intros Hs w be. apply same_content_view_graph, access_current. apply run3_VInv; [exact Hs|apply VInv_init].
Qed.

(** the cache works: right after an access of a (really existing) backend a second access hands out the SAME graph without
    rebuilding, and changes nothing; so does every later access until a store method is called on that network *)
Lemma access_cases w b be : backends w !! b = Some be →
  (∃ snap, b_cache be = Some (getv (vers w) (b_net be), snap) ∧ access w b = (w, false, snap)) ∨
  access w b = (W3 (w2 w) (vers w) (<[ b := BE (b_net be) (b_opts be)
                                             (Some (getv (vers w) (b_net be), getn (nets (w2 w)) (b_net be))) ]> (backends w)),
                true, getn (nets (w2 w)) (b_net be)).
Proof.
  intros Hbe. unfold access.
  assert (getb (backends w) b = be) as -> by (unfold getb; by rewrite nth_lookup, Hbe).
  destruct (b_cache be) as [[v snap]|] eqn:Hc; [|by right].
  destruct (decide (v = getv (vers w) (b_net be))) as [->|Hne]; [left; eauto|by right].
Qed.

Lemma access_cached w b : (b < length (backends w))%nat →
  (access (access w b).1.1 b).1.2 = false ∧ (access (access w b).1.1 b).2 = (access w b).2 ∧
  (access (access w b).1.1 b).1.1 = (access w b).1.1.
Proof.
  intros Hb. destruct (lookup_lt_is_Some_2 _ _ Hb) as [be Hbe].
  destruct (access_cases w b be Hbe) as [(snap & Hc & ->) | -> ]; cbn [fst snd].
  - destruct (access_cases w b be Hbe) as [(snap' & Hc' & ->)|Hq]; [cbn; split_and!; congruence|].
    exfalso. unfold access in Hq.
    assert (getb (backends w) b = be) as Hg by (unfold getb; by rewrite nth_lookup, Hbe).
    rewrite Hg, Hc, decide_True in Hq by done. congruence.
  - set (s := getn (nets (w2 w)) (b_net be)). set (cur := getv (vers w) (b_net be)).
    set (be1 := BE (b_net be) (b_opts be) (Some (cur, s))).
    set (w1 := W3 (w2 w) (vers w) (<[ b := be1 ]> (backends w))).
    assert (backends w1 !! b = Some be1) as Hb1 by (cbn; by apply list_lookup_insert).
    destruct (access_cases w1 b be1 Hb1) as [(snap' & Hc' & ->)|Hq].
    + cbn in Hc'. injection Hc' as <-. done.
    + exfalso. unfold access in Hq.
      assert (getb (backends w1) b = be1) as Hg by (unfold getb; by rewrite nth_lookup, Hb1).
      rewrite Hg in Hq. cbn [b_cache be1 b_net vers w1] in Hq. fold cur in Hq. rewrite decide_True in Hq by done. congruence.
Qed.

(** what the abstraction [vproj] leaves out is exactly what the exports do not read: equal projections, equal graphs
    (species graph and bipartite graph with coefficients) *)
Lemma vproj_bipartite (int_ : bool) s s' :
  vproj (VO true int_ true) s' = vproj (VO true int_ true) s →
  b_nodes (backend_bipartite int_ true s') = b_nodes (backend_bipartite int_ true s) ∧
  b_arcs (backend_bipartite int_ true s') = b_arcs (backend_bipartite int_ true s).
Proof.
  unfold vproj. cbn. intros [= Hsp Hed].
  assert (edges s' = edges s) as He.
  { apply map_eq. intros e. apply (f_equal (λ m, m !! e)) in Hed. rewrite !lookup_fmap in Hed.
    destruct (edges s' !! e) as [[r1 l1 p1]|], (edges s !! e) as [[r2 l2 p2]|]; cbn in Hed; congruence. }
  destruct s as [sp ed od si so cn ml kp], s' as [sp' ed' od' si' so' cn' ml' kp']. cbn in *. subst. done.
Qed.

(** non-vacuity: the witness history of C15_View (a species-graph view and a bipartite view of one network) — before the
    in-place coefficient edit both cached graphs are the exports of the network *)
Definition exg_ops : list op3 :=
  [ O2 (OAddItems 0 [IPair "A" 1; IPair "B" 2] [ILabel "C"] "" None);
    OBackendNew 0 0 (VO false false true); OBackendNew 1 0 (VO true true true);
    OView 0; OView 1;
    O2 (OAddItems 0 [ILabel "C"] [IPair "D" 3] "q" None) ].
Definition exg_w : world3 := fold_left (λ w o, (step3 w o).1.1) exg_ops (init_world3 1 0 2).
Definition exg_sg : sgraph := hypergraph_to_species_graph false (access exg_w 0).2.
Definition exg_bg : bgraph := backend_bipartite true true (access exg_w 1).2.
Example ex_view_graph_nonvacuous :
  (access exg_w 0).1.2 = true ∧ (access exg_w 1).1.2 = true ∧         (* both caches are stale: rebuilt on access *)
  size (g_arcs exg_sg) = 3%nat ∧ size (b_nodes exg_bg) = 6%nat ∧ size (b_arcs exg_bg) = 5%nat ∧
  tsgraph exg_sg = tsgraph (hypergraph_to_species_graph false (getn (nets (w2 exg_w)) 0)) ∧
  tbgraph exg_bg = tbgraph (backend_bipartite true true (getn (nets (w2 exg_w)) 0)).
Proof. split_and!; by vm_compute. Qed.

(** the observed run is the run of model/C15_View.v: same worlds, same errors; a view answer = the answer of [step3]
    followed by the graph built from the cached snapshot *)
Lemma step3g_spec w o : (step3g w o).1 = (step3 w o).1 ∧
  match o with
  | OView b => (step3g w o).2 = L [(step3 w o).2; tview (view_graph (b_opts (getb (backends w) b)) (access w b).2)]
  | _ => (step3g w o).2 = (step3 w o).2
  end.
Proof. unfold step3g. destruct (step3 w o) as [[w' er] a]. by destruct o. Qed.

(** non-vacuity of [access_cached]: both caches of [exg_w] are stale; the first access rebuilds, the second is served from the cache *)
Example ex_view_cached :
  (length (backends exg_w) = 2)%nat ∧ (access exg_w 0).1.2 = true ∧ (access (access exg_w 0).1.1 0).1.2 = false ∧
  tsgraph (hypergraph_to_species_graph false (access (access exg_w 0).1.1 0).2) = tsgraph exg_sg.
Proof. split_and!; by vm_compute. Qed.

(** every store operation either counts itself ([bumps] says which network's `_version` moves) or leaves every export of every
    network unchanged — so a cached view whose version is current can only be the current export.  (The copy into a slot re-binds
    the slot to a new object, whose backends are re-created; the caller-side coefficient edits are the known finding.) *)
Lemma version_or_unchanged (w : world2) (o : op2) :
  view_safe (O2 o) → (∀ i j, o ≠ OBase (OCopy i j)) →
  bumps w o (step2 w o).1.1 (step2 w o).1.2 = None →
  ∀ (k : nat) (fl : bflags) (b : bool),
    hypergraph_to_bipartite fl (getn (nets (step2 w o).1.1) k) = hypergraph_to_bipartite fl (getn (nets w) k) ∧
    hypergraph_to_species_graph b (getn (nets (step2 w o).1.1) k) = hypergraph_to_species_graph b (getn (nets w) k).
Proof.
  intros Hs Hnc Hb k fl b. pose proof (unbumped_same w o Hs Hnc Hb k) as Hsame.
  split; [by apply same_content_bipartite|by apply same_content_species_graph].
Qed.
(** non-vacuity: on the network of [exg_w], a remove_rxn of a missing id and a query count nothing (and change nothing), while
    remove_species(x, prune_orphans=False) of a species that shares its reactions — no reaction dies — DOES count *)
Example ex_version_nonvacuous :
  bumps (w2 exg_w) (OBase (ORemoveRxn 0 "nope")) (step2 (w2 exg_w) (OBase (ORemoveRxn 0 "nope"))).1.1 (step2 (w2 exg_w) (OBase (ORemoveRxn 0 "nope"))).1.2 = None ∧
  bumps (w2 exg_w) (OBase (ORemoveSpecies 0 "B" false)) (step2 (w2 exg_w) (OBase (ORemoveSpecies 0 "B" false))).1.1
        (step2 (w2 exg_w) (OBase (ORemoveSpecies 0 "B" false))).1.2 = Some 0%nat ∧
  size (edges (getn (nets (step2 (w2 exg_w) (OBase (ORemoveSpecies 0 "B" false))).1.1) 0)) = size (edges (getn (nets (w2 exg_w)) 0)).
Proof. split_and!; by vm_compute. Qed.
