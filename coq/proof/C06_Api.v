(** C06 — proofs, part 9: the call interface (Strategy.from_string, option defaults). *)
From Coq Require Import List NArith Bool Arith Lia.
From SK Require Import lib.LGraph model.C06_Model lib.C06_Spec proof.C06_All.
Import ListNotations.

Lemma lower_byte_idem b : lower_byte (lower_byte b) = lower_byte b.
Proof.
  unfold lower_byte. destruct ((65 <=? b)%N && (b <=? 90)%N) eqn:E; [|rewrite E; reflexivity].
  apply andb_prop in E. destruct E as [E1 E2]. apply N.leb_le in E1. apply N.leb_le in E2.
  destruct ((65 <=? b + 32)%N && (b + 32 <=? 90)%N) eqn:E'; [|reflexivity].
  apply andb_prop in E'. destruct E' as [_ E3]. apply N.leb_le in E3. lia.
Qed.

(** the accepted spellings: exactly the case variants (A-Z/a-z) of the four codes *)
Theorem from_string_spec (s : list N) (k : N) :
  from_string s = Some k <->
  (k = 0%N /\ map lower_byte s = s_all) \/ (k = 1%N /\ map lower_byte s = s_comp) \/
  (k = 2%N /\ map lower_byte s = s_bt) \/ (k = 3%N /\ map lower_byte s = s_partial).
Proof.
  unfold from_string. cbv zeta.
  destruct (leqb (map lower_byte s) s_all) eqn:E0.
  { apply leqb_spec in E0. rewrite E0. split; [intros [= <-]; left; auto|].
    intros [[-> _]|[[_ F]|[[_ F]|[_ F]]]]; auto; discriminate. }
  destruct (leqb (map lower_byte s) s_comp) eqn:E1.
  { apply leqb_spec in E1. rewrite E1. split; [intros [= <-]; right; left; auto|].
    intros [[_ F]|[[-> _]|[[_ F]|[_ F]]]]; auto; discriminate. }
  destruct (leqb (map lower_byte s) s_bt) eqn:E2.
  { apply leqb_spec in E2. rewrite E2. split; [intros [= <-]; right; right; left; auto|].
    intros [[_ F]|[[_ F]|[[-> _]|[_ F]]]]; auto; discriminate. }
  destruct (leqb (map lower_byte s) s_partial) eqn:E3.
  { apply leqb_spec in E3. rewrite E3. split; [intros [= <-]; right; right; right; auto|].
    intros [[_ F]|[[_ F]|[[_ F]|[-> _]]]]; auto; discriminate. }
  split; [discriminate|].
  assert (N0 : forall a b, leqb a b = false -> a <> b) by (intros a b F E; apply leqb_spec in E; congruence).
  intros [[_ F]|[[_ F]|[[_ F]|[_ F]]]]; exfalso; [apply (N0 _ _ E0 F)|apply (N0 _ _ E1 F)|apply (N0 _ _ E2 F)|apply (N0 _ _ E3 F)].
Qed.

Theorem from_string_case_insensitive s : from_string (map lower_byte s) = from_string s.
Proof.
  unfold from_string. rewrite map_map. rewrite (map_ext _ lower_byte); [reflexivity|]. apply lower_byte_idem.
Qed.

Section Oracle.
Variable enum : list N -> list N -> list mapping.

(** every option omitted = component-aware, no result cap, strict component count, threshold 5000, no pre-filter *)
Theorem api_defaults H P :
  find_api enum SDefault None None None None H P = Result (find enum (Cfg 1 0 5000 true false) H P).
Proof. reflexivity. Qed.

(** a string and the enum member it denotes are interchangeable; partial is refused, anything else is a ValueError *)
Theorem api_strategy s maxr strict thr pref H P :
  find_api enum (SStr s) maxr strict thr pref H P =
  match from_string s with
  | None => ValueError
  | Some k => find_api enum (SMember k) maxr strict thr pref H P
  end.
Proof. unfold find_api. destruct (from_string s); reflexivity. Qed.

Theorem api_member k maxr strict thr pref H P : (k < 3)%N ->
  find_api enum (SMember k) maxr strict thr pref H P =
  Result (find enum (Cfg k (match maxr with Some m => m | None => 0%N end) (match thr with Some t => t | None => 5000%N end)
                           (match strict with Some b => b | None => true end) (match pref with Some b => b | None => false end)) H P).
Proof.
  intros Hk. unfold find_api. destruct k as [|[q|q|]]; try reflexivity; exfalso; lia.
Qed.

Theorem api_partial maxr strict thr pref H P :
  find_api enum (SMember 3) maxr strict thr pref H P = NotImplemented.
Proof. reflexivity. Qed.

(** max_results = 0 is the same request as max_results = None (the code tests "if max_results and ...") *)
Theorem api_maxr_zero s strict thr pref H P :
  find_api enum s (Some 0%N) strict thr pref H P = find_api enum s None strict thr pref H P.
Proof. reflexivity. Qed.
End Oracle.

Example ex_from_string :
  from_string [67; 111; 77; 112]%N = Some 1%N /\ from_string [66; 84]%N = Some 2%N /\
  from_string [97; 108; 108; 32]%N = None /\ from_string [] = None /\ from_string [80; 65; 82; 84; 73; 65; 76]%N = Some 3%N.
Proof. repeat split; vm_compute; reflexivity. Qed.
