(** C04 — in the default mode the hydrogen counts of the stripped pattern are bond counts, hence not negative: the premise
    "pattern counts >= 0" of the engine theorems follows from the precondition. *)
From Coq Require Import List NArith ZArith Bool Arith Lia.
From SK Require Import lib.Tok lib.LGraph model.C03_Model model.C04_Model proof.C03_Proof proof.C03_Spec proof.C03_StripCor
                       proof.C04_Glue proof.C04_Template proof.C04_Default proof.C04_DefaultProof proof.C04_DefaultChain.
From SK Require Import lib.Mono model.C06_Model lib.C06_Spec model.C04_Reactor proof.C04_Engine proof.C04_DefaultChainTotal proof.C04_CompBt.
Import ListNotations.
Local Open Scope Z_scope.

Theorem default_pattern_nonneg (core invert : bool) (G H : hostg) (rc : its) (l r : molg) :
  pair_wfb G H = true -> mode_E G H = true ->
  default_okb (if invert then H else G) (if invert then G else H) (template core invert G H) = true ->
  (core = true -> centre_carries (its_construct G H) = true) ->
  rule_of core invert G H = Some (rc, l, r) ->
  forallb (fun p => 0 <=? m_hc (snd p)) (gnodes l) = true.
Proof.
  intros W ME OK CC Er.
  pose proof (pair_AB' core invert G H W OK) as PW. pose proof (own_describes core invert G H W OK CC) as D.
  set (A := if invert then H else G) in *. set (B := if invert then G else H) in *. set (tpl := template core invert G H) in *.
  assert (Es : synrule tpl true = Some (rc, l, r)) by (unfold rule_of in Er; rewrite ME in Er; exact Er).
  pose proof (tpl_nodupb A B tpl D) as Hnd0. pose proof (tpl_el A B tpl PW D) as Hel.
  destruct (synrule_default_pointwise tpl rc l r Hnd0 Hel Es) as (R & _ & RH & Ri & _ & _ & Nrc & _ & RCa & _).
  assert (AllH : forall h, is_H_i tpl h = true -> In h R).
  { intros h Hh. apply RH. destruct (all_H_strippable A B tpl OK h Hh). auto. }
  pose proof (default_left_of tpl rc l r Hnd0 Hel Es) as LO.
  apply forallb_forall. intros [k la] I. cbn [snd]. apply Z.leb_le.
  destruct (lo_nodes _ _ LO k la I) as (a & Ea & _ & _ & E3). rewrite E3.
  assert (Ik : In k (node_ids rc)) by exact (label_some_in rc k a Ea).
  rewrite Ri in Ik. apply filter_In in Ik. destruct Ik as [Ik NR]. apply negb_true_iff in NR.
  assert (NR' : ~ In k R) by (intros J; apply mem_spec in J; congruence).
  destruct (in_ids_label tpl k Ik) as [a0 Ea0]. destruct (RCa k a0 Ea0 NR') as (a' & Ea' & _ & _ & C1 & _).
  rewrite Ea in Ea'. inversion Ea'; subst a'. rewrite C1. destruct (N.eqb (a_el (iG a0)) EL_H); [lia|apply sum_cnt_nonneg].
Qed.

(** the default mode through the reactor object: C04_in_results_engine_default without the premise on the pattern counts *)
Theorem default_chain_final (enum : list N -> list N -> list C06_Model.mapping)
    (rematch : nat -> hostg -> molg -> list C03_Model.mapping) (core invert : bool) (G H : hostg) (thr : option N) :
  pair_wfb G H = true -> mode_E G H = true ->
  default_okb (if invert then H else G) (if invert then G else H) (template core invert G H) = true ->
  (core = true -> centre_carries (its_construct G H) = true) ->
  own_valence_okb core invert G H = true ->
  forall (rc : its) (l r : molg),
  rule_of core invert G H = Some (rc, l, r) ->
  vf2_contract enum (tr_host (substrate invert G H)) (tr_pat l) (node_ids (tr_host (substrate invert G H))) (node_ids (tr_pat l)) ->
  (lenN (enum (node_ids (tr_host (substrate invert G H))) (node_ids (tr_pat l))) <= dflt DEFAULT_THRESHOLD thr)%N ->
  exists (gs : list its) (T' : its),
    fst (read_its (api_engine enum) rematch (own_opts invert true (SMember 0%N) thr false) (substrate invert G H) (rc, l, r) fresh) = Some gs /\
    In T' gs /\ regen_folded T' (if invert then H else G) (if invert then G else H) = true.
Proof.
  intros W ME OK CC VAL rc l r Er Hc Ht.
  exact (default_chain_total enum rematch core invert G H thr W ME OK CC VAL rc l r Er
           (default_pattern_nonneg core invert G H rc l r W ME OK CC Er) Hc Ht).
Qed.

(** comp / bt for the own templates in the default mode, without the premise on the pattern counts *)
Theorem own_comp_default_final (enum : list N -> list N -> list C06_Model.mapping) (core invert : bool) (G H : hostg) :
  pair_wfb G H = true -> mode_E G H = true ->
  default_okb (if invert then H else G) (if invert then G else H) (template core invert G H) = true ->
  (core = true -> centre_carries (its_construct G H) = true) ->
  forall (rc : its) (l r : molg), rule_of core invert G H = Some (rc, l, r) ->
  oracle_ok enum (tr_host (substrate invert G H)) (tr_pat l) ->
  (0 <? length (comps (tr_pat l)))%nat && (length (comps (tr_pat l)) <? length (comps (tr_host (substrate invert G H))))%nat = false ->
  ((length (comps (tr_host (substrate invert G H))) <? length (comps (tr_pat l)))%nat = true \/
   id_separatingb (tr_host (substrate invert G H)) (tr_pat l) = true) ->
  exists T0 : N, forall (T : N) (o : ropts), (T0 <= T)%N ->
    o_strategy o = SMember 1%N -> o_thr o = Some T -> o_pref o = false ->
    regenerates_with enum (substrate invert G H) (h_to_implicit_host (if invert then G else H)) rc l r o.
Proof.
  intros W ME OK CC rc l r Er. exact (own_comp_default enum core invert G H W ME OK CC rc l r Er (default_pattern_nonneg core invert G H rc l r W ME OK CC Er)).
Qed.
Theorem own_bt_default_final (enum : list N -> list N -> list C06_Model.mapping) (core invert : bool) (G H : hostg) :
  pair_wfb G H = true -> mode_E G H = true ->
  default_okb (if invert then H else G) (if invert then G else H) (template core invert G H) = true ->
  (core = true -> centre_carries (its_construct G H) = true) ->
  forall (rc : its) (l r : molg), rule_of core invert G H = Some (rc, l, r) ->
  oracle_ok enum (tr_host (substrate invert G H)) (tr_pat l) ->
  ((0 <? length (comps (tr_pat l)))%nat && (length (comps (tr_pat l)) <? length (comps (tr_host (substrate invert G H))))%nat = true \/
   (length (comps (tr_host (substrate invert G H))) <? length (comps (tr_pat l)))%nat = true \/
   id_separatingb (tr_host (substrate invert G H)) (tr_pat l) = true) ->
  exists T0 : N, forall (T : N) (o : ropts), (T0 <= T)%N ->
    o_strategy o = SMember 2%N -> o_thr o = Some T -> o_pref o = false ->
    regenerates_with enum (substrate invert G H) (h_to_implicit_host (if invert then G else H)) rc l r o.
Proof.
  intros W ME OK CC rc l r Er. exact (own_bt_default enum core invert G H W ME OK CC rc l r Er (default_pattern_nonneg core invert G H rc l r W ME OK CC Er)).
Qed.
