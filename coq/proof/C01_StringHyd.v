(** C01 — proofs about model/C01_String.v, part 2: implicit_hydrogen *)
From Coq Require Import List NArith ZArith Bool Lia Arith.
From SK Require Import lib.LGraph lib.C01_GraphLemmas model.C01_Model model.C02_Model model.C01_String proof.C01_Proof.
Import ListNotations.
Local Open Scope Z_scope.

(** * list counting *)
Lemma filter_length_split {X} (p : X -> bool) (l : list X) x :
  length (filter p (x :: l)) = ((if p x then 1 else 0) + length (filter p l))%nat.
Proof. simpl. destruct (p x); reflexivity. Qed.

(** for duplicate-free L and P: |{x in L : x in P}| = |{h in P : h in L}| *)
Lemma filter_mem_one (h : N) (f : N -> bool) (L : list N) :
  NoDup L -> f h = false ->
  length (filter (fun m => N.eqb m h || f m) L) = ((if mem h L then 1 else 0) + length (filter f L))%nat.
Proof.
  unfold mem. induction L as [|x L IH]; intros Hn Hf; [reflexivity|]. inversion Hn as [|? ? Hx Hn']; subst.
  simpl. destruct (N.eqb_spec x h) as [->|Hne].
  - rewrite N.eqb_refl, Hf. simpl. rewrite (IH Hn' Hf).
    destruct (existsb (N.eqb h) L) eqn:M; [change (mem h L = true) in M; apply mem_spec in M; contradiction|]. simpl. reflexivity.
  - destruct (N.eqb_spec h x); [congruence|]. simpl. destruct (f x); simpl; rewrite (IH Hn' Hf); lia.
Qed.

Lemma filter_mem_swap (L P : list N) : NoDup L -> NoDup P ->
  length (filter (fun m => mem m P) L) = length (filter (fun h => mem h L) P).
Proof.
  intros HL. induction P as [|h P IH]; intros HP.
  - clear HL. simpl. induction L; simpl; auto.
  - inversion HP as [|? ? Hh HP']; subst.
    rewrite (filter_ext (fun m => mem m (h :: P)) (fun m => N.eqb m h || mem m P)) by reflexivity.
    rewrite filter_mem_one; [|exact HL|destruct (mem h P) eqn:M; [apply mem_spec in M; contradiction|reflexivity]].
    rewrite filter_length_split, IH by assumption. reflexivity.
Qed.

Lemma count_occ_nodup (l : list N) n : NoDup l -> count_occ N.eq_dec l n = if mem n l then 1%nat else 0%nat.
Proof.
  induction l as [|x l IH]; intros Hn; [reflexivity|]. inversion Hn as [|? ? Hx Hn']; subst.
  cbn [count_occ mem existsb]. fold (mem n l). destruct (N.eq_dec x n) as [->|Hne].
  - rewrite N.eqb_refl. cbn [orb]. rewrite IH by assumption.
    destruct (mem n l) eqn:M; [apply mem_spec in M; contradiction|reflexivity].
  - destruct (N.eqb_spec n x); [congruence|]. cbn [orb]. apply IH. assumption.
Qed.

Lemma count_occ_filter_true (f : N -> bool) (l : list N) n : f n = true ->
  count_occ N.eq_dec (filter f l) n = count_occ N.eq_dec l n.
Proof.
  intros Hf. induction l as [|x l IH]; [reflexivity|]. cbn [filter count_occ].
  destruct (N.eq_dec x n) as [->|Hne].
  - rewrite Hf. cbn [count_occ]. destruct (N.eq_dec n n); [|congruence]. rewrite IH. reflexivity.
  - destruct (f x); cbn [count_occ]; [destruct (N.eq_dec x n); [congruence|]|]; exact IH.
Qed.

Lemma count_occ_filter_false (f : N -> bool) (l : list N) n : f n = false -> count_occ N.eq_dec (filter f l) n = 0%nat.
Proof.
  intros Hf. induction l as [|x l IH]; [reflexivity|]. cbn [filter].
  destruct (f x) eqn:Fx; [|exact IH]. cbn [count_occ]. destruct (N.eq_dec x n) as [->|]; [congruence|exact IH].
Qed.

Lemma count_occ_flat_map (f : N -> list N) (P : list N) n :
  count_occ N.eq_dec (flat_map f P) n = fold_right (fun h acc => (count_occ N.eq_dec (f h) n + acc)%nat) 0%nat P.
Proof. induction P as [|h P IH]; [reflexivity|]. cbn [flat_map fold_right]. rewrite count_occ_app, IH. reflexivity. Qed.

(** * neighbour lists of a well-formed graph have no duplicates *)
Section Nbrs.
Variables A B : Type.
Implicit Type g : lgraph A B.

Lemma nbrs_nodup g u : wf g -> NoDup (nbrs g u).
Proof.
  intros W. pose proof (wf_simple W) as Hs.
  assert (forall a b x, In (a, b, x) (gedges g) -> a <> b) as Hd by (intros a b x I; apply (wf_edge_nodes W I)).
  destruct g as [ns es]. unfold nbrs. cbn [gedges] in *. clear W ns.
  induction Hs as [|a b x es Hn Hs IH]; [constructor|].
  cbn [flat_map].
  assert (NoDup (flat_map (fun e : N * N * B => let '(a0, b0, _) := e in
                 if N.eqb a0 u then [b0] else if N.eqb b0 u then [a0] else []) es)) as IH'
    by (apply IH; intros a' b' x' I; apply (Hd a' b' x'); right; exact I).
  assert (forall v, In v (nbrs (LG ([] : list (N * A)) es) u) <-> find_edge u v es <> None) as Hin
    by (intros v; apply in_nbrs).
  unfold nbrs in Hin. cbn [gedges] in Hin.
  destruct (N.eqb_spec a u) as [->|Hau].
  - cbn [app]. constructor; [|exact IH']. rewrite Hin. rewrite Hn. congruence.
  - destruct (N.eqb_spec b u) as [->|Hbu]; [|exact IH'].
    cbn [app]. constructor; [|exact IH']. rewrite Hin, find_edge_sym, Hn. congruence.
Qed.

Lemma mem_nbrs_sym g u v : mem u (nbrs g v) = mem v (nbrs g u).
Proof.
  destruct (mem u (nbrs g v)) eqn:E1, (mem v (nbrs g u)) eqn:E2; try reflexivity; exfalso.
  - apply mem_spec, in_nbrs in E1. rewrite adj_sym in E1. apply in_nbrs, mem_spec in E1. congruence.
  - apply mem_spec, in_nbrs in E2. rewrite adj_sym in E2. apply in_nbrs, mem_spec in E2. congruence.
Qed.

(** edges filtered by a predicate on both endpoints *)
Definition keep_edges (kp : N -> bool) (es : list (N * N * B)) : list (N * N * B) :=
  filter (fun e => let '(a, b, _) := e in kp a && kp b) es.

Lemma find_edge_keep kp es u v :
  find_edge u v (keep_edges kp es) = if kp u && kp v then find_edge u v es else None.
Proof.
  induction es as [|[[a b] x] r IH]; cbn [keep_edges filter find_edge]; [destruct (kp u && kp v); reflexivity|].
  fold (keep_edges kp r).
  destruct ((N.eqb a u && N.eqb b v) || (N.eqb a v && N.eqb b u)) eqn:M.
  - apply match_pair_spec in M.
    assert (kp a && kp b = kp u && kp v) as Ek by (destruct M as [[-> ->]|[-> ->]]; [reflexivity|apply andb_comm]).
    rewrite Ek. destruct (kp u && kp v) eqn:K.
    + cbn [find_edge]. destruct M as [[-> ->]|[-> ->]]; rewrite !N.eqb_refl; cbn; [reflexivity|rewrite orb_true_r; reflexivity].
    + exact IH.
  - destruct (kp a && kp b); [cbn [find_edge]; rewrite M|]; exact IH.
Qed.

Lemma nbrs_keep kp ns es u :
  nbrs (LG (ns : list (N * A)) (keep_edges kp es)) u = if kp u then filter kp (nbrs (LG ns es) u) else [].
Proof.
  unfold nbrs. cbn [gedges]. induction es as [|[[a b] x] r IH]; cbn [keep_edges filter flat_map]; [destruct (kp u); reflexivity|].
  fold (keep_edges kp r). destruct (kp a && kp b) eqn:K.
  - cbn [flat_map]. rewrite IH. apply andb_true_iff in K. destruct K as [Ka Kb].
    destruct (N.eqb_spec a u) as [->|Hau].
    + rewrite Ka. cbn [app filter]. rewrite Kb. reflexivity.
    + destruct (N.eqb_spec b u) as [->|Hbu]; [rewrite Kb; cbn [app filter]; rewrite Ka; reflexivity|].
      destruct (kp u); reflexivity.
  - rewrite IH. destruct (kp u) eqn:Ku; [|reflexivity]. rewrite filter_app.
    destruct (N.eqb_spec a u) as [->|Hau].
    + rewrite Ku in K. cbn [andb] in K. cbn [filter]. rewrite K. reflexivity.
    + destruct (N.eqb_spec b u) as [->|Hbu]; [|reflexivity].
      rewrite Ku, andb_true_r in K. cbn [filter]. rewrite K. reflexivity.
Qed.
End Nbrs.

(** * implicit_hydrogen *)
Lemma set_hc_set a x y : set_hc (set_hc a x) y = set_hc a y.
Proof. reflexivity. Qed.
Lemma set_hc_id a : set_hc a (g_hc a) = a.
Proof. destruct a; reflexivity. Qed.

(** the second pass as one flat list of decrements *)
Definition decs (g : mgraph) (P : list N) : list N :=
  flat_map (fun h => filter (fun nb => negb (is_Hn g nb)) (nbrs g h)) P.

Lemma pass2_h_filter (g : mgraph) l ns :
  fold_left (fun ns nb => if is_Hn g nb then ns else dec_hc nb ns) l ns =
  fold_left (fun ns n => dec_hc n ns) (filter (fun nb => negb (is_Hn g nb)) l) ns.
Proof. revert ns. induction l as [|a l IH]; intros ns; simpl; [reflexivity|]. destruct (is_Hn g a); simpl; apply IH. Qed.

Lemma pass2_flat (g : mgraph) P ns :
  fold_left (ih_pass2_h g) P ns = fold_left (fun ns n => dec_hc n ns) (decs g P) ns.
Proof.
  revert ns. induction P as [|h P IH]; intros ns; [reflexivity|].
  unfold decs. cbn [fold_left flat_map]. rewrite fold_left_app. unfold ih_pass2_h at 2. rewrite <- pass2_h_filter. apply IH.
Qed.

Lemma dec_hc_assoc k ns n :
  assoc n (dec_hc k ns) = option_map (fun a => if N.eqb n k then set_hc a (g_hc a - 1) else a) (assoc n ns).
Proof.
  unfold dec_hc.
  rewrite (map_ext _ (fun p => (fst p, (fun key (a : gnode) => if N.eqb key k then set_hc a (g_hc a - 1) else a) (fst p) (snd p)))).
  - apply (assoc_map_val (fun key (a : gnode) => if N.eqb key k then set_hc a (g_hc a - 1) else a)).
  - intros [key a]. cbn [fst snd]. destruct (N.eqb key k); reflexivity.
Qed.

Lemma dec_hc_keys k ns : map fst (dec_hc k ns) = map fst ns.
Proof. unfold dec_hc. rewrite map_map. apply map_ext. intros [key a]. cbn [fst]. destruct (N.eqb key k); reflexivity. Qed.

Lemma decs_assoc ds ns n :
  assoc n (fold_left (fun ns k => dec_hc k ns) ds ns) =
  option_map (fun a => set_hc a (g_hc a - Z.of_nat (count_occ N.eq_dec ds n))) (assoc n ns).
Proof.
  revert ns. induction ds as [|k r IH]; intros ns.
  - cbn [fold_left count_occ]. destruct (assoc n ns) as [a|]; [|reflexivity]. cbn [option_map].
    rewrite Z.sub_0_r, set_hc_id. reflexivity.
  - cbn [fold_left]. rewrite IH, dec_hc_assoc. destruct (assoc n ns) as [a|]; [|reflexivity]. cbn [option_map count_occ].
    f_equal. destruct (N.eq_dec k n) as [->|Hne].
    + rewrite N.eqb_refl, set_hc_set. cbn [set_hc g_hc]. f_equal. lia.
    + destruct (N.eqb_spec n k); [congruence|]. reflexivity.
Qed.

Lemma decs_keys ds ns : map fst (fold_left (fun ns k => dec_hc k ns) ds ns) = map fst ns.
Proof. revert ns. induction ds as [|k r IH]; intros ns; [reflexivity|]. cbn [fold_left]. rewrite IH. apply dec_hc_keys. Qed.

Lemma pass1_assoc (g : mgraph) n :
  assoc n (ih_pass1 g) = option_map (fun a => if is_H a then a else set_hc a (count_h g n + g_hc a)) (label g n).
Proof.
  unfold ih_pass1, label.
  rewrite (map_ext _ (fun p => (fst p, (fun key (a : gnode) => if is_H a then a else set_hc a (count_h g key + g_hc a)) (fst p) (snd p)))).
  - apply (assoc_map_val (fun key (a : gnode) => if is_H a then a else set_hc a (count_h g key + g_hc a))).
  - intros [key a]. cbn [fst snd]. unfold is_H. destruct (N.eqb (g_el a) EL_H); reflexivity.
Qed.

Lemma pass1_keys (g : mgraph) : map fst (ih_pass1 g) = node_ids g.
Proof. unfold ih_pass1, node_ids. rewrite map_map. apply map_ext. intros [k a]. cbn [fst snd]. destruct (N.eqb (g_el a) EL_H); reflexivity. Qed.

Lemma count_decs_H (g : mgraph) P n : is_Hn g n = true -> count_occ N.eq_dec (decs g P) n = 0%nat.
Proof.
  intros Hn. unfold decs. induction P as [|h P IH]; [reflexivity|]. cbn [flat_map]. rewrite count_occ_app, IH.
  rewrite count_occ_filter_false; [reflexivity|]. rewrite Hn. reflexivity.
Qed.

Lemma count_decs_heavy (g : mgraph) P n : wf g -> is_Hn g n = false ->
  count_occ N.eq_dec (decs g P) n = length (filter (fun h => mem n (nbrs g h)) P).
Proof.
  intros W Hn. unfold decs. induction P as [|h P IH]; [reflexivity|]. cbn [flat_map]. rewrite count_occ_app, IH.
  rewrite count_occ_filter_true by (rewrite Hn; reflexivity). rewrite (count_occ_nodup _ _ (@nbrs_nodup _ _ g h W)).
  rewrite filter_length_split. reflexivity.
Qed.

Lemma has_heavy_spec (g : mgraph) n : has_heavy g n = true <-> exists m, In m (nbrs g n) /\ is_Hn g m = false.
Proof.
  unfold has_heavy. rewrite existsb_exists. split; intros (m & I & H); exists m; (split; [exact I|]); destruct (is_Hn g m); cbn in *; congruence.
Qed.

(** the label of every node after implicit_hydrogen (no well-formedness needed) *)
Lemma ih_label (g : mgraph) pres n :
  label (implicit_hydrogen g pres) n =
  if ih_removed g pres n then None
  else option_map (fun a => if is_H a then a
                            else set_hc a (count_h g n + g_hc a - Z.of_nat (count_occ N.eq_dec (decs g (preserved g pres)) n)))
                  (label g n).
Proof.
  unfold label at 1, implicit_hydrogen. cbn [gnodes].
  rewrite (assoc_filter (fun k => negb (ih_removed g pres k))).
  destruct (ih_removed g pres n) eqn:R; cbn [negb]; [reflexivity|].
  rewrite pass2_flat, decs_assoc, pass1_assoc.
  destruct (label g n) as [a|] eqn:L; [|reflexivity]. cbn [option_map]. f_equal.
  destruct (is_H a) eqn:Ha.
  - rewrite count_decs_H; [rewrite Z.sub_0_r; apply set_hc_id|]. unfold is_Hn. rewrite L. exact Ha.
  - rewrite set_hc_set. reflexivity.
Qed.

Lemma ih_adj (g : mgraph) pres u v :
  adj (implicit_hydrogen g pres) u v =
  if negb (ih_removed g pres u) && negb (ih_removed g pres v) then adj g u v else None.
Proof. unfold adj, implicit_hydrogen. cbn [gedges]. apply (@find_edge_keep _ (fun k => negb (ih_removed g pres k))). Qed.

Lemma ih_nbrs (g : mgraph) pres n :
  nbrs (implicit_hydrogen g pres) n =
  if negb (ih_removed g pres n) then filter (fun k => negb (ih_removed g pres k)) (nbrs g n) else [].
Proof.
  unfold implicit_hydrogen.
  exact (@nbrs_keep _ _ (fun k => negb (ih_removed g pres k)) _ (gedges g) n).
Qed.

Lemma preserved_nodup (g : mgraph) pres : wf g -> NoDup (preserved g pres).
Proof. intros W. unfold preserved. apply NoDup_map_fst_filter. apply W. Qed.

Lemma preserved_spec (g : mgraph) pres h : wf g ->
  (In h (preserved g pres) <-> exists a, label g h = Some a /\ is_H a = true /\ memZ (g_amap a) pres = true).
Proof.
  intros W. unfold preserved. rewrite in_map_iff. split.
  - intros ([k a] & E & I). cbn [fst] in E. subst k. apply filter_In in I. destruct I as [I F]. cbn [snd] in F.
    apply andb_true_iff in F. destruct F as [F1 F2]. exists a. split; [|split; assumption].
    apply assoc_nodup_in; [apply W|exact I].
  - intros (a & L & F1 & F2). exists (h, a). split; [reflexivity|]. apply filter_In. split; [apply assoc_in; exact L|].
    cbn [snd]. unfold is_H in F1. rewrite F1, F2. reflexivity.
Qed.

Lemma preserved_isH (g : mgraph) pres h : wf g -> In h (preserved g pres) -> is_Hn g h = true.
Proof. intros W I. apply (preserved_spec g pres h W) in I. destruct I as (a & L & F & _). unfold is_Hn. rewrite L. exact F. Qed.

(** C01_implicit_hydrogen *)
Theorem implicit_hydrogen_spec (g : mgraph) (pres : list Z) : wf g ->
  let g' := implicit_hydrogen g pres in
  (* atoms: a hydrogen stays iff its atom_map is preserved; every other atom stays, with hcount + folded hydrogens *)
  (forall n, label g' n =
     match label g n with
     | None => None
     | Some a => if is_H a then (if mem n (preserved g pres) || negb (has_heavy g n) then Some a else None)
                 else Some (set_hc a (g_hc a + count_h g n - count_pres g pres n))
     end) /\
  (* bonds: exactly the bonds between remaining atoms *)
  (forall u v, adj g' u v = if negb (ih_removed g pres u) && negb (ih_removed g pres v) then adj g u v else None) /\
  (* the hydrogen total of every non-hydrogen atom is unchanged *)
  (forall n a, label g n = Some a -> is_H a = false ->
     exists a', label g' n = Some a' /\ g_hc a' + count_h g' n = g_hc a + count_h g n /\
                g_el a' = g_el a /\ g_arom a' = g_arom a /\ g_ch a' = g_ch a /\ g_nb a' = g_nb a /\ g_amap a' = g_amap a).
Proof.
  intros W g'. subst g'.
  assert (forall n, label (implicit_hydrogen g pres) n =
     match label g n with
     | None => None
     | Some a => if is_H a then (if mem n (preserved g pres) || negb (has_heavy g n) then Some a else None)
                 else Some (set_hc a (g_hc a + count_h g n - count_pres g pres n))
     end) as HL.
  { intros n. rewrite ih_label. unfold ih_removed, is_Hn. destruct (label g n) as [a|] eqn:L; [|reflexivity].
    fold (is_H a). destruct (is_H a) eqn:Ha; cbn [andb].
    - destruct (mem n (preserved g pres)); cbn [andb orb negb option_map]; [rewrite Ha; reflexivity|].
      destruct (has_heavy g n); cbn [negb option_map]; [|rewrite Ha]; reflexivity.
    - cbn [option_map]. rewrite Ha. f_equal. f_equal.
      rewrite count_decs_heavy; [unfold count_pres; lia|exact W|]. unfold is_Hn. rewrite L. exact Ha. }
  split; [exact HL|]. split; [intros u v; apply ih_adj|].
  intros n a L Ha. rewrite HL, L, Ha. eexists. split; [reflexivity|]. cbn [set_hc g_hc g_el g_arom g_ch g_nb g_amap].
  split; [|repeat split].
  (* count_h of the result *)
  assert (is_Hn g n = false) as Hnn by (unfold is_Hn; rewrite L; exact Ha).
  assert (ih_removed g pres n = false) as Rn by (unfold ih_removed; rewrite Hnn; reflexivity).
  assert (count_h (implicit_hydrogen g pres) n = count_pres g pres n) as ->; [|lia].
  unfold count_h, count_pres. f_equal.
  rewrite ih_nbrs, Rn. cbn [negb].
  (* is_Hn of the result agrees with is_Hn g on the remaining atoms *)
  assert (forall m, ih_removed g pres m = false -> is_Hn (implicit_hydrogen g pres) m = is_Hn g m) as Hk.
  { intros m Rm. unfold is_Hn at 1. rewrite ih_label, Rm. unfold is_Hn. destruct (label g m) as [b|]; [|reflexivity].
    cbn [option_map]. fold (is_H b). destruct (is_H b) eqn:Hb; [exact Hb|]. cbn [set_hc g_el]. exact Hb. }
  rewrite (filter_ext (fun h => mem n (nbrs g h)) (fun h => mem h (nbrs g n))) by (intros h; apply mem_nbrs_sym).
  rewrite <- (filter_mem_swap _ _ (@nbrs_nodup _ _ g n W) (preserved_nodup g pres W)).
  (* a hydrogen bonded to n has a non-hydrogen neighbour (n itself): it is removed iff it is not preserved *)
  assert (Forall (fun m => is_Hn g m = true -> has_heavy g m = true) (nbrs g n)) as FH.
  { apply Forall_forall. intros m Im Hm. unfold has_heavy. apply existsb_exists. exists n. split; [|rewrite Hnn; reflexivity].
    apply mem_spec. rewrite mem_nbrs_sym. apply mem_spec. exact Im. }
  remember (nbrs g n) as l eqn:El. clear El.
  induction FH as [|m l Pm FH IH]; [reflexivity|].
  cbn [filter]. destruct (ih_removed g pres m) eqn:Rm; cbn [negb].
  - assert (mem m (preserved g pres) = false) as ->; [|exact IH].
    unfold ih_removed in Rm. apply andb_true_iff in Rm. destruct Rm as [Rm _]. apply andb_true_iff in Rm. destruct Rm as [_ Rm].
    destruct (mem m (preserved g pres)); [discriminate|reflexivity].
  - cbn [filter]. rewrite (Hk m Rm). unfold ih_removed in Rm.
    destruct (is_Hn g m) eqn:Hm; cbn [andb] in Rm.
    + rewrite (Pm eq_refl) in Rm. destruct (mem m (preserved g pres)); [cbn [length]; rewrite IH; reflexivity|discriminate].
    + assert (mem m (preserved g pres) = false) as ->; [|exact IH].
      destruct (mem m (preserved g pres)) eqn:M; [|reflexivity]. apply mem_spec in M.
      rewrite (preserved_isH g pres m W M) in Hm. discriminate.
Qed.
