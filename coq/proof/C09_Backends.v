(** C09 — numbering / atom-order / bond-order independence and fixed point of [canonicalise_wl] and [canonicalise_nauty]
    for presentations up to node order, bond order and bond orientation (proof/C09_Graph.v), and the STRING-level
    statements about [canonical_rsmi] relative to explicit contracts of the RDKit writer and parser (round 5). *)
From Coq Require Import List NArith ZArith Bool Arith Lia Permutation.
From SK Require Import lib.StrJoin lib.LGraph lib.C01_GraphLemmas model.C01_Model model.C09_Model model.C09_Strings
  proof.C09_Lists proof.C09_Canon proof.C09_Equiv proof.C09_Main proof.C09_Indep proof.C09_Indep2 proof.C09_WL
  proof.C09_NautyRigid proof.C09_Nauty proof.C09_Graph.
From SK Require model.C08_Model proof.C08_Spec.
Import ListNotations.

(** * wl *)
Theorem wl_invariance_sg (ranks1 ranks2 : list (N * Z)) (G G' : mgraph) (p : N -> N) :
  (forall a b, p a = p b -> a = b) -> wf G -> presents p G G' ->
  (forall n, In n (node_ids G) -> C08_Model.rank_of ranks2 (p n) = C08_Model.rank_of ranks1 n) ->
  ranks_distinct ranks1 G ->
  forall n, sigma_of (wl_order ranks2 G') (p n) = sigma_of (wl_order ranks1 G) n.
Proof.
  intros Pinj (Hnd & _) RG Hr Hd n.
  rewrite (wl_order_renamed ranks1 ranks2 G G' p Pinj Hnd); auto.
  - apply sigma_of_map. exact Pinj.
  - apply presents_node_ids. exact RG.
Qed.

Theorem numbering_independent_wl_sg (ranks1 ranks2 : list (N * Z)) (G H G' H' : mgraph) (p : N -> N) :
  parsed G -> parsed H -> (exists s, In s (node_ids G) /\ In s (node_ids H)) ->
  (forall a b, p a = p b -> a = b) ->
  (forall m n, In m (node_ids H) -> ~ In m (node_ids G) -> In n (node_ids H) -> ~ In n (node_ids G) -> (m <= n)%N -> (p m <= p n)%N) ->
  parsed G' -> parsed H' -> presents p G G' -> presents p H H' ->
  (forall n, In n (node_ids G) -> C08_Model.rank_of ranks2 (p n) = C08_Model.rank_of ranks1 n) -> ranks_distinct ranks1 G ->
  exists (pairs1 pairs2 : list (N * N)) (Gc1 Gc2 Hc1 Hc2 : mgraph),
    canonicalise_wl ranks1 G H = Some (Gc1, pairs1, Hc1) /\
    canonicalise_wl ranks2 G' H' = Some (Gc2, pairs2, Hc2) /\
    same_graph Gc2 Gc1 /\ same_graph Hc2 Hc1.
Proof.
  intros PG PH Hs Pinj Pmono PG2 PH2 RG2 RH2 Hr Hd. pose proof PG as (WG & _). pose proof PG2 as (WG2 & _).
  pose proof (wl_enumerates ranks1 G WG) as En1. pose proof (wl_enumerates ranks2 G' WG2) as En2.
  destruct (presentation_independent_sg_mono G H G' H' (canon_rebuild (wl_order ranks1 G) G) (canon_rebuild (wl_order ranks2 G') G')
              (wl_order ranks1 G) (wl_order ranks2 G') p PG PH Hs Pinj Pmono PG2 PH2 RG2 RH2 En1 (rebuild_relabelled _ G WG En1)
              En2 (rebuild_relabelled _ _ WG2 En2))
    as (pairs1 & pairs2 & Hc1 & Hc2 & E1 & E2 & S1 & S2).
  - intros n _. apply (wl_invariance_sg ranks1 ranks2 G G' p Pinj WG RG2 Hr Hd).
  - exists pairs1, pairs2, (set_amap (canon_rebuild (wl_order ranks1 G) G)), (set_amap (canon_rebuild (wl_order ranks2 G') G')),
      (set_amap Hc1), (set_amap Hc2). unfold canonicalise_wl. auto.
Qed.

Theorem fixed_point_wl_sg (ranks1 : list (N * Z)) (G H : mgraph) :
  parsed G -> parsed H -> (exists s, In s (node_ids G) /\ In s (node_ids H)) -> ranks_distinct ranks1 G ->
  exists (pairs1 : list (N * N)) (Gc1 Hc1 : mgraph),
    canonicalise_wl ranks1 G H = Some (Gc1, pairs1, Hc1) /\
    forall (ranks2 : list (N * Z)) (G' H' : mgraph), parsed G' -> parsed H' -> same_graph G' Gc1 -> same_graph H' Hc1 ->
      (forall n, In n (node_ids G) -> C08_Model.rank_of ranks2 (sigma_of (wl_order ranks1 G) n) = C08_Model.rank_of ranks1 n) ->
      exists (pairs2 : list (N * N)) (Gc2 Hc2 : mgraph),
        canonicalise_wl ranks2 G' H' = Some (Gc2, pairs2, Hc2) /\ same_graph Gc2 Gc1 /\ same_graph Hc2 Hc1.
Proof.
  intros PG PH Hs Hd. pose proof PG as (WG & _).
  pose proof (wl_enumerates ranks1 G WG) as En1.
  destruct (fixed_point_sg G H (canon_rebuild (wl_order ranks1 G) G) (wl_order ranks1 G) PG PH Hs En1 (rebuild_relabelled _ G WG En1))
    as (pairs1 & Gc1 & Hc1 & f1 & E1 & Finj & Fs & Hfix).
  exists pairs1, Gc1, Hc1. split; [exact E1|].
  intros ranks2 G' H' PG2 PH2 SG SH Hr. pose proof PG2 as (WG2 & _).
  destruct (Hfix G' H' PG2 PH2 SG SH) as (RG2 & Hrun).
  pose proof (wl_enumerates ranks2 G' WG2) as En2.
  destruct (Hrun (wl_order ranks2 G') (canon_rebuild (wl_order ranks2 G') G') En2 (rebuild_relabelled _ _ WG2 En2))
    as (pairs2 & Gc2 & Hc2 & E2 & EG & S1 & S2).
  - intros n I. apply (wl_invariance_sg ranks1 ranks2 G G' f1 Finj WG RG2); auto.
    intros m Im. rewrite Fs by exact Im. apply Hr. exact Im.
  - exists pairs2, Gc2, Hc2. unfold canonicalise_wl. rewrite E2. auto.
Qed.

(** * nauty *)
Lemma geq_cov_presents (p : N -> N) (G G' : mgraph) : presents p G G' ->
  C08_Spec.geq_cov (relabel p (to_c08 G)) (to_c08 G').
Proof.
  intros (RP & RE). split.
  - unfold C08_Spec.cov_nodes, relabel, to_c08. simpl. rewrite !map_map. simpl.
    apply Permutation_sym. eapply Permutation_trans; [apply Permutation_map; exact RP|].
    unfold set_amap, relabel. simpl. rewrite !map_map. simpl. apply Permutation_refl.
  - unfold C08_Spec.cov_edges, relabel, to_c08. simpl. rewrite !map_map.
    set (h := fun e : N * N * Z => let '(a, b, o) := e in (a, b, (o, @None Z, @None Z))).
    assert (E : forall es : list (N * N * Z),
               map (fun x => C08_Spec.cove (let '(u, v, o) := x in (u, v, C08_Model.EA o None))) es = map h (map nflip es)).
    { intros es. rewrite map_map. apply map_ext. intros [[u v] o]. reflexivity. }
    apply Permutation_sym. rewrite E. eapply Permutation_trans; [apply Permutation_map; exact RE|].
    unfold set_amap, relabel. simpl. rewrite !map_map. erewrite map_ext; [apply Permutation_refl|].
    intros [[u v] o]. reflexivity.
Qed.

Theorem nauty_invariance_sg (G G' : mgraph) (p : N -> N) :
  (forall a b, p a = p b -> a = b) -> wf G -> wf G' -> presents p G G' ->
  C08_Spec.els_ok (to_c08 G) -> rigid (to_c08 G) ->
  forall n, sigma_of (nauty_order G') (p n) = sigma_of (nauty_order G) n.
Proof.
  intros Pinj WG WG2 RG Eg Hr n. unfold nauty_order.
  rewrite (nauty_perm_rigid p Pinj (to_c08 G) (to_c08 G')); auto.
  - apply sigma_of_map. exact Pinj.
  - apply wf_to_c08. exact WG.
  - apply wf_to_c08. exact WG2.
  - apply geq_cov_presents. exact RG.
Qed.

Theorem numbering_independent_nauty_sg (G H G' H' : mgraph) (p : N -> N) :
  parsed G -> parsed H -> (exists s, In s (node_ids G) /\ In s (node_ids H)) ->
  (forall a b, p a = p b -> a = b) ->
  (forall m n, In m (node_ids H) -> ~ In m (node_ids G) -> In n (node_ids H) -> ~ In n (node_ids G) -> (m <= n)%N -> (p m <= p n)%N) ->
  parsed G' -> parsed H' -> presents p G G' -> presents p H H' ->
  C08_Spec.els_ok (to_c08 G) -> rigid (to_c08 G) ->
  exists (pairs1 pairs2 : list (N * N)) (Gc1 Gc2 Hc1 Hc2 : mgraph),
    canonicalise_nauty G H = Some (Gc1, pairs1, Hc1) /\
    canonicalise_nauty G' H' = Some (Gc2, pairs2, Hc2) /\
    same_graph Gc2 Gc1 /\ same_graph Hc2 Hc1.
Proof.
  intros PG PH Hs Pinj Pmono PG2 PH2 RG2 RH2 Eg Hr. pose proof PG as (WG & _). pose proof PG2 as (WG2 & _).
  pose proof (nauty_enumerates G WG) as En1. pose proof (nauty_enumerates G' WG2) as En2.
  destruct (presentation_independent_sg_mono G H G' H' (canon_relabel (nauty_order G) G) (canon_relabel (nauty_order G') G')
              (nauty_order G) (nauty_order G') p PG PH Hs Pinj Pmono PG2 PH2 RG2 RH2 En1 (relabelled_exact _ G)
              En2 (relabelled_exact _ _))
    as (pairs1 & pairs2 & Hc1 & Hc2 & E1 & E2 & S1 & S2).
  - intros n _. apply (nauty_invariance_sg G G' p Pinj WG WG2 RG2 Eg Hr).
  - exists pairs1, pairs2, (set_amap (canon_relabel (nauty_order G) G)), (set_amap (canon_relabel (nauty_order G') G')),
      (set_amap Hc1), (set_amap Hc2). unfold canonicalise_nauty. auto.
Qed.

Theorem fixed_point_nauty_sg (G H : mgraph) :
  parsed G -> parsed H -> (exists s, In s (node_ids G) /\ In s (node_ids H)) ->
  C08_Spec.els_ok (to_c08 G) -> rigid (to_c08 G) ->
  exists (pairs1 : list (N * N)) (Gc1 Hc1 : mgraph),
    canonicalise_nauty G H = Some (Gc1, pairs1, Hc1) /\
    forall (G' H' : mgraph), parsed G' -> parsed H' -> same_graph G' Gc1 -> same_graph H' Hc1 ->
      exists (pairs2 : list (N * N)) (Gc2 Hc2 : mgraph),
        canonicalise_nauty G' H' = Some (Gc2, pairs2, Hc2) /\ same_graph Gc2 Gc1 /\ same_graph Hc2 Hc1.
Proof.
  intros PG PH Hs Eg Hr. pose proof PG as (WG & _).
  pose proof (nauty_enumerates G WG) as En1.
  destruct (fixed_point_sg G H (canon_relabel (nauty_order G) G) (nauty_order G) PG PH Hs En1 (relabelled_exact _ G))
    as (pairs1 & Gc1 & Hc1 & f1 & E1 & Finj & Fs & Hfix).
  exists pairs1, Gc1, Hc1. split; [exact E1|].
  intros G' H' PG2 PH2 SG SH. pose proof PG2 as (WG2 & _).
  destruct (Hfix G' H' PG2 PH2 SG SH) as (RG2 & Hrun).
  pose proof (nauty_enumerates G' WG2) as En2.
  destruct (Hrun (nauty_order G') (canon_relabel (nauty_order G') G') En2 (relabelled_exact _ _))
    as (pairs2 & Gc2 & Hc2 & E2 & EG & S1 & S2).
  - intros n I. apply (nauty_invariance_sg G G' f1 Finj WG WG2 RG2 Eg Hr).
  - exists pairs2, Gc2, Hc2. unfold canonicalise_nauty. rewrite E2. auto.
Qed.

(** * string level: canonical_rsmi = W(canonical reactant graph) ++ ">>" ++ W(canonical product graph) *)
(** contract of the writer graph_to_smi (GraphToMol + RDKit canonical SMILES): a function of the graph, not of the order in
    which atoms and bonds are listed *)
Definition writer_ok (W : mgraph -> str) : Prop := forall X Y, same_graph X Y -> W X = W Y.

Lemma canonical_rsmi_sg W a b X Y X' Y' : writer_ok W -> same_graph X' X -> same_graph Y' Y ->
  canonical_rsmi W (Some (X', a, Y')) = canonical_rsmi W (Some (X, b, Y)).
Proof. intros HW S1 S2. unfold canonical_rsmi. rewrite (HW _ _ S1), (HW _ _ S2). reflexivity. Qed.

Theorem canonical_rsmi_independent_nauty (W : mgraph -> str) (G H G' H' : mgraph) (p : N -> N) :
  writer_ok W ->
  parsed G -> parsed H -> (exists s, In s (node_ids G) /\ In s (node_ids H)) ->
  (forall a b, p a = p b -> a = b) ->
  (forall m n, In m (node_ids H) -> ~ In m (node_ids G) -> In n (node_ids H) -> ~ In n (node_ids G) -> (m <= n)%N -> (p m <= p n)%N) ->
  parsed G' -> parsed H' -> presents p G G' -> presents p H H' ->
  C08_Spec.els_ok (to_c08 G) -> rigid (to_c08 G) ->
  exists s, canonical_rsmi W (canonicalise_nauty G H) = Some s /\ canonical_rsmi W (canonicalise_nauty G' H') = Some s.
Proof.
  intros HW PG PH Hs Pinj Pmono PG2 PH2 RG2 RH2 Eg Hr.
  destruct (numbering_independent_nauty_sg G H G' H' p PG PH Hs Pinj Pmono PG2 PH2 RG2 RH2 Eg Hr)
    as (pairs1 & pairs2 & Gc1 & Gc2 & Hc1 & Hc2 & E1 & E2 & S1 & S2).
  exists (W Gc1 ++ GG ++ W Hc1). rewrite E1, E2. split; [reflexivity|]. apply (canonical_rsmi_sg W pairs2 pairs1); auto.
Qed.

Theorem canonical_rsmi_independent_wl (W : mgraph -> str) (ranks1 ranks2 : list (N * Z)) (G H G' H' : mgraph) (p : N -> N) :
  writer_ok W ->
  parsed G -> parsed H -> (exists s, In s (node_ids G) /\ In s (node_ids H)) ->
  (forall a b, p a = p b -> a = b) ->
  (forall m n, In m (node_ids H) -> ~ In m (node_ids G) -> In n (node_ids H) -> ~ In n (node_ids G) -> (m <= n)%N -> (p m <= p n)%N) ->
  parsed G' -> parsed H' -> presents p G G' -> presents p H H' ->
  (forall n, In n (node_ids G) -> C08_Model.rank_of ranks2 (p n) = C08_Model.rank_of ranks1 n) -> ranks_distinct ranks1 G ->
  exists s, canonical_rsmi W (canonicalise_wl ranks1 G H) = Some s /\ canonical_rsmi W (canonicalise_wl ranks2 G' H') = Some s.
Proof.
  intros HW PG PH Hs Pinj Pmono PG2 PH2 RG2 RH2 Hrk Hd.
  destruct (numbering_independent_wl_sg ranks1 ranks2 G H G' H' p PG PH Hs Pinj Pmono PG2 PH2 RG2 RH2 Hrk Hd)
    as (pairs1 & pairs2 & Gc1 & Gc2 & Hc1 & Hc2 & E1 & E2 & S1 & S2).
  exists (W Gc1 ++ GG ++ W Hc1). rewrite E1, E2. split; [reflexivity|]. apply (canonical_rsmi_sg W pairs2 pairs1); auto.
Qed.

(** contract of the parser on the canonical string (rsmi_to_graph (expand_aam s)): it returns parsed graphs that are the
    written graphs up to atom / bond order *)
Definition reads_back (W : mgraph -> str) (P : str -> option (mgraph * mgraph)) (X Y : mgraph) : Prop :=
  exists X' Y', P (W X ++ GG ++ W Y) = Some (X', Y') /\ parsed X' /\ parsed Y' /\ same_graph X' X /\ same_graph Y' Y.

Theorem canonical_rsmi_fixed_point_nauty (W : mgraph -> str) (P : str -> option (mgraph * mgraph)) (G H : mgraph) :
  writer_ok W ->
  parsed G -> parsed H -> (exists s, In s (node_ids G) /\ In s (node_ids H)) ->
  C08_Spec.els_ok (to_c08 G) -> rigid (to_c08 G) ->
  (forall Gc1 pairs1 Hc1, canonicalise_nauty G H = Some (Gc1, pairs1, Hc1) -> reads_back W P Gc1 Hc1) ->
  exists s G' H', canonical_rsmi W (canonicalise_nauty G H) = Some s /\ P s = Some (G', H') /\
                  canonical_rsmi W (canonicalise_nauty G' H') = Some s.
Proof.
  intros HW PG PH Hs Eg Hr HP.
  destruct (fixed_point_nauty_sg G H PG PH Hs Eg Hr) as (pairs1 & Gc1 & Hc1 & E1 & Hfix).
  destruct (HP Gc1 pairs1 Hc1 E1) as (G' & H' & EP & PG2 & PH2 & SG & SH).
  destruct (Hfix G' H' PG2 PH2 SG SH) as (pairs2 & Gc2 & Hc2 & E2 & S1 & S2).
  exists (W Gc1 ++ GG ++ W Hc1), G', H'. rewrite E1. split; [reflexivity|]. split; [exact EP|].
  rewrite E2. unfold canonical_rsmi. rewrite (HW _ _ S1), (HW _ _ S2). reflexivity.
Qed.

Theorem canonical_rsmi_fixed_point_wl (W : mgraph -> str) (P : str -> option (mgraph * mgraph)) (ranks1 : list (N * Z)) (G H : mgraph) :
  writer_ok W ->
  parsed G -> parsed H -> (exists s, In s (node_ids G) /\ In s (node_ids H)) -> ranks_distinct ranks1 G ->
  (forall Gc1 pairs1 Hc1, canonicalise_wl ranks1 G H = Some (Gc1, pairs1, Hc1) -> reads_back W P Gc1 Hc1) ->
  exists s G' H', canonical_rsmi W (canonicalise_wl ranks1 G H) = Some s /\ P s = Some (G', H') /\
    forall ranks2 : list (N * Z),
      (forall n, In n (node_ids G) -> C08_Model.rank_of ranks2 (sigma_of (wl_order ranks1 G) n) = C08_Model.rank_of ranks1 n) ->
      canonical_rsmi W (canonicalise_wl ranks2 G' H') = Some s.
Proof.
  intros HW PG PH Hs Hd HP.
  destruct (fixed_point_wl_sg ranks1 G H PG PH Hs Hd) as (pairs1 & Gc1 & Hc1 & E1 & Hfix).
  destruct (HP Gc1 pairs1 Hc1 E1) as (G' & H' & EP & PG2 & PH2 & SG & SH).
  exists (W Gc1 ++ GG ++ W Hc1), G', H'. rewrite E1. split; [reflexivity|]. split; [exact EP|].
  intros ranks2 Hrk.
  destruct (Hfix ranks2 G' H' PG2 PH2 SG SH Hrk) as (pairs2 & Gc2 & Hc2 & E2 & S1 & S2).
  rewrite E2. unfold canonical_rsmi. rewrite (HW _ _ S1), (HW _ _ S2). reflexivity.
Qed.

(** * Non-vacuity: CH3Br + OH- >> CH3OH + Br- renumbered 1,2,7 -> 5,6,4, atoms listed in another order and BOTH bonds written
    in the other direction (a presentation that [relabelled_by] does not cover) *)
Definition ex_G' : mgraph :=
  LG [(6%N, GN 17013%N false 0 0 None 6); (5%N, GN 70%N false 3 0 None 5); (4%N, GN 82%N false 1 (-1) None 4)] [(6%N, 5%N, 2%Z)].
Definition ex_H' : mgraph :=
  LG [(4%N, GN 82%N false 1 0 None 4); (5%N, GN 70%N false 3 0 None 5); (6%N, GN 17013%N false 0 (-1) None 6)] [(4%N, 5%N, 2%Z)].
Lemma ex_G'_parsed : parsed ex_G'.
Proof.
  split; [|split].
  - apply wf_by_compute; [unfold node_ids; simpl; nodup_N|reflexivity|apply single_edge_wf3].
  - intros n a E. unfold label in E. simpl in E.
    repeat (match type of E with context [N.eqb n ?k] => destruct (N.eqb_spec n k); [subst; inversion E; reflexivity|] end). discriminate.
  - intros n I. simpl in I. intuition (subst; discriminate).
Qed.
Lemma ex_H'_parsed : parsed ex_H'.
Proof.
  split; [|split].
  - apply wf_by_compute; [unfold node_ids; simpl; nodup_N|reflexivity|apply single_edge_wf3].
  - intros n a E. unfold label in E. simpl in E.
    repeat (match type of E with context [N.eqb n ?k] => destruct (N.eqb_spec n k); [subst; inversion E; reflexivity|] end). discriminate.
  - intros n I. simpl in I. intuition (subst; discriminate).
Qed.
Example ex_presents :
  presents ex_ren ex_G ex_G' /\ presents ex_ren ex_H ex_H' /\ parsed ex_G' /\ parsed ex_H' /\
  gedges ex_G' <> gedges (relabel ex_ren ex_G) /\ ~ relabelled_by ex_ren ex_G ex_G'.
Proof.
  split; [|split; [|split; [exact ex_G'_parsed|split; [exact ex_H'_parsed|split]]]].
  - split; vm_compute; [apply perm_swap|apply Permutation_refl].
  - split; vm_compute; [|apply Permutation_refl].
    apply perm_swap.
  - vm_compute. discriminate.
  - intros (_ & E). vm_compute in E. discriminate.
Qed.
(** both back-ends on the two presentations: the canonical graphs coincide up to atom order and bond orientation, and
    they do differ as lists (so [same_upto_order] would not relate them) *)
Example ex_sg_results :
  match canonicalise_nauty ex_G ex_H, canonicalise_nauty ex_G' ex_H', canonicalise_wl ex_ranks1 ex_G ex_H, canonicalise_wl ex_ranks2 ex_G' ex_H' with
  | Some (a, _, b), Some (a', _, b'), Some (c, _, d), Some (c', _, d') =>
      map nflip (gedges a') = map nflip (gedges a) /\ gedges a' <> gedges a /\ map nflip (gedges b') = map nflip (gedges b) /\
      map nflip (gedges c') = map nflip (gedges c) /\ gedges c' <> gedges c /\ map nflip (gedges d') = map nflip (gedges d) /\
      nsort (node_ids a') = nsort (node_ids a) /\ nsort (node_ids b') = nsort (node_ids b)
  | _, _, _, _ => False
  end.
Proof. vm_compute. repeat split; try reflexivity; discriminate. Qed.

(** the writer contract is satisfiable by a function that is not constant (here: numbers of atoms and bonds) *)
Definition ex_W (X : mgraph) : str := [N.of_nat (length (gnodes X)); N.of_nat (length (gedges X))].
Example ex_writer_ok : writer_ok ex_W /\ ex_W ex_G <> ex_W (LG [] []).
Proof.
  split; [|vm_compute; discriminate].
  intros X Y (A & B). unfold ex_W. rewrite (Permutation_length A).
  pose proof (Permutation_length B) as E. rewrite !map_length in E. rewrite E. reflexivity.
Qed.

(** the canonical graphs are themselves parsed graphs (distinct positive ids, atom_map = id): the parser contract
    [reads_back] is satisfiable - e.g. by a parser that returns exactly the written graphs *)
Lemma canonical_graphs_parsed (G H Gc1 : mgraph) (order1 : list N) :
  parsed G -> parsed H -> (exists s, In s (node_ids G) /\ In s (node_ids H)) ->
  enumerates order1 G -> relabelled_by (sigma_of order1) G Gc1 ->
  exists pairs1 Gc1' Hc1', canonicalise_with Gc1 H = Some (Gc1', pairs1, Hc1') /\ parsed Gc1' /\ parsed Hc1'.
Proof.
  intros (WG & AG & PG') (WH & AH & PH') Hs (O1 & I1) R1.
  destruct (canonicalise_with_spec G H Gc1 order1 WG WH AG AH PG' PH' O1 I1 R1 Hs) as (Hc1 & E1 & RF1 & EH1 & Fs1 & _).
  set (f1 := C09_Canon.f H Gc1 order1) in *.
  assert (Finj : forall a b, f1 a = f1 b -> a = b) by (intros a b; apply tau_injective).
  exists (aam_pairs Gc1 H), (set_amap Gc1), (set_amap Hc1). split; [exact E1|]. split.
  - split; [apply wf_set_amap; apply (rel_wf f1 Finj G Gc1 WG RF1)|split; [apply amap_id_set_amap|]].
    intros n I. rewrite node_ids_set_amap in I. apply (rel_node_ids f1 G Gc1 RF1) in I. apply in_map_iff in I.
    destruct I as (m & <- & _). apply tau_pos.
  - subst Hc1. split; [apply wf_set_amap; apply (wf_relabel Finj WH)|split; [apply amap_id_set_amap|]].
    intros n I. rewrite node_ids_set_amap, (node_ids_relabel f1 H) in I. apply in_map_iff in I.
    destruct I as (m & <- & _). apply tau_pos.
Qed.
Example ex_reads_back :
  exists Gc1 pairs1 Hc1, canonicalise_nauty ex_G ex_H = Some (Gc1, pairs1, Hc1) /\
    reads_back ex_W (fun _ => Some (Gc1, Hc1)) Gc1 Hc1.
Proof.
  pose proof ex_G_parsed as PG. pose proof PG as (WG & _).
  destruct (canonical_graphs_parsed ex_G ex_H (canon_relabel (nauty_order ex_G) ex_G) (nauty_order ex_G) PG ex_H_parsed)
    as (pairs1 & Gc1 & Hc1 & E1 & P1 & P2).
  - exists 1%N. simpl. auto.
  - apply nauty_enumerates. exact WG.
  - apply relabelled_exact.
  - exists Gc1, pairs1, Hc1. split; [exact E1|]. exists Gc1, Hc1. split; [reflexivity|]. split; [exact P1|]. split; [exact P2|]. split; apply sg_refl.
Qed.
