(** C12 -- find_common_subgraph(mcs_mol=True) (model [find_mcs_mol_pairs]): the greedy matching pairs components of G1
    with pairwise different components of G2 of the same size that pass the isomorphism test, and for EVERY choice of
    valid mappings inside the matched pairs (VF2's choice of the isomorphism is not modelled) the combined mapping is a
    common induced mapping of the two (pruned) graphs. *)
From Coq Require Import List NArith ZArith Bool Arith Lia Permutation.
From SK Require Import lib.LGraph lib.Mono lib.Reach model.C12_Model proof.C12_Search proof.C12_Proof proof.C12_Prune
                       proof.C12_Component.
Import ListNotations.

Lemma pdisj_in L : pdisj L -> forall a b, In a L -> In b L -> a = b \/ forall x, In x a -> ~ In x b.
Proof.
  induction 1 as [|c L Hc HL IH]; intros a b Ia Ib; [destruct Ia|].
  destruct Ia as [<-|Ia], Ib as [<-|Ib].
  - now left.
  - right. intros x Hx. now apply (Hc b Ib).
  - right. intros x Hx Hxc. now apply (Hc a Ia x Hxc).
  - now apply IH.
Qed.

Lemma set_used_refl c used : In c used -> set_used c used = true.
Proof.
  intros I. unfold set_used. apply existsb_exists. exists c. split; [exact I|].
  assert (H : forallb (fun x => LGraph.mem x c) c = true) by (apply forallb_forall; intros x Hx; now apply LGraph.mem_spec).
  now rewrite H.
Qed.

Section Mol.
Variable nm : option nattr -> option nattr -> bool.
Variable em : eattr -> eattr -> bool.
Variables g1 g2 : graph.

Lemma mol_find_spec c1 cands used : forall c2 n, mol_find nm em g1 g2 c1 cands used = (Some c2, n) ->
  In c2 cands /\ length c2 = length c1 /\ set_used c2 used = false /\ comp_iso nm em g1 g2 c1 c2 = true.
Proof.
  induction cands as [|d r IH]; intros c2 n E; simpl in E; [discriminate|].
  destruct (negb (length d =? length c1) || set_used d used) eqn:Eg.
  - destruct (IH _ _ E) as (A & B). split; [now right|exact B].
  - apply orb_false_iff in Eg. destruct Eg as [El Eu]. apply negb_false_iff, Nat.eqb_eq in El.
    destruct (comp_iso nm em g1 g2 c1 d) eqn:Ei.
    + inversion E; subst. split; [now left|auto].
    + destruct (mol_find nm em g1 g2 c1 r used) as [res k] eqn:Er. inversion E; subst.
      destruct (IH _ _ eq_refl) as (A & B). split; [now right|exact B].
Qed.

Lemma mol_pairs_spec l2 : pdisj l2 -> forall l1 used ps n, pdisj l1 ->
  mol_pairs nm em g1 g2 l1 l2 used = (ps, n) ->
  (forall c1 c2, In (c1, c2) ps -> In c1 l1 /\ In c2 l2 /\ length c2 = length c1 /\
                                   comp_iso nm em g1 g2 c1 c2 = true /\ set_used c2 used = false) /\
  pdisj (map fst ps) /\ pdisj (map snd ps).
Proof.
  intros P2. induction l1 as [|c1 r IH]; intros used ps n P1 E; simpl in E.
  - inversion E; subst. split; [intros ? ? []|split; constructor].
  - inversion P1 as [|? ? D1 P1']; subst.
    destruct (mol_find nm em g1 g2 c1 l2 used) as [[c2|] k] eqn:Ef.
    + destruct (mol_pairs nm em g1 g2 r l2 (c2 :: used)) as [ps' n'] eqn:Ep. inversion E; subst ps n. clear E.
      destruct (mol_find_spec _ _ _ _ _ Ef) as (I2 & Hl & Hu & Hi).
      destruct (IH _ _ _ P1' Ep) as (S1 & S2 & S3).
      assert (Hsub : forall u d, set_used d (u :: used) = false -> set_used d used = false).
      { intros u d H. unfold set_used in *. simpl in H. now apply orb_false_iff in H. }
      split; [|split].
      * intros a b [Eab|Iab].
        -- inversion Eab; subst. split; [now left|auto].
        -- destruct (S1 a b Iab) as (A & B & C & D & F). split; [now right|]. split; [exact B|]. split; [exact C|].
           split; [exact D|eapply Hsub; exact F].
      * simpl. constructor; [|exact S2]. intros d Hd. apply in_map_iff in Hd. destruct Hd as ([a b] & <- & Iab). simpl.
        apply D1. now apply (S1 a b Iab).
      * simpl. constructor; [|exact S3]. intros d Hd. apply in_map_iff in Hd. destruct Hd as ([a b] & <- & Iab). simpl.
        destruct (S1 a b Iab) as (_ & Ib & _ & _ & Fu).
        destruct (pdisj_in l2 P2 c2 b I2 Ib) as [->|Hd]; [|exact Hd].
        exfalso. rewrite set_used_refl in Fu; [discriminate|now left].
    + destruct (mol_pairs nm em g1 g2 r l2 used) as [ps' n'] eqn:Ep. inversion E; subst ps n. clear E.
      destruct (IH _ _ _ P1' Ep) as (S1 & S2 & S3). split; [|auto].
      intros a b Iab. destruct (S1 a b Iab) as (A & B). split; [now right|exact B].
Qed.

(** any valid mappings inside pairwise disjoint, adjacency-closed pairs of node sets combine to a valid mapping *)
Lemma combine_valid : forall (ps : list (list N * list N)) (ms : list mapping) acc,
  Forall2 (fun p m => common_induced nm em (induced_sub g1 (fst p)) (induced_sub g2 (snd p)) m) ps ms ->
  pdisj (map fst ps) -> pdisj (map snd ps) ->
  (forall p, In p ps -> closed g1 (fst p) /\ closed g2 (snd p)) ->
  common_induced nm em g1 g2 acc ->
  (forall p h, In (p, h) acc -> forall q, In q ps -> ~ In p (fst q) /\ ~ In h (snd q)) ->
  common_induced nm em g1 g2 (acc ++ concat ms).
Proof.
  intros ps ms acc F. revert acc. induction F as [|p m ps ms Hm F IH]; intros acc P1 P2 Hc Hacc Hout.
  - simpl. now rewrite app_nil_r.
  - simpl in *. inversion P1 as [|? ? D1 P1']; subst. inversion P2 as [|? ? D2 P2']; subst.
    destruct (ci_induced_lift nm em g1 g2 (fst p) (snd p) m Hm) as (Vm & Im).
    rewrite app_assoc. apply IH; [exact P1'|exact P2'|intros q Hq; apply Hc; now right| |].
    + apply (ci_app nm em g1 g2 (fst p) (snd p));
        [apply Hc; now left|apply Hc; now left|exact Hacc|exact Vm|intros a b I; apply (Hout a b I p); now left|exact Im].
    + intros a b I q Hq. apply in_app_or in I. destruct I as [I|I]; [apply (Hout a b I q); now right|].
      destruct (Im a b I) as (Ia & Ib). split.
      * apply (D1 (fst q)); [now apply in_map|exact Ia].
      * apply (D2 (snd q)); [now apply in_map|exact Ib].
Qed.

End Mol.

Theorem mcs_mol_valid defs prune wc (g1 g2 : graph) :
  NoDup (node_ids g1) -> NoDup (node_ids g2) -> wfe g1 -> wfe g2 ->
  let g1u := prune_graph prune wc g1 in
  let g2u := prune_graph prune wc g2 in
  let ps := fst (find_mcs_mol_pairs defs prune wc g1 g2) in
  (forall c1 c2, In (c1, c2) ps ->
     In c1 (components g1u) /\ In c2 (components g2u) /\ length c2 = length c1 /\
     comp_iso (node_match defs) edge_match g1u g2u c1 c2 = true) /\
  (forall i j, i < j -> j < length ps -> forall x,
     (In x (nth i (map fst ps) []) -> ~ In x (nth j (map fst ps) [])) /\
     (In x (nth i (map snd ps) []) -> ~ In x (nth j (map snd ps) []))) /\
  (forall ms, Forall2 (fun p m => common_induced (node_match defs) edge_match
                                    (induced_sub g1u (fst p)) (induced_sub g2u (snd p)) m) ps ms ->
              common_induced (node_match defs) edge_match g1u g2u (concat ms)).
Proof.
  intros N1 N2 W1 W2 g1u g2u ps.
  pose proof (wfe_prune prune wc g1 W1) as W1'. pose proof (wfe_prune prune wc g2 W2) as W2'.
  destruct (components_spec g1u W1') as (C1 & D1). destruct (components_spec g2u W2') as (C2 & D2).
  assert (P1 : pdisj (sort_comps (components g1u))) by (eapply pdisj_perm; [apply Permutation_sym, sort_comps_perm|exact D1]).
  assert (P2 : pdisj (sort_comps (components g2u))) by (eapply pdisj_perm; [apply Permutation_sym, sort_comps_perm|exact D2]).
  unfold ps, find_mcs_mol_pairs. fold g1u g2u.
  destruct (mol_pairs (node_match defs) edge_match g1u g2u (sort_comps (components g1u)) (sort_comps (components g2u)) [])
    as [pairs n] eqn:E. simpl.
  destruct (mol_pairs_spec (node_match defs) edge_match g1u g2u _ P2 _ _ _ _ P1 E) as (S1 & S2 & S3).
  assert (Hin : forall c1 c2, In (c1, c2) pairs -> In c1 (components g1u) /\ In c2 (components g2u)).
  { intros c1 c2 I. destruct (S1 c1 c2 I) as (A & B & _). split; (eapply Permutation_in; [apply sort_comps_perm|]); assumption. }
  split; [|split].
  - intros c1 c2 I. destruct (S1 c1 c2 I) as (_ & _ & Hl & Hi & _). destruct (Hin c1 c2 I). auto.
  - intros i j Hij Hj x. split.
    + apply (pdisj_nth _ S2 i j Hij). now rewrite map_length.
    + apply (pdisj_nth _ S3 i j Hij). now rewrite map_length.
  - intros ms F. rewrite <- (app_nil_l (concat ms)).
    apply (combine_valid (node_match defs) edge_match g1u g2u pairs ms []);
      [exact F|exact S2|exact S3| |apply ci_nil|intros p h []].
    intros [c1 c2] I. destruct (Hin c1 c2 I) as (A & B). split; [apply (C1 c1 A)|apply (C2 c2 B)].
Qed.

Module Example_mol.
Import Example_component.
Open Scope N_scope.
(** h1: C1-O2 . C4=C5 . N3     h2: C7=C8 . O9-C10 . C11-C12 : C1-O2 <-> O9-C10, C4=C5 <-> C7=C8, N3 unmatched *)
Definition h1 : graph := g1.
Definition h2 : graph := LG [nd 7 1; nd 8 1; nd 9 2; nd 10 1; nd 11 1; nd 12 1]
                            [((7,8), [Some 4%Z]); ((9,10), [Some 2%Z]); ((11,12), [Some 2%Z])].
Lemma h2_nodup : NoDup (node_ids h2). Proof. vm_compute. repeat constructor; simpl; intuition discriminate. Qed.
Lemma h2_wfe : wfe h2. Proof. intros a b x [E|[E|[E|[]]]]; inversion E; subst; vm_compute; tauto. Qed.

Example mcs_mol_nonvacuous :
  find_mcs_mol_pairs [9] false 9 h1 h2 = ([([2; 1], [10; 9]); ([5; 4], [8; 7])], 3%nat) /\
  common_induced (node_match [9]) edge_match h1 h2 ([(1, 10); (2, 9)] ++ [(4, 7); (5, 8)] ++ []).
Proof.
  split; [vm_compute; reflexivity|].
  destruct (mcs_mol_valid [9] false 9 h1 h2 g1_nodup h2_nodup g1_wfe h2_wfe) as (_ & _ & V).
  apply (V [[(1, 10); (2, 9)]; [(4, 7); (5, 8)]]).
  assert (E : fst (find_mcs_mol_pairs [9] false 9 h1 h2) = [([2; 1], [10; 9]); ([5; 4], [8; 7])]) by (vm_compute; reflexivity).
  rewrite E. constructor; [|constructor; [|constructor]].
  - simpl. apply (search_valid _ _ (induced_sub h1 [2; 1]) (induced_sub h2 [10; 9]) true
                    [[(1, 10); (2, 9)]] 2%nat 1%nat); [vm_compute; repeat constructor; simpl; intuition discriminate|vm_compute; reflexivity|now left].
  - simpl. apply (search_valid _ _ (induced_sub h1 [5; 4]) (induced_sub h2 [8; 7]) true
                    [[(4, 7); (5, 8)]; [(4, 8); (5, 7)]] 2%nat 1%nat); [vm_compute; repeat constructor; simpl; intuition discriminate|vm_compute; reflexivity|now left].
Qed.
End Example_mol.

(* ------------------------------------------------------------------ what the isomorphism test of a pair says *)
(** [comp_iso] (the model of GraphMatcher(sub1, sub2).is_isomorphic() for components of equal size) holds iff some
    common induced mapping of the two induced copies covers all of c1 -- so the premise of [mcs_mol_valid] about the
    mappings inside the pairs is satisfiable exactly for the pairs the matching selects. *)
Theorem comp_iso_spec nm em (g1 g2 : graph) (c1 c2 : list N) :
  NoDup c1 -> incl c1 (node_ids g1) -> incl c2 (node_ids g2) ->
  (comp_iso nm em g1 g2 c1 c2 = true <->
   exists m, common_induced nm em (induced_sub g1 c1) (induced_sub g2 c2) m /\ Permutation (map fst m) c1).
Proof.
  intros N1 I1 I2. unfold comp_iso.
  set (ms := monos c1 c2 (label g1) (label g2) (LGraph.adj g1) (LGraph.adj g2) nm em true).
  assert (Lab1 : forall p, In p c1 -> label (induced_sub g1 c1) p = label g1 p) by (intros; now apply induced_label).
  assert (Lab2 : forall h, In h c2 -> label (induced_sub g2 c2) h = label g2 h) by (intros; now apply induced_label).
  split.
  - intros H. destruct ms as [|m0 r] eqn:Em; [discriminate|].
    assert (I : In m0 ms) by (rewrite Em; now left).
    destruct (monos_only_such _ _ _ _ _ _ _ _ _ _ I) as (hs & Hl & E & Hv).
    apply (C12_MonoPw.valid_pw _ _ _ _ _ _ _ _ (adj_sym g1) (adj_sym g2)) in Hv. destruct Hv as (P1 & P2 & P3).
    assert (Hfst : map fst m0 = rev c1) by (rewrite E, map_rev, map_fst_combine; auto).
    assert (Hin : forall p h, In (p, h) m0 -> In p c1 /\ In h c2).
    { intros p h Iph. split; [|now apply (P1 p h)]. apply in_rev. rewrite <- Hfst. change p with (fst (p, h)). now apply in_map. }
    exists m0. split.
    + split; [rewrite Hfst; eapply Permutation_NoDup; [apply Permutation_rev|exact N1]|]. split; [exact P2|]. split.
      * intros p h Iph. destruct (Hin p h Iph) as (Ip & Ih). destruct (P1 p h Iph) as (_ & Hn).
        rewrite (Lab1 p Ip), (Lab2 h Ih). split; [apply induced_nodes; auto|]. split; [apply induced_nodes; auto|exact Hn].
      * intros p h p' h' Iph Iph' Hne. destruct (Hin p h Iph) as (Ip & Ih). destruct (Hin p' h' Iph') as (Ip' & Ih').
        rewrite (induced_adj g1 c1 p p' Ip Ip'), (induced_adj g2 c2 h h' Ih Ih').
        assert (Hd : (p, h) <> (p', h')) by (intros Eq; inversion Eq; contradiction).
        specialize (P3 _ _ Iph Iph' Hd). unfold edge_ok in P3. simpl in P3.
        destruct (LGraph.adj g1 p p'), (LGraph.adj g2 h h'); simpl in P3; try discriminate; auto.
    + rewrite Hfst. apply Permutation_sym, Permutation_rev.
  - intros (m & (H1 & H2 & H3 & H4) & Pm).
    destruct (Permutation_map_inv fst _ (Permutation_sym Pm)) as (m1 & Ec & P1).
    assert (Hl : length (map snd m1) = length c1) by (rewrite Ec, !map_length; reflexivity).
    assert (Ev : rev (combine c1 (map snd m1)) = rev m1) by (rewrite Ec, combine_fst_snd; reflexivity).
    assert (I : In (rev (combine c1 (map snd m1))) ms).
    { apply monos_spec; [exact Hl|]. apply C12_MonoPw.pw_valid. rewrite Ev.
      apply (C12_MonoPw.pw_perm _ _ _ _ _ _ _ _ m); [eapply perm_trans; [exact P1|apply Permutation_rev]|].
      assert (Hin : forall p h, In (p, h) m -> In p c1 /\ In h c2).
      { intros p h Iph. destruct (H3 p h Iph) as (A & B & _). apply induced_nodes in A, B. tauto. }
      split; [|split; [exact H2|]].
      - intros p h Iph. destruct (Hin p h Iph) as (Ip & Ih). destruct (H3 p h Iph) as (_ & _ & Hn).
        rewrite (Lab1 p Ip), (Lab2 h Ih) in Hn. auto.
      - intros [p h] [p' h'] Iph Iph' Hd. unfold edge_ok. simpl.
        destruct (Hin p h Iph) as (Ip & Ih). destruct (Hin p' h' Iph') as (Ip' & Ih').
        assert (Hne : p <> p') by (intros ->; apply Hd; apply (NoDup_map_fst_eq m (p', h) (p', h')); auto).
        specialize (H4 p h p' h' Iph Iph' Hne).
        rewrite (induced_adj g1 c1 p p' Ip Ip'), (induced_adj g2 c2 h h' Ih Ih') in H4.
        destruct (LGraph.adj g1 p p'), (LGraph.adj g2 h h'); simpl; tauto. }
    destruct ms; [destruct I|reflexivity].
Qed.
