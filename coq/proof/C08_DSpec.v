(** C08 — specification vocabulary for directed inputs (networkx.DiGraph), definitions only (round 5).
    The edge list of the model graph is read as the list of ARCS u -> v. *)
From Coq Require Import List NArith ZArith Bool Arith Permutation.
From SK Require Import lib.LGraph lib.StrJoin model.C08_Model proof.C08_Spec.
Import ListNotations.

(** a networkx.DiGraph without self-loops: distinct node ids, every arc joins two distinct nodes of the graph,
    at most one arc per ORDERED pair (u -> v and v -> u may both be present) *)
Definition dwf (g : graph) : Prop :=
  NoDup (node_ids g) /\
  (forall a b x, In (a, b, x) (gedges g) -> In a (node_ids g) /\ In b (node_ids g) /\ a <> b) /\
  NoDup (map (fun e : N * N * eattr => fst e) (gedges g)).

(** the covered view of an arc keeps its direction *)
Definition dcove (e : N * N * eattr) : N * N * ecv := let '(u, v, a) := e in (u, v, ecov a).
Definition dcov_edges (g : graph) : list (N * N * ecv) := map dcove (gedges g).
(** same digraph on the covered attributes: same labelled node set, same labelled set of arcs *)
Definition dgeq_cov (g h : graph) : Prop :=
  Permutation (cov_nodes g) (cov_nodes h) /\ Permutation (dcov_edges g) (dcov_edges h).
(** isomorphic as digraphs on the covered attributes *)
Definition diso_cov (g h : graph) : Prop :=
  exists f, inj_on f (node_ids g) /\ dgeq_cov (relabel f g) h.
