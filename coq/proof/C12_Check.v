(** C12 -- [ci_check] decides [common_induced]; an accepted mcs_mol choice is a common induced mapping of the pruned graphs. *)
From Coq Require Import List NArith ZArith Bool Arith Lia Permutation.
From SK Require Import lib.LGraph lib.Mono model.C12_Model model.C12_Check proof.C12_Search proof.C12_Proof proof.C12_Prune
     proof.C12_Component proof.C12_Mol.
Import ListNotations.
Local Open Scope nat_scope.

Lemma nodupb_spec l : nodupb l = true <-> NoDup l.
Proof.
  induction l as [|x r IH]; simpl; [split; [constructor|reflexivity]|]. rewrite andb_true_iff, negb_true_iff, IH. split.
  - intros (H1 & H2). constructor; [|exact H2]. intros I. apply mem_spec in I. congruence.
  - intros H. inversion H as [|? ? Hn Hr]; subst. split; [|exact Hr].
    destruct (LGraph.mem x r) eqn:E; [|reflexivity]. apply mem_spec in E. contradiction.
Qed.

Theorem ci_check_spec nm em (ga gb : graph) (m : mapping) :
  ci_check nm em ga gb m = true <-> common_induced nm em ga gb m.
Proof.
  unfold ci_check, common_induced. rewrite !andb_true_iff, !nodupb_spec, !forallb_forall. split.
  - intros (((A & B) & C) & D). split; [exact A|split; [exact B|split]].
    + intros p h I. specialize (C (p, h) I). simpl in C. rewrite !andb_true_iff in C. destruct C as ((C1 & C2) & C3).
      split; [now apply mem_spec|split; [now apply mem_spec|exact C3]].
    + intros p h p' h' I I' Hne. specialize (D (p, h) I). rewrite forallb_forall in D. specialize (D (p', h') I').
      simpl in D. apply orb_prop in D. destruct D as [D|D]; [apply N.eqb_eq in D; contradiction|].
      unfold edge_ok_b in D. simpl in D. destruct (LGraph.adj ga p p'), (LGraph.adj gb h h'); auto; discriminate.
  - intros (A & B & C & D). split; [split; [split; [exact A|exact B]|]|].
    + intros [p h] I. simpl. destruct (C p h I) as (C1 & C2 & C3). rewrite !andb_true_iff. split; [split; now apply mem_spec|exact C3].
    + intros [p h] I. rewrite forallb_forall. intros [p' h'] I'. simpl.
      destruct (N.eqb_spec p p') as [->|Hne]; [reflexivity|]. simpl. specialize (D p h p' h' I I' Hne).
      unfold edge_ok_b. simpl. destruct (LGraph.adj ga p p'), (LGraph.adj gb h h'); auto; contradiction.
Qed.

(** an accepted choice of the isomorphisms inside the matched pairs gives a common induced mapping of the (pruned) graphs *)
Theorem mol_choice_valid defs prune wc (g1 g2 : graph) choice r :
  NoDup (node_ids g1) -> NoDup (node_ids g2) -> wfe g1 -> wfe g2 ->
  find_mcs_mol_with defs prune wc g1 g2 choice = Some r ->
  exists m, r_maps r = [m] /\ r_last r = length m /\ r_pattern_is_g1 r = true /\
            r_tried r = snd (find_mcs_mol_pairs defs prune wc g1 g2) /\
            (forall ph, In ph m -> In ph choice) /\ length m = length choice /\
            common_induced (node_match defs) edge_match (prune_graph prune wc g1) (prune_graph prune wc g2) m /\
            common_induced (node_match defs) edge_match (prune_graph prune wc g2) (prune_graph prune wc g1) (invert_mapping m).
Proof.
  intros N1 N2 W1 W2 E. unfold find_mcs_mol_with in E.
  destruct (mcs_mol_valid defs prune wc g1 g2 N1 N2 W1 W2) as (_ & _ & V).
  destruct (find_mcs_mol_pairs defs prune wc g1 g2) as [ps n] eqn:Ep. simpl in V.
  unfold apply_mol_choice in E.
  set (ms := map (fun pr => part_of choice (fst pr)) ps) in *.
  destruct (forallb (fun pm => ci_check (node_match defs) edge_match (induced_sub (prune_graph prune wc g1) (fst (fst pm)))
                                 (induced_sub (prune_graph prune wc g2) (snd (fst pm))) (snd pm) &&
                               (length (snd pm) =? length (fst (fst pm)))) (combine ps ms)) eqn:Ef; simpl in E; [|discriminate].
  destruct (length (concat ms) =? length choice) eqn:El; [|discriminate]. inversion E; subst r. clear E. simpl.
  exists (concat ms). split; [reflexivity|]. split; [reflexivity|]. split; [reflexivity|]. split; [reflexivity|].
  assert (F : Forall2 (fun p m => common_induced (node_match defs) edge_match (induced_sub (prune_graph prune wc g1) (fst p))
                                    (induced_sub (prune_graph prune wc g2) (snd p)) m) ps ms).
  { unfold ms. clear El V Ep. induction ps as [|pr r IH]; simpl in *; [constructor|].
    apply andb_prop in Ef. destruct Ef as (E1 & E2). constructor; [|now apply IH].
    apply andb_prop in E1. destruct E1 as (E1 & _). simpl in E1. now apply ci_check_spec. }
  pose proof (V ms F) as C. split; [|split; [now apply Nat.eqb_eq|split; [exact C|]]].
  - intros ph Hph. apply in_concat in Hph. destruct Hph as (l & Hl & Hph). unfold ms in Hl. apply in_map_iff in Hl.
    destruct Hl as (pr & <- & _). unfold part_of in Hph. apply filter_In in Hph. tauto.
  - apply (ci_invert _ _ (node_match_sym defs) edge_match_sym). exact C.
Qed.
