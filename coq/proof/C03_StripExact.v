(** C03 — WHICH atoms _strip_explicit_h removes, for templates whose atoms have the same element on both sides: exactly
    the explicit hydrogens that have a non-hydrogen neighbour on the left AND on the right side, all of them in step 2
    (in sorted order, pair ids 1, 2, ...), from all three graphs; step 3 removes nothing.  Stdlib lists only. *)
From Coq Require Import List NArith ZArith Bool Lia.
From SK Require Import lib.Tok lib.LGraph model.C03_Model proof.C03_Proof proof.C03_Glue proof.C03_Backward proof.C03_Skeleton
                       proof.C03_StripCounts proof.C03_WiringCount.
Import ListNotations.
Local Open Scope Z_scope.

(** * removable_on, as a boolean about non-hydrogen neighbours *)

Lemma removable_on_spec (g : molg) h : removable_on g h = if has_node g h then Some (heavy_nbr g h) else None.
Proof.
  unfold removable_on, heavy_nbr. destruct (has_node g h); [|reflexivity]. f_equal.
  destruct (nbrs g h) as [|x r]; [reflexivity|]. generalize (x :: r). intros l.
  induction l as [|y s IH]; simpl; [reflexivity|]. destruct (is_H_m g y); simpl; [exact IH|reflexivity].
Qed.

(** * neighbours in a graph with some atoms removed *)
Lemma nbrs_filtered (es : list (N * N * Z)) (R : list N) h : ~ In h R ->
  flat_map (fun e : N * N * Z => let '(a, b, _) := e in if N.eqb a h then [b] else if N.eqb b h then [a] else []) (filter (mkeepe R) es)
  = filter (fun x => negb (mem x R))
      (flat_map (fun e : N * N * Z => let '(a, b, _) := e in if N.eqb a h then [b] else if N.eqb b h then [a] else []) es).
Proof.
  intros Hh. assert (Hm : mem h R = false) by (destruct (mem h R) eqn:E; [apply mem_spec in E; contradiction|reflexivity]).
  induction es as [|[[a b] o] r IH]; [reflexivity|]. cbn [filter flat_map]. rewrite filter_app, <- IH. unfold mkeepe at 1. cbn [fst snd].
  destruct (N.eqb_spec a h) as [->|Na].
  - rewrite Hm. cbn [negb andb filter]. destruct (mem b R); cbn [negb flat_map app]; [reflexivity|]. rewrite N.eqb_refl. reflexivity.
  - destruct (N.eqb_spec b h) as [->|Nb].
    + rewrite Hm. cbn [negb filter]. rewrite andb_true_r. destruct (mem a R); cbn [negb flat_map app]; [reflexivity|].
      destruct (N.eqb_spec a h); [contradiction|]. rewrite N.eqb_refl. reflexivity.
    + cbn [filter app]. destruct (negb (mem a R) && negb (mem b R)); cbn [flat_map app]; [|reflexivity].
      destruct (N.eqb_spec a h); [contradiction|]. destruct (N.eqb_spec b h); [contradiction|]. reflexivity.
Qed.

Lemma mskel_nbrs g0 g R h : mskel g0 g R -> ~ In h R -> nbrs g h = filter (fun x => negb (mem x R)) (nbrs g0 h).
Proof. intros [_ S2] Hh. unfold nbrs. rewrite S2. apply nbrs_filtered. exact Hh. Qed.

Lemma mskel_label g0 g R x : NoDup (node_ids g0) -> mskel g0 g R ->
  match label g x with
  | Some a => exists a0, label g0 x = Some a0 /\ m_el a = m_el a0 /\ ~ In x R
  | None => In x R \/ label g0 x = None
  end.
Proof.
  intros Hnd S. pose proof (mskel_ids g0 g R S) as Hids. destruct S as [S1 _].
  assert (Hnd' : NoDup (node_ids g)) by (rewrite Hids; apply NoDup_map_filter; exact Hnd).
  destruct (label g x) as [a|] eqn:El.
  - unfold label in El. apply assoc_in in El. destruct (Forall2_in_l _ _ _ _ S1 El) as ([k a0] & I & (E1 & E2 & _)).
    cbn [fst snd] in *. subst k. apply filter_In in I. destruct I as [I Hk]. exists a0.
    split; [apply assoc_nodup_in; assumption|]. split; [exact E2|]. unfold mkeepn in Hk. cbn [fst] in Hk.
    apply negb_true_iff in Hk. intros C. apply mem_spec in C. congruence.
  - destruct (label g0 x) as [a0|] eqn:E0; [|right; reflexivity]. left.
    destruct (mem x R) eqn:Em; [apply mem_spec; exact Em|]. exfalso.
    unfold label in E0. apply assoc_in in E0.
    assert (I : In x (node_ids g)).
    { rewrite Hids. apply in_map_iff. exists (x, a0). split; [reflexivity|]. apply filter_In. split; [exact E0|]. unfold mkeepn. cbn [fst]. rewrite Em. reflexivity. }
    unfold node_ids in I. apply in_map_iff in I. destruct I as ([k a] & E & I). cbn [fst] in E. subst k.
    unfold label in El. rewrite (assoc_nodup_in x (gnodes g) a Hnd' I) in El. discriminate.
Qed.

(** removing hydrogens (and bumping hydrogen counts) does not change whether an atom still has a non-hydrogen neighbour *)
Lemma heavy_nbr_stable g0 g R h : NoDup (node_ids g0) -> mskel g0 g R -> (forall x, In x R -> is_H_m g0 x = true) -> ~ In h R ->
  heavy_nbr g h = heavy_nbr g0 h.
Proof.
  intros Hnd S HR Hh. unfold heavy_nbr. rewrite (mskel_nbrs g0 g R h S Hh).
  induction (nbrs g0 h) as [|x r IH]; [reflexivity|]. cbn [filter existsb].
  destruct (mem x R) eqn:Em; cbn [negb].
  - apply mem_spec in Em. rewrite (HR x Em). cbn [negb orb]. exact IH.
  - cbn [existsb]. rewrite IH. f_equal. f_equal. unfold is_H_m.
    pose proof (mskel_label g0 g R x Hnd S) as L. destruct (label g x) as [a|].
    + destruct L as (a0 & E0 & Ee & _). rewrite E0, Ee. reflexivity.
    + destruct L as [L|L]; [apply mem_spec in L; congruence|rewrite L; reflexivity].
Qed.

Lemma has_node_mskel g0 g R h : NoDup (node_ids g0) -> mskel g0 g R -> has_node g h = has_node g0 h && negb (mem h R).
Proof.
  intros Hnd S. unfold has_node. pose proof (mskel_label g0 g R h Hnd S) as L. destruct (label g h) as [a|].
  - destruct L as (a0 & E0 & _ & Hn). rewrite E0. destruct (mem h R) eqn:Em; [apply mem_spec in Em; contradiction|reflexivity].
  - destruct L as [L|L]; [apply mem_spec in L; rewrite L; rewrite andb_false_r; reflexivity|rewrite L; reflexivity].
Qed.

Lemma fully_removable_stable l0 r0 l r Rl Rr h :
  NoDup (node_ids l0) -> NoDup (node_ids r0) -> mskel l0 l Rl -> mskel r0 r Rr ->
  (forall x, In x Rl -> is_H_m l0 x = true) -> (forall x, In x Rr -> is_H_m r0 x = true) -> ~ In h Rl -> ~ In h Rr ->
  fully_removable l r h = fully_removable l0 r0 h.
Proof.
  intros Nl Nr Sl Sr Hl Hr Hhl Hhr. unfold fully_removable. rewrite !removable_on_spec.
  rewrite (has_node_mskel l0 l Rl h Nl Sl), (has_node_mskel r0 r Rr h Nr Sr).
  assert (El : mem h Rl = false) by (destruct (mem h Rl) eqn:E; [apply mem_spec in E; contradiction|reflexivity]).
  assert (Er : mem h Rr = false) by (destruct (mem h Rr) eqn:E; [apply mem_spec in E; contradiction|reflexivity]).
  rewrite El, Er. cbn [negb]. rewrite !andb_true_r.
  rewrite (heavy_nbr_stable l0 l Rl h Nl Sl Hl Hhl), (heavy_nbr_stable r0 r Rr h Nr Sr Hr Hhr). reflexivity.
Qed.

(** * one strip step, exactly *)
Lemma mskel_mem_ext g0 g R R' : (forall x, mem x R = mem x R') -> sum_cnt (gedges g0) R = sum_cnt (gedges g0) R' -> mskel g0 g R -> mskel g0 g R'.
Proof.
  intros Hm Hs [S1 S2]. constructor.
  - rewrite <- Hs. rewrite (filter_ext_all (mkeepn R') (mkeepn R)) by (intros p; unfold mkeepn; rewrite Hm; reflexivity). exact S1.
  - rewrite S2. apply filter_ext_all. intros e. unfold mkeepe. rewrite !Hm. reflexivity.
Qed.

Lemma strip_m_not_in (g : molg) h pid : has_node g h = true -> ~ In h (node_ids (strip_m g h pid)).
Proof.
  intros Hh. unfold strip_m. rewrite Hh. unfold node_ids, remove_node; cbn [gnodes]. intros I.
  apply in_map_iff in I. destruct I as ([k a] & E & I). cbn [fst] in E. subst k. apply filter_In in I. destruct I as [_ I].
  cbn [fst] in I. rewrite N.eqb_refl in I. discriminate.
Qed.

Lemma mskel_strip_exact g0 g R h pid : NoDup (node_ids g0) -> NoDup (node_ids g) -> mskel g0 g R ->
  mskel g0 (strip_m g h pid) (if has_node g h then h :: R else R).
Proof.
  intros Hnd0 Hnd S. destruct (has_node g h) eqn:Eh.
  - destruct (mskel_strip g0 g R h pid Hnd S) as (R' & S' & [->| ->]); [|exact S']. exfalso.
    apply (strip_m_not_in g h pid Eh). rewrite (mskel_ids g0 _ R S'), <- (mskel_ids g0 g R S).
    apply has_node_label in Eh. destruct Eh as [a Ha]. unfold label in Ha. apply assoc_in in Ha.
    unfold node_ids. change h with (fst (h, a)). apply in_map. exact Ha.
  - unfold strip_m. rewrite Eh. exact S.
Qed.

Lemma skel_strip_i_exact T0 g removed h pid : (has_node g h = true -> is_H_i T0 h = true) -> skel T0 g removed ->
  skel T0 (strip_i g h pid) (if has_node g h then h :: removed else removed).
Proof.
  intros Hh S. unfold strip_i. destruct (has_node g h); [|exact S].
  apply skel_remove; [apply Hh; reflexivity|].
  generalize (nbrs g h). intros l. revert g S. induction l as [|x r IH]; intros g S; [exact S|].
  cbn [fold_left]. apply IH. destruct (is_H_i g x); [exact S|]. apply skel_upd; [apply bump_i_core|exact S].
Qed.

(** * the shared hydrogens *)
Definition sh_step (l r : molg) (n : N) (acc : option (list N)) : option (list N) :=
  match acc with
  | None => None
  | Some ns => if has_node r n then
                 match fully_removable l r n with
                 | Some true => Some (n :: ns) | Some false => Some ns | None => None end
               else Some ns
  end.
Lemma shared_h_unfold l r : shared_h l r = fold_right (sh_step l r) (Some []) (h_nodes_m l).
Proof. reflexivity. Qed.

Lemma sh_fold_spec l r ns : forall hs, fold_right (sh_step l r) (Some []) ns = Some hs ->
  (forall h, In h hs <-> In h ns /\ has_node r h = true /\ fully_removable l r h = Some true) /\ (NoDup ns -> NoDup hs).
Proof.
  induction ns as [|n ns IH]; cbn [fold_right]; intros hs H.
  - inversion H; subst. split; [intros h; simpl; tauto|constructor].
  - destruct (fold_right (sh_step l r) (Some []) ns) as [acc|] eqn:E; [|discriminate]. destruct (IH acc eq_refl) as [I1 I2].
    unfold sh_step in H. destruct (has_node r n) eqn:En.
    + destruct (fully_removable l r n) as [[|]|] eqn:Ef; inversion H; subst.
      * split.
        -- intros h. simpl. rewrite I1. split.
           ++ intros [Hx|(P & Q & S)]; [subst; auto|auto].
           ++ intros ([Hx|P] & Q & S); [left; exact Hx|right; auto].
        -- intros Hn. inversion Hn as [|? ? N1 N2]; subst. constructor; [|auto]. intros I. apply I1 in I. tauto.
      * split.
        -- intros h. simpl. rewrite I1. split.
           ++ intros (P & Q & S); auto.
           ++ intros ([Hx|P] & Q & S); [subst; congruence|auto].
        -- intros Hn. inversion Hn; subst. auto.
    + inversion H; subst. split.
      * intros h. simpl. rewrite I1. split.
        -- intros (P & Q & S); auto.
        -- intros ([Hx|P] & Q & S); [subst; congruence|auto].
      * intros Hn. inversion Hn; subst. auto.
Qed.

(** * membership of node ids *)
Lemma has_node_in {A B} (g : lgraph A B) h : has_node g h = true <-> In h (node_ids g).
Proof.
  rewrite has_node_label. unfold label, node_ids. split.
  - intros [a Ha]. apply assoc_in in Ha. change h with (fst (h, a)). apply in_map. exact Ha.
  - intros I. induction (gnodes g) as [|[k v] r IH]; [destruct I|]. simpl. destruct (N.eqb_spec h k); [eauto|].
    apply IH. destruct I as [E|I]; [simpl in E; congruence|exact I].
Qed.
Lemma skel_ids T0 g R : skel T0 g R -> node_ids g = map fst (filter (keepn R) (gnodes T0)).
Proof. intros [_ S2 _]. unfold node_ids. apply (Forall2_ids _ _ _ (fun p q (H : same_core p q) => proj1 H) S2). Qed.
Lemma has_node_skel T0 g R h : skel T0 g R -> has_node T0 h = true -> ~ In h R -> has_node g h = true.
Proof.
  intros S Hh Hn. apply has_node_in. rewrite (skel_ids T0 g R S). apply has_node_in in Hh. unfold node_ids in Hh.
  apply in_map_iff in Hh. destruct Hh as ([k a] & E & I). cbn [fst] in E. subst k. apply in_map_iff. exists (h, a). split; [reflexivity|].
  apply filter_In. split; [exact I|]. unfold keepn. cbn [fst]. destruct (mem h R) eqn:Em; [apply mem_spec in Em; contradiction|reflexivity].
Qed.

(** * step 2, exactly: the same atoms leave all three graphs *)
Record inv3 (tpl : its) (L0 R0 : molg) (t : triple) (R : list N) : Prop := {
  i3_rc : skel tpl (fst (fst t)) R;
  i3_l : mskel L0 (tl_ t) R;
  i3_r : mskel R0 (tr_ t) R;
  i3_nl : NoDup (node_ids (tl_ t));
  i3_nr : NoDup (node_ids (tr_ t)) }.

Lemma strip_shared_exact tpl L0 R0 hs : NoDup (node_ids L0) -> NoDup (node_ids R0) ->
  NoDup hs -> (forall h, In h hs -> is_H_i tpl h = true /\ has_node tpl h = true /\ has_node L0 h = true /\ has_node R0 h = true) ->
  forall (t : triple) pid R, (forall h, In h hs -> ~ In h R) -> inv3 tpl L0 R0 t R ->
  inv3 tpl L0 R0 (fst (fold_left (fun (st : triple * N) h =>
         let '(rc, l, r, pid) := st in
         (strip_i rc h (Some pid), strip_m l h (Some pid), strip_m r h (Some pid), N.succ pid)) hs (t, pid))) (rev hs ++ R).
Proof.
  intros NL NR Hnd. induction Hnd as [|h r Hx Hn IH]; intros Hall t pid R Hdis I; [cbn [fold_left fst rev app]; exact I|].
  cbn [fold_left]. destruct t as [[rc l] rr]. destruct I as [I1 I2 I3 I4 I5]. unfold tl_, tr_ in *. cbn [fst snd] in *.
  destruct (Hall h (or_introl eq_refl)) as (H1 & H2 & H3 & H4). pose proof (Hdis h (or_introl eq_refl)) as HhR.
  assert (Em : mem h R = false) by (destruct (mem h R) eqn:E; [apply mem_spec in E; contradiction|reflexivity]).
  assert (El : has_node l h = true) by (rewrite (has_node_mskel L0 l R h NL I2), H3, Em; reflexivity).
  assert (Er : has_node rr h = true) by (rewrite (has_node_mskel R0 rr R h NR I3), H4, Em; reflexivity).
  assert (Ec : has_node rc h = true) by (exact (has_node_skel tpl rc R h I1 H2 HhR)).
  cbn [rev]. rewrite <- app_assoc. cbn [app].
  apply (IH (fun x Ix => Hall x (or_intror Ix)) (strip_i rc h (Some pid), strip_m l h (Some pid), strip_m rr h (Some pid)) (N.succ pid) (h :: R)).
  - intros x Ix [E|C]; [subst; contradiction|exact (Hdis x (or_intror Ix) C)].
  - constructor; unfold tl_, tr_; cbn [fst snd].
    + pose proof (skel_strip_i_exact tpl rc R h (Some pid) (fun _ => H1) I1) as S. rewrite Ec in S. exact S.
    + pose proof (mskel_strip_exact L0 l R h (Some pid) NL I4 I2) as S. rewrite El in S. exact S.
    + pose proof (mskel_strip_exact R0 rr R h (Some pid) NR I5 I3) as S. rewrite Er in S. exact S.
    + apply strip_m_nodup. exact I4.
    + apply strip_m_nodup. exact I5.
Qed.

(** * step 3 removes nothing when no remaining hydrogen is removable on both sides *)
Lemma step3_rc_noop hs : forall (t : triple), (forall h, In h hs -> fully_removable (tl_ t) (tr_ t) h = Some false) ->
  fold_left (fun (st : option triple) h =>
      match st with
      | None => None
      | Some (rc, l, r) => match fully_removable l r h with
                           | Some true => Some (strip_i rc h None, l, r) | Some false => st | None => None end
      end) hs (Some t) = Some t.
Proof.
  induction hs as [|h r IH]; intros t H; [reflexivity|]. cbn [fold_left]. destruct t as [[rc l] rr]. unfold tl_, tr_ in H. cbn [fst snd] in H.
  rewrite (H h (or_introl eq_refl)). apply IH. intros x Ix. unfold tl_, tr_. cbn [fst snd]. apply H. right. exact Ix.
Qed.
Lemma step3_l_noop hs : forall (t : triple), (forall h, In h hs -> fully_removable (tl_ t) (tr_ t) h = Some false) ->
  fold_left (fun (st : option triple) h =>
      match st with
      | None => None
      | Some (rc, l, r) => match fully_removable l r h with
                           | Some true => Some (rc, strip_m l h None, r) | Some false => st | None => None end
      end) hs (Some t) = Some t.
Proof.
  induction hs as [|h r IH]; intros t H; [reflexivity|]. cbn [fold_left]. destruct t as [[rc l] rr]. unfold tl_, tr_ in H. cbn [fst snd] in H.
  rewrite (H h (or_introl eq_refl)). apply IH. intros x Ix. unfold tl_, tr_. cbn [fst snd]. apply H. right. exact Ix.
Qed.
Lemma step3_r_noop hs : forall (t : triple), (forall h, In h hs -> fully_removable (tl_ t) (tr_ t) h = Some false) ->
  fold_left (fun (st : option triple) h =>
      match st with
      | None => None
      | Some (rc, l, r) => match fully_removable l r h with
                           | Some true => Some (rc, l, strip_m r h None) | Some false => st | None => None end
      end) hs (Some t) = Some t.
Proof.
  induction hs as [|h r IH]; intros t H; [reflexivity|]. cbn [fold_left]. destruct t as [[rc l] rr]. unfold tl_, tr_ in H. cbn [fst snd] in H.
  rewrite (H h (or_introl eq_refl)). apply IH. intros x Ix. unfold tl_, tr_. cbn [fst snd]. apply H. right. exact Ix.
Qed.

(** * the two side graphs at the start of _strip_explicit_h, node by node *)
Definition n0 (sn : inode -> nattr) (a : inode) : mnode :=
  MN (a_el (sn a)) (a_aro (sn a)) 0 (a_ch (sn a)) (if N.eqb (a_el (sn a)) EL_H then None else Some []).

Lemma side0_nodes_G tpl : gnodes (side0 iG eG tpl) = map (fun p => (fst p, n0 iG (snd p))) (gnodes tpl).
Proof. unfold side0, init_m, dec_side, standardize_hydrogen, map_nodes; cbn [gnodes]. rewrite !map_map. reflexivity. Qed.
Lemma side0_nodes_H tpl : gnodes (side0 iH eH tpl) = map (fun p => (fst p, n0 iH (snd p))) (gnodes tpl).
Proof. unfold side0, init_m, dec_side, standardize_hydrogen, map_nodes; cbn [gnodes]. rewrite !map_map. reflexivity. Qed.
Lemma side0_ids_G tpl : node_ids (side0 iG eG tpl) = node_ids tpl.
Proof. unfold node_ids. rewrite side0_nodes_G, map_map. reflexivity. Qed.
Lemma side0_ids_H tpl : node_ids (side0 iH eH tpl) = node_ids tpl.
Proof. unfold node_ids. rewrite side0_nodes_H, map_map. reflexivity. Qed.

Lemma mskel_nil (g : molg) : mskel g g [].
Proof.
  constructor.
  - rewrite (filter_ext_all (mkeepn []) (fun _ => true)) by reflexivity.
    replace (filter (fun _ : N * mnode => true) (gnodes g)) with (gnodes g)
      by (induction (gnodes g) as [|x r IH]; simpl; [reflexivity|rewrite <- IH; reflexivity]).
    apply Forall2_self. intros q. apply mrel_refl0.
  - rewrite (filter_ext_all (mkeepe []) (fun _ => true)) by reflexivity.
    induction (gedges g) as [|x r IH]; simpl; [reflexivity|rewrite <- IH; reflexivity].
Qed.

Lemma skel_nil tpl : skel tpl (init_i (standardize_hydrogen tpl)) [].
Proof.
  constructor; [intros h []| |].
  - unfold init_i, standardize_hydrogen, map_nodes; cbn [gnodes]. rewrite map_map. cbn [fst snd].
    rewrite (filter_ext_all (keepn []) (fun _ => true)) by reflexivity.
    replace (filter (fun _ : N * inode => true) (gnodes tpl)) with (gnodes tpl) by (induction (gnodes tpl) as [|x r2 IH]; simpl; [reflexivity|rewrite <- IH; reflexivity]).
    apply Forall2_refl_map. intros [k a]. repeat split.
  - unfold init_i, standardize_hydrogen, map_nodes; cbn [gedges].
    rewrite (filter_ext_all (keepe []) (fun _ => true)) by reflexivity.
    induction (gedges tpl) as [|x r2 IH]; simpl; [reflexivity|rewrite <- IH; reflexivity].
Qed.

Lemma h_nodes_m_H (g : molg) h : NoDup (node_ids g) -> In h (h_nodes_m g) -> is_H_m g h = true.
Proof.
  intros Hnd I. unfold h_nodes_m in I. apply in_map_iff in I. destruct I as ([k a] & <- & I). apply filter_In in I.
  destruct I as [I Ea]. cbn [fst snd] in *. unfold is_H_m, label. rewrite (assoc_nodup_in k (gnodes g) a Hnd I). exact Ea.
Qed.

Section Exact.
  Variable tpl : its.
  Hypothesis Hnd : NoDup (node_ids tpl).
  Hypothesis Hel : forall k a, In (k, a) (gnodes tpl) -> a_el (iH a) = a_el (iG a).
  Let L0 := side0 iG eG tpl.
  Let R0 := side0 iH eH tpl.

  Lemma NL0 : NoDup (node_ids L0). Proof. unfold L0. rewrite side0_ids_G. exact Hnd. Qed.
  Lemma NR0 : NoDup (node_ids R0). Proof. unfold R0. rewrite side0_ids_H. exact Hnd. Qed.

  (** hydrogens of the template, seen in the three graphs *)
  Lemma isH_L0 h : is_H_m L0 h = is_H_i tpl h.
  Proof.
    unfold is_H_m, is_H_i, label, L0. rewrite side0_nodes_G, (assoc_map (n0 iG)). destruct (assoc h (gnodes tpl)); reflexivity.
  Qed.
  Lemma isH_R0 h : is_H_m R0 h = is_H_i tpl h.
  Proof.
    unfold is_H_m, is_H_i, label, R0. rewrite side0_nodes_H, (assoc_map (n0 iH)). destruct (assoc h (gnodes tpl)) as [a|] eqn:E; [|reflexivity].
    pose proof E as E'. apply assoc_in in E'. cbn [option_map n0 m_el]. rewrite (Hel h a E'). reflexivity.
  Qed.
  Lemma has_L0 h : has_node L0 h = has_node tpl h.
  Proof. unfold has_node, label, L0. rewrite side0_nodes_G, (assoc_map (n0 iG)). destruct (assoc h (gnodes tpl)); reflexivity. Qed.
  Lemma has_R0 h : has_node R0 h = has_node tpl h.
  Proof. unfold has_node, label, R0. rewrite side0_nodes_H, (assoc_map (n0 iH)). destruct (assoc h (gnodes tpl)); reflexivity. Qed.
  Lemma h_nodes_isH (g : molg) h : NoDup (node_ids g) -> (In h (h_nodes_m g) <-> is_H_m g h = true).
  Proof.
    intros Hn. split; [apply h_nodes_m_H; exact Hn|]. unfold is_H_m, h_nodes_m. intros H.
    destruct (label g h) as [a|] eqn:El; [|discriminate]. unfold label in El. apply assoc_in in El.
    apply in_map_iff. exists (h, a). split; [reflexivity|]. apply filter_In. split; [exact El|exact H].
  Qed.
  Lemma isH_has h : is_H_i tpl h = true -> has_node tpl h = true.
  Proof. unfold is_H_i, has_node. destruct (label tpl h); [reflexivity|discriminate]. Qed.

  Definition run2 (hs : list N) : triple :=
    fst (fold_left (fun (st : triple * N) h =>
           let '(rc, l, r, pid) := st in
           (strip_i rc h (Some pid), strip_m l h (Some pid), strip_m r h (Some pid), N.succ pid)) (sort_N hs)
           ((init_i (standardize_hydrogen tpl), L0, R0), 1%N)).

  (** the whole run, step by step, without assuming that it succeeds *)
  Lemma strip_steps hs : shared_h L0 R0 = Some hs ->
    inv3 tpl L0 R0 (run2 hs) (rev (sort_N hs)) /\
    step3_rc (run2 hs) = Some (run2 hs) /\ step3_l (run2 hs) = Some (run2 hs) /\ step3_r (run2 hs) = Some (run2 hs).
  Proof.
    intros Eh. set (t2 := run2 hs).
    rewrite shared_h_unfold in Eh. destruct (sh_fold_spec L0 R0 _ hs Eh) as [Hspec Hnodup].
    assert (Hhs : forall h, In h (sort_N hs) -> is_H_i tpl h = true /\ has_node tpl h = true /\ has_node L0 h = true /\ has_node R0 h = true).
    { intros h I. apply (proj1 (in_sort_N_iff h hs)) in I. apply (proj1 (Hspec h)) in I. destruct I as (I & _ & _).
      apply (proj1 (h_nodes_isH L0 h NL0)) in I. rewrite isH_L0 in I. pose proof (isH_has h I) as Hh.
      rewrite has_L0, has_R0. auto. }
    assert (I0 : inv3 tpl L0 R0 (init_i (standardize_hydrogen tpl), L0, R0) []).
    { constructor; unfold tl_, tr_; cbn [fst snd]; [apply skel_nil|apply mskel_nil|apply mskel_nil|exact NL0|exact NR0]. }
    assert (I2 : inv3 tpl L0 R0 t2 (rev (sort_N hs))).
    { pose proof (strip_shared_exact tpl L0 R0 (sort_N hs) NL0 NR0 (nodup_sort_N hs (Hnodup (NoDup_map_filter _ (gnodes L0) NL0))) Hhs
                    (init_i (standardize_hydrogen tpl), L0, R0) 1%N [] (fun h _ C => C) I0) as I2.
      rewrite app_nil_r in I2. exact I2. }
    set (R2 := rev (sort_N hs)) in *.
    (* no remaining hydrogen is removable on both sides *)
    assert (HR2 : forall x, In x R2 -> is_H_i tpl x = true).
    { intros x Ix. unfold R2 in Ix. apply (proj2 (in_rev (sort_N hs) x)) in Ix. exact (proj1 (Hhs x Ix)). }
    assert (Stay : forall h, is_H_i tpl h = true -> ~ In h R2 -> fully_removable (tl_ t2) (tr_ t2) h = Some false).
    { intros h Hh HnR. destruct I2 as [_ S2l S2r _ _].
      rewrite (fully_removable_stable L0 R0 (tl_ t2) (tr_ t2) R2 R2 h NL0 NR0 S2l S2r
                 (fun x Ix => eq_trans (isH_L0 x) (HR2 x Ix)) (fun x Ix => eq_trans (isH_R0 x) (HR2 x Ix)) HnR HnR).
      assert (Nhs : ~ In h hs).
      { intros C. apply HnR. unfold R2. apply (proj1 (in_rev (sort_N hs) h)). apply (proj2 (in_sort_N_iff h hs)). exact C. }
      pose proof (isH_has h Hh) as Hn.
      assert (IL : In h (h_nodes_m L0)) by (apply (proj2 (h_nodes_isH L0 h NL0)); rewrite isH_L0; exact Hh).
      unfold fully_removable. rewrite !removable_on_spec, has_L0, has_R0, Hn.
      destruct (heavy_nbr L0 h) eqn:E1; [|reflexivity]. destruct (heavy_nbr R0 h) eqn:E2; [|reflexivity].
      exfalso. apply Nhs. apply (proj2 (Hspec h)). split; [exact IL|]. split; [rewrite has_R0; exact Hn|].
      unfold fully_removable. rewrite !removable_on_spec, has_L0, has_R0, Hn, E1, E2. reflexivity. }
    (* step 3 on rc *)
    assert (E3 : step3_rc t2 = Some t2).
    { unfold step3_rc. apply step3_rc_noop. intros h I.
      destruct I2 as [S2c _ _ _ _].
      assert (Hc : is_H_i (fst (fst t2)) h = true).
      { unfold h_nodes_i in I. apply in_map_iff in I. destruct I as ([k a] & <- & I). apply filter_In in I. destruct I as [I Ea].
        cbn [fst snd] in *. unfold is_H_i, label.
        assert (Nc : NoDup (map fst (gnodes (fst (fst t2))))).
        { change (map fst (gnodes (fst (fst t2)))) with (node_ids (fst (fst t2))). rewrite (skel_ids tpl _ R2 S2c).
          clear - Hnd. unfold node_ids in Hnd. induction (gnodes tpl) as [|x r2 IH]; simpl; [constructor|].
          inversion Hnd as [|? ? N1 N2]; subst. destruct (keepn R2 x); simpl; [constructor|]; auto.
          intros I. apply N1. apply in_map_iff in I. destruct I as (y & E & I). apply filter_In in I. apply in_map_iff. exists y. tauto. }
        rewrite (assoc_nodup_in k _ a Nc I). exact Ea. }
      apply Stay; [exact (skel_H_transfer tpl _ R2 h Hnd S2c Hc)|].
      intros C. assert (H0 : In h (node_ids (fst (fst t2)))).
      { apply has_node_in. unfold is_H_i in Hc. unfold has_node. destruct (label (fst (fst t2)) h); [reflexivity|discriminate]. }
      rewrite (skel_ids tpl _ R2 S2c) in H0. apply in_map_iff in H0. destruct H0 as ([k a] & E & I'). cbn [fst] in E. subst k.
      apply filter_In in I'. destruct I' as [_ I']. unfold keepn in I'. cbn [fst] in I'. apply negb_true_iff in I'.
      apply mem_spec in C. congruence. }
    assert (E4 : step3_l t2 = Some t2).
    { unfold step3_l. apply step3_l_noop. intros h I. destruct I2 as [_ S2l _ N2l _].
      apply (proj1 (h_nodes_isH _ h N2l)) in I.
      pose proof (mskel_label L0 (tl_ t2) R2 h NL0 S2l) as Lb. unfold is_H_m in I. fold (tl_ t2) in I.
      destruct (label (tl_ t2) h) as [a|]; [|discriminate]. destruct Lb as (a0 & E0 & Ee & HnR).
      apply Stay; [|exact HnR]. rewrite <- isH_L0. unfold is_H_m. rewrite E0, <- Ee. exact I. }
    assert (E5 : step3_r t2 = Some t2).
    { unfold step3_r. apply step3_r_noop. intros h I. destruct I2 as [_ _ S2r _ N2r].
      apply (proj1 (h_nodes_isH _ h N2r)) in I.
      pose proof (mskel_label R0 (tr_ t2) R2 h NR0 S2r) as Lb. unfold is_H_m in I. fold (tr_ t2) in I.
      destruct (label (tr_ t2) h) as [a|]; [|discriminate]. destruct Lb as (a0 & E0 & Ee & HnR).
      apply Stay; [|exact HnR]. rewrite <- isH_R0. unfold is_H_m. rewrite E0, <- Ee. exact I. }
    auto.
  Qed.

  Lemma strip_value hs : shared_h L0 R0 = Some hs ->
    strip_explicit_h (standardize_hydrogen tpl) (dec_side iG eG (standardize_hydrogen tpl)) (dec_side iH eH (standardize_hydrogen tpl)) = Some (run2 hs).
  Proof.
    intros Eh. destruct (strip_steps hs Eh) as (_ & E3 & E4 & E5).
    unfold strip_explicit_h. cbn [fst snd].
    change (shared_h (init_m (dec_side iG eG (standardize_hydrogen tpl))) (init_m (dec_side iH eH (standardize_hydrogen tpl)))) with (shared_h L0 R0).
    rewrite Eh.
    change (strip_shared _ (sort_N hs)) with (run2 hs). rewrite E3, E4. exact E5.
  Qed.

  Theorem strip_exact rc l r :
    strip_explicit_h (standardize_hydrogen tpl) (dec_side iG eG (standardize_hydrogen tpl)) (dec_side iH eH (standardize_hydrogen tpl)) = Some (rc, l, r) ->
    exists hs, shared_h L0 R0 = Some hs /\ inv3 tpl L0 R0 (rc, l, r) (rev (sort_N hs)).
  Proof.
    intros H. destruct (shared_h L0 R0) as [hs|] eqn:Eh.
    - exists hs. split; [reflexivity|]. rewrite (strip_value hs Eh) in H. inversion H as [Ht]. exact (proj1 (strip_steps hs Eh)).
    - exfalso. unfold strip_explicit_h in H. cbn [fst snd] in H. fold (side0 iG eG tpl) in H. fold (side0 iH eH tpl) in H. fold L0 in H. fold R0 in H.
      rewrite Eh in H. discriminate.
  Qed.
End Exact.

(** * the theorem: the rule prepared in the default mode, exactly *)
Theorem synrule_default_exact (tpl rc : its) (l r : molg) :
  nodupb (node_ids tpl) = true -> (forall k a, In (k, a) (gnodes tpl) -> a_el (iH a) = a_el (iG a)) ->
  synrule tpl true = Some (rc, l, r) ->
  exists R : list N,
    (forall h, In h R <-> is_H_i tpl h = true /\ heavy_nbr (side0 iG eG tpl) h = true /\ heavy_nbr (side0 iH eH tpl) h = true) /\
    (Forall2 same_core (gnodes rc) (filter (keepn R) (gnodes tpl)) /\ gedges rc = filter (keepe R) (gedges tpl)) /\
    (Forall2 (mrel (sum_cnt (gedges (side0 iG eG tpl)) R)) (gnodes l) (filter (mkeepn R) (gnodes (side0 iG eG tpl))) /\
     gedges l = filter (mkeepe R) (gedges (side0 iG eG tpl))) /\
    (Forall2 (mrel (sum_cnt (gedges (side0 iH eH tpl)) R)) (gnodes r) (filter (mkeepn R) (gnodes (side0 iH eH tpl))) /\
     gedges r = filter (mkeepe R) (gedges (side0 iH eH tpl))) /\
    (forall k a, In (k, a) (gnodes rc) ->
       exists la ra, label l k = Some la /\ label r k = Some ra /\ a_hc (iG a) = m_hc la /\ a_hc (iH a) = m_hc ra).
Proof.
  intros Hnd Hel H. apply nodupb_NoDup in Hnd. unfold synrule in H. cbn [negb] in H. unfold its_decompose in H.
  destruct (strip_explicit_h _ _ _) as [[[rc1 l1] r1]|] eqn:Es; [|discriminate].
  destruct (refresh_types rc1 l1 r1) as [rc'|] eqn:Er; [|discriminate]. inversion H; subst rc' l1 r1. clear H.
  destruct (strip_exact tpl Hnd Hel rc1 l r Es) as (hs & Eh & [I1 I2 I3 _ _]). unfold tl_, tr_ in *. cbn [fst snd] in *.
  exists (rev (sort_N hs)). split; [|split; [|split; [|split]]].
  - intros h. rewrite <- in_rev, in_sort_N_iff. rewrite shared_h_unfold in Eh.
    rewrite (proj1 (sh_fold_spec _ _ _ hs Eh) h).
    rewrite (h_nodes_isH (side0 iG eG tpl) h (NL0 tpl Hnd)), (isH_L0 tpl h).
    unfold fully_removable. rewrite !removable_on_spec, (has_L0 tpl), (has_R0 tpl). split.
    + intros (A & B & C). split; [exact A|]. rewrite B in C. destruct (has_node tpl h); [|discriminate].
      destruct (heavy_nbr (side0 iG eG tpl) h); [|discriminate]. inversion C. auto.
    + intros (A & B & C). rewrite (isH_has tpl h A), B, C. auto.
  - destruct (refresh_types_core _ _ _ _ Er) as [F1 F2]. destruct I1 as [_ K2 K3]. split.
    + eapply Forall2_trans'; [exact same_core_trans|exact F1|exact K2].
    + rewrite F2. exact K3.
  - destruct I2 as [A B]. split; [exact A|]. rewrite B. reflexivity.
  - destruct I3 as [A B]. split; [exact A|]. rewrite B. reflexivity.
  - exact (refresh_types_counts rc1 l r rc Er).
Qed.
