(** C01 — proofs about model/C01_String.v, part 1: MolToGraph.transform and GraphToMol.graph_to_mol *)
From Coq Require Import List NArith ZArith Bool Lia Arith.
From SK Require Import lib.LGraph lib.C01_GraphLemmas model.C01_Model model.C02_Model model.C01_String proof.C01_Proof.
Import ListNotations.
Local Open Scope Z_scope.

(** * upsert *)
Lemma upsert_fresh {V} k (v : V) l : ~ In k (map fst l) -> upsert k v l = l ++ [(k, v)].
Proof.
  induction l as [|[k' v'] r IH]; simpl; intros Hn; [reflexivity|].
  destruct (N.eqb_spec k k') as [->|Hne]; [exfalso; apply Hn; left; reflexivity|].
  rewrite IH; [reflexivity|]. intros F. apply Hn. right. exact F.
Qed.

(** * the node loop *)
Definition nodes_of (l : list ratom) : list (N * gnode) :=
  flat_map (fun a => if is_mapped a then [(ra_map a, atom_node a)] else []) l.
Definition ix_of (l : list (nat * ratom)) : list (nat * N) :=
  flat_map (fun ia : nat * ratom => if is_mapped (snd ia) then [(fst ia, ra_map (snd ia))] else []) l.

Lemma atom_id_mapped idx a : is_mapped a = true -> atom_id true idx a = ra_map a.
Proof. unfold atom_id, is_mapped. intros ->. reflexivity. Qed.

Lemma m2g_atom_step (s : nat) (a : ratom) ns ix :
  (is_mapped a = true -> ~ In (ra_map a) (map fst ns)) ->
  m2g_atom true true (ns, ix) (s, a) =
  if is_mapped a then (ns ++ [(ra_map a, atom_node a)], ix ++ [(s, ra_map a)]) else (ns, ix).
Proof.
  intros Hf. unfold m2g_atom. cbn [andb fst snd]. unfold is_mapped in *.
  destruct (N.eqb (ra_map a) 0) eqn:E; cbn [negb]; [reflexivity|].
  unfold atom_id. rewrite E. cbn [andb negb]. rewrite upsert_fresh by (apply Hf; reflexivity). reflexivity.
Qed.

Lemma m2g_atoms_closed (s : nat) (l : list ratom) (ns : list (N * gnode)) (ix : list (nat * N)) :
  NoDup (map fst (ns ++ nodes_of l)) ->
  fold_left (m2g_atom true true) (combine (seq s (length l)) l) (ns, ix) =
  (ns ++ nodes_of l, ix ++ ix_of (combine (seq s (length l)) l)).
Proof.
  revert s ns ix. induction l as [|a l IH]; intros s ns ix Hnd.
  - simpl. rewrite !app_nil_r. reflexivity.
  - cbn [length seq combine fold_left]. rewrite m2g_atom_step.
    + unfold nodes_of, ix_of in *. cbn [flat_map fst snd] in *. destruct (is_mapped a).
      * rewrite IH; [rewrite <- !app_assoc; reflexivity|]. rewrite <- app_assoc. exact Hnd.
      * rewrite IH; [reflexivity|exact Hnd].
    + intros M F. unfold nodes_of in Hnd. cbn [flat_map] in Hnd. rewrite M in Hnd.
      rewrite map_app in Hnd. cbn [app map fst] in Hnd. apply NoDup_remove_2 in Hnd. apply Hnd.
      rewrite in_app_iff. left. exact F.
Qed.

(** * the bond loop *)
Definition bond_edge (ix : list (nat * N)) (b : nat * nat * Z) : list (N * N * Z) :=
  match lookup_idx (fst (fst b)) ix, lookup_idx (snd (fst b)) ix with
  | Some u, Some v => [(u, v, snd b)]
  | _, _ => []
  end.

Lemma simple_app_inv {B} (l1 l2 : list (N * N * B)) : simple (l1 ++ l2) ->
  simple l1 /\ simple l2 /\ forall a b x, In (a, b, x) l2 -> find_edge a b l1 = None.
Proof.
  induction l1 as [|[[a b] x] r IH]; simpl; intros Hs.
  - split; [constructor|]. split; [exact Hs|]. reflexivity.
  - inversion Hs as [|? ? ? ? Hn Hs']; subst. destruct (IH Hs') as (S1 & S2 & Hf).
    rewrite find_edge_app in Hn. destruct (find_edge a b r) eqn:Fr; [discriminate|].
    split; [constructor; assumption|]. split; [exact S2|].
    intros u v y Iy. rewrite (Hf u v y Iy).
    destruct ((N.eqb a u && N.eqb b v) || (N.eqb a v && N.eqb b u)) eqn:E; [|reflexivity].
    exfalso. apply match_pair_spec in E. apply (fun I => @find_edge_not_none _ a b l2 y I Hn).
    destruct E as [[-> ->]|[-> ->]]; auto.
Qed.

Lemma m2g_bonds_closed ix (bs : list (nat * nat * Z)) (acc : list (N * N * Z)) :
  simple (acc ++ flat_map (bond_edge ix) bs) ->
  fold_left (m2g_bond ix) bs acc = acc ++ flat_map (bond_edge ix) bs.
Proof.
  revert acc. induction bs as [|[[i j] o] bs IH]; intros acc Hs; simpl.
  - rewrite app_nil_r. reflexivity.
  - simpl in Hs. unfold bond_edge at 1 in Hs. unfold bond_edge at 1. cbn [fst snd] in *.
    destruct (lookup_idx i ix) as [u|]; [|apply IH; exact Hs].
    destruct (lookup_idx j ix) as [v|]; [|apply IH; exact Hs].
    unfold upsert_edge.
    assert (find_edge u v acc = None) as ->.
    { destruct (simple_app_inv _ _ Hs) as (_ & _ & Hf). apply (Hf u v o). left. reflexivity. }
    rewrite IH.
    + rewrite <- app_assoc. reflexivity.
    + rewrite <- app_assoc. exact Hs.
Qed.

(** * C01_mol_to_graph: closed form of MolToGraph.transform(drop_non_aam=True, use_index_as_atom_map=True) *)
Theorem mol_to_graph_closed (m : rmol) :
  NoDup (map fst (mapped_nodes m)) -> simple (mapped_bonds m) ->
  mol_to_graph true true m = Some (LG (mapped_nodes m) (mapped_bonds m)).
Proof.
  intros Hn Hs. unfold mol_to_graph. cbn [andb negb]. unfold enumerate.
  rewrite (m2g_atoms_closed 0 (rm_atoms m) [] []) by exact Hn. cbn [fst snd app].
  f_equal. f_equal. apply (m2g_bonds_closed _ _ []). exact Hs.
Qed.

(** the index table: atom i is in it iff it is mapped, with its map number *)
Lemma lookup_ix_of s (l : list ratom) i :
  lookup_idx i (ix_of (combine (seq s (length l)) l)) =
  if (i <? s)%nat then None
  else match nth_error l (i - s) with
       | Some a => if is_mapped a then Some (ra_map a) else None
       | None => None
       end.
Proof.
  revert s. induction l as [|a l IH]; intros s.
  - cbn [length seq combine ix_of flat_map lookup_idx]. destruct (i <? s)%nat; [reflexivity|]. destruct (i - s)%nat; reflexivity.
  - cbn [length seq combine]. unfold ix_of. cbn [flat_map fst snd]. fold (ix_of (combine (seq (S s) (length l)) l)).
    assert (lookup_idx i (ix_of (combine (seq (S s) (length l)) l)) =
            if (i <=? s)%nat then None else match nth_error l (i - S s) with
                                          | Some a => if is_mapped a then Some (ra_map a) else None
                                          | None => None end) as IH'.
    { rewrite IH. destruct (Nat.ltb_spec i (S s)), (Nat.leb_spec i s); try lia; reflexivity. }
    destruct (Nat.ltb_spec i s) as [Hlt|Hge].
    + destruct (is_mapped a); cbn [app lookup_idx].
      * destruct (Nat.eqb_spec i s); [lia|]. rewrite IH'. destruct (Nat.leb_spec i s); [reflexivity|lia].
      * rewrite IH'. destruct (Nat.leb_spec i s); [reflexivity|lia].
    + destruct (Nat.eqb_spec i s) as [->|Hne].
      * rewrite Nat.sub_diag. cbn [nth_error]. destruct (is_mapped a); cbn [app lookup_idx].
        -- rewrite Nat.eqb_refl. reflexivity.
        -- rewrite IH'. rewrite Nat.leb_refl. reflexivity.
      * replace (i - s)%nat with (S (i - S s)) by lia. cbn [nth_error].
        destruct (is_mapped a); cbn [app lookup_idx].
        -- destruct (Nat.eqb_spec i s); [lia|]. rewrite IH'. destruct (Nat.leb_spec i s); [lia|reflexivity].
        -- rewrite IH'. destruct (Nat.leb_spec i s); [lia|reflexivity].
Qed.

Theorem mapped_ix_spec (m : rmol) i :
  lookup_idx i (mapped_ix m) =
  match nth_error (rm_atoms m) i with
  | Some a => if is_mapped a then Some (ra_map a) else None
  | None => None
  end.
Proof.
  unfold mapped_ix, enumerate. rewrite (lookup_ix_of 0). simpl. rewrite Nat.sub_0_r. reflexivity.
Qed.

(** every node of the result carries atom_map = its id, the atom's labels, and comes from a mapped atom *)
Lemma mapped_nodes_in (m : rmol) n a : In (n, a) (mapped_nodes m) <->
  exists x, In x (rm_atoms m) /\ is_mapped x = true /\ n = ra_map x /\ a = atom_node x.
Proof.
  unfold mapped_nodes. rewrite in_flat_map. split.
  - intros (x & Ix & H). destruct (is_mapped x) eqn:M; [|destruct H]. destruct H as [E|[]]. inversion E; subst. eauto.
  - intros (x & Ix & M & -> & ->). exists x. split; [exact Ix|]. rewrite M. left. reflexivity.
Qed.

Theorem mol_to_graph_amap_id (m : rmol) g :
  NoDup (map fst (mapped_nodes m)) -> simple (mapped_bonds m) -> mol_to_graph true true m = Some g -> amap_id g.
Proof.
  intros Hn Hs E. rewrite (mol_to_graph_closed m Hn Hs) in E. inversion E; subst g. clear E.
  intros n a L. apply assoc_in in L. simpl in L. apply mapped_nodes_in in L.
  destruct L as (x & _ & _ & -> & ->). reflexivity.
Qed.

(** * GraphToMol.graph_to_mol *)
Lemma index_of_some n l i : index_of n l = Some i -> nth_error l i = Some n.
Proof.
  revert i. induction l as [|k r IH]; simpl; intros i; [discriminate|].
  destruct (N.eqb_spec n k) as [->|Hne].
  - intros [= <-]. reflexivity.
  - destruct (index_of n r) as [j|]; [|discriminate]. simpl. intros [= <-]. simpl. apply IH. reflexivity.
Qed.

Lemma index_of_in n l : In n l -> exists i, index_of n l = Some i.
Proof.
  induction l as [|k r IH]; simpl; [intros []|]. intros H.
  destruct (N.eqb_spec n k) as [->|Hne]; [eauto|].
  destruct H as [->|H]; [congruence|]. destruct (IH H) as (i & ->). simpl. eauto.
Qed.

Lemma w_bonds_spec ids es bs : w_bonds ids es = Some bs ->
  length bs = length es /\
  forall k u v o, nth_error es k = Some (u, v, o) ->
    exists i j, nth_error bs k = Some (i, j, bond_code o) /\ nth_error ids i = Some u /\ nth_error ids j = Some v.
Proof.
  revert bs. induction es as [|[[u v] o] r IH]; simpl; intros bs.
  - intros [= <-]. split; [reflexivity|]. intros [|k] ? ? ? F; discriminate.
  - destruct (index_of u ids) as [i|] eqn:Iu; [|discriminate].
    destruct (index_of v ids) as [j|] eqn:Iv; [|discriminate].
    destruct (w_bonds ids r) as [bs'|]; [|discriminate]. intros [= <-].
    destruct (IH bs' eq_refl) as (Hl & Hk). split; [simpl; rewrite Hl; reflexivity|].
    intros [|k] u' v' o' F; simpl in *.
    + inversion F; subst. exists i, j. repeat split; auto using index_of_some.
    + apply Hk. exact F.
Qed.

Lemma w_bonds_total ids es : (forall u v o, In (u, v, o) es -> In u ids /\ In v ids) -> w_bonds ids es <> None.
Proof.
  induction es as [|[[u v] o] r IH]; simpl; intros H; [discriminate|].
  destruct (H u v o (or_introl eq_refl)) as [Hu Hv].
  destruct (index_of_in _ _ Hu) as (i & ->), (index_of_in _ _ Hv) as (j & ->).
  destruct (w_bonds ids r) eqn:E; [discriminate|]. exfalso. apply IH; [|reflexivity]. intros; apply (H u0 v0 o0); right; assumption.
Qed.

(** C01_graph_to_wmol: one RWMol atom per node, in node order, with (element, charge, atom map, hcount as the explicit
    H count); one bond per edge, in edge order, joining the atoms of its two nodes, typed by [bond_code]; never fails on a
    well-formed graph *)
Theorem graph_to_wmol_spec (g : mgraph) :
  (wf g -> graph_to_wmol g <> None) /\
  forall w, graph_to_wmol g = Some w ->
    fst w = map (fun p => watom_of (snd p)) (gnodes g) /\
    length (snd w) = length (gedges g) /\
    forall k u v o, nth_error (gedges g) k = Some (u, v, o) ->
      exists i j, nth_error (snd w) k = Some (i, j, bond_code o) /\
                  nth_error (node_ids g) i = Some u /\ nth_error (node_ids g) j = Some v.
Proof.
  unfold graph_to_wmol. split.
  - intros W. destruct (w_bonds (node_ids g) (gedges g)) eqn:E; [discriminate|]. exfalso.
    apply (w_bonds_total (node_ids g) (gedges g)); [|exact E].
    intros u v o I. destruct (wf_edge_nodes W I) as (Hu & Hv & _). auto.
  - intros w. destruct (w_bonds (node_ids g) (gedges g)) as [bs|] eqn:E; [|discriminate]. intros [= <-].
    cbn [fst snd]. split; [reflexivity|]. apply w_bonds_spec. exact E.
Qed.

Theorem mol_to_graph_full (m : rmol) :
  NoDup (map fst (mapped_nodes m)) -> simple (mapped_bonds m) ->
  mol_to_graph true true m = Some (LG (mapped_nodes m) (mapped_bonds m)) /\
  amap_id (LG (mapped_nodes m) (mapped_bonds m)) /\
  (forall n a, In (n, a) (mapped_nodes m) <->
     exists x, In x (rm_atoms m) /\ is_mapped x = true /\ n = ra_map x /\ a = atom_node x) /\
  (forall i, lookup_idx i (mapped_ix m) =
     match nth_error (rm_atoms m) i with Some a => if is_mapped a then Some (ra_map a) else None | None => None end).
Proof.
  intros Hn Hs. split; [exact (mol_to_graph_closed m Hn Hs)|]. split.
  - exact (mol_to_graph_amap_id m _ Hn Hs (mol_to_graph_closed m Hn Hs)).
  - split; [exact (mapped_nodes_in m)|exact (mapped_ix_spec m)].
Qed.

(** rsmi_to_its with a caller's node_attrs that names all six attributes (any order: the selection is a set) is
    rsmi_to_its with the defaults; with fewer names the unselected attributes read as the core defaults in typesGH *)
Theorem rsmi_to_its_sel_spec (s : asel) (mr mp : rmol) :
  rsmi_to_its_sel all_sel mr mp = rsmi_to_its_m mr mp /\
  forall g h J, rsmi_to_graph_m mr mp = Some (g, h) -> rsmi_to_its_sel s mr mp = Some J ->
    forall n b, label J n = Some b ->
      i_G b = side_tuple (fill_graph s g) n /\ i_H b = side_tuple (fill_graph s h) n /\
      (forall a, label g n = Some a -> a_el (i_G b) = (if p_el s then g_el a else EL_STAR) /\
                                       a_hc (i_G b) = (if p_hc s then g_hc a else 0) /\
                                       a_ch (i_G b) = (if p_ch s then g_ch a else 0) /\
                                       a_arom (i_G b) = (if p_ar s then g_arom a else false)).
Proof.
  split.
  - unfold rsmi_to_its_sel, rsmi_to_its_m. destruct (rsmi_to_graph_m mr mp) as [[g h]|]; [|reflexivity].
    assert (forall x : mgraph, fill_graph all_sel x = x) as E.
    { intros [ns es]. unfold fill_graph. cbn [gnodes gedges]. f_equal. rewrite <- (map_id ns) at 2. apply map_ext.
      intros [k [e ar hc ch nb am]]. reflexivity. }
    rewrite !E. reflexivity.
  - intros g h J Eg EJ n b L. unfold rsmi_to_its_sel in EJ. rewrite Eg in EJ. inversion EJ; subst J. clear EJ.
    destruct (its_label_types _ _ n b L) as (E1 & E2 & _). split; [exact E1|]. split; [exact E2|].
    intros a La. rewrite E1. unfold side_tuple, fill_graph, label. cbn [gnodes].
    rewrite (assoc_map_val (fun _ (x : gnode) => fill_sel s x)). fold (label g n). rewrite La. cbn. auto.
Qed.
