(** C01 — closed form of MolToGraph.transform for EVERY flag combination (theorems 11 and 47 are the two instances in which
    the ids are distinct by themselves) *)
From Coq Require Import List NArith ZArith Bool Lia Arith.
From SK Require Import lib.LGraph lib.C01_GraphLemmas model.C01_Model model.C02_Model model.C01_String model.C01_M2GIdx
  proof.C01_Proof proof.C01_StringProof.
Import ListNotations.

Definition gnode_of (drop use : bool) (ia : nat * ratom) : list (N * gnode) :=
  if kept_atom drop (snd ia) then [(atom_id use (fst ia) (snd ia), atom_node (snd ia))] else [].
Definition gix_of (drop use : bool) (ia : nat * ratom) : list (nat * N) :=
  if kept_atom drop (snd ia) then [(fst ia, atom_id use (fst ia) (snd ia))] else [].

Lemma m2g_atoms_general drop use (l : list (nat * ratom)) : forall ns ix,
  NoDup (map fst (ns ++ flat_map (gnode_of drop use) l)) ->
  fold_left (m2g_atom drop use) l (ns, ix) = (ns ++ flat_map (gnode_of drop use) l, ix ++ flat_map (gix_of drop use) l).
Proof.
  induction l as [|[i a] l IH]; intros ns ix Hnd.
  - cbn. rewrite !app_nil_r. reflexivity.
  - cbn [fold_left flat_map]. unfold m2g_atom at 2, gnode_of at 1, gix_of at 1, kept_atom. cbn [fst snd].
    unfold gnode_of at 1, kept_atom in Hnd. cbn [flat_map fst snd] in Hnd.
    destruct (drop && N.eqb (ra_map a) 0); cbn [negb app] in *.
    + apply IH. exact Hnd.
    + rewrite upsert_fresh.
      * rewrite IH; [rewrite <- !app_assoc; reflexivity|]. rewrite <- app_assoc. exact Hnd.
      * intros F. rewrite map_app in Hnd. cbn [app map fst] in Hnd. apply NoDup_remove_2 in Hnd. apply Hnd.
        rewrite in_app_iff. left. exact F.
Qed.

(** C01_mol_to_graph_general *)
Theorem mol_to_graph_general drop use (m : rmol) : drop && negb use = false ->
  NoDup (map fst (gen_nodes drop use m)) -> simple (gen_bonds drop use m) ->
  mol_to_graph drop use m = Some (LG (gen_nodes drop use m) (gen_bonds drop use m)).
Proof.
  intros Ef Hn Hs. unfold mol_to_graph. rewrite Ef.
  rewrite (m2g_atoms_general drop use (enumerate (rm_atoms m)) [] []) by exact Hn. cbn [fst snd app].
  f_equal. f_equal. apply (m2g_bonds_closed _ _ []). exact Hs.
Qed.

(** the two instances: flags of rsmi_to_graph / default flags *)
Lemma gen_nodes_tt m : gen_nodes true true m = mapped_nodes m.
Proof.
  unfold gen_nodes, mapped_nodes, enumerate. generalize 0%nat. induction (rm_atoms m) as [|a l IH]; intros s; [reflexivity|].
  cbn [length seq combine flat_map fst snd]. rewrite IH. unfold kept_atom, is_mapped, atom_id. cbn [andb].
  destruct (N.eqb (ra_map a) 0); reflexivity.
Qed.

Example C01_mol_to_graph_general_nonvacuous :
  let m := RM [RA 70%N false 3%Z 0%Z 5%N [82%N]; RA 82%N false 1%Z 0%Z 0%N [70%N]] [(0%nat, 1%nat, 2%Z)] in
  NoDup (map fst (gen_nodes false true m)) /\ simple (gen_bonds false true m) /\
  mol_to_graph false true m = Some (LG (gen_nodes false true m) (gen_bonds false true m)) /\
  map fst (gen_nodes false true m) = [5; 2]%N /\ gen_bonds false true m = [(5%N, 2%N, 2%Z)] /\
  gen_nodes true true m = mapped_nodes m.
Proof.
  cbv zeta. split; [cbn; repeat constructor; cbn; intuition discriminate|]. split; [repeat constructor|].
  split; [reflexivity|]. split; [reflexivity|]. split; [reflexivity|apply gen_nodes_tt].
Qed.
