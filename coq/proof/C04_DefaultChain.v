(** C04 — the default (explicit-hydrogen) mode through the whole reactor: the stripped pattern the matcher sees is the
    reactant side of the prepared rule (elements, charges, hydrogen counts, bonds), hence the identity passes the matcher's
    predicates; then engine (C06), pruning (C11), gluing and _explicit_h as in the implicit mode. *)
From Coq Require Import List NArith ZArith Bool Arith Lia Permutation SetoidList.
From SK Require Import lib.Tok lib.LGraph lib.Mono model.C06_Model lib.C06_Spec proof.C06_All model.C11_Model proof.C11_Aut proof.C11_Dedup proof.C11_Main.
From SK Require Import model.C03_Model model.C04_Model model.C04_Reactor proof.C03_Proof proof.C03_Glue proof.C03_Backward proof.C03_Spec
                       proof.C03_Skeleton proof.C03_StripCounts proof.C03_StripExact proof.C03_StripCor
                       proof.C04_Glue proof.C04_Template proof.C04_Any proof.C04_Fold proof.C04_Default proof.C04_DefaultProof
                       proof.C04_Engine proof.C04_Prune proof.C04_Object proof.C04_Chain proof.C04_Explicit proof.C04_DefaultEnd.
Import ListNotations.
Local Open Scope Z_scope.

(** * the pattern of a rule: [left_of rc l] = every atom of [l] is an atom of [rc] with the element, charge and hydrogen
    count of its reactant tuple; every bond of [l] is a bond of [rc] with that (positive) reactant order; same atoms *)
Record left_of (rc : its) (l : molg) : Prop := {
  lo_ids : node_ids l = node_ids rc;
  lo_nodes : forall k la, In (k, la) (gnodes l) ->
               exists a, label rc k = Some a /\ m_el la = a_el (iG a) /\ m_ch la = a_ch (iG a) /\ m_hc la = a_hc (iG a);
  lo_edges : forall u v o, In (u, v, o) (gedges l) -> exists x, In (u, v, x) (gedges rc) /\ eG x = o /\ 0 < o }.

(** a match of the rule is a match of its pattern *)
Lemma left_match (host : hostg) (rc : its) (l : molg) (m : C03_Model.mapping) :
  left_of rc l -> match_rcb host rc m = true -> match_okb host l m = true.
Proof.
  intros [Li Ln Le] H. unfold match_rcb in H. unfold match_okb.
  apply andb_prop in H. destruct H as [H H5]. apply andb_prop in H. destruct H as [H H4].
  apply andb_prop in H. destruct H as [H H3]. apply andb_prop in H. destruct H as [H1 H2].
  rewrite H1, H2. cbn [andb].
  assert (El : length (gnodes l) = length (gnodes rc)).
  { transitivity (length (node_ids l)); [unfold node_ids; rewrite map_length; reflexivity|]. rewrite Li. unfold node_ids. apply map_length. }
  rewrite El, H3. cbn [andb]. rewrite forallb_forall in H4, H5.
  apply andb_true_intro; split; apply forallb_forall.
  - intros [k la] I. destruct (Ln k la I) as (a & Ea & E1 & E2 & E3). specialize (H4 (k, a) (assoc_in k (gnodes rc) Ea)).
    unfold rc_node_okb in H4. unfold node_okb. cbn [fst snd] in *. destruct (mget m k) as [h|]; [|discriminate].
    destruct (label host h) as [x|]; [|discriminate]. rewrite E1, E2, E3. exact H4.
  - intros [[u v] o] I. destruct (Le u v o I) as (x & Ix & Eo & Hpos). specialize (H5 (u, v, x) Ix).
    unfold rc_edge_okb in H5. unfold edge_okb. destruct (mget m u) as [hu|]; [|exact H5]. destruct (mget m v) as [hv|]; [|exact H5].
    rewrite Eo in H5. apply Z.ltb_lt in Hpos. rewrite Hpos in H5. exact H5.
Qed.

(** * the default-mode rule preparation returns the rule together with its pattern *)
Lemma side0_edges_G tpl : gedges (side0 iG eG tpl)
  = flat_map (fun e : N * N * iedge => let '(u, v, x) := e in if 0 <? eG x then [(u, v, eG x)] else []) (gedges tpl).
Proof. reflexivity. Qed.

Theorem default_left_of (tpl rc : its) (l r : molg) :
  nodupb (node_ids tpl) = true -> (forall k a, In (k, a) (gnodes tpl) -> a_el (iH a) = a_el (iG a)) ->
  synrule tpl true = Some (rc, l, r) -> left_of rc l.
Proof.
  intros Hnd0 Hel H. pose proof (nodupb_NoDup _ Hnd0) as Hnd.
  destruct (synrule_default_pointwise tpl rc l r Hnd0 Hel H) as (R0 & _ & _ & _ & Eidl & _ & Nrc & _).
  destruct (synrule_default_exact tpl rc l r Hnd0 Hel H) as (R & _ & (KK & Erc) & (LL & El) & _ & HC).
  assert (Nl : NoDup (node_ids l)) by (rewrite Eidl; exact Nrc).
  constructor.
  - exact Eidl.
  - intros k la I.
    destruct (Forall2_in_l _ _ _ _ LL I) as ([k0 sa] & Iq & (F1 & F2 & _ & F4 & _)). cbn [fst snd] in *. subst k0.
    apply filter_In in Iq. destruct Iq as [Iq _]. rewrite side0_nodes_G in Iq. apply in_map_iff in Iq. destruct Iq as ([k1 a0] & E & I0).
    cbn [fst snd] in E. inversion E; subst k1 sa. clear E.
    assert (Ik : In k (node_ids rc)) by (rewrite <- Eidl; unfold node_ids; change k with (fst (k, la)); apply in_map; exact I).
    destruct (in_ids_label rc k Ik) as [a Ea]. exists a. split; [exact Ea|].
    pose proof (assoc_in k (gnodes rc) Ea) as Ia.
    destruct (Forall2_in_l _ _ _ _ KK Ia) as ([k2 a0'] & Iq' & (G1 & G2 & _)). cbn [fst snd] in *. subst k2.
    apply filter_In in Iq'. destruct Iq' as [Iq' _].
    assert (a0' = a0).
    { pose proof (label_in tpl k a0 Hnd I0) as L1. pose proof (label_in tpl k a0' Hnd Iq') as L2. congruence. }
    subst a0'.
    destruct (HC k a Ia) as (la' & ra & Ll & _ & Hh & _).
    assert (la' = la) by (pose proof (label_in l k la Nl I) as L1; congruence). subst la'.
    unfold n0 in F2, F4. cbn [m_el m_ch] in F2, F4. unfold set_hc in G2. inversion G2 as [[Q1 Q2 Q3 Q4]].
    split; [congruence|]. split; [congruence|]. symmetry. exact Hh.
  - intros u v o I. rewrite El, side0_edges_G in I. apply filter_In in I. destruct I as [I K].
    apply in_flat_map in I. destruct I as ([[u' v'] x] & Ix & I'). destruct (0 <? eG x) eqn:Ep; [|destruct I'].
    destruct I' as [I'|[]]. inversion I'; subst u' v' o. exists x. split; [|split; [reflexivity|apply Z.ltb_lt; exact Ep]].
    rewrite Erc. apply filter_In. split; [exact Ix|]. unfold keepe, mkeepe in *. cbn [fst snd] in *. exact K.
Qed.

(** * engine + pruning + gluing for ANY rule that describes a pair, with its pattern *)
Section ChainAny.
  Variable enum : list N -> list N -> list C06_Model.mapping.
  Variables (A B : hostg) (rc : its) (l r : molg) (o : ropts).
  Hypothesis PW : pair_wf A B.
  Hypothesis D : describes A B rc.
  Hypothesis LO : left_of rc l.
  Hypothesis Hf : has_XH l = false.
  Hypothesis Hstrat : o_strategy o = SMember 0%N.
  Hypothesis Hpref : o_pref o = false.
  Hypothesis Hnn : forallb (fun p => 0 <=? m_hc (snd p)) (gnodes l) = true.
  Hypothesis Hvf2 : vf2_contract enum (tr_host A) (tr_pat l) (node_ids (tr_host A)) (node_ids (tr_pat l)).
  Hypothesis Hthr : (lenN (enum (node_ids (tr_host A)) (node_ids (tr_pat l))) <= dflt DEFAULT_THRESHOLD (o_thr o))%N.

  Let Hwr := d_wf _ _ _ D.
  Let Hnd : NoDup (node_ids rc) := wf_rc_nodup rc Hwr.
  Let raw := C06_Model.find enum (Cfg 0 0 (dflt DEFAULT_THRESHOLD (o_thr o)) true false) (tr_host A) (tr_pat l).

  Lemma pat_is_l : pattern_of l = l.
  Proof. unfold pattern_of. rewrite Hf. reflexivity. Qed.

  Lemma any_identity_match : match_okb A l (id_map (node_ids l)) = true.
  Proof. rewrite (lo_ids _ _ LO). exact (left_match A rc l _ LO (fits_match_rc A B rc (d_fits _ _ _ D))). Qed.

  Theorem any_mappings :
    exists ms y T, compute_mappings (api_engine enum) o A (rc, l, r) = Some ms /\ In y ms /\
                   glue A rc y = Some T /\ regen_exact T A B = true.
  Proof.
    assert (Nl : NoDup (node_ids l)) by (rewrite (lo_ids _ _ LO); exact Hnd).
    destruct (all_exact enum (dflt DEFAULT_THRESHOLD (o_thr o)) true (tr_host A) (tr_pat l) Hvf2 Hthr) as (Hsound & _ & _).
    destruct (accepted_match_among_raw enum (dflt DEFAULT_THRESHOLD (o_thr o)) true A l (id_map (node_ids l)) Nl) as (m0 & I0 & P0).
    { intros n a I. rewrite forallb_forall in Hnn. specialize (Hnn _ I). simpl in Hnn. apply Z.leb_le. exact Hnn. }
    { exact any_identity_match. } { exact Hvf2. } { exact Hthr. }
    fold raw in I0, Hsound.
    assert (Hraw : forall m, In m raw -> NoDup (map fst m) /\ NoDup (map snd m) /\ forall p h, In (p, h) m -> In p (node_ids rc)).
    { intros m Im. destruct (Hsound m Im) as (K1 & K2 & K3 & _). split; [exact K1|]. split; [exact K3|].
      intros p h Iph. rewrite <- (lo_ids _ _ LO), <- tr_pat_ids. apply K2. change p with (fst (p, h)). apply in_map. exact Iph. }
    exists (C11_Model.prune (fun m : C03_Model.mapping => m) (rule_graph rc) raw).
    assert (SG : simple_graph (rule_graph rc)).
    { unfold rule_graph. split; [rewrite tr_rule_ids; exact Hnd|]. intros a b x I. unfold tr_rule in I; simpl in I. apply in_map_iff in I.
      destruct I as ([[u v] z] & E & I). inversion E; subst. exact (simple_edges_ne (gedges rc) a b z (wf_rc_simple rc Hwr) I). }
    destruct (prune_complete_fun C03_Model.mapping (fun m => m) (rule_graph rc) raw SG) with (x := m0) as (y & Iy & s & Hs & Hy).
    { intros x p h Ix Ip. unfold rule_graph. rewrite tr_rule_ids. exact (proj2 (proj2 (Hraw x Ix)) p h Ip). }
    { exact I0. }
    assert (Iyr : In y raw) by exact (subseq_in _ _ y (prune_subseq C03_Model.mapping (fun m => m) (rule_graph rc) raw) Iy).
    destruct (Hraw y Iyr) as (Yk & Yv & Yd).
    assert (RA : rule_aut rc s (inv_on (node_ids rc) s)).
    { apply (aut_is_rule_aut (cn_of rc) (ce_of rc) rc s (canon_faithful rc) Hwr); [|exact Hs].
      intros u v x I. destruct (d_edges _ _ _ D u v x I) as (Iu & Iv & _). auto. }
    rewrite (lo_ids _ _ LO) in P0.
    assert (M0 : forall p h, In (p, h) m0 <-> p = h /\ In p (node_ids rc)).
    { intros p h. split.
      - intros I. apply (Permutation_in _ (Permutation_sym P0)) in I. unfold id_map in I. apply in_map_iff in I.
        destruct I as (n & E & In_). inversion E; subst. auto.
      - intros [-> I]. apply (Permutation_in _ P0). unfold id_map. apply in_map_iff. exists h. auto. }
    assert (Ys : forall p h, In (p, h) y <-> In (p, h) (aut_map rc s)).
    { intros p h. unfold aut_map. rewrite in_map_iff. split.
      - intros I. exists p. split; [|exact (Yd p h I)]. f_equal.
        assert (Q : In (s p, h) m0) by (apply Hy; exists p; auto). apply M0 in Q. destruct Q as [Q _]. exact Q.
      - intros (n & E & In_). inversion E; subst n h.
        assert (Q : In (s p, s p) m0) by (apply M0; split; [reflexivity|exact (proj1 (ra_in _ _ _ RA p In_))]).
        apply Hy in Q. destruct Q as (p' & Ip' & Es).
        assert (p' = p).
        { destruct (ra_in _ _ _ RA p In_) as (_ & _ & E1 & _). destruct (ra_in _ _ _ RA p' (Yd p' (s p) Ip')) as (_ & _ & E2 & _). congruence. }
        subst p'. exact Ip'. }
    destruct (kept_regen A B rc s (inv_on (node_ids rc) s) y PW D RA Yk Yv Ys) as (_ & T & ET & ER).
    exists y, T. split; [|split; [exact Iy|split; [exact ET|exact ER]]].
    unfold compute_mappings. cbn [fst snd]. rewrite pat_is_l, Hstrat, Hpref. reflexivity.
  Qed.
End ChainAny.

(** * the reaction's own template in the default mode, through the reactor object *)
Lemma left_no_XH (rc : its) (l : molg) : left_of rc l ->
  (forall k a, In (k, a) (gnodes rc) -> N.eqb (a_el (iG a)) EL_H = false) -> has_XH l = false.
Proof.
  intros LO NH. unfold has_XH.
  assert (Hn : forall u, is_H_m l u = false).
  { intros u. unfold is_H_m. destruct (label l u) as [la|] eqn:E; [|reflexivity].
    destruct (lo_nodes _ _ LO u la (assoc_in u (gnodes l) E)) as (a & Ea & E1 & _). rewrite E1. exact (NH u a (assoc_in u (gnodes rc) Ea)). }
  destruct (existsb _ (gedges l)) eqn:E; [|reflexivity]. apply existsb_exists in E. destruct E as ([[u v] x] & _ & Hx).
  rewrite !Hn in Hx. discriminate.
Qed.

Lemma explicit_all_in (gl : list its) : snd (explicit_all gl) = false -> forall T, In T gl ->
  exists T' ms, explicit_h T = Some (T', ms) /\ In T' (fst (explicit_all gl)).
Proof.
  induction gl as [|g r IH]; intros Hc T I; [destruct I|]. simpl in Hc |- *.
  destruct (explicit_h g) as [[g' ms]|] eqn:Eg; [|simpl in Hc; discriminate].
  destruct (explicit_all r) as [r' c] eqn:Er. simpl in Hc |- *. destruct I as [<-|I].
  - exists g', ms. split; [exact Eg|left; reflexivity].
  - destruct (IH Hc T I) as (T' & ms' & E' & I'). exists T', ms'. split; [exact E'|right; exact I'].
Qed.

Section DefaultChain.
  Variable enum : list N -> list N -> list C06_Model.mapping.
  Variable rematch : nat -> hostg -> molg -> list C03_Model.mapping.
  Variables (core invert : bool) (G H : hostg) (thr : option N).
  Hypothesis W : pair_wfb G H = true.
  Hypothesis ME : mode_E G H = true.
  Let A := if invert then H else G.
  Let B := if invert then G else H.
  Let tpl := template core invert G H.
  Hypothesis OK : default_okb A B tpl = true.
  Hypothesis CC : core = true -> centre_carries (its_construct G H) = true.
  Let host := substrate invert G H.
  Let o := own_opts invert true (SMember 0%N) thr false.

  (** the identity passes the matcher's predicates on the stripped pattern (default-mode counterpart of C04_identity_match) *)
  Theorem default_identity_match :
    exists rc l r, rule_of core invert G H = Some (rc, l, r) /\ has_XH l = false /\ left_of rc l /\
      match_okb host (pattern_of l) (id_map (node_ids (pattern_of l))) = true.
  Proof.
    pose proof (pair_AB' core invert G H W OK) as PW. pose proof (own_describes core invert G H W OK CC) as D.
    destruct (default_rule A B tpl PW D OK) as (rc & l & r & Es & Ep & El & PW' & D').
    exists rc, l, r. unfold rule_of. rewrite ME. fold tpl. split; [exact Es|].
    assert (LO : left_of rc l).
    { apply (default_left_of tpl rc l r); [exact (fits_nodupb A B tpl (d_fits _ _ _ D))|exact (tpl_el A B tpl PW D)|exact Es]. }
    assert (NH : forall k a, In (k, a) (gnodes rc) -> N.eqb (a_el (iG a)) EL_H = false).
    { intros k a I. destruct (d_nodes _ _ _ D' k a I) as (x & y & Ex & _ & E1 & _). rewrite E1.
      destruct (default_okb_foldable A B tpl PW OK) as [FA _].
      exact (folded_noH A (pw_A _ _ PW) FA k x (assoc_in k (gnodes (h_to_implicit_host A)) Ex)). }
    pose proof (left_no_XH rc l LO NH) as Hf. split; [exact Hf|]. split; [exact LO|].
    rewrite Ep. unfold host, substrate. fold A.
    rewrite (lo_ids _ _ LO). exact (left_match _ rc l _ LO (fits_match_rc _ _ rc (d_fits _ _ _ D'))).
  Qed.

  Theorem default_chain (rc : its) (l r : molg) :
    rule_of core invert G H = Some (rc, l, r) ->
    forallb (fun p => 0 <=? m_hc (snd p)) (gnodes l) = true ->
    vf2_contract enum (tr_host host) (tr_pat l) (node_ids (tr_host host)) (node_ids (tr_pat l)) ->
    (lenN (enum (node_ids (tr_host host)) (node_ids (tr_pat l))) <= dflt DEFAULT_THRESHOLD thr)%N ->
    (forall ms, compute_mappings (api_engine enum) o host (rc, l, r) = Some ms -> crashed rematch o host (rc, l, r) ms = false) ->
    exists gs T', fst (read_its (api_engine enum) rematch o host (rc, l, r) fresh) = Some gs /\ In T' gs /\
                  regen_folded T' A B = true.
  Proof.
    intros Er Hnn Hvf2 Hthr NC.
    pose proof (pair_AB' core invert G H W OK) as PW. pose proof (own_describes core invert G H W OK CC) as D.
    destruct (closed_AB core invert G H W OK) as [CA CB]. fold A in CA. fold B in CB.
    destruct (default_okb_foldable A B tpl PW OK) as [FA FB].
    destruct (default_rule A B tpl PW D OK) as (rc0 & l0 & r0 & Es & Ep & El & PW' & D').
    assert (E3 : (rc0, l0, r0) = (rc, l, r)).
    { unfold rule_of in Er. rewrite ME in Er. fold tpl in Er. rewrite Es in Er. inversion Er. reflexivity. }
    inversion E3; subst rc0 l0 r0. clear E3.
    destruct default_identity_match as (rc1 & l1 & r1 & Er1 & Hf & LO & _). rewrite Er in Er1. inversion Er1; subst rc1 l1 r1. clear Er1.
    destruct (any_mappings enum (h_to_implicit_host A) (h_to_implicit_host B) rc l r o PW' D' LO Hf eq_refl eq_refl Hnn)
      as (ms & y & T & Em & Iy & ET & RE).
    { exact Hvf2. } { exact Hthr. }
    change (h_to_implicit_host A) with host in Em, ET.
    specialize (NC ms Em). unfold crashed in NC. cbn [o own_opts o_explicit_h andb] in NC.
    assert (IT : In T (glued_val rematch host (rc, l, r) ms)).
    { unfold glued_val. cbn [fst snd]. rewrite Hf.
      apply (in_concat_mapi (glue_graph rematch host (rc, l, r) false) ms y T); [|exact Iy].
      intros i. unfold glue_graph. cbn [fst snd]. simpl. rewrite ET. left. reflexivity. }
    destruct (explicit_all_in _ NC T IT) as (T' & ms' & EX & IT').
    exists (fst (explicit_all (glued_val rematch host (rc, l, r) ms))), T'. split; [|split; [exact IT'|]].
    - unfold read_its, read_mappings. cbn [fresh s_its s_maps s_flag s_smarts]. rewrite Em. cbn [fst snd s_flag orb].
      change (concat (mapi (glue_graph rematch host (rc, l, r) (has_XH l)) ms)) with (glued_val rematch host (rc, l, r) ms).
      cbn [o own_opts o_explicit_h]. destruct (explicit_all (glued_val rematch host (rc, l, r) ms)) as [gs c] eqn:Ea.
      simpl in NC. subst c. reflexivity.
    - apply (explicit_end T T' ms' A B (pw_A _ _ PW) (pw_B _ _ PW) FA FB CA CB); [| |exact EX].
      + rewrite (glued_ids _ _ _ _ ET). unfold host, substrate. fold A.
        destruct (fold_host_spec A (wf_host_nodup A (pw_A _ _ PW)) FA) as (_ & _ & FAA).
        exact (folded_nodup A _ _ FAA (pw_A _ _ PW)).
      + exact RE.
  Qed.
End DefaultChain.

(** * from its_list to smarts_list, for any reactor: an ITS of its_list whose two sides RDKit writes as [r] and [p] gives the
    reaction string (turned round when the reactor runs backwards) *)
Lemma smarts_contains (engine : sarg -> option N -> bool -> C06_Model.graph -> C06_Model.graph -> outcome)
    (rematch : nat -> hostg -> molg -> list C03_Model.mapping) (ser : nat -> its -> option bytes * option bytes)
    (o : ropts) (host : hostg) (rule : triple) (gs : list its) (T : its) (i : nat) (r p : bytes) :
  fst (read_its engine rematch o host rule fresh) = Some gs ->
  nth_error gs i = Some T -> ser i T = (Some r, Some p) -> r ++ arrow ++ p <> [] -> no_gt r -> no_gt p ->
  exists ss, fst (read_smarts engine rematch ser o host rule fresh) = Some ss /\
             In (if o_invert o then p ++ arrow ++ r else r ++ arrow ++ p) ss.
Proof.
  intros Ei En Es Hne Hr Hp. exists (smarts_of ser o gs). split.
  - unfold read_smarts. cbn [fresh s_smarts]. destruct (read_its engine rematch o host rule fresh) as [og st1].
    simpl in Ei. subst og. reflexivity.
  - unfold smarts_of.
    assert (Hin : In (r ++ arrow ++ p) (flat_map truthy (mapi (fun i g => to_smarts (ser i g)) gs))).
    { apply in_flat_map. exists (Some (r ++ arrow ++ p)). split.
      - pose proof (in_mapi_nth (fun i g => to_smarts (ser i g)) gs i T En) as Q. simpl in Q. rewrite Es in Q. exact Q.
      - unfold truthy. destruct (r ++ arrow ++ p) as [|c s] eqn:E; [contradiction Hne; reflexivity|]. left. reflexivity. }
    destruct (o_invert o).
    + rewrite <- (reverse_reaction_swaps r p Hr Hp). apply in_map. exact Hin.
    + exact Hin.
Qed.
