(** C05 — REFUTED for the option combination SynReactor(partial=True, embed_threshold=k): the reactor turns the cap into a
    result limit  max_results = k / 100  for the partial-matching engine, and a result limit keeps the FIRST matches in
    enumeration order.  Which matches these are depends on the order in which the atoms of the substrate are stored,
    i.e. on how the substrate SMILES is written (known finding "partial-capped:invariant-rewriting"; the code is kept:
    Synthesis/Reactor/rbl_engine.py relies on this work limit).
    Witness at model level (the model enumerates in node-list order, VF2 in its own order — the phenomenon is the same and
    is replayed on the implementation by corpus/regress/C05/partial_capped.json): thiol dimerisation
    [C:1][SH:2].[C:3][SH:4]>>[C:1][S:2][S:4][C:3] (centre = the two sulfur atoms) on CCS.CS with embed_threshold = 100,
    i.e. max_results = 1: the substrate stored in the order 1..5 gives the single partial match S2 -> atom 3 (the thiol
    of CCS), the same substrate stored in reverse order gives S2 -> atom 5 (the thiol of CS).  Without the option both
    orders give the same 6 matches. *)
From Coq Require Import List NArith ZArith Bool Arith Lia Permutation.
From SK Require Import lib.Tok lib.LGraph lib.Mono.
From SK Require model.C06_Model model.C11_Model.
From SK Require Import model.C03_Model model.C05_Model proof.C05_Proof proof.C05_Order proof.C05_Set proof.C05_Rewrite proof.C05_Partial proof.C05_PartialOrder.
Import ListNotations.

Definition px_host2 : hostg := LG (rev (gnodes px_host)) (rev (gedges px_host)).

Lemma px_same : same_graph px_host px_host2.
Proof. apply (same_graphb_ok nattr_eqb Z.eqb nattr_eqb_eq Zeqb_eq). vm_compute. reflexivity. Qed.


Lemma partial_capped_order_refuted :
  exists (host host' : hostg) (pat : molg),
    same_graph host host' /\ gnodes host' <> gnodes host /\
    pmax_of (Some 100%N) = 1%N /\
    @partial_matches (thr_of (Some 100%N)) 0%N host pat = Some [[(2%N, 3%N)]] /\
    @partial_matches (thr_of (Some 100%N)) 0%N host' pat = Some [[(2%N, 5%N)]] /\
    (exists r r', @partial_matches (thr_of None) 0%N host pat = Some r /\ @partial_matches (thr_of None) 0%N host' pat = Some r' /\
                  length r = 6%nat /\ Permutation r r').
Proof.
  exists px_host, px_host2, (p_pat px_p).
  split; [exact px_same|]. split; [vm_compute; discriminate|]. split; [reflexivity|].
  split; [vm_compute; reflexivity|]. split; [vm_compute; reflexivity|].
  eexists. eexists. split; [vm_compute; reflexivity|]. split; [vm_compute; reflexivity|]. split; [reflexivity|].
  (* the two listings of the 6 matches: a concrete permutation *)
  apply NoDup_Permutation.
  - repeat constructor; simpl; intuition discriminate.
  - repeat constructor; simpl; intuition discriminate.
  - intros m. simpl. intuition.
Qed.

(** non-vacuity of [partial_matches_host_order]: without a result limit the two stored orders list the same 6 partial
    matches, in different orders *)
Example partial_order_nonvacuous :
  same_graph px_host px_host2 /\
  @partial_matches (thr_of None) 0%N px_host2 (p_pat px_p) <> @partial_matches (thr_of None) 0%N px_host (p_pat px_p) /\
  match @partial_matches (thr_of None) 0%N px_host (p_pat px_p), @partial_matches (thr_of None) 0%N px_host2 (p_pat px_p) with
  | Some r, Some r' => length r = 6%nat /\ forall m, In m r <-> In m r'
  | _, _ => False
  end.
Proof.
  split; [exact px_same|]. split; [vm_compute; discriminate|].
  pose proof (@partial_matches_host_order (thr_of None) px_host px_host2 (p_pat px_p) eq_refl px_same) as H.
  destruct (@partial_matches (thr_of None) 0%N px_host (p_pat px_p)) as [r|] eqn:E1; [|vm_compute in E1; discriminate].
  destruct (@partial_matches (thr_of None) 0%N px_host2 (p_pat px_p)) as [r'|] eqn:E2; [|destruct H].
  split; [|exact H]. vm_compute in E1. injection E1 as <-. reflexivity.
Qed.
