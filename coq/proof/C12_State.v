(** C12 -- proofs about the matcher OBJECT (model/C12_State.v): constructor normalisation, the matchers on raw attribute
    dictionaries against the projected graphs of C12_Model.v, the cache as a state machine (every search call overwrites
    the whole cache, reads never change it, a failed facade call leaves the reset cache), and the property lifted to
    HISTORIES of calls on one object. *)
From Coq Require Import List NArith ZArith Bool Arith Lia Permutation.
From SK Require Import lib.Tok lib.LGraph lib.Mono model.C12_Model model.C12_Check model.C12_State
     proof.C12_Search proof.C12_Proof proof.C12_Prune proof.C12_Component.
Import ListNotations.

(* ------------------------------------------------------------------ 1. MCSMatcher.__init__ *)
Definition names_of (a : ctor_args) : list N := match a_node_attrs a with Some l => l | None => [K_ELEMENT] end.

Lemma mk_config_spec a :
  match mk_config a with
  | Some c =>
      c_names c = names_of a /\ length (c_defs c) = length (c_names c) /\
      c_defs c = match a_node_defaults a with Some l => l | None => repeat V_STAR (length (names_of a)) end /\
      c_enames c <> [] /\
      c_enames c = match a_edge_attrs a with Some (x :: r) => x :: r | _ => [K_ORDER] end /\
      c_prune c = a_prune_wc a /\ c_auto c = a_prune_auto a /\ c_wc c = a_wildcard a /\ c_ekey c = a_element_key a
  | None => exists l, a_node_defaults a = Some l /\ length l <> length (names_of a)
  end.
Proof.
  unfold mk_config, names_of. destruct a as [na nd ea pw pa w ek]. simpl.
  set (names := match na with Some l => l | None => [K_ELEMENT] end).
  destruct nd as [l|]; simpl.
  - destruct (Nat.eqb_spec (length l) (length names)) as [E|E]; simpl.
    + repeat split; auto. destruct ea as [[|x r]|]; discriminate.
    + exists l. split; [reflexivity|exact E].
  - rewrite repeat_length, Nat.eqb_refl. simpl. repeat split; auto.
    + apply repeat_length.
    + destruct ea as [[|x r]|]; discriminate.
Qed.

(* ------------------------------------------------------------------ 2. matchers on raw dictionaries = matchers on the projection *)
Lemma node_match_raw_project names : forall defs h p, length defs = length names ->
  node_match_raw names defs h p =
  attrs_match defs (map (fun k => LGraph.assoc k h) names) (map (fun k => LGraph.assoc k p) names).
Proof.
  induction names as [|k ks IH]; intros [|d ds] h p E; simpl in *; try discriminate; [reflexivity|].
  rewrite IH by lia. reflexivity.
Qed.

Lemma evalue_code_eqb a b : Z.eqb (evalue_code a) (evalue_code b) = evalue_eqb a b.
Proof.
  destruct a as [x|x], b as [y|y]; unfold evalue_code, evalue_eqb.
  - destruct (Z.eqb_spec x y) as [->|E]; [apply Z.eqb_refl|]. apply Z.eqb_neq. lia.
  - apply Z.eqb_neq. lia.
  - apply Z.eqb_neq. lia.
  - destruct (N.eqb_spec x y) as [->|E]; [apply Z.eqb_refl|]. apply Z.eqb_neq. lia.
Qed.

Lemma edge_match_raw_project names h p :
  edge_match_raw names h p =
  edge_match (map (fun k => option_map evalue_code (LGraph.assoc k h)) names)
             (map (fun k => option_map evalue_code (LGraph.assoc k p)) names).
Proof.
  induction names as [|k ks IH]; simpl; [reflexivity|].
  destruct (LGraph.assoc k h) as [a|], (LGraph.assoc k p) as [b|]; simpl; try reflexivity.
  - rewrite <- IH. change (Z.eqb (evalue_code a) (evalue_code b)) with (Z.eqb (evalue_code a) (evalue_code b)).
    rewrite evalue_code_eqb. destruct a, b; reflexivity.
  - destruct a; reflexivity.
  - exact IH.
Qed.

(* ------------------------------------------------------------------ 3. the projected graph *)
Lemma project_ids cfg g : node_ids (project cfg g) = node_ids g.
Proof. unfold node_ids, project. simpl. rewrite map_map. apply map_ext. reflexivity. Qed.

Lemma project_label cfg g u : label (project cfg g) u = option_map (project_node cfg) (label g u).
Proof.
  unfold label, project. simpl. induction (gnodes g) as [|[k a] r IH]; simpl; [reflexivity|].
  destruct (N.eqb u k); [reflexivity|exact IH].
Qed.

Lemma project_adj cfg g u v : LGraph.adj (project cfg g) u v = option_map (project_edge cfg) (LGraph.adj g u v).
Proof.
  unfold LGraph.adj, project. simpl. induction (gedges g) as [|[[a b] x] r IH]; simpl; [reflexivity|].
  destruct ((N.eqb a u && N.eqb b v) || (N.eqb a v && N.eqb b u)); [reflexivity|exact IH].
Qed.

Lemma assoc_of_in {V} k (l : list (N * V)) : In k (map fst l) -> exists v, LGraph.assoc k l = Some v.
Proof.
  induction l as [|[k' v] r IH]; simpl; [intros []|]. intros [E|I].
  - subst. rewrite N.eqb_refl. now exists v.
  - destruct (N.eqb k k'); [now exists v|now apply IH].
Qed.

(** the validity clause read on the graphs the CALLER passes (raw attribute dictionaries, configured names and defaults) *)
Definition raw_common_induced (cfg : config) (ga gb : rgraph) (m : mapping) : Prop :=
  NoDup (map fst m) /\ NoDup (map snd m) /\
  (forall p h, In (p, h) m ->
     exists a b, label ga p = Some a /\ label gb h = Some b /\ node_match_raw (c_names cfg) (c_defs cfg) b a = true) /\
  (forall p h p' h', In (p, h) m -> In (p', h') m -> p <> p' ->
     match LGraph.adj ga p p', LGraph.adj gb h h' with
     | Some b, Some b' => edge_match_raw (c_enames cfg) b' b = true
     | None, None => True
     | _, _ => False
     end).

Theorem project_ci_iff cfg ga gb m : length (c_defs cfg) = length (c_names cfg) ->
  common_induced (node_match (c_defs cfg)) edge_match (project cfg ga) (project cfg gb) m <-> raw_common_induced cfg ga gb m.
Proof.
  intros EL. unfold common_induced, raw_common_induced. split; intros (A & B & C & D); (split; [exact A|split; [exact B|split]]).
  - intros p h I. destruct (C p h I) as (_ & _ & Hm). rewrite !project_label in Hm.
    destruct (label gb h) as [b|], (label ga p) as [a|]; simpl in Hm; try discriminate.
    exists a, b. split; [reflexivity|split; [reflexivity|]].
    rewrite (node_match_raw_project _ _ _ _ EL). exact Hm.
  - intros p h p' h' I I' Hne. specialize (D p h p' h' I I' Hne). rewrite !project_adj in D.
    destruct (LGraph.adj ga p p') as [b|], (LGraph.adj gb h h') as [b'|]; cbn [option_map] in D; auto.
    unfold project_edge in D. rewrite <- edge_match_raw_project in D. exact D.
  - intros p h I. destruct (C p h I) as (a & b & La & Lb & Hm). rewrite !project_ids, !project_label, La, Lb. simpl.
    split; [|split].
    + apply assoc_in in La. change p with (fst (p, a)). now apply in_map.
    + apply assoc_in in Lb. change h with (fst (h, b)). now apply in_map.
    + rewrite <- (node_match_raw_project _ _ _ _ EL). exact Hm.
  - intros p h p' h' I I' Hne. specialize (D p h p' h' I I' Hne). rewrite !project_adj.
    destruct (LGraph.adj ga p p') as [b|], (LGraph.adj gb h h') as [b'|]; cbn [option_map]; auto.
    unfold project_edge. rewrite <- edge_match_raw_project. exact D.
Qed.

(** which atoms wildcard pruning removes, read on the raw dictionary: data.get(element_key) == wildcard_element *)
Lemma project_wc_node cfg g p :
  wc_node (c_wc cfg) (project cfg g) p =
  match label g p with
  | Some a => match LGraph.assoc (c_ekey cfg) a with Some e => N.eqb e (c_wc cfg) | None => false end
  | None => false
  end.
Proof. unfold wc_node. rewrite project_label. destruct (label g p); reflexivity. Qed.

(* ------------------------------------------------------------------ 4. the cache as a state machine *)
Lemma m_step_read cfg st ds : fst (m_step cfg st (MReads ds)) = st.
Proof. reflexivity. Qed.

(** a search call does not look at the cache: state AND answer are those of a fresh object *)
Lemma m_step_search cfg st st' o : is_read o = false -> m_step cfg st o = m_step cfg st' o.
Proof. destruct o; simpl; [reflexivity|reflexivity|discriminate|reflexivity|reflexivity|reflexivity]. Qed.

Lemma m_run_reads cfg st rds : forallb is_read rds = true -> m_run cfg st rds = st.
Proof.
  induction rds as [|o r IH]; simpl; [reflexivity|]. intros H. apply andb_prop in H. destruct H as (Ho & Hr).
  destruct o; try discriminate. simpl. exact (IH Hr).
Qed.

Lemma m_run_app cfg st a b : m_run cfg st (a ++ b) = m_run cfg (m_run cfg st a) b.
Proof. revert st. induction a as [|o r IH]; intros st; simpl; [reflexivity|apply IH]. Qed.

(** history independence: after ANY history, a search call followed by reads leaves the cache of a fresh object that made
    only that call *)
Theorem history_last_search cfg st ops o rds : is_read o = false -> forallb is_read rds = true ->
  m_run cfg st (ops ++ o :: rds) = fst (m_step cfg s_init o).
Proof.
  intros Ho Hr. rewrite m_run_app. simpl. rewrite (m_run_reads _ _ _ Hr).
  now rewrite (m_step_search cfg _ s_init o Ho).
Qed.

(** ... and every answer along the way is the answer a fresh object would give *)
Theorem history_answers_fresh cfg st ops o : is_read o = false ->
  snd (m_step cfg (m_run cfg st ops) o) = snd (m_step cfg s_init o).
Proof. intros Ho. now rewrite (m_step_search cfg _ s_init o Ho). Qed.

Lemma m_get_state_of r d :
  m_get (state_of r) d =
  match d with
  | DP2H => Some (get_mappings PatternToHost r)
  | D12 => Some (get_mappings G1toG2 r)
  | D21 => Some (get_mappings G2toG1 r)
  | DBad => None
  end.
Proof. destruct d; reflexivity. Qed.

Lemma m_find_fresh cfg g1 g2 mcs st :
  fst (m_step cfg st (MFind g1 g2 mcs)) =
  state_of (find_common_subgraph (c_defs cfg) (c_prune cfg) (c_wc cfg) (project cfg g1) (project cfg g2) mcs).
Proof. reflexivity. Qed.

(** before any search, and after a facade call with an unknown side: nothing stored, direction unknown, every direction
    string (also an unknown one) is answered with the empty list *)
Theorem state_unknown :
  (forall d, m_get s_init d = Some []) /\
  (forall cfg st x mcs comp, m_step cfg st (MRc x SBad mcs comp) = (s_init, L (I (-1) :: m_views s_init))).
Proof. split; [intros []; reflexivity|reflexivity]. Qed.

(** reachable caches: the flag is unknown only while nothing is stored *)
Definition cache_ok (st : mstate) : Prop := s_flag st = None -> s_maps st = [] /\ s_last st = 0%nat.

Lemma m_step_ok cfg st o : cache_ok st -> cache_ok (fst (m_step cfg st o)).
Proof.
  intros H. destruct o as [g1 g2 mcs|x sd mcs comp|ds|g1 g2 mcs ch|g1 g2 ch|x sd ch]; simpl.
  - intros E. discriminate.
  - unfold m_rc. destruct (pick_sides x sd) as [[ga gb]|]; simpl.
    + destruct comp; simpl; intros E; discriminate.
    + intros _. split; reflexivity.
  - exact H.
  - destruct (apply_choices _ ch); simpl; [intros E; discriminate|intros _; split; reflexivity].
  - unfold mol_tok. destruct (find_mcs_mol_with _ _ _ _ _ ch); simpl; [intros E; discriminate|intros _; split; reflexivity].
  - destruct (pick_sides x sd) as [[ga gb]|]; [|intros _; split; reflexivity].
    unfold mol_tok. destruct (find_mcs_mol_with _ _ _ _ _ ch); simpl; [intros E; discriminate|intros _; split; reflexivity].
Qed.

Lemma m_run_ok cfg ops : forall st, cache_ok st -> cache_ok (m_run cfg st ops).
Proof. induction ops as [|o r IH]; intros st H; simpl; [exact H|]. apply IH. now apply m_step_ok. Qed.

(** the two direction requests are mutually inverse in every reachable cache; the pattern->host request equals one of them;
    an unknown direction is refused exactly when a search has run *)
Theorem reads_inverse cfg ops :
  let st := m_run cfg s_init ops in
  exists l12 l21 lp, m_get st D12 = Some l12 /\ m_get st D21 = Some l21 /\ m_get st DP2H = Some lp /\
    l21 = map invert_mapping l12 /\ l12 = map invert_mapping l21 /\ (lp = l12 \/ lp = l21) /\
    (m_get st DBad = None <-> s_flag st <> None).
Proof.
  intros st. assert (H : cache_ok st) by (apply m_run_ok; intros _; split; reflexivity).
  unfold m_get. destruct (s_flag st) as [[|]|] eqn:Ef.
  - exists (s_maps st), (map invert_mapping (s_maps st)), (s_maps st). repeat split; auto.
    + now rewrite map_invert_involutive.
    + intros _. discriminate.
  - exists (map invert_mapping (s_maps st)), (s_maps st), (s_maps st). repeat split; auto.
    + now rewrite map_invert_involutive.
    + intros _. discriminate.
  - destruct (H Ef) as (Em & _). rewrite Em. exists [], [], []. repeat split; auto; try discriminate.
    intros Hn. now elim Hn.
Qed.

(* ------------------------------------------------------------------ 5. the property over histories *)
Section Histories.
Variable cfg : config.
Notation nm := (node_match (c_defs cfg)).
Notation pr := (fun g => prune_graph (c_prune cfg) (c_wc cfg) (project cfg g)).

(** whatever happened to the object before: after find_common_subgraph(G1, G2, mcs) and any number of reads, what the three
    direction requests return is valid for (G1, G2) as pruned and projected by THIS object's options; in maximum mode all
    sizes equal last_size, no common induced mapping is larger, and every one of that size is returned *)
Theorem history_find_valid st ops g1 g2 mcs rds :
  NoDup (node_ids g1) -> NoDup (node_ids g2) -> forallb is_read rds = true ->
  let stf := m_run cfg st (ops ++ MFind g1 g2 mcs :: rds) in
  exists l12 l21 lp, m_get stf D12 = Some l12 /\ m_get stf D21 = Some l21 /\ m_get stf DP2H = Some lp /\ m_get stf DBad = None /\
    l21 = map invert_mapping l12 /\ l12 = map invert_mapping l21 /\ (lp = l12 \/ lp = l21) /\
    (forall m, In m l12 -> common_induced nm edge_match (pr g1) (pr g2) m /\ (1 <= length m)%nat) /\
    (forall m, In m l21 -> common_induced nm edge_match (pr g2) (pr g1) m /\ (1 <= length m)%nat) /\
    (mcs = true ->
       (forall m, In m l12 -> length m = s_last stf) /\
       (forall m, common_induced nm edge_match (pr g1) (pr g2) m -> (length m <= s_last stf)%nat) /\
       (forall m, common_induced nm edge_match (pr g1) (pr g2) m -> length m = s_last stf -> (1 <= s_last stf)%nat ->
          exists m', In m' l12 /\ Permutation m m')) /\
    (mcs = false ->
       forall m, common_induced nm edge_match (pr g1) (pr g2) m -> (1 <= length m)%nat -> exists m', In m' l12 /\ Permutation m m').
Proof.
  intros N1 N2 Hr stf. unfold stf. rewrite (history_last_search cfg st ops (MFind g1 g2 mcs) rds eq_refl Hr).
  rewrite m_find_fresh.
  assert (P1 : NoDup (node_ids (project cfg g1))) by now rewrite project_ids.
  assert (P2 : NoDup (node_ids (project cfg g2))) by now rewrite project_ids.
  set (r := find_common_subgraph (c_defs cfg) (c_prune cfg) (c_wc cfg) (project cfg g1) (project cfg g2) mcs).
  exists (get_mappings G1toG2 r), (get_mappings G2toG1 r), (get_mappings PatternToHost r).
  rewrite !m_get_state_of. destruct (directions_inverse r) as (I1 & I2).
  split; [reflexivity|split; [reflexivity|split; [reflexivity|split; [reflexivity|]]]].
  split; [exact I1|split; [exact I2|split]].
  { unfold get_mappings. destruct (r_pattern_is_g1 r); [now left|now right]. }
  split; [|split; [|split]].
  - intros m Hm. exact (proj1 (fcs_valid _ _ _ _ _ P1 P2 mcs m) Hm).
  - intros m Hm. exact (proj1 (proj2 (fcs_valid _ _ _ _ _ P1 P2 mcs m)) Hm).
  - intros ->. destruct (fcs_maximum (c_defs cfg) (c_prune cfg) (c_wc cfg) _ _ P1 P2) as ((S1 & S2 & S3 & _) & _).
    fold r in S1, S2, S3. simpl. split; [|split].
    + intros m Hm. exact (proj2 (S1 m Hm)).
    + exact S2.
    + exact S3.
  - intros ->. destruct (fcs_all (c_defs cfg) (c_prune cfg) (c_wc cfg) _ _ P1 P2) as ((_ & A2) & _).
    fold r in A2. exact A2.
Qed.

(** prune_automorphisms=True after any history: with an accepted parameter the cache holds the chosen representatives (to which
    [prune_auto_choices_valid] of proof/C12_Sorted.v applies: valid, host node sets pairwise different, sorted, complete up to
    host node sets), size and flag are those of the unpruned search *)
Theorem history_auto st ops g1 g2 mcs choices rds kept : forallb is_read rds = true ->
  apply_choices (r_maps (find_common_subgraph (c_defs cfg) (c_prune cfg) (c_wc cfg) (project cfg g1) (project cfg g2) mcs)) choices = Some kept ->
  m_run cfg st (ops ++ MFindAuto g1 g2 mcs choices :: rds) =
  {| s_maps := kept;
     s_last := r_last (find_common_subgraph (c_defs cfg) (c_prune cfg) (c_wc cfg) (project cfg g1) (project cfg g2) mcs);
     s_flag := Some (r_pattern_is_g1 (find_common_subgraph (c_defs cfg) (c_prune cfg) (c_wc cfg) (project cfg g1) (project cfg g2) mcs)) |}.
Proof.
  intros Hr E. rewrite (history_last_search cfg st ops (MFindAuto g1 g2 mcs choices) rds eq_refl Hr).
  cbn [m_step]. rewrite E. reflexivity.
Qed.

(** mcs_mol=True after any history: with an accepted parameter the cache is that of the validated result (one combined mapping,
    reported G1 -> G2), to which [mol_choice_valid] of proof/C12_Check.v applies *)
Theorem history_mol st ops g1 g2 choice rds r : forallb is_read rds = true ->
  find_mcs_mol_with (c_defs cfg) (c_prune cfg) (c_wc cfg) (project cfg g1) (project cfg g2) choice = Some r ->
  m_run cfg st (ops ++ MFindMol g1 g2 choice :: rds) = state_of r.
Proof.
  intros Hr E. rewrite (history_last_search cfg st ops (MFindMol g1 g2 choice) rds eq_refl Hr).
  cbn [m_step]. unfold mol_tok. rewrite E. reflexivity.
Qed.

(** ... and through the ITS facade (mcs_mol=True, component=False) it is the same call on the selected sides *)
Theorem rc_mol_is_find_mol st x sd choice ga gb : pick_sides x sd = Some (ga, gb) ->
  m_step cfg st (MRcMol x sd choice) = m_step cfg st (MFindMol ga gb choice).
Proof. intros E. cbn [m_step]. rewrite E. reflexivity. Qed.

(** the ITS facade in non-component mode is find_common_subgraph on the selected sides *)
Theorem rc_is_find st x sd mcs ga gb : pick_sides x sd = Some (ga, gb) ->
  m_step cfg st (MRc x sd mcs false) = m_step cfg st (MFind ga gb mcs).
Proof. intros E. unfold m_step, m_rc. rewrite E. simpl. reflexivity. Qed.

Theorem facade_sides st x sd mcs :
  match sd with
  | SR => m_step cfg st (MRc x sd mcs false) = m_step cfg st (MFind (rc_r1 x) (rc_r2 x) mcs)
  | SL => m_step cfg st (MRc x sd mcs false) = m_step cfg st (MFind (rc_l1 x) (rc_l2 x) mcs)
  | SOp => m_step cfg st (MRc x sd mcs false) = m_step cfg st (MFind (rc_r1 x) (rc_l2 x) mcs)
  | SIts => m_step cfg st (MRc x sd mcs false) = m_step cfg st (MFind (rc_1 x) (rc_2 x) mcs)
  | SBad => fst (m_step cfg st (MRc x sd mcs false)) = s_init
  end.
Proof. destruct sd; try (apply rc_is_find; reflexivity); reflexivity. Qed.

(** component mode: exactly one stored mapping, reported G1 -> G2, valid for the selected sides (also across components) *)
Theorem history_component_valid st ops x sd mcs ga gb rds :
  pick_sides x sd = Some (ga, gb) ->
  NoDup (node_ids ga) -> NoDup (node_ids gb) -> wfe (project cfg ga) -> wfe (project cfg gb) ->
  forallb is_read rds = true ->
  let stf := m_run cfg st (ops ++ MRc x sd mcs true :: rds) in
  exists m, m_get stf D12 = Some [m] /\ m_get stf D21 = Some [invert_mapping m] /\ m_get stf DP2H = Some [m] /\
    s_flag stf = Some true /\ s_last stf = length m /\
    common_induced nm edge_match (pr ga) (pr gb) m /\ common_induced nm edge_match (pr gb) (pr ga) (invert_mapping m).
Proof.
  intros E N1 N2 W1 W2 Hr stf. unfold stf. rewrite (history_last_search cfg st ops (MRc x sd mcs true) rds eq_refl Hr).
  unfold m_step, m_rc. rewrite E. simpl.
  assert (P1 : NoDup (node_ids (project cfg ga))) by now rewrite project_ids.
  assert (P2 : NoDup (node_ids (project cfg gb))) by now rewrite project_ids.
  destruct (component_valid (c_defs cfg) (c_prune cfg) (c_wc cfg) _ _ mcs P1 P2 W1 W2) as (V1 & V2 & V3).
  set (r := find_rc_component (c_defs cfg) (c_prune cfg) (c_wc cfg) (project cfg ga) (project cfg gb) mcs) in *.
  assert (F : r_pattern_is_g1 r = true).
  { unfold r, find_rc_component. destruct (componentwise _ _ _ _ _). reflexivity. }
  unfold get_mappings in V1, V2, V3. rewrite F in V1, V2, V3.
  destruct (r_maps r) as [|m [|m' rest]] eqn:Em; simpl in V3; try discriminate.
  exists m. rewrite F. simpl.
  destruct (V1 m (or_introl eq_refl)) as (C1 & L1).
  split; [reflexivity|split; [reflexivity|split; [reflexivity|split; [reflexivity|split; [now symmetry|split; [exact C1|]]]]]].
  apply V2. now left.
Qed.

End Histories.

(* ------------------------------------------------------------------ 5b. keyword arguments: defaults and dispatch *)
(** every omitted argument takes ITS OWN default, whatever else was given; component mode ignores mcs_mol, mcs_mol ignores mcs *)
Theorem resolve_defaults (auto : bool) :
  ((forall g1 g2 chs ch, resolve auto (CFind g1 g2 {| fk_mcs := None; fk_mol := None |} chs ch) =
                        if auto then MFindAuto g1 g2 false chs else MFind g1 g2 false) /\
  (forall g1 g2 m chs ch, resolve auto (CFind g1 g2 {| fk_mcs := m; fk_mol := Some true |} chs ch) = MFindMol g1 g2 ch) /\
  (forall g1 g2 b chs ch, resolve false (CFind g1 g2 {| fk_mcs := Some b; fk_mol := None |} chs ch) = MFind g1 g2 b) /\
  (forall x ch, resolve auto (CRc x {| rk_side := None; rk_mcs := None; rk_mol := None; rk_component := None |} ch) = MRc x SOp true true) /\
  (forall x sd m ml ch, resolve auto (CRc x {| rk_side := sd; rk_mcs := m; rk_mol := ml; rk_component := None |} ch) =
                        MRc x (dflt SOp sd) (dflt true m) true) /\
  (forall x sd m ch, resolve auto (CRc x {| rk_side := sd; rk_mcs := m; rk_mol := None; rk_component := Some false |} ch) =
                     MRc x (dflt SOp sd) (dflt true m) false) /\
  (forall x sd m ch, resolve auto (CRc x {| rk_side := sd; rk_mcs := m; rk_mol := Some true; rk_component := Some false |} ch) =
                     MRcMol x (dflt SOp sd) ch))%type.
Proof. repeat split; intros; destruct auto; reflexivity. Qed.

(* ------------------------------------------------------------------ non-vacuity *)
Module Example_state.
Local Open Scope nat_scope.
(** C(0)-C(1)(=O(2)) with a charge on C(1) that the default configuration ignores, against O(5)=C(6); keys: 0 element, 1 charge;
    values: 0 "*", 1 "C", 2 "O", 3 (+1); the second pair carries a tuple-valued order (an ITS order pair, not castable) *)
Definition gA : rgraph := LG [(0, [(0, 1)]); (1, [(0, 1); (1, 3)]); (2, [(0, 2)])]%N
                             [(0, 1, [(0%N, ENum 2)]); (1, 2, [(0%N, ENum 4)])]%N.
Definition gB : rgraph := LG [(5, [(0, 2)]); (6, [(0, 1)])]%N [(5, 6, [(0%N, ENum 4)])]%N.
Definition gT : rgraph := LG [(5, [(0, 2)]); (6, [(0, 1)])]%N [(5, 6, [(0%N, EOther 7)])]%N.
Definition args0 : ctor_args := {| a_node_attrs := None; a_node_defaults := None; a_edge_attrs := Some []; a_prune_wc := false;
                                  a_prune_auto := false; a_wildcard := 0; a_element_key := 0 |}.
Definition cfg0 : config := dummy_config.

Example ctor_defaults : mk_config args0 = Some cfg0.
Proof. reflexivity. Qed.
Example ctor_error : mk_config {| a_node_attrs := Some [0; 1]%N; a_node_defaults := Some [0%N]; a_edge_attrs := None; a_prune_wc := false;
                                 a_prune_auto := false; a_wildcard := 0; a_element_key := 0 |} = None.
Proof. reflexivity. Qed.

(** first graph larger: the stored list is G2 -> G1; the same object then answers for the swapped pair; reads in between *)
Definition hist := [MReads [D12; DBad]; MFind gA gB true; MReads [DBad; D21]; MFind gB gA true; MReads [D12]].
Example history_state : m_run cfg0 s_init hist = {| s_maps := [[(5, 2); (6, 1)]%N]; s_last := 2; s_flag := Some true |}.
Proof. vm_compute. reflexivity. Qed.
Example history_mid : m_get (m_run cfg0 s_init [MReads [D12]; MFind gA gB true]) D12 = Some [[(2, 5); (1, 6)]%N].
Proof. vm_compute. reflexivity. Qed.
Example bad_direction_before_and_after :
  m_get s_init DBad = Some [] /\ m_get (m_run cfg0 s_init [MFind gA gB true]) DBad = None.
Proof. split; vm_compute; reflexivity. Qed.
(** a tuple-valued order equals only itself: against the numeric double bond only single atoms are common *)
Example tuple_order : s_last (m_run cfg0 s_init [MFind gA gT true]) = 1 /\ s_last (m_run cfg0 s_init [MFind gT gT true]) = 2.
Proof. split; vm_compute; reflexivity. Qed.
(** the charge matters once it is configured (names [element; charge], defaults ["*"; "*"]) *)
Definition cfg2 : config := {| c_names := [0; 1]%N; c_defs := [0; 0]%N; c_enames := [0%N]; c_prune := false; c_auto := false;
                               c_wc := 0; c_ekey := 0 |}.
Example charge_configured : s_last (m_run cfg2 s_init [MFind gA gB true]) = 1.
Proof. vm_compute. reflexivity. Qed.
Example raw_valid : raw_common_induced cfg0 gA gB [(2, 5); (1, 6)]%N /\ ~ raw_common_induced cfg0 gA gB [(0, 5)]%N.
Proof.
  split.
  - apply (project_ci_iff cfg0 gA gB _ eq_refl).
    destruct (history_find_valid cfg0 s_init [] gA gB true [] ) as (l12 & l21 & lp & E12 & _ & _ & _ & _ & _ & _ & V & _).
    + vm_compute. repeat constructor; simpl; intuition discriminate.
    + vm_compute. repeat constructor; simpl; intuition discriminate.
    + reflexivity.
    + vm_compute in E12. injection E12 as <-. exact (proj1 (V _ (or_introl eq_refl))).
  - intros (_ & _ & C & _). destruct (C 0%N 5%N (or_introl eq_refl)) as (a & b & La & Lb & Hm).
    vm_compute in La, Lb. injection La as <-. injection Lb as <-. vm_compute in Hm. discriminate.
Qed.
Example failed_facade_resets :
  m_run cfg0 s_init [MFind gA gB true; MRc {| rc_1 := gA; rc_2 := gB; rc_l1 := gA; rc_r1 := gA; rc_l2 := gB; rc_r2 := gB |} SBad true true] = s_init.
Proof. vm_compute. reflexivity. Qed.
End Example_state.

(* ------------------------------------------------------------------ 6. the MTG copy as an object *)
Lemma mk_config_mtg_lengths a : length (c_defs (mk_config_mtg a)) = length (c_names (mk_config_mtg a)).
Proof. unfold mk_config_mtg. simpl. rewrite !firstn_length. lia. Qed.

(** zip truncation: the raw node matcher on the given lists is the raw matcher on the truncated lists *)
Lemma node_match_raw_firstn names : forall defs h p,
  node_match_raw names defs h p =
  node_match_raw (firstn (Nat.min (length names) (length defs)) names) (firstn (Nat.min (length names) (length defs)) defs) h p.
Proof.
  induction names as [|k ks IH]; intros [|d ds] h p; simpl; try reflexivity. now rewrite <- IH.
Qed.

Lemma edge_match_mtg_project cfg k h p : c_enames cfg = [k] ->
  edge_match_mtg (project_edge_mtg cfg h) (project_edge_mtg cfg p) = edge_match_mtg_raw k h p.
Proof.
  intros E. unfold project_edge_mtg, edge_match_mtg_raw. rewrite E. simpl.
  destruct (LGraph.assoc k h) as [a|], (LGraph.assoc k p) as [b|]; simpl; try reflexivity.
  - rewrite evalue_code_eqb. destruct a, b; reflexivity.
  - destruct a; reflexivity.
Qed.

Lemma project_mtg_ids cfg g : node_ids (project_mtg cfg g) = node_ids g.
Proof. unfold node_ids, project_mtg. simpl. rewrite map_map. apply map_ext. reflexivity. Qed.

Lemma t_step_search cfg st st' o : t_is_read o = false -> t_step cfg st o = t_step cfg st' o.
Proof. destruct o; simpl; [reflexivity|reflexivity|discriminate|reflexivity|reflexivity]. Qed.

(** the MTG facade forwards mcs_mol: find_rc_mapping(rc1, rc2, mcs_mol=True) is the mcs_mol search on the right side of rc1 and
    the left side of rc2 *)
Lemma t_rc_mol_is_find_mol cfg st x choice : t_step cfg st (TRcMol x choice) = t_step cfg st (TFindMol (rc_r1 x) (rc_l2 x) choice).
Proof. reflexivity. Qed.

Lemma t_run_reads cfg st rds : forallb t_is_read rds = true -> t_run cfg st rds = st.
Proof.
  induction rds as [|o r IH]; simpl; [reflexivity|]. intros H. apply andb_prop in H. destruct H as (Ho & Hr).
  destruct o; try discriminate. simpl. exact (IH Hr).
Qed.

Lemma t_run_app cfg st a b : t_run cfg st (a ++ b) = t_run cfg (t_run cfg st a) b.
Proof. revert st. induction a as [|o r IH]; intros st; simpl; [reflexivity|apply IH]. Qed.

Theorem mtg_history_last_search cfg st ops o rds : t_is_read o = false -> forallb t_is_read rds = true ->
  t_run cfg st (ops ++ o :: rds) = fst (t_step cfg t_init o) /\
  snd (t_step cfg (t_run cfg st ops) o) = snd (t_step cfg t_init o).
Proof.
  intros Ho Hr. rewrite t_run_app. simpl. rewrite (t_run_reads _ _ _ Hr).
  now rewrite (t_step_search cfg _ t_init o Ho).
Qed.

(** the property over histories of the MTG object: the first argument is always the pattern; stored mappings are valid for the
    selected attributes, in maximum mode of size last_size, none larger, all of that size returned; all-sizes mode: exactly
    the non-empty common induced mappings *)
Theorem mtg_history_valid cfg st ops g1 g2 mcs rds :
  NoDup (node_ids g1) -> NoDup (node_ids g2) -> forallb t_is_read rds = true ->
  let stf := t_run cfg st (ops ++ TFind g1 g2 mcs :: rds) in
  let G1 := project_mtg cfg g1 in let G2 := project_mtg cfg g2 in
  (forall m, In m (t_maps stf) -> common_induced (node_match (c_defs cfg)) edge_match_mtg G1 G2 m /\ (1 <= length m)%nat) /\
  (mcs = true ->
     (forall m, In m (t_maps stf) -> length m = t_last stf) /\
     (forall m, common_induced (node_match (c_defs cfg)) edge_match_mtg G1 G2 m -> (length m <= t_last stf)%nat) /\
     (forall m, common_induced (node_match (c_defs cfg)) edge_match_mtg G1 G2 m -> length m = t_last stf -> (1 <= t_last stf)%nat ->
        exists m', In m' (t_maps stf) /\ Permutation m m')) /\
  (mcs = false ->
     forall m, common_induced (node_match (c_defs cfg)) edge_match_mtg G1 G2 m -> (1 <= length m)%nat ->
        exists m', In m' (t_maps stf) /\ Permutation m m').
Proof.
  intros N1 N2 Hr stf G1 G2. unfold stf.
  rewrite (proj1 (mtg_history_last_search cfg st ops (TFind g1 g2 mcs) rds eq_refl Hr)).
  assert (P1 : NoDup (node_ids G1)) by (unfold G1; now rewrite project_mtg_ids).
  assert (P2 : NoDup (node_ids G2)) by (unfold G2; now rewrite project_mtg_ids).
  destruct (mtg_spec (c_defs cfg) G1 G2 P1 P2) as ((M1 & M2 & M3 & M4) & (A1 & A2)).
  simpl. fold G1 G2. destruct mcs.
  - split; [|split; [|intros; discriminate]].
    + intros m Hm. destruct (M1 m Hm) as (C & L). split; [exact C|].
      destruct (Nat.eq_dec (snd (fst (find_common_subgraph_mtg (c_defs cfg) G1 G2 true))) 0) as [Z|NZ]; [|lia].
      apply M4 in Z. rewrite Z in Hm. destruct Hm.
    + intros _. split; [|split]; [intros m Hm; exact (proj2 (M1 m Hm))|exact M2|exact M3].
  - split; [exact A1|split; [intros; discriminate|intros _; exact A2]].
Qed.

Module Example_mtg.
Local Open Scope nat_scope.
Import Example_state.
(** defaults shorter than names: only the first name is compared (zip truncation) *)
Definition a1 : mtg_args := {| ma_names := Some [0; 1]%N; ma_defs := Some [0%N]; ma_edge := 0%N |}.
Example ctor_truncates : c_names (mk_config_mtg a1) = [0%N] /\ c_defs (mk_config_mtg a1) = [0%N].
Proof. split; reflexivity. Qed.
Definition cm : config := mk_config_mtg {| ma_names := None; ma_defs := None; ma_edge := 0%N |}.
Example mtg_history : t_run cm t_init [TRead; TFind gB gA true; TRead; TFind gA gB true; TRead] =
                      {| t_maps := [[(1, 6); (2, 5)]%N]; t_last := 2 |}.
Proof. vm_compute. reflexivity. Qed.
(** a value float() rejects equals only itself (after repair /repo 24a0150; before it, it matched nothing) *)
Example mtg_tuple_order : t_last (t_run cm t_init [TFind gT gT true]) = 2 /\ t_last (t_run cm t_init [TFind gA gT true]) = 1.
Proof. split; vm_compute; reflexivity. Qed.
End Example_mtg.
