(** C11 (round 5) — the orbits REPORTED for a disconnected graph (orbits of the components, component swaps excluded)
    are never separated by the estimate either: an automorphism of a component extends, by the identity elsewhere, to
    an automorphism of the whole graph, so a per-component orbit lies inside an orbit of the full group, which the WL
    colours never split (C11_wl_never_splits).  Hence OrbitAccuracy's guarantees hold for every graph.  Stdlib lists. *)
From Coq Require Import List NArith ZArith Bool Arith Lia.
From SK Require Import lib.Tok lib.LGraph lib.Mono lib.Reach model.C11_Model model.C11_Orbit
     proof.C11_Aut proof.C11_WL proof.C11_Main proof.C11_Comp proof.C11_WLPart proof.C11_OrbitProof.
Import ListNotations.

(** ---------- lookups in an induced subgraph ---------- *)
Lemma assoc_filter_keep {V} (c : list N) u (l : list (N * V)) :
  assoc u (filter (fun p => LGraph.mem (fst p) c) l) = if LGraph.mem u c then assoc u l else None.
Proof.
  induction l as [|[k v] r IH]; simpl; [destruct (LGraph.mem u c); reflexivity|].
  destruct (LGraph.mem k c) eqn:Ek; simpl.
  - destruct (N.eqb_spec u k) as [->|Hne]; [rewrite Ek; reflexivity | exact IH].
  - destruct (N.eqb_spec u k) as [->|Hne]; [rewrite Ek in *; exact IH | exact IH].
Qed.

Lemma find_edge_filter_keep {B} (c : list N) u v (es : list (N * N * B)) :
  find_edge u v (filter (fun e => let '(a, b, _) := e in LGraph.mem a c && LGraph.mem b c) es) =
  if LGraph.mem u c && LGraph.mem v c then find_edge u v es else None.
Proof.
  induction es as [|[[a b] x] r IH]; [simpl; destruct (LGraph.mem u c && LGraph.mem v c); reflexivity|].
  cbn [filter find_edge].
  destruct ((N.eqb a u && N.eqb b v) || (N.eqb a v && N.eqb b u)) eqn:M.
  - assert (Hk : LGraph.mem a c && LGraph.mem b c = LGraph.mem u c && LGraph.mem v c).
    { apply orb_true_iff in M. destruct M as [M|M]; apply andb_true_iff in M; destruct M as [M1 M2];
        apply N.eqb_eq in M1; apply N.eqb_eq in M2; subst; [reflexivity | apply andb_comm]. }
    rewrite <- Hk. destruct (LGraph.mem a c && LGraph.mem b c) eqn:K.
    + cbn [find_edge]. rewrite M. reflexivity.
    + rewrite IH, <- Hk. reflexivity.
  - destruct (LGraph.mem a c && LGraph.mem b c) eqn:K; [cbn [find_edge]; rewrite M|]; exact IH.
Qed.

Lemma induced_label (g : graph) c u : In u c -> label (induced_sub g c) u = label g u.
Proof.
  intros Hu. unfold label, induced_sub. simpl. rewrite assoc_filter_keep.
  rewrite (proj2 (LGraph.mem_spec u c) Hu). reflexivity.
Qed.

Lemma induced_adj (g : graph) c u v : In u c -> In v c -> LGraph.adj (induced_sub g c) u v = LGraph.adj g u v.
Proof.
  intros Hu Hv. unfold LGraph.adj, induced_sub. simpl. rewrite find_edge_filter_keep.
  rewrite (proj2 (LGraph.mem_spec u c) Hu), (proj2 (LGraph.mem_spec v c) Hv). reflexivity.
Qed.

(** ---------- a component is closed under adjacency ---------- *)
Section Ext.
Variable fn : nlab -> N.
Variable fe : elab -> N.
Variable g : graph.
Hypothesis Hwf : wf g.
Variable c : list N.
Hypothesis Hc : In c (components g).

Lemma comp_nodes x : In x c -> In x (node_ids g).
Proof.
  destruct (components_spec g Hwf) as (H1 & _ & _). destruct (H1 c Hc) as (u0 & Hu0 & Hx).
  intros Hin. apply Hx in Hin. induction Hin as [y Hy|a b Ha IH Hb].
  - destruct Hy as [<-|[]]. exact Hu0.
  - exact (nbrs_nodes g Hwf a b Hb).
Qed.

Lemma comp_closed u v : In u c -> LGraph.adj g u v <> None -> In v c.
Proof.
  destruct (components_spec g Hwf) as (H1 & _ & _). destruct (H1 c Hc) as (u0 & Hu0 & Hx).
  intros Hu Hadj. apply Hx. eapply conn_step; [apply Hx; exact Hu|].
  apply (nbrs_adj g Hwf). exact Hadj.
Qed.

Lemma adj_leaves_none u v : In u c -> ~ In v c -> LGraph.adj g u v = None.
Proof.
  intros Hu Hv. destruct (LGraph.adj g u v) eqn:E; [|reflexivity].
  exfalso. apply Hv. apply (comp_closed u v Hu). rewrite E. discriminate.
Qed.

Definition extend_by_id (s : N -> N) (u : N) : N := if LGraph.mem u c then s u else u.

Lemma component_aut_extends s :
  is_automorphism fn fe (induced_sub g c) s -> is_automorphism fn fe g (extend_by_id s).
Proof.
  intros (S1 & S2 & S3 & S4).
  assert (Hin : forall u, In u c -> In u (node_ids (induced_sub g c))).
  { intros u Hu. apply induced_node; [apply comp_nodes; exact Hu | exact Hu]. }
  assert (Hsc : forall u, In u c -> In (s u) c).
  { intros u Hu. apply (induced_nodes_in g c (s u)). apply S1. apply Hin. exact Hu. }
  unfold extend_by_id. split; [|split; [|split]].
  - intros u Hu. destruct (LGraph.mem u c) eqn:M; [|exact Hu].
    apply LGraph.mem_spec in M. apply comp_nodes. apply Hsc. exact M.
  - intros u v Hu Hv. destruct (LGraph.mem u c) eqn:Mu; destruct (LGraph.mem v c) eqn:Mv; intros E.
    + apply LGraph.mem_spec in Mu. apply LGraph.mem_spec in Mv. apply S2; [apply Hin; exact Mu | apply Hin; exact Mv | exact E].
    + exfalso. apply LGraph.mem_spec in Mu. pose proof (Hsc u Mu) as H. rewrite E in H. apply LGraph.mem_spec in H. congruence.
    + exfalso. apply LGraph.mem_spec in Mv. pose proof (Hsc v Mv) as H. rewrite <- E in H. apply LGraph.mem_spec in H. congruence.
    + exact E.
  - intros u Hu. destruct (LGraph.mem u c) eqn:M; [|reflexivity]. apply LGraph.mem_spec in M.
    pose proof (S3 u (Hin u M)) as H. unfold lab_of in *.
    rewrite (induced_label g c (s u) (Hsc u M)), (induced_label g c u M) in H. exact H.
  - intros u v Hu Hv. destruct (LGraph.mem u c) eqn:Mu; destruct (LGraph.mem v c) eqn:Mv.
    + apply LGraph.mem_spec in Mu. apply LGraph.mem_spec in Mv.
      pose proof (S4 u v (Hin u Mu) (Hin v Mv)) as H. unfold adj_of in *.
      rewrite (induced_adj g c (s u) (s v) (Hsc u Mu) (Hsc v Mv)), (induced_adj g c u v Mu Mv) in H. exact H.
    + apply LGraph.mem_spec in Mu. assert (Hv' : ~ In v c) by (intros H; apply LGraph.mem_spec in H; congruence).
      unfold adj_of. rewrite (adj_leaves_none (s u) v (Hsc u Mu) Hv'), (adj_leaves_none u v Mu Hv'). reflexivity.
    + apply LGraph.mem_spec in Mv. assert (Hu' : ~ In u c) by (intros H; apply LGraph.mem_spec in H; congruence).
      unfold adj_of. rewrite (adj_sym g u (s v)), (adj_sym g u v).
      rewrite (adj_leaves_none (s v) u (Hsc v Mv) Hu'), (adj_leaves_none v u Mv Hu'). reflexivity.
    + reflexivity.
Qed.

Lemma component_orbit_in_graph_orbit u v :
  same_orbit fn fe (induced_sub g c) u v -> same_orbit fn fe g u v.
Proof.
  pose proof (wf_simple g Hwf) as Hs.
  intros H. apply (same_orbit_fun fn fe (induced_sub g c) (induced_simple g c Hs)) in H.
  destruct H as (s & Hs' & Hu & ->).
  apply (same_orbit_fun fn fe g Hs). exists (extend_by_id s). split; [apply component_aut_extends; exact Hs'|].
  destruct (induced_nodes_in g c u Hu) as [Hun Huc]. split; [exact Hun|].
  unfold extend_by_id. rewrite (proj2 (LGraph.mem_spec u c) Huc). reflexivity.
Qed.
End Ext.

(** ---------- the reported orbits are never separated ---------- *)
Lemma reported_orbit_in_graph_orbit fn fe (g : graph) : wf g ->
  forall o u v, In o (a_orbits (analyze fn fe g)) -> In u o -> In v o -> same_orbit fn fe g u v.
Proof.
  intros Hwf o u v Ho Hu Hv. pose proof (wf_simple g Hwf) as Hs.
  destruct (le_lt_dec (length (components g)) 1) as [Hc|Hc].
  - destruct (analyze_orbits_connected fn fe g Hs Hc) as (_ & _ & _ & _ & H5). apply (H5 o u v Ho Hu). exact Hv.
  - destruct (orbits_partition_all fn fe g Hwf) as (_ & _ & _ & _ & H5).
    destruct (proj1 (H5 Hc o u v Ho Hu) Hv) as (c & Hcin & _ & Hrel).
    exact (component_orbit_in_graph_orbit fn fe g Hwf c Hcin u v Hrel).
Qed.

Theorem wl_never_splits_reported (fn : nlab -> N) (fe : elab -> N) (g : graph) (k : nat) : wf g ->
  (forall c s, In c (components g) -> is_automorphism fn fe (induced_sub g c) s ->
     is_automorphism fn fe g (fun u => if LGraph.mem u c then s u else u)) /\
  (forall o u v, In o (a_orbits (analyze fn fe g)) -> In u o -> In v o ->
     col (wl fn fe g k) v = col (wl fn fe g k) u) /\
  (forall o u, In o (a_orbits (analyze fn fe g)) -> In u o ->
     exists a, In a (wl_orbits (wl fn fe g k)) /\ forall v, In v o -> In v a).
Proof.
  intros Hwf. split; [|split].
  - intros c s Hc Hs. exact (component_aut_extends fn fe g Hwf c Hc s Hs).
  - intros o u v Ho Hu Hv. destruct (reported_orbit_in_graph_orbit fn fe g Hwf o u v Ho Hu Hv) as (m & Hm & Hin).
    destruct (wl_never_splits_all fn fe g k Hwf) as (_ & H & _). exact (H m u v Hm Hin).
  - intros o u Ho Hu.
    destruct (orbits_partition_all fn fe g Hwf) as (_ & P2 & _).
    destruct (wl_orbits_partition fn fe g k (proj1 Hwf)) as (A1 & _).
    destruct (A1 u (P2 o u Ho Hu)) as (a & Ha & Hua). exists a. split; [exact Ha|].
    intros v Hv. apply (wl_orbits_never_split fn fe g k a u v Hwf Ha Hua).
    exact (reported_orbit_in_graph_orbit fn fe g Hwf o u v Ho Hu Hv).
Qed.

(** ---------- OrbitAccuracy for every graph ---------- *)
Theorem orbit_accuracy_all (fn : nlab -> N) (fe : elab -> N) (g : graph) (k : nat) :
  wf g ->
  let A := wl_orbits (wl fn fe g k) in
  let E := a_orbits (analyze fn fe g) in
  oa_valid A E = true /\
  (forall a e, In a A -> In e E -> inter_size a e = 0%N \/ inter_size a e = N.of_nat (length (canonN e))) /\
  (forall u v, In u (node_ids g) -> same_in E u v = true -> same_in A u v = true) /\
  ((forall u v, In u (node_ids g) -> In v (node_ids g) -> same_in A u v = true -> same_in E u v = true) ->
   fst (oa_pairwise A E) = snd (oa_pairwise A E)).
Proof.
  intros Hwf A E.
  destruct (orbits_partition_all fn fe g Hwf) as (E1 & E2 & E3 & _ & _).
  destruct (wl_orbits_partition fn fe g k (proj1 Hwf)) as (A1 & A2 & _ & _).
  set (R := fun u v => exists o, In o E /\ In u o /\ In v o).
  assert (R_sym : forall u v, R u v -> R v u) by (intros u v (o & H1 & H2 & H3); exists o; tauto).
  assert (E_exact : forall e u v, In e E -> In u e -> (In v e <-> R u v)).
  { intros e u v He Hu. split; [intros Hv; exists e; tauto|].
    intros (o & Ho & Huo & Hvo). rewrite (E3 e o u He Ho Hu Huo). exact Hvo. }
  assert (A_closed : forall a u v, In a A -> In u a -> R u v -> In v a).
  { intros a u v Ha Hu (o & Ho & Huo & Hvo). apply (wl_orbits_never_split fn fe g k a u v Hwf Ha Hu).
    exact (reported_orbit_in_graph_orbit fn fe g Hwf o u v Ho Huo Hvo). }
  assert (A_cover : forall u, In u (node_ids g) <-> exists a, In a A /\ In u a).
  { intros u. split; [apply A1 | intros (a & Ha & Hu); exact (A2 a u Ha Hu)]. }
  assert (E_cover : forall u, In u (node_ids g) <-> exists e, In e E /\ In u e).
  { intros u. split; [apply E1 | intros (e & He & Hu); exact (E2 e u He Hu)]. }
  split; [|split; [|split]].
  - exact (coarser_valid (node_ids g) A E A_cover E_cover).
  - exact (coarser_confusion R A E E_exact A_closed).
  - exact (coarser_same R (node_ids g) A E R_sym E_exact A_closed E_cover).
  - exact (coarser_perfect R (node_ids g) A E R_sym E_exact A_closed A_cover E_cover).
Qed.

(** non-vacuity: two edges C-C, C-C (two components): the swap inside the first component extends to the whole graph;
    the reported orbits {1,2}, {3,4} lie inside the single estimated class *)
Definition ex_2e : graph :=
  LG [(1%N, (0%N, 0%N, 0%N)); (2%N, (0%N, 0%N, 0%N)); (3%N, (0%N, 0%N, 0%N)); (4%N, (0%N, 0%N, 0%N))]
     [(1%N, 2%N, (0%N, 0%N)); (3%N, 4%N, (0%N, 0%N))].
Example ex_extend :
  wfb ex_2e = true /\ components ex_2e = [[2; 1]; [4; 3]]%N /\
  a_orbits (analyze n_exact e_order ex_2e) = [[1; 2]; [3; 4]]%N /\
  wl_orbits (wl n_exact e_order ex_2e 10) = [[1; 2; 3; 4]]%N /\
  In [(2, 1); (1, 2)]%N (auts n_exact e_order (induced_sub ex_2e [2; 1]%N)) /\
  In [(4, 4); (3, 3); (2, 1); (1, 2)]%N (auts n_exact e_order ex_2e) /\
  oa_metrics (wl_orbits (wl n_exact e_order ex_2e 10)) (a_orbits (analyze n_exact e_order ex_2e)) =
    L [ I 0%Z; L [I 0%Z; I 4%Z]; L [I 2%Z; I 4%Z]; L [I 2%Z; I 6%Z] ].
Proof. vm_compute. repeat split; tauto. Qed.

(** ---------- the reported orbits of a disconnected graph, semantically: no component swaps ---------- *)
(** an automorphism of the whole graph that maps every component into itself *)
Definition keeps_components (g : graph) (s : N -> N) : Prop :=
  forall c x, In c (components g) -> In x c -> In (s x) c.

Section Restrict.
Variable fn : nlab -> N.
Variable fe : elab -> N.
Variable g : graph.
Hypothesis Hwf : wf g.
Variable c : list N.
Hypothesis Hc : In c (components g).

Lemma restriction_is_aut s :
  is_automorphism fn fe g s -> keeps_components g s -> is_automorphism fn fe (induced_sub g c) s.
Proof.
  intros (S1 & S2 & S3 & S4) Hk.
  assert (Hin : forall u, In u (node_ids (induced_sub g c)) -> In u (node_ids g) /\ In u c) by (intros u; apply induced_nodes_in).
  split; [|split; [|split]].
  - intros u Hu. destruct (Hin u Hu) as [Hun Huc]. apply induced_node; [apply S1; exact Hun | apply (Hk c u Hc Huc)].
  - intros u v Hu Hv. apply S2; [apply (Hin u Hu) | apply (Hin v Hv)].
  - intros u Hu. destruct (Hin u Hu) as [Hun Huc]. unfold lab_of.
    rewrite (induced_label g c (s u) (Hk c u Hc Huc)), (induced_label g c u Huc). apply S3. exact Hun.
  - intros u v Hu Hv. destruct (Hin u Hu) as [Hun Huc]. destruct (Hin v Hv) as [Hvn Hvc]. unfold adj_of.
    rewrite (induced_adj g c (s u) (s v) (Hk c u Hc Huc) (Hk c v Hc Hvc)), (induced_adj g c u v Huc Hvc).
    apply S4; assumption.
Qed.

Lemma extension_keeps_components s :
  is_automorphism fn fe (induced_sub g c) s -> keeps_components g (extend_by_id c s).
Proof.
  intros (S1 & _) c' x Hc' Hx. unfold extend_by_id.
  destruct (LGraph.mem x c) eqn:M; [|exact Hx].
  apply LGraph.mem_spec in M.
  assert (Hsx : In (s x) c).
  { apply (induced_nodes_in g c (s x)). apply S1. apply induced_node; [apply (comp_nodes g Hwf c Hc); exact M | exact M]. }
  destruct (components_spec g Hwf) as (_ & Hdisj & _).
  rewrite <- (pairwise_disjoint_eq _ Hdisj c c' x Hc Hc' M Hx). exact Hsx.
Qed.
End Restrict.

Theorem orbits_no_swaps (fn : nlab -> N) (fe : elab -> N) (g : graph) : wf g ->
  forall o u v, In o (a_orbits (analyze fn fe g)) -> In u o ->
    (In v o <-> exists s, is_automorphism fn fe g s /\ keeps_components g s /\ s u = v).
Proof.
  intros Hwf o u v Ho Hu. pose proof (wf_simple g Hwf) as Hs.
  destruct (orbits_partition_all fn fe g Hwf) as (_ & P2 & _ & _ & P5).
  destruct (le_lt_dec (length (components g)) 1) as [Hc|Hc].
  - (* at most one component: every automorphism keeps it *)
    destruct (analyze_orbits_connected fn fe g Hs Hc) as (_ & _ & _ & _ & H5).
    rewrite (H5 o u v Ho Hu), (same_orbit_fun fn fe g Hs). split.
    + intros (s & Hsa & Hun & ->). exists s. split; [exact Hsa|]. split; [|reflexivity].
      intros c x Hcin Hx.
      destruct (components_spec g Hwf) as (C1 & Hdisj & C3).
      destruct Hsa as (S1 & _).
      assert (Hxn : In x (node_ids g)) by exact (comp_nodes g Hwf c Hcin x Hx).
      destruct (C3 (s x) (S1 x Hxn)) as (c' & Hc' & Hsx).
      assert (c' = c).
      { destruct (components g) as [|c0 [|c1 r]]; simpl in Hc; try lia; [destruct Hcin|].
        destruct Hcin as [<-|[]]. destruct Hc' as [<-|[]]. reflexivity. }
      subst c'. exact Hsx.
    + intros (s & Hsa & _ & <-). exists s. split; [exact Hsa|]. split; [exact (P2 o u Ho Hu) | reflexivity].
  - rewrite (P5 Hc o u v Ho Hu). split.
    + intros (c & Hcin & Huc & Hrel).
      apply (same_orbit_fun fn fe (induced_sub g c) (induced_simple g c Hs)) in Hrel.
      destruct Hrel as (s & Hsa & Hun & ->).
      exists (extend_by_id c s). split; [exact (component_aut_extends fn fe g Hwf c Hcin s Hsa)|].
      split; [exact (extension_keeps_components fn fe g Hwf c Hcin s Hsa)|].
      unfold extend_by_id. rewrite (proj2 (LGraph.mem_spec u c) Huc). reflexivity.
    + intros (s & Hsa & Hk & <-).
      destruct (components_spec g Hwf) as (_ & _ & C3).
      destruct (C3 u (P2 o u Ho Hu)) as (c & Hcin & Huc).
      exists c. split; [exact Hcin|]. split; [exact Huc|].
      apply (same_orbit_fun fn fe (induced_sub g c) (induced_simple g c Hs)).
      exists s. split; [exact (restriction_is_aut fn fe g c Hcin s Hsa Hk)|].
      split; [apply induced_node; [exact (P2 o u Ho Hu) | exact Huc] | reflexivity].
Qed.
