(** C10 — proofs, part 7: its_decompose and the GML writer on a reaction-centre-shaped ITS graph ([its_ok]),
    and the round trip ITS -> GML -> ITS. *)
From Coq Require Import String List NArith ZArith Bool Lia.
From SK Require Import lib.Tok lib.LGraph lib.StrJoin model.C10_Model proof.C10_Proof proof.C10_Views proof.C10_Build
  proof.C10_GmlRead.
Import ListNotations.
Local Open Scope Z_scope.

Definition ord_of (x : eatt) : Z * Z := match e_ord x with Some (OP a b) => (a, b) | _ => (0, 0) end.

(** ** what [its_ok] gives *)
Lemma its_ok_gwf c : its_ok c = true -> gwf c.
Proof.
  unfold its_ok. rewrite !andb_true_iff. intros [[[H1 H2] _] H4]. split; [apply nodupb_NoDup; exact H1|exact H2|].
  intros a b x Hin. rewrite forallb_forall in H4. specialize (H4 _ Hin). unfold its_edge_ok in H4.
  rewrite !andb_true_iff in H4. tauto.
Qed.
Lemma its_ok_node c n a : its_ok c = true -> label c n = Some a ->
  exists e ar h q ar' h' q', a_tgh a = Some ((e, ar, h, q), (e, ar', h', q')) /\ a_el a = Some e /\ a_ch a = Some q /\ elem_str e.
Proof.
  unfold its_ok. rewrite !andb_true_iff. intros [[_ H3] _] L. apply assoc_in in L. rewrite forallb_forall in H3.
  specialize (H3 _ L). simpl in H3. unfold its_node_ok in H3.
  destruct (a_tgh a) as [[[[[e ar] h] q] [[[e' ar'] h'] q']]|]; [|discriminate].
  destruct (a_el a) as [el|]; [|discriminate]. destruct (a_ch a) as [ch|]; [|discriminate].
  rewrite !andb_true_iff in H3. destruct H3 as [[[E1 E2] E3] E4].
  apply str_eqb_eq in E1, E2. apply Z.eqb_eq in E4. subst.
  exists e, ar, h, q, ar', h', q'. repeat split; try reflexivity.
  - unfold elem_ok in E3. destruct e; [discriminate|discriminate].
  - unfold elem_ok in E3. destruct e; [discriminate|]. apply Forall_forall. rewrite forallb_forall in E3. exact E3.
Qed.
Lemma its_ok_edge c u v x : its_ok c = true -> adj c u v = Some x ->
  exists a b, x = EA (Some (OP a b)) (Some (a - b)) /\ ord_ok a = true /\ ord_ok b = true /\ (a <> 0 \/ b <> 0) /\
              has_node c u = true /\ has_node c v = true.
Proof.
  intros Hok A. pose proof (its_ok_gwf c Hok) as W. unfold adj in A. apply find_some_in in A.
  destruct A as (a0 & b0 & Hin & P).
  unfold its_ok in Hok. rewrite !andb_true_iff in Hok. destruct Hok as [_ H4]. rewrite forallb_forall in H4.
  specialize (H4 _ Hin). unfold its_edge_ok in H4. rewrite !andb_true_iff in H4. destruct H4 as [[[_ Ha] Hb] H4].
  destruct x as [[[o|a b]|] [s|]]; simpl in H4; try discriminate.
  rewrite !andb_true_iff in H4. destruct H4 as [[[O1 O2] O3] O4]. apply Z.eqb_eq in O4. subst s.
  exists a, b. repeat split; auto.
  - apply negb_true_iff in O3. apply andb_false_iff in O3. rewrite !Z.eqb_neq in O3. exact O3.
  - apply pair_eqb_spec in P. destruct P as [[<- <-]|[<- <-]]; assumption.
  - apply pair_eqb_spec in P. destruct P as [[<- <-]|[<- <-]]; assumption.
Qed.

(** the same facts as a proposition about the two lookups (so that they transfer between graphs with equal
    lookups, e.g. from the centre to the centre of the centre) *)
Definition node_okP (a : natt) : Prop :=
  exists e ar h q ar' h' q', a_tgh a = Some ((e, ar, h, q), (e, ar', h', q')) /\ a_el a = Some e /\ a_ch a = Some q /\ elem_str e.
Definition edge_okP (c : gr) (u v : N) (x : eatt) : Prop :=
  exists a b, x = EA (Some (OP a b)) (Some (a - b)) /\ ord_ok a = true /\ ord_ok b = true /\ (a <> 0 \/ b <> 0) /\
              has_node c u = true /\ has_node c v = true.
Definition IOK (c : gr) : Prop :=
  gwf c /\ (forall n a, label c n = Some a -> node_okP a) /\ (forall u v x, adj c u v = Some x -> edge_okP c u v x).
Lemma its_ok_IOK c : its_ok c = true -> IOK c.
Proof.
  intros H. split; [apply its_ok_gwf; exact H|split].
  - intros n a L. apply (its_ok_node c n a H L).
  - intros u v x A. apply (its_ok_edge c u v x H A).
Qed.
Lemma iok_gwf c : IOK c -> gwf c.
Proof. intros H. apply H. Qed.
Lemma iok_node c n a : IOK c -> label c n = Some a ->
  exists e ar h q ar' h' q', a_tgh a = Some ((e, ar, h, q), (e, ar', h', q')) /\ a_el a = Some e /\ a_ch a = Some q /\ elem_str e.
Proof. intros H L. apply (proj1 (proj2 H) n a L). Qed.
Lemma iok_edge c u v x : IOK c -> adj c u v = Some x ->
  exists a b, x = EA (Some (OP a b)) (Some (a - b)) /\ ord_ok a = true /\ ord_ok b = true /\ (a <> 0 \/ b <> 0) /\
              has_node c u = true /\ has_node c v = true.
Proof. intros H A. apply (proj2 (proj2 H) u v x A). Qed.

(** ** its_decompose *)
Definition dn1 (T : natt -> tg) (p : N * natt) : natt := side_att (T (snd p)) (fst p).
Definition dd (c : gr) (j : bool) (u v : N) : option eatt :=
  match adj c u v with
  | Some x => let o := if j then snd (ord_of x) else fst (ord_of x) in
              if 0 <? o then Some (EA (Some (OS o)) None) else None
  | None => None
  end.
Lemma dd_sym c j u v : dd c j u v = dd c j v u.
Proof. unfold dd. rewrite adj_sym. reflexivity. Qed.
Definition pr (e : N * N * eatt) : N * N := fst e.

Definition side_nodes (c : gr) (T : natt -> tg) : gr := fold_left (nstep (dn1 T)) (gnodes c) g_empty.
Definition side_graph (c : gr) (j : bool) : gr :=
  fold_left (estep (dd c j)) (map pr (edges_iter c)) (side_nodes c (if j then tH_of else tG_of)).

Lemma its_decompose_sides c : IOK c -> its_decompose c = (side_graph c false, side_graph c true).
Proof.
  intros Hok. pose proof (iok_gwf c Hok) as W. unfold its_decompose.
  assert (dec_nodes c (g_empty, g_empty) = (side_nodes c tG_of, side_nodes c tH_of)) as ->.
  { unfold dec_nodes, side_nodes.
    rewrite (fold_left_ext_in _ (fun acc p => (nstep (dn1 tG_of) (fst acc) p, nstep (dn1 tH_of) (snd acc) p))).
    - apply (fold_pair_fst (nstep (dn1 tG_of)) (nstep (dn1 tH_of)) (gnodes c) (g_empty, g_empty)).
    - intros acc [n a] Hin. apply (assoc_nodup_in n (gnodes c) a (gwf_nd c W)) in Hin.
      destruct (iok_node c n a Hok Hin) as (e & ar & h & q & ar' & h' & q' & Ht & _).
      unfold nstep, dn1, tG_of, tH_of. simpl. rewrite Ht. reflexivity. }
  unfold dec_edges, side_graph.
  rewrite (fold_left_ext_in _ (fun acc e => (estep (dd c false) (fst acc) (pr e), estep (dd c true) (snd acc) (pr e)))).
  - rewrite (fold_pair_fst (fun a e => estep (dd c false) a (pr e)) (fun a e => estep (dd c true) a (pr e))).
    simpl. rewrite !fold_left_map'. reflexivity.
  - intros acc [[u v] x] Hin. pose proof (edges_iter_data c u v x W Hin) as A.
    destruct (iok_edge c u v x Hok A) as (a & b & -> & _).
    unfold estep, dd, pr. simpl. rewrite A. simpl. destruct acc as [g1 g2]. simpl.
    destruct (0 <? a); destruct (0 <? b); reflexivity.
Qed.

Lemma side_nodes_label c T n : gwf c ->
  label (side_nodes c T) n = option_map (fun a => side_att (T a) n) (label c n).
Proof.
  intros W. unfold side_nodes. rewrite fold_nstep_label by apply (gwf_nd c W). fold (label c n).
  destruct (label c n); reflexivity.
Qed.
Lemma side_nodes_gedges c T : gedges (side_nodes c T) = [].
Proof. unfold side_nodes. rewrite fold_nstep_gedges. reflexivity. Qed.

Lemma pmatch_map_pr u v l : pmatch u v (map pr l) = has_pair u v l.
Proof. unfold pmatch, has_pair. induction l as [|e r IH]; [reflexivity|]. simpl. rewrite IH. reflexivity. Qed.

Lemma side_graph_gnodes c j : IOK c ->
  gnodes (side_graph c j) = gnodes (side_nodes c (if j then tH_of else tG_of)).
Proof.
  intros Hok. pose proof (iok_gwf c Hok) as W. unfold side_graph. apply fold_estep_node_ids.
  intros e He. apply in_map_iff in He. destruct He as ([[u v] x] & <- & Hin). simpl.
  pose proof (edges_iter_data c u v x W Hin) as A. destruct (iok_edge c u v x Hok A) as (a & b & _ & _ & _ & _ & Hu & Hv).
  apply has_node_label in Hu, Hv. destruct Hu as [au Hu]. destruct Hv as [av Hv].
  split; apply has_node_label; rewrite side_nodes_label by exact W; [rewrite Hu|rewrite Hv]; simpl; eauto.
Qed.
Lemma side_graph_label c j n : IOK c ->
  label (side_graph c j) n = option_map (fun a => side_att ((if j then tH_of else tG_of) a) n) (label c n).
Proof.
  intros Hok. unfold label at 1. rewrite side_graph_gnodes by exact Hok. apply side_nodes_label. apply iok_gwf. exact Hok.
Qed.
Lemma side_graph_gwf c j : gwf (side_graph c j).
Proof. unfold side_graph. apply fold_estep_gwf. unfold side_nodes. apply fold_nstep_gwf. apply gwf_empty. Qed.
Lemma side_graph_adj c j u v : IOK c -> adj (side_graph c j) u v = dd c j u v.
Proof.
  intros Hok. pose proof (iok_gwf c Hok) as W. unfold side_graph.
  rewrite (fold_estep_adj (dd c j) (dd_sym c j)).
  - rewrite pmatch_map_pr, has_pair_edges_iter by exact W. unfold adj at 2. rewrite side_nodes_gedges. simpl.
    unfold dd. destruct (adj c u v); reflexivity.
  - left. unfold adj. rewrite side_nodes_gedges. reflexivity.
Qed.

(** ** the entries the writer emits *)
Definition Eent (d : Z) (e : N * N * eatt) : gent := let '(u, v, x) := e in GEdge u v (order_label_any (e_ord x) d).
Definition Nent (sel : N -> bool) (p : N * natt) : list gent :=
  if sel (fst p) then [GNode (fst p) (node_label (snd p))] else [].

Lemma side_entries_eq g ch :
  side_entries g ch = map (Eent 2) (edges_iter g) ++ flat_map (Nent (fun n => mem n ch)) (gnodes g).
Proof. reflexivity. Qed.
Lemma context_entries_eq g ch :
  context_entries g ch false = flat_map (Nent (fun n => negb (mem n ch))) (gnodes g).
Proof.
  unfold context_entries. rewrite app_nil_r. apply flat_map_ext. intros [n a]. unfold Nent. simpl.
  destruct (mem n ch); reflexivity.
Qed.

Lemma opt_eta {A} (x : option A) : match x with Some y => Some y | None => None end = x.
Proof. destruct x; reflexivity. Qed.

Lemma gn_find_sel sel l n : NoDup (map fst l) ->
  gn_find n (rev (flat_map (Nent sel) l)) =
  match assoc n l with Some a => if sel n then Some (node_label a) else None | None => None end.
Proof.
  induction l as [|[k a0] r IH]; intros Hnd; [reflexivity|]. inversion Hnd as [|? ? Hnot Hnd']; subst.
  simpl flat_map. rewrite rev_app_distr, gn_find_app, (IH Hnd'). simpl assoc.
  destruct (N.eqb_spec n k) as [->|Hne].
  - apply assoc_none_iff in Hnot. rewrite Hnot. unfold Nent. simpl. destruct (sel k); simpl; [rewrite N.eqb_refl|]; reflexivity.
  - assert (gn_find n (rev (Nent sel (k, a0))) = None) as ->.
    { unfold Nent. simpl. destruct (sel k); simpl; [|reflexivity]. destruct (N.eqb_spec k n); [congruence|reflexivity]. }
    destruct (assoc n r); [destruct (sel n)|]; reflexivity.
Qed.

Definition is_gnode (e : gent) : Prop := match e with GNode _ _ => True | GEdge _ _ _ => False end.
Definition is_gedge (e : gent) : Prop := match e with GNode _ _ => False | GEdge _ _ _ => True end.
Lemma gn_find_edges n l : (forall e, In e l -> is_gedge e) -> gn_find n l = None.
Proof.
  induction l as [|e r IH]; intros H; [reflexivity|]. destruct e as [id lab|s t lab].
  - destruct (H (GNode id lab)). left. reflexivity.
  - simpl. apply IH. intros e He. apply H. right. exact He.
Qed.
Lemma ge_find_nodes u v l : (forall e, In e l -> is_gnode e) -> ge_find u v l = None.
Proof.
  induction l as [|e r IH]; intros H; [reflexivity|]. destruct e as [id lab|s t lab].
  - simpl. apply IH. intros e He. apply H. right. exact He.
  - destruct (H (GEdge s t lab)). left. reflexivity.
Qed.
Lemma endp_nodes n l : (forall e, In e l -> is_gnode e) -> endp n l = false.
Proof.
  induction l as [|e r IH]; intros H; [reflexivity|]. destruct e as [id lab|s t lab].
  - simpl. apply IH. intros e He. apply H. right. exact He.
  - destruct (H (GEdge s t lab)). left. reflexivity.
Qed.
Lemma Nent_nodes sel l e : In e (rev (flat_map (Nent sel) l)) -> is_gnode e.
Proof.
  rewrite <- in_rev, in_flat_map. intros (p & _ & H). unfold Nent in H. destruct (sel (fst p)); [|destruct H].
  destruct H as [<-|[]]. exact Logic.I.
Qed.
Lemma Eent_edges d l e : In e (rev (map (Eent d) l)) -> is_gedge e.
Proof. rewrite <- in_rev, in_map_iff. intros ([[u v] x] & <- & _). exact Logic.I. Qed.

Lemma ge_find_some_in u v l s : ge_find u v l = Some s -> exists a b, In (GEdge a b s) l /\ pair_eqb a b u v = true.
Proof.
  induction l as [|[id lab|a b lab] r IH]; [discriminate| |]; simpl.
  - intros H. destruct (IH H) as (a & b & Hin & P). exists a, b. auto.
  - destruct (pair_eqb a b u v) eqn:P.
    + intros [= ->]. exists a, b. auto.
    + intros H. destruct (IH H) as (a' & b' & Hin & P'). exists a', b'. auto.
Qed.
Lemma ge_find_in_some u v l a b s : In (GEdge a b s) l -> pair_eqb a b u v = true -> ge_find u v l <> None.
Proof.
  induction l as [|[id lab|a' b' lab] r IH]; [intros []| |]; simpl.
  - intros [E|H] P; [discriminate|apply IH; assumption].
  - intros [E|H] P.
    + inversion E; subst. rewrite P. discriminate.
    + destruct (pair_eqb a' b' u v); [discriminate|apply IH; assumption].
Qed.

Lemma ge_find_edges_iter (g : gr) d u v : gwf g ->
  ge_find u v (rev (map (Eent d) (edges_iter g))) = option_map (fun x => order_label_any (e_ord x) d) (adj g u v).
Proof.
  intros W. destruct (ge_find u v _) as [s|] eqn:F.
  - apply ge_find_some_in in F. destruct F as (a & b & Hin & P). rewrite <- in_rev, in_map_iff in Hin.
    destruct Hin as ([[a' b'] x] & E & Hin). simpl in E. inversion E; subst.
    apply (edges_iter_data g a b x W) in Hin. rewrite <- (adj_pair g _ _ _ _ P), Hin. reflexivity.
  - destruct (adj g u v) as [x|] eqn:A; [|reflexivity]. exfalso.
    assert (has_pair u v (edges_iter g) = true) as HP by (rewrite has_pair_edges_iter, A by exact W; reflexivity).
    unfold has_pair in HP. apply existsb_exists in HP. destruct HP as ([[a b] x'] & Hin & P). simpl in P.
    apply (ge_find_in_some u v (rev (map (Eent d) (edges_iter g))) a b (order_label_any (e_ord x') d)); [|exact P|exact F].
    rewrite <- in_rev. apply in_map_iff. exists (a, b, x'). split; [reflexivity|exact Hin].
Qed.
Lemma endp_edges_iter (g : gr) d n : gwf g -> endp n (rev (map (Eent d) (edges_iter g))) = true -> has_node g n = true.
Proof.
  intros W H. unfold endp in H. apply existsb_exists in H. destruct H as (e & Hin & He).
  rewrite <- in_rev, in_map_iff in Hin. destruct Hin as ([[a b] x] & <- & Hin). simpl in He.
  apply in_edges_from in Hin.
  assert (has_node g a = true /\ has_node g b = true) as [Ha Hb].
  { destruct Hin as [Hin|Hin]; destruct (gwf_cl g W _ _ _ Hin); auto. }
  apply orb_true_iff in He. rewrite !N.eqb_eq in He. destruct He as [<-|<-]; assumption.
Qed.

(** ** _find_changed_nodes *)
Definition cheq (a b : natt) : bool :=
  match a_ch a, a_ch b with Some x, Some y => x =? y | None, None => true | _, _ => false end.
Lemma mem_app x l1 l2 : mem x (l1 ++ l2) = mem x l1 || mem x l2.
Proof. apply existsb_app. Qed.
Lemma mem_fc_aux (Rg : gr) n (l : list (N * natt)) : NoDup (map fst l) ->
  mem n (flat_map (fun p : N * natt =>
              match label Rg (fst p) with
              | Some b => if match a_ch (snd p), a_ch b with
                             | Some x, Some y => x =? y
                             | None, None => true
                             | _, _ => false
                             end then [] else [fst p]
              | None => []
              end) l) =
  match assoc n l with
  | Some a => match label Rg n with Some b => negb (cheq a b) | None => false end
  | None => false
  end.
Proof.
  induction l as [|[k a0] r IH]; intros Hnd; [reflexivity|].
  inversion Hnd as [|? ? Hnot Hnd']; subst. simpl flat_map. rewrite mem_app, (IH Hnd'). simpl assoc.
  destruct (N.eqb_spec n k) as [->|Hne].
  - apply assoc_none_iff in Hnot. rewrite Hnot, orb_false_r. unfold cheq.
    destruct (label Rg k) as [b|]; [|reflexivity].
    destruct (a_ch a0), (a_ch b); try (destruct (_ =? _)); simpl; rewrite ?N.eqb_refl; reflexivity.
  - assert (forall l, (forall y, In y l -> y = k) -> mem n l = false) as Hk.
    { induction l as [|y l IHl]; intros H; [reflexivity|]. simpl. rewrite IHl by (intros z Hz; apply H; right; exact Hz).
      rewrite (H y) by (left; reflexivity). destruct (N.eqb_spec n k); [congruence|reflexivity]. }
    rewrite Hk; [reflexivity|]. intros y Hy. destruct (label Rg k); [|destruct Hy].
    destruct (match a_ch a0 with Some x => _ | None => _ end); [destruct Hy|]. destruct Hy as [<-|[]]. reflexivity.
Qed.
Lemma mem_find_changed (Lg Rg : gr) n : NoDup (node_ids Lg) ->
  mem n (find_changed Lg Rg) =
  match label Lg n with
  | Some a => match label Rg n with Some b => negb (cheq a b) | None => false end
  | None => false
  end.
Proof. intros Hnd. apply (mem_fc_aux Rg n (gnodes Lg) Hnd). Qed.

(** ** reading back what the writer emitted *)
Definition gnode_att (n : N) (e : str) (q : Z) : natt := NA (Some e) None (Some 0) (Some q) (Some (Z.of_N n)) None.
Lemma node_att_label n e q : elem_str e -> node_att n (e ++ charge_to_string q) = gnode_att n e q.
Proof. intros H. unfold node_att. rewrite (label_roundtrip e q H). reflexivity. Qed.
Lemma node_label_side t n : node_label (side_att t n) = tg_el t ++ charge_to_string (tg_ch t).
Proof. destruct t as [[[e a] h] q]. reflexivity. Qed.

Definition ctxg (c : gr) (ch : list N) : gr := parse_r (rev (context_entries c ch false)).
Lemma ctx_gedges c ch : gedges (ctxg c ch) = [].
Proof. unfold ctxg. rewrite context_entries_eq. apply parse_noedges. intros e He. exact (Nent_nodes _ _ _ He). Qed.
Lemma ctx_label c ch n : gwf c ->
  label (ctxg c ch) n =
  match label c n with Some a => if mem n ch then None else Some (node_att n (node_label a)) | None => None end.
Proof.
  intros W. unfold ctxg. rewrite parse_label, context_entries_eq, gn_find_sel by apply (gwf_nd c W).
  rewrite endp_nodes by (intros e He; exact (Nent_nodes _ _ _ He)).
  fold (label c n). destruct (label c n); [destruct (mem n ch)|]; reflexivity.
Qed.

Definition T_of (j : bool) : natt -> tg := if j then tH_of else tG_of.

(** a graph that carries one side (j = false: before, j = true: after) of the ITS c, whatever its insertion order and
    whatever else its node dictionaries hold: the GML writer reads only element, charge and the scalar order *)
Record side_like (c : gr) (j : bool) (s : gr) : Prop := {
  sl_wf : gwf s;
  sl_none : forall n, label c n = None -> label s n = None;
  sl_some : forall n a, label c n = Some a ->
            exists b, label s n = Some b /\ a_el b = Some (tg_el (T_of j a)) /\ a_ch b = Some (tg_ch (T_of j a));
  sl_adj : forall u v, adj s u v = dd c j u v }.

Lemma a_ch_side t n : a_ch (side_att t n) = Some (tg_ch t).
Proof. destruct t as [[[e a] h] q]. reflexivity. Qed.
Lemma a_el_side t n : a_el (side_att t n) = Some (tg_el t).
Proof. destruct t as [[[e a] h] q]. reflexivity. Qed.

Lemma side_graph_like c j : IOK c -> side_like c j (side_graph c j).
Proof.
  intros Hok. split.
  - apply side_graph_gwf.
  - intros n L. rewrite side_graph_label, L by exact Hok. reflexivity.
  - intros n a L. rewrite side_graph_label, L by exact Hok. simpl. eexists. split; [reflexivity|].
    unfold T_of. destruct j; rewrite a_el_side, a_ch_side; auto.
  - intros u v. apply side_graph_adj. exact Hok.
Qed.

Definition lftg (s : gr) (ch : list N) : gr := parse_r (rev (side_entries s ch)).
Definition sideS (c s : gr) (ch : list N) : gr := sync_side (ctxg c ch) (lftg s ch).

Lemma lft_gn c j s ch n : side_like c j s ->
  gn_find n (rev (side_entries s ch)) =
  match label c n with
  | Some a => if mem n ch then Some (tg_el (T_of j a) ++ charge_to_string (tg_ch (T_of j a))) else None
  | None => None
  end.
Proof.
  intros SL. rewrite side_entries_eq, rev_app_distr, gn_find_app.
  rewrite gn_find_sel by apply (gwf_nd _ (sl_wf _ _ _ SL)).
  rewrite gn_find_edges by (intros e He; exact (Eent_edges _ _ _ He)).
  fold (label s n). destruct (label c n) as [a|] eqn:L.
  - destruct (sl_some _ _ _ SL n a L) as (b & Lb & E1 & E2). rewrite Lb. unfold node_label. rewrite E1, E2. simpl.
    destruct (mem n ch); reflexivity.
  - rewrite (sl_none _ _ _ SL n L). reflexivity.
Qed.

Lemma sideS_label c j s ch n : IOK c -> side_like c j s ->
  (forall a, label c n = Some a -> elem_str (tg_el (T_of j a))) ->
  (forall a, label c n = Some a -> mem n ch = false -> a_el a = Some (tg_el (T_of j a)) /\ a_ch a = Some (tg_ch (T_of j a))) ->
  label (sideS c s ch) n = option_map (fun a => gnode_att n (tg_el (T_of j a)) (tg_ch (T_of j a))) (label c n).
Proof.
  intros Hok SL Hel HT. pose proof (iok_gwf c Hok) as W. unfold sideS.
  rewrite sync_label by (try apply parse_gwf; apply ctx_gedges). rewrite ctx_label by exact W.
  unfold lftg. rewrite parse_label, (lft_gn c j s ch n SL).
  destruct (label c n) as [a|] eqn:L; simpl.
  - destruct (mem n ch) eqn:M.
    + rewrite node_att_label by (apply Hel; reflexivity). reflexivity.
    + destruct (HT a eq_refl eq_refl) as [E1 E2]. unfold node_label. rewrite E1, E2. simpl.
      rewrite node_att_label by (apply Hel; reflexivity).
      match goal with |- context [endp n ?l] => destruct (endp n l) end; reflexivity.
  - match goal with |- context [endp n ?l] => destruct (endp n l) eqn:E end; [|reflexivity]. exfalso.
    rewrite side_entries_eq, rev_app_distr, endp_app in E.
    rewrite endp_nodes in E by (intros e He; exact (Nent_nodes _ _ _ He)). simpl in E.
    apply endp_edges_iter in E; [|apply (sl_wf _ _ _ SL)]. apply has_node_label in E. destruct E as [b Hb].
    rewrite (sl_none _ _ _ SL n L) in Hb. discriminate.
Qed.

Lemma sideS_adj c j s ch u v : side_like c j s ->
  adj (sideS c s ch) u v = option_map (fun x => edge_att (order_label_any (e_ord x) 2)) (dd c j u v).
Proof.
  intros SL. unfold sideS. rewrite sync_adj by apply ctx_gedges. unfold lftg. rewrite parse_adj.
  rewrite side_entries_eq, rev_app_distr, ge_find_app.
  rewrite ge_find_nodes by (intros e He; exact (Nent_nodes _ _ _ He)).
  rewrite ge_find_edges_iter by apply (sl_wf _ _ _ SL). rewrite (sl_adj _ _ _ SL).
  destruct (dd c j u v); reflexivity.
Qed.

Lemma ord_ok_cases o : ord_ok o = true -> o = 0 \/ o = 2 \/ o = 3 \/ o = 4 \/ o = 6.
Proof. unfold ord_ok. rewrite !orb_true_iff, !Z.eqb_eq. tauto. Qed.

(** before/after order of a pair as the synchronised side graph carries it *)
Lemma sideS_scal c (j : bool) s ch u v x : IOK c -> side_like c j s -> adj c u v = Some x ->
  let o := if j then snd (ord_of x) else fst (ord_of x) in
  scal_order (sideS c s ch) u v = o /\ is_some (adj (sideS c s ch) u v) = (0 <? o).
Proof.
  intros Hok SL A. destruct (iok_edge c u v x Hok A) as (a & b & -> & Oa & Ob & _).
  unfold scal_order. rewrite (sideS_adj c j s ch u v SL). unfold dd. rewrite A. unfold ord_of. simpl.
  destruct j; simpl.
  - destruct (ord_ok_cases b Ob) as [->|[->|[->|[->| ->]]]]; simpl; auto.
  - destruct (ord_ok_cases a Oa) as [->|[->|[->|[->| ->]]]]; simpl; auto.
Qed.
Lemma sideS_adj_none c j s ch u v : side_like c j s -> adj c u v = None -> adj (sideS c s ch) u v = None.
Proof. intros SL A. rewrite (sideS_adj c j s ch u v SL). unfold dd. rewrite A. reflexivity. Qed.

(** ** the round trip *)
Lemma chg_mem c sL sR n a : side_like c false sL -> side_like c true sR -> label c n = Some a ->
  mem n (find_changed sL sR) = negb (tg_ch (tG_of a) =? tg_ch (tH_of a)).
Proof.
  intros SL SR L. rewrite mem_find_changed by apply (gwf_nd _ (sl_wf _ _ _ SL)).
  destruct (sl_some _ _ _ SL n a L) as (b & Lb & _ & E2). destruct (sl_some _ _ _ SR n a L) as (b' & Lb' & _ & E2').
  rewrite Lb, Lb'. unfold cheq. rewrite E2, E2'. reflexivity.
Qed.

(** reader after writer on ANY triple (sL, sR, c) whose first two components carry the two sides of c *)
Theorem gml_pipeline c sL sR : IOK c -> side_like c false sL -> side_like c true sR ->
  let ch := find_changed sL sR in
  let I' := snd (gml_to_nx [(SLeft, side_entries sL ch); (SContext, context_entries c ch false); (SRight, side_entries sR ch)]) in
  (forall n, has_node I' n = has_node c n) /\
  (forall n a, label c n = Some a ->
     label I' n = Some (gml_node n (tg_el (tG_of a)) (tg_ch (tG_of a)) (tg_ch (tH_of a)))) /\
  (forall u v, adj I' u v = adj c u v).
Proof.
  intros Hok SL SR ch I'. pose proof (iok_gwf c Hok) as W.
  assert (I' = its_construct (sideS c sL ch) (sideS c sR ch) (union_pairs (sideS c sL ch) (sideS c sR ch))) as EI.
  { unfold I'. rewrite gml_to_nx_three. reflexivity. }
  (* node labels of the two synchronised sides *)
  assert (forall n, label (sideS c sL ch) n =
                    option_map (fun a => gnode_att n (tg_el (tG_of a)) (tg_ch (tG_of a))) (label c n)) as HL.
  { intros n. apply (sideS_label c false sL ch n Hok SL).
    - intros a L. destruct (iok_node c n a Hok L) as (e & ar & h & q & ar' & h' & q' & Ht & _ & _ & He).
      unfold T_of, tG_of. rewrite Ht. exact He.
    - intros a L _. destruct (iok_node c n a Hok L) as (e & ar & h & q & ar' & h' & q' & Ht & E1 & E2 & _).
      unfold T_of, tG_of. rewrite Ht. simpl. auto. }
  assert (forall n, label (sideS c sR ch) n =
                    option_map (fun a => gnode_att n (tg_el (tG_of a)) (tg_ch (tH_of a))) (label c n)) as HR.
  { intros n. rewrite (sideS_label c true sR ch n Hok SR).
    - destruct (label c n) as [a|] eqn:L; [|reflexivity]. simpl.
      destruct (iok_node c n a Hok L) as (e & ar & h & q & ar' & h' & q' & Ht & _).
      unfold T_of, tG_of, tH_of. rewrite Ht. reflexivity.
    - intros a L. destruct (iok_node c n a Hok L) as (e & ar & h & q & ar' & h' & q' & Ht & _ & _ & He).
      unfold T_of, tH_of. rewrite Ht. exact He.
    - intros a L M. unfold ch in M. rewrite (chg_mem c sL sR n a SL SR L) in M. apply negb_false_iff, Z.eqb_eq in M.
      destruct (iok_node c n a Hok L) as (e & ar & h & q & ar' & h' & q' & Ht & E1 & E2 & _).
      unfold T_of, tG_of, tH_of in *. rewrite Ht in *. simpl in *. subst q'. auto. }
  (* R2 *)
  assert (forall n a, label c n = Some a ->
            label I' n = Some (gml_node n (tg_el (tG_of a)) (tg_ch (tG_of a)) (tg_ch (tH_of a)))) as R2.
  { intros n a L. rewrite EI.
    assert (exists b, assoc n (its_nodes (sideS c sL ch) (sideS c sR ch)) = Some b /\ a_am b = Some (Z.of_N n)) as (b & Eb & Hb).
    { rewrite its_nodes_assoc. cbv zeta. destruct (_ <=? _)%nat; [rewrite HL|rewrite HR]; rewrite L; simpl; eexists; split; reflexivity. }
    rewrite (its_construct_label _ _ _ n b Eb). unfold its_node, tg_of. rewrite HL, HR, L. simpl. rewrite Hb. reflexivity. }
  (* edges *)
  assert (forall u v, adj I' u v = adj c u v) as R3.
  { intros u v. rewrite EI, its_construct_adj. destruct (adj c u v) as [x|] eqn:A.
    - destruct (sideS_scal c false sL ch u v x Hok SL A) as [S1 I1]. destruct (sideS_scal c true sR ch u v x Hok SR A) as [S2 I2].
      cbv zeta in *. unfold its_d. rewrite S1, S2, I1, I2.
      destruct (iok_edge c u v x Hok A) as (a & b & -> & Oa & Ob & Hne & _). unfold ord_of. simpl.
      destruct (ord_ok_cases a Oa) as [->|[->|[->|[->| ->]]]]; destruct (ord_ok_cases b Ob) as [->|[->|[->|[->| ->]]]];
        simpl; try reflexivity. exfalso. destruct Hne; congruence.
    - rewrite (sideS_adj_none c false sL ch u v SL A), (sideS_adj_none c true sR ch u v SR A). reflexivity. }
  split; [|split; assumption].
  intros n. apply eq_true_iff_eq. split.
  - rewrite EI. intros H. apply its_construct_has_node in H. destruct H as [H|[H|(w & H)]].
    + apply has_node_label in H. destruct H as [b Hb]. rewrite HL in Hb. unfold has_node. destruct (label c n); [reflexivity|discriminate].
    + apply has_node_label in H. destruct H as [b Hb]. rewrite HR in Hb. unfold has_node. destruct (label c n); [reflexivity|discriminate].
    + destruct (adj c n w) as [x|] eqn:A.
      * destruct (iok_edge c n w x Hok A) as (a & b & _ & _ & _ & _ & Hn & _). exact Hn.
      * rewrite (sideS_adj_none c false sL ch n w SL A), (sideS_adj_none c true sR ch n w SR A) in H. destruct H; discriminate.
  - intros H. apply has_node_label in H. destruct H as [a La]. apply has_node_label. eexists. apply (R2 n a La).
Qed.

Lemma its_to_gml_rec c : IOK c ->
  its_to_gml c false false false =
  let ch := find_changed (side_graph c false) (side_graph c true) in
  [(SLeft, side_entries (side_graph c false) ch); (SContext, context_entries c ch false);
   (SRight, side_entries (side_graph c true) ch)].
Proof. intros Hok. unfold its_to_gml. rewrite its_decompose_sides by exact Hok. reflexivity. Qed.

Theorem gml_roundtrip_iok c : IOK c ->
  let I' := gml_to_its (its_to_gml c false false false) in
  (forall n, has_node I' n = has_node c n) /\
  (forall n a, label c n = Some a ->
     label I' n = Some (gml_node n (tg_el (tG_of a)) (tg_ch (tG_of a)) (tg_ch (tH_of a)))) /\
  (forall u v, adj I' u v = adj c u v).
Proof.
  intros Hok. unfold gml_to_its. rewrite its_to_gml_rec by exact Hok.
  apply (gml_pipeline c _ _ Hok (side_graph_like c false Hok) (side_graph_like c true Hok)).
Qed.

Theorem gml_roundtrip c : its_ok c = true ->
  let I' := gml_to_its (its_to_gml c false false false) in
  (forall n, has_node I' n = has_node c n) /\
  (forall n a, label c n = Some a ->
     label I' n = Some (gml_node n (tg_el (tG_of a)) (tg_ch (tG_of a)) (tg_ch (tH_of a)))) /\
  (forall u v, adj I' u v = adj c u v).
Proof. intros H. apply gml_roundtrip_iok, its_ok_IOK, H. Qed.

(** ** non-vacuity: a centre with a broken, a formed and a weakened bond and two charge changes *)
Local Open Scope string_scope.
Definition ex_nd (el : string) (q q' : Z) (am : Z) : natt :=
  NA (Some (s2l el)) (Some false) (Some 0) (Some q) (Some am) (Some ((s2l el, false, 1, q), (s2l el, true, 0, q'))).
Definition ex_centre : gr :=
  LG [(10%N, ex_nd "C" 0 0 1); (20%N, ex_nd "O" 0 (-1) 2); (30%N, ex_nd "N" 0 1 3)]
     [(10%N, 20%N, EA (Some (OP 2 0)) (Some 2)); (30%N, 10%N, EA (Some (OP 0 2)) (Some (-2)));
      (20%N, 30%N, EA (Some (OP 4 2)) (Some 2))].
Definition ex_back : gr := gml_to_its (its_to_gml ex_centre false false false).
Example gml_roundtrip_ex :
  its_ok ex_centre = true /\
  label ex_back 20%N = Some (gml_node 20%N (s2l "O") 0 (-1)) /\
  adj ex_back 10%N 30%N = Some (EA (Some (OP 0 2)) (Some (-2))) /\
  List.length (flat_map snd (its_to_gml ex_centre false false false)) = 9%nat.
Proof. vm_compute. auto. Qed.
(** the hypothesis matters: an order outside {1, 1.5, 2, 3} is not carried by GML labels *)
Definition ex_bad : gr :=
  LG [(1%N, ex_nd "C" 0 0 1); (2%N, ex_nd "C" 0 0 2)] [(1%N, 2%N, EA (Some (OP 8 2)) (Some 6))].
Example gml_roundtrip_needs_ok :
  its_ok ex_bad = false /\ adj (gml_to_its (its_to_gml ex_bad false false false)) 1%N 2%N <> adj ex_bad 1%N 2%N.
Proof. split; [reflexivity|vm_compute; discriminate]. Qed.
