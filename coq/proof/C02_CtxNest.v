(** C02 — contexts nest: for 1 <= k <= k', extracting the radius-k context from the radius-k' context gives the radius-k
    context of the ITS (same atoms with the same labels, same bonds). *)
From Coq Require Import List NArith ZArith Bool Lia.
From SK Require Import lib.LGraph lib.Reach lib.C01_GraphLemmas model.C01_Model model.C02_Model proof.C02_Proof proof.C02_CtxCentre.
Import ListNotations.
Local Open Scope Z_scope.

Section CtxNest.
Variable g : its.
Hypothesis W : wf g.
Variables k k' : nat.
Hypothesis Hk : (1 <= k)%nat.
Hypothesis Hkk : (k <= k')%nat.
Local Notation C' := (extract_k g k').
Local Notation S0 := (node_ids (get_rc g)).
Local Notation S1 := (node_ids (get_rc C')).

Lemma Hk' : (1 <= k')%nat. Proof. lia. Qed.

Lemma seeds_same n : In n S1 <-> In n S0.
Proof.
  destruct (rc_of_context g W k' Hk') as [HL _].
  split; intros I; apply node_label_some in I; destruct I as (b & L); eapply label_some_node.
  - rewrite <- HL. exact L.
  - rewrite HL. exact L.
Qed.

(** a walk of the ITS from a centre atom of length m <= k' is a walk of the context *)
Lemma walk_into_ctx s n m : In s S0 -> walk g s n m -> (m <= k')%nat -> walk C' s n m.
Proof.
  intros Is Wk. induction Wk as [s|s u n m Wk IH A]; intros Hm; [constructor|].
  econstructor; [apply IH; [exact Is|lia]|].
  destruct (ctx_spec g W k' Hk') as (_ & _ & A1).
  destruct (adj g u n) as [e|] eqn:Ad; [|congruence].
  assert (adj C' u n = Some e) as ->; [|discriminate].
  apply A1. split; [exact Ad|]. split.
  - exists s, m. repeat split; [exact Is|lia|exact Wk].
  - exists s, (S m). repeat split; [exact Is|lia|]. econstructor; [exact Wk|congruence].
Qed.

Lemma walk_from_ctx s n m : walk C' s n m -> walk g s n m.
Proof.
  intros Wk. induction Wk as [s|s u n m Wk IH A]; [constructor|]. econstructor; [exact IH|].
  destruct (ctx_chain g W k' k' (le_n _)) as (_ & _ & _ & _ & Sub).
  destruct (adj C' u n) as [e|] eqn:Ad; [|congruence]. rewrite (Sub u n e Ad). discriminate.
Qed.

Lemma ball_same n : dist_le C' S1 k n <-> dist_le g S0 k n.
Proof.
  split.
  - intros (s & m & Is & Hm & Wk). exists s, m. repeat split; [apply seeds_same; exact Is|exact Hm|apply walk_from_ctx; exact Wk].
  - intros (s & m & Is & Hm & Wk). exists s, m. repeat split; [apply seeds_same; exact Is|exact Hm|].
    apply walk_into_ctx; [exact Is|exact Wk|lia].
Qed.

Theorem ctx_of_ctx : geq (extract_k C' k) (extract_k g k).
Proof.
  pose proof (wf_ctx g W k' Hk') as WC.
  destruct (ctx_spec C' WC k Hk) as (_ & L1 & A1). destruct (ctx_spec g W k Hk) as (_ & L0 & A0).
  destruct (ctx_spec g W k' Hk') as (_ & L' & A').
  assert (forall n, dist_le g S0 k n -> dist_le g S0 k' n) as Mono by (intros n; apply dist_le_mono; exact Hkk).
  split.
  - intros n. apply option_ext. intros a. rewrite L1, L0, ball_same, L'. split; [tauto|]. intros [L Bn]. auto.
  - intros u v. apply option_ext. intros e. rewrite A1, A0, !ball_same, A'. split; [tauto|]. intros (A & Bu & Bv). auto 6.
Qed.
End CtxNest.

Example C02_ctx_of_ctx_nonvacuous :
  geq (extract_k (extract_k ex_its 3) 1) (extract_k ex_its 1) /\
  length (gnodes (extract_k ex_its 3)) = 8%nat /\ length (gnodes (extract_k ex_its 1)) = 6%nat.
Proof. split; [apply ctx_of_ctx; [apply ex_its_wf|lia|lia]|split; reflexivity]. Qed.
