(** C11 (round 3) — the estimated orbits (colour classes) partition the node set. *)
From Coq Require Import List NArith ZArith Bool Arith Lia.
From SK Require Import lib.LGraph lib.Mono lib.Reach model.C11_Model proof.C11_Aut proof.C11_WL proof.C11_Main.
Import ListNotations.

Lemma wl_orbits_partition (fn : nlab -> N) (fe : elab -> N) (g : graph) (k : nat) :
  NoDup (node_ids g) ->
  let O := wl_orbits (wl fn fe g k) in
  (forall u, In u (node_ids g) -> exists o, In o O /\ In u o) /\
  (forall o u, In o O -> In u o -> In u (node_ids g)) /\
  (forall o1 o2 u, In o1 O -> In o2 O -> In u o1 -> In u o2 -> o1 = o2) /\
  (forall o u v, In o O -> In u o -> (In v o <-> In v (node_ids g) /\ col (wl fn fe g k) v = col (wl fn fe g k) u)).
Proof.
  intros Hnd O. set (cs := wl fn fe g k) in *.
  assert (Hfst : map fst cs = node_ids g) by apply wl_nodes.
  assert (Hnd' : NoDup (map fst cs)) by (rewrite Hfst; exact Hnd).
  assert (HO : forall o, In o O <-> exists c, In c (map snd cs) /\ o = map fst (filter (fun p => N.eqb (snd p) c) cs)).
  { intros o. unfold O. rewrite wl_orbits_in. apply classes_in. }
  split; [|split; [|split]].
  - intros u Hu. rewrite <- Hfst in Hu. destruct (assoc_some_in u cs Hu) as (a & Ea).
    exists (map fst (filter (fun p => N.eqb (snd p) a) cs)). split.
    + apply HO. exists a. split; [|reflexivity]. apply in_map_iff. exists (u, a). split; [reflexivity | apply assoc_in; exact Ea].
    + apply (class_member cs a u Hnd'). split; [exact Hu|]. unfold col. rewrite Ea. reflexivity.
  - intros o u Ho Hu. apply HO in Ho. destruct Ho as (c & _ & ->).
    apply (class_member cs c u Hnd') in Hu. rewrite <- Hfst. tauto.
  - intros o1 o2 u Ho1 Ho2 Hu1 Hu2. apply HO in Ho1. apply HO in Ho2.
    destruct Ho1 as (c1 & _ & ->). destruct Ho2 as (c2 & _ & ->).
    apply (class_member cs c1 u Hnd') in Hu1. apply (class_member cs c2 u Hnd') in Hu2.
    destruct Hu1 as [_ E1]. destruct Hu2 as [_ E2]. rewrite <- E1, <- E2. reflexivity.
  - intros o u v Ho Hu. apply HO in Ho. destruct Ho as (c & _ & ->).
    apply (class_member cs c u Hnd') in Hu. destruct Hu as [_ Ec].
    rewrite (class_member cs c v Hnd'), Hfst, Ec. tauto.
Qed.
