(** C16 — bipartite export with integer_ids=True: the documented numbering.  Species nodes are 1..N in sorted label order,
    reaction nodes N+1..N+M in sorted id order (N = number of exported species). *)
From stdpp Require Import gmap strings sets pretty sorting.
From SK Require Import lib.Tok model.C15_Model proof.C15_Proof model.C16_Model proof.C16_Defs proof.C16_Common proof.C16_BipA.
Local Open Scope string_scope.
Local Open Scope list_scope.

Section num.
  Context (fl : bflags) (H : net) (Hint : f_int fl = true).

  Lemma add_sp_node_new st s : e_smap st !! s = None →
    e_smap (add_sp_node fl H st s).1 = <[ s := inl (e_next st) ]> (e_smap st) ∧
    e_next (add_sp_node fl H st s).1 = (e_next st + 1)%N.
  Proof. intros Hs. unfold add_sp_node. rewrite Hs, Hint. cbn. done. Qed.

  Lemma fold_sp_num (l : list string) : NoDup l → ∀ st, (∀ s, s ∈ l → e_smap st !! s = None) →
    e_next (foldl (λ st s, (add_sp_node fl H st s).1) st l) = (e_next st + N.of_nat (length l))%N ∧
    (∀ i s, l !! i = Some s →
       e_smap (foldl (λ st s, (add_sp_node fl H st s).1) st l) !! s = Some (inl (e_next st + N.of_nat i)%N)).
  Proof.
    induction 1 as [|s l Hs Hnd IH]; intros st Hfresh.
    - cbn. split; [lia|]. intros i s Hi. by rewrite lookup_nil in Hi.
    - cbn [foldl]. destruct (add_sp_node_new st s) as [Hm Hx]; [apply Hfresh; by left|].
      destruct (IH (add_sp_node fl H st s).1) as [Hn Hl].
      { intros s' Hs'. rewrite Hm, lookup_insert_ne by (intros ->; done). apply Hfresh. by right. }
      split.
      + rewrite Hn, Hx. cbn [length]. lia.
      + intros [|i] s' Hi; cbn in Hi.
        * injection Hi as <-. 
          assert (∀ l' st', s ∉ l' → e_smap (foldl (λ st s, (add_sp_node fl H st s).1) st' l') !! s = e_smap st' !! s) as Hkeep.
          { clear. induction l' as [|x l' IH']; intros st' Hx; [done|]. cbn [foldl]. rewrite IH' by set_solver.
            unfold add_sp_node. destruct (e_smap st' !! x); [done|]. cbn. rewrite lookup_insert_ne; [done|set_solver]. }
          rewrite Hkeep by done. rewrite Hm, lookup_insert. f_equal. f_equal. lia.
        * rewrite (Hl i s' Hi), Hx. f_equal. f_equal. lia.
  Qed.

  (** phase 2 *)
  Lemma arc_fold_next mk role (l : list (string * positive)) : ∀ st, (∀ sc, sc ∈ l → is_Some (e_smap st !! sc.1)) →
    e_next (foldl (arc_step fl H mk role) st l) = e_next st ∧ e_smap (foldl (arc_step fl H mk role) st l) = e_smap st.
  Proof.
    induction l as [|sc l IH]; intros st Hk; [done|]. cbn [foldl].
    destruct (Hk sc) as [u Hu]; [by left|].
    assert (e_next (arc_step fl H mk role st sc) = e_next st ∧ e_smap (arc_step fl H mk role st sc) = e_smap st) as [Hn Hm].
    { unfold arc_step. by rewrite (add_sp_node_known fl H st sc.1 u Hu). }
    destruct (IH (arc_step fl H mk role st sc)) as [Hn' Hm'].
    { intros sc' Hin. rewrite Hm. apply Hk. by right. }
    by rewrite Hn', Hm', Hn, Hm.
  Qed.

  Lemma export_rxn_next st e rx : (∀ s, s ∈ rxn_species rx → is_Some (e_smap st !! s)) →
    e_next (export_rxn fl H st (e, rx)) = (e_next st + 1)%N ∧ e_smap (export_rxn fl H st (e, rx)) = e_smap st.
  Proof.
    intros Hk. rewrite export_rxn_unfold.
    match goal with |- context [foldl (arc_step fl H ?mk2 "product") (foldl (arc_step fl H ?mk1 "reactant") ?st1 ?l1) ?l2] =>
      destruct (arc_fold_next mk1 "reactant" l1 st1) as [Hn1 Hm1];
      [|destruct (arc_fold_next mk2 "product" l2 (foldl (arc_step fl H mk1 "reactant") st1 l1)) as [Hn2 Hm2]] end.
    - intros [s c] Hin%elem_of_map_to_list. cbn. apply Hk. apply elem_of_union_l. by apply elem_of_dom_2 in Hin.
    - intros [s c] Hin%elem_of_map_to_list. rewrite Hm1. cbn. apply Hk. apply elem_of_union_r. by apply elem_of_dom_2 in Hin.
    - rewrite Hn2, Hm2, Hn1, Hm1. cbn. unfold bump. by rewrite Hint.
  Qed.

  Lemma export_fold_num (l : list (string * rxn)) : NoDup l.*1 →
    (∀ e rx, (e, rx) ∈ l → ∀ s, s ∈ rxn_species rx → is_Some (M fl H !! s)) →
    ∀ st R D, Inv2 fl H st R D → (∀ e, e ∈ l.*1 → e ∉ D.*1) →
    ∃ R', Inv2 fl H (foldl (export_rxn fl H) st l) R' (D ++ l) ∧
          (∀ j e rx, l !! j = Some (e, rx) → R' !! e = Some (inl (e_next st + N.of_nat j)%N)) ∧
          (∀ e, e ∉ l.*1 → R' !! e = R !! e).
  Proof.
    induction l as [|[e rx] l IH]; intros Hnd Hok st R D HI Hfresh.
    - exists R. rewrite app_nil_r. split; [done|]. split; [|done]. intros j ?? Hj. by rewrite lookup_nil in Hj.
    - rewrite fmap_cons in Hnd. apply NoDup_cons in Hnd as [He Hnd]. cbn [fst] in He. cbn [foldl].
      assert (∀ s, s ∈ rxn_species rx → is_Some (M fl H !! s)) as Hsp by (apply (Hok e rx); by left).
      pose proof (export_rxn_Inv2 fl H st R D e rx HI ltac:(apply Hfresh; by left) Hsp ltac:(by rewrite Hint)) as HI'.
      destruct (export_rxn_next st e rx) as [Hn Hm]. { intros s Hs. rewrite (i2_smap _ _ _ _ _ HI). by apply Hsp. }
      destruct (IH Hnd) with (st := export_rxn fl H st (e, rx)) (R := <[e := rx_nid fl e (e_next st)]> R) (D := D ++ [(e, rx)])
        as (R' & HR' & Hnum & Hkeep).
      + intros e' rx' Hin. apply (Hok e' rx'). by right.
      + done.
      + intros e' He'. rewrite fmap_app, elem_of_app. cbn. rewrite elem_of_list_singleton. intros [Hd|Hq].
        * eapply Hfresh; [|done]. by right.
        * by subst e'.
      + exists R'. split; [by rewrite <-(assoc_L (++)) in HR'|]. split.
        * intros [|j] e' rx' Hj; cbn in Hj.
          -- assert (e' = e ∧ rx' = rx) as [-> ->] by (by simplify_eq). etrans; [by apply Hkeep|]. rewrite lookup_insert. unfold rx_nid. rewrite Hint. f_equal. f_equal. lia.
          -- etrans; [by eapply Hnum|]. rewrite Hn. f_equal. f_equal. lia.
        * intros e' He'. rewrite fmap_cons in He'. cbn in He'. etrans; [apply Hkeep; set_solver|].
          rewrite lookup_insert_ne; [done|set_solver].
  Qed.
End num.

Lemma species_iter_nodup fl H : NoDup (species_iter fl H).
Proof. unfold species_iter, sort_strings. rewrite merge_sort_Permutation. apply NoDup_elements. Qed.

Lemma bipartite_numbering (fl : bflags) (H : net) : f_int fl = true → wf_species H →
  (∀ i s, species_iter fl H !! i = Some s →
     b_nodes (hypergraph_to_bipartite fl H) !! inl (N.of_nat i + 1)%N = Some (sp_attrs fl H s)) ∧
  (∀ j e rx, sort_by_key (map_to_list (edges H)) !! j = Some (e, rx) →
     b_nodes (hypergraph_to_bipartite fl H) !! inl (N.of_nat (length (species_iter fl H) + j) + 1)%N
     = Some (rx_attrs fl e (r_rule rx))).
Proof.
  intros Hint Hwf.
  destruct (fold_sp_num fl H Hint (species_iter fl H) (species_iter_nodup fl H) (Est ∅ ∅ ∅ 1%N)) as [Hn0 HM].
  { intros s _. apply lookup_empty. }
  fold (st0 fl H) in Hn0, HM. cbn [e_next] in Hn0, HM.
  set (l := sort_by_key (map_to_list (edges H))).
  assert (l ≡ₚ map_to_list (edges H)) as Hperm by apply merge_sort_Permutation.
  destruct (export_fold_num fl H Hint l) with (st := st0 fl H) (R := (∅ : gmap string nid)) (D := @nil (string * rxn))
    as (R & HI & Hnum & _).
  - rewrite Hperm. apply NoDup_fst_map_to_list.
  - intros e rx Hin s Hs. rewrite Hperm in Hin. apply elem_of_map_to_list in Hin.
    apply M_occurring; [done|]. apply elem_of_occurring. eauto.
  - apply Inv2_init.
  - intros e _. cbn. apply not_elem_of_nil.
  - cbn [app] in HI. unfold hypergraph_to_bipartite, export_state. fold (st0 fl H). fold l. cbn [b_nodes]. split.
    + intros i s Hi. apply (i2_nodes _ _ _ _ _ HI). left. exists s. split; [|done].
      unfold M. etrans; [exact (HM i s Hi)|]. f_equal. f_equal. lia.
    + intros j e rx Hj. apply (i2_nodes _ _ _ _ _ HI). right. exists e, rx. split; [by eapply elem_of_list_lookup_2|].
      split; [|done]. etrans; [exact (Hnum j e rx Hj)|]. rewrite Hn0. f_equal. f_equal. lia.
Qed.

(** non-vacuity *)
Definition ex_num_net : net :=
  mk_net ["K"] [(Some "z", "r", [("B", 2%Z)], [("A", 1%Z)]); (Some "a", "q", [("A", 1%Z)], [("C", 1%Z)])] [].
Definition ex_num_fl : bflags := BFlags (Some "S:") (Some "R:") 0 1 true true true true true true.
Example ex_num :
  species_iter ex_num_fl ex_num_net = ["A"; "B"; "C"; "K"] ∧ (sort_by_key (map_to_list (edges ex_num_net))).*1 = ["a"; "z"] ∧
  (bn_label <$> b_nodes (hypergraph_to_bipartite ex_num_fl ex_num_net) !! inl 4%N) = Some (Some "K") ∧
  (bn_eid <$> b_nodes (hypergraph_to_bipartite ex_num_fl ex_num_net) !! inl 6%N) = Some (Some "z").
Proof. by vm_compute. Qed.
