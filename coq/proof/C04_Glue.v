(** C04 — the general regeneration lemma: a template that DESCRIBES the pair (A, B) (its tuples and bond orders are
    those of A and B, and it contains every atom and every bond on which A and B differ), glued on A along the
    identity, yields an ITS whose decomposition is (A, B).  Uses the glue theorems of proof/C03_*.v (read-only). *)
From Coq Require Import List NArith ZArith Bool Lia Permutation.
From SK Require Import lib.Tok lib.LGraph model.C03_Model model.C04_Model proof.C03_Proof proof.C03_Glue proof.C03_Backward.
Import ListNotations.
Local Open Scope Z_scope.

(** instantiate a section lemma of proof/C03_*.v with whichever of its hypotheses are in the context *)
Ltac feed H := repeat match type of H with ?P -> _ => match type of P with Prop => match goal with h : P |- _ => specialize (H h) end end end.
Tactic Notation "c03" constr(L) "as" ident(H) := pose proof L as H; feed H.

(** * the identity mapping *)
Lemma id_map_fst ns : map fst (id_map ns) = ns.
Proof. unfold id_map. rewrite map_map. simpl. apply map_id. Qed.
Lemma id_map_snd ns : map snd (id_map ns) = ns.
Proof. unfold id_map. rewrite map_map. simpl. apply map_id. Qed.
Lemma mget_id ns n : In n ns -> mget (id_map ns) n = Some n.
Proof.
  unfold mget, id_map. induction ns as [|k r IH]; simpl; [intros []|].
  destruct (N.eqb_spec n k) as [->|Hne]; [reflexivity|]. intros [E|I]; [congruence|auto].
Qed.
Lemma mget_id_inv ns n h : mget (id_map ns) n = Some h -> h = n /\ In n ns.
Proof.
  unfold mget, id_map. induction ns as [|k r IH]; simpl; [discriminate|].
  destruct (N.eqb_spec n k) as [->|Hne].
  - intros [= <-]. auto.
  - intros H. destruct (IH H). auto.
Qed.

(** * lookups *)
Lemma label_in {V B} (g : lgraph V B) n a : NoDup (node_ids g) -> In (n, a) (gnodes g) -> label g n = Some a.
Proof. intros H I. unfold label. apply assoc_nodup_in; assumption. Qed.
Lemma label_some_in {V B} (g : lgraph V B) n a : label g n = Some a -> In n (node_ids g).
Proof. intros H. unfold label in H. apply assoc_in in H. unfold node_ids. change n with (fst (n, a)). apply in_map. exact H. Qed.
Lemma label_none {V B} (g : lgraph V B) n : label g n = None -> ~ In n (node_ids g).
Proof.
  unfold label, node_ids. induction (gnodes g) as [|[k v] r IH]; simpl; [tauto|].
  destruct (N.eqb_spec n k); [discriminate|]. intros H [E|I]; [congruence|]. exact (IH H I).
Qed.
Lemma in_ids_label {V B} (g : lgraph V B) n : In n (node_ids g) -> exists a, label g n = Some a.
Proof. intros I. destruct (label g n) eqn:E; [eauto|]. exfalso. exact (label_none g n E I). Qed.

Lemma simple_in_find {B} (es : list (N * N * B)) u v x : simpleP (pairs es) -> In (u, v, x) es -> find_edge u v es = Some x.
Proof.
  induction es as [|[[p q] y] r IH]; simpl; [intros _ []|]. intros (Hne & Hr & Hs) [E|I].
  - inversion E; subst. rewrite !N.eqb_refl. reflexivity.
  - change ((N.eqb p u && N.eqb q v) || (N.eqb p v && N.eqb q u)) with (peq p q u v).
    assert (Hp : peq u v p q = false).
    { apply Hr. unfold pairs. change (u, v) with (fst (u, v, x)). apply in_map. exact I. }
    rewrite peq_swap, Hp. apply IH; assumption.
Qed.
Lemma in_find_some {B} (es : list (N * N * B)) a b u v x : In (u, v, x) es -> peq u v a b = true -> exists y, find_edge a b es = Some y.
Proof.
  induction es as [|[[p q] y] r IH]; simpl; [intros []|]. intros [E|I] Hp.
  - inversion E; subst. change ((N.eqb u a && N.eqb v b) || (N.eqb u b && N.eqb v a)) with (peq u v a b). rewrite Hp. eauto.
  - destruct ((N.eqb p a && N.eqb q b) || (N.eqb p b && N.eqb q a)); eauto.
Qed.

(** * bond orders of a well-formed molecule graph *)
Lemma host_simple A : wf_hostb A = true -> simpleP (pairs (gedges A)).
Proof.
  intros H. apply simpleP_of_b. unfold wf_hostb in H. apply andb_prop in H. destruct H as [H _].
  apply andb_prop in H. destruct H as [_ H]. exact H.
Qed.
Lemma order_in_pos A a b o : wf_hostb A = true -> adj A a b = Some o -> order_in A a b = o /\ 0 < o.
Proof. intros H E. unfold order_in. rewrite E. split; [reflexivity|]. exact (wf_host_pos A a b o H E). Qed.
Lemma order_in_bond A a b : wf_hostb A = true ->
  (if 0 <? order_in A a b then Some (order_in A a b) else None) = adj A a b.
Proof.
  intros H. unfold order_in. destruct (adj A a b) as [o|] eqn:E; [|reflexivity].
  pose proof (wf_host_pos A a b o H E). destruct (Z.ltb_spec 0 o); [reflexivity|lia].
Qed.
Lemma order_in_nonneg A a b : wf_hostb A = true -> 0 <= order_in A a b.
Proof.
  intros H. unfold order_in. destruct (adj A a b) as [o|] eqn:E; [|lia]. pose proof (wf_host_pos A a b o H E). lia.
Qed.
Lemma order_in_eq_adj A B a b : wf_hostb A = true -> wf_hostb B = true ->
  order_in A a b = order_in B a b -> adj A a b = adj B a b.
Proof. intros HA HB E. rewrite <- (order_in_bond A a b HA), <- (order_in_bond B a b HB), E. reflexivity. Qed.
Lemma order_in_peq (A : hostg) a b u v : peq a b u v = true -> order_in A a b = order_in A u v.
Proof. intros H. unfold order_in, adj. rewrite (find_edge_peq (gedges A) a b u v H). reflexivity. Qed.

(** * deciding equality of molecule graphs: completeness of [mol_eqb] *)
Lemma sel3_eqb_refl x : sel3_eqb x x = true.
Proof. unfold sel3_eqb. rewrite N.eqb_refl, !Z.eqb_refl. reflexivity. Qed.
Lemma mol_eqb_intro (X Y : molg) :
  (forall n a, In (n, a) (gnodes X) -> label X n = Some a) ->
  (forall n a, In (n, a) (gnodes Y) -> label Y n = Some a) ->
  (forall u v o, In (u, v, o) (gedges X) -> adj X u v = Some o) ->
  (forall u v o, In (u, v, o) (gedges Y) -> adj Y u v = Some o) ->
  (forall n, option_map sel3 (label X n) = option_map sel3 (label Y n)) ->
  (forall u v, adj X u v = adj Y u v) ->
  mol_eqb X Y = true.
Proof.
  intros HX HY EX EY Hn He. unfold mol_eqb, nodes_sub, edges_sub.
  repeat (apply andb_true_intro; split); apply forallb_forall.
  - intros [n a] I. simpl. rewrite <- Hn, (HX n a I). simpl. apply sel3_eqb_refl.
  - intros [n a] I. simpl. rewrite Hn, (HY n a I). simpl. apply sel3_eqb_refl.
  - intros [[u v] o] I. rewrite <- He, (EX u v o I). simpl. apply Z.eqb_refl.
  - intros [[u v] o] I. rewrite He, (EY u v o I). simpl. apply Z.eqb_refl.
Qed.

(** decomposed sides of an ITS with simple edges and distinct ids satisfy the side conditions of [mol_eqb_intro] *)
Lemma dec_label sn se (T : its) n : label (dec_side sn se T) n = option_map (fun a => dec_node (sn a)) (label T n).
Proof. unfold label. rewrite dec_gnodes. apply (assoc_map (fun a => dec_node (sn a))). Qed.
Lemma dec_nodes_ok sn se (T : its) : NoDup (node_ids T) ->
  forall n a, In (n, a) (gnodes (dec_side sn se T)) -> label (dec_side sn se T) n = Some a.
Proof.
  intros Hnd n a I. rewrite dec_gnodes in I. apply in_map_iff in I. destruct I as ([k v] & E & I). simpl in E. inversion E; subst.
  rewrite dec_label, (label_in T n v Hnd I). reflexivity.
Qed.
Lemma dec_edges_ok sn se (T : its) : simpleP (pairs (gedges T)) ->
  forall u v o, In (u, v, o) (gedges (dec_side sn se T)) -> adj (dec_side sn se T) u v = Some o.
Proof.
  intros Hs u v o I. rewrite (dec_adj sn se T u v Hs). unfold dec_side in I; simpl in I.
  apply in_flat_map in I. destruct I as ([[p q] x] & I & I'). destruct (0 <? se x) eqn:E; [|destruct I'].
  destruct I' as [I'|[]]. inversion I'; subst. unfold adj. rewrite (simple_in_find (gedges T) u v x Hs I), E. reflexivity.
Qed.
Lemma molg_of_label (A : hostg) n : label (molg_of A) n = option_map dec_node (label A n).
Proof. unfold label, molg_of; simpl. apply (assoc_map dec_node). Qed.
Lemma molg_of_nodes_ok (A : hostg) : NoDup (node_ids A) -> forall n a, In (n, a) (gnodes (molg_of A)) -> label (molg_of A) n = Some a.
Proof.
  intros Hnd n a I. unfold molg_of in I; simpl in I. apply in_map_iff in I. destruct I as ([k v] & E & I). simpl in E. inversion E; subst.
  rewrite molg_of_label, (label_in A n v Hnd I). reflexivity.
Qed.
Lemma molg_of_edges_ok (A : hostg) : wf_hostb A = true -> forall u v o, In (u, v, o) (gedges (molg_of A)) -> adj (molg_of A) u v = Some o.
Proof. intros H u v o I. unfold adj, molg_of in *; simpl in *. apply simple_in_find; [apply host_simple; exact H|exact I]. Qed.

(** * the hypotheses *)
Definition sel (a : nattr) : N * Z * Z := (a_el a, a_hc a, a_ch a).
Lemma sel_dec (x y : nattr) : {sel x = sel y} + {sel x <> sel y}.
Proof. unfold sel. repeat decide equality. Qed.

(** a balanced pair of molecule graphs on the same atoms *)
Record pair_wf (A B : hostg) : Prop := {
  pw_A : wf_hostb A = true;
  pw_B : wf_hostb B = true;
  pw_ids : forall n, In n (node_ids A) <-> In n (node_ids B);
  pw_el : forall n x y, label A n = Some x -> label B n = Some y -> a_el x = a_el y }.

(** a template atom fits the atom (x in A, y in B): same elements and charges, it demands no more hydrogens than x has
    and changes the hydrogen count by what distinguishes y from x (in implicit mode the counts are simply equal; a rule
    prepared by _strip_explicit_h carries only the hydrogens that take part) *)
Definition node_fit (a : inode) (x y : nattr) : Prop :=
  a_el (iG a) = a_el x /\ a_el (iH a) = a_el y /\ a_ch (iG a) = a_ch x /\ a_ch (iH a) = a_ch y /\
  a_hc (iG a) <= a_hc x /\ a_hc (iG a) - a_hc (iH a) = a_hc x - a_hc y.

(** [tpl] fits the pair (A, B): its tuples and bond orders are those of A and B *)
Record fits (A B : hostg) (tpl : its) : Prop := {
  f_wf : wf_rcb tpl = true;
  f_nodes : forall n a, In (n, a) (gnodes tpl) ->
              exists x y, label A n = Some x /\ label B n = Some y /\ node_fit a x y;
  f_edges : forall u v x, In (u, v, x) (gedges tpl) ->
              In u (node_ids tpl) /\ In v (node_ids tpl) /\ eG x = order_in A u v /\ eH x = order_in B u v }.
(** [tpl] describes the pair (A, B): it fits and contains every bond and every atom on which A and B differ *)
Record describes (A B : hostg) (tpl : its) : Prop := {
  d_fits : fits A B tpl;
  d_cover_e : forall u v, order_in A u v <> order_in B u v -> exists x, adj tpl u v = Some x;
  d_cover_n : forall n x y, label A n = Some x -> label B n = Some y -> sel x <> sel y -> In n (node_ids tpl) }.
Definition d_wf A B tpl (D : describes A B tpl) := f_wf _ _ _ (d_fits _ _ _ D).
Definition d_nodes A B tpl (D : describes A B tpl) := f_nodes _ _ _ (d_fits _ _ _ D).
Definition d_edges A B tpl (D : describes A B tpl) := f_edges _ _ _ (d_fits _ _ _ D).

Section Match.
  Variables (A B : hostg) (tpl : its).
  Hypothesis F : fits A B tpl.
  Let m := id_map (node_ids tpl).

  Lemma fits_nodupb : nodupb (node_ids tpl) = true.
  Proof. pose proof (f_wf _ _ _ F) as Hwr. unfold wf_rcb in Hwr. apply andb_prop in Hwr. destruct Hwr as [H _]. apply andb_prop in H. destruct H as [H _]. exact H. Qed.

  (** the identity is a valid match of the template's reactant side on A *)
  Lemma fits_match_rc : match_rcb A tpl m = true.
  Proof.
    unfold match_rcb, m. rewrite id_map_fst, id_map_snd, fits_nodupb. simpl.
    apply andb_true_intro; split; [apply andb_true_intro; split|].
    - unfold id_map, node_ids. rewrite !map_length. apply Nat.eqb_refl.
    - apply forallb_forall. intros [n a] I. unfold rc_node_okb. simpl.
      assert (In n (node_ids tpl)) by (unfold node_ids; change n with (fst (n, a)); apply in_map; exact I).
      rewrite (mget_id _ n H). destruct (f_nodes _ _ _ F n a I) as (x & y & Ex & Ey & E1 & _ & E3 & _ & E5 & _). rewrite Ex.
      rewrite E1, E3, N.eqb_refl, Z.eqb_refl. simpl. apply Z.leb_le. exact E5.
    - apply forallb_forall. intros [[u v] x] I. unfold rc_edge_okb.
      destruct (f_edges _ _ _ F u v x I) as (Iu & Iv & Eg & Eh). rewrite (mget_id _ u Iu), (mget_id _ v Iv).
      destruct (0 <? eG x) eqn:E; [|reflexivity]. apply Z.ltb_lt in E.
      rewrite Eg in E. unfold order_in in E, Eg. destruct (adj A u v) as [o|]; [|lia]. apply Z.eqb_eq. congruence.
  Qed.

  (** ... and of the pattern the matcher sees (the decomposed reactant side) *)
  Lemma fits_match_pattern : match_okb A (dec_side iG eG tpl) m = true.
  Proof.
    unfold match_okb, m. rewrite id_map_fst, id_map_snd, fits_nodupb. simpl.
    apply andb_true_intro; split; [apply andb_true_intro; split|].
    - unfold id_map, node_ids, dec_side; simpl. rewrite !map_length. apply Nat.eqb_refl.
    - apply forallb_forall. intros [n a] I. unfold node_okb. simpl.
      change (gnodes (dec_side iG eG tpl)) with (map (fun p : N * inode => (fst p, dec_node (iG (snd p)))) (gnodes tpl)) in I.
      apply in_map_iff in I. destruct I as ([k pn] & E & I). simpl in E. inversion E; subst.
      assert (In n (node_ids tpl)) by (unfold node_ids; change n with (fst (n, pn)); apply in_map; exact I).
      rewrite (mget_id _ n H). destruct (f_nodes _ _ _ F n pn I) as (x & y & Ex & Ey & E1 & _ & E3 & _ & E5 & _). rewrite Ex.
      simpl. rewrite E1, E3, N.eqb_refl, Z.eqb_refl. simpl. apply Z.leb_le. exact E5.
    - apply forallb_forall. intros [[u v] o] I. unfold edge_okb.
      unfold dec_side in I; simpl in I. apply in_flat_map in I. destruct I as ([[p q] x] & I & I').
      destruct (0 <? eG x) eqn:E; [|destruct I']. destruct I' as [I'|[]]. inversion I'; subst.
      destruct (f_edges _ _ _ F u v x I) as (Iu & Iv & Eg & Eh). rewrite (mget_id _ u Iu), (mget_id _ v Iv).
      apply Z.ltb_lt in E. rewrite Eg in E. unfold order_in in E, Eg. destruct (adj A u v) as [o|]; [|lia]. apply Z.eqb_eq. congruence.
  Qed.

  (** gluing along the identity produces an ITS (no additive edge: a bond the template forms is absent in A) *)
  Hypothesis HA : wf_hostb A = true.
  Lemma fits_glue_some : exists T, glue A tpl m = Some T.
  Proof.
    destruct (glue A tpl m) as [T|] eqn:E; [eauto|]. exfalso.
    apply (glue_none_iff A tpl m (f_wf _ _ _ F) fits_match_rc) in E.
    destruct E as (u & v & x & hu & hv & o & I & E0 & E1 & E2 & Ea & _).
    destruct (mget_id_inv _ _ _ E1) as [-> _]. destruct (mget_id_inv _ _ _ E2) as [-> _].
    destruct (f_edges _ _ _ F u v x I) as (_ & _ & Eg & _).
    destruct (order_in_pos A u v o HA Ea). lia.
  Qed.

  (** an atom the template does not contain keeps the substrate's tuple on the product side: if it differs from B's
      in hydrogen count or charge, the decomposition of the glued ITS is NOT (A, B) *)
  Lemma fits_outside_not_regen T n x y :
    glue A tpl m = Some T -> ~ In n (node_ids tpl) -> label A n = Some x -> label B n = Some y ->
    a_hc x <> a_hc y \/ a_ch x <> a_ch y -> regen_exact T A B = false.
  Proof.
    intros Hg NI Ex Ey Hd. destruct (regen_exact T A B) eqn:ER; [exfalso|reflexivity].
    pose proof (f_wf _ _ _ F) as Hwr. pose proof fits_match_rc as Hm.
    c03 (unglued_node A tpl m T) as UN. specialize (UN n). rewrite Ex in UN. simpl in UN.
    assert (ET : label T n = Some (IN x x 0 None)) by (apply UN; unfold m; rewrite id_map_snd; exact NI).
    unfold regen_exact, its_decompose in ER. apply andb_prop in ER. destruct ER as [_ ER].
    unfold mol_eqb in ER. apply andb_prop in ER. destruct ER as [ER _]. apply andb_prop in ER. destruct ER as [ER _].
    apply andb_prop in ER. destruct ER as [ER _]. unfold nodes_sub in ER. rewrite forallb_forall in ER.
    assert (I : In (n, dec_node x) (gnodes (dec_side iH eH T))).
    { change (gnodes (dec_side iH eH T)) with (map (fun p : N * inode => (fst p, dec_node (iH (snd p)))) (gnodes T)).
      apply in_map_iff. exists (n, IN x x 0 None). split; [reflexivity|]. apply assoc_in. exact ET. }
    specialize (ER _ I). simpl in ER. rewrite molg_of_label, Ey in ER. simpl in ER.
    unfold sel3_eqb, sel3 in ER. simpl in ER. apply andb_prop in ER. destruct ER as [ER E3]. apply andb_prop in ER. destruct ER as [_ E2].
    apply Z.eqb_eq in E2. apply Z.eqb_eq in E3. destruct Hd; contradiction.
  Qed.
End Match.

Section Regen.
  Variables (A B : hostg) (tpl : its).
  Hypothesis PW : pair_wf A B.
  Hypothesis D : describes A B tpl.
  Let m := id_map (node_ids tpl).
  Let Hwr := d_wf _ _ _ D.
  Let HA := pw_A _ _ PW.
  Let HB := pw_B _ _ PW.

  Lemma tpl_nodupb : nodupb (node_ids tpl) = true.
  Proof. exact (fits_nodupb A B tpl (d_fits _ _ _ D)). Qed.
  Lemma identity_match_rc : match_rcb A tpl m = true.
  Proof. exact (fits_match_rc A B tpl (d_fits _ _ _ D)). Qed.

  (** gluing along it produces an ITS *)
  Lemma identity_glue_some : exists T, glue A tpl m = Some T.
  Proof.
    destruct (glue A tpl m) as [T|] eqn:E; [eauto|]. exfalso.
    apply (glue_none_iff A tpl m Hwr identity_match_rc) in E.
    destruct E as (u & v & x & hu & hv & o & I & E0 & E1 & E2 & Ea & _).
    destruct (mget_id_inv _ _ _ E1) as [-> _]. destruct (mget_id_inv _ _ _ E2) as [-> _].
    destruct (d_edges _ _ _ D u v x I) as (_ & _ & Eg & _).
    destruct (order_in_pos A u v o HA Ea). lia.
  Qed.

  Variable T : its.
  Hypothesis Hg : glue A tpl m = Some T.
  Let Hm := identity_match_rc.

  Lemma T_nodup : NoDup (node_ids T).
  Proof. c03 (glued_nodup A tpl m T) as H. exact H. Qed.
  Lemma T_simple : simpleP (pairs (gedges T)).
  Proof. c03 (glued_simple A tpl m T) as H. exact H. Qed.
  Lemma T_left : node_ids T = node_ids A /\ (forall n, option_map iG (label T n) = label A n) /\ (forall a b, bondG T a b = adj A a b).
  Proof. c03 (left_is_host A tpl m T) as H. exact H. Qed.

  (** product-side tuples *)
  Lemma product_nodes n : option_map (fun a => sel (iH a)) (label T n) = option_map sel (label B n).
  Proof.
    destruct (label A n) as [x|] eqn:Ex.
    - destruct (in_ids_label B n (proj1 (pw_ids _ _ PW n) (label_some_in A n x Ex))) as [y Ey]. rewrite Ey. simpl.
      destruct (in_dec N.eq_dec n (node_ids tpl)) as [I|NI].
      + destruct (in_ids_label tpl n I) as [pn Ep].
        assert (Ip : In (n, pn) (gnodes tpl)) by (apply assoc_in; exact Ep).
        c03 (glued_node A tpl m T) as GN. destruct (GN n n pn (mget_id _ n I) Ip) as (hn & Eh & ET).
        rewrite ET. simpl. rewrite Ex in Eh. inversion Eh; subst hn.
        destruct (d_nodes _ _ _ D n pn Ip) as (x' & y' & Ex' & Ey' & _ & _ & _ & E4 & _ & E6).
        rewrite Ex in Ex'. rewrite Ey in Ey'. inversion Ex'; inversion Ey'; subst x' y'.
        unfold sel; simpl. rewrite (pw_el _ _ PW n x y Ex Ey), E4. f_equal. f_equal. f_equal. lia.
      + c03 (unglued_node A tpl m T) as UN. rewrite (UN n) by (unfold m; rewrite id_map_snd; exact NI).
        rewrite Ex. simpl. f_equal.
        destruct (sel_dec x y) as [E|NE]; [exact E|]. exfalso. exact (NI (d_cover_n _ _ _ D n x y Ex Ey NE)).
    - assert (HT : label T n = None).
      { destruct (label T n) as [a|] eqn:ET; [|reflexivity]. exfalso.
        apply (label_none A n Ex). rewrite <- (proj1 T_left). exact (label_some_in T n a ET). }
      rewrite HT. destruct (label B n) as [y|] eqn:Ey; [|reflexivity]. exfalso.
      apply (label_none A n Ex). apply (pw_ids _ _ PW n). exact (label_some_in B n y Ey).
  Qed.

  (** product-side bonds *)
  Lemma product_bonds a b : bondH T a b = adj B a b.
  Proof.
    unfold bondH. c03 (glue_adj A tpl m T) as H. specialize (H a b).
    destruct (find_hit m (gedges tpl) a b) as [x|] eqn:Ef.
    - destruct H as (r & Hr & Ha). rewrite Ha.
      c03 (hit_edge A tpl m) as HE. destruct (HE a b x Ef) as (u & v & hu & hv & I & E1 & E2 & Hp & _).
      destruct (mget_id_inv _ _ _ E1) as [-> _]. destruct (mget_id_inv _ _ _ E2) as [-> _].
      destruct (d_edges _ _ _ D u v x I) as (_ & _ & Eg & Eh).
      rewrite (order_in_peq A u v a b Hp) in Eg. rewrite (order_in_peq B u v a b Hp) in Eh.
      assert (Er : eH r = order_in B a b).
      { destruct (adj A a b) as [o|] eqn:Ea; simpl in Hr.
        - destruct (order_in_pos A a b o HA Ea) as [Eo Ho]. destruct (Z.eqb_spec (eG x) 0) as [E0|E0]; [lia|].
          inversion Hr; subst. exact Eh.
        - inversion Hr; subst. exact Eh. }
      rewrite Er. apply order_in_bond. exact HB.
    - rewrite H. assert (E : order_in A a b = order_in B a b).
      { destruct (Z.eq_dec (order_in A a b) (order_in B a b)) as [E|NE]; [exact E|]. exfalso.
        destruct (d_cover_e _ _ _ D a b NE) as (x & Ex). unfold adj in Ex. apply find_edge_in in Ex.
        destruct Ex as (p & q & I & Hp).
        destruct (d_edges _ _ _ D p q x I) as (Ip & Iq & _).
        pose proof (find_hit_none_in m (gedges tpl) a b (p, q, x) Ef I) as Hh.
        unfold hits, img, m in Hh. rewrite (mget_id _ p Ip), (mget_id _ q Iq), Hp in Hh. discriminate. }
      rewrite <- (order_in_eq_adj A B a b HA HB E). destruct (adj A a b) as [o|] eqn:Ea; simpl; [|reflexivity].
      unfold lift, eH; simpl. pose proof (wf_host_pos A a b o HA Ea). destruct (Z.ltb_spec 0 o); [reflexivity|lia].
  Qed.

  (** the decomposition of the glued ITS is the pair again *)
  Theorem regen_exact_true : regen_exact T A B = true.
  Proof.
    unfold regen_exact, its_decompose. apply andb_true_intro; split.
    - apply mol_eqb_intro.
      + apply dec_nodes_ok. exact T_nodup.
      + apply molg_of_nodes_ok. exact (wf_host_nodup A HA).
      + apply dec_edges_ok. exact T_simple.
      + apply molg_of_edges_ok. exact HA.
      + intros n. rewrite dec_label, molg_of_label.
        pose proof (proj1 (proj2 T_left) n) as E. rewrite <- E.
        destruct (label T n); reflexivity.
      + intros u v. rewrite (dec_adj iG eG T u v T_simple).
        exact (proj2 (proj2 T_left) u v).
    - apply mol_eqb_intro.
      + apply dec_nodes_ok. exact T_nodup.
      + apply molg_of_nodes_ok. exact (wf_host_nodup B HB).
      + apply dec_edges_ok. exact T_simple.
      + apply molg_of_edges_ok. exact HB.
      + intros n. rewrite dec_label, molg_of_label. pose proof (product_nodes n) as E.
        destruct (label T n) as [a|], (label B n) as [y|]; simpl in *; try discriminate; [|reflexivity].
        unfold sel in E. inversion E. unfold sel3; simpl. congruence.
      + intros u v. rewrite (dec_adj iH eH T u v T_simple). exact (product_bonds u v).
  Qed.
End Regen.
