(** C05 — part 10: the set of glued ITS graphs of the exhaustive strategy does not depend on how substrate and rule
    are written: any insertion order of nodes / bonds / orientation of stored bonds on both sides, combined with any
    renumbering (parts 3-6).  Pieces: raw match sets coincide (part 8, from the C06 specification), the pruning keeps
    one match of every class (part 3 / C11), matches of one class glue to the same ITS and the glue does not look at
    insertion orders (part 9). Stdlib lists. *)
From Coq Require Import List NArith ZArith Bool Arith Lia Permutation.
From SK Require Import lib.Tok lib.LGraph lib.Mono.
From SK Require model.C06_Model model.C11_Model.
From SK Require Import lib.C06_Spec proof.C06_All proof.C06_Main.
From SK Require proof.C11_Dedup proof.C03_Proof.
From SK Require Import model.C03_Model model.C05_Model proof.C05_Proof proof.C05_Glue proof.C05_Pipe proof.C05_Order
  proof.C05_Main proof.C05_Sub proof.C05_Set.
Import ListNotations.

Section WithThr.
Context {TH : Thr}.


(** what is asked of one writing (substrate, prepared rule); every item is a boolean evaluated on every case of the
    correspondence ([side_okb] in the model's run function) *)
Record side_ok (host : hostg) (p : prepared) : Prop := {
  so_flag : p_flag p = false;
  so_host : gwf (host_c06 host);
  so_pat : gwf (pat_c06 (p_pat p));
  so_count : (C06_Model.lenN (C06_Model.monos_on (host_c06 host) (pat_c06 (p_pat p))
                                (node_ids (host_c06 host)) (node_ids (pat_c06 (p_pat p)))) <= thr_val)%N;
  so_rc_nodup : NoDup (node_ids (p_rc p));
  so_rc_simple : simple_edgesb (gedges (p_rc p)) = true;
  so_rc_closed : forall a b x, In (a, b, x) (gedges (p_rc p)) -> In a (node_ids (p_rc p)) /\ In b (node_ids (p_rc p));
  so_pat_rc : forall u, In u (node_ids (p_pat p)) -> In u (node_ids (p_rc p)) }.

Lemma same_graph_obs {A B} (g g' : lgraph A B) : same_graph g g' -> obs_eq g g'.
Proof. intros (H1 & H2 & _). split; assumption. Qed.

Lemma label_some_in {A B} (g : lgraph A B) u : In u (node_ids g) -> exists a, label g u = Some a.
Proof.
  unfold node_ids, label. induction (gnodes g) as [|[k a] r IH]; simpl; [intros []|].
  destruct (N.eqb_spec u k) as [->|Hne]; [intros _; eauto|]. intros [E|I]; [congruence | apply IH; exact I].
Qed.

Lemma perm_items (m m' : mapping) : Permutation m m' -> same_items m m'.
Proof. intros P ph. split; apply Permutation_in; [exact P | apply Permutation_sym; exact P]. Qed.

Lemma glued_in host p T : p_flag p = false -> In T (glued_of 0%N host p) ->
  exists k, In k (kept_of 0%N host p) /\ glue host (p_rc p) k = Some T.
Proof.
  intros Hflag H. unfold glued_of in H. apply in_flat_map in H. destruct H as (k & Hk & HT).
  exists k. split; [exact Hk|]. unfold glue_all, glue_base in HT. rewrite Hflag in HT. simpl in HT.
  destruct (glue host (p_rc p) k) as [T0|]; simpl in HT; [destruct HT as [<-|[]]; reflexivity | destruct HT].
Qed.

Lemma in_glued host p k T : p_flag p = false -> In k (kept_of 0%N host p) -> glue host (p_rc p) k = Some T ->
  In T (glued_of 0%N host p).
Proof.
  intros Hflag Hk HT. unfold glued_of. apply in_flat_map. exists k. split; [exact Hk|].
  unfold glue_all, glue_base. rewrite Hflag. simpl. rewrite HT. left. reflexivity.
Qed.

(** raw matches of the exhaustive strategy are monomorphisms in the sense of C06 *)
Lemma raw_is_mono host p k : side_ok host p -> In k (raw_of 0%N host p) -> is_mono (host_c06 host) (pat_c06 (p_pat p)) k.
Proof.
  intros S Hin. unfold raw_of in Hin. rewrite matches_monos_on in Hin.
  change (cfg_of 0%N) with (C06_Model.Cfg 0 0 thr_val true false) in Hin.
  destruct (all_exact _ thr_val true _ _ (proj1 (monos_on_oracle_ok _ _ (so_host _ _ S) (so_pat _ _ S))) (so_count _ _ S))
    as (Hsound & _ & _).
  apply Hsound. exact Hin.
Qed.

Lemma mono_facts host p k : side_ok host p -> is_mono (host_c06 host) (pat_c06 (p_pat p)) k ->
  NoDup (map fst k) /\ NoDup (map snd k) /\
  forall q h, In (q, h) k -> (exists pn, label (p_rc p) q = Some pn) /\ (exists hn, label host h = Some hn).
Proof.
  intros S (A & B & C & D & _). split; [exact A|]. split; [exact C|].
  intros q h I. split.
  - apply label_some_in. apply (so_pat_rc _ _ S). rewrite <- node_ids_pat_c06. apply B.
    change q with (fst (q, h)). apply in_map. exact I.
  - apply label_some_in. rewrite <- node_ids_host_c06. exact (proj1 (D q h I)).
Qed.

Lemma act_nodup_fst rc s k : NoDup (node_ids rc) -> simple_edgesb (gedges rc) = true ->
  (forall a b x, In (a, b, x) (gedges rc) -> In a (node_ids rc) /\ In b (node_ids rc)) ->
  In s (rule_auts rc) -> NoDup (map fst k) -> NoDup (map fst (C11_Model.act s k)).
Proof.
  intros Hnd Hsi Hcl Hs Hf. rewrite act_mv. unfold mv. rewrite map_map. simpl. rewrite <- (map_map fst (sfun s)).
  apply FinFun.Injective_map_NoDup; [exact (sfun_inj rc s Hnd Hsi Hs) | exact Hf].
Qed.
Lemma act_snd s k : map snd (C11_Model.act s k) = map snd k.
Proof. unfold C11_Model.act. rewrite map_map. reflexivity. Qed.

(** a defined glue on one side gives a defined, observationally equal glue on the other *)
Lemma obs_transfer (o o' : option its) T :
  match o, o' with Some A, Some A' => obs_eq A A' | None, None => True | _, _ => False end ->
  o = Some T -> exists T', o' = Some T' /\ obs_eq T T'.
Proof. intros H E. subst o. destruct o' as [T'|]; [eauto | destruct H]. Qed.

Theorem glued_set_invariant (host host' : hostg) (p p' : prepared) :
  side_ok host p -> side_ok host' p' ->
  same_graph host host' -> same_graph (p_rc p) (p_rc p') -> same_graph (p_pat p) (p_pat p') ->
  forall T, In T (glued_of 0%N host p) -> exists T', In T' (glued_of 0%N host' p') /\ obs_eq T T'.
Proof.
  intros S S' Hh Hr Hp T HT.
  destruct (glued_in host p T (so_flag _ _ S) HT) as (k & Hk & Hg).
  assert (Hraw : In k (raw_of 0%N host p)) by (exact (C11_Dedup.subseq_in _ _ _ (prune_subseq _ _) Hk)).
  pose proof (raw_is_mono host p k S Hraw) as Hm.
  destruct (mono_facts host p k S Hm) as (Kf & Kv & Kok).
  (* the same match among the raw matches of the other writing *)
  destruct (matches_all_any_order host host' (p_pat p) (p_pat p') Hh Hp (so_host _ _ S) (so_pat _ _ S)
              (so_host _ _ S') (so_pat _ _ S') (so_count _ _ S) (so_count _ _ S') k Hraw) as (k2 & Hraw2 & Pk).
  pose proof (raw_is_mono host' p' k2 S' Hraw2) as Hm2.
  destruct (mono_facts host' p' k2 S' Hm2) as (K2f & K2v & K2ok).
  (* glued on the other side along k2 *)
  destruct (obs_transfer _ _ T
              (glue_obs host host' (p_rc p) (p_rc p') k k2 (same_graph_obs _ _ Hh) (same_graph_obs _ _ Hr)
                 (so_rc_simple _ _ S) (so_rc_simple _ _ S') Kf Kv K2f K2v (perm_items _ _ Pk) Kok) Hg) as (T2 & Hg2 & O2).
  (* the kept representative of k2's class *)
  destruct (prune_complete (p_rc p') (raw_of 0%N host' p') k2 Hraw2) as (k' & Hk' & Hcase).
  assert (Hraw' : In k' (raw_of 0%N host' p')) by (exact (C11_Dedup.subseq_in _ _ _ (prune_subseq _ _) Hk')).
  destruct (mono_facts host' p' k' S' (raw_is_mono host' p' k' S' Hraw')) as (K'f & K'v & K'ok).
  assert (Hfin : exists T', glue host' (p_rc p') k' = Some T' /\ obs_eq T2 T').
  { destruct Hcase as [E | [E | (s & Hs & E)]].
    - subst k'. exists T2. split; [exact Hg2 | apply obs_eq_refl].
    - pose proof (proj1 (C11_Dedup.set_eqb_spec k2 k') E) as E2.
      exact (obs_transfer _ _ T2
               (glue_obs host' host' (p_rc p') (p_rc p') k2 k' (obs_eq_refl _) (obs_eq_refl _)
                  (so_rc_simple _ _ S') (so_rc_simple _ _ S') K2f K2v K'f K'v E2 K2ok) Hg2).
    - pose proof (proj1 (C11_Dedup.set_eqb_spec k2 (C11_Model.act s k')) E) as E2.
      destruct (obs_transfer _ _ T2
                  (glue_obs host' host' (p_rc p') (p_rc p') k2 (C11_Model.act s k') (obs_eq_refl _) (obs_eq_refl _)
                     (so_rc_simple _ _ S') (so_rc_simple _ _ S') K2f K2v
                     (act_nodup_fst _ s k' (so_rc_nodup _ _ S') (so_rc_simple _ _ S') (so_rc_closed _ _ S') Hs K'f)
                     (eq_ind_r (fun l => NoDup l) K'v (act_snd s k')) E2 K2ok) Hg2) as (T3 & Hg3 & O3).
      pose proof (glue_aut (p_rc p') s (so_rc_nodup _ _ S') (so_rc_simple _ _ S') (so_rc_closed _ _ S') Hs host' k' K'f K'v K'ok) as Ha.
      rewrite Hg3 in Ha. destruct (glue host' (p_rc p') k') as [T'|]; [|destruct Ha].
      exists T'. split; [reflexivity|]. eapply obs_eq_trans; [exact O3 | apply obs_eq_sym; exact Ha]. }
  destruct Hfin as (T' & Hg' & O').
  exists T'. split; [exact (in_glued host' p' k' T' (so_flag _ _ S') Hk' Hg') | eapply obs_eq_trans; eassumption].
Qed.

(** [side_okb] (evaluated by the correspondence on every writing) implies [side_ok] *)
Lemma side_okb_ok host p : side_okb host p = true -> side_ok host p.
Proof.
  unfold side_okb. intros H.
  repeat (apply andb_prop in H; let H' := fresh "B" in destruct H as [H H']).
  constructor.
  - apply negb_true_iff. exact H.
  - apply gwfb_spec. exact B5.
  - apply gwfb_spec. exact B4.
  - rewrite <- monos_on'_eq. apply N.leb_le. exact B3.
  - apply C03_Proof.nodupb_NoDup. exact B2.
  - exact B1.
  - intros a b x I. unfold closedb in B0. rewrite forallb_forall in B0. specialize (B0 _ I). simpl in B0.
    apply andb_prop in B0. destruct B0 as [Ba Bb]. split; apply LGraph.mem_spec; assumption.
  - intros u I. rewrite forallb_forall in B. apply LGraph.mem_spec. apply B. exact I.
Qed.

(** the whole statement: renumbering by (sg, pi) followed by any re-ordering of both inputs.  The glued graphs of the
    rewritten inputs are, as a set of observationally equal graphs, the renumbered glued graphs of the original. *)
Theorem glued_set_rewriting (sg pi : N -> N) (Hs : inj sg) (Hp : inj pi)
        (host host'' : hostg) (p p'' : prepared) :
  side_ok (relabel pi host) (relabel_prep sg p) -> side_ok host'' p'' ->
  same_graph (relabel pi host) host'' -> same_graph (relabel sg (p_rc p)) (p_rc p'') ->
  same_graph (relabel sg (p_pat p)) (p_pat p'') ->
  (forall T, In T (glued_of 0%N host p) -> exists T'', In T'' (glued_of 0%N host'' p'') /\ obs_eq (relabel pi T) T'') /\
  (forall T'', In T'' (glued_of 0%N host'' p'') -> exists T, In T (glued_of 0%N host p) /\ obs_eq (relabel pi T) T'').
Proof.
  intros S S'' Hh Hr Hpt.
  assert (Hflag : p_flag p = false) by exact (so_flag _ _ S).
  pose proof (glued_relabel 0%N sg pi Hs Hp host p Hflag) as Hlit.
  split.
  - intros T HT.
    apply (glued_set_invariant (relabel pi host) host'' (relabel_prep sg p) p'' S S'' Hh Hr Hpt).
    rewrite Hlit. apply in_map. exact HT.
  - intros T'' HT''.
    destruct (glued_set_invariant host'' (relabel pi host) p'' (relabel_prep sg p) S'' S
                (same_graph_sym _ _ Hh) (same_graph_sym _ _ Hr) (same_graph_sym _ _ Hpt) T'' HT'') as (T1 & HT1 & O).
    rewrite Hlit in HT1. apply in_map_iff in HT1. destruct HT1 as (T & <- & HT).
    exists T. split; [exact HT | apply obs_eq_sym; exact O].
Qed.

(** the vocabulary of props/C05.v written out *)
Lemma vocabulary :
  (forall f, inj f <-> forall a b : N, f a = f b -> a = b) /\
  (forall sg pi (m : mapping), mv sg pi m = map (fun ph => (sg (fst ph), pi (snd ph))) m) /\
  (forall (g g' : hostg), same_graph g g' <->
     (forall u, label g' u = label g u) /\ (forall u v, LGraph.adj g' u v = LGraph.adj g u v) /\
     (forall u, In u (node_ids g) <-> In u (node_ids g')) /\ NoDup (node_ids g) /\ NoDup (node_ids g')) /\
  (forall (T T' : its), obs_eq T T' <->
     (forall n, label T' n = label T n) /\ (forall a b, LGraph.adj T' a b = LGraph.adj T a b)) /\
  (forall host p, side_okb host p = true ->
     p_flag p = false /\ gwf (host_c06 host) /\ gwf (pat_c06 (p_pat p)) /\
     (C06_Model.lenN (C06_Model.monos_on (host_c06 host) (pat_c06 (p_pat p))
                        (node_ids (host_c06 host)) (node_ids (pat_c06 (p_pat p)))) <= thr_val)%N /\
     NoDup (node_ids (p_rc p)) /\ simple_edgesb (gedges (p_rc p)) = true /\
     (forall a b x, In (a, b, x) (gedges (p_rc p)) -> In a (node_ids (p_rc p)) /\ In b (node_ids (p_rc p))) /\
     (forall u, In u (node_ids (p_pat p)) -> In u (node_ids (p_rc p)))).
Proof.
  split; [intros f; reflexivity|]. split; [reflexivity|]. split; [intros g g'; reflexivity|].
  split; [intros T T'; reflexivity|].
  intros host p H. destruct (side_okb_ok host p H) as [A B C D E F G I].
  split; [exact A|]. split; [exact B|]. split; [exact C|]. split; [exact D|]. split; [exact E|]. split; [exact F|]. split; [exact G | exact I].
Qed.

End WithThr.
