(** C08 — canonical_form(max_depth): when early_stop is reported False the search was complete - the returned permutation is the
    canonical one, whatever the bound (the flag is sticky: once a node deeper than max_depth is met it stays True). *)
From Coq Require Import List NArith ZArith Bool Arith Lia Permutation.
From SK Require Import lib.LGraph lib.IRSortKeys lib.IRCore lib.IRSearch lib.StrJoin.
From SK Require Import model.C08_Model proof.C08_Spec proof.C08_Sort proof.C08_IR proof.C08_Faithful proof.C08_Nauty proof.C08_MaxDepth.
Import ListNotations.

Lemma fold_md_sticky (F : nacc * bool -> N -> nacc * bool) l : (forall s v, snd s = true -> F s v = s) ->
  forall s : nacc * bool, snd s = true -> fold_left F l s = s.
Proof. intros HF. induction l as [|v l IH]; intros s Hs; [reflexivity|]. cbn [fold_left]. rewrite (HF s v Hs). apply IH. exact Hs. Qed.

Theorem nsearch_md_complete md g fuel : forall P pre a,
  snd (nsearch_md md g fuel P pre a) = false -> fst (nsearch_md md g fuel P pre a) = nsearch g fuel P pre a.
Proof.
  induction fuel as [|f IH]; intros P pre a; [reflexivity|].
  cbn [nsearch_md nsearch]. destruct (Nat.ltb md (length pre)); [discriminate|].
  destruct (first_big (nrefine g P)) as [i|]; [|reflexivity].
  set (l := children g (nth i (nrefine g P) [])). clearbody l. revert a.
  induction l as [|v l IHl]; intros a Hf; [reflexivity|].
  cbn [fold_left snd fst] in *.
  destruct (npruned g a (pre ++ [v])); [apply IHl; exact Hf|].
  destruct (nsearch_md md g f (individualise (nrefine g P) i v) (pre ++ [v]) a) as [a1 b1] eqn:E1.
  destruct b1.
  - rewrite fold_md_sticky in Hf; [discriminate| |reflexivity]. intros s0 v0 Hs0. rewrite Hs0. reflexivity.
  - pose proof (IH (individualise (nrefine g P) i v) (pre ++ [v]) a) as H. rewrite E1 in H. cbn [fst snd] in H.
    rewrite <- (H eq_refl). apply IHl. exact Hf.
Qed.

Theorem canon_md_no_early_stop md g p : NoDup (node_ids g) -> canon_md md g = Some (p, false) -> p = nauty_perm g.
Proof.
  intros Hnd E. unfold canon_md, nauty_md in E.
  destruct (nsearch_md md g (sfuel g) (init_partition g) [] (None, [])) as [a b] eqn:Es. cbn [fst snd] in E.
  destruct (fst a) as [[bl bp]|] eqn:Ea; [|discriminate]. inversion E; subst.
  pose proof (nsearch_md_complete md g (sfuel g) (init_partition g) [] (None, [])) as H. rewrite Es in H. cbn [fst snd] in H.
  unfold nauty_perm, nauty_acc. rewrite <- (H eq_refl). rewrite Ea. reflexivity.
Qed.

(* non-vacuity: md_g with max_depth 2 < 4 nodes reports early_stop False (md_ex) - the theorem applies below the trivial bound *)
Example md2_ex : canon_md 2 md_g = Some (nauty_perm md_g, false) /\ 2 < length (gnodes md_g).
Proof. split; [apply md_ex|simpl; lia]. Qed.

Print Assumptions canon_md_no_early_stop.
