(** C15 (round 3) — the read-only views of CRNHyperGraph (model/C15_Ext.v §2–3):
    sorted(), __len__, iteration, __contains__, neighbors, paths (soundness),
    incidence_matrix(sparse=False). *)
From stdpp Require Import gmap strings sets pretty sorting.
From SK Require Import lib.Tok model.C15_Model model.C15_Ext proof.C15_Proof proof.C15_Ext.
Local Open Scope string_scope.

(** * 1. sorted() on strings *)

Global Instance sle15_total : Total sle15.
Proof. intros a b. apply String.leb_total. Qed.

Global Instance sle15_trans : Transitive sle15.
Proof.
  unfold sle15, String.leb. intros a. induction a as [|ca a IH]; intros [|cb b] [|cc c]; cbn; try done.
  unfold Ascii.compare.
  destruct (N.compare_spec (Ascii.N_of_ascii ca) (Ascii.N_of_ascii cb)) as [E1|E1|E1],
           (N.compare_spec (Ascii.N_of_ascii cb) (Ascii.N_of_ascii cc)) as [E2|E2|E2],
           (N.compare_spec (Ascii.N_of_ascii ca) (Ascii.N_of_ascii cc)) as [E3|E3|E3];
    try done; try lia.
  apply IH.
Qed.

Lemma ssort_perm l : ssort l ≡ₚ l.
Proof. apply merge_sort_Permutation. Qed.
Lemma ssort_sorted l : StronglySorted sle15 (ssort l).
Proof. apply Sorted_StronglySorted; [apply _|]. apply Sorted_merge_sort. apply _. Qed.
Lemma elem_of_ssort l x : x ∈ ssort l ↔ x ∈ l.
Proof. by rewrite ssort_perm. Qed.
Lemma ssort_NoDup l : NoDup l → NoDup (ssort l).
Proof. by rewrite ssort_perm. Qed.

Lemma species_list_spec s :
  StronglySorted sle15 (species_list s) ∧ NoDup (species_list s) ∧ ∀ x, x ∈ species_list s ↔ x ∈ species s.
Proof.
  unfold species_list. split_and!.
  - apply ssort_sorted.
  - apply ssort_NoDup, NoDup_elements.
  - intros x. by rewrite elem_of_ssort, elem_of_elements.
Qed.

Lemma edge_ids_sorted_spec s :
  StronglySorted sle15 (edge_ids_sorted s) ∧ NoDup (edge_ids_sorted s) ∧
  ∀ e, e ∈ edge_ids_sorted s ↔ is_Some (edges s !! e).
Proof.
  unfold edge_ids_sorted. split_and!.
  - apply ssort_sorted.
  - apply ssort_NoDup, NoDup_elements.
  - intros x. by rewrite elem_of_ssort, elem_of_elements, elem_of_dom.
Qed.

(** * 2. __len__, iteration, __contains__ *)

Lemma len_spec s : Inv s → len s = length (order s).
Proof.
  intros HI. unfold len. rewrite <- size_dom.
  assert (dom (edges s) = list_to_set (order s)) as ->.
  { apply set_eq. intros e. rewrite elem_of_dom, elem_of_list_to_set. symmetry. apply HI. }
  apply size_list_to_set, HI.
Qed.

Lemma iter_spec s : Inv s → (edge_seq s).*1 = order s ∧ list_to_map (edge_seq s) = edges s.
Proof.
  intros HI. split; [|by apply edge_seq_map].
  apply edge_seq_fst. intros e. apply HI.
Qed.

Lemma contains_spec s x : contains s x = true ↔ x ∈ species s ∨ is_Some (edges s !! x).
Proof. unfold contains. rewrite orb_true_iff, !bool_decide_eq_true. done. Qed.

(** * 3. neighbors *)

Definition nbr (s : net) (x y : string) : Prop :=
  ∃ e rx, edges s !! e = Some rx ∧ x ∈ dom (r_lhs rx) ∧ y ∈ dom (r_rhs rx).

Lemma neighbors_raw_fold s (X : gset string) :
  (∀ e, e ∈ X → is_Some (edges s !! e)) →
  ∃ N, set_fold (λ e acc, match acc, edges s !! e with
                          | Some a, Some rx => Some (a ∪ dom (r_rhs rx))
                          | _, _ => None end) (Some ∅) X = Some N ∧
       ∀ y, y ∈ N ↔ ∃ e rx, e ∈ X ∧ edges s !! e = Some rx ∧ y ∈ dom (r_rhs rx).
Proof.
  revert X. apply (set_fold_ind_L (λ acc (X : gset string),
    (∀ e, e ∈ X → is_Some (edges s !! e)) →
    ∃ N, acc = Some N ∧ ∀ y, y ∈ N ↔ ∃ e rx, e ∈ X ∧ edges s !! e = Some rx ∧ y ∈ dom (r_rhs rx))).
  - intros _. exists ∅. split; [done|]. intros y. split; [set_solver|]. intros (e & ? & ? & _). set_solver.
  - intros e X acc He IH Hall. destruct IH as (N & -> & HN); [intros e' ?; apply Hall; set_solver|].
    destruct (Hall e) as [rx Hrx]; [set_solver|]. rewrite Hrx. eexists. split; [done|].
    intros y. rewrite elem_of_union, HN. split.
    + intros [(e' & rx' & ? & ? & ?)|Hy]; [exists e', rx'; set_solver|exists e, rx; set_solver].
    + intros (e' & rx' & [->%elem_of_singleton|?]%elem_of_union & Hl & Hy).
      * right. by simplify_eq.
      * left. eauto.
Qed.

Lemma neighbors_spec s x :
  Inv s →
  match neighbors s x with
  | inr N => x ∈ species s ∧ ∀ y, y ∈ N ↔ nbr s x y
  | inl QKeyError => x ∉ species s
  | inl _ => False
  end.
Proof.
  intros HI. unfold neighbors. destruct (decide (x ∈ species s)) as [Hx|Hx]; [|done].
  destruct (neighbors_raw_fold s (default ∅ (s_out s !! x))) as (N & HN & Hy).
  { intros e. rewrite (inv_out _ HI), elem_of_consumers. intros (rx & -> & _). eauto. }
  unfold neighbors_raw. rewrite HN. split; [done|]. intros y. rewrite Hy. unfold nbr.
  setoid_rewrite (inv_out _ HI). setoid_rewrite elem_of_consumers. split.
  - intros (e & rx & (rx' & ? & ?) & ? & ?). simplify_eq. eauto.
  - intros (e & rx & ? & ? & ?). exists e, rx. eauto.
Qed.

(** neighbours are present species *)
Lemma nbr_species s x y : Inv s → nbr s x y → y ∈ species s.
Proof.
  intros HI (e & rx & He & _ & Hy). apply (inv_occ _ HI). exists e, rx. split; [done|].
  unfold rxn_species. set_solver.
Qed.

(** * 4. incidence_matrix(sparse=False) *)

Lemma dense_spec s :
  Inv s →
  dense s = Some ((λ x, dense_entry s x <$> edge_ids_sorted s) <$> species_list s).
Proof.
  intros HI. unfold dense. rewrite decide_True; [done|].
  intros e rx He x Hx. apply (inv_occ _ HI). by exists e, rx.
Qed.

(** the entry in row [x], column [e] of the dense matrix *)
Lemma dense_lookup s m i j x e :
  dense s = Some m → species_list s !! i = Some x → edge_ids_sorted s !! j = Some e →
  m !! i ≫= (.!! j) = Some (dense_entry s x e).
Proof.
  unfold dense. destruct (decide _); [|done]. intros [= <-] Hi Hj.
  rewrite list_lookup_fmap, Hi. cbn. by rewrite list_lookup_fmap, Hj.
Qed.

(** dense and sparse agree: an entry listed by the sparse mapping has the same
    value in the dense matrix, every other entry of the dense matrix is 0 *)
Lemma dense_entry_sparse s x e v : (x, e, v) ∈ incidence s → dense_entry s x e = v.
Proof. intros (rx & He & _ & ->)%incidence_spec. unfold dense_entry. by rewrite He. Qed.

Lemma dense_entry_zero s x e : (∀ v, (x, e, v) ∉ incidence s) → dense_entry s x e = 0%Z.
Proof.
  intros Hno. unfold dense_entry. destruct (edges s !! e) as [rx|] eqn:He; [|done].
  destruct (decide (x ∈ rxn_species rx)) as [Hx|Hx].
  - destruct (Hno (coef (r_rhs rx) x - coef (r_lhs rx) x)%Z). apply incidence_spec. eauto.
  - assert (r_lhs rx !! x = None) as Hl by (apply not_elem_of_dom; unfold rxn_species in Hx; set_solver).
    assert (r_rhs rx !! x = None) as Hr by (apply not_elem_of_dom; unfold rxn_species in Hx; set_solver).
    unfold coef. by rewrite Hl, Hr.
Qed.

Lemma dense_entry_meaning s x e rx :
  edges s !! e = Some rx → dense_entry s x e = (coef (r_rhs rx) x - coef (r_lhs rx) x)%Z.
Proof. intros He. unfold dense_entry. by rewrite He. Qed.

(** * 5. paths: every reported path is a simple chain of neighbours from the
    source to the target within the hop limit *)

Inductive rpath (s : net) (src : string) : list string → Prop :=
| rp_src : rpath s src [src]
| rp_step n last rp : rpath s src (last :: rp) → nbr s last n → n ∉ last :: rp →
                      rpath s src (n :: last :: rp).

Lemma extend_sound s src rp nxt :
  Inv s → rpath s src rp → extend s rp = Some nxt →
  Forall (λ rp', rpath s src rp' ∧ length rp' = S (length rp)) nxt.
Proof.
  intros HI Hrp. unfold extend. destruct rp as [|last rp]; [by inversion Hrp|].
  pose proof (neighbors_spec s last HI) as HN. destruct (neighbors s last) as [er|N]; [done|].
  destruct HN as [_ HN]. intros [= <-]. apply Forall_fmap, Forall_forall. intros n Hn.
  apply elem_of_list_filter in Hn as [Hnin Hn]. apply elem_of_ssort, elem_of_elements, HN in Hn.
  split; [by constructor|done].
Qed.

Lemma bfs_sound s src tgt : ∀ k level d out,
  Inv s → Forall (λ rp, rpath s src rp ∧ length rp = d) level →
  bfs k s tgt level = Some out →
  Forall (λ rp, rpath s src rp ∧ head rp = Some tgt ∧ (d ≤ length rp < d + k)%nat) out.
Proof.
  induction k as [|k IH]; intros level d out HI Hl; cbn [bfs]; [by intros [= <-]|].
  destruct (mapM _ _) as [nxt|] eqn:Hm; [|done].
  destruct (bfs k s tgt (concat nxt)) as [rest|] eqn:Hb; [|done]. intros [= <-].
  apply Forall_app. split.
  - apply Forall_forall. intros rp [Hh Hin]%elem_of_list_filter.
    rewrite Forall_forall in Hl. destruct (Hl rp Hin) as [? ?]. split_and!; [done|done|lia|lia].
  - apply (IH _ (S d)) in Hb; [|done|].
    + eapply Forall_impl; [exact Hb|]. intros rp (? & ? & ?). split_and!; [done|done|lia|lia].
    + apply Forall_concat. apply mapM_Some in Hm. rewrite Forall_forall. intros l Hin.
      apply elem_of_list_lookup in Hin as [i Hi].
      destruct (Forall2_lookup_r _ _ _ _ _ Hm Hi) as (rp & Hrp & Hext).
      apply elem_of_list_lookup_2, elem_of_list_filter in Hrp as [_ Hrp].
      rewrite Forall_forall in Hl. destruct (Hl rp Hrp) as [Hr <-].
      apply (extend_sound s src rp l HI Hr Hext).
Qed.

Lemma paths_sound s a b h m ps p :
  Inv s → paths s a b h m = inr ps → p ∈ ps →
  ∃ rp, p = reverse rp ∧ rpath s a rp ∧ head rp = Some b ∧ (Z.of_nat (length p) ≤ h + 1)%Z.
Proof.
  intros HI. unfold paths. destruct (decide _) as [[Ha Hb]|]; [|done].
  destruct (bfs _ s b [[a]]) as [out|] eqn:Hbfs; [|done]. intros [= <-] Hp.
  assert (Hin : p ∈ reverse <$> out).
  { destruct m as [m|]; [|done]. apply elem_of_take in Hp as (i & Hi & _). by eapply elem_of_list_lookup_2. }
  apply elem_of_list_fmap in Hin as (rp & -> & Hrp).
  eapply (bfs_sound s a b _ _ 1) in Hbfs; [|done|by repeat constructor].
  rewrite Forall_forall in Hbfs. destruct (Hbfs rp Hrp) as (H1 & H2 & H3).
  exists rp. split_and!; [done..|]. rewrite reverse_length.
  destruct (h <? 0)%Z eqn:Hh; [lia|]. apply Z.ltb_ge in Hh. lia.
Qed.

(** the chain read forwards *)
Lemma rpath_NoDup s src rp : rpath s src rp → NoDup rp.
Proof. induction 1; [apply NoDup_singleton|]. by constructor. Qed.
Lemma rpath_last s src rp : rpath s src rp → last rp = Some src.
Proof. induction 1; [done|]. by rewrite last_cons_cons in *. Qed.

Lemma rpath_meaning s src rp :
  rpath s src rp →
  NoDup rp ∧ last rp = Some src ∧
  ∀ i n prev, rp !! i = Some n → rp !! S i = Some prev →
    ∃ e rx, edges s !! e = Some rx ∧ prev ∈ dom (r_lhs rx) ∧ n ∈ dom (r_rhs rx).
Proof.
  intros H. split; [by eapply rpath_NoDup|]. split; [by eapply rpath_last|].
  induction H as [|n last rp H IH Hn Hnin]; intros i a b Ha Hb.
  - destruct i as [|i]; cbn in *; [done|]. by destruct i.
  - destruct i as [|i]; cbn in *.
    + simplify_eq. exact Hn.
    + by eapply IH.
Qed.

Lemma dense_full s :
  Inv s →
  ∃ m, dense s = Some m ∧ length m = length (species_list s) ∧
  (∀ i j x e, species_list s !! i = Some x → edge_ids_sorted s !! j = Some e →
     m !! i ≫= (.!! j) = Some (dense_entry s x e)) ∧
  (∀ x e rx, edges s !! e = Some rx → dense_entry s x e = (coef (r_rhs rx) x - coef (r_lhs rx) x)%Z) ∧
  (∀ x e v, (x, e, v) ∈ incidence s → dense_entry s x e = v) ∧
  (∀ x e, (∀ v, (x, e, v) ∉ incidence s) → dense_entry s x e = 0%Z).
Proof.
  intros HI. eexists. split; [by apply dense_spec|]. split; [by rewrite fmap_length|].
  split; [|split; [|split]].
  - intros i j x e Hi Hj. eapply dense_lookup; [by apply dense_spec|done..].
  - intros x e rx. apply dense_entry_meaning.
  - apply dense_entry_sparse.
  - apply dense_entry_zero.
Qed.
