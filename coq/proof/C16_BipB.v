(** C16 — bipartite view, part B: importing the exported graph gives back the network. *)
From stdpp Require Import gmap strings sets pretty sorting.
From SK Require Import lib.Tok model.C15_Model proof.C15_Proof model.C16_Model proof.C16_Defs proof.C16_Common proof.C16_BipA.
Local Open Scope string_scope.
Local Open Scope list_scope.

(** * generic list lemmas *)
Lemma NoDup_omap {A B} (g : A → option B) (l : list A) :
  NoDup l → (∀ x y b, x ∈ l → y ∈ l → g x = Some b → g y = Some b → x = y) → NoDup (omap g l).
Proof.
  induction 1 as [|x l Hx Hnd IH]; intros Hinj; [constructor|]. cbn [omap list_omap].
  destruct (g x) as [b|] eqn:E.
  - apply NoDup_cons. split.
    + intros (y & Hy & Hgy)%elem_of_list_omap. assert (x = y) as -> by (eapply Hinj; [by left|by right|done|done]). done.
    + apply IH. intros ??? ??. apply Hinj; by right.
  - apply IH. intros ??? ??. apply Hinj; by right.
Qed.

Lemma sum_map_fold (l : list (string * Z)) : NoDup l.*1 → ∀ acc : gmap string Z, (∀ s, s ∈ l.*1 → acc !! s = None) →
  foldl (λ acc lz, <[ lz.1 := (default 0 (acc !! lz.1) + lz.2)%Z ]> acc) acc l = (list_to_map l : gmap string Z) ∪ acc.
Proof.
  induction l as [|[s z] l IH]; intros Hnd acc Hacc.
  - cbn. by rewrite (left_id_L ∅ (∪)).
  - rewrite fmap_cons in Hnd. apply NoDup_cons in Hnd as [Hs Hnd]. cbn [fst] in Hs. cbn [foldl fst snd].
    rewrite (Hacc s) by (rewrite fmap_cons; by left). cbn [default]. rewrite Z.add_0_l, IH; [|done|].
    + rewrite list_to_map_cons. apply map_eq. intros k. rewrite !lookup_union. destruct (decide (k = s)) as [->|Hk].
      * rewrite !lookup_insert, (not_elem_of_list_to_map_1 _ s) by done. rewrite (Hacc s) by (rewrite fmap_cons; by left). done.
      * by rewrite !lookup_insert_ne by done.
    + intros s' Hs'. rewrite lookup_insert_ne by (intros ->; done). apply Hacc. rewrite fmap_cons. by right.
Qed.
Lemma sum_map_nodup (l : list (string * Z)) : NoDup l.*1 → sum_map l = list_to_map l.
Proof.
  intros Hnd. unfold sum_map. rewrite sum_map_fold; [by rewrite (right_id_L ∅ (∪))|done|]. intros ? _. apply lookup_empty.
Qed.
Lemma sum_map_of_map (l : list (string * Z)) (m : gmap string Z) :
  NoDup l → (∀ s z, (s, z) ∈ l ↔ m !! s = Some z) → sum_map l = m.
Proof.
  intros Hnd Hl. assert (l ≡ₚ map_to_list m) as Hperm.
  { apply NoDup_Permutation; [done|apply NoDup_map_to_list|]. intros [s z]. by rewrite Hl, elem_of_map_to_list. }
  assert (NoDup l.*1) as Hk by (rewrite Hperm; apply NoDup_fst_map_to_list).
  rewrite sum_map_nodup by done. rewrite (list_to_map_proper _ (map_to_list m)) by done. apply list_to_map_to_list.
Qed.

(** fold of conditional label assignments, started from an empty label map *)
Section mol_fold.
  Context {A : Type} (f : A → option (string * string)).
  Definition mol_step (acc : net) (x : A) : net :=
    match f x with
    | Some kv => if decide (kv.1 ∈ species acc) then set_mol acc kv.1 kv.2 else acc
    | None => acc
    end.
  Lemma mol_fold_spec (l : list A) (s : net) : mol s = ∅ →
    (∀ x y k v v', x ∈ l → y ∈ l → f x = Some (k, v) → f y = Some (k, v') → v = v') →
    edges (foldl mol_step s l) = edges s ∧ species (foldl mol_step s l) = species s ∧
    ∀ k v, mol (foldl mol_step s l) !! k = Some v ↔ ∃ x, x ∈ l ∧ f x = Some (k, v) ∧ k ∈ species s.
  Proof.
    intros Hm0. induction l as [|x l IH] using rev_ind; intros Hfun.
    - cbn. split; [done|]. split; [done|]. intros k v. rewrite Hm0, lookup_empty. split; [done|].
      by intros (? & ?%elem_of_nil & _).
    - destruct IH as (He & Hs & Hm). { intros ????? ??. apply Hfun; set_solver. }
      rewrite foldl_app. cbn [foldl]. set (r := foldl mol_step s l) in *. unfold mol_step.
      destruct (f x) as [[k0 v0]|] eqn:E; cbn [fst snd].
      + destruct (decide (k0 ∈ species r)) as [Hin|Hnin].
        * cbn [set_mol edges species mol]. split; [done|]. split; [done|]. intros k v.
          rewrite Hs in Hin. rewrite lookup_insert_Some, Hm. split.
          -- intros [[<- <-]|[Hne (y & Hy & ?)]]; [exists x|exists y]; (split; [set_solver|done]).
          -- intros (y & [Hy|Hq%elem_of_list_singleton]%elem_of_app & Hfy & Hk).
             ++ destruct (decide (k0 = k)) as [->|Hne]; [|right; eauto].
                left. split; [done|]. eapply (Hfun x y k); [set_solver|set_solver|done|done].
             ++ subst y. left. by simplify_eq.
        * split; [done|]. split; [done|]. intros k v. rewrite Hm. rewrite Hs in Hnin. split.
          -- intros (y & Hy & ?). exists y. split; [set_solver|done].
          -- intros (y & [Hy|Hq%elem_of_list_singleton]%elem_of_app & Hfy & Hk); [eauto|]. subst y. by simplify_eq.
      + split; [done|]. split; [done|]. intros k v. rewrite Hm. split.
        * intros (y & Hy & ?). exists y. split; [set_solver|done].
        * intros (y & [Hy|Hq%elem_of_list_singleton]%elem_of_app & Hfy & Hk); [eauto|]. subst y. congruence.
  Qed.
End mol_fold.

Section import.
  Context (fl : bflags) (ifl : iflags) (H : net) (G : bgraph) (Ms Rs : gmap string nid).
  Context (HS : bip_spec fl H G Ms Rs) (Hwf : wf_rxns H) (Heid : f_eid fl = true).
  (** what an arc carries for a coefficient: the coefficient itself, or nothing (read as 1) without `stoich` *)
  Definition cv (c : positive) : positive := if f_stoich fl then c else 1%positive.
  Definition cvs (sd : side) : side := cv <$> sd.
  Definition cvr (rx : rxn) : rxn := Rxn (r_rule rx) (cvs (r_lhs rx)) (cvs (r_rhs rx)).
  Lemma dom_cvs (sd : side) : dom (cvs sd) = dom sd.
  Proof. apply dom_fmap_L. Qed.

  Lemma node_of_species s n : Ms !! s = Some n → b_nodes G !! n = Some (sp_attrs fl H s).
  Proof. intros Hs. apply (bs_nodes _ _ _ _ _ HS). left. eauto. Qed.
  Lemma node_of_rxn e rx n : edges H !! e = Some rx → Rs !! e = Some n → b_nodes G !! n = Some (rx_attrs fl e (r_rule rx)).
  Proof. intros He Hn. apply (bs_nodes _ _ _ _ _ HS). right. eauto. Qed.
  Lemma label_of_species s n : Ms !! s = Some n → node_label G n = s.
  Proof. intros Hs. unfold node_label. by rewrite (node_of_species s n Hs). Qed.

  (** ** classification of the nodes *)
  Lemma classify_spec : ∃ spN rxN, classify ifl G = (spN, rxN) ∧
    (∀ n, n ∈ spN ↔ ∃ s, Ms !! s = Some n) ∧ (∀ n, n ∈ rxN ↔ ∃ e, Rs !! e = Some n).
  Proof.
    unfold classify. cbv zeta.
    match goal with |- context [if decide (?a = ∅ ∧ ?b = ∅) then _ else _] => set (sp := a); set (rx := b) end.
    assert (∀ n, n ∈ sp ↔ ∃ s, Ms !! s = Some n) as Hsp.
    { intros n. unfold sp. rewrite elem_of_dom. split.
      - intros [nd [Hnd Hk]%map_filter_lookup_Some]. cbn in Hk.
        apply (bs_nodes _ _ _ _ _ HS) in Hnd as [(s & Hs & ->)|(e & rx0 & _ & _ & ->)]; [eauto|].
        cbn in Hk. destruct Hk as [Hq|[[_ Hq] _]]; [discriminate Hq|by destruct Hq].
      - intros [s Hs]. exists (sp_attrs fl H s). apply map_filter_lookup_Some. split; [by apply node_of_species|].
        cbn. by left. }
    assert (∀ n, n ∈ rx ↔ ∃ e, Rs !! e = Some n) as Hrx.
    { intros n. unfold rx. rewrite elem_of_dom. split.
      - intros [nd [Hnd Hk]%map_filter_lookup_Some]. cbn in Hk.
        apply (bs_nodes _ _ _ _ _ HS) in Hnd as [(s & Hs & ->)|(e & rx0 & _ & ? & ->)]; [|eauto].
        cbn in Hk. destruct Hk as [Hq|[[Hq _] _]]; [discriminate Hq|by destruct Hq].
      - intros [e He]. destruct (proj1 (bs_Rdom _ _ _ _ _ HS e)) as [rx0 Hrx0]; [eauto|].
        exists (rx_attrs fl e (r_rule rx0)). apply map_filter_lookup_Some. split; [by eapply node_of_rxn|].
        cbn. by left. }
    destruct (decide (sp = ∅ ∧ rx = ∅)) as [[Hs0 Hr0]|_]; [|eauto].
    assert (b_arcs G = ∅) as Ha.
    { apply map_empty. intros [u v]. destruct (b_arcs G !! (u, v)) as [a|] eqn:E; [|done].
      apply (bs_arcs _ _ _ _ _ HS) in E as [(e & ? & ? & ? & _ & He & _)|(e & ? & ? & ? & _ & He & _)].
      - assert (v ∈ rx) by (apply Hrx; eauto). set_solver.
      - assert (u ∈ rx) by (apply Hrx; eauto). set_solver. }
    eexists _, _. split; [done|]. rewrite Ha, dom_empty_L, !set_map_empty. split; intros n.
    - rewrite <-Hsp, Hs0. done.
    - rewrite <-Hrx, Hr0. done.
  Qed.

  (** ** the coefficient maps read off the arcs *)
  Context (spN rxN : gset nid).
  Context (HspN : ∀ n, n ∈ spN ↔ ∃ s, Ms !! s = Some n) (HrxN : ∀ n, n ∈ rxN ↔ ∃ e, Rs !! e = Some n).

  Lemma occurs_l e rx s c : edges H !! e = Some rx → r_lhs rx !! s = Some c → s ∈ occurring H.
  Proof. intros He Hc. apply elem_of_occurring. exists e, rx. split; [done|]. apply elem_of_union_l. by apply elem_of_dom_2 in Hc. Qed.
  Lemma occurs_r e rx s c : edges H !! e = Some rx → r_rhs rx !! s = Some c → s ∈ occurring H.
  Proof. intros He Hc. apply elem_of_occurring. exists e, rx. split; [done|]. apply elem_of_union_r. by apply elem_of_dom_2 in Hc. Qed.

  Lemma side_map_in e rx rnd : edges H !! e = Some rx → Rs !! e = Some rnd →
    side_map G spN rnd true = Z.pos <$> cvs (r_lhs rx).
  Proof.
    intros He Hr. unfold side_map. apply sum_map_of_map.
    - unfold side_contribs. apply NoDup_omap; [apply NoDup_map_to_list|].
      intros [[u v] a] [[u' v'] a'] [lbl z] Hx%elem_of_map_to_list Hy%elem_of_map_to_list. cbn.
      destruct (decide (v = rnd ∧ u ∈ spN)) as [[-> Hu]|]; [|done].
      destruct (decide (v' = rnd ∧ u' ∈ spN)) as [[-> Hu']|]; [|done].
      intros [= <- <-] [= Hlbl Hz].
      apply HspN in Hu as [s Hs]. apply HspN in Hu' as [s' Hs'].
      rewrite (label_of_species s u Hs), (label_of_species s' u' Hs') in Hlbl. subst s'.
      assert (u' = u) as -> by congruence. assert (a' = a) as -> by congruence. done.
    - intros s z. unfold side_contribs, cvs. rewrite elem_of_list_omap, !lookup_fmap. split.
      + intros ([[u v] a] & Hin%elem_of_map_to_list & Hg). cbn in Hg. destruct (decide _) as [[-> Hu]|]; [|done].
        injection Hg as <- <-.
        apply (bs_arcs _ _ _ _ _ HS) in Hin as [(e0 & rx0 & s0 & c & He0 & Hr0 & Hs0 & Hc & ->)|(e0 & rx0 & s0 & c & He0 & Hr0 & Hs0 & Hc & ->)].
        * assert (e0 = e) as -> by (eapply (bs_Rinj _ _ _ _ _ HS); eauto). assert (rx0 = rx) as -> by congruence.
          rewrite (label_of_species s0 u Hs0). unfold side in *. rewrite Hc. cbn. unfold arc_attrs, cv. by destruct (f_stoich fl).
        * exfalso. eapply (bs_disj _ _ _ _ _ HS); eauto.
      + destruct ((r_lhs rx : gmap string positive) !! s) as [c|] eqn:Hc; [|done]. cbn. intros [= <-].
        destruct (bs_Mocc _ _ _ _ _ HS s) as [u Hu]; [by eapply occurs_l|].
        exists ((u, rnd), arc_attrs fl c "reactant"). split.
        * apply elem_of_map_to_list. apply (bs_arcs _ _ _ _ _ HS). left. by exists e, rx, s, c.
        * cbn. rewrite decide_True by (split; [done|apply HspN; eauto]).
          rewrite (label_of_species s u Hu). unfold arc_attrs, cv. by destruct (f_stoich fl).
  Qed.

  Lemma side_map_out e rx rnd : edges H !! e = Some rx → Rs !! e = Some rnd →
    side_map G spN rnd false = Z.pos <$> cvs (r_rhs rx).
  Proof.
    intros He Hr. unfold side_map. apply sum_map_of_map.
    - unfold side_contribs. apply NoDup_omap; [apply NoDup_map_to_list|].
      intros [[u v] a] [[u' v'] a'] [lbl z] Hx%elem_of_map_to_list Hy%elem_of_map_to_list. cbn.
      destruct (decide (u = rnd ∧ v ∈ spN)) as [[-> Hv]|]; [|done].
      destruct (decide (u' = rnd ∧ v' ∈ spN)) as [[-> Hv']|]; [|done].
      intros [= <- <-] [= Hlbl Hz].
      apply HspN in Hv as [s Hs]. apply HspN in Hv' as [s' Hs'].
      rewrite (label_of_species s v Hs), (label_of_species s' v' Hs') in Hlbl. subst s'.
      assert (v' = v) as -> by congruence. assert (a' = a) as -> by congruence. done.
    - intros s z. unfold side_contribs, cvs. rewrite elem_of_list_omap, !lookup_fmap. split.
      + intros ([[u v] a] & Hin%elem_of_map_to_list & Hg). cbn in Hg. destruct (decide _) as [[-> Hv]|]; [|done].
        injection Hg as <- <-.
        apply (bs_arcs _ _ _ _ _ HS) in Hin as [(e0 & rx0 & s0 & c & He0 & Hr0 & Hs0 & Hc & ->)|(e0 & rx0 & s0 & c & He0 & Hr0 & Hs0 & Hc & ->)].
        * exfalso. eapply (bs_disj _ _ _ _ _ HS); eauto.
        * assert (e0 = e) as -> by (eapply (bs_Rinj _ _ _ _ _ HS); eauto). assert (rx0 = rx) as -> by congruence.
          rewrite (label_of_species s0 v Hs0). unfold side in *. rewrite Hc. cbn. unfold arc_attrs, cv. by destruct (f_stoich fl).
      + destruct ((r_rhs rx : gmap string positive) !! s) as [c|] eqn:Hc; [|done]. cbn. intros [= <-].
        destruct (bs_Mocc _ _ _ _ _ HS s) as [v Hv]; [by eapply occurs_r|].
        exists ((rnd, v), arc_attrs fl c "product"). split.
        * apply elem_of_map_to_list. apply (bs_arcs _ _ _ _ _ HS). right. by exists e, rx, s, c.
        * cbn. rewrite decide_True by (split; [done|apply HspN; eauto]).
          rewrite (label_of_species s v Hv). unfold arc_attrs, cv. by destruct (f_stoich fl).
  Qed.

  (** ** the rebuild loop *)
  Definition nd_of (n : nid) : bnode := default (BNode None None None None None) (b_nodes G !! n).
  Definition fid (n : nid) : string := default "" (bn_eid (nd_of n)).
  Definition fl' (n : nid) : side := normalize (map_to_list (side_map G spN n true)).
  Definition fr' (n : nid) : side := normalize (map_to_list (side_map G spN n false)).
  Definition frule (n : nid) : string := default (i_default_rule ifl) (bn_label (nd_of n)).

  Lemma rxn_node_facts n e : Rs !! e = Some n →
    ∃ rx, edges H !! e = Some rx ∧ bn_eid (nd_of n) = Some e ∧ fid n = e ∧ fl' n = cvs (r_lhs rx) ∧ fr' n = cvs (r_rhs rx) ∧
          frule n = r_rule rx ∧ side_map G spN n true = Z.pos <$> cvs (r_lhs rx) ∧ side_map G spN n false = Z.pos <$> cvs (r_rhs rx).
  Proof.
    intros Hr. destruct (proj1 (bs_Rdom _ _ _ _ _ HS e)) as [rx Hrx]; [eauto|]. exists rx.
    unfold fid, fl', fr', frule, nd_of. rewrite (node_of_rxn e rx n Hrx Hr). cbn. rewrite Heid. cbn.
    rewrite (side_map_in e rx n Hrx Hr), (side_map_out e rx n Hrx Hr), !normalize_pos_map. done.
  Qed.

  Lemma rxn_nonempty e rx : edges H !! e = Some rx → ¬ (r_lhs rx = ∅ ∧ r_rhs rx = ∅).
  Proof. intros He. destruct (Hwf e rx He) as [Hem _]. unfold rxn_empty in Hem. by apply bool_decide_eq_false in Hem. Qed.

  Lemma import_rxn_step acc n e : Rs !! e = Some n → import_rxn ifl G spN acc n = rebuild_step fid fl' fr' frule acc n.
  Proof.
    intros Hr. destruct (rxn_node_facts n e Hr) as (rx & Hrx & Hid & Hfid & Hl & Hr' & Hrule & Hin & Hout).
    unfold import_rxn, rebuild_step. destruct acc as [s [er|]]; [done|]. cbv zeta.
    fold (nd_of n). rewrite decide_False.
    - rewrite Hid. fold (fl' n) (fr' n) (frule n). by rewrite Hfid.
    - rewrite Hin, Hout. intros [Ha%fmap_empty_inv%fmap_empty_inv Hb%fmap_empty_inv%fmap_empty_inv]. by eapply rxn_nonempty.
  Qed.

  Lemma import_result : ∃ s',
    foldl (import_rxn ifl G spN) (empty_net, None) (merge_sort nid_le (elements rxN)) = (s', None) ∧
    edges s' = cvr <$> edges H ∧ species s' = occurring H ∧ mol s' = ∅.
  Proof.
    set (l := merge_sort nid_le (elements rxN)).
    assert (l ≡ₚ elements rxN) as Hperm by apply merge_sort_Permutation.
    assert (∀ n, n ∈ l ↔ ∃ e, Rs !! e = Some n) as Hl.
    { intros n. by rewrite Hperm, elem_of_elements, HrxN. }
    assert (NoDup l) as Hnd by (rewrite Hperm; apply NoDup_elements).
    rewrite (foldl_ext_in _ (rebuild_step fid fl' fr' frule)).
    2:{ intros acc n [e He]%Hl. by eapply import_rxn_step. }
    destruct (rebuild_fold fid fl' fr' frule l) with (s := empty_net) as (s' & Hf & He & Hs & Hm).
    { apply NoDup_fmap_2_strong; [|done]. intros x y [ex Hx]%Hl [ey Hy]%Hl Hxy.
      destruct (rxn_node_facts x ex Hx) as (_ & _ & _ & Hfx & _). destruct (rxn_node_facts y ey Hy) as (_ & _ & _ & Hfy & _).
      congruence. }
    { apply Forall_forall. intros n [e He]%Hl. destruct (rxn_node_facts n e He) as (rx & Hrx & _ & _ & -> & -> & _).
      intros [Ha%fmap_empty_inv Hb%fmap_empty_inv]. by eapply rxn_nonempty. }
    { done. }
    exists s'. split; [done|]. split_and!.
    - rewrite He. cbn [edges empty_net]. rewrite (right_id_L ∅ (∪)). apply map_eq. intros e. rewrite lookup_fmap.
      destruct (edges H !! e) as [rx|] eqn:Hrx; cbn [fmap option_fmap option_map].
      + destruct (proj2 (bs_Rdom _ _ _ _ _ HS e)) as [n Hn]; [eauto|].
        destruct (rxn_node_facts n e Hn) as (rx' & Hrx' & _ & Hfid & Hl' & Hr' & Hrule & _).
        assert (rx' = rx) as -> by congruence.
        apply (elem_of_list_to_map_1 _ e (cvr rx)); [by rewrite rebuilt_fst; apply NoDup_fmap_2_strong;
          [intros x y [ex Hx]%Hl [ey Hy]%Hl Hxy; destruct (rxn_node_facts x ex Hx) as (_ & _ & _ & Hfx & _);
           destruct (rxn_node_facts y ey Hy) as (_ & _ & _ & Hfy & _); congruence|]|].
        apply elem_of_list_fmap. exists n. split; [|apply Hl; eauto]. unfold rebuilt.
        rewrite Hfid, Hl', Hr', Hrule, norm_rule_id by (by destruct (Hwf e rx Hrx)). done.
      + apply not_elem_of_list_to_map_1. rewrite rebuilt_fst. intros (n & -> & [e' He']%Hl)%elem_of_list_fmap.
        destruct (rxn_node_facts n e' He') as (rx & Hrx' & _ & Hfid & _). congruence.
    - rewrite Hs. cbn [species empty_net]. rewrite (left_id_L ∅ (∪)). apply set_eq. intros x.
      rewrite elem_of_union_list, elem_of_occurring. split.
      + intros (X & (n & -> & [e He']%Hl)%elem_of_list_fmap & Hx).
        destruct (rxn_node_facts n e He') as (rx & Hrx & _ & _ & Hl' & Hr' & _). rewrite Hl', Hr' in Hx.
        rewrite !dom_cvs in Hx. by exists e, rx.
      + intros (e & rx & Hrx & Hx). destruct (proj2 (bs_Rdom _ _ _ _ _ HS e)) as [n Hn]; [eauto|].
        destruct (rxn_node_facts n e Hn) as (rx' & Hrx' & _ & _ & Hl' & Hr' & _). assert (rx' = rx) as -> by congruence.
        exists (dom (fl' n) ∪ dom (fr' n)). split; [|by rewrite Hl', Hr', !dom_cvs].
        apply elem_of_list_fmap. exists n. split; [done|]. apply Hl. eauto.
    - by rewrite Hm.
  Qed.

  (** ** molecule labels *)
  Definition fmol (n : nid) : option (string * string) := (λ m, (node_label G n, m)) <$> (b_nodes G !! n ≫= bn_mol).

  Lemma import_mols_step s : import_mols G spN s = foldl (mol_step fmol) s (elements spN).
  Proof.
    unfold import_mols. apply foldl_ext_in. intros acc n _. unfold mol_step, fmol.
    destruct (b_nodes G !! n ≫= bn_mol); done.
  Qed.

  Lemma import_mols_spec s : mol s = ∅ → species s = occurring H →
    edges (import_mols G spN s) = edges s ∧ species (import_mols G spN s) = species s ∧
    mol (import_mols G spN s) = if f_mol fl then filter (λ p, p.1 ∈ occurring H) (mol H) else ∅.
  Proof.
    intros Hm0 Hsp. rewrite import_mols_step.
    assert (∀ n, n ∈ elements spN → ∃ s0, Ms !! s0 = Some n ∧ fmol n = (λ m, (s0, m)) <$> (if f_mol fl then mol H !! s0 else None)) as Hf.
    { intros n [s0 Hs0]%elem_of_elements%HspN. exists s0. split; [done|]. unfold fmol.
      rewrite (label_of_species s0 n Hs0), (node_of_species s0 n Hs0). done. }
    destruct (mol_fold_spec fmol (elements spN) s Hm0) as (He & Hs & Hmol).
    { intros x y k v v' Hx Hy Hfx Hfy. destruct (Hf x Hx) as (sx & Hsx & Hfx'). destruct (Hf y Hy) as (sy & Hsy & Hfy').
      rewrite Hfx' in Hfx. rewrite Hfy' in Hfy. destruct (f_mol fl); [|done].
      destruct (mol H !! sx) eqn:E1; [|done]. destruct (mol H !! sy) eqn:E2; [|done]. cbn in *. congruence. }
    split; [done|]. split; [done|]. apply map_eq. intros k. apply option_eq. intros v. rewrite Hmol, Hsp. split.
    - intros (n & Hn & Hfn & Hk). destruct (Hf n Hn) as (s0 & Hs0 & Hfn'). rewrite Hfn' in Hfn.
      destruct (f_mol fl); [|done]. destruct (mol H !! s0) eqn:E; [|done]. cbn in Hfn. injection Hfn as -> ->.
      apply map_filter_lookup_Some. done.
    - destruct (f_mol fl) eqn:Hfm; [|by rewrite lookup_empty].
      intros [Hv Hk]%map_filter_lookup_Some. cbn in Hk. destruct (bs_Mocc _ _ _ _ _ HS k Hk) as [n Hn].
      assert (n ∈ elements spN) as Hin by (apply elem_of_elements, HspN; eauto).
      exists n. split; [done|]. split; [|done]. destruct (Hf n Hin) as (s0 & Hs0 & ->).
      assert (s0 = k) as -> by (eapply (bs_Minj _ _ _ _ _ HS); eauto). by rewrite Hv.
  Qed.
End import.

(** * the round trip *)
(** every flag combination that exports the ids: with `stoich` the reactions come back, without it their supports (every
    coefficient 1) *)
Lemma bipartite_roundtrip_gen (fl : bflags) (ifl : iflags) (H : net) :
  wf16 H → f_eid fl = true → bip_names_ok fl H →
  (bipartite_to_hypergraph ifl (hypergraph_to_bipartite fl H)).2 = None ∧
  edges (bipartite_to_hypergraph ifl (hypergraph_to_bipartite fl H)).1 = cvr fl <$> edges H ∧
  species (bipartite_to_hypergraph ifl (hypergraph_to_bipartite fl H)).1 = occurring H ∧
  mol (bipartite_to_hypergraph ifl (hypergraph_to_bipartite fl H)).1
    = if f_mol fl && i_mol ifl then filter (λ p, p.1 ∈ occurring H) (mol H) else ∅.
Proof.
  intros (Hwf & Hwsp & _ & _) Heid Hnames.
  destruct (export_spec fl H Hwsp Hnames) as (Ms & Rs & HS).
  set (G := hypergraph_to_bipartite fl H) in *.
  destruct (classify_spec fl ifl H G Ms Rs HS Hwf Heid) as (spN & rxN & Hcl & HspN & HrxN).
  unfold bipartite_to_hypergraph. rewrite Hcl.
  destruct (import_result fl ifl H G Ms Rs HS Hwf Heid spN rxN HspN HrxN) as (s' & -> & He & Hs & Hm).
  cbn [fst snd]. destruct (i_mol ifl).
  - destruct (import_mols_spec fl H G Ms Rs HS spN HspN s' Hm Hs) as (He' & Hs' & Hm').
    rewrite He', Hs', Hm', andb_true_r. done.
  - rewrite andb_false_r. done.
Qed.

Lemma cvr_id fl rx : f_stoich fl = true → cvr fl rx = rx.
Proof.
  intros Hs. unfold cvr, cvs, cv. rewrite Hs. destruct rx as [r l p]. cbn. f_equal; apply map_fmap_id.
Qed.

Lemma bipartite_roundtrip (fl : bflags) (ifl : iflags) (H : net) :
  wf16 H → f_eid fl = true → f_stoich fl = true → bip_names_ok fl H →
  (bipartite_to_hypergraph ifl (hypergraph_to_bipartite fl H)).2 = None ∧
  edges (bipartite_to_hypergraph ifl (hypergraph_to_bipartite fl H)).1 = edges H ∧
  species (bipartite_to_hypergraph ifl (hypergraph_to_bipartite fl H)).1 = occurring H ∧
  mol (bipartite_to_hypergraph ifl (hypergraph_to_bipartite fl H)).1
    = if f_mol fl && i_mol ifl then filter (λ p, p.1 ∈ occurring H) (mol H) else ∅.
Proof.
  intros Hwf Heid Hsto Hnames. destruct (bipartite_roundtrip_gen fl ifl H Hwf Heid Hnames) as (H1 & H2 & H3 & H4).
  split; [done|]. split; [|done]. rewrite H2. rewrite (map_fmap_ext _ id); [apply map_fmap_id|].
  intros e rx _. by apply cvr_id.
Qed.

(** * non-vacuity *)
Definition ex_bip_net : net :=
  mk_net ["K"] [(None, "r", [("A", 2%Z)], [("B", 1%Z); ("A", 1%Z)]); (None, "q", [("B", 1%Z)], [("C", 12%Z)]);
                (Some "x", "r", [("B", 1%Z)], [("C", 1%Z)]); (None, "r", [], [("A", 3%Z)])] [("A", "CCO"); ("K", "kk")].
Definition ex_fl_str : bflags := BFlags (Some "S:") (Some "R:") 0 1 true true true false true true.
Definition ex_fl_int : bflags := BFlags (Some "S:") (Some "R:") 5 7 true false false true true true.
Definition ex_fl_bare : bflags := BFlags None None 0 1 true true true false true true.
Definition ex_bip_graph : bgraph := hypergraph_to_bipartite ex_fl_int ex_bip_net.
Example ex_bip_premises :
  bool_decide (wf16 ex_bip_net) = true ∧ bool_decide (bip_names_ok ex_fl_str ex_bip_net) = true ∧
  bool_decide (bip_names_ok ex_fl_int ex_bip_net) = true ∧ bool_decide (bip_names_ok ex_fl_bare ex_bip_net) = true ∧
  size (edges ex_bip_net) = 4%nat ∧ size (b_nodes ex_bip_graph) = 7%nat ∧ size (b_arcs ex_bip_graph) = 8%nat ∧
  bool_decide (occurring ex_bip_net = {[ "A"; "B"; "C" ]}) = true.
Proof. split_and!; by vm_compute. Qed.
(** without `stoich` the supports come back: 2A >> B + A (id r_1) returns as A >> A + B, 12 C as C *)
Definition ex_fl_nosto : bflags := BFlags (Some "S:") (Some "R:") 0 1 false true true false true true.
Definition ex_bip_nosto_back : net := (bipartite_to_hypergraph (default_iflags true) (hypergraph_to_bipartite ex_fl_nosto ex_bip_net)).1.
Example ex_bip_nostoich :
  bool_decide (edges ex_bip_nosto_back = cvr ex_fl_nosto <$> edges ex_bip_net) = true ∧
  bool_decide (edges ex_bip_nosto_back = edges ex_bip_net) = false ∧
  (r_lhs <$> edges ex_bip_nosto_back !! "r_1") = Some {[ "A" := 1%positive ]} ∧
  (r_lhs <$> edges ex_bip_net !! "r_1") = Some {[ "A" := 2%positive ]}.
Proof. split_and!; by vm_compute. Qed.

(** the name-clash premise is needed for un-prefixed string ids: species "r_1" and reaction id "r_1" share a node *)
Definition ex_bip_clash : net := mk_net [] [(None, "r", [("A", 1%Z)], [("r_1", 1%Z)])] [].
Definition ex_bip_clash_back : net := (bipartite_to_hypergraph (default_iflags true) (hypergraph_to_bipartite ex_fl_bare ex_bip_clash)).1.
Example ex_bip_names_needed :
  bool_decide (wf16 ex_bip_clash) = true ∧ bool_decide (bip_names_ok ex_fl_bare ex_bip_clash) = false ∧
  bool_decide (edges ex_bip_clash_back = edges ex_bip_clash) = false.
Proof. split_and!; by vm_compute. Qed.

Lemma default_prefixes_ok (fl : bflags) (H : net) : f_sp fl = Some "S:" → f_rp fl = Some "R:" → bip_names_ok fl H.
Proof. intros Hs Hr. right. intros s _ e _. rewrite Hs, Hr. done. Qed.
