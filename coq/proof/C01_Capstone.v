(** C01 — capstone: for every pair of readings that passes the executable test of kind str-prem (so: for the 113 balanced
    quick cases and 340 of the 346 corpus reactions in the thorough tier), the conclusions of the graph-level theorems hold of
    the very values the correspondence compares with the implementation *)
From Coq Require Import List NArith ZArith Bool Lia Arith Permutation.
From SK Require Import lib.LGraph lib.C01_GraphLemmas model.C01_Model model.C02_Model model.C01_String model.C01_HBal model.C01_Prem
  proof.C01_Proof proof.C01_StringProof proof.C01_StringHyd proof.C01_StringHydExt proof.C01_StringPipe proof.C01_StringPipeH
  proof.C01_HBalProof proof.C01_HBalString proof.C01_PremProof.
Import ListNotations.
Local Open Scope Z_scope.

(** [one_parent] depends only on elements and bonds *)
Lemma one_parent_geq_sel (g g' : mgraph) : wf g -> wf g' -> geq_sel g' g -> one_parent g -> one_parent g'.
Proof.
  intros W W' [L A] OP h Hh.
  assert (forall n, is_Hn g' n = is_Hn g n) as EH.
  { intros n. unfold is_Hn. specialize (L n). destruct (label g' n) as [a|], (label g n) as [b|]; cbn in L; try discriminate; [|reflexivity].
    unfold sel4 in L. injection L as E1 _ _ _. rewrite E1. reflexivity. }
  rewrite EH in Hh. specialize (OP h Hh).
  rewrite (filter_ext (fun m => negb (is_Hn g' m)) (fun m => negb (is_Hn g m))) by (intros m; rewrite EH; reflexivity).
  rewrite (filter_length_same_members (fun m => negb (is_Hn g m)) (nbrs g' h) (nbrs g h)); [exact OP| | |].
  - apply nbrs_nodup. exact W'.
  - apply nbrs_nodup. exact W.
  - intros x. rewrite !in_nbrs, A. reflexivity.
Qed.

Theorem capstone (mr mp : rmol) : reaction_okb mr mp = true ->
  let G := graph_of mr in let H := graph_of mp in
  let I := its_construct G H in
  rsmi_to_its_m mr mp = Some I /\ wf I /\
  geq_sel (fst (its_decompose I)) G /\ geq_sel (snd (its_decompose I)) H /\
  amap_id (fst (its_decompose I)) /\ amap_id (snd (its_decompose I)) /\
  h_total (fst (its_to_graphs I)) = h_total G /\ h_total (snd (its_to_graphs I)) = h_total H /\
  (exists wr wp, its_to_wmols I = Some (wr, wp)).
Proof.
  intros E G H I. destruct (reaction_okb_sound mr mp E) as (Or & Op & WG & WH & S & PG & PH & OG & OH).
  fold G in WG, S, PG, OG. fold H in WH, S, PH, OH.
  destruct (roundtrip G H WG WH S PG PH) as (Rg & Ag & Rh & Ah).
  pose proof (its_wf G H WG WH) as WI. fold I in Rg, Ag, Rh, Ah, WI.
  assert (wf (fst (its_decompose I)) /\ wf (snd (its_decompose I))) as [Wg Wh] by (split; apply dec_wf; exact WI).
  split.
  { unfold rsmi_to_its_m, rsmi_to_graph_m. destruct Or as [A B], Op as [C D].
    rewrite (mol_to_graph_closed mr A B), (mol_to_graph_closed mp C D). reflexivity. }
  split; [exact WI|]. split; [exact Rg|]. split; [exact Rh|]. split; [exact Ag|]. split; [exact Ah|].
  destruct (its_to_graphs_balance I WI) as [Bg Bh].
  split; [|split].
  - rewrite (Bg (one_parent_geq_sel G _ WG Wg Rg OG)). apply h_total_geq_sel; assumption.
  - rewrite (Bh (one_parent_geq_sel H _ WH Wh Rh OH)). apply h_total_geq_sel; assumption.
  - unfold its_to_wmols.
    assert (forall (X : mgraph) hl, wf X -> wf (smi_graph X hl)) as SW by (intros X hl WX; destruct hl; [exact WX|apply ih_wf; exact WX]).
    destruct (graph_to_wmol_spec (fst (its_to_graphs I))) as [T1 _]. destruct (graph_to_wmol_spec (snd (its_to_graphs I))) as [T2 _].
    unfold its_to_graphs in *. cbn [fst snd] in *.
    destruct (graph_to_wmol (smi_graph (fst (its_decompose I)) (hlist I))) as [wr|]; [|exfalso; apply T1; [apply SW; exact Wg|reflexivity]].
    destruct (graph_to_wmol (smi_graph (snd (its_decompose I)) (hlist I))) as [wp|]; [|exfalso; apply T2; [apply SW; exact Wh|reflexivity]].
    eauto.
Qed.

Example C01_capstone_nonvacuous : reaction_okb C01_RenumWrite.ex_hr C01_RenumWrite.ex_hp = true /\
  h_total (graph_of C01_RenumWrite.ex_hr) = 6 /\
  hlist (its_construct (graph_of C01_RenumWrite.ex_hr) (graph_of C01_RenumWrite.ex_hp)) <> [].
Proof. split; [reflexivity|]. split; [reflexivity|discriminate]. Qed.
