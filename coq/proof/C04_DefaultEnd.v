(** C04 — the default (explicit-hydrogen) mode to the END of its_list for the reaction's own templates: rule preparation
    by _strip_explicit_h, identity match, gluing (C04_identity_glue_default), then _explicit_h (proof/C04_Explicit.v):
    the ITS the reactor returns decomposes, in implicit-hydrogen normal form, to the reaction. *)
From Coq Require Import List NArith ZArith Bool Arith Lia.
From SK Require Import lib.Tok lib.LGraph model.C03_Model model.C04_Model proof.C03_Proof proof.C03_Glue
                       proof.C04_Glue proof.C04_Template proof.C04_Fold proof.C04_Default proof.C04_DefaultProof proof.C04_Explicit.
Import ListNotations.
Local Open Scope Z_scope.

Lemma glued_ids host rc m T : glue host rc m = Some T -> node_ids T = node_ids host.
Proof.
  intros Hg. unfold node_ids. rewrite (glue_gnodes host rc m T Hg). change (map fst (gnodes ?g)) with (node_ids g).
  rewrite glue_nodes_ids. unfold node_ids, its_of_host; cbn [gnodes]. rewrite map_map. reflexivity.
Qed.

Theorem default_identity_end (core invert : bool) (G H : hostg) :
  pair_wfb G H = true -> mode_E G H = true ->
  default_okb (if invert then H else G) (if invert then G else H) (template core invert G H) = true ->
  (core = true -> centre_carries (its_construct G H) = true) ->
  (forall rc l r T, rule_of core invert G H = Some (rc, l, r) ->
     glue (substrate invert G H) rc (id_map (node_ids (pattern_of l))) = Some T -> explicit_h T <> None) ->
  exists T' : its, regenerate core invert G H = Some T' /\
    regen_folded T' (if invert then H else G) (if invert then G else H) = true.
Proof.
  intros W ME OK CC Tot.
  destruct (default_identity_glue_all core invert G H W ME OK CC) as (rc & l & r & Er & Ep & Hm & T & ET & RE).
  destruct (pair_wfb_sound G H W) as (PW & CG & CH).
  set (A := if invert then H else G) in *. set (B := if invert then G else H) in *.
  assert (PW' : pair_wf A B) by (unfold A, B; destruct invert; [apply pair_wf_sym|]; exact PW).
  assert (CA : closed A) by (unfold A; destruct invert; assumption).
  assert (CB : closed B) by (unfold B; destruct invert; assumption).
  destruct (default_okb_foldable A B _ PW' OK) as [FA FB].
  pose proof (pw_A _ _ PW') as HA. pose proof (pw_B _ _ PW') as HB.
  destruct (explicit_h T) as [[T' ms]|] eqn:EX; [|exfalso; exact (Tot rc l r T Er ET EX)].
  exists T'. split.
  - unfold regenerate. rewrite Er, ME, ET. unfold finish. rewrite EX. reflexivity.
  - apply (explicit_end T T' ms A B HA HB FA FB CA CB); [| |exact EX].
    + rewrite (glued_ids _ _ _ _ ET). unfold substrate. fold A.
      destruct (fold_host_spec A (wf_host_nodup A HA) FA) as (_ & _ & FAA).
      exact (folded_nodup A _ _ FAA HA).
    + unfold substrate in RE. fold A in RE. exact RE.
Qed.
