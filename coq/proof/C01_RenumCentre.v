(** C01/C02 — the reaction centre of the renumbered reaction is the renumbered reaction centre *)
From Coq Require Import List NArith ZArith Bool Lia.
From SK Require Import lib.LGraph lib.C01_GraphLemmas model.C01_Model model.C02_Model model.C01_String model.C01_Renum
  proof.C01_Proof proof.C02_Proof proof.C01_StringRenum.
Import ListNotations.
Local Open Scope Z_scope.

Definition with_iamap (n : N) (a : inode) : inode := IN (i_el a) (i_ch a) (Z.of_N n) (i_extra a) (i_G a) (i_H a).
Definition T (p : N * inode) : N * inode := (fst p, with_iamap (fst p) (snd p)).

Lemma set_iamap_nodes (g : its) : gnodes (set_iamap g) = map T (gnodes g).
Proof. reflexivity. Qed.

Lemma label_set_iamap (g : its) n : label (set_iamap g) n = option_map (with_iamap n) (label g n).
Proof. unfold label. rewrite set_iamap_nodes. apply (assoc_map_val with_iamap). Qed.

Lemma is_hh_set_iamap (g : its) u v : is_hh (set_iamap g) u v = is_hh g u v.
Proof. unfold is_hh, is_h. rewrite !label_set_iamap. destruct (label g u), (label g v); reflexivity. Qed.

Lemma has_key_T n ns : has_key n (map T ns) = has_key n ns.
Proof. unfold has_key. rewrite (assoc_map_val with_iamap). destruct (assoc n ns); reflexivity. Qed.

Lemma ensure_T (g : its) n ns : ensure_node (set_iamap g) n (map T ns) = map T (ensure_node g n ns).
Proof.
  unfold ensure_node. rewrite has_key_T. destruct (has_key n ns); [reflexivity|].
  rewrite label_set_iamap. destruct (label g n); [|reflexivity]. rewrite map_app. reflexivity.
Qed.

Definition Tst (st : rc_state) : rc_state := (map T (fst st), snd st).

Lemma step_changed_T (g : its) st e : step_changed (set_iamap g) (Tst st) e = Tst (step_changed g st e).
Proof.
  destruct e as [[u v] x]. unfold step_changed, Tst. cbn [fst snd]. destruct (changed x); [|reflexivity].
  rewrite !ensure_T. reflexivity.
Qed.

Lemma step_hh_T (g : its) st e : step_hh (set_iamap g) (Tst st) e = Tst (step_hh g st e).
Proof.
  destruct e as [[u v] x]. unfold step_hh, Tst. cbn [fst snd]. rewrite is_hh_set_iamap. destruct (is_hh g u v); [|reflexivity].
  rewrite !ensure_T. reflexivity.
Qed.

Lemma fold_T (step : its -> rc_state -> N * N * iedge -> rc_state) (g : its) :
  (forall st e, step (set_iamap g) (Tst st) e = Tst (step g st e)) ->
  forall l st, fold_left (step (set_iamap g)) l (Tst st) = Tst (fold_left (step g) l st).
Proof. intros H l. induction l as [|e l IH]; intros st; [reflexivity|]. cbn [fold_left]. rewrite H. apply IH. Qed.

(** get_rc commutes with "atom_map := node id" *)
Lemma get_rc_set_iamap (g : its) : get_rc (set_iamap g) = set_iamap (get_rc g).
Proof.
  unfold get_rc. change (gedges (set_iamap g)) with (gedges g).
  change (([], []) : rc_state) with (Tst ([], [])).
  rewrite (fold_T step_changed g (step_changed_T g)), (fold_T step_hh g (step_hh_T g)).
  reflexivity.
Qed.

(** C01_renumber_centre *)
Theorem renumber_centre (f : N -> N) : (forall a b, f a = f b -> a = b) -> (forall a, a <> 0%N -> f a <> 0%N) ->
  forall mr mp : rmol,
  get_rc (its_construct (graph_of (renum_mol f mr)) (graph_of (renum_mol f mp))) =
  set_iamap (relabel f (get_rc (its_construct (graph_of mr) (graph_of mp)))).
Proof.
  intros Hinj Hnz mr mp. destruct (renumber f Hinj Hnz mr mp) as [_ ->].
  rewrite get_rc_set_iamap, (rc_equivariant f Hinj). reflexivity.
Qed.

Example C01_renumber_centre_nonvacuous :
  node_ids (get_rc (its_construct (graph_of (renum_mol (N.add 10) C01_StringPipe.ex_mr)) (graph_of (renum_mol (N.add 10) C01_StringPipe.ex_mp)))) = [11; 12; 13]%N /\
  node_ids (get_rc (its_construct (graph_of C01_StringPipe.ex_mr) (graph_of C01_StringPipe.ex_mp))) = [1; 2; 3]%N.
Proof. split; reflexivity. Qed.
