(** C06 — the property on the caller's graphs: [is_mono] of the projections is [is_mono_sel] of
    the attribute dictionaries; exactness of the exhaustive strategy in that vocabulary; the
    selection is a SET of names (order / repetitions immaterial), and selecting more names can only
    remove matches. *)
From Coq Require Import List NArith Bool Arith Lia Permutation SetoidList.
From SK Require Import lib.LGraph lib.Mono lib.Reach model.C06_Model model.C06_Attrs lib.C06_Spec lib.C06_SelSpec
  proof.C06_All proof.C06_Attrs.
Import ListNotations.

Lemma gedges_project_in na ea (g : rgraph) a b x :
  In (a, b, x) (gedges (project na ea g)) -> exists x0, In (a, b, x0) (gedges g).
Proof.
  unfold project. simpl. rewrite in_map_iff. intros ([[a' b'] x'] & E & Hin).
  inversion E; subst. exists x'. exact Hin.
Qed.

Lemma gwf_project na ea (g : rgraph) : rgwf g -> gwf (project na ea g).
Proof.
  intros [Hnd He]. split; [rewrite node_ids_project; exact Hnd|].
  intros a b x Hin. rewrite node_ids_project.
  destruct (gedges_project_in _ _ _ _ _ _ Hin) as (x0 & Hin0). exact (He a b x0 Hin0).
Qed.

Theorem is_mono_project na ea (H P : rgraph) m :
  is_mono (project na ea H) (project na ea P) m <-> is_mono_sel na ea H P m.
Proof.
  unfold is_mono, is_mono_on, is_mono_sel. rewrite !node_ids_project.
  split; intros (A & B & C & D & E); (split; [exact A|split; [exact B|split; [exact C|split]]]).
  - intros p h Hin. destruct (D p h Hin) as [Hh Hnm]. split; [exact Hh|].
    assert (Hp : In p (node_ids P)) by (apply B; change p with (fst (p, h)); apply in_map; exact Hin).
    rewrite (lab_project na ea H h Hh), (lab_project na ea P p Hp), <- node_match_sel_proj in Hnm.
    apply node_match_sel_meaning. exact Hnm.
  - intros p h p' h' b I1 I2 Hadj.
    assert (Hadj' : LGraph.adj (project na ea P) p p' = Some (proj_e ea b)) by (rewrite adj_project, Hadj; reflexivity).
    destruct (E p h p' h' _ I1 I2 Hadj') as (b' & Hb' & Hem).
    rewrite adj_project in Hb'. destruct (LGraph.adj H h h') as [b0|] eqn:Eh; [|discriminate].
    simpl in Hb'. inversion Hb'; subst. exists b0. split; [reflexivity|].
    rewrite <- edge_match_sel_proj in Hem. apply edge_match_sel_meaning. exact Hem.
  - intros p h Hin. destruct (D p h Hin) as (Hh & Hk & Hc). split; [exact Hh|].
    assert (Hp : In p (node_ids P)) by (apply B; change p with (fst (p, h)); apply in_map; exact Hin).
    rewrite (lab_project na ea H h Hh), (lab_project na ea P p Hp), <- node_match_sel_proj.
    apply node_match_sel_meaning. split; assumption.
  - intros p h p' h' b I1 I2 Hadj. rewrite adj_project in Hadj.
    destruct (LGraph.adj P p p') as [b0|] eqn:Ep; [|discriminate]. simpl in Hadj. inversion Hadj; subst.
    destruct (E p h p' h' b0 I1 I2 Ep) as (b' & Hb' & Hk).
    exists (proj_e ea b'). split; [rewrite adj_project, Hb'; reflexivity|].
    rewrite <- edge_match_sel_proj. apply edge_match_sel_meaning. exact Hk.
Qed.

(** the exhaustive strategy on the caller's graphs, enumerator run with the closures *)
Theorem sel_all_exact na ea T strict (H P : rgraph) :
  rgwf H -> rgwf P ->
  (lenN (monos_sel na ea H P (node_ids H) (node_ids P)) <= T)%N ->
  let R := find_sel (monos_sel na ea H P) (Cfg 0 0 T strict false) na ea H P in
  (forall m, In m R -> is_mono_sel na ea H P m) /\
  (forall m, is_mono_sel na ea H P m -> exists m', In m' R /\ Permutation m m') /\
  NoDupA (@Permutation (N * N)) R.
Proof.
  intros HH HP Hlen R. subst R. rewrite find_sel_project.
  pose proof (gwf_project na ea H HH) as GH. pose proof (gwf_project na ea P HP) as GP.
  assert (Hc : vf2_contract (monos_on (project na ea H) (project na ea P)) (project na ea H) (project na ea P)
                 (node_ids (project na ea H)) (node_ids (project na ea P))).
  { apply monos_on_contract; [exact GP|exact (proj1 GH)|exact (proj1 GP)]. }
  assert (Hl : (lenN (monos_on (project na ea H) (project na ea P) (node_ids (project na ea H)) (node_ids (project na ea P))) <= T)%N).
  { rewrite monos_sel_project by (rewrite node_ids_project; apply incl_refl).
    rewrite !node_ids_project. exact Hlen. }
  destruct (all_exact _ T strict _ _ Hc Hl) as (S1 & S2 & S3).
  split; [|split; [|exact S3]].
  - intros m Hm. apply is_mono_project. exact (S1 m Hm).
  - intros m Hm. apply S2. apply is_mono_project. exact Hm.
Qed.

(** selecting more attribute names can only remove matches *)
Theorem is_mono_sel_monotone na na' ea ea' (H P : rgraph) m :
  incl na na' -> incl ea ea' -> is_mono_sel na' ea' H P m -> is_mono_sel na ea H P m.
Proof.
  intros Hn He (A & B & C & D & E). split; [exact A|split; [exact B|split; [exact C|split]]].
  - intros p h Hin. destruct (D p h Hin) as (X & Y & Z). split; [exact X|split; [|exact Z]].
    intros k Hk. apply Y. apply Hn. exact Hk.
  - intros p h p' h' b I1 I2 Hadj. destruct (E p h p' h' b I1 I2 Hadj) as (b' & X & Y).
    exists b'. split; [exact X|]. intros k Hk. apply Y. apply He. exact Hk.
Qed.

Theorem sel_refines na na' ea ea' T T' strict strict' (H P : rgraph) :
  rgwf H -> rgwf P -> incl na na' -> incl ea ea' ->
  (lenN (monos_sel na ea H P (node_ids H) (node_ids P)) <= T)%N ->
  (lenN (monos_sel na' ea' H P (node_ids H) (node_ids P)) <= T')%N ->
  forall m, In m (find_sel (monos_sel na' ea' H P) (Cfg 0 0 T' strict' false) na' ea' H P) ->
  exists m', In m' (find_sel (monos_sel na ea H P) (Cfg 0 0 T strict false) na ea H P) /\ Permutation m m'.
Proof.
  intros HH HP Hn He L1 L2 m Hm.
  destruct (sel_all_exact na' ea' T' strict' H P HH HP L2) as (S1 & _ & _).
  destruct (sel_all_exact na ea T strict H P HH HP L1) as (_ & S2 & _).
  apply S2. apply (is_mono_sel_monotone na na' ea ea'); [exact Hn|exact He|]. apply S1. exact Hm.
Qed.

(** ---------- a selection is a set of names: [find_sel] depends on it only through the two closures ---------- *)
Lemma saturate_ext (nb nb' : N -> list N) : (forall u, nb u = nb' u) ->
  forall fuel S, saturate nb fuel S = saturate nb' fuel S.
Proof.
  intros E. assert (Es : forall S, step nb S = step nb' S).
  { intros S. unfold step. f_equal. induction S as [|x r IH]; simpl; [reflexivity|]. rewrite E, IH. reflexivity. }
  induction fuel as [|f IH]; intros S; simpl; [reflexivity|].
  rewrite Es. destruct (length (step nb' S) =? length S); [reflexivity|apply IH].
Qed.

Lemma comps_shape_ext (g g' : graph) :
  node_ids g = node_ids g' -> (forall u, nbrs g u = nbrs g' u) -> comps g = comps g'.
Proof.
  intros En Eb. unfold comps. rewrite <- En.
  assert (El : length (gnodes g) = length (gnodes g')).
  { unfold node_ids in En. rewrite <- (map_length fst (gnodes g)), En. apply map_length. }
  assert (Ec : forall u, comp_of g u = comp_of g' u).
  { intros u. unfold comp_of. rewrite El, (saturate_ext _ _ Eb). reflexivity. }
  generalize (@nil N). generalize (node_ids g). intros todo.
  induction todo as [|u r IH]; intros seen; cbn [comps_go]; [reflexivity|].
  destruct (LGraph.mem u seen); [apply IH|].
  rewrite <- En, Ec, IH. reflexivity.
Qed.

Lemma comps_project_sel na ea na' ea' (g : rgraph) : comps (project na ea g) = comps (project na' ea' g).
Proof.
  apply comps_shape_ext.
  - rewrite !node_ids_project. reflexivity.
  - intros u. rewrite !nbrs_project. reflexivity.
Qed.

Lemma option_map_id {X} (o : option X) : o = option_map (fun x => x) o.
Proof. destruct o; reflexivity. Qed.

Section SelExt.
Variables (na na' ea ea' : list N) (H P : rgraph).
Hypothesis Hnm : forall a b, node_match_sel na' a b = node_match_sel na a b.
Hypothesis Hem : forall a b, edge_match_sel ea' a b = edge_match_sel ea a b.

Lemma monos_sel_ext hn pn : monos_sel na' ea' H P hn pn = monos_sel na ea H P hn pn.
Proof.
  unfold monos_sel, monos.
  apply (@extend_map _ _ _ _ (fun x => x) (fun x => x)); auto using option_map_id.
Qed.

Lemma quick_pre_filter_sel_ext thr : quick_pre_filter_sel na' H P thr = quick_pre_filter_sel na H P thr.
Proof.
  unfold quick_pre_filter_sel. generalize 1%N. induction (node_ids P) as [|p ps IH]; intros est; simpl; [reflexivity|].
  assert (E : forall l,
    filter (fun h => node_match_sel na' (rlab H h) (rlab P p) && (rdegree P p <=? rdegree H h)%N) l =
    filter (fun h => node_match_sel na (rlab H h) (rlab P p) && (rdegree P p <=? rdegree H h)%N) l).
  { induction l as [|h l IHl]; simpl; [reflexivity|]. rewrite IHl, Hnm. reflexivity. }
  rewrite E. destruct (lenN _ =? 0)%N; [reflexivity|].
  destruct (thr * 10000 <? _)%N; [reflexivity|]. apply IH.
Qed.

Theorem find_sel_ext c :
  find_sel (monos_sel na' ea' H P) c na' ea' H P = find_sel (monos_sel na ea H P) c na ea H P.
Proof.
  unfold find_sel.
  (* same enumeration ... *)
  rewrite (find_enum_ext (monos_sel na' ea' H P) (monos_sel na ea H P) (project na' ea' H) (project na' ea' P))
    by (intros; apply monos_sel_ext).
  (* ... and [find] reads the graphs only through node ids, components and the pre-filter *)
  unfold find, find_bt, find_comp, find_all.
  rewrite <- !quick_pre_filter_sel_project, quick_pre_filter_sel_ext.
  rewrite !node_ids_project.
  rewrite (comps_project_sel na' ea' na ea H), (comps_project_sel na' ea' na ea P).
  reflexivity.
Qed.
End SelExt.

Lemma forallb_same_members {X} (f : X -> bool) l l' : incl l l' -> incl l' l -> forallb f l = forallb f l'.
Proof.
  intros A B. destruct (forallb f l) eqn:E1, (forallb f l') eqn:E2; try reflexivity.
  - rewrite forallb_forall in E1. assert (forallb f l' = true) by (apply forallb_forall; intros x Hx; apply E1, B, Hx). congruence.
  - rewrite forallb_forall in E2. assert (forallb f l = true) by (apply forallb_forall; intros x Hx; apply E2, A, Hx). congruence.
Qed.

(** order and repetitions of the names in [node_attrs] / [edge_attrs] are immaterial — for every
    configuration (strategy, limits, pre-filter), identical result LISTS *)
Theorem sel_same_members na na' ea ea' (H P : rgraph) c :
  incl na na' -> incl na' na -> incl ea ea' -> incl ea' ea ->
  find_sel (monos_sel na' ea' H P) c na' ea' H P = find_sel (monos_sel na ea H P) c na ea H P.
Proof.
  intros A B C D. apply find_sel_ext.
  - intros a b. unfold node_match_sel. f_equal. apply forallb_same_members; assumption.
  - intros a b. unfold edge_match_sel. apply forallb_same_members; assumption.
Qed.
