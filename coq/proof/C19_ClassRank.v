(** C19 — every linkage-class deficiency is >= 0: the exact rank of a class's difference vectors is at most (class size - 1).
    proof/C19_RankMC.rank_complex_bound applied to the arcs inside one class, with the outside vertices as singleton
    classes (MathComp style; index facts from proof/C19_ClassBridge.v). *)
From mathcomp Require Import all_ssreflect all_algebra.
From mathcomp Require Import ssrZ zify.
From Coq Require Import ZArith.
From SK Require Import lib.RankBridge proof.C19_RankMC proof.C19_Rank.
Require SK.model.C17_Model SK.model.C19_Model SK.proof.C17_Rank.
Require SK.proof.C19_Complexes SK.proof.C19_Linkage SK.proof.C19_Bridge SK.proof.C19_ClassBridge.
Set Implicit Arguments. Unset Strict Implicit. Unset Printing Implicit Defensive.
Import GRing.Theory.
Local Open Scope ring_scope.

Section ClassRank.
Variables (net : seq C17_Model.rxn) (iso : seq C17_Model.str) (ci : nat).
Let cs := fst (C19_Model.complex_graph net iso).
Let arcs := snd (C19_Model.complex_graph net iso).
Let k := length cs.
Let L := C19_Model.linkage_classes arcs k.
Let c := List.nth ci L nil.
Let m := length (C17_Model.species_order net iso).
Let D := C19_Bridge.cdiffs net iso ci.
Let d := length D.
Let out := C19_ClassBridge.outside k c.
Let l2 := (length out).+1.
Hypothesis Hci : (ci < length L)%coq_nat.

Let facts := C19_ClassBridge.class_facts net iso ci Hci.
Let NDc : List.NoDup c := proj1 facts.
Let NEc : c <> nil := proj1 (proj2 facts).
Let MEMc := proj2 (proj2 facts).

Lemma cu_lt (t : 'I_d) : ((C19_ClassBridge.carc net iso ci t).1 < k)%nat.
Proof. by apply/ltP; apply: (proj1 (C19_ClassBridge.carc_spec net iso ci t _)); apply/ltP. Qed.
Lemma cv_lt (t : 'I_d) : ((C19_ClassBridge.carc net iso ci t).2 < k)%nat.
Proof. by apply/ltP; apply: (proj1 (proj2 (C19_ClassBridge.carc_spec net iso ci t _))); apply/ltP. Qed.
Lemma r2_lt (a : 'I_l2) : (C19_ClassBridge.rep2 k c a < k)%nat.
Proof. by apply/ltP; apply: (C19_ClassBridge.rep2_lt k c NDc NEc MEMc); apply/ltP. Qed.

Definition cuf (t : 'I_d) : 'I_k := Ordinal (cu_lt t).
Definition cvf (t : 'I_d) : 'I_k := Ordinal (cv_lt t).
Definition crep (a : 'I_l2) : 'I_k := Ordinal (r2_lt a).
Definition ccls (a : 'I_l2) (i : 'I_k) : bool := C19_ClassBridge.cls2 k c a i.

Lemma ccls_arc a t : ccls a (cuf t) = ccls a (cvf t).
Proof.
rewrite /ccls /=.
have td : (t < length (C19_Bridge.cdiffs net iso ci))%coq_nat by apply/ltP.
have [_ [_ [Iu [Iv _]]]] := C19_ClassBridge.carc_spec net iso ci t td.
exact: (C19_ClassBridge.cls2_inside k c MEMc).
Qed.

Lemma ccls_rep a b : ccls a (crep b) = (a == b).
Proof.
rewrite /ccls /= (C19_ClassBridge.cls2_rep k c NDc NEc MEMc); try by apply/ltP.
by rewrite -val_eqE /=; case: Nat.eqb_spec => [->|/eqP/negbTE ->]; rewrite ?eqxx.
Qed.

Lemma cS_entry (i : 'I_m) (t : 'I_d) : (toM d m D)^T i t = Ym net iso i (cvf t) - Ym net iso i (cuf t).
Proof.
rewrite !mxE getz_list -zrB /=; congr (zr _).
by apply: C19_ClassBridge.cdiffs_entry; apply/ltP.
Qed.

(** exact rank of the class's difference vectors + 1 <= size of the class *)
Theorem class_rank_bound : (\rank (toM d m D) + 1 <= length c)%nat.
Proof.
have B := rank_complex_bound ccls_arc ccls_rep cS_entry.
rewrite mxrank_tr in B.
have E := C19_ClassBridge.outside_length k c NDc MEMc.
rewrite -/out in E. move: B; rewrite /l2. lia.
Qed.
End ClassRank.

(** the same with the standard library's order and addition *)
Theorem class_rank_bound_le net iso ci :
  let cs := fst (C19_Model.complex_graph net iso) in
  let arcs := snd (C19_Model.complex_graph net iso) in
  let L := C19_Model.linkage_classes arcs (length cs) in
  let m := length (C17_Model.species_order net iso) in
  let D := C19_Model.class_diffs cs arcs (List.nth ci L nil) in
  (ci < length L)%coq_nat ->
  Peano.le (Nat.add (\rank (toM (length D) m D)) 1) (length (List.nth ci L nil)).
Proof.
move=> cs arcs L m D H; apply/leP; rewrite plusE.
exact: (@class_rank_bound net iso ci H).
Qed.

(** every linkage-class deficiency is non-negative (all ranks exact) *)
Theorem class_deficiency_nonneg net iso (rc : C17_Model.rcert) (ccs : seq C17_Model.rcert) ci :
  C19_Model.certs_ok net iso rc ccs = true ->
  let L := C19_Model.linkage_classes (snd (C19_Model.complex_graph net iso)) (length (fst (C19_Model.complex_graph net iso))) in
  (ci < length L)%coq_nat ->
  (0 <= List.nth ci (C19_Model.linkage_deficiencies L (List.map C17_Model.rc_r ccs)) 0%Z)%Z.
Proof.
move=> ok L Hci.
rewrite (class_deficiency_exact ok Hci).
have := @class_rank_bound net iso ci Hci.
lia.
Qed.
Print Assumptions class_deficiency_nonneg.
