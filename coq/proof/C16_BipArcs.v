(** C16 (round 5) — deleting `stoich` / `role` from every arc of an exported bipartite graph gives exactly the graph the
    exporter builds with include_stoich / include_role switched off: the deletion commutes with every step of the export. *)
From stdpp Require Import gmap strings sets pretty sorting.
From SK Require Import lib.Tok model.C15_Model model.C16_Model model.C16_Edit.
Local Open Scope string_scope.
Local Open Scope list_scope.

Definition arcs_only (d : drops) : drops := Drops false false false false (d_stoich d) (d_role d) false false.
Definition nodes_only (d : drops) : drops :=
  Drops (d_kind_sp d) (d_kind_rx d) (d_label_sp d) (d_label_rx d) false false (d_mol d) (d_marker d).
(** the export flags after the deletion *)
Definition fl_drop (fl : bflags) (d : drops) : bflags :=
  BFlags (f_sp fl) (f_rp fl) (f_bv_s fl) (f_bv_r fl) (f_stoich fl && negb (d_stoich d)) (f_role fl && negb (d_role d))
         (f_isolated fl) (f_int fl) (f_eid fl) (f_mol fl).
Definition drop_est (d : drops) (st : est) : est := Est (e_nodes st) (drop_arc d <$> e_arcs st) (e_smap st) (e_next st).

Lemma drop_arc_attrs fl d c role : drop_arc d (arc_attrs fl c role) = arc_attrs (fl_drop fl d) c role.
Proof. unfold drop_arc, arc_attrs, fl_drop. cbn. destruct (f_stoich fl), (f_role fl), (d_stoich d), (d_role d); reflexivity. Qed.
Lemma drop_arc_upd d a old : drop_arc d (barc_upd a old) = barc_upd (drop_arc d a) (drop_arc d old).
Proof.
  destruct a as [s1 r1], old as [s2 r2]. unfold drop_arc, barc_upd, opt_upd. cbn.
  destruct (d_stoich d), (d_role d), s1, r1, s2, r2; reflexivity.
Qed.
Lemma drop_arc_empty d : drop_arc d (BArc None None) = BArc None None.
Proof. unfold drop_arc. cbn. destruct (d_stoich d), (d_role d); reflexivity. Qed.
Lemma add_arc_drop d st u v a : add_arc (drop_est d st) u v (drop_arc d a) = drop_est d (add_arc st u v a).
Proof.
  unfold add_arc, drop_est. cbn. f_equal. rewrite lookup_fmap, fmap_insert. f_equal.
  destruct (e_arcs st !! (u, v)) as [old|]; cbn; by rewrite drop_arc_upd, ?drop_arc_empty.
Qed.

Lemma add_sp_node_drop fl d H st s :
  add_sp_node (fl_drop fl d) H (drop_est d st) s = (drop_est d (add_sp_node fl H st s).1, (add_sp_node fl H st s).2).
Proof.
  unfold add_sp_node. cbn [e_smap drop_est e_next e_nodes e_arcs]. destruct (e_smap st !! s); [done|].
  cbn [f_int fl_drop f_sp]. by destruct (f_int fl), (e_nodes st !! _).
Qed.
Lemma add_rxn_node_drop fl d st e rule :
  add_rxn_node (fl_drop fl d) (drop_est d st) e rule = (drop_est d (add_rxn_node fl st e rule).1, (add_rxn_node fl st e rule).2).
Proof. unfold add_rxn_node. cbn. done. Qed.

Lemma foldl_drop {A} (d : drops) (f f' : est → A → est) (l : list A) :
  (∀ st x, f' (drop_est d st) x = drop_est d (f st x)) → ∀ st, foldl f' (drop_est d st) l = drop_est d (foldl f st l).
Proof. intros Hf. induction l as [|x l IH]; intros st; [done|]. cbn. by rewrite Hf, IH. Qed.

Lemma export_rxn_drop fl d H st p : export_rxn (fl_drop fl d) H (drop_est d st) p = drop_est d (export_rxn fl H st p).
Proof.
  unfold export_rxn. rewrite add_rxn_node_drop. destruct (add_rxn_node fl st p.1 (r_rule p.2)) as [st1 rnd]. cbn [fst snd].
  rewrite (foldl_drop d (λ st sc, let '(st', u) := add_sp_node fl H st sc.1 in add_arc st' u rnd (arc_attrs fl sc.2 "reactant"))).
  - apply foldl_drop. intros st' sc. rewrite add_sp_node_drop. destruct (add_sp_node fl H st' sc.1) as [st2 v]. cbn [fst snd].
    by rewrite <-drop_arc_attrs, add_arc_drop.
  - intros st' sc. rewrite add_sp_node_drop. destruct (add_sp_node fl H st' sc.1) as [st2 u]. cbn [fst snd].
    by rewrite <-drop_arc_attrs, add_arc_drop.
Qed.

Lemma drop_node_arcs_only d nd : drop_node (arcs_only d) nd = nd.
Proof. destruct nd. unfold drop_node, arcs_only. cbn. by destruct (is_rx_node _). Qed.

Lemma export_state_drop fl d H : export_state (fl_drop fl d) H = drop_est d (export_state fl H).
Proof.
  unfold export_state. change (species_iter (fl_drop fl d) H) with (species_iter fl H).
  rewrite <-(foldl_drop d (export_rxn fl H) (export_rxn (fl_drop fl d) H)) by (intros; apply export_rxn_drop).
  f_equal.
  rewrite <-(foldl_drop d (λ st s, (add_sp_node fl H st s).1) (λ st s, (add_sp_node (fl_drop fl d) H st s).1)).
  2:{ intros st s. by rewrite add_sp_node_drop. }
  f_equal. unfold drop_est. cbn. by rewrite fmap_empty.
Qed.

(** the exporter with the flags switched off builds the exported graph minus the deleted arc attributes *)
Lemma export_drop_arcs fl d H : hypergraph_to_bipartite (fl_drop fl d) H = drop_attrs (arcs_only d) (hypergraph_to_bipartite fl H).
Proof.
  unfold hypergraph_to_bipartite. rewrite export_state_drop. unfold drop_attrs, drop_est. cbn [b_nodes b_arcs e_nodes e_arcs]. f_equal.
  rewrite (map_fmap_ext _ id); [by rewrite map_fmap_id|]. intros ? nd _. apply drop_node_arcs_only.
Qed.

(** any deletion = the arc part first, then the node part *)
Lemma drop_split d G : drop_attrs d G = drop_attrs (nodes_only d) (drop_attrs (arcs_only d) G).
Proof.
  unfold drop_attrs. cbn [b_nodes b_arcs]. f_equal; rewrite <-map_fmap_compose; apply map_fmap_ext; intros ? x _; cbn.
  - rewrite drop_node_arcs_only. destruct x. unfold drop_node, nodes_only. cbn. done.
  - destruct x. unfold drop_arc, nodes_only, arcs_only. cbn. by destruct (d_stoich d), (d_role d).
Qed.

(** non-vacuity: a catalyst (two arcs between one pair of nodes), coefficients 2 and 12, both attributes deleted *)
Definition exa_net : net :=
  mk_net ["K"] [(None, "r", [("A", 2%Z)], [("B", 1%Z); ("A", 1%Z)]); (Some "x", "q", [("B", 1%Z)], [("C", 12%Z)])] [("A", "CCO")].
Definition exa_fl : bflags := BFlags (Some "S:") (Some "R:") 0 1 true true true false true true.
Definition exa_d : drops := Drops false false false false true true false false.
Example ex_drop_arcs_flag :
  size (b_arcs (hypergraph_to_bipartite exa_fl exa_net)) = 5%nat ∧
  tbgraph (hypergraph_to_bipartite (fl_drop exa_fl exa_d) exa_net) = tbgraph (drop_attrs (arcs_only exa_d) (hypergraph_to_bipartite exa_fl exa_net)) ∧
  tbgraph (hypergraph_to_bipartite (fl_drop exa_fl exa_d) exa_net) ≠ tbgraph (hypergraph_to_bipartite exa_fl exa_net).
Proof. split_and!; [by vm_compute|by vm_compute|]. intros Hq. vm_compute in Hq. discriminate Hq. Qed.
