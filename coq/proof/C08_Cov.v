(** C08 — the covered view of a graph: everything the serialisation and the nauty search read factors through
    [cov_nodes] / [cov_edges]; well-formed graphs are "simple"; relabelling and rebuilding respect [geq_cov];
    the serialisation is a function of the covered view (serialise_geq_cov). *)
From Coq Require Import List NArith ZArith Bool Arith Lia Permutation.
From SK Require Import lib.LGraph lib.IRSortKeys lib.IRCore lib.StrJoin.
From SK Require Import model.C08_Model proof.C08_Spec proof.C08_Sort proof.C08_Faithful.
From SK Require lib.IRInst.
Import ListNotations.

(* ---------------- geq_cov is an equivalence ---------------- *)
Lemma geq_cov_refl g : geq_cov g g.
Proof. split; apply Permutation_refl. Qed.
Lemma geq_cov_sym g h : geq_cov g h -> geq_cov h g.
Proof. intros [H1 H2]. split; apply Permutation_sym; auto. Qed.
Lemma geq_cov_trans g h k : geq_cov g h -> geq_cov h k -> geq_cov g k.
Proof. intros [H1 H2] [H3 H4]. split; eapply perm_trans; eauto. Qed.

Lemma cove_flip e : cove (flip e) = cove e.
Proof.
  destruct e as [[u v] a]. unfold flip, cove.
  rewrite N.min_l, N.max_r; auto; lia.
Qed.
Lemma geq_geq_cov g h : geq g h -> geq_cov g h.
Proof.
  intros [H1 H2]. split.
  - unfold cov_nodes. apply Permutation_map. exact H1.
  - unfold cov_edges. apply (Permutation_map cove) in H2. rewrite !map_map in H2.
    rewrite (map_ext _ cove) in H2 by (intros; apply cove_flip).
    rewrite (map_ext (fun x => cove (flip x)) cove) in H2 by (intros; apply cove_flip). exact H2.
Qed.

Lemma node_ids_cov g : node_ids g = map fst (cov_nodes g).
Proof. unfold node_ids, cov_nodes. rewrite map_map. reflexivity. Qed.
Lemma geq_cov_ids g h : geq_cov g h -> Permutation (node_ids g) (node_ids h).
Proof. intros [H _]. rewrite !node_ids_cov. apply Permutation_map. exact H. Qed.
Lemma geq_cov_length g h : geq_cov g h -> length (gnodes g) = length (gnodes h).
Proof. intros [H _]. apply Permutation_length in H. unfold cov_nodes in H. rewrite !map_length in H. exact H. Qed.

(* ---------------- simple graphs ---------------- *)
Definition simple (g : graph) : Prop := NoDup (node_ids g) /\ NoDup (map fst (cov_edges g)).

Lemma NoDup_map_key_inj {A B} (f : A -> B) l : NoDup (map f l) -> forall x y, In x l -> In y l -> f x = f y -> x = y.
Proof.
  induction l as [|a l IH]; simpl; intros Hnd x y Hx Hy E; [contradiction|].
  inversion Hnd as [|? ? Ha Hnd']; subst.
  destruct Hx as [<-|Hx], Hy as [<-|Hy]; auto.
  - exfalso. apply Ha. rewrite E. apply in_map. auto.
  - exfalso. apply Ha. rewrite <- E. apply in_map. auto.
Qed.
Lemma simple_keys g : simple g -> forall c1 c2, In c1 (cov_edges g) -> In c2 (cov_edges g) -> fst c1 = fst c2 -> c1 = c2.
Proof. intros [_ H]. apply NoDup_map_key_inj. exact H. Qed.

Lemma simple_geq_cov g h : geq_cov g h -> simple g -> simple h.
Proof.
  intros Hq [H1 H2]. split.
  - eapply Permutation_NoDup; [apply geq_cov_ids; exact Hq|exact H1].
  - destruct Hq as [_ Hq]. eapply Permutation_NoDup; [apply Permutation_map; exact Hq|exact H2].
Qed.

Lemma find_edge_app {B} u v (l1 l2 : list (N * N * B)) :
  find_edge u v (l1 ++ l2) = match find_edge u v l1 with Some x => Some x | None => find_edge u v l2 end.
Proof.
  induction l1 as [|[[a b] x] l1 IH]; simpl; auto.
  destruct ((N.eqb a u && N.eqb b v) || (N.eqb a v && N.eqb b u)); auto.
Qed.
Lemma find_edge_none {B} u v (l : list (N * N * B)) a b x :
  find_edge u v l = None -> In (a, b, x) l -> ~ ((a = u /\ b = v) \/ (a = v /\ b = u)).
Proof.
  induction l as [|[[a' b'] x'] l IH]; simpl; intros Hn Hin; [contradiction|].
  destruct ((N.eqb a' u && N.eqb b' v) || (N.eqb a' v && N.eqb b' u)) eqn:E; [discriminate|].
  destruct Hin as [Heq|Hin]; [|apply IH; auto].
  inversion Heq; subst. intros [[-> ->]|[-> ->]]; rewrite !N.eqb_refl in E; simpl in E;
    try discriminate; rewrite ?orb_true_r in E; discriminate.
Qed.
Lemma find_edge_some {B} u v (l : list (N * N * B)) x :
  find_edge u v l = Some x -> exists a b, In (a, b, x) l /\ ((a = u /\ b = v) \/ (a = v /\ b = u)).
Proof.
  induction l as [|[[a' b'] x'] l IH]; simpl; intros H; [discriminate|].
  destruct ((N.eqb a' u && N.eqb b' v) || (N.eqb a' v && N.eqb b' u)) eqn:E.
  - inversion H; subst. exists a', b'. split; auto.
    apply orb_prop in E. destruct E as [E|E]; apply andb_prop in E; destruct E as [E1 E2];
      apply N.eqb_eq in E1, E2; auto.
  - destruct (IH H) as (a & b & I & Hc). exists a, b. auto.
Qed.

Lemma minmax_pair a b c d : (N.min a b, N.max a b) = (N.min c d, N.max c d) -> (a = c /\ b = d) \/ (a = d /\ b = c).
Proof. intros H. inversion H. lia. Qed.

(* in a well-formed graph two stored edges on the same unordered pair are the same list element *)
Lemma wf_same_pair (g : graph) a b x c d y : wf g ->
  In (a, b, x) (gedges g) -> In (c, d, y) (gedges g) -> ((a = c /\ b = d) \/ (a = d /\ b = c)) -> (a, b, x) = (c, d, y).
Proof.
  intros (_ & _ & Hu) I1 I2 Hp.
  apply in_split in I1. destruct I1 as (l1 & l2 & E).
  destruct (Hu _ _ _ _ _ E) as [N1 N2].
  rewrite E in I2. apply in_app_or in I2. destruct I2 as [I2|[I2|I2]].
  - exfalso. apply (find_edge_none _ _ _ _ _ _ N1 I2). destruct Hp as [[-> ->]|[-> ->]]; auto.
  - auto.
  - exfalso. apply (find_edge_none _ _ _ _ _ _ N2 I2). destruct Hp as [[-> ->]|[-> ->]]; auto.
Qed.

Lemma in_cov_edges (g : graph) c : In c (cov_edges g) <-> exists a b x, In (a, b, x) (gedges g) /\ c = (N.min a b, N.max a b, ecov x).
Proof.
  unfold cov_edges. rewrite in_map_iff. split.
  - intros ([[a b] x] & E & I). exists a, b, x. auto.
  - intros (a & b & x & I & E). exists (a, b, x). auto.
Qed.

Lemma wf_keys_nodup (l : list (N * N * eattr)) :
  (forall l1 a b x l2, l = l1 ++ (a, b, x) :: l2 -> find_edge a b l1 = None /\ find_edge a b l2 = None) ->
  NoDup (map fst (map cove l)).
Proof.
  induction l as [|[[a b] x] l IH]; intros H; simpl; constructor.
  - destruct (H [] a b x l eq_refl) as [_ Hn]. intro I. rewrite map_map in I. apply in_map_iff in I.
    destruct I as ([[c d] y] & E & I). simpl in E.
    apply (find_edge_none _ _ _ _ _ _ Hn I). symmetry in E. apply minmax_pair in E.
    destruct E as [[-> ->]|[-> ->]]; auto.
  - apply IH. intros l1 a' b' x' l2 E. destruct (H ((a, b, x) :: l1) a' b' x' l2) as [H1 H2]; [rewrite E; reflexivity|].
    split; auto. simpl in H1. destruct ((N.eqb a a' && N.eqb b b') || (N.eqb a b' && N.eqb b a')); [discriminate|auto].
Qed.
Lemma wf_simple g : wf g -> simple g.
Proof. intros Hw. split; [apply Hw|]. apply wf_keys_nodup. apply Hw. Qed.

(* ---------------- relabelling ---------------- *)
Definition rn (f : N -> N) (c : N * (list N * Z * bool * Z)) := (f (fst c), snd c).
Definition re (f : N -> N) (c : N * N * ecv) := let '(a, b, x) := c in (N.min (f a) (f b), N.max (f a) (f b), x).

Lemma re_minmax f a b x : re f (N.min a b, N.max a b, x) = (N.min (f a) (f b), N.max (f a) (f b), x).
Proof.
  unfold re. destruct (N.le_ge_cases a b) as [H|H].
  - rewrite (N.min_l a b), (N.max_r a b) by lia. reflexivity.
  - rewrite (N.min_r a b), (N.max_l a b) by lia. rewrite N.min_comm, N.max_comm. reflexivity.
Qed.
Lemma cov_nodes_relabel f (g : graph) : cov_nodes (relabel f g) = map (rn f) (cov_nodes g).
Proof. unfold cov_nodes, relabel. cbn [gnodes]. rewrite !map_map. reflexivity. Qed.
Lemma cov_edges_relabel f (g : graph) : cov_edges (relabel f g) = map (re f) (cov_edges g).
Proof.
  unfold cov_edges, relabel. cbn [gedges]. rewrite !map_map. apply map_ext. intros [[a b] x]. unfold cove, re.
  destruct (N.le_ge_cases a b) as [H|H].
  - rewrite (N.min_l a b), (N.max_r a b) by lia. reflexivity.
  - rewrite (N.min_r a b), (N.max_l a b) by lia. rewrite N.min_comm, N.max_comm. reflexivity.
Qed.
Lemma relabel_geq_cov f g h : geq_cov g h -> geq_cov (relabel f g) (relabel f h).
Proof.
  intros [H1 H2]. split.
  - rewrite !cov_nodes_relabel. apply Permutation_map. exact H1.
  - rewrite !cov_edges_relabel. apply Permutation_map. exact H2.
Qed.
Lemma node_ids_relabel f (g : graph) : node_ids (relabel f g) = map f (node_ids g).
Proof. unfold node_ids, relabel. cbn [gnodes]. rewrite !map_map. reflexivity. Qed.

Lemma NoDup_map_inj_on' f l : NoDup l -> C08_Spec.inj_on f l -> NoDup (map f l).
Proof.
  induction 1 as [|x l Hx Hnd IH]; simpl; intros Hi; constructor.
  - intro I. apply in_map_iff in I. destruct I as (y & E & I). apply Hx.
    rewrite <- (Hi y x); auto; [right; auto|left; auto].
  - apply IH. intros a b Ha Hb. apply Hi; right; auto.
Qed.

Lemma NoDup_map_transfer {A B C} (k0 : A -> B) (k : A -> C) l :
  (forall x y, In x l -> In y l -> k x = k y -> k0 x = k0 y) -> NoDup (map k0 l) -> NoDup (map k l).
Proof.
  induction l as [|a l IH]; simpl; intros H Hnd; constructor; inversion Hnd as [|? ? Ha Hnd']; subst.
  - intro I. apply in_map_iff in I. destruct I as (y & E & I). apply Ha.
    rewrite <- (H y a); auto. apply in_map. exact I.
  - apply IH; auto.
Qed.
Lemma simple_relabel f g : wf g -> C08_Spec.inj_on f (node_ids g) -> simple (relabel f g).
Proof.
  intros Hw Hi. split.
  - rewrite node_ids_relabel. apply NoDup_map_inj_on'; auto. apply Hw.
  - rewrite cov_edges_relabel. unfold cov_edges. rewrite !map_map.
    pose proof (proj2 (wf_simple g Hw)) as Hk. unfold cov_edges in Hk. rewrite map_map in Hk.
    revert Hk. apply NoDup_map_transfer. intros [[a b] x] [[c d] y] I1 I2 E.
    destruct Hw as (_ & Hend & _).
    destruct (Hend _ _ _ I1) as (Ha & Hb & _), (Hend _ _ _ I2) as (Hc & Hd & _).
    cbn [cove] in *. rewrite !re_minmax in E. cbn [fst] in *.
    apply minmax_pair in E.
    assert (P : (a = c /\ b = d) \/ (a = d /\ b = c)) by (destruct E as [[E1 E2]|[E1 E2]]; [left|right]; split; apply Hi; auto).
    destruct P as [[-> ->]|[-> ->]]; [reflexivity|]. rewrite N.min_comm, N.max_comm. reflexivity.
Qed.

(* ---------------- rebuilding in a node order ---------------- *)
Lemma perm_edges_geq_cov (cg r : graph) : Permutation (gnodes cg) (gnodes r) -> gedges cg = gedges r -> geq_cov cg r.
Proof.
  intros H1 H2. split; [apply Permutation_map; exact H1|]. unfold cov_edges. rewrite H2. apply Permutation_refl.
Qed.
Lemma faithful_geq_cov g cg : faithful g cg -> exists f, C08_Spec.inj_on f (node_ids g) /\ geq_cov cg (relabel f g).
Proof. intros (f & Hi & H1 & H2). exists f. split; auto. apply perm_edges_geq_cov; auto. Qed.

Lemma rebuild_geq_cov (g : graph) order : NoDup (node_ids g) -> Permutation order (node_ids g) ->
  C08_Spec.inj_on (apply_map (mapping_of order)) (node_ids g) /\
  geq_cov (rebuild g order) (relabel (apply_map (mapping_of order)) g).
Proof.
  intros Hnd Hp.
  assert (Hndo : NoDup order) by (eapply Permutation_NoDup; [apply Permutation_sym; exact Hp|exact Hnd]).
  split.
  - apply inj_on_same. eapply inj_on_perm; [exact Hp|]. apply mapping_of_inj; auto.
  - apply perm_edges_geq_cov; [|reflexivity].
    unfold rebuild. cbn [gnodes]. rewrite gnodes_relabel_as_ids by auto. apply Permutation_map. exact Hp.
Qed.
