(** C16 — species graph: collapsing a two-sided network and reconstructing it reproduces ids and stoichiometry. *)
From stdpp Require Import gmap strings sets pretty sorting.
From SK Require Import lib.Tok model.C15_Model proof.C15_Proof model.C16_Model proof.C16_Defs proof.C16_Common.
Local Open Scope string_scope.
Local Open Scope list_scope.

(** * export as one fold over (reaction, reactant, product) tuples *)
Record tup := Tup { t_e : string; t_rule : string; t_u : string; t_c : positive; t_v : string; t_d : positive }.
Definition tuples_of (e : string) (rx : rxn) : list tup :=
  uc ← map_to_list (r_lhs rx); vd ← map_to_list (r_rhs rx); [Tup e (r_rule rx) uc.1 uc.2 vd.1 vd.2].
Definition all_tuples (E : list (string * rxn)) : list tup := p ← E; tuples_of p.1 p.2.
Definition step_tuple (G : sgraph) (t : tup) : sgraph := collapse_pair (t_e t) (t_rule t) G (t_u t) (t_c t) (t_v t) (t_d t).

Lemma collapse_rxn_flat e rx G : collapse_rxn e rx G = foldl step_tuple G (tuples_of e rx).
Proof.
  unfold collapse_rxn, tuples_of. rewrite foldl_bind. apply foldl_ext_in. intros G' uc _.
  rewrite foldl_bind. done.
Qed.
Lemma export_flat (E : list (string * rxn)) G : foldl (λ G p, collapse_rxn p.1 p.2 G) G E = foldl step_tuple G (all_tuples E).
Proof.
  unfold all_tuples. rewrite foldl_bind. apply foldl_ext_in. intros G' p _. apply collapse_rxn_flat.
Qed.

Lemma elem_of_tuples_of e rx t : t ∈ tuples_of e rx ↔
  t_e t = e ∧ t_rule t = r_rule rx ∧ r_lhs rx !! t_u t = Some (t_c t) ∧ r_rhs rx !! t_v t = Some (t_d t).
Proof.
  unfold tuples_of. rewrite elem_of_list_bind. split.
  - intros ([u c] & Hin1 & Huc). apply elem_of_list_bind in Hin1 as ([v d] & Ht%elem_of_list_singleton & Hvd).
    apply elem_of_map_to_list in Hvd, Huc. subst t. done.
  - intros (He & Hr & Hu & Hv). exists (t_u t, t_c t). split; [|by apply elem_of_map_to_list].
    apply elem_of_list_bind. exists (t_v t, t_d t). split; [|by apply elem_of_map_to_list].
    apply elem_of_list_singleton. destruct t; simpl in *. by subst.
Qed.
Lemma elem_of_all_tuples E t : t ∈ all_tuples E ↔
  ∃ rx, (t_e t, rx) ∈ E ∧ t_rule t = r_rule rx ∧ r_lhs rx !! t_u t = Some (t_c t) ∧ r_rhs rx !! t_v t = Some (t_d t).
Proof.
  unfold all_tuples. rewrite elem_of_list_bind. split.
  - intros ([e rx] & (He & ?)%elem_of_tuples_of & Hin). simpl in *. subst e. eauto.
  - intros (rx & Hin & ?). exists (t_e t, rx). split; [|done]. by apply elem_of_tuples_of.
Qed.

(** the coefficients of a tuple are determined by (reaction id, reactant, product) *)
Definition tfun (l : list tup) : Prop :=
  ∀ t t', t ∈ l → t' ∈ l → t_e t = t_e t' → t_u t = t_u t' → t_v t = t_v t' → t_c t = t_c t' ∧ t_d t = t_d t'.

Lemma tfun_all (E : gmap string rxn) : tfun (all_tuples (map_to_list E)).
Proof.
  intros t t' (rx & Hin & _ & Hu & Hv)%elem_of_all_tuples (rx' & Hin' & _ & Hu' & Hv')%elem_of_all_tuples He Hue Hve.
  apply elem_of_map_to_list in Hin, Hin'. rewrite He in Hin. simplify_eq. rewrite Hue in Hu. rewrite Hve in Hv.
  by simplify_eq.
Qed.

(** * the arc invariant *)
Record AInv (done : list tup) (arcs : gmap (string * string) sarc) : Prop := {
  ai_via : ∀ u v a e, arcs !! (u, v) = Some a → e ∈ sa_via a ↔ ∃ t, t ∈ done ∧ t_e t = e ∧ t_u t = u ∧ t_v t = v;
  ai_map : ∀ a t, arcs !! (t_u t, t_v t) = Some a → t ∈ done →
             sa_rmap a !! t_e t = Some (Z.pos (t_c t)) ∧ sa_pmap a !! t_e t = Some (Z.pos (t_d t));
  ai_arc : ∀ t, t ∈ done → is_Some (arcs !! (t_u t, t_v t));
  ai_ne : ∀ uv a, arcs !! uv = Some a → sa_via a ≠ ∅
}.
(** what the import needs of the arcs: the `via` sets, and that the coefficient it READS for a reaction on an arc — the entry of
    the per-reaction map, else the legacy per-arc value — is the reaction's coefficient *)
Record VAInv (done : list tup) (arcs : gmap (string * string) sarc) : Prop := {
  va_via : ∀ u v a e, arcs !! (u, v) = Some a → e ∈ sa_via a ↔ ∃ t, t ∈ done ∧ t_e t = e ∧ t_u t = u ∧ t_v t = v;
  va_val : ∀ a t, arcs !! (t_u t, t_v t) = Some a → t ∈ done →
             default (sa_r a) (sa_rmap a !! t_e t) = Z.pos (t_c t) ∧ default (sa_p a) (sa_pmap a !! t_e t) = Z.pos (t_d t);
  va_arc : ∀ t, t ∈ done → is_Some (arcs !! (t_u t, t_v t));
  va_ne : ∀ uv a, arcs !! uv = Some a → sa_via a ≠ ∅
}.
Lemma AInv_VAInv done arcs : AInv done arcs → VAInv done arcs.
Proof.
  intros [Hvia Hmap Harc Hne]. split; [done| |done|done].
  intros a t Ha Ht. destruct (Hmap a t Ha Ht) as [-> ->]. done.
Qed.

Definition NInv (nodes : gmap string snode) : Prop :=
  ∀ x nd, nodes !! x = Some nd → sn_label nd = None ∨ sn_label nd = Some x.

Lemma ensure_node_NInv x nodes : NInv nodes → NInv (ensure_node x nodes).
Proof.
  intros HN. unfold ensure_node. destruct (nodes !! x) eqn:E; [done|].
  intros y nd. rewrite lookup_insert_Some. intros [[<- <-]|[_ ?]]; [by left|by eapply HN].
Qed.

Lemma step_AInv done G t : AInv done (g_arcs G) → tfun (done ++ [t]) → AInv (done ++ [t]) (g_arcs (step_tuple G t)).
Proof.
  intros [Hvia Hmap Harc Hne0] Hfun. unfold step_tuple, collapse_pair. cbn [g_arcs].
  set (a' := match g_arcs G !! (t_u t, t_v t) with Some d => _ | None => _ end).
  assert (∀ e, e ∈ sa_via a' ↔ e = t_e t ∨ ∃ t0, t0 ∈ done ∧ t_e t0 = e ∧ t_u t0 = t_u t ∧ t_v t0 = t_v t) as Hvia'.
  { intros e. unfold a'. destruct (g_arcs G !! (t_u t, t_v t)) as [d|] eqn:E; cbn [sa_via].
    - rewrite elem_of_union, elem_of_singleton. by rewrite (Hvia _ _ _ e E).
    - rewrite elem_of_singleton. split; [by left|]. intros [?|(t0 & Hin & _ & Hu & Hv)]; [done|].
      destruct (Harc t0 Hin) as [? Hs]. rewrite Hu, Hv in Hs. congruence. }
  split.
  - intros u v a e. destruct (decide ((u, v) = (t_u t, t_v t))) as [[= -> ->]|Hne].
    + rewrite lookup_insert. intros [= <-]. rewrite Hvia'. split.
      * intros [->|(t0 & Hin & ?)]; [exists t|exists t0]; (split; [set_solver|done]).
      * intros (t0 & [Hin|Hq%elem_of_list_singleton]%elem_of_app & He & Hu & Hv); [right; eauto|subst t0; by left].
    + rewrite lookup_insert_ne by done. intros Ha. rewrite (Hvia _ _ _ e Ha). split.
      * intros (t0 & Hin & ?). exists t0. split; [set_solver|done].
      * intros (t0 & [Hin|Hq%elem_of_list_singleton]%elem_of_app & He & Hu & Hv); [eauto|]. subst t0. congruence.
  - intros a t0 Ha Hin0. destruct (decide ((t_u t0, t_v t0) = (t_u t, t_v t))) as [Heq|Hne].
    + rewrite Heq, lookup_insert in Ha. injection Ha as <-. injection Heq as Hu Hv.
      destruct (decide (t_e t0 = t_e t)) as [He|He].
      * destruct (Hfun t0 t Hin0 ltac:(set_solver) He Hu Hv) as [-> ->]. rewrite He. unfold a'.
        destruct (g_arcs G !! (t_u t, t_v t)); cbn [sa_rmap sa_pmap]; by rewrite ?lookup_insert, ?lookup_singleton.
      * assert (t0 ∈ done) as Hd.
        { apply elem_of_app in Hin0 as [?|Hq%elem_of_list_singleton]; [done|by subst t0]. }
        unfold a'. destruct (g_arcs G !! (t_u t, t_v t)) as [d|] eqn:E; cbn [sa_rmap sa_pmap].
        -- rewrite !lookup_insert_ne by done. apply Hmap; [|done]. by rewrite Hu, Hv.
        -- destruct (Harc t0 Hd) as [? Hs]. rewrite Hu, Hv in Hs. congruence.
    + rewrite lookup_insert_ne in Ha by done. apply Hmap; [done|].
      apply elem_of_app in Hin0 as [?|Hq%elem_of_list_singleton]; [done|by subst t0].
  - intros t0 Hin0. destruct (decide ((t_u t0, t_v t0) = (t_u t, t_v t))) as [Heq|Hne].
    + rewrite Heq, lookup_insert. eauto.
    + rewrite lookup_insert_ne by done. apply Harc.
      apply elem_of_app in Hin0 as [?|Hq%elem_of_list_singleton]; [done|by subst t0].
  - intros uv a. destruct (decide (uv = (t_u t, t_v t))) as [->|Hne].
    + rewrite lookup_insert. intros [= <-]. assert (t_e t ∈ sa_via a') by (apply Hvia'; by left). set_solver.
    + rewrite lookup_insert_ne by done. apply Hne0.
Qed.

Lemma fold_AInv l : ∀ done G, AInv done (g_arcs G) → NInv (g_nodes G) → tfun (done ++ l) →
  AInv (done ++ l) (g_arcs (foldl step_tuple G l)) ∧ NInv (g_nodes (foldl step_tuple G l)).
Proof.
  induction l as [|t l IH]; intros done G HA HN Hfun.
  - by rewrite app_nil_r.
  - cbn [foldl]. replace (done ++ t :: l) with ((done ++ [t]) ++ l) in * by (by rewrite <-(assoc_L (++))).
    apply IH; [|by repeat apply ensure_node_NInv|done].
    apply step_AInv; [done|]. intros t1 t2 H1 H2. apply Hfun; set_solver.
Qed.

Definition sg_tuples (H : net) : list tup := all_tuples (map_to_list (edges H)).

Lemma export_inv im H :
  AInv (sg_tuples H) (g_arcs (hypergraph_to_species_graph im H)) ∧ NInv (g_nodes (hypergraph_to_species_graph im H)).
Proof.
  unfold hypergraph_to_species_graph. rewrite export_flat.
  apply (fold_AInv _ []); [| |apply tfun_all].
  - split; cbn [g_arcs]; [by intros ???? ?%lookup_empty_Some|set_solver|set_solver|by intros ?? ?%lookup_empty_Some].
  - cbn [g_nodes]. generalize (elements (species H)). intros l.
    assert (NInv ∅) as H0 by (by intros ?? ?%lookup_empty_Some). revert H0. generalize (∅ : gmap string snode).
    induction l as [|s l IH]; intros m Hm; [done|]. cbn [foldl]. apply IH.
    intros y nd. rewrite lookup_insert_Some. intros [[<- <-]|[_ ?]]; [by right|by eapply Hm].
Qed.

(** * import: grouping the arcs by reaction id *)
Definition triple := (string * string * sarc * string)%type.
Definition triples (arcs : gmap (string * string) sarc) : list triple :=
  p ← map_to_list arcs; (λ e, (p.1, p.2, e)) <$> elements (sa_via p.2).
Definition group_triple (G : sgraph) (acc : gmap string sentry) (t : triple) : gmap string sentry :=
  group_one G t.1.1 t.1.2 acc t.2.

Lemma entries_flat G : (∀ uv a, g_arcs G !! uv = Some a → sa_via a ≠ ∅) →
  species_graph_entries G = (foldl (group_triple G) ∅ (triples (g_arcs G)), false).
Proof.
  intros Hvia. unfold species_graph_entries, triples.
  assert (Forall (λ p : string * string * sarc, sa_via p.2 ≠ ∅) (map_to_list (g_arcs G))) as HF.
  { apply Forall_forall. intros [uv a] Hin%elem_of_map_to_list. by eapply Hvia. }
  revert HF. generalize (map_to_list (g_arcs G)). generalize (∅ : gmap string sentry).
  intros acc l. revert acc. induction l as [|p l IH]; intros acc HF; [done|].
  apply Forall_cons in HF as [Hp HF]. cbn [foldl mbind list_bind]. rewrite foldl_app.
  unfold group_arc at 2. rewrite decide_False by done. cbn [fst snd]. rewrite IH by done. f_equal. f_equal.
  by rewrite foldl_fmap.
Qed.

Section import.
  Context (H : net) (G : sgraph).
  Context (HA : VAInv (sg_tuples H) (g_arcs G)) (HN : NInv (g_nodes G)).

  Lemma snode_label_id x : snode_label G x = x.
  Proof.
    unfold snode_label. destruct (g_nodes G !! x) as [nd|] eqn:E; [|done]. simpl.
    destruct (HN x nd E) as [->| ->]; done.
  Qed.

  (** what every (arc, id) pair of the exported graph carries *)
  Definition good (t : triple) : Prop :=
    ∃ rx c d, edges H !! t.2 = Some rx ∧ r_lhs rx !! t.1.1.1 = Some c ∧ r_rhs rx !! t.1.1.2 = Some d ∧
              default (sa_r t.1.2) (sa_rmap t.1.2 !! t.2) = Z.pos c ∧ default (sa_p t.1.2) (sa_pmap t.1.2 !! t.2) = Z.pos d.

  Lemma triples_good t : t ∈ triples (g_arcs G) → good t.
  Proof.
    unfold triples. intros ([[u v] a] & (e & -> & He%elem_of_elements)%elem_of_list_fmap & Hin%elem_of_map_to_list)%elem_of_list_bind.
    cbn [fst snd] in *. apply (va_via _ _ HA u v a e Hin) in He as (t & Ht & <- & <- & <-).
    destruct (va_val _ _ HA a t Hin Ht) as [Hr Hp].
    apply elem_of_all_tuples in Ht as (rx & Hrx%elem_of_map_to_list & _ & Hu & Hv).
    exists rx, (t_c t), (t_d t). done.
  Qed.

  Definition sound (sd : side) (m : gmap string Z) : Prop :=
    ∀ u z, m !! u = Some z → ∃ c, sd !! u = Some c ∧ z = Z.pos c.
  Definition ent_ok (rx : rxn) (ent : sentry) : Prop :=
    se_clash ent = false ∧ sound (r_lhs rx) (se_r ent) ∧ sound (r_rhs rx) (se_p ent).

  Lemma put_first_ok (sd : side) m s c : sound sd m → sd !! s = Some c →
    ∃ m', put_first m s (Z.pos c) = (m', false) ∧ sound sd m' ∧ is_Some (m' !! s) ∧ (∀ u, is_Some (m !! u) → is_Some (m' !! u)).
  Proof.
    intros Hm Hs. unfold put_first. destruct (m !! s) as [z|] eqn:E.
    - destruct (Hm s z E) as (c' & Hc' & ->). rewrite Hs in Hc'. injection Hc' as <-.
      exists m. split; [by rewrite bool_decide_eq_false_2 by (by intros ?)|]. split; [done|]. split; [by rewrite E|done].
    - exists (<[s := Z.pos c]> m). split; [done|]. split_and!.
      + intros u z. rewrite lookup_insert_Some. intros [[<- <-]|[_ ?]]; [eauto|by apply Hm].
      + by rewrite lookup_insert.
      + intros u [z Hz]. destruct (decide (u = s)) as [->|?]; [by rewrite lookup_insert|by rewrite lookup_insert_ne, Hz by done].
  Qed.

  Record EInv (done : list triple) (ents : gmap string sentry) : Prop := {
    ei_sound : ∀ e ent, ents !! e = Some ent → ∃ rx, edges H !! e = Some rx ∧ ent_ok rx ent;
    ei_complete : ∀ t, t ∈ done →
      ∃ ent, ents !! t.2 = Some ent ∧ is_Some (se_r ent !! t.1.1.1) ∧ is_Some (se_p ent !! t.1.1.2)
  }.

  Lemma group_triple_EInv done ents t : EInv done ents → good t → EInv (done ++ [t]) (group_triple G ents t).
  Proof.
    intros [Hs Hc] (rx & c & d & Hrx & Hu & Hv & Hr & Hp). destruct t as [[[u v] a] e]. cbn [fst snd] in *.
    unfold group_triple, group_one. cbn [fst snd]. rewrite Hr, Hp, !snode_label_id. cbn [default].
    set (ent0 := default (SEntry ∅ ∅ ∅ false) (ents !! e)).
    assert (ent_ok rx ent0) as (Hcl & Hsr & Hsp).
    { unfold ent0. destruct (ents !! e) as [ent|] eqn:E; cbn [default].
      - destruct (Hs e ent E) as (rx' & Hrx' & Hok). by simplify_eq.
      - split; [done|]. split; intros ?? Hq; cbn in Hq; by apply lookup_empty_Some in Hq. }
    unfold id. destruct (put_first_ok _ _ u c Hsr Hu) as (rm & -> & Hrm & Hrmu & Hrmono).
    destruct (put_first_ok _ _ v d Hsp Hv) as (pm & -> & Hpm & Hpmv & Hpmono).
    rewrite Hcl. cbn [orb]. split.
    - intros e' ent'. rewrite lookup_insert_Some. intros [[<- <-]|[_ ?]]; [|by apply Hs].
      exists rx. split; [done|]. by split.
    - intros t0 [Hin|Hq%elem_of_list_singleton]%elem_of_app.
      + destruct (Hc t0 Hin) as (ent1 & He1 & H1 & H2). destruct (decide (t0.2 = e)) as [Heq|Hne].
        * rewrite Heq, lookup_insert. eexists. split; [done|]. cbn [se_r se_p].
          assert (ent0 = ent1) as -> by (unfold ent0; by rewrite <-Heq, He1). auto.
        * rewrite lookup_insert_ne by done. eauto.
      + subst t0. cbn [fst snd]. rewrite lookup_insert. eexists. split; [done|]. done.
  Qed.

  Lemma fold_EInv l : ∀ done ents, EInv done ents → Forall good l → EInv (done ++ l) (foldl (group_triple G) ents l).
  Proof.
    induction l as [|t l IH]; intros done ents HE Hg; [by rewrite app_nil_r|].
    apply Forall_cons in Hg as [Ht Hg]. cbn [foldl].
    replace (done ++ t :: l) with ((done ++ [t]) ++ l) by (by rewrite <-(assoc_L (++))).
    apply IH; [|done]. by apply group_triple_EInv.
  Qed.

  Definition sg_ents : gmap string sentry := foldl (group_triple G) ∅ (triples (g_arcs G)).

  Lemma sg_ents_EInv : EInv (triples (g_arcs G)) sg_ents.
  Proof.
    apply (fold_EInv _ [] ∅).
    - split; [by intros ?? ?%lookup_empty_Some|set_solver].
    - apply Forall_forall. intros t. apply triples_good.
  Qed.

  Lemma triple_of_tuple e rx u c v d :
    edges H !! e = Some rx → r_lhs rx !! u = Some c → r_rhs rx !! v = Some d → ∃ a, (u, v, a, e) ∈ triples (g_arcs G).
  Proof.
    intros Hrx Hu Hv.
    assert (Tup e (r_rule rx) u c v d ∈ sg_tuples H) as Ht.
    { apply elem_of_all_tuples. exists rx. cbn. split; [by apply elem_of_map_to_list|done]. }
    destruct (va_arc _ _ HA _ Ht) as [a Ha]. cbn in Ha. exists a.
    unfold triples. apply elem_of_list_bind. exists (u, v, a). split; [|by apply elem_of_map_to_list].
    apply elem_of_list_fmap. exists e. split; [done|]. apply elem_of_elements.
    apply (va_via _ _ HA u v a e Ha). eexists. split; [exact Ht|done].
  Qed.

  Context (H2 : two_sided H).

  Lemma sg_ents_dom e rx : edges H !! e = Some rx → is_Some (sg_ents !! e).
  Proof.
    intros Hrx. destruct (H2 e rx Hrx) as [Hl Hr].
    apply map_choose in Hl as (u & c & Hu). apply map_choose in Hr as (v & d & Hv).
    destruct (triple_of_tuple e rx u c v d Hrx Hu Hv) as [a Hin].
    destruct (ei_complete _ _ sg_ents_EInv _ Hin) as (ent & He & _). cbn in He. eauto.
  Qed.

  Lemma sg_ents_spec e ent : sg_ents !! e = Some ent →
    ∃ rx, edges H !! e = Some rx ∧ se_clash ent = false ∧
          se_r ent = Z.pos <$> r_lhs rx ∧ se_p ent = Z.pos <$> r_rhs rx.
  Proof.
    intros He. destruct (ei_sound _ _ sg_ents_EInv e ent He) as (rx & Hrx & Hcl & Hsr & Hsp).
    exists rx. split; [done|]. split; [done|]. destruct (H2 e rx Hrx) as [Hl Hr].
    apply map_choose in Hl as (u0 & c0 & Hu0). apply map_choose in Hr as (v0 & d0 & Hv0). split.
    - apply map_eq. intros u. rewrite lookup_fmap. destruct ((r_lhs rx : gmap string positive) !! u) as [c|] eqn:Hu; cbn.
      + destruct (triple_of_tuple e rx u c v0 d0 Hrx Hu Hv0) as [a Hin].
        destruct (ei_complete _ _ sg_ents_EInv _ Hin) as (ent1 & He1 & [z Hz] & _). cbn in *.
        rewrite He in He1. injection He1 as <-. rewrite Hz. destruct (Hsr u z Hz) as (c' & Hc' & ->).
        pose proof (eq_trans (eq_sym Hu) Hc') as [= ->]. done.
      + destruct (se_r ent !! u) as [z|] eqn:Hz; [|done]. destruct (Hsr u z Hz) as (c' & Hc' & _). by pose proof (eq_trans (eq_sym Hu) Hc').
    - apply map_eq. intros v. rewrite lookup_fmap. destruct ((r_rhs rx : gmap string positive) !! v) as [d|] eqn:Hv; cbn.
      + destruct (triple_of_tuple e rx u0 c0 v d Hrx Hu0 Hv) as [a Hin].
        destruct (ei_complete _ _ sg_ents_EInv _ Hin) as (ent1 & He1 & _ & [z Hz]). cbn in *.
        rewrite He in He1. injection He1 as <-. rewrite Hz. destruct (Hsp v z Hz) as (d' & Hd' & ->).
        pose proof (eq_trans (eq_sym Hv) Hd') as [= ->]. done.
      + destruct (se_p ent !! v) as [z|] eqn:Hz; [|done]. destruct (Hsp v z Hz) as (d' & Hd' & _). by pose proof (eq_trans (eq_sym Hv) Hd').
  Qed.
End import.

(** * the round trip *)
Lemma foldl_mol_edges {A} (f : net → A → option (string * string)) (l : list A) : ∀ s,
  edges (foldl (λ acc x, match f acc x with Some lm => set_mol acc lm.1 lm.2 | None => acc end) s l) = edges s.
Proof. induction l as [|x l IH]; intros s; [done|]. cbn [foldl]. rewrite IH. by destruct (f s x). Qed.

(** the import of ANY graph that carries, for the reactions of [H], the `via` sets and the per-reaction coefficient maps
    (whatever its legacy values, rule sets, `kind` / `mol` attributes; labels absent or equal to the node id) *)
Lemma species_graph_import_inv (pick : gset string → string) (default_rule : string) (mol_attr : bool) (H : net) (G : sgraph) :
  two_sided H → VAInv (sg_tuples H) (g_arcs G) → NInv (g_nodes G) →
  (species_graph_to_hypergraph pick default_rule mol_attr G).2 = None ∧
  stoich_of <$> edges (species_graph_to_hypergraph pick default_rule mol_attr G).1 = stoich_of <$> edges H.
Proof.
  intros H2 HA HN.
  unfold species_graph_to_hypergraph. rewrite (entries_flat G) by (intros; eapply va_ne; eauto).
  fold (sg_ents G). cbn [orb].
  pose proof (sg_ents_spec H G HA HN H2) as Hspec. pose proof (sg_ents_dom H G HA HN H2) as Hdom.
  rewrite bool_decide_eq_false_2.
  2:{ intros (e & ent & He & Hc). destruct (Hspec e ent He) as (rx & _ & Hcl & _). congruence. }
  set (l := sort_by_key (map_to_list (sg_ents G))).
  assert (l ≡ₚ map_to_list (sg_ents G)) as Hperm by apply merge_sort_Permutation.
  assert (∀ e ent, (e, ent) ∈ l ↔ sg_ents G !! e = Some ent) as Hl.
  { intros e ent. by rewrite Hperm, elem_of_map_to_list. }
  set (fl := λ p : string * sentry, normalize (map_to_list (se_r p.2))).
  set (fr := λ p : string * sentry, normalize (map_to_list (se_p p.2))).
  set (frule := λ p : string * sentry, if decide (se_rules p.2 = ∅) then default_rule else pick (se_rules p.2)).
  assert (∀ e ent, (e, ent) ∈ l → ∃ rx, edges H !! e = Some rx ∧ fl (e, ent) = r_lhs rx ∧ fr (e, ent) = r_rhs rx) as Hside.
  { intros e ent Hin%Hl. destruct (Hspec e ent Hin) as (rx & Hrx & _ & Hr & Hp). exists rx. split; [done|].
    unfold fl, fr. cbn [snd]. by rewrite Hr, Hp, !normalize_pos_map. }
  assert (NoDup l.*1) as Hnd by (rewrite Hperm; apply NoDup_fst_map_to_list).
  destruct (rebuild_fold fst fl fr frule l Hnd) with (s := empty_net) as (s' & Hf & He & _ & _).
  { apply Forall_forall. intros [e ent] Hin. destruct (Hside e ent Hin) as (rx & Hrx & -> & ->).
    destruct (H2 e rx Hrx). tauto. }
  { done. }
  match goal with |- context [foldl ?f (empty_net, None) l] =>
    change (foldl f (empty_net, None) l) with (foldl (rebuild_step fst fl fr frule) (empty_net, None) l) end.
  rewrite Hf. split; [done|]. cbn [fst].
  match goal with |- _ <$> edges ?X = _ => assert (edges X = edges s') as -> end.
  { destruct mol_attr; [|done].
    pose proof (foldl_mol_edges (λ acc (xn : string * snode),
             match sn_mol xn.2 with
             | Some m => if decide (default xn.1 (sn_label xn.2) ∈ species acc) then Some (default xn.1 (sn_label xn.2), m) else None
             | None => None end) (map_to_list (g_nodes G)) s') as Hq.
    rewrite <-Hq. f_equal. apply foldl_ext_in. intros acc xn _. destruct (sn_mol xn.2); [|done]. cbn zeta. by destruct (decide _). }
  rewrite He. cbn [edges empty_net]. rewrite (right_id_L ∅ (∪)).
  apply map_eq. intros e. rewrite !lookup_fmap. destruct (edges H !! e) as [rx|] eqn:Hrx.
  - destruct (Hdom e rx Hrx) as [ent Hent]. apply Hl in Hent as Hin.
    destruct (Hside e ent Hin) as (rx' & Hrx' & Hfl & Hfr). assert (rx' = rx) as -> by congruence.
    rewrite (elem_of_list_to_map_1 _ e (rebuilt fst fl fr frule (e, ent)).2).
    + cbn. unfold stoich_of. cbn. by rewrite Hfl, Hfr.
    + by rewrite rebuilt_fst.
    + apply elem_of_list_fmap. by exists (e, ent).
  - rewrite (not_elem_of_list_to_map_1 _ e); [done|]. rewrite rebuilt_fst.
    intros ([e' ent] & -> & Hin)%elem_of_list_fmap. destruct (Hside _ _ Hin) as (rx & Hrx' & _). cbn in Hrx. congruence.
Qed.

Lemma species_graph_roundtrip (pick : gset string → string) (default_rule : string) (include_mol mol_attr : bool) (H : net) :
  two_sided H →
  (species_graph_to_hypergraph pick default_rule mol_attr (hypergraph_to_species_graph include_mol H)).2 = None ∧
  stoich_of <$> edges (species_graph_to_hypergraph pick default_rule mol_attr (hypergraph_to_species_graph include_mol H)).1
    = stoich_of <$> edges H.
Proof.
  intros H2. destruct (export_inv include_mol H) as [HA HN]. apply species_graph_import_inv; [done|by apply AInv_VAInv|done].
Qed.

(** * non-vacuity *)
Definition ex_sg_net : net :=
  mk_net [] [(None, "r", [("A", 2%Z)], [("B", 1%Z)]); (None, "q", [("A", 1%Z)], [("B", 3%Z)]);
             (Some "x", "r", [("B", 1%Z)], [("C", 1%Z); ("A", 12%Z)])] [("A", "CCO")].
Definition ex_sg_graph : sgraph := hypergraph_to_species_graph true ex_sg_net.
Definition ex_sg_back : net := (species_graph_to_hypergraph pick_first "r" true ex_sg_graph).1.
(** two reactions share the species pair (A, B): one arc, two ids, two coefficient pairs *)
Example ex_sg_shared_arc : bool_decide (two_sided ex_sg_net) = true ∧
  (sa_via <$> g_arcs ex_sg_graph !! ("A", "B")) = Some {[ "r_1"; "q_1" ]} ∧
  (sa_rmap <$> g_arcs ex_sg_graph !! ("A", "B")) = Some {[ "r_1" := 2%Z; "q_1" := 1%Z ]} ∧
  size (edges ex_sg_back) = 3%nat.
Proof. split_and!; [by vm_compute| | |by vm_compute]; apply (bool_decide_unpack _); by vm_compute. Qed.
(** rules are not claimed: the merged rule set of the shared arc has two elements *)
Example ex_sg_rules_merged : (sa_rules <$> g_arcs ex_sg_graph !! ("A", "B")) = Some {[ "r"; "q" ]}.
Proof. apply (bool_decide_unpack _). by vm_compute. Qed.
(** without two-sidedness the claim fails: a source reaction leaves no arc and is lost *)
Definition ex_sg_source : net := mk_net [] [(None, "r", [], [("A", 1%Z)])] [].
Example ex_sg_two_sided_needed :
  edges (species_graph_to_hypergraph pick_first "r" true (hypergraph_to_species_graph true ex_sg_source)).1 = ∅ ∧
  size (edges ex_sg_source) = 1%nat.
Proof. split; [apply (bool_decide_unpack _)|]; by vm_compute. Qed.
