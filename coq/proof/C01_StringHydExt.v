(** C01 — implicit_hydrogen depends only on the labelled graph (labels and adjacency), not on the order of its lists *)
From Coq Require Import List NArith ZArith Bool Lia Arith Permutation.
From SK Require Import lib.LGraph lib.C01_GraphLemmas model.C01_Model model.C02_Model model.C01_String proof.C01_Proof proof.C01_StringHyd.
Import ListNotations.
Local Open Scope Z_scope.

Lemma filter_length_same_members (p : N -> bool) (l1 l2 : list N) :
  NoDup l1 -> NoDup l2 -> (forall x, In x l1 <-> In x l2) -> length (filter p l1) = length (filter p l2).
Proof.
  intros N1 N2 HM. apply Permutation_length. apply NoDup_Permutation; try (apply NoDup_filter; assumption).
  intros x. rewrite !filter_In, HM. reflexivity.
Qed.

Section Ext.
Variables g1 g2 : mgraph.
Hypothesis W1 : wf g1.
Hypothesis W2 : wf g2.
Hypothesis HL : forall n, label g1 n = label g2 n.
Hypothesis HA : forall u v, adj g1 u v = adj g2 u v.

Lemma is_Hn_ext n : is_Hn g1 n = is_Hn g2 n.
Proof. unfold is_Hn. rewrite HL. reflexivity. Qed.

Lemma nbrs_members u x : In x (nbrs g1 u) <-> In x (nbrs g2 u).
Proof. rewrite !in_nbrs, HA. reflexivity. Qed.

Lemma mem_nbrs_ext u x : mem x (nbrs g1 u) = mem x (nbrs g2 u).
Proof.
  destruct (mem x (nbrs g1 u)) eqn:E1, (mem x (nbrs g2 u)) eqn:E2; try reflexivity; exfalso.
  - apply mem_spec, nbrs_members, mem_spec in E1. congruence.
  - apply mem_spec, nbrs_members, mem_spec in E2. congruence.
Qed.

Lemma count_h_ext n : count_h g1 n = count_h g2 n.
Proof.
  unfold count_h. f_equal.
  rewrite (filter_ext (is_Hn g1) (is_Hn g2)) by apply is_Hn_ext.
  apply filter_length_same_members; [apply nbrs_nodup; exact W1|apply nbrs_nodup; exact W2|apply nbrs_members].
Qed.

Lemma preserved_members pres h : In h (preserved g1 pres) <-> In h (preserved g2 pres).
Proof. rewrite (preserved_spec g1 pres h W1), (preserved_spec g2 pres h W2), HL. reflexivity. Qed.

Lemma mem_preserved_ext pres n : mem n (preserved g1 pres) = mem n (preserved g2 pres).
Proof.
  destruct (mem n (preserved g1 pres)) eqn:E1, (mem n (preserved g2 pres)) eqn:E2; try reflexivity; exfalso.
  - apply mem_spec, preserved_members, mem_spec in E1. congruence.
  - apply mem_spec, preserved_members, mem_spec in E2. congruence.
Qed.

Lemma count_pres_ext pres n : count_pres g1 pres n = count_pres g2 pres n.
Proof.
  unfold count_pres. f_equal.
  rewrite (filter_ext (fun h => mem n (nbrs g1 h)) (fun h => mem n (nbrs g2 h))) by (intros h; apply mem_nbrs_ext).
  apply filter_length_same_members; [apply preserved_nodup; exact W1|apply preserved_nodup; exact W2|apply preserved_members].
Qed.

Lemma has_heavy_ext n : has_heavy g1 n = has_heavy g2 n.
Proof.
  destruct (has_heavy g1 n) eqn:E1, (has_heavy g2 n) eqn:E2; try reflexivity; exfalso.
  - apply has_heavy_spec in E1. destruct E1 as (m & I & H). rewrite is_Hn_ext in H. apply nbrs_members in I.
    assert (has_heavy g2 n = true) by (apply has_heavy_spec; eauto). congruence.
  - apply has_heavy_spec in E2. destruct E2 as (m & I & H). rewrite <- is_Hn_ext in H. apply nbrs_members in I.
    assert (has_heavy g1 n = true) by (apply has_heavy_spec; eauto). congruence.
Qed.

Lemma ih_removed_ext pres n : ih_removed g1 pres n = ih_removed g2 pres n.
Proof. unfold ih_removed. rewrite is_Hn_ext, mem_preserved_ext, has_heavy_ext. reflexivity. Qed.

(** C01_implicit_hydrogen_ext *)
Theorem implicit_hydrogen_ext pres : geq (implicit_hydrogen g1 pres) (implicit_hydrogen g2 pres).
Proof.
  destruct (implicit_hydrogen_spec g1 pres W1) as (L1 & A1 & _).
  destruct (implicit_hydrogen_spec g2 pres W2) as (L2 & A2 & _).
  split.
  - intros n. rewrite L1, L2, HL. destruct (label g2 n) as [a|]; [|reflexivity].
    rewrite mem_preserved_ext, count_h_ext, count_pres_ext, has_heavy_ext. reflexivity.
  - intros u v. rewrite A1, A2, !ih_removed_ext, HA. reflexivity.
Qed.
End Ext.

(** non-vacuity: the same molecule graph with its node and edge lists in another order *)
Definition ex_gh2 : mgraph :=
  LG [(4%N, GN EL_H false 0 0 None 4); (3%N, GN EL_H false 0 0 None 3); (1%N, GN 70%N false 0 0 None 1); (2%N, GN EL_H false 0 0 None 2)]
     [(4%N, 1%N, 2); (1%N, 3%N, 2); (2%N, 1%N, 2)].
Definition ex_gh1 : mgraph :=
  LG [(1%N, GN 70%N false 0 0 None 1); (2%N, GN EL_H false 0 0 None 2); (3%N, GN EL_H false 0 0 None 3); (4%N, GN EL_H false 0 0 None 4)]
     [(1%N, 2%N, 2); (3%N, 1%N, 2); (1%N, 4%N, 2)].
Example C01_implicit_hydrogen_ext_nonvacuous :
  ex_gh1 <> ex_gh2 /\ implicit_hydrogen ex_gh1 [2; 3] <> implicit_hydrogen ex_gh2 [2; 3] /\
  (forall n, In n [1; 2; 3; 4; 5]%N -> label (implicit_hydrogen ex_gh1 [2; 3]) n = label (implicit_hydrogen ex_gh2 [2; 3]) n) /\
  option_map g_hc (label (implicit_hydrogen ex_gh2 [2; 3]) 1%N) = Some 1.
Proof.
  split; [discriminate|]. split; [intros E; vm_compute in E; discriminate|]. split; [|reflexivity].
  intros n [<-|[<-|[<-|[<-|[<-|[]]]]]]; reflexivity.
Qed.
