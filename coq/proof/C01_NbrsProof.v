(** C01 — proofs about the 'neighbors' attribute computed inside the model (model/C01_Nbrs.v) *)
From Coq Require Import List NArith ZArith Bool Lia Arith Sorting.Sorted Permutation.
From SK Require Import lib.LGraph model.C01_Model model.C01_String model.C01_Nbrs.
Import ListNotations.
Local Open Scope N_scope.

(** * the order *)
Ltac ltb_cases :=
  repeat match goal with
         | H : context [?a <? ?b] |- _ => destruct (N.ltb_spec a b)
         | |- context [?a <? ?b] => destruct (N.ltb_spec a b)
         end.

Lemma lex_leb_total a b : lex_leb a b = true \/ lex_leb b a = true.
Proof.
  revert b. induction a as [|x a IH]; intros b; [left; reflexivity|].
  destruct b as [|y b]; [right; reflexivity|]. cbn [lex_leb].
  destruct (N.ltb_spec x y); [left; reflexivity|]. destruct (N.ltb_spec y x); [right; reflexivity|]. apply IH.
Qed.

Lemma lex_leb_refl a : lex_leb a a = true.
Proof. induction a as [|x a IH]; [reflexivity|]. cbn [lex_leb]. rewrite N.ltb_irrefl. exact IH. Qed.

Lemma lex_leb_trans a b c : lex_leb a b = true -> lex_leb b c = true -> lex_leb a c = true.
Proof.
  revert b c. induction a as [|x a IH]; intros b c; [reflexivity|].
  destruct b as [|y b]; [discriminate|]. destruct c as [|z c]; [intros _ H; cbn in H; discriminate|].
  cbn [lex_leb]. intros H1 H2. ltb_cases; try discriminate; try reflexivity; try lia. eapply IH; eauto.
Qed.

Lemma lex_leb_antisym a b : lex_leb a b = true -> lex_leb b a = true -> a = b.
Proof.
  revert b. induction a as [|x a IH]; intros b; destruct b as [|y b]; try reflexivity; try discriminate.
  cbn [lex_leb]. intros H1 H2. ltb_cases; try discriminate; try lia. f_equal; [lia|]. apply IH; assumption.
Qed.

Definition sle (x y : N) : Prop := sym_leb x y = true.
Lemma sle_total x y : sle x y \/ sle y x.
Proof. apply lex_leb_total. Qed.
Lemma sle_trans x y z : sle x y -> sle y z -> sle x z.
Proof. apply lex_leb_trans. Qed.
Lemma sle_refl x : sle x x.
Proof. apply lex_leb_refl. Qed.

(** * sorted() *)
Lemma insert_perm x l : Permutation (insert_sym x l) (x :: l).
Proof.
  induction l as [|y l IH]; [reflexivity|]. cbn [insert_sym]. destruct (sym_leb x y); [reflexivity|].
  rewrite IH. apply perm_swap.
Qed.

Lemma insert_sorted x l : Sorted sle l -> Sorted sle (insert_sym x l).
Proof.
  induction l as [|y l IH]; intros S; [repeat constructor|]. cbn [insert_sym].
  destruct (sym_leb x y) eqn:E.
  - constructor; [exact S|]. constructor. exact E.
  - inversion S as [|? ? S' Hd]; subst. constructor; [apply IH; exact S'|].
    assert (sle y x) as Hyx by (destruct (sle_total x y) as [K|K]; [unfold sle in K; congruence|exact K]).
    destruct l as [|z l]; [constructor; exact Hyx|]. cbn [insert_sym]. destruct (sym_leb x z); constructor; [exact Hyx|].
    inversion Hd; assumption.
Qed.

Lemma sort_perm l : Permutation (sort_syms l) l.
Proof. induction l as [|x l IH]; [reflexivity|]. cbn [sort_syms fold_right]. rewrite insert_perm. constructor. exact IH. Qed.
Lemma sort_sorted l : Sorted sle (sort_syms l).
Proof. induction l as [|x l IH]; [constructor|]. cbn [sort_syms fold_right]. apply insert_sorted. exact IH. Qed.
Lemma sort_strongly_sorted l : StronglySorted sle (sort_syms l).
Proof. apply Sorted_StronglySorted; [intros x y z; apply sle_trans|apply sort_sorted]. Qed.

(** the result does not depend on the order in which RDKit lists the neighbours, as far as the BYTES of the symbols go *)
Lemma sorted_perm_bytes l1 l2 : StronglySorted sle l1 -> StronglySorted sle l2 -> Permutation l1 l2 ->
  map sym_bytes l1 = map sym_bytes l2.
Proof.
  revert l2. induction l1 as [|x l1 IH]; intros l2 S1 S2 P.
  - apply Permutation_nil in P. subst. reflexivity.
  - destruct l2 as [|y l2]; [apply Permutation_sym, Permutation_nil in P; discriminate|].
    inversion S1 as [|? ? S1' F1]; subst. inversion S2 as [|? ? S2' F2]; subst.
    assert (sym_bytes x = sym_bytes y) as Exy.
    { apply lex_leb_antisym.
      - assert (In y (x :: l1)) as I by (eapply Permutation_in; [apply Permutation_sym; exact P|left; reflexivity]).
        destruct I as [->|I]; [apply lex_leb_refl|]. rewrite Forall_forall in F1. apply (F1 y I).
      - assert (In x (y :: l2)) as I by (eapply Permutation_in; [exact P|left; reflexivity]).
        destruct I as [->|I]; [apply lex_leb_refl|]. rewrite Forall_forall in F2. apply (F2 x I). }
    cbn [map]. f_equal; [exact Exy|].
    (* remove one occurrence on each side; with equal bytes the heads may still be different codes, so go through a
       permutation of the tails obtained by swapping the heads *)
    destruct (N.eq_dec x y) as [->|Nxy]; [apply IH; auto; eapply Permutation_cons_inv; exact P|].
    assert (In y l1) as Iy.
    { assert (In y (x :: l1)) as I by (eapply Permutation_in; [apply Permutation_sym; exact P|left; reflexivity]). destruct I; congruence. }
    assert (In x l2) as Ix.
    { assert (In x (y :: l2)) as I by (eapply Permutation_in; [exact P|left; reflexivity]). destruct I; congruence. }
    (* all elements of l1 up to y, and of l2 up to x, have the same bytes as x: replace x by y in l2 *)
    apply in_split in Ix. destruct Ix as (a & b & ->).
    assert (Permutation l1 (a ++ y :: b)) as P'.
    { apply Permutation_cons_inv with (a := x). transitivity (y :: a ++ x :: b); [exact P|].
      transitivity (y :: x :: a ++ b); [constructor; symmetry; apply Permutation_middle|].
      transitivity (x :: y :: a ++ b); [apply perm_swap|]. constructor. apply Permutation_middle. }
    assert (StronglySorted sle (a ++ y :: b)) as S2''.
    { clear - S2' F2 Exy. induction a as [|z a IHa]; cbn in *.
      - inversion S2'; subst. constructor; [assumption|]. rewrite Forall_forall in *. intros w Iw. unfold sle, sym_leb. rewrite <- Exy. apply (H2 w Iw).
      - inversion S2' as [|? ? Sa Fa]; subst. inversion F2 as [|? ? Fz F2']; subst. constructor; [apply IHa; assumption|].
        rewrite Forall_forall in *. intros w Iw. apply in_app_or in Iw. destruct Iw as [Iw|[<-|Iw]].
        + apply Fa. apply in_or_app. left. exact Iw.
        + unfold sle, sym_leb. rewrite <- Exy. apply Fa. apply in_or_app. right. left. reflexivity.
        + apply Fa. apply in_or_app. right. right. exact Iw. }
    rewrite (IH _ S1' S2'' P'). rewrite !map_app. cbn [map]. rewrite Exy. reflexivity.
Qed.

Lemma sort_syms_order_independent l1 l2 : Permutation l1 l2 -> map sym_bytes (sort_syms l1) = map sym_bytes (sort_syms l2).
Proof.
  intros P. apply sorted_perm_bytes; try apply sort_strongly_sorted.
  rewrite (sort_perm l1), (sort_perm l2). exact P.
Qed.

(** * the molecule with the computed lists *)
Lemma nth_error_enumerate_from {X} (l : list X) s i :
  nth_error (combine (seq s (length l)) l) i = option_map (fun a => ((s + i)%nat, a)) (nth_error l i).
Proof.
  revert s i. induction l as [|x l IH]; intros s i; [destruct i; reflexivity|].
  destruct i as [|i]; cbn; [rewrite Nat.add_0_r; reflexivity|]. rewrite IH. rewrite Nat.add_succ_r. reflexivity.
Qed.

Lemma fill_nb_nth m i :
  nth_error (rm_atoms (fill_nb m)) i = option_map (fun a => fill_atom m (i, a)) (nth_error (rm0_atoms m) i).
Proof.
  unfold fill_nb. cbn [rm_atoms]. rewrite nth_error_map. unfold enumerate. rewrite nth_error_enumerate_from.
  destruct (nth_error (rm0_atoms m) i); reflexivity.
Qed.

Lemma nbr_idx_in bs i j : In j (nbr_idx bs i) <-> exists o, In (i, j, o) bs \/ In (j, i, o) bs.
Proof.
  unfold nbr_idx. rewrite in_flat_map. split.
  - intros ([[x y] o] & Ib & Ij). destruct (Nat.eqb_spec x i) as [->|Nx].
    + destruct Ij as [<-|[]]. exists o. left. exact Ib.
    + destruct (Nat.eqb_spec y i) as [->|Ny]; [|destruct Ij]. destruct Ij as [<-|[]]. exists o. right. exact Ib.
  - intros (o & [Ib|Ib]).
    + exists (i, j, o). split; [exact Ib|]. rewrite Nat.eqb_refl. left. reflexivity.
    + exists (j, i, o). split; [exact Ib|]. destruct (Nat.eqb_spec j i) as [->|N]; [left; reflexivity|]. rewrite Nat.eqb_refl. left. reflexivity.
Qed.

(** C01_neighbors: what MolToGraph stores under 'neighbors' *)
Theorem neighbors_spec (m : rmol0) i a :
  nth_error (rm_atoms (fill_nb m)) i = Some a ->
  exists a0, nth_error (rm0_atoms m) i = Some a0 /\
    ra_el a = r0_el a0 /\ ra_arom a = r0_arom a0 /\ ra_hs a = r0_hs a0 /\ ra_ch a = r0_ch a0 /\ ra_map a = r0_map a0 /\
    Sorted sle (ra_nb a) /\
    Permutation (ra_nb a) (flat_map (sym_at m) (nbr_idx (rm0_bonds m) i)).
Proof.
  rewrite fill_nb_nth. destruct (nth_error (rm0_atoms m) i) as [a0|]; [|discriminate]. cbn. intros E. inversion E; subst a. clear E.
  exists a0. cbn. repeat (split; [reflexivity|]). split; [apply sort_sorted|apply sort_perm].
Qed.

Lemma fill_nb_bonds m : rm_bonds (fill_nb m) = rm0_bonds m.
Proof. reflexivity. Qed.

(** ... and therefore every node of the molecule graph (and, through ITSConstruction, both halves of typesGH) *)
Theorem graph_neighbors (m : rmol0) k g :
  In (k, g) (mapped_nodes (fill_nb m)) ->
  exists i a0, nth_error (rm0_atoms m) i = Some a0 /\ k = r0_map a0 /\ k <> 0 /\
               g = GN (r0_el a0) (r0_arom a0) (r0_hs a0) (r0_ch a0) (Some (nb_syms m i)) (Z.of_N k).
Proof.
  unfold mapped_nodes. rewrite in_flat_map. intros (a & Ia & Ik).
  apply In_nth_error in Ia. destruct Ia as (i & Ia). rewrite fill_nb_nth in Ia.
  destruct (nth_error (rm0_atoms m) i) as [a0|] eqn:E0; [|discriminate]. cbn in Ia. inversion Ia; subst a. clear Ia.
  unfold is_mapped, fill_atom in Ik. cbn in Ik. destruct (N.eqb_spec (r0_map a0) 0) as [Z|NZ]; cbn in Ik; [destruct Ik|].
  destruct Ik as [Ik|[]]. inversion Ik; subst. exists i, a0. repeat split; auto.
Qed.

(** non-vacuity: ethanol with an unmapped hydroxyl hydrogen written as an atom: O's list is ["C", "H"], Cl sorts before N
    although its code is larger *)
Definition ex_m0 : rmol0 :=
  RM0 [RA0 70 false 3%Z 0%Z 1; RA0 70 false 2%Z 0%Z 2; RA0 82 false 0%Z 0%Z 3; RA0 2 false 0%Z 0%Z 0]
      [(0, 1, 2%Z); (1, 2, 2%Z); (2, 3, 2%Z)]%nat.
Example C01_neighbors_nonvacuous :
  map ra_nb (rm_atoms (fill_nb ex_m0)) = [[70]; [70; 82]; [70; 2]; [82]] /\
  sort_syms [81; 17263; 2; 70; 0; 1] = [1; 0; 70; 17263; 2; 81] /\
  sym_bytes 17263 = [67; 108] /\ sym_leb 17263 81 = true /\ (81 <? 17263) = true /\
  (exists g, In (3, g) (mapped_nodes (fill_nb ex_m0)) /\ g_nb g = Some [70; 2]).
Proof.
  split; [reflexivity|]. split; [reflexivity|]. split; [reflexivity|]. split; [reflexivity|]. split; [reflexivity|].
  eexists. split; [cbn; right; right; left; reflexivity|reflexivity].
Qed.
