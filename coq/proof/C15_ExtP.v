(** C15 (round 3) — paths: completeness.  With max_paths=None every simple chain
    of neighbours from the source to the target within the hop limit is reported
    (soundness is in proof/C15_ExtQ.v). *)
From stdpp Require Import gmap strings sets pretty sorting.
From SK Require Import lib.Tok model.C15_Model model.C15_Ext proof.C15_Proof proof.C15_Ext proof.C15_ExtQ.
Local Open Scope string_scope.

(** [ext rp0 rp j]: [rp] is reached from the queue entry [rp0] by [j] extension
    steps; no entry before [rp] ends in the target (such an entry is reported
    and not extended), [rp] does *)
Inductive ext (s : net) (tgt : string) : list string → list string → nat → Prop :=
| ext_0 rp : head rp = Some tgt → ext s tgt rp rp 0
| ext_S last rp0 n rp j :
    last ≠ tgt → nbr s last n → n ∉ last :: rp0 →
    ext s tgt (n :: last :: rp0) rp j → ext s tgt (last :: rp0) rp (S j).

Lemma extend_complete s last rp0 n nxt :
  Inv s → extend s (last :: rp0) = Some nxt → nbr s last n → n ∉ last :: rp0 → (n :: last :: rp0) ∈ nxt.
Proof.
  intros HI Hext Hn Hnin. unfold extend in Hext.
  pose proof (neighbors_spec s last HI) as HN. destruct (neighbors s last) as [er|N]; [done|].
  destruct HN as [_ HN]. injection Hext as <-. apply elem_of_list_fmap. exists n. split; [done|].
  apply elem_of_list_filter. split; [done|]. by apply elem_of_ssort, elem_of_elements, HN.
Qed.

Lemma bfs_complete s tgt : ∀ k level out,
  Inv s → bfs k s tgt level = Some out →
  ∀ rp0 rp j, rp0 ∈ level → ext s tgt rp0 rp j → (j < k)%nat → rp ∈ out.
Proof.
  induction k as [|k IH]; intros level out HI; cbn [bfs]; [intros _ ? ? ? _ _ ?; lia|].
  destruct (mapM _ _) as [nxt|] eqn:Hm; [|done].
  destruct (bfs k s tgt (concat nxt)) as [rest|] eqn:Hb; [|done]. intros [= <-] rp0 rp j Hin Hext Hj.
  apply elem_of_app. destruct Hext as [rp Hh|last rp0 n rp j Hne Hn Hnin Hext].
  - left. apply elem_of_list_filter. done.
  - right. eapply (IH _ _ HI Hb (n :: last :: rp0)); [|exact Hext|lia].
    assert (Hopen : (last :: rp0) ∈ filter (λ rp, head rp ≠ Some tgt) level).
    { apply elem_of_list_filter. split; [|done]. cbn. congruence. }
    apply mapM_Some in Hm. apply elem_of_list_lookup in Hopen as [i Hi].
    destruct (Forall2_lookup_l _ _ _ _ _ Hm Hi) as (l & Hl & Hextend).
    apply elem_of_list_In, in_concat. exists l. split; [by eapply elem_of_list_In, elem_of_list_lookup_2|].
    by apply elem_of_list_In, (extend_complete s last rp0 n l).
Qed.

Lemma rpath_suffix s src pre : ∀ suf, rpath s src (pre ++ suf) → suf ≠ [] → rpath s src suf.
Proof.
  induction pre as [|a pre IH]; intros suf H Hne; [done|]. apply IH; [|done].
  cbn in H. remember (a :: pre ++ suf) as l eqn:El. destruct H as [|n last rp H1 H2 H3].
  - injection El as _ El. symmetry in El. apply app_eq_nil in El as [_ ->]. done.
  - injection El as _ El. by rewrite <- El.
Qed.

Lemma rpath_ext s src tgt : ∀ pre suf,
  rpath s src (pre ++ suf) → suf ≠ [] → head (pre ++ suf) = Some tgt →
  ext s tgt suf (pre ++ suf) (length pre).
Proof.
  induction pre as [|n pre IH] using rev_ind; intros suf Hrp Hne Hh.
  - by constructor.
  - rewrite <- (assoc_L (++)) in *. cbn [app] in *. rewrite app_length. cbn. rewrite Nat.add_1_r.
    destruct suf as [|last rp0]; [done|].
    pose proof (rpath_suffix s src pre (n :: last :: rp0) Hrp) as Hsuf.
    specialize (Hsuf ltac:(done)). inversion Hsuf as [|n' last' rp' H1 H2 H3]; subst.
    apply (ext_S s tgt last rp0 n); [| done | done | by apply IH].
    (* last is not the target: the target is the head of the whole (duplicate-free) path *)
    intros ->. pose proof (rpath_NoDup _ _ _ Hrp) as Hnd.
    destruct pre as [|a pre]; cbn in Hh.
    + injection Hh as ->. cbn in Hnd. apply NoDup_cons in Hnd as [Hnd _]. set_solver.
    + injection Hh as ->. cbn in Hnd. apply NoDup_cons in Hnd as [Hnd _].
      apply Hnd. rewrite elem_of_app. right. set_solver.
Qed.

Lemma rpath_species s src rp : Inv s → src ∈ species s → rpath s src rp → ∀ x, x ∈ rp → x ∈ species s.
Proof.
  intros HI Hs H. induction H as [|n last rp H IH Hn Hnin]; intros x Hx.
  - by apply elem_of_list_singleton in Hx as ->.
  - apply elem_of_cons in Hx as [->|Hx]; [by eapply nbr_species|by apply IH].
Qed.

Lemma paths_complete s a b h ps rp :
  Inv s → paths s a b h None = inr ps →
  rpath s a rp → head rp = Some b → (Z.of_nat (length rp) ≤ h + 1)%Z → reverse rp ∈ ps.
Proof.
  intros HI. unfold paths. destruct (decide _) as [[Ha Hb]|]; [|done].
  destruct (bfs _ s b [[a]]) as [out|] eqn:Hbfs; [|done]. intros [= <-] Hrp Hh Hlen.
  apply elem_of_list_fmap. exists rp. split; [done|].
  assert (Hsz : (length rp ≤ size (species s))%nat).
  { change (size (species s)) with (length (elements (species s))). apply submseteq_length, NoDup_submseteq; [by eapply rpath_NoDup|].
    intros x Hx. apply elem_of_elements. exact (rpath_species s a rp HI Ha Hrp x Hx). }
  assert (Hpos : (0 < length rp)%nat) by (destruct rp; [done|cbn; lia]).
  assert (Hsplit : ∃ pre, rp = (pre ++ [a])%list).
  { pose proof (rpath_last _ _ _ Hrp) as Hl. apply last_Some in Hl as [pre ->]. eauto. }
  destruct Hsplit as [pre ->].
  eapply (bfs_complete s b _ _ _ HI Hbfs [a] (pre ++ [a]) (length pre)); [by left|by apply (rpath_ext s a b)|].
  rewrite app_length in *. cbn in *. destruct (h <? 0)%Z eqn:E; [apply Z.ltb_lt in E; lia|]. apply Z.ltb_ge in E.
  destruct (size (species s)); lia.
Qed.
