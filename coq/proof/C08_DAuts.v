(** C08 — directed inputs: the automorphism output of the exact back-end on a DiGraph (mirror of C08_Auts.v, generated from it by
    renaming: the proofs only use that [dnlabel] is the label the search minimises): every reported permutation is a leaf with
    the minimal two-triangle label - best_i |-> reported_i is an automorphism of the digraph on the covered attributes - and
    every automorphism of the digraph carries the best permutation to a reported one. *)
From Coq Require Import List NArith ZArith Bool Arith Lia Permutation.
From SK Require Import lib.LGraph lib.IRSortKeys lib.IRCore lib.IRSearch lib.StrJoin.
From SK Require Import model.C08_Model proof.C08_Spec proof.C08_Sort proof.C08_Faithful proof.C08_Cov proof.C08_SigFun
                       proof.C08_Render proof.C08_IR proof.C08_Nauty proof.C08_Sound proof.C08_Equiv proof.C08_Invariant.
From SK Require Import model.C08_Digraph proof.C08_DSpec proof.C08_DSer proof.C08_DNauty proof.C08_DEquiv proof.C08_DInvariant.
From SK Require lib.IRInst.
Import ListNotations.

Notation ix p := (apply_map (mapping_of p)).

Definition dacc_ok (g : graph) (l : list (list N)) (a : nacc) : Prop :=
  match fst a with
  | None => snd a = []
  | Some (bl, bp) => In bp l /\ bl = dnlabel g bp /\ forall q, In q (snd a) -> In q l /\ dnlabel g q = bl
  end.

Lemma dvisit_ok g l a p : dacc_ok g l a -> In p l -> dacc_ok g l (visit strleb (dnlabel g) a p).
Proof.
  unfold dacc_ok, visit. destruct (fst a) as [[bl bp]|] eqn:Ea; intros H Hp.
  - destruct H as (H1 & H2 & H3).
    destruct (ltb strleb (dnlabel g p) bl) eqn:E1; cbn [fst snd].
    + split; auto. split; auto. intros q [<-|[]]. auto.
    + destruct (eqb strleb (dnlabel g p) bl) eqn:E2; cbn [fst snd]; rewrite ?Ea.
      * split; auto. split; auto. intros q I. apply in_app_or in I. destruct I as [I|[<-|[]]]; auto.
        split; auto. apply (eqb_eq strleb strleb_total strleb_antisym). exact E2.
      * auto.
  - cbn [fst snd]. split; auto. split; auto. intros q [<-|[]]. auto.
Qed.

Lemma dfold_visit_ok g l : forall l' a, incl l' l -> dacc_ok g l a -> dacc_ok g l (fold_left (visit strleb (dnlabel g)) l' a).
Proof.
  induction l' as [|p l' IH]; intros a Hi Ha; simpl; auto.
  apply IH; [intros x I; apply Hi; right; exact I|]. apply dvisit_ok; auto. apply Hi. left. reflexivity.
Qed.

Theorem dnauty_auts_sound g : dwf g -> els_ok g -> forall q, In q (snd (dnauty_acc g)) ->
  Permutation q (node_ids g) /\ dnlabel g q = dnlabel g (dnauty_perm g) /\
  dgeq_cov (relabel (ix (dnauty_perm g)) g) (relabel (ix q) g).
Proof.
  intros Hg Eg q Hq. pose proof (proj1 Hg) as Ng.
  set (L := leaves2 _ lexleb (dsigN g) (rfuel g) (children g) (sfuel g) (init_partition g) []).
  assert (Hok : dacc_ok g L (dnauty_acc g)).
  { unfold dnauty_acc. rewrite dnsearch_is_fold. apply dfold_visit_ok; [apply incl_refl|]. reflexivity. }
  destruct (dnauty_perm_leaf g Ng) as [Lp Ep].
  unfold dacc_ok in Hok. unfold dnauty_perm, dnauty_label in *.
  destruct (fst (dnauty_acc g)) as [[bl bp]|] eqn:Ea; [|rewrite Hok in Hq; contradiction].
  destruct Hok as (H1 & H2 & H3). destruct (H3 q Hq) as [Iq Eq]. cbn [option_map fst] in *.
  pose proof (dleaf_perm g q Ng Iq) as Pq. pose proof (dleaf_perm g bp Ng H1) as Pp.
  split; [exact Pq|]. split; [congruence|].
  apply (dsame_label_dgeq_cov g Hg Eg bp q Pp Pq). congruence.
Qed.

(* ---------------- completeness: every leaf with the minimal label is reported ---------------- *)
Definition dinv (g : graph) (S : list (list N)) (a : nacc) : Prop :=
  match fst a with
  | None => forall q, ~ In q S
  | Some (bl, _) => forall q, In q S -> strleb bl (dnlabel g q) = true /\ (dnlabel g q = bl -> In q (snd a))
  end.

Lemma dltb_false_leb x y : ltb strleb x y = false -> strleb y x = true.
Proof.
  unfold ltb. intros H. destruct (strleb_total x y) as [E|E]; auto. rewrite E in H. simpl in H.
  apply negb_false_iff in H. exact H.
Qed.

Lemma dvisit_inv g S a p : dinv g S a -> dinv g (p :: S) (visit strleb (dnlabel g) a p).
Proof.
  unfold dinv, visit. destruct (fst a) as [[bl bp]|] eqn:Ea; intros H.
  - destruct (ltb strleb (dnlabel g p) bl) eqn:E1; cbn [fst snd].
    + apply (ltb_spec strleb strleb_total strleb_antisym) in E1. destruct E1 as [E1 N1].
      intros q [<-|I].
      * split; [apply (leb_refl strleb strleb_total)|intros _; left; reflexivity].
      * destruct (H q I) as [H1 H2]. split; [eapply strleb_trans; eauto|].
        intros E. exfalso. apply N1. apply strleb_antisym; auto. rewrite <- E. exact H1.
    + pose proof (dltb_false_leb _ _ E1) as L1.
      destruct (eqb strleb (dnlabel g p) bl) eqn:E2; cbn [fst snd]; rewrite ?Ea.
      * apply (eqb_eq strleb strleb_total strleb_antisym) in E2.
        intros q [<-|I]; [split; auto; intros _; apply in_or_app; right; left; reflexivity|].
        destruct (H q I) as [H1 H2]. split; auto. intros E. apply in_or_app. left. auto.
      * intros q [<-|I]; [|apply H; auto]. split; auto. intros E. exfalso.
        rewrite (proj2 (eqb_eq strleb strleb_total strleb_antisym _ _) E) in E2. discriminate.
  - cbn [fst snd]. intros q [<-|I]; [|exfalso; apply (H q I)].
    split; [apply (leb_refl strleb strleb_total)|intros _; left; reflexivity].
Qed.

Lemma dinv_ext g S S' a : (forall q, In q S <-> In q S') -> dinv g S a -> dinv g S' a.
Proof.
  unfold dinv. intros HS. destruct (fst a) as [[bl bp]|]; intros H q I.
  - apply H. apply HS. exact I.
  - apply (H q). apply HS. exact I.
Qed.

Lemma dfold_inv g : forall l S a, dinv g S a -> dinv g (l ++ S) (fold_left (visit strleb (dnlabel g)) l a).
Proof.
  induction l as [|p l IH]; intros S a H; simpl; auto.
  eapply dinv_ext; [|apply (IH (p :: S)); apply dvisit_inv; exact H].
  intros q. simpl. rewrite !in_app_iff. simpl. tauto.
Qed.

(* an automorphism on the covered attributes carries the best permutation to a reported one *)
Theorem dnauty_auts_complete g sigma : dwf g -> (forall x y, sigma x = sigma y -> x = y) -> dgeq_cov (relabel sigma g) g ->
  In (map sigma (dnauty_perm g)) (snd (dnauty_acc g)).
Proof.
  intros Hg Hs Hq. pose proof (proj1 Hg) as Ng.
  set (L := leaves2 _ lexleb (dsigN g) (rfuel g) (children g) (sfuel g) (init_partition g) []).
  assert (Hinv : dinv g (L ++ []) (dnauty_acc g)).
  { unfold dnauty_acc. rewrite dnsearch_is_fold. apply dfold_inv. intros q []. }
  destruct (dnauty_perm_leaf g Ng) as [Lp Ep].
  assert (Lq : In (map sigma (dnauty_perm g)) L).
  { apply (Permutation_in _ (dleaves_rel sigma Hs g g Hg Hq)). apply in_map. exact Lp. }
  pose proof (dnlabel_rel sigma Hs g g Hg Hq (dnauty_perm g)) as El.
  unfold dinv in Hinv. unfold dnauty_perm, dnauty_label in *.
  destruct (fst (dnauty_acc g)) as [[bl bp]|] eqn:Ea.
  - cbn [option_map fst] in *. inversion Ep; subst bl.
    apply (Hinv (map sigma bp)); [rewrite app_nil_r; exact Lq|exact El].
  - exfalso. apply (Hinv (map sigma [])). rewrite app_nil_r. exact Lq.
Qed.

(* non-vacuity: the directed 4-cycle has its 4 rotations as reported permutations, the bidirected one all 8 symmetries *)
Definition dau_g : graph :=
  LG [(1%N, NA [67%N] false 0 0 None); (2%N, NA [67%N] false 0 0 None); (3%N, NA [67%N] false 0 0 None); (4%N, NA [67%N] false 0 0 None)]
     [(1%N, 2%N, EA 2 None); (2%N, 3%N, EA 2 None); (3%N, 4%N, EA 2 None); (4%N, 1%N, EA 2 None)].
Definition dau_b : graph :=
  LG (gnodes dau_g) (gedges dau_g ++ [(2%N, 1%N, EA 2 None); (3%N, 2%N, EA 2 None); (4%N, 3%N, EA 2 None); (1%N, 4%N, EA 2 None)]).
Example dau_ex : length (snd (dnauty_acc dau_g)) = 4 /\ length (snd (dnauty_acc dau_b)) = 8 /\ length (dnauty_orbits dau_g) = 1.
Proof. repeat split; vm_compute; reflexivity. Qed.

Print Assumptions dnauty_auts_sound.
Print Assumptions dnauty_auts_complete.
