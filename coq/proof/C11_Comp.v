(** C11 — connected components of the model ([components], nx.connected_components order) are the classes of the
    connectivity relation of lib/Reach.v, pairwise disjoint; hence the orbits reported for a disconnected graph
    partition the nodes too.  Stdlib lists. *)
From Coq Require Import List NArith ZArith Bool Arith Lia Permutation.
From SK Require Import lib.LGraph lib.Mono lib.Reach model.C11_Model proof.C11_Aut proof.C11_WL proof.C11_Dedup proof.C11_Main.
Import ListNotations.

Fixpoint pairwise_disjoint (l : list (list N)) : Prop :=
  match l with
  | [] => True
  | c :: r => (forall d, In d r -> forall x, In x c -> ~ In x d) /\ pairwise_disjoint r
  end.

Lemma pairwise_disjoint_eq l : pairwise_disjoint l ->
  forall c1 c2 x, In c1 l -> In c2 l -> In x c1 -> In x c2 -> c1 = c2.
Proof.
  induction l as [|c r IH]; simpl; [tauto|].
  intros [Hd Hr] c1 c2 x [<-|H1] [<-|H2] Hx1 Hx2; auto.
  - exfalso. exact (Hd c2 H2 x Hx1 Hx2).
  - exfalso. exact (Hd c1 H1 x Hx2 Hx1).
  - eapply IH; eauto.
Qed.

Section Comp.
Variable g : graph.
Hypothesis Hwf : wf g.

Notation nb := (nbrs g).

Lemma nbrs_sym u v : In v (nb u) -> In u (nb v).
Proof. rewrite !(nbrs_adj g Hwf). rewrite (adj_sym g v u). tauto. Qed.

Lemma conn_trans a b c : conn nb [a] b -> conn nb [b] c -> conn nb [a] c.
Proof.
  intros Hab Hbc. induction Hbc as [x Hx|u v Hu IH Hv].
  - destruct Hx as [<-|[]]. exact Hab.
  - eapply conn_step; eauto.
Qed.

Lemma conn_sym a b : conn nb [a] b -> conn nb [b] a.
Proof.
  induction 1 as [x Hx|u v Hu IH Hv].
  - destruct Hx as [<-|[]]. apply conn_seed. left. reflexivity.
  - apply (conn_trans v u a); [|exact IH].
    eapply conn_step; [apply conn_seed; left; reflexivity | apply nbrs_sym; exact Hv].
Qed.

Lemma comp_of_spec u : In u (node_ids g) -> forall x, In x (comp_of g u) <-> conn nb [u] x.
Proof.
  intros Hu x. unfold comp_of.
  destruct (saturate nb (S (length (gnodes g))) [u]) as [R|] eqn:E.
  - apply (saturate_spec (nbr := nb) (seeds := [u]) (S (length (gnodes g))) [u]); [| |exact E].
    + intros y Hy. apply conn_seed. exact Hy.
    + auto.
  - exfalso. revert E. apply (@saturate_fuel (node_ids g) nb (nbrs_nodes g Hwf)).
    + constructor; [intros [] | constructor].
    + intros y [<-|[]]. exact Hu.
    + unfold node_ids. rewrite map_length. simpl. lia.
Qed.

Definition closed (seen : list N) : Prop := forall x y, In x seen -> conn nb [x] y -> In y seen.

Lemma comps_go_spec todo : forall seen, closed seen -> incl todo (node_ids g) ->
  (forall c x, In c (comps_go g todo seen) -> In x c -> ~ In x seen) /\
  (forall c, In c (comps_go g todo seen) -> exists u, In u todo /\ c = comp_of g u) /\
  pairwise_disjoint (comps_go g todo seen).
Proof.
  induction todo as [|u r IH]; intros seen Hcl Hincl; simpl.
  - repeat split; try tauto.
  - assert (Hr : incl r (node_ids g)) by (intros y Hy; apply Hincl; right; exact Hy).
    assert (Hu : In u (node_ids g)) by (apply Hincl; left; reflexivity).
    destruct (LGraph.mem u seen) eqn:E.
    + destruct (IH seen Hcl Hr) as (H1 & H2 & H3). split; [exact H1|]. split; [|exact H3].
      intros c Hc. destruct (H2 c Hc) as (w & Hw & ->). exists w. split; [right; exact Hw | reflexivity].
    + assert (Hnotin : ~ In u seen) by (intros H; apply LGraph.mem_spec in H; congruence).
      assert (Hcl' : closed (comp_of g u ++ seen)).
      { intros x y Hx Hxy. apply in_or_app. apply in_app_or in Hx. destruct Hx as [Hx|Hx].
        - left. apply (comp_of_spec u Hu). apply (comp_of_spec u Hu) in Hx. eapply conn_trans; eauto.
        - right. eapply Hcl; eauto. }
      destruct (IH (comp_of g u ++ seen) Hcl' Hr) as (H1 & H2 & H3).
      split; [|split].
      * intros c x [<-|Hc] Hx Hs.
        -- apply (comp_of_spec u Hu) in Hx. apply Hnotin. apply (Hcl x u Hs). apply conn_sym. exact Hx.
        -- apply (H1 c x Hc Hx). apply in_or_app. right. exact Hs.
      * intros c [<-|Hc]; [exists u; split; [left; reflexivity | reflexivity]|].
        destruct (H2 c Hc) as (w & Hw & ->). exists w. split; [right; exact Hw | reflexivity].
      * simpl. split; [|exact H3].
        intros d Hd x Hx Hxd. apply (H1 d x Hd Hxd). apply in_or_app. left. exact Hx.
Qed.

Lemma components_spec :
  (forall c, In c (components g) -> exists u, In u (node_ids g) /\ forall x, In x c <-> conn nb [u] x) /\
  pairwise_disjoint (components g) /\
  (forall u, In u (node_ids g) -> exists c, In c (components g) /\ In u c).
Proof.
  destruct (comps_go_spec (node_ids g) [] (fun x y H => match H with end) (incl_refl _)) as (_ & H2 & H3).
  split; [|split; [exact H3 | apply components_cover]].
  intros c Hc. destruct (H2 c Hc) as (u & Hu & ->). exists u. split; [exact Hu | apply comp_of_spec; exact Hu].
Qed.

End Comp.

Lemma induced_nodes_in (g : graph) c u : In u (node_ids (induced_sub g c)) -> In u (node_ids g) /\ In u c.
Proof.
  unfold node_ids, induced_sub. simpl. rewrite in_map_iff. intros ([u' a] & E & Hin). simpl in E. subst u'.
  apply filter_In in Hin. destruct Hin as [Hin Hm]. simpl in Hm. apply LGraph.mem_spec in Hm.
  split; [|exact Hm]. apply in_map_iff. exists (u, a). auto.
Qed.

(** the reported orbits partition the nodes, connected or not; in the disconnected case "same orbit" is meant inside
    the component (component swaps excluded) *)
Lemma orbits_partition_all (fn : nlab -> N) (fe : elab -> N) (g : graph) : wf g ->
  let O := a_orbits (analyze fn fe g) in
  (forall u, In u (node_ids g) -> exists o, In o O /\ In u o) /\
  (forall o u, In o O -> In u o -> In u (node_ids g)) /\
  (forall o1 o2 u, In o1 O -> In o2 O -> In u o1 -> In u o2 -> o1 = o2) /\
  NoDup O /\
  ((1 < length (components g))%nat ->
     forall o u v, In o O -> In u o ->
       (In v o <-> exists c, In c (components g) /\ In u c /\ same_orbit fn fe (induced_sub g c) u v)).
Proof.
  intros Hwf O. pose proof (wf_simple g Hwf) as Hg.
  destruct (components_spec g Hwf) as (_ & Hdisj & _).
  assert (Hcomp : forall c, exact_orbits fn fe (induced_sub g c) (fst (analyze_component fn fe (induced_sub g c)))).
  { intros c. apply analyze_component_orbits. apply induced_simple. exact Hg. }
  split; [apply orbits_cover; exact Hg|].
  destruct (le_lt_dec (length (components g)) 1) as [Hc|Hc].
  - destruct (analyze_orbits_connected fn fe g Hg Hc) as (_ & H2 & H3 & H4 & _).
    split; [exact H2|]. split; [exact H3|]. split; [exact H4|]. intros Hc'. lia.
  - pose proof (analyze_orbits_disconnected fn fe g Hg Hc) as HO. fold O in HO.
    assert (Hin_c : forall o c u, In o (fst (analyze_component fn fe (induced_sub g c))) -> In u o -> In u (node_ids g) /\ In u c).
    { intros o c u Ho Hu. destruct (Hcomp c) as (_ & H2 & _). apply induced_nodes_in. eapply H2; eauto. }
    split; [|split; [|split]].
    + intros o u Ho Hu. apply HO in Ho. destruct Ho as (c & _ & Ho). apply (Hin_c o c u Ho Hu).
    + intros o1 o2 u Ho1 Ho2 Hu1 Hu2. apply HO in Ho1. apply HO in Ho2.
      destruct Ho1 as (c1 & Hc1 & Ho1). destruct Ho2 as (c2 & Hc2 & Ho2).
      assert (c1 = c2).
      { apply (pairwise_disjoint_eq _ Hdisj c1 c2 u Hc1 Hc2); [apply (Hin_c o1 c1 u Ho1 Hu1) | apply (Hin_c o2 c2 u Ho2 Hu2)]. }
      subst c2. destruct (Hcomp c1) as (_ & _ & H3 & _). eapply H3; eauto.
    + apply analyze_orbits_nodup. exact Hg.
    + intros _ o u v Ho Hu. apply HO in Ho. destruct Ho as (c & Hcin & Ho).
      destruct (Hcomp c) as (_ & _ & _ & _ & H5). split.
      * intros Hv. exists c. split; [exact Hcin|]. split; [apply (Hin_c o c u Ho Hu)|]. apply (H5 o u v Ho Hu). exact Hv.
      * intros (c' & Hc' & Huc' & Hrel).
        assert (c' = c) by (apply (pairwise_disjoint_eq _ Hdisj c' c u Hc' Hcin Huc'); apply (Hin_c o c u Ho Hu)).
        subst c'. apply (H5 o u v Ho Hu). exact Hrel.
Qed.

(** ---------- non-vacuity ---------- *)
(** the VF2 contract is satisfiable by a list other than the model's own: the same maps in the opposite order *)
Example ex_vf2 :
  let E := rev (auts n_exact e_order ex_path) in
  E <> auts n_exact e_order ex_path /\ NoDup E /\
  (forall m, In m E <-> exists s, is_automorphism n_exact e_order ex_path s /\ m = aut_pairs ex_path s) /\
  analyze_component_with (node_ids ex_path) E = ([[2]; [1; 3]]%N, 2%N).
Proof.
  pose proof (wf_simple _ ex_path_wf) as Hg.
  split; [vm_compute; discriminate|]. split; [apply NoDup_rev, auts_nodup; exact Hg|].
  split; [|vm_compute; reflexivity].
  intros m. rewrite <- in_rev. apply auts_listing. exact Hg.
Qed.

(** a disconnected graph: two components, the orbit of 1 is {1,2} through an automorphism of the component {1,2} *)
Example ex_partition :
  wf ex_disc /\ (1 < length (components ex_disc))%nat /\ components ex_disc = [[2; 1]; [5]]%N /\
  a_orbits (analyze n_exact e_order ex_disc) = [[1; 2]; [5]]%N /\
  same_orbit n_exact e_order (induced_sub ex_disc [2; 1]%N) 1 2.
Proof.
  split; [exact ex_disc_wf|]. split; [vm_compute; lia|]. split; [vm_compute; reflexivity|].
  split; [vm_compute; reflexivity|].
  exists [(2, 1); (1, 2)]%N. split; [vm_compute; tauto | right; left; reflexivity].
Qed.

(** the premises of the function-level pruning theorem hold for the example rule centre and its matches *)
Example ex_prune_aut :
  simple_graph ex_path /\
  (forall x p h, In x ex_raw -> In (p, h) ((fun m : mapping => m) x) -> In p (node_ids ex_path)) /\
  length (prune (fun m : mapping => m) ex_path ex_raw) = 2%nat.
Proof.
  split; [apply wf_simple, ex_path_wf|]. split; [|vm_compute; reflexivity].
  intros x p h Hx Hin. simpl in Hx.
  destruct Hx as [<-|[<-|[<-|[]]]]; simpl in Hin;
    repeat (destruct Hin as [Hin|Hin]; [inversion Hin; subst; simpl; tauto|]); destruct Hin.
Qed.

(** de-duplication with orbit information: something is dropped, the order is kept; an uncovered host node is the
    ValueError path ([None]); without orbit information the list is returned unchanged *)
Definition ex_two : list mapping := [[(1, 7); (2, 8)]; [(1, 8); (2, 7)]; [(1, 7); (2, 9)]]%N.
Example ex_dedup_anchor :
  dedup_anchor (fun m : mapping => m) ex_two (Some [[1; 2]]%N) [] None = Some [[(1, 7); (2, 8)]; [(1, 7); (2, 9)]]%N /\
  dedup_anchor (fun m : mapping => m) ex_two None [] (Some [[7; 8]]%N) = None /\
  dedup_anchor (fun m : mapping => m) ex_two None [] None = Some ex_two.
Proof. repeat split; vm_compute; reflexivity. Qed.

(** a result function satisfying both premises of C11_prune_same_results for every rule centre: the set of host
    nodes a match covers; on [ex_raw] the pruned-away match has the value of the kept one *)
Definition host_set (m : mapping) : list N := canonN (map snd m).
Example ex_same_results :
  (forall m m', (forall ph, In ph m <-> In ph m') -> host_set m = host_set m') /\
  (forall s m, host_set (act s m) = host_set m) /\
  map host_set ex_raw = [[7; 8; 9]; [7; 8; 9]; [6; 7; 8]]%N /\
  map host_set (prune (fun m : mapping => m) ex_path ex_raw) = [[7; 8; 9]; [6; 7; 8]]%N.
Proof.
  split; [|split; [|split; vm_compute; reflexivity]].
  - intros m m' H. unfold host_set. apply canonN_ext. intros y. rewrite !in_map_iff.
    split; intros (ph & E & Hin); exists ph; (split; [exact E | apply H; exact Hin]).
  - intros s m. unfold host_set, act. rewrite map_map. reflexivity.
Qed.
