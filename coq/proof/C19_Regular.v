(** C19 — check_regularity and the deficiency-zero / deficiency-one front ends of model/C19_Model.v.
    regular = every linkage class has exactly one terminal strongly connected component: a terminal complex exists in the
    class and any two terminal complexes of the class reach each other.  Style: stdlib lists. *)
From Coq Require Import List NArith ZArith Bool Arith Lia.
From SK Require Import lib.Reach model.C17_Model model.C19_Model proof.C19_Complexes proof.C19_Linkage.
Import ListNotations.
Local Open Scope nat_scope.

(** a complex is terminal when everything it reaches leads back to it (its strongly connected component has no way out) *)
Definition terminal (arcs : list (nat * nat)) (v : nat) : Prop := forall w, dpath arcs v w -> dpath arcs w v.

Lemma terminal_scc arcs v w : terminal arcs v -> dpath arcs v w -> terminal arcs w.
Proof.
  intros T P x Px. assert (dpath arcs v x) by (eapply dpath_trans; eauto).
  eapply dpath_trans; [apply T; assumption | exact P].
Qed.

Lemma find_ext_in' {A} (f g : A -> bool) l : (forall x, In x l -> f x = g x) -> find f l = find g l.
Proof.
  induction l as [|a l IH]; intros H; simpl; auto. rewrite (H a (or_introl eq_refl)).
  destruct (g a); auto. apply IH. intros x I. apply H. right. exact I.
Qed.

Lemma NoDup_all_equal_length {A} (l : list A) : NoDup l -> (forall x y, In x l -> In y l -> x = y) -> length l <= 1.
Proof.
  intros ND H. destruct l as [|a [|b l]]; simpl; auto. exfalso.
  inversion ND as [|? ? Hn _]; subst. apply Hn. rewrite (H a b); simpl; auto.
Qed.

Section Graph.
Variable arcs : list (nat * nat).
Variable k : nat.
Hypothesis OK : arcs_ok arcs k.

Lemma dpath_lt u w : u < k -> dpath arcs u w -> w < k.
Proof. intros Hu P. eapply upath_lt; eauto. apply dpath_upath. exact P. Qed.

Lemma scc_in v x : v < k -> (In x (scc arcs k (nn v)) <-> exists w, x = nn w /\ dpath arcs v w /\ dpath arcs w v).
Proof.
  intros Hv. unfold scc. rewrite filter_In, (closure_succs arcs k OK v Hv). split.
  - intros ((w & -> & P) & M). apply mem_spec in M. apply (closure_preds arcs k OK v Hv) in M.
    destruct M as (w' & E & P'). apply nn_inj in E. subst w'. eauto.
  - intros (w & -> & P & P'). split; [eauto|]. apply mem_spec. apply (closure_preds arcs k OK v Hv). eauto.
Qed.

Lemma scc_mem_ext v w : v < k -> dpath arcs v w -> dpath arcs w v ->
  forall x, mem x (scc arcs k (nn v)) = mem x (scc arcs k (nn w)).
Proof.
  intros Hv P P' x. assert (Hw : w < k) by (eapply dpath_lt; eauto).
  destruct (mem x (scc arcs k (nn v))) eqn:M1; destruct (mem x (scc arcs k (nn w))) eqn:M2; auto; exfalso.
  - apply mem_spec in M1. apply (scc_in v x Hv) in M1. destruct M1 as (y & -> & Q & Q').
    assert (In (nn y) (scc arcs k (nn w))) as I.
    { apply (scc_in w _ Hw). exists y. split; auto. split; eapply dpath_trans; eauto. }
    apply mem_spec in I. congruence.
  - apply mem_spec in M2. apply (scc_in w x Hw) in M2. destruct M2 as (y & -> & Q & Q').
    assert (In (nn y) (scc arcs k (nn v))) as I.
    { apply (scc_in v _ Hv). exists y. split; auto. split; eapply dpath_trans; eauto. }
    apply mem_spec in I. congruence.
Qed.

Lemma is_terminal_spec v : v < k -> (is_terminal arcs k (nn v) = true <-> terminal arcs v).
Proof.
  intros Hv. unfold is_terminal. rewrite subset_spec. split.
  - intros H w P. assert (I : In (nn w) (closure (succs arcs) k (nn v))) by (apply (closure_succs arcs k OK v Hv); eauto).
    apply H in I. apply (closure_preds arcs k OK v Hv) in I. destruct I as (w' & E & P'). apply nn_inj in E. subst. exact P'.
  - intros T x I. apply (closure_succs arcs k OK v Hv) in I. destruct I as (w & -> & P).
    apply (closure_preds arcs k OK v Hv). exists w. split; auto.
Qed.

(** the representative (first member in the class list) of the strongly connected component of v *)
Lemma rep_exists c v : (forall y, In y c -> exists i, i < k /\ y = nn i) -> In (nn v) c -> v < k ->
  exists x, x < k /\ In (nn x) c /\ dpath arcs v x /\ dpath arcs x v /\ is_rep arcs k c (nn x) = true.
Proof.
  intros MEM I Hv.
  destruct (find (fun y => mem y (scc arcs k (nn v))) c) as [y|] eqn:F.
  - destruct (find_some _ _ F) as (Iy & My). apply mem_spec in My. apply (scc_in v y Hv) in My.
    destruct My as (x & -> & P & P'). assert (Hx : x < k) by (eapply dpath_lt; eauto).
    exists x. split; auto. split; auto. split; auto. split; auto.
    unfold is_rep. rewrite <- (find_ext_in' (fun y => mem y (scc arcs k (nn v)))) by (intros; apply scc_mem_ext; auto).
    rewrite F. apply N.eqb_refl.
  - exfalso. pose proof (find_none _ _ F _ I) as N0. simpl in N0.
    assert (In (nn v) (scc arcs k (nn v))) as X by (apply (scc_in v _ Hv); exists v; repeat split; constructor).
    apply mem_spec in X. congruence.
Qed.

Lemma rep_unique c x y : x < k -> dpath arcs x y -> dpath arcs y x ->
  is_rep arcs k c (nn x) = true -> is_rep arcs k c (nn y) = true -> x = y.
Proof.
  intros Hx P P' Rx Ry. unfold is_rep in *.
  rewrite <- (find_ext_in' (fun z => mem z (scc arcs k (nn x)))) in Ry by (intros; apply scc_mem_ext; auto).
  destruct (find (fun z => mem z (scc arcs k (nn x))) c) as [z|]; [|discriminate].
  apply N.eqb_eq in Rx, Ry. apply nn_inj. congruence.
Qed.

Theorem terminal_count_spec c : In c (linkage_classes arcs k) ->
  (terminal_count arcs k c = 1 <->
   (exists v, In (nn v) c /\ terminal arcs v) /\
   (forall v w, In (nn v) c -> In (nn w) c -> terminal arcs v -> terminal arcs w -> dpath arcs v w)).
Proof.
  intros Ic. pose proof (class_members arcs k OK c Ic) as MEM.
  destruct (linkage_spec arcs k OK) as (_ & _ & Q3 & _). destruct (Q3 c Ic) as (NDc & _).
  unfold terminal_count.
  remember (filter (fun v => is_rep arcs k c v && is_terminal arcs k v) c) as T eqn:HT.
  assert (Tspec : forall x, In (nn x) T <-> In (nn x) c /\ is_rep arcs k c (nn x) = true /\ is_terminal arcs k (nn x) = true).
  { intros x. rewrite HT, filter_In, andb_true_iff. tauto. }
  assert (Tnn : forall y, In y T -> exists x, x < k /\ y = nn x).
  { intros y I. apply MEM. rewrite HT in I. apply filter_In in I. tauto. }
  assert (lift : forall v, In (nn v) c -> terminal arcs v -> exists x, In (nn x) T /\ dpath arcs v x /\ dpath arcs x v).
  { intros v I Tv. destruct (MEM _ I) as (v' & Hv & E). apply nn_inj in E. subst v'.
    destruct (rep_exists c v MEM I Hv) as (x & Hx & Ix & P & P' & R). exists x. split; auto.
    apply Tspec. split; auto. split; auto. apply is_terminal_spec; auto. eapply terminal_scc; eauto. }
  split.
  - intros L1. assert (NDT : True) by exact I. clear HT. destruct T as [|t [|t' T']]; simpl in L1; try discriminate.
    assert (only : forall x, In (nn x) [t] -> nn x = t) by (intros x [<-|[]]; reflexivity).
    destruct (Tnn t) as (t0 & Ht0 & ->); [left; reflexivity|].
    split.
    + exists t0. assert (I : In (nn t0) [nn t0]) by (left; reflexivity). apply Tspec in I.
      destruct I as (I & _ & Tm). split; auto. apply is_terminal_spec; auto.
    + intros v w Iv Iw Tv Tw.
      destruct (lift v Iv Tv) as (x & Ix & P & P'). destruct (lift w Iw Tw) as (y & Iy & Q & Q').
      apply only in Ix. apply only in Iy. apply nn_inj in Ix, Iy. subst x y.
      eapply dpath_trans; eauto.
  - intros ((v & Iv & Tv) & U). destruct (lift v Iv Tv) as (x & Ix & _ & _).
    assert (Le : length T <= 1).
    { apply NoDup_all_equal_length; [rewrite HT; apply NoDup_filter; exact NDc|].
      intros a b Ia Ib. destruct (Tnn a Ia) as (a0 & Ha & ->). destruct (Tnn b Ib) as (b0 & Hb & ->).
      apply Tspec in Ia, Ib. destruct Ia as (Ia & Ra & Ta). destruct Ib as (Ib & Rb & Tb).
      apply is_terminal_spec in Ta, Tb; auto. f_equal.
      apply (rep_unique c a0 b0 Ha); auto. }
    destruct T as [|t T']; [destruct Ix|]. simpl in *. lia.
Qed.

Theorem regular_spec :
  regular arcs k = true <->
  forall c, In c (linkage_classes arcs k) ->
    (exists v, In (nn v) c /\ terminal arcs v) /\
    (forall v w, In (nn v) c -> In (nn w) c -> terminal arcs v -> terminal arcs w -> dpath arcs v w).
Proof.
  unfold regular. rewrite forallb_forall. split.
  - intros H c Ic. apply terminal_count_spec; auto. apply Nat.eqb_eq. apply H. exact Ic.
  - intros H c Ic. apply Nat.eqb_eq. apply terminal_count_spec; auto.
Qed.
End Graph.

(* ------------------------------------------------------------------ the model's network and the front ends *)

Theorem net_regular net iso :
  let arcs := snd (complex_graph net iso) in
  let k := length (fst (complex_graph net iso)) in
  regular arcs k = true <->
  forall c, In c (linkage_classes arcs k) ->
    (exists v, In (nn v) c /\ terminal arcs v) /\
    (forall v w, In (nn v) c -> In (nn w) c -> terminal arcs v -> terminal arcs w -> dpath arcs v w).
Proof. intros arcs k. apply regular_spec. apply complex_graph_arcs_ok. Qed.

Theorem net_deficiency_zero net iso r :
  let arcs := snd (complex_graph net iso) in
  let s := compute_summary net iso r in
  check_deficiency_zero s = true <-> deficiency s = 0%Z /\ forall u v, In (u, v) arcs -> dpath arcs v u.
Proof.
  intros arcs s. unfold check_deficiency_zero. rewrite andb_true_iff, Z.eqb_eq.
  destruct (net_weak_rev net iso r) as (_ & W). fold arcs s in W. rewrite W. reflexivity.
Qed.

Lemma forallb_leb ld : forallb (fun d => Z.leb d 1) ld = true <-> Forall (fun d => (d <= 1)%Z) ld.
Proof. rewrite forallb_forall, Forall_forall. split; intros H d I; apply Z.leb_le, H, I. Qed.

Theorem deficiency_one_spec (s : summary) (ld : list Z) :
  check_deficiency_one s ld = true <->
  deficiency s = 1%Z /\ length ld = n_linkage s /\ Forall (fun d => (d <= 1)%Z) ld /\ zsum ld = 1%Z.
Proof.
  unfold check_deficiency_one. rewrite !andb_true_iff, !Z.eqb_eq, Nat.eqb_eq, forallb_leb. tauto.
Qed.

Theorem deficiency_one_hypotheses_spec (s : summary) (ld : list Z) (reg : bool) :
  deficiency_one_hypotheses s ld reg = true <->
  deficiency s = 1%Z /\ zsum ld = 1%Z /\ ld <> [] /\ Forall (fun d => (d <= 1)%Z) ld /\ reg = true.
Proof.
  unfold deficiency_one_hypotheses. rewrite !andb_true_iff, !Z.eqb_eq, forallb_leb, negb_true_iff, Nat.eqb_neq.
  assert (length ld <> 0 <-> ld <> []) as E by (destruct ld; simpl; split; intros H; congruence).
  rewrite E. tauto.
Qed.

(* non-vacuity: A+B<->C, C->2A is regular (one terminal component {2A}); a fork 0->1, 0->2 is not (two terminal complexes);
   the reversible pair alone passes the deficiency-zero front end *)
Example ex_regular :
  regular ex_arcs 3 = true /\ regular [(0, 1); (0, 2)] 3 = false /\ terminal ex_arcs 2 /\ ~ terminal ex_arcs 0 /\
  check_deficiency_zero (compute_summary ex_rev [] 1) = true /\
  check_deficiency_one (Summary 1 2 3 1 1 1 false) [1%Z] = true.
Proof.
  split; [vm_compute; reflexivity|]. split; [vm_compute; reflexivity|].
  assert (G : forall a b, dpath ex_arcs a b -> a = 2 -> b = 2).
  { induction 1 as [|a v w P' IH I]; auto. intros E. specialize (IH E). subst v.
    change (In (2, w) [(0,1);(1,0);(1,2)]) in I. simpl in I. intuition congruence. }
  split; [intros w P; rewrite (G 2 w P eq_refl); constructor|].
  split.
  - intros T. assert (P : dpath ex_arcs 0 2).
    { apply (dp_step ex_arcs 0 1 2); [apply (dp_step ex_arcs 0 0 1); [constructor|]|]; vm_compute; auto. }
    specialize (G 2 0 (T 2 P) eq_refl). discriminate.
  - split; vm_compute; reflexivity.
Qed.

(* ------------------------------------------------------------------ two answers of the analyzer that cannot disagree *)

(** weak reversibility implies the coarse regularity: in a strongly connected class every complex is terminal and any two
    complexes reach each other, so the class has exactly one terminal strongly connected component.  (CRNT: a weakly reversible
    network is regular.)  The converse fails: A -> B is regular and not weakly reversible. *)
Theorem weak_rev_regular arcs k : arcs_ok arcs k -> weakly_reversible arcs k = true -> regular arcs k = true.
Proof.
  intros OK W. pose proof (proj1 (weak_rev_arcs arcs k OK) W) as R. pose proof (proj1 (weak_rev_spec arcs k OK) W) as S.
  apply (regular_spec arcs k OK). intros c Ic. split.
  - destruct (linkage_spec arcs k OK) as (_ & _ & Q3 & _). destruct (Q3 c Ic) as [_ NE].
    destruct c as [|y c']; [congruence|]. destruct (class_members arcs k OK (y :: c') Ic y (or_introl eq_refl)) as (i & _ & ->).
    exists i. split; [left; reflexivity|]. intros w P. apply (return_paths_upath arcs R). apply upath_sym, dpath_upath. exact P.
  - intros v w Iv Iw _ _. apply (S c Ic v w Iv Iw).
Qed.

Theorem net_weak_rev_regular net iso r :
  let arcs := snd (complex_graph net iso) in
  let k := length (fst (complex_graph net iso)) in
  (weakly_rev (compute_summary net iso r) = true -> regular arcs k = true) /\
  (check_deficiency_zero (compute_summary net iso r) = true -> regular arcs k = true).
Proof.
  intros arcs k. pose proof (complex_graph_arcs_ok net iso) as OK. fold arcs k in OK.
  assert (A : weakly_rev (compute_summary net iso r) = true -> regular arcs k = true).
  { rewrite compute_summary_eq. simpl. fold arcs k. apply weak_rev_regular. exact OK. }
  split; [exact A|]. unfold check_deficiency_zero. rewrite andb_true_iff. intros [_ W]. apply A. exact W.
Qed.

Example ex_regular_not_weak_rev : regular [(0, 1)] 2 = true /\ weakly_reversible [(0, 1)] 2 = false /\
  regular [(0, 1); (1, 0)] 2 = true /\ weakly_reversible [(0, 1); (1, 0)] 2 = true.
Proof. repeat split; vm_compute; reflexivity. Qed.
