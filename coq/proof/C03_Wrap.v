(** C03 — SynReactor._wrap_template for a template handed over as a SynRule object (after /repo cc40c07): forward the
    rule is used as it is; backward the prepared rule graph is inverted and NOT prepared again, so the rule that is
    glued is exactly the prepared rule with its two sides swapped.  Stdlib lists only. *)
From Coq Require Import List NArith ZArith Bool Lia.
From SK Require Import lib.Tok lib.LGraph model.C03_Model proof.C03_Proof proof.C03_Glue proof.C03_Backward.
Import ListNotations.
Local Open Scope Z_scope.

Theorem wrap_rule_spec (implicit_temp : bool) (rc : its) (l r : molg) :
  wrap_template_rule false implicit_temp (rc, l, r) = Some (rc, l, r) /\
  (nodupb (node_ids rc) = true ->
   wrap_template_rule true implicit_temp (rc, l, r)
   = Some (invert_template rc, snd (its_decompose rc), fst (its_decompose rc))).
Proof.
  split; [reflexivity|]. intros Hnd. unfold wrap_template_rule. cbn [fst].
  rewrite (synrule_implicit (invert_template rc)) by (rewrite invert_ids; exact Hnd).
  rewrite invert_decompose. reflexivity.
Qed.

Example ex_wrap_rule :
  let rc := LG [(1%N, IN (NA 67%N false 1 0 []) (NA 67%N false 0 0 []) 0 (Some [1%N])); (2%N, IN (NA 79%N false 0 0 []) (NA 79%N false 1 0 []) 0 (Some [1%N]))]
               [(1%N, 2%N, (2, 4, -2))] in
  nodupb (node_ids rc) = true /\
  option_map (fun t => gedges (fst (fst t))) (wrap_template_rule true false (rc, fst (its_decompose rc), snd (its_decompose rc))) = Some [(1%N, 2%N, (4, 2, 2))].
Proof. vm_compute. split; reflexivity. Qed.
