(** C01 — no hydrogen is lost or created by its_to_rsmi . rsmi_to_its: the hydrogen balance carried through the string
    round trip (theorems 27 / 32 + 44) *)
From Coq Require Import List NArith ZArith Bool Lia Arith Permutation String.
From SK Require Import lib.LGraph lib.C01_GraphLemmas model.C01_Model model.C02_Model model.C01_String model.C01_Rsmi model.C01_HBal
  proof.C01_Proof proof.C01_StringProof proof.C01_StringHyd proof.C01_StringPipe proof.C01_StringPipeH proof.C01_RsmiProof proof.C01_HBalProof.
Import ListNotations.
Local Open Scope Z_scope.

Lemma sumZ_perm {X} (f : X -> Z) l1 l2 : Permutation l1 l2 -> sumZ f l1 = sumZ f l2.
Proof. induction 1; rewrite ?sumZ_cons; try lia; try reflexivity. Qed.

(** the hydrogen total depends only on the labels the property talks about *)
Lemma h_total_geq_sel (g g' : mgraph) : wf g -> wf g' -> geq_sel g' g -> h_total g' = h_total g.
Proof.
  intros W W' [L _]. unfold h_total.
  rewrite (sumZ_perm (h_weight g') (node_ids g') (node_ids g)).
  - apply sumZ_ext_in. intros n _. unfold h_weight. specialize (L n).
    destruct (label g' n) as [a|], (label g n) as [b|]; cbn in L; try discriminate; [|reflexivity].
    inversion L as [[E1 E2 E3 E4]]. unfold is_H. rewrite E1, E3. reflexivity.
  - apply NoDup_Permutation; [apply W'|apply W|]. intros n. split; intros I; apply node_label_some in I; destruct I as (a & La); specialize (L n); rewrite La in L.
    + destruct (label g n) as [b|] eqn:Lb; [eapply label_some_node; eauto|discriminate].
    + destruct (label g' n) as [b|] eqn:Lb; [eapply label_some_node; eauto|discriminate].
Qed.

Section Str.
Variable rd_read : bool -> string -> option rmol.
Variable rd_write : bool -> wmol -> option string.
Variable ok : mgraph -> Prop.

(** C01_string_hydrogen_balance: under the premises of theorem 32, each side of its_to_rsmi(rsmi_to_its(s)) reads back as a
    graph with the hydrogen total of the corresponding input side *)
Theorem string_hydrogen_balance :
  (forall w s, rd_write true w = Some s -> has_gt s = false) ->
  R2 string (rd_read true) (rd_write true) ok ->
  forall s r p mr mp, rsmi_parts s = Some (r, p) -> rd_read true r = Some mr -> rd_read true p = Some mp -> rmol_ok mr -> rmol_ok mp ->
  let G := graph_of mr in let H := graph_of mp in
  wf G -> wf H -> same_nodes G H -> orders_pos G -> orders_pos H -> one_parent G -> one_parent H ->
  forall J s', rsmi_to_its_str rd_read default_ropts s = Ok J -> its_to_rsmi_str rd_write true false false J = Ok s' ->
  exists r' p' mr' mp', rsmi_parts s' = Some (r', p') /\ rd_read true r' = Some mr' /\ rd_read true p' = Some mp' /\
    h_total (graph_of mr') = h_total G /\ h_total (graph_of mp') = h_total H.
Proof.
  intros W0 HR s r p mr mp Ps Rr Rp Okr Okp G H WG WH S PG PH OG OH J s' E1 E2.
  destruct (rsmi_string_roundtrip rd_read rd_write ok W0 HR s r p mr mp Ps Rr Rp Okr Okp WG WH S PG PH J s' E1 E2)
    as (EJ & r' & p' & Ps' & mr' & mp' & Rr' & Rp' & Okr' & Okp' & Gr & Gp).
  exists r', p', mr', mp'. split; [exact Ps'|]. split; [exact Rr'|]. split; [exact Rp'|].
  assert (forall (X : mgraph) hl, wf X -> one_parent X -> wf (smi_graph X hl) /\ h_total (smi_graph X hl) = h_total X) as K.
  { intros X hl WX OX. destruct hl as [|z l]; [split; [exact WX|reflexivity]|]. cbn [smi_graph].
    split; [apply ih_wf; exact WX|apply hydrogen_balance; assumption]. }
  assert (forall m, rmol_ok m -> (forall u v o, In (u, v, o) (mapped_bonds m) -> u <> v) -> wf (graph_of m)) as GW by (intros; apply graph_of_wf; assumption).
  destruct (K G (hlist J) WG OG) as [W1 T1]. destruct (K H (hlist J) WH OH) as [W2 T2].
  assert (forall m X, rmol_ok m -> wf X -> geq_sel (graph_of m) X -> wf (graph_of m)) as GW2.
  { intros m X Om WX [GL GA]. apply graph_of_wf; [exact Om|]. intros u v o I Euv. subst v.
    assert (adj (graph_of m) u u = Some o) as A.
    { unfold adj, graph_of. cbn [gedges]. apply (find_edge_iff (simple_consistent (proj2 Om))). left. exact I. }
    rewrite GA in A. apply (wf_adj_iff WX) in A. destruct A as [A|A]; apply (wf_edge_nodes WX) in A; destruct A as (_ & _ & A); congruence. }
  split.
  - rewrite <- T1. apply h_total_geq_sel; [exact W1|apply (GW2 mr' _ Okr' W1 Gr)|exact Gr].
  - rewrite <- T2. apply h_total_geq_sel; [exact W2|apply (GW2 mp' _ Okp' W2 Gp)|exact Gp].
Qed.
End Str.

Lemma one_parent_check (g : mgraph) :
  forallb (fun n => negb (is_Hn g n) || (List.length (filter (fun m => negb (is_Hn g m)) (nbrs g n)) <=? 1)%nat) (node_ids g) = true ->
  one_parent g.
Proof.
  intros F h Hh. rewrite forallb_forall in F.
  assert (In h (node_ids g)) as Ih.
  { unfold is_Hn in Hh. destruct (label g h) as [a|] eqn:L; [eapply label_some_node; eauto|discriminate]. }
  specialize (F h Ih). rewrite Hh in F. cbn in F. apply Nat.leb_le in F. exact F.
Qed.

(** non-vacuity: the extra hypotheses hold for the reactions of the earlier examples (with and without explicit hydrogens) *)
Example C01_string_hydrogen_balance_nonvacuous :
  one_parent (graph_of ex_mr) /\ one_parent (graph_of ex_mp) /\ h_total (graph_of ex_mr) = 4 /\ h_total (graph_of ex_mp) = 4 /\
  one_parent (graph_of C01_RenumWrite.ex_hr) /\ one_parent (graph_of C01_RenumWrite.ex_hp) /\
  h_total (graph_of C01_RenumWrite.ex_hr) = 6 /\ h_total (graph_of C01_RenumWrite.ex_hp) = 6 /\
  h_total (smi_graph (graph_of C01_RenumWrite.ex_hp) [3; 4]) = 6.
Proof. repeat split; try reflexivity; apply one_parent_check; reflexivity. Qed.
