(** C01 — vocabulary of the theorems about the clause "the string round trip returns a reaction with the SAME UNMAPPED reactants
    and products" (proof/C01_Unmapped.v, props/C01.v theorems 61-63).  Definitions only.
    "Unmapped" = the molecule graph with the atom-map label dropped ([geq_sel] already ignores atom_map and 'neighbors') and,
    as RDKit's RemoveHs does before the unmapped SMILES is written, every hydrogen that hangs on another atom made implicit. *)
From Coq Require Import List NArith ZArith Bool.
From SK Require Import lib.Tok lib.LGraph model.C01_Model model.C01_String.
Import ListNotations.
Local Open Scope Z_scope.

(** every hydrogen atom with a non-hydrogen neighbour folded into that neighbour's hydrogen count (implicit_hydrogen with an
    empty preserve set); hydrogens without such a neighbour (H2, H+, lone H) stay atoms, as under RemoveHs *)
Definition fold_all (g : mgraph) : mgraph := implicit_hydrogen g [].

(** same unmapped molecule: same atoms with equal element, aromaticity, hydrogen count, charge, and equal bonds *)
Definition unmapped_eq (g g' : mgraph) : Prop := geq_sel (fold_all g) (fold_all g').

(** fragments: u and v lie in the same connected component *)
Inductive conn (g : mgraph) : N -> N -> Prop :=
| conn_refl n : In n (node_ids g) -> conn g n n
| conn_step u v w : conn g u v -> adj g v w <> None -> conn g u w.

(** executable test of [geq_sel] on well-formed graphs (sound: proof/C01_Unmapped.v) *)
Definition lab4_eqb (x y : option (N * bool * Z * Z)) : bool :=
  match x, y with
  | None, None => true
  | Some (e, a, h, c), Some (e', a', h', c') => N.eqb e e' && Bool.eqb a a' && Z.eqb h h' && Z.eqb c c'
  | _, _ => false
  end.
Definition optZ_eqb (x y : option Z) : bool :=
  match x, y with None, None => true | Some a, Some b => Z.eqb a b | _, _ => false end.
Definition geq_selb (g g' : mgraph) : bool :=
  let ids := node_ids g ++ node_ids g' in
  forallb (fun n => lab4_eqb (option_map sel4 (label g n)) (option_map sel4 (label g' n))) ids &&
  forallb (fun u => forallb (fun v => optZ_eqb (adj g u v) (adj g' u v)) ids) ids.
Definition unmapped_eqb (m m' : rmol) : bool := geq_selb (fold_all (graph_of m)) (fold_all (graph_of m')).
Definition run_unm (mr mr' mp mp' : rmol) : tok := L [tbool (unmapped_eqb mr' mr); tbool (unmapped_eqb mp' mp)].
