(** C11 (round 5) — the pruning step never changes the set of labelled images of the rule centre in the host
    (model/C11_Image.v).  Any result that is a function of the labelled image - gluing is one: the ITS graph is the host
    with the rule's atom types and bond changes written onto the image (C05) - therefore takes the same values with and
    without pruning; the abstract premise of C11_prune_same_results (invariance under rule automorphisms) is discharged
    for every such function.  Stdlib lists. *)
From Coq Require Import List NArith ZArith Bool Arith Lia.
From SK Require Import lib.Tok lib.LGraph lib.Mono model.C11_Model model.C11_Image
     proof.C11_Aut proof.C11_Dedup proof.C11_Main.
Import ListNotations.

Section Img.
Variable rc : graph.
Variable s : N -> N.
Hypothesis Hs : is_automorphism n_full e_full rc s.
Variables m m' : mapping.
Hypothesis Hdom : forall p h, In (p, h) m' -> In p (node_ids rc).
Hypothesis Hrel : forall p h, In (p, h) m <-> exists p', In (p', h) m' /\ p = s p'.

Lemma image_nodes_same x : In x (image_nodes rc m) <-> In x (image_nodes rc m').
Proof.
  destruct Hs as (_ & _ & S3 & _). unfold image_nodes. rewrite !in_map_iff. split.
  - intros ([p h] & <- & Hin). simpl. apply Hrel in Hin. destruct Hin as (p' & Hin & ->).
    exists (p', h). simpl. split; [|exact Hin]. rewrite (S3 p' (Hdom p' h Hin)). reflexivity.
  - intros ([p' h] & <- & Hin). simpl. exists (s p', h). simpl. split; [|apply Hrel; exists p'; auto].
    rewrite (S3 p' (Hdom p' h Hin)). reflexivity.
Qed.

Lemma image_edges_same x : In x (image_edges rc m) <-> In x (image_edges rc m').
Proof.
  destruct Hs as (_ & _ & _ & S4). unfold image_edges. rewrite !in_flat_map. split.
  - intros ([p h1] & H1 & Hx). apply in_flat_map in Hx. destruct Hx as ([q h2] & H2 & Hx). simpl in Hx.
    apply Hrel in H1. apply Hrel in H2. destruct H1 as (p' & H1 & ->). destruct H2 as (q' & H2 & ->).
    rewrite (S4 p' q' (Hdom p' h1 H1) (Hdom q' h2 H2)) in Hx.
    exists (p', h1). split; [exact H1|]. apply in_flat_map. exists (q', h2). split; [exact H2 | exact Hx].
  - intros ([p' h1] & H1 & Hx). apply in_flat_map in Hx. destruct Hx as ([q' h2] & H2 & Hx). simpl in Hx.
    exists (s p', h1). split; [apply Hrel; exists p'; auto|]. apply in_flat_map. exists (s q', h2).
    split; [apply Hrel; exists q'; auto|]. simpl. rewrite (S4 p' q' (Hdom p' h1 H1) (Hdom q' h2 H2)). exact Hx.
Qed.
End Img.

Lemma in_nodes_spec x l : in_nodes x l = true <-> In x l.
Proof.
  unfold in_nodes. rewrite existsb_exists. split.
  - intros (y & Hy & E). apply andb_true_iff in E. destruct E as [E1 E2]. apply N.eqb_eq in E1. apply oeqb_eq in E2.
    destruct x, y. simpl in *. subst. exact Hy.
  - intros H. exists x. split; [exact H|]. rewrite N.eqb_refl, oeqb_refl. reflexivity.
Qed.

Lemma in_edges_spec x l : in_edges x l = true <-> In x l.
Proof.
  unfold in_edges. rewrite existsb_exists. split.
  - intros (y & Hy & E). apply andb_true_iff in E. destruct E as [E E3]. apply andb_true_iff in E. destruct E as [E1 E2].
    apply N.eqb_eq in E1. apply N.eqb_eq in E2. apply N.eqb_eq in E3. destruct x as [[a b] c], y as [[a' b'] c']. simpl in *. subst. exact Hy.
  - intros H. exists x. split; [exact H|]. rewrite !N.eqb_refl. reflexivity.
Qed.

Lemma same_image_spec rc m m' :
  same_image rc m m' = true <->
  (forall x, In x (image_nodes rc m) <-> In x (image_nodes rc m')) /\
  (forall x, In x (image_edges rc m) <-> In x (image_edges rc m')).
Proof.
  unfold same_image, same_img, img. cbn [fst snd]. rewrite !andb_true_iff, !forallb_forall. split.
  - intros (((H1 & H2) & H3) & H4). split; intros x; split; intros Hx.
    + apply in_nodes_spec. exact (H1 x Hx).
    + apply in_nodes_spec. exact (H2 x Hx).
    + apply in_edges_spec. exact (H3 x Hx).
    + apply in_edges_spec. exact (H4 x Hx).
  - intros (Hn & He). repeat split; intros x Hx.
    + apply in_nodes_spec. apply Hn. exact Hx.
    + apply in_nodes_spec. apply Hn. exact Hx.
    + apply in_edges_spec. apply He. exact Hx.
    + apply in_edges_spec. apply He. exact Hx.
Qed.

Theorem prune_same_images (X : Type) (key : X -> mapping) (rc : graph) (raw : list X) :
  simple_graph rc ->
  (forall x p h, In x raw -> In (p, h) (key x) -> In p (node_ids rc)) ->
  (forall x, In x raw -> exists y, In y (prune key rc raw) /\ same_image rc (key x) (key y) = true) /\
  (forall y, In y (prune key rc raw) -> In y raw) /\
  (forall (R : Type) (res : mapping -> R),
     (forall m m', same_image rc m m' = true -> res m = res m') ->
     forall r, In r (map (fun x => res (key x)) raw) <-> In r (map (fun x => res (key x)) (prune key rc raw))).
Proof.
  intros Hg Hdom.
  assert (Hsub : forall y, In y (prune key rc raw) -> In y raw).
  { intros y Hy. exact (subseq_in _ _ _ (prune_subseq X key rc raw) Hy). }
  assert (H1 : forall x, In x raw -> exists y, In y (prune key rc raw) /\ same_image rc (key x) (key y) = true).
  { intros x Hx. destruct (prune_complete_fun X key rc raw Hg Hdom x Hx) as (y & Hy & s & Hs & Hrel).
    exists y. split; [exact Hy|]. apply same_image_spec. split; intros z.
    - apply (image_nodes_same rc s Hs (key x) (key y)); [|exact Hrel]. intros p h Hin. exact (Hdom y p h (Hsub y Hy) Hin).
    - apply (image_edges_same rc s Hs (key x) (key y)); [|exact Hrel]. intros p h Hin. exact (Hdom y p h (Hsub y Hy) Hin). }
  split; [exact H1|]. split; [exact Hsub|].
  intros R res Hres r. rewrite !in_map_iff. split.
  - intros (x & <- & Hx). destruct (H1 x Hx) as (y & Hy & E). exists y. split; [symmetry; apply Hres; exact E | exact Hy].
  - intros (y & <- & Hy). exists y. split; [reflexivity | exact (Hsub y Hy)].
Qed.

Lemma images_ok_true (rc : graph) (raw : list mapping) :
  simple_graph rc -> dom_ok rc raw = true -> images_ok rc raw = true.
Proof.
  intros Hg Hd. unfold images_ok. apply forallb_forall. intros x Hx. cbv zeta. apply existsb_exists.
  assert (Hdom : forall x p h, In x raw -> In (p, h) ((fun m : mapping => m) x) -> In p (node_ids rc)).
  { intros x0 p h Hx0 Hin. unfold dom_ok in Hd. rewrite forallb_forall in Hd. specialize (Hd x0 Hx0).
    rewrite forallb_forall in Hd. specialize (Hd (p, h) Hin). apply LGraph.mem_spec in Hd. exact Hd. }
  destruct (proj1 (prune_same_images mapping (fun m => m) rc raw Hg Hdom) x Hx) as (y & Hy & E).
  exists (img rc y). split; [apply in_map; exact Hy | exact E].
Qed.

(** non-vacuity: the example of C11_Main (path 1-2-3, three matches): the dropped mirror match has the image of the first *)
Example ex_images :
  images_ok ex_path ex_raw = true /\
  same_image ex_path [(1, 7); (2, 8); (3, 9)]%N [(1, 9); (2, 8); (3, 7)]%N = true /\
  same_image ex_path [(1, 7); (2, 8); (3, 9)]%N [(1, 7); (2, 8); (3, 6)]%N = false.
Proof. vm_compute. repeat split. Qed.

Lemma prune_same_images_all (X : Type) (key : X -> mapping) (rc : graph) (raw : list X) :
  simple_graph rc ->
  (forall x p h, In x raw -> In (p, h) (key x) -> In p (node_ids rc)) ->
  (forall x, In x raw -> exists y, In y (prune key rc raw) /\ same_image rc (key x) (key y) = true) /\
  (forall y, In y (prune key rc raw) -> In y raw) /\
  (forall (R : Type) (res : mapping -> R),
     (forall m m', same_image rc m m' = true -> res m = res m') ->
     forall r, In r (map (fun x => res (key x)) raw) <-> In r (map (fun x => res (key x)) (prune key rc raw))) /\
  (forall m m', same_image rc m m' = true <->
     (forall x, In x (image_nodes rc m) <-> In x (image_nodes rc m')) /\
     (forall x, In x (image_edges rc m) <-> In x (image_edges rc m'))) /\
  (forall raw' : list mapping, dom_ok rc raw' = true -> images_ok rc raw' = true).
Proof.
  intros Hg Hdom. destruct (prune_same_images X key rc raw Hg Hdom) as (H1 & H2 & H3).
  split; [exact H1|]. split; [exact H2|]. split; [exact H3|]. split; [intros m m'; apply same_image_spec|].
  intros raw' Hd. exact (images_ok_true rc raw' Hg Hd).
Qed.
