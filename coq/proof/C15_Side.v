(** C15 (round 5) — the mapping API of RXNSide (model/C15_Side.v): what every mutator does to the coefficient function
    [coef sd x] (0 = absent), that nothing else in the pool changes, and what the read-only methods answer. *)
From stdpp Require Import gmap strings sets pretty.
From SK Require Import lib.Tok model.C15_Model model.C15_Ext proof.C15_Proof proof.C15_Ext model.C15_Side.
Local Open Scope string_scope.
Local Open Scope Z_scope.

Lemma coef_pos sd x : 0 ≤ coef sd x.
Proof. unfold coef. destruct (sd !! x); lia. Qed.
Lemma coef_delete sd x y : coef (delete x sd) y = if decide (y = x) then 0 else coef sd y.
Proof. unfold coef. destruct (decide (y = x)) as [->|?]; [by rewrite (lookup_delete sd x)|by rewrite (lookup_delete_ne sd x y)]. Qed.
Lemma coef_insert sd x p y : coef (<[ x := p ]> sd) y = if decide (y = x) then Z.pos p else coef sd y.
Proof. unfold coef. destruct (decide (y = x)) as [->|?]; [by rewrite (lookup_insert sd x)|by rewrite (lookup_insert_ne sd x y)]. Qed.

(** side[x] = c : the entry becomes c, or disappears when c <= 0 *)
Lemma coef_side_set sd x c y : coef (side_set sd x c) y = if decide (y = x) then Z.max 0 c else coef sd y.
Proof.
  unfold side_set. destruct (Z.leb_spec c 0).
  - rewrite coef_delete. destruct (decide _); [lia|done].
  - rewrite coef_insert. destruct (decide _); [|done]. rewrite Z2Pos.id by lia. lia.
Qed.
(** side.incr(x, by): the count moves by [by], floored at 0 (= removed) *)
Lemma coef_side_incr sd x b y : coef (side_incr sd x b) y = if decide (y = x) then Z.max 0 (coef sd x + b) else coef sd y.
Proof. unfold side_incr. apply coef_side_set. Qed.

(** a side is a positive multiset whatever is done to it: every stored count is positive (by construction of the model:
    counts are [positive]) and [coef] is 0 exactly off the key set *)
Lemma coef_zero_iff sd x : coef sd x = 0 ↔ sd !! x = None.
Proof. unfold coef. destruct (sd !! x); split; (done || lia). Qed.

(** the pool: an op touches at most one slot *)
Lemma sstep_frame p o j :
  match o with SNew k _ | SSet k _ _ | SIncr k _ _ | SPop k _ _ | SUpdate k _ => j ≠ k | SCopy _ k' => j ≠ k' | SQuery _ _ => True end →
  (sstep p o).1 !! j = p !! j.
Proof. destruct o; cbn; intros Hj; try done; by rewrite list_lookup_insert_ne. Qed.
Lemma sstep_length p o : length (sstep p o).1 = length p.
Proof. destruct o; cbn; by rewrite ?insert_length. Qed.

(** what each mutator does to its slot (slot inside the pool) *)
Lemma sstep_spec p o k : (k < length p)%nat →
  let sd := getp p k in let sd' := getp (sstep p o).1 k in
  match o with
  | SNew k0 l => k0 = k → ∀ y, coef sd' y = total y l
  | SSet k0 x c => k0 = k → ∀ y, coef sd' y = if decide (y = x) then Z.max 0 c else coef sd y
  | SIncr k0 x b => k0 = k → ∀ y, coef sd' y = if decide (y = x) then Z.max 0 (coef sd x + b) else coef sd y
  | SPop k0 x d => k0 = k → (∀ y, coef sd' y = if decide (y = x) then 0 else coef sd y) ∧
                            (sstep p o).2 = topz (match sd !! x with Some c => Some (Z.pos c) | None => d end)
  | SUpdate k0 l => k0 = k → ∀ y, coef sd' y = coef sd y + total y l
  | SCopy k0 k' => k' = k → sd' = getp p k0
  | SQuery _ _ => sd' = sd
  end.
Proof.
  intros Hk sd sd'. unfold sd', sd, getp.
  destruct o as [k0 l|k0 x c|k0 x b|k0 x d|k0 l|k0 k'|k0 q]; cbn [sstep fst snd]; try intros ->;
    rewrite ?nth_lookup, ?list_lookup_insert by done; cbn [default].
  - intros y. apply coef_normalize_items.
  - intros y. rewrite <-nth_lookup. apply coef_side_set.
  - intros y. rewrite <-nth_lookup. apply coef_side_incr.
  - split; [|by rewrite <-nth_lookup]. intros y. rewrite <-nth_lookup. apply coef_delete.
  - intros y. rewrite <-nth_lookup. apply coef_side_update.
  - by rewrite <-nth_lookup.
  - done.
Qed.

(** non-vacuity *)
Definition exs_ops : list sop :=
  [ SNew 0 [IPair "A" 2; ILabel "B"; IPair "A" 1; IPair "Z" 0; ILabel ""]; SCopy 0 1; SIncr 0 "A" (-3); SSet 0 "B" 12; SPop 1 "A" None;
    SPop 1 "Q" (Some 7); SUpdate 0 [IPair "B" 1; ILabel "C"]; SNew 2 [] ].
Definition exs_pool : list side := (foldl (λ p o, (sstep p o).1) (replicate 3 ∅) exs_ops).
Example ex_side_nonvacuous :
  (coef (getp exs_pool 0) <$> ["A"; "B"; "C"; "Z"]) = [0; 13; 1; 0] ∧ (coef (getp exs_pool 1) <$> ["A"; "B"]) = [0; 1] ∧
  getp exs_pool 2 = ∅ ∧
  (sstep (replicate 3 ∅) (SPop 1 "Q" (Some 7))).2 = L [I 7] ∧
  sanswer (getp exs_pool 0) (SArity true) = I 14 ∧ sanswer (getp exs_pool 0) (SArity false) = tN 2.
Proof. split_and!; by vm_compute. Qed.
