(** C08 — directed inputs: the serialisation of a DiGraph ([dserialise], model/C08_Digraph.v) is a function of the
    covered digraph and determines it; hence for the attribute-sort and the wl / morgan back-ends the signature of
    a DiGraph is a function of the digraph (insertion order of nodes and arcs, uncovered attributes do not matter)
    and equal signatures make two digraphs isomorphic AS DIGRAPHS (the direction of every arc is content). *)
From Coq Require Import String List NArith ZArith Bool Arith Lia Permutation.
From SK Require Import lib.LGraph lib.IRSortKeys lib.IRCore lib.StrJoin.
From SK Require Import model.C08_Model model.C08_Digraph proof.C08_Spec proof.C08_DSpec proof.C08_Sort proof.C08_Faithful
                       proof.C08_Cov proof.C08_SigFun proof.C08_Render proof.C08_Sound.
From SK Require lib.IRInst.
Import ListNotations.
Open Scope string_scope. Open Scope list_scope. Open Scope nat_scope.

(* ---------------- dgeq_cov is an equivalence ---------------- *)
Lemma dgeq_cov_refl g : dgeq_cov g g.
Proof. split; apply Permutation_refl. Qed.
Lemma dgeq_cov_sym g h : dgeq_cov g h -> dgeq_cov h g.
Proof. intros [H1 H2]. split; apply Permutation_sym; auto. Qed.
Lemma dgeq_cov_trans g h k : dgeq_cov g h -> dgeq_cov h k -> dgeq_cov g k.
Proof. intros [H1 H2] [H3 H4]. split; eapply perm_trans; eauto. Qed.
Lemma dgeq_cov_ids g h : dgeq_cov g h -> Permutation (node_ids g) (node_ids h).
Proof. intros [H _]. rewrite !node_ids_cov. apply Permutation_map. exact H. Qed.

Definition dsimple (g : graph) : Prop := NoDup (node_ids g) /\ NoDup (map fst (dcov_edges g)).
Lemma dcov_fst (g : graph) : map fst (dcov_edges g) = map (fun e : N * N * eattr => fst e) (gedges g).
Proof. unfold dcov_edges. rewrite map_map. apply map_ext. intros [[a b] x]. reflexivity. Qed.
Lemma dwf_dsimple g : dwf g -> dsimple g.
Proof. intros (H1 & _ & H3). split; auto. rewrite dcov_fst. exact H3. Qed.
Lemma dsimple_dgeq_cov g h : dgeq_cov g h -> dsimple g -> dsimple h.
Proof.
  intros Hq [H1 H2]. split.
  - eapply Permutation_NoDup; [apply dgeq_cov_ids; exact Hq|exact H1].
  - destruct Hq as [_ Hq]. eapply Permutation_NoDup; [apply Permutation_map; exact Hq|exact H2].
Qed.

(* ---------------- the serialisation factors through the covered digraph ---------------- *)
Definition DEK (c : N * N * ecv) : list Z :=
  let '(u, v, (o, t, s)) := c in
  ([Z.of_N (N.min u v); Z.of_N (N.max u v); o] ++ (match t with Some b => [b] | None => [] end) ++ [sd0 s]) ++ [Z.of_N u; Z.of_N v].
Definition DEI (c : N * N * ecv) : str :=
  let '(u, v, (o, t, s)) := c in
  lit "(" ++ decN u ++ sep2 ++ decN v ++ lit ")" ++ lit ":" ++ lit "("
  ++ lit "(" ++ decN (N.min u v) ++ sep2 ++ decN (N.max u v) ++ lit ")"
  ++ sep2 ++ OS o t ++ sep2 ++ (match s with Some s => fl s | None => lit "0" end) ++ lit ")".

Lemma dekey_cov e : dekey e = DEK (dcove e).
Proof. destruct e as [[u v] [o s t]]. unfold dekey, DEK, dcove, ecov, std0, sd0. cbn [eo es et]. destruct t; reflexivity. Qed.
Lemma dedge_item_cov e : dedge_item e = DEI (dcove e).
Proof. destruct e as [[u v] [o s t]]. reflexivity. Qed.
Lemma map_dcov_sort_edges (l : list (N * N * eattr)) : map dcove (sort_by dekey l) = sort_by DEK (map dcove l).
Proof. rewrite sort_by_map. f_equal. apply sort_by_ext. intros; apply dekey_cov. Qed.

Lemma dserialise_cov g :
  dserialise g = lit "N[" ++ join 59%N (map NI (sort_by NK (cov_nodes g))) ++ lit "]|E["
                 ++ join 59%N (map DEI (sort_by DEK (dcov_edges g))) ++ lit "]".
Proof.
  unfold dserialise, ser_nodes, dser_edges, cov_nodes, dcov_edges.
  rewrite <- map_cov_sort_nodes, <- map_dcov_sort_edges, !map_map.
  rewrite (map_ext node_item (fun x => NI (covn x))) by (intros; apply node_item_cov).
  rewrite (map_ext dedge_item (fun x => DEI (dcove x))) by (intros; apply dedge_item_cov).
  reflexivity.
Qed.

Lemma app_tail2 {A} (l l' : list A) a b a' b' : l ++ [a; b] = l' ++ [a'; b'] -> a = a' /\ b = b'.
Proof.
  intros E. change [a; b] with ([a] ++ [b]) in E. change [a'; b'] with ([a'] ++ [b']) in E.
  rewrite !app_assoc in E. apply app_inj_tail in E. destruct E as [E ->]. apply app_inj_tail in E. destruct E as [_ ->]. auto.
Qed.
Lemma DEK_inj_dsimple g : dsimple g -> forall x y, In x (dcov_edges g) -> In y (dcov_edges g) -> DEK x = DEK y -> x = y.
Proof.
  intros [_ Hs] [[u v] [[o t] s]] [[u' v'] [[o' t'] s']] Hx Hy E.
  apply (NoDup_map_key_inj fst _ Hs); auto.
  unfold DEK in E. apply app_tail2 in E. destruct E as [E1 E2]. apply N2Z.inj in E1, E2. subst. reflexivity.
Qed.

Theorem dserialise_dgeq_cov g h : dsimple g -> dgeq_cov g h -> dserialise g = dserialise h.
Proof.
  intros Hs [H1 H2]. rewrite !dserialise_cov.
  rewrite (sort_by_perm_eq NK _ _ H1).
  - rewrite (sort_by_perm_eq DEK _ _ H2); [reflexivity|]. apply DEK_inj_dsimple. exact Hs.
  - apply NK_inj_ids. rewrite <- node_ids_cov. apply Hs.
Qed.

(* ---------------- relabelling, rebuilding ---------------- *)
Definition dre (f : N -> N) (c : N * N * ecv) : N * N * ecv := let '(a, b, x) := c in (f a, f b, x).
Lemma dcov_edges_relabel f (g : graph) : dcov_edges (relabel f g) = map (dre f) (dcov_edges g).
Proof. unfold dcov_edges, relabel. cbn [gedges]. rewrite !map_map. apply map_ext. intros [[a b] x]. reflexivity. Qed.
Lemma relabel_dgeq_cov f g h : dgeq_cov g h -> dgeq_cov (relabel f g) (relabel f h).
Proof.
  intros [H1 H2]. split.
  - rewrite !cov_nodes_relabel. apply Permutation_map. exact H1.
  - rewrite !dcov_edges_relabel. apply Permutation_map. exact H2.
Qed.
Lemma dsimple_relabel f g : dwf g -> C08_Spec.inj_on f (node_ids g) -> dsimple (relabel f g).
Proof.
  intros Hw Hi. split.
  - rewrite node_ids_relabel. apply NoDup_map_inj_on'; auto. apply Hw.
  - rewrite dcov_edges_relabel. unfold dcov_edges. rewrite !map_map.
    pose proof (proj2 (dwf_dsimple g Hw)) as Hk. unfold dcov_edges in Hk. rewrite map_map in Hk.
    revert Hk. apply NoDup_map_transfer. intros [[a b] x] [[c d] y] I1 I2 E.
    destruct Hw as (_ & Hend & _).
    destruct (Hend _ _ _ I1) as (Ha & Hb & _), (Hend _ _ _ I2) as (Hc & Hd & _).
    cbn in E |- *. inversion E as [[E1 E2]]. f_equal; apply Hi; auto.
Qed.

Lemma perm_edges_dgeq_cov (cg r : graph) : Permutation (gnodes cg) (gnodes r) -> gedges cg = gedges r -> dgeq_cov cg r.
Proof.
  intros H1 H2. split; [apply Permutation_map; exact H1|]. unfold dcov_edges. rewrite H2. apply Permutation_refl.
Qed.
Lemma faithful_dgeq_cov g cg : faithful g cg -> exists f, C08_Spec.inj_on f (node_ids g) /\ dgeq_cov cg (relabel f g).
Proof. intros (f & Hi & H1 & H2). exists f. split; auto. apply perm_edges_dgeq_cov; auto. Qed.
Lemma rebuild_dgeq_cov (g : graph) order : NoDup (node_ids g) -> Permutation order (node_ids g) ->
  C08_Spec.inj_on (apply_map (mapping_of order)) (node_ids g) /\
  dgeq_cov (rebuild g order) (relabel (apply_map (mapping_of order)) g).
Proof.
  intros Hnd Hp.
  assert (Hndo : NoDup order) by (eapply Permutation_NoDup; [apply Permutation_sym; exact Hp|exact Hnd]).
  split.
  - apply inj_on_same. eapply inj_on_perm; [exact Hp|]. apply mapping_of_inj; auto.
  - apply perm_edges_dgeq_cov; [|reflexivity].
    unfold rebuild. cbn [gnodes]. rewrite gnodes_relabel_as_ids by auto. apply Permutation_map. exact Hp.
Qed.

Lemma drebuild_same_order g h order : dwf g -> dwf h -> dgeq_cov g h -> Permutation order (node_ids g) ->
  dserialise (rebuild g order) = dserialise (rebuild h order).
Proof.
  intros Hg Hh Hq Hp.
  assert (Hp' : Permutation order (node_ids h)) by (eapply perm_trans; [exact Hp|apply dgeq_cov_ids; auto]).
  destruct (rebuild_dgeq_cov g order (proj1 Hg) Hp) as [Hi Hr].
  destruct (rebuild_dgeq_cov h order (proj1 Hh) Hp') as [Hi' Hr'].
  apply dserialise_dgeq_cov.
  - eapply dsimple_dgeq_cov; [apply dgeq_cov_sym; exact Hr|]. apply dsimple_relabel; auto.
  - eapply dgeq_cov_trans; [exact Hr|]. eapply dgeq_cov_trans; [apply relabel_dgeq_cov; exact Hq|]. apply dgeq_cov_sym. exact Hr'.
Qed.

(* ---------------- attribute-sort back-end ---------------- *)
Theorem dsig_function_generic g h : dwf g -> dwf h -> dgeq_cov g h -> dser_generic g = dser_generic h.
Proof.
  intros Hg Hh Hq. unfold dser_generic, canon_generic.
  assert (E : map fst (sort_by nkey_id (gnodes h)) = map fst (sort_by nkey_id (gnodes g))).
  { rewrite !generic_order_cov. f_equal. symmetry. apply sort_by_perm_eq; [apply Hq|].
    apply NK_inj_ids. rewrite <- node_ids_cov. apply Hg. }
  rewrite E. apply drebuild_same_order; auto. apply generic_order_perm.
Qed.

(* ---------------- wl / morgan: any ranking; g.degree of a DiGraph = in-degree + out-degree = [degree] ---------------- *)
Lemma inc1_dcov v e : map ce (inc1 v e) = incc v (dcove e).
Proof. destruct e as [[a b] x]. unfold inc1, incc, dcove. rewrite map_app. destruct (N.eqb a v), (N.eqb b v); reflexivity. Qed.
Lemma flat_map_map_l {X Y Z} (f : Y -> list Z) (k : X -> Y) l : flat_map f (map k l) = flat_map (fun x => f (k x)) l.
Proof. induction l as [|x l IH]; simpl; auto. rewrite IH. reflexivity. Qed.
Lemma map_flat_map_l {X Y Z} (k : Y -> Z) (f : X -> list Y) l : map k (flat_map f l) = flat_map (fun x => map k (f x)) l.
Proof. induction l as [|x l IH]; simpl; auto. rewrite map_app, IH. reflexivity. Qed.
Lemma inc_dcov g v : map ce (inc g v) = flat_map (incc v) (dcov_edges g).
Proof.
  rewrite inc_flat. unfold dcov_edges. rewrite flat_map_map_l, map_flat_map_l.
  apply flat_map_ext. intros e. apply inc1_dcov.
Qed.
Lemma degree_dgeq_cov g h v : dgeq_cov g h -> degree g v = degree h v.
Proof.
  intros [_ H]. unfold degree. f_equal.
  assert (P : Permutation (map ce (inc g v)) (map ce (inc h v))) by (rewrite !inc_dcov; apply Permutation_flat_map; exact H).
  apply Permutation_length in P. rewrite !map_length in P. exact P.
Qed.
Theorem dsig_function_rank ranks g h : dwf g -> dwf h -> dgeq_cov g h -> dser_rank ranks g = dser_rank ranks h.
Proof.
  intros Hg Hh Hq. unfold dser_rank, canon_rank.
  assert (E : sort_by (fun v => [rank_of ranks v; degree h v; Z.of_N v]) (node_ids h)
            = sort_by (fun v => [rank_of ranks v; degree g v; Z.of_N v]) (node_ids g)).
  { rewrite (sort_by_ext _ (fun v => [rank_of ranks v; degree g v; Z.of_N v]))
      by (intros v; rewrite (degree_dgeq_cov g h v Hq); reflexivity).
    symmetry. apply sort_by_perm_eq; [apply dgeq_cov_ids; auto|].
    intros x y _ _ E. inversion E. apply N2Z.inj. auto. }
  rewrite E. apply drebuild_same_order; auto. apply sort_by_perm.
Qed.

(* ---------------- the serialisation determines the covered digraph ---------------- *)
Lemma DEI_form u v o t s : DEI (u, v, (o, t, s)) =
  40%N :: decN u ++ 44%N :: 32%N :: decN v ++ 41%N :: 58%N :: 40%N :: 40%N :: decN (N.min u v) ++ 44%N :: 32%N :: decN (N.max u v) ++ 41%N :: 44%N :: 32%N ::
  OS o t ++ 44%N :: 32%N :: (match s with Some s => fl s | None => [48%N] end) ++ [41%N].
Proof.
  unfold DEI, sep2.
  change (lit ":") with [58%N]. change (lit "(") with [40%N]. change (lit ", ") with [44%N; 32%N]. change (lit ")") with [41%N].
  change (lit "0") with [48%N].
  rewrite <- ?app_assoc. cbn [app]. rewrite <- ?app_assoc. reflexivity.
Qed.
Lemma DEI_inj c1 c2 : DEI c1 = DEI c2 -> c1 = c2.
Proof.
  destruct c1 as [[u v] [[o t] s]], c2 as [[u' v'] [[o' t'] s']]. intros E. rewrite !DEI_form in E.
  inversion E as [E1]. clear E.
  apply app_sep_inj in E1; [|nosep|nosep]. destruct E1 as [E1 E]. apply decN_inj in E1. inversion E as [E2]. clear E.
  apply app_sep_inj in E2; [|nosep|nosep]. destruct E2 as [E2 E]. apply decN_inj in E2. subst u' v'.
  inversion E as [E3]. clear E.
  apply app_inv_head in E3. inversion E3 as [E4]. clear E3.
  apply app_inv_head in E4. inversion E4 as [E5]. clear E4.
  apply OS_comma_inj in E5. destruct E5 as (-> & -> & E).
  inversion E as [E6]. clear E. apply app_inj_tail in E6. destruct E6 as [E6 _].
  destruct s as [s|], s' as [s'|].
  - apply fl_inj in E6. subst. reflexivity.
  - exfalso. apply (fl_not_zero _ E6).
  - exfalso. symmetry in E6. apply (fl_not_zero _ E6).
  - reflexivity.
Qed.
Lemma DEI_nosep c : nosep 59%N (DEI c).
Proof.
  destruct c as [[u v] [[o t] s]]. rewrite DEI_form. pose proof (OS_nosep o t 59%N (or_intror (or_introl eq_refl))) as H.
  destruct s; nosep.
Qed.
Lemma DEI_not_nil c : DEI c <> [].
Proof. destruct c as [[u v] [[o t] s]]. rewrite DEI_form. discriminate. Qed.

Theorem dserialise_inj_cov g h : els_ok g -> els_ok h -> dserialise g = dserialise h ->
  sort_by NK (cov_nodes g) = sort_by NK (cov_nodes h) /\ sort_by DEK (dcov_edges g) = sort_by DEK (dcov_edges h).
Proof.
  intros Hg Hh E. rewrite !dserialise_cov in E.
  change (lit "N[") with [78%N; 91%N] in E. change (lit "]|E[") with [93%N; 124%N; 69%N; 91%N] in E.
  change (lit "]") with [93%N] in E. cbn [app] in E. inversion E as [E1]. clear E.
  pose proof (sort_by_Forall NK _ _ (cov_nodes_ok g Hg)) as Fg.
  pose proof (sort_by_Forall NK _ _ (cov_nodes_ok h Hh)) as Fh.
  set (ng := sort_by NK (cov_nodes g)) in *. set (nh := sort_by NK (cov_nodes h)) in *.
  assert (Sg : forall l, Forall cel_ok l -> Forall (nosep 93%N) (map NI l) /\ Forall (nosep 59%N) (map NI l) /\ Forall (fun x => x <> []) (map NI l)).
  { intros l Hl. repeat split; apply Forall_forall; intros x I; apply in_map_iff in I; destruct I as (c & <- & I);
      rewrite Forall_forall in Hl; try (apply NI_nosep; [apply Hl; auto|auto]). apply NI_not_nil. }
  destruct (Sg ng Fg) as (A1 & A2 & A3). destruct (Sg nh Fh) as (B1 & B2 & B3).
  apply app_sep_inj in E1; [|apply join_nosep; [discriminate|auto]|apply join_nosep; [discriminate|auto]].
  destruct E1 as [E1 E2]. apply join_inj0 in E1; auto.
  split.
  - revert E1. apply (map_inj_in NI cel_ok); auto. intros x y Hx Hy. apply NI_inj; auto.
  - inversion E2 as [E3]. apply app_inj_tail in E3. destruct E3 as [E3 _].
    apply join_inj0 in E3.
    + revert E3. apply (map_inj_in DEI (fun _ => True)); try (apply Forall_forall; auto). intros x y _ _. apply DEI_inj.
    + apply Forall_forall. intros x I. apply in_map_iff in I. destruct I as (c & <- & _). apply DEI_nosep.
    + apply Forall_forall. intros x I. apply in_map_iff in I. destruct I as (c & <- & _). apply DEI_nosep.
    + apply Forall_forall. intros x I. apply in_map_iff in I. destruct I as (c & <- & _). apply DEI_not_nil.
    + apply Forall_forall. intros x I. apply in_map_iff in I. destruct I as (c & <- & _). apply DEI_not_nil.
Qed.
Theorem dserialise_inj g h : els_ok g -> els_ok h -> dserialise g = dserialise h -> dgeq_cov g h.
Proof.
  intros Hg Hh E. destruct (dserialise_inj_cov g h Hg Hh E) as [E1 E2]. split.
  - eapply perm_trans; [apply Permutation_sym, (sort_by_perm NK)|]. rewrite E1. apply sort_by_perm.
  - eapply perm_trans; [apply Permutation_sym, (sort_by_perm DEK)|]. rewrite E2. apply sort_by_perm.
Qed.

(* ---------------- soundness ---------------- *)
Lemma drelabel_id_on f (g : graph) : dwf g -> (forall x, In x (node_ids g) -> f x = x) -> relabel f g = g.
Proof.
  intros (_ & Hend & _) Hf. destruct g as [ns es]. unfold relabel. cbn [gnodes gedges] in *. f_equal.
  - rewrite <- (map_id ns) at 2. apply map_ext_in. intros [k a] I. cbn [fst snd]. rewrite Hf; auto.
    unfold node_ids. cbn [gnodes]. change k with (fst (k, a)). apply in_map. exact I.
  - rewrite <- (map_id es) at 2. apply map_ext_in. intros [[a b] x] I.
    destruct (Hend _ _ _ I) as (Ha & Hb & _). rewrite !Hf; auto.
Qed.
Theorem dcommon_form_iso g h f f' : dwf g -> dwf h -> C08_Spec.inj_on f (node_ids g) -> C08_Spec.inj_on f' (node_ids h) ->
  dgeq_cov (relabel f g) (relabel f' h) -> diso_cov g h.
Proof.
  intros Hg Hh Hi Hi' Hq. set (iv := inv_on f' (node_ids h)).
  exists (fun x => iv (f x)). split.
  - intros x y Hx Hy E.
    pose proof (dgeq_cov_ids _ _ Hq) as Hp. rewrite !node_ids_relabel in Hp.
    assert (Ix : In (f x) (map f' (node_ids h))) by (apply (Permutation_in _ Hp); apply in_map; auto).
    assert (Iy : In (f y) (map f' (node_ids h))) by (apply (Permutation_in _ Hp); apply in_map; auto).
    apply in_map_iff in Ix, Iy. destruct Ix as (x' & Ex & Ix), Iy as (y' & Ey & Iy).
    rewrite <- Ex, <- Ey in E. unfold iv in E. rewrite !inv_on_spec in E by auto. subst y'.
    apply Hi; auto. congruence.
  - rewrite <- (relabel_compose f iv g).
    eapply dgeq_cov_trans; [apply relabel_dgeq_cov; exact Hq|].
    rewrite relabel_compose. rewrite drelabel_id_on; auto; [apply dgeq_cov_refl|].
    intros x Hx. apply inv_on_spec; auto.
Qed.
Theorem dsound_faithful g h cg ch : dwf g -> dwf h -> els_ok g -> els_ok h -> faithful g cg -> faithful h ch ->
  dserialise cg = dserialise ch -> diso_cov g h.
Proof.
  intros Hg Hh Eg Eh Fg Fh E.
  pose proof (dserialise_inj cg ch (faithful_els_ok _ _ Fg Eg) (faithful_els_ok _ _ Fh Eh) E) as Hq.
  destruct (faithful_dgeq_cov _ _ Fg) as (f & Hi & H1). destruct (faithful_dgeq_cov _ _ Fh) as (f' & Hi' & H2).
  apply (dcommon_form_iso g h f f'); auto.
  eapply dgeq_cov_trans; [apply dgeq_cov_sym; exact H1|]. eapply dgeq_cov_trans; [exact Hq|exact H2].
Qed.

Theorem dsignature_function_generic (D : Type) (digest : str -> D) g h : dwf g -> dwf h -> dgeq_cov g h ->
  digest (dserialise (canon_generic g)) = digest (dserialise (canon_generic h)).
Proof. intros. f_equal. apply dsig_function_generic; auto. Qed.
Theorem dsignature_function_rank (D : Type) (digest : str -> D) ranks g h : dwf g -> dwf h -> dgeq_cov g h ->
  digest (dserialise (canon_rank ranks g)) = digest (dserialise (canon_rank ranks h)).
Proof. intros. f_equal. apply dsig_function_rank; auto. Qed.
Theorem dsignature_sound_generic (D : Type) (digest : str -> D) g h : dwf g -> dwf h -> els_ok g -> els_ok h ->
  (digest (dserialise (canon_generic g)) = digest (dserialise (canon_generic h)) ->
   dserialise (canon_generic g) = dserialise (canon_generic h)) ->
  digest (dserialise (canon_generic g)) = digest (dserialise (canon_generic h)) -> diso_cov g h.
Proof.
  intros Hg Hh Eg Eh Hd E. apply (dsound_faithful g h (canon_generic g) (canon_generic h)); auto.
  - apply faithful_generic. apply Hg.
  - apply faithful_generic. apply Hh.
Qed.
Theorem dsignature_sound_rank (D : Type) (digest : str -> D) r r' g h : dwf g -> dwf h -> els_ok g -> els_ok h ->
  (digest (dserialise (canon_rank r g)) = digest (dserialise (canon_rank r' h)) ->
   dserialise (canon_rank r g) = dserialise (canon_rank r' h)) ->
  digest (dserialise (canon_rank r g)) = digest (dserialise (canon_rank r' h)) -> diso_cov g h.
Proof.
  intros Hg Hh Eg Eh Hd E. apply (dsound_faithful g h (canon_rank r g) (canon_rank r' h)); auto.
  - apply faithful_rank. apply Hg.
  - apply faithful_rank. apply Hh.
Qed.

(* ---------------- non-vacuity ---------------- *)
(* a digraph with an antiparallel pair of equal arcs, presented with another insertion order of nodes and arcs:
   same signature; the digraph with one arc turned round: another serialisation although the UNDIRECTED covered
   views coincide (seeded change C08-w3-2 printed the end points sorted: the two strings became equal) *)
Definition ds_g : graph :=
  LG [(1%N, NA [67%N] false 0 0 None); (2%N, NA [67%N] false 0 0 None); (3%N, NA [79%N] false 0 0 None)]
     [(1%N, 2%N, EA 2 None); (2%N, 1%N, EA 2 None); (2%N, 3%N, EA 2 None)].
Definition ds_h : graph :=
  LG [(3%N, NA [79%N] false 0 0 None); (2%N, NA [67%N] false 0 0 (Some 5%Z)); (1%N, NA [67%N] false 0 0 None)]
     [(2%N, 3%N, EA 2 None); (2%N, 1%N, EA 2 None); (1%N, 2%N, EA 2 None)].
Definition ds_m : graph :=
  LG [(1%N, NA [67%N] false 0 0 None); (2%N, NA [67%N] false 0 0 None); (3%N, NA [79%N] false 0 0 None)]
     [(1%N, 2%N, EA 2 None); (2%N, 1%N, EA 2 None); (3%N, 2%N, EA 2 None)].
Lemma dwf_ds_g : dwf ds_g.
Proof.
  split; [repeat constructor; simpl; intuition discriminate|]. split.
  - intros a b x [E|[E|[E|[]]]]; inversion E; subst; simpl; intuition discriminate.
  - repeat constructor; simpl; intuition discriminate.
Qed.
Lemma dwf_ds_h : dwf ds_h.
Proof.
  split; [repeat constructor; simpl; intuition discriminate|]. split.
  - intros a b x [E|[E|[E|[]]]]; inversion E; subst; simpl; intuition discriminate.
  - repeat constructor; simpl; intuition discriminate.
Qed.
Example ds_ex : dwf ds_g /\ dwf ds_h /\ dgeq_cov ds_g ds_h /\ gedges ds_g <> gedges ds_h
                /\ dser_generic ds_g = dser_generic ds_h
                /\ dser_generic ds_g <> dser_generic ds_m /\ geq_cov ds_g ds_m.
Proof.
  split; [apply dwf_ds_g|]. split; [apply dwf_ds_h|]. split; [|split; [discriminate|]].
  - split; vm_compute.
    + eapply perm_trans; [apply perm_swap|]. eapply perm_trans; [apply perm_skip; apply perm_swap|]. apply perm_swap.
    + eapply perm_trans; [apply perm_swap|]. eapply perm_trans; [apply perm_skip; apply perm_swap|]. apply perm_swap.
  - split; [vm_compute; reflexivity|]. split; [vm_compute; discriminate|].
    split; vm_compute; apply Permutation_refl.
Qed.

Print Assumptions dserialise_dgeq_cov.
Print Assumptions dserialise_inj.
Print Assumptions dsignature_function_generic.
Print Assumptions dsignature_function_rank.
Print Assumptions dsignature_sound_generic.
Print Assumptions dsignature_sound_rank.
