(** C04 — what h_to_implicit does to a substrate graph whose every hydrogen atom is bonded to non-hydrogen atoms only:
    the hydrogen atoms disappear, every other atom's count grows by the number of its bonds to them, the bonds between
    the remaining atoms stay. *)
From Coq Require Import List NArith ZArith Bool Lia Permutation.
From SK Require Import lib.Tok lib.LGraph model.C03_Model model.C04_Model proof.C03_Proof proof.C03_Glue proof.C03_Skeleton
                       proof.C03_StripCounts proof.C03_StripExact proof.C04_Glue.
Import ListNotations.
Local Open Scope Z_scope.

Definition bumpk (k : Z) (a : nattr) : nattr := set_hc a (a_hc a + k).
Definition hkeepn (R : list N) (p : N * nattr) : bool := negb (mem (fst p) R).

Lemma occ_nbrs_host (g : hostg) h x : x <> h -> occ x (nbrs g h) = cnt (gedges g) h x.
Proof. intros Hne. exact (occ_nbrs (LG [] (gedges g)) h x Hne). Qed.

(** the inner fold: one more hydrogen on every listed atom, once per occurrence *)
Lemma bump_fold_nodes xs : forall g : hostg,
  gnodes (fold_left (fun g'' x => upd_node g'' x (fun a => set_hc a (a_hc a + 1))) xs g)
  = map (fun p => (fst p, bumpk (occ (fst p) xs) (snd p))) (gnodes g) /\
  gedges (fold_left (fun g'' x => upd_node g'' x (fun a => set_hc a (a_hc a + 1))) xs g) = gedges g.
Proof.
  induction xs as [|x r IH]; intros g; cbn [fold_left].
  - split; [|reflexivity]. rewrite <- (map_id (gnodes g)) at 1. apply map_ext. intros [k a]. unfold bumpk, occ; simpl.
    rewrite Z.add_0_r. destruct a; reflexivity.
  - destruct (IH (upd_node g x (fun a => set_hc a (a_hc a + 1)))) as [E1 E2]. rewrite E1, E2. split; [|reflexivity].
    unfold upd_node; cbn [gnodes]. rewrite map_map. apply map_ext. intros [k a]. cbn [fst snd]. rewrite occ_cons.
    destruct (N.eqb_spec k x) as [->|Hne]; cbn [fst snd].
    + destruct a as [e ar hc ch nb]. unfold bumpk, set_hc; simpl. replace (hc + 1 + occ x r) with (hc + (1 + occ x r)) by lia. reflexivity.
    + destruct a as [e ar hc ch nb]. unfold bumpk, set_hc; simpl. reflexivity.
Qed.

Lemma filter_all {X} (f : X -> bool) (l : list X) : (forall x, In x l -> f x = true) -> filter f l = l.
Proof. induction l as [|y r IH]; simpl; [reflexivity|]. intros H. rewrite (H y) by auto. f_equal. apply IH. auto. Qed.

Lemma hkeepn_cons h R p : hkeepn (h :: R) p = negb (N.eqb (fst p) h) && hkeepn R p.
Proof. unfold hkeepn, mem. simpl. rewrite negb_orb. reflexivity. Qed.
Lemma filter_map_fst {X} (F : N * X -> N * X) (c : N -> bool) (l : list (N * X)) : (forall p, fst (F p) = fst p) ->
  filter (fun p => c (fst p)) (map F l) = map F (filter (fun p => c (fst p)) l).
Proof.
  intros HF. induction l as [|p r IH]; simpl; [reflexivity|]. rewrite HF. destruct (c (fst p)); simpl; rewrite IH; reflexivity.
Qed.

Section Fold.
  Variable g : hostg.
  Hypothesis Hnd : NoDup (node_ids g).
  (** every hydrogen atom has at least one neighbour and all its neighbours are non-hydrogen atoms of the graph *)
  Hypothesis Hh : forall h, is_H_h g h = true -> nbrs g h <> [] /\ forall x, In x (nbrs g h) -> is_H_h g x = false /\ has_node g x = true.

  Definition hsum (R : list N) (n : N) : Z := sum_cnt (gedges g) R n.

  (** the state after the hydrogen atoms [R] have been folded *)
  Definition folded_to (R : list N) (g' : hostg) : Prop :=
    gnodes g' = map (fun p => (fst p, bumpk (hsum R (fst p)) (snd p))) (filter (hkeepn R) (gnodes g)) /\
    gedges g' = filter (mkeepe R) (gedges g).

  Lemma folded_label R g' n : folded_to R g' -> ~ In n R -> label g' n = option_map (bumpk (hsum R n)) (label g n).
  Proof.
    intros [F1 _] NI. unfold label. rewrite F1. clear F1.
    assert (Hm : mem n R = false) by (destruct (mem n R) eqn:E; [apply mem_spec in E; contradiction|reflexivity]).
    induction (gnodes g) as [|[k a] r IH]; [reflexivity|]. cbn [filter]. unfold hkeepn at 1. cbn [fst].
    destruct (N.eqb_spec n k) as [->|Hne].
    - rewrite Hm. cbn [negb map assoc fst snd]. rewrite N.eqb_refl. reflexivity.
    - destruct (negb (mem k R)); cbn [map assoc fst snd].
      + destruct (N.eqb_spec n k); [contradiction|]. exact IH.
      + cbn [assoc]. destruct (N.eqb_spec n k); [contradiction|]. exact IH.
  Qed.

  Lemma fold_step R g' h : folded_to R g' -> (forall x, In x R -> is_H_h g x = true) -> ~ In h R -> is_H_h g h = true ->
    folded_to (h :: R)
      (match filter (fun x => negb (is_H_h g' x)) (nbrs g' h) with
       | [] => g'
       | heavy => remove_node (fold_left (fun g'' x => upd_node g'' x (fun a => set_hc a (a_hc a + 1))) heavy g') h
       end).
  Proof.
    intros F HR NI HH. pose proof F as [F1 F2]. destruct (Hh h HH) as [Hne Hx].
    (* the neighbours of h are untouched so far *)
    assert (En : nbrs g' h = nbrs g h).
    { unfold nbrs. rewrite F2, (nbrs_filtered (gedges g) R h NI). fold (nbrs g h).
      rewrite filter_all; [reflexivity|]. intros x I.
      destruct (mem x R) eqn:E; [|reflexivity]. apply mem_spec in E. destruct (Hx x I) as [H1 _]. rewrite (HR x E) in H1. discriminate. }
    assert (Ef : filter (fun x => negb (is_H_h g' x)) (nbrs g' h) = nbrs g h).
    { rewrite En. apply filter_all. intros x I. destruct (Hx x I) as [H1 H2].
      assert (NIx : ~ In x R) by (intros E; rewrite (HR x E) in H1; discriminate).
      unfold is_H_h. rewrite (folded_label R g' x F NIx). unfold is_H_h in H1. destruct (label g x); simpl; [|reflexivity].
      apply negb_true_iff. exact H1. }
    rewrite Ef. destruct (nbrs g h) as [|x0 xs0] eqn:Enb; [contradiction|]. rewrite <- Enb in *. clear Enb x0 xs0.
    destruct (bump_fold_nodes (nbrs g h) g') as [B1 B2]. split.
    - unfold remove_node; cbn [gnodes]. rewrite B1, F1, map_map. cbn [fst snd].
      rewrite (filter_map_fst (fun p : N * nattr => (fst p, bumpk (occ (fst p) (nbrs g h)) (bumpk (hsum R (fst p)) (snd p))))
                 (fun k => negb (N.eqb k h))) by (intros; reflexivity).
      rewrite filter_filter.
      rewrite (filter_ext_all (fun x : N * nattr => hkeepn R x && negb (N.eqb (fst x) h)) (hkeepn (h :: R)))
        by (intros p; rewrite hkeepn_cons; apply andb_comm).
      apply map_ext_in. intros [k a] I. apply filter_In in I. destruct I as [_ I]. rewrite hkeepn_cons in I. cbn [fst snd] in *.
      apply andb_prop in I. destruct I as [I _]. apply negb_true_iff in I. apply N.eqb_neq in I.
      f_equal. destruct a as [e ar hc ch nb]. unfold bumpk, set_hc; simpl. f_equal.
      unfold hsum, sum_cnt; cbn [fold_right]. rewrite (occ_nbrs_host g h k I). lia.
    - unfold remove_node; cbn [gedges]. rewrite B2, F2, filter_filter. apply filter_ext_all. intros [[a b] o].
      unfold mkeepe, mem. simpl. destruct (N.eqb a h), (N.eqb b h), (existsb (N.eqb a) R), (existsb (N.eqb b) R); reflexivity.
  Qed.

  Definition hstep (g' : hostg) (h : N) : hostg :=
    match filter (fun x => negb (is_H_h g' x)) (nbrs g' h) with
    | [] => g'
    | heavy => remove_node (fold_left (fun g'' x => upd_node g'' x (fun a => set_hc a (a_hc a + 1))) heavy g') h
    end.

  Lemma fold_all hs : forall R g', folded_to R g' -> (forall x, In x R -> is_H_h g x = true) -> NoDup hs ->
    (forall h, In h hs -> is_H_h g h = true /\ ~ In h R) ->
    folded_to (rev hs ++ R) (fold_left hstep hs g').
  Proof.
    induction hs as [|h r IH]; intros R g' F HR Hn Hs; cbn [fold_left rev app]; [exact F|].
    inversion Hn as [|? ? Hnot Hn']; subst. destruct (Hs h (or_introl eq_refl)) as [HH NI].
    rewrite <- app_assoc. cbn [app]. apply IH.
    - exact (fold_step R g' h F HR NI HH).
    - intros x [<-|I]; [exact HH|auto].
    - exact Hn'.
    - intros x I. destruct (Hs x (or_intror I)) as [H1 H2]. split; [exact H1|]. intros [<-|I']; [contradiction|contradiction].
  Qed.

  Lemma folded_nil : folded_to [] g.
  Proof.
    split.
    - rewrite filter_all by (intros; reflexivity). rewrite <- (map_id (gnodes g)) at 1. apply map_ext. intros [k a].
      unfold bumpk, hsum, sum_cnt; simpl. rewrite Z.add_0_r. destruct a; reflexivity.
    - rewrite filter_all; [reflexivity|]. intros [[a b] o] _. reflexivity.
  Qed.

  Lemma h_nodes_h_spec h : In h (h_nodes_h g) <-> is_H_h g h = true.
  Proof.
    unfold h_nodes_h, is_H_h. split.
    - intros I. apply in_map_iff in I. destruct I as ([k a] & E & I). simpl in E; subst. apply filter_In in I. destruct I as [I Ha].
      rewrite (label_in g h a Hnd I). exact Ha.
    - destruct (label g h) as [a|] eqn:E; [|discriminate]. intros Ha. apply in_map_iff. exists (h, a). split; [reflexivity|].
      apply filter_In. split; [apply assoc_in; exact E|exact Ha].
  Qed.
  Lemma h_nodes_h_nodup : NoDup (h_nodes_h g).
  Proof. unfold h_nodes_h. apply NoDup_map_filter. exact Hnd. Qed.

  (** the substrate with implicit hydrogens *)
  Theorem fold_host_spec :
    let R := rev (h_nodes_h g) in
    (forall x, In x R <-> is_H_h g x = true) /\ NoDup R /\ folded_to R (h_to_implicit_host g).
  Proof.
    cbn zeta. split; [|split].
    - intros x. rewrite <- in_rev. apply h_nodes_h_spec.
    - apply NoDup_rev. exact h_nodes_h_nodup.
    - unfold h_to_implicit_host. change (fold_left _ (h_nodes_h g) g) with (fold_left hstep (h_nodes_h g) g).
      rewrite <- (app_nil_r (rev (h_nodes_h g))). apply fold_all.
      + exact folded_nil.
      + intros x [].
      + exact h_nodes_h_nodup.
      + intros h I. split; [apply h_nodes_h_spec; exact I|intros []].
  Qed.
End Fold.
