(** C04 — the templates of a reaction describe it: full ITS, reaction centre (when it carries every change),
    and their inversions. *)
From Coq Require Import List NArith ZArith Bool Lia Permutation.
From SK Require Import lib.Tok lib.LGraph model.C03_Model model.C04_Model proof.C03_Proof proof.C03_Glue proof.C03_Backward
                       proof.C04_Glue.
Import ListNotations.
Local Open Scope Z_scope.

(** * simple edge lists: from the proposition back to the boolean, sub-lists, concatenation *)
Lemma simple_b_of_P {B} (es : list (N * N * B)) : simpleP (pairs es) -> simple_edgesb es = true.
Proof.
  induction es as [|[[a b] x] r IH]; simpl; [reflexivity|]. intros (Hne & Hr & Hs).
  apply andb_true_intro; split; [apply andb_true_intro; split|auto].
  - apply negb_true_iff. apply N.eqb_neq. exact Hne.
  - apply negb_true_iff. destruct (existsb _ r) eqn:E; [|reflexivity]. exfalso.
    apply existsb_exists in E. destruct E as ([[u v] y] & I & Hp).
    rewrite (Hr u v) in Hp; [discriminate|]. unfold pairs. change (u, v) with (fst (u, v, y)). apply in_map. exact I.
Qed.
Lemma simpleP_filter {B} (f : N * N * B -> bool) (es : list (N * N * B)) : simpleP (pairs es) -> simpleP (pairs (filter f es)).
Proof.
  induction es as [|[[a b] x] r IH]; simpl; [auto|]. intros (Hne & Hr & Hs).
  destruct (f (a, b, x)); simpl; [|auto]. split; [exact Hne|]. split; [|auto].
  intros u v I. apply Hr. unfold pairs in *. apply in_map_iff in I. destruct I as (e & E & I).
  apply filter_In in I. destruct I as [I _]. rewrite <- E. apply in_map. exact I.
Qed.
Lemma simpleP_app2 (p1 p2 : list (N * N)) : simpleP p1 -> simpleP p2 ->
  (forall a b u v, In (a, b) p1 -> In (u, v) p2 -> peq u v a b = false) -> simpleP (p1 ++ p2).
Proof.
  induction p1 as [|[a b] r IH]; simpl; [auto|]. intros (Hne & Hr & Hs) H2 Hx.
  split; [exact Hne|]. split.
  - intros u v I. apply in_app_or in I. destruct I as [I|I]; [auto|]. apply (Hx a b u v); auto.
  - apply IH; auto; intros; eapply Hx; eauto.
Qed.
Lemma pairs_map {B C} (f : N * N * B -> N * N * C) (es : list (N * N * B)) :
  (forall e, fst (f e) = fst e) -> pairs (map f es) = pairs es.
Proof. intros H. unfold pairs. rewrite map_map. apply map_ext. exact H. Qed.
Lemma pairs_app {B} (l1 l2 : list (N * N * B)) : pairs (l1 ++ l2) = pairs l1 ++ pairs l2.
Proof. unfold pairs. apply map_app. Qed.

Lemma filter_nil {X} (f : X -> bool) (l : list X) : (forall x, In x l -> f x = false) -> filter f l = [].
Proof. induction l as [|y r IH]; simpl; [reflexivity|]. intros H. rewrite (H y) by auto. apply IH. auto. Qed.

(** * soundness of the boolean well-formedness of a pair *)
Definition closed (A : hostg) : Prop := forall u v o, In (u, v, o) (gedges A) -> In u (node_ids A) /\ In v (node_ids A).
Lemma closed_sound A : edges_closed_h A = true -> closed A.
Proof.
  unfold edges_closed_h. intros H u v o I. rewrite forallb_forall in H. specialize (H _ I). simpl in H.
  apply andb_prop in H. destruct H as [H1 H2]. split; apply mem_spec; assumption.
Qed.
Lemma pair_wfb_sound G H : pair_wfb G H = true -> pair_wf G H /\ closed G /\ closed H.
Proof.
  unfold pair_wfb. intros W.
  apply andb_prop in W. destruct W as [W W7]. apply andb_prop in W. destruct W as [W W6]. apply andb_prop in W. destruct W as [W W5].
  apply andb_prop in W. destruct W as [W W4]. apply andb_prop in W. destruct W as [W W3]. apply andb_prop in W. destruct W as [W1 W2].
  rewrite forallb_forall in W5, W6, W7.
  split; [|split; apply closed_sound; assumption]. constructor; auto.
  - intros n. split; intros I; apply mem_spec; auto.
  - intros n x y Ex Ey. specialize (W7 (n, x) (assoc_in n (gnodes G) Ex)). simpl in W7. rewrite Ey in W7. apply N.eqb_eq. exact W7.
Qed.
Lemma pair_wf_sym A B : pair_wf A B -> pair_wf B A.
Proof.
  intros [a b c d]. constructor; auto.
  - intros n. symmetry. apply c.
  - intros n x y Ex Ey. symmetry. eapply d; eauto.
Qed.
Lemma wf_host_orders A u v o : wf_hostb A = true -> In (u, v, o) (gedges A) -> 0 < o.
Proof.
  unfold wf_hostb. intros H I. apply andb_prop in H. destruct H as [_ H]. rewrite forallb_forall in H.
  specialize (H _ I). simpl in H. apply Z.ltb_lt. exact H.
Qed.
Lemma host_in_adj A u v o : wf_hostb A = true -> In (u, v, o) (gedges A) -> adj A u v = Some o.
Proof. intros H I. unfold adj. apply simple_in_find; [apply host_simple; exact H|exact I]. Qed.

(** * the full ITS *)
Section Construct.
  Variables G H : hostg.
  Hypothesis PW : pair_wf G H.
  Hypothesis CG : closed G.
  Hypothesis CH : closed H.
  Let HG := pw_A _ _ PW.
  Let HH := pw_B _ _ PW.
  Let T0 := its_construct G H.

  Lemma construct_ids_in n : In n (node_ids T0) <-> In n (node_ids G).
  Proof.
    unfold T0, its_construct, node_ids at 1. simpl. rewrite map_map. simpl. rewrite map_id.
    destruct (length (gnodes H) <=? length (gnodes G))%nat.
    - rewrite in_app_iff, filter_In. split; [|auto]. intros [I|[I _]]; [exact I|]. apply (pw_ids _ _ PW). exact I.
    - rewrite in_app_iff, filter_In. split.
      + intros [I|[I _]]; [apply (pw_ids _ _ PW); exact I|exact I].
      + intros I. left. apply (pw_ids _ _ PW). exact I.
  Qed.
  Lemma construct_ids : exists base, (base = G \/ base = H) /\ node_ids T0 = node_ids base /\
                                     gnodes T0 = map (fun n => (n, its_node G H n)) (node_ids base).
  Proof.
    unfold T0, its_construct. destruct (length (gnodes H) <=? length (gnodes G))%nat.
    - exists G. split; [auto|].
      assert (E : filter (fun n => negb (has_node G n)) (node_ids H) = []).
      { apply filter_nil. intros n I.
        apply (pw_ids _ _ PW) in I. destruct (in_ids_label G n I) as [a Ea]. unfold has_node. rewrite Ea. reflexivity. }
      unfold node_ids at 1; simpl. rewrite E, app_nil_r, map_map. simpl. rewrite map_id. auto.
    - exists H. split; [auto|].
      assert (E : filter (fun n => negb (has_node H n)) (node_ids G) = []).
      { apply filter_nil. intros n I.
        apply (pw_ids _ _ PW) in I. destruct (in_ids_label H n I) as [a Ea]. unfold has_node. rewrite Ea. reflexivity. }
      unfold node_ids at 1; simpl. rewrite E, app_nil_r, map_map. simpl. rewrite map_id. auto.
  Qed.

  Lemma construct_node n a : In (n, a) (gnodes T0) -> a = its_node G H n /\ In n (node_ids G).
  Proof.
    intros I. destruct construct_ids as (base & Hb & _ & E). rewrite E in I. apply in_map_iff in I.
    destruct I as (k & Ek & Ik). inversion Ek; subst. split; [reflexivity|].
    destruct Hb; subst; [exact Ik|apply (pw_ids _ _ PW); exact Ik].
  Qed.

  Lemma construct_edge u v x : In (u, v, x) (gedges T0) ->
    (exists o, In (u, v, o) (gedges G) /\ x = (o, order_in H u v, o - order_in H u v)) \/
    (exists o, In (u, v, o) (gedges H) /\ adj G u v = None /\ x = (0, o, - o)).
  Proof.
    unfold T0, its_construct; simpl. intros I. apply in_app_or in I. destruct I as [I|I]; apply in_map_iff in I.
    - destruct I as ([[p q] o] & E & I). inversion E; subst. left. eauto.
    - destruct I as ([[p q] o] & E & I). inversion E; subst. apply filter_In in I. destruct I as [I Ab].
      right. exists o. split; [exact I|]. split; [|reflexivity]. unfold absent_in in Ab. destruct (adj G u v); [discriminate|reflexivity].
  Qed.

  Lemma construct_simple : simpleP (pairs (gedges T0)).
  Proof.
    unfold T0, its_construct; simpl. rewrite pairs_app. apply simpleP_app2.
    - rewrite pairs_map; [apply host_simple; exact HG|]. intros [[u v] o]; reflexivity.
    - rewrite pairs_map; [apply simpleP_filter; apply host_simple; exact HH|]. intros [[u v] o]; reflexivity.
    - intros a b u v I1 I2.
      rewrite pairs_map in I1 by (intros [[? ?] ?]; reflexivity). rewrite pairs_map in I2 by (intros [[? ?] ?]; reflexivity).
      unfold pairs in I1, I2. apply in_map_iff in I1. destruct I1 as ([[a' b'] o1] & E1 & I1). simpl in E1; inversion E1; subst.
      apply in_map_iff in I2. destruct I2 as ([[u' v'] o2] & E2 & I2). simpl in E2; inversion E2; subst.
      apply filter_In in I2. destruct I2 as [_ Ab]. unfold absent_in in Ab. destruct (adj G u v) eqn:Ea; [discriminate|].
      rewrite peq_swap. exact (find_edge_none_in (gedges G) u v a b o1 Ea I1).
  Qed.

  Lemma construct_wf : wf_rcb T0 = true.
  Proof.
    unfold wf_rcb. apply andb_true_intro; split; [apply andb_true_intro; split|].
    - destruct construct_ids as (base & Hb & E & _). rewrite E.
      assert (Hw : wf_hostb base = true) by (destruct Hb; subst; assumption).
      unfold wf_hostb in Hw. apply andb_prop in Hw. destruct Hw as [Hw _]. apply andb_prop in Hw. destruct Hw as [Hw _]. exact Hw.
    - apply simple_b_of_P. exact construct_simple.
    - apply forallb_forall. intros [[u v] x] I. simpl. destruct (construct_edge u v x I) as [(o & Io & ->)|(o & Io & _ & ->)].
      + unfold eG, eH; simpl. pose proof (wf_host_orders G u v o HG Io). pose proof (order_in_nonneg H u v HH).
        apply andb_true_intro; split; apply Z.leb_le; lia.
      + unfold eG, eH; simpl. pose proof (wf_host_orders H u v o HH Io). repeat (apply andb_true_intro; split); apply Z.leb_le; lia.
  Qed.

  Lemma construct_edge_orders u v x : In (u, v, x) (gedges T0) ->
    In u (node_ids G) /\ In v (node_ids G) /\ eG x = order_in G u v /\ eH x = order_in H u v /\ eS x = eG x - eH x.
  Proof.
    intros I. destruct (construct_edge u v x I) as [(o & Io & ->)|(o & Io & Ea & ->)]; unfold eG, eH, eS; simpl.
    - destruct (CG u v o Io). repeat split; auto. unfold order_in at 1. rewrite (host_in_adj G u v o HG Io). reflexivity.
    - destruct (CH u v o Io) as [Iu Iv]. apply (pw_ids _ _ PW) in Iu. apply (pw_ids _ _ PW) in Iv.
      repeat split; auto; unfold order_in; rewrite ?Ea, ?(host_in_adj H u v o HH Io); try reflexivity; lia.
  Qed.

  Lemma construct_cover u v : order_in G u v <> order_in H u v -> exists x, adj T0 u v = Some x.
  Proof.
    intros NE. unfold adj, T0, its_construct; simpl. rewrite find_edge_app.
    match goal with |- context [find_edge u v (map ?f (gedges G))] => set (l1 := map f (gedges G)) end.
    match goal with |- context [find_edge u v (map ?f (filter ?g (gedges H)))] => set (l2 := map f (filter g (gedges H))) end.
    destruct (adj G u v) as [o|] eqn:Ea.
    - unfold adj in Ea. apply find_edge_in in Ea. destruct Ea as (p & q & I & Hp).
      assert (E : exists y, find_edge u v l1 = Some y).
      { apply (in_find_some l1 u v p q (o, order_in H p q, o - order_in H p q)); [|exact Hp].
        apply in_map_iff. exists (p, q, o). auto. }
      destruct E as [y Ey]. unfold iedge in *. rewrite Ey. eauto.
    - destruct (adj H u v) as [o|] eqn:Eh.
      + unfold adj in Eh. apply find_edge_in in Eh. destruct Eh as (p & q & I & Hp).
        unfold iedge in *. destruct (find_edge u v l1); [eauto|].
        apply (in_find_some l2 u v p q (0, o, - o)); [|exact Hp].
        apply in_map_iff. exists (p, q, o). split; [reflexivity|]. apply filter_In. split; [exact I|].
        unfold absent_in. unfold adj in *. rewrite (find_edge_peq (gedges G) p q u v Hp), Ea. reflexivity.
      + exfalso. apply NE. unfold order_in. rewrite Ea, Eh. reflexivity.
  Qed.

  Theorem construct_fits : fits G H T0.
  Proof.
    constructor.
    - exact construct_wf.
    - intros n a I. destruct (construct_node n a I) as [-> In_]. destruct (in_ids_label G n In_) as [x Ex].
      destruct (in_ids_label H n (proj1 (pw_ids _ _ PW n) In_)) as [y Ey]. exists x, y.
      unfold its_node, side_tuple, node_fit; simpl. rewrite Ex, Ey. repeat split; auto; lia.
    - intros u v x I. destruct (construct_edge_orders u v x I) as (Iu & Iv & Eg & Eh & _).
      repeat split; auto; apply construct_ids_in; assumption.
  Qed.
  Theorem construct_describes : describes G H T0.
  Proof.
    constructor.
    - exact construct_fits.
    - exact construct_cover.
    - intros n x y Ex _ _. apply construct_ids_in. exact (label_some_in G n x Ex).
  Qed.
End Construct.

(** * the reaction centre of an ITS without hydrogen atoms *)
Lemma has_key_in n (ns : list (N * inode)) : has_key n ns = true <-> In n (map fst ns).
Proof.
  unfold has_key. destruct (assoc n ns) as [a|] eqn:E; split; intros H; try discriminate; auto.
  - apply assoc_in in E. change n with (fst (n, a)). apply in_map. exact E.
  - exfalso. exact (label_none (LG ns (@nil (N * N * iedge))) n E H).
Qed.
Lemma filter_nil_inv {X} (f : X -> bool) (l : list X) : filter f l = [] -> forall x, In x l -> f x = false.
Proof.
  induction l as [|y r IH]; simpl; [intros _ x []|]. destruct (f y) eqn:E; [discriminate|].
  intros H x [<-|I]; auto.
Qed.
Lemma NoDup_nodupb l : NoDup l -> nodupb l = true.
Proof.
  induction l as [|x r IH]; simpl; [reflexivity|]. intros H. inversion H; subst.
  apply andb_true_intro; split; [|auto]. apply negb_true_iff. destruct (mem x r) eqn:E; [|reflexivity].
  apply mem_spec in E. contradiction.
Qed.
Lemma find_edge_filter {B} (f : B -> bool) (es : list (N * N * B)) u v x :
  find_edge u v es = Some x -> f x = true -> find_edge u v (filter (fun e => f (snd e)) es) = Some x.
Proof.
  induction es as [|[[p q] y] r IH]; simpl; [discriminate|].
  destruct ((N.eqb p u && N.eqb q v) || (N.eqb p v && N.eqb q u)) eqn:E.
  - intros [= ->] Hf. rewrite Hf. simpl. rewrite E. reflexivity.
  - intros H Hf. destruct (f y); simpl; [rewrite E|]; auto.
Qed.

Lemma NoDup_app_one {X} (l : list X) x : NoDup l -> ~ In x l -> NoDup (l ++ [x]).
Proof.
  induction l as [|y r IH]; simpl; intros H N; [constructor; [intros []|constructor]|].
  inversion H; subst. constructor.
  - intros I. apply in_app_or in I. destruct I as [I|[I|[]]]; [contradiction|subst; apply N; auto].
  - apply IH; auto.
Qed.

Section RC.
  Variable g : its.
  (** no bond joins two hydrogen atoms (then _add_hh_bonds adds nothing) *)
  Hypothesis noHH : forall u v x, In (u, v, x) (gedges g) -> is_hh g u v = false.
  Hypothesis closedg : forall u v x, In (u, v, x) (gedges g) -> (exists a, label g u = Some a) /\ (exists b, label g v = Some b).

  Definition ninv (ns : list (N * inode)) : Prop :=
    NoDup (map fst ns) /\ forall n a, In (n, a) ns -> exists a', label g n = Some a' /\ a = rc_attr a'.

  Lemma ensure_ninv n ns : ninv ns -> ninv (ensure_node g n ns).
  Proof.
    intros [Hnd Hat]. unfold ensure_node. destruct (has_key n ns) eqn:Ek; [split; assumption|].
    destruct (label g n) as [a|] eqn:El; [|split; assumption]. split.
    - rewrite map_app. simpl. apply NoDup_app_one; [exact Hnd|]. intros I. apply has_key_in in I. congruence.
    - intros k b I. apply in_app_or in I. destruct I as [I|[I|[]]]; [auto|]. inversion I; subst. eauto.
  Qed.
  Lemma ensure_mono n ns k : In k (map fst ns) -> In k (map fst (ensure_node g n ns)).
  Proof.
    intros I. unfold ensure_node. destruct (has_key n ns); [exact I|]. destruct (label g n); [|exact I].
    rewrite map_app. apply in_or_app. auto.
  Qed.
  Lemma ensure_in n ns a : label g n = Some a -> In n (map fst (ensure_node g n ns)).
  Proof.
    intros El. unfold ensure_node. destruct (has_key n ns) eqn:Ek; [apply has_key_in; exact Ek|]. rewrite El.
    rewrite map_app. apply in_or_app. right. simpl. auto.
  Qed.

  Lemma fold_changed es : forall st,
    ninv (fst st) ->
    (forall u v x, In (u, v, x) (snd st) -> In u (map fst (fst st)) /\ In v (map fst (fst st))) ->
    (forall u v x, In (u, v, x) es -> (exists a, label g u = Some a) /\ (exists b, label g v = Some b)) ->
    ninv (fst (fold_left (step_changed g) es st)) /\
    (forall u v x, In (u, v, x) (snd (fold_left (step_changed g) es st)) ->
       In u (map fst (fst (fold_left (step_changed g) es st))) /\ In v (map fst (fst (fold_left (step_changed g) es st)))) /\
    snd (fold_left (step_changed g) es st) = snd st ++ filter (fun e => changed (snd e)) es.
  Proof.
    induction es as [|[[u v] x] r IH]; intros st Hn He Hc; cbn [fold_left].
    - simpl. rewrite app_nil_r. auto.
    - assert (Hc' : forall u0 v0 x0, In (u0, v0, x0) r -> (exists a, label g u0 = Some a) /\ (exists b, label g v0 = Some b))
        by (intros; eapply Hc; right; eauto).
      assert (Es : step_changed g st (u, v, x) =
                   if changed x then (ensure_node g v (ensure_node g u (fst st)), snd st ++ [(u, v, x)]) else st) by reflexivity.
      rewrite Es. cbn [filter snd]. destruct (changed x) eqn:Ec.
      + destruct (Hc u v x (or_introl eq_refl)) as [[a Ea] [b Eb]].
        assert (P1 : ninv (fst (ensure_node g v (ensure_node g u (fst st)), snd st ++ [(u, v, x)])))
          by (cbn [fst]; apply ensure_ninv; apply ensure_ninv; exact Hn).
        assert (P2 : forall p q y, In (p, q, y) (snd (ensure_node g v (ensure_node g u (fst st)), snd st ++ [(u, v, x)])) ->
                       In p (map fst (fst (ensure_node g v (ensure_node g u (fst st)), snd st ++ [(u, v, x)]))) /\
                       In q (map fst (fst (ensure_node g v (ensure_node g u (fst st)), snd st ++ [(u, v, x)])))).
        { cbn [fst snd]. intros p q y I. apply in_app_or in I. destruct I as [I|[I|[]]].
          - destruct (He p q y I). split; apply ensure_mono; apply ensure_mono; assumption.
          - inversion I; subst. split; [apply ensure_mono; eapply ensure_in; eauto|eapply ensure_in; eauto]. }
        destruct (IH _ P1 P2 Hc') as (I1 & I2 & I3).
        split; [exact I1|]. split; [exact I2|]. rewrite I3. cbn [snd]. rewrite <- app_assoc. reflexivity.
      + apply IH; assumption.
  Qed.

  Lemma fold_hh es st : (forall u v x, In (u, v, x) es -> is_hh g u v = false) -> fold_left (step_hh g) es st = st.
  Proof.
    revert st. induction es as [|[[u v] x] r IH]; intros st H; cbn [fold_left]; [reflexivity|].
    unfold step_hh at 2. rewrite (H u v x (or_introl eq_refl)). apply IH. intros; eapply H; right; eauto.
  Qed.

  Lemma get_rc_spec :
    NoDup (node_ids (get_rc g)) /\
    (forall n a, In (n, a) (gnodes (get_rc g)) -> exists a', label g n = Some a' /\ a = rc_attr a') /\
    gedges (get_rc g) = filter (fun e => changed (snd e)) (gedges g) /\
    (forall u v x, In (u, v, x) (gedges (get_rc g)) -> In u (node_ids (get_rc g)) /\ In v (node_ids (get_rc g))).
  Proof.
    unfold get_rc. rewrite (fold_hh _ _ noHH). unfold node_ids; simpl.
    assert (P1 : ninv (fst (@nil (N * inode), @nil (N * N * iedge)))) by (split; [constructor|intros n a []]).
    assert (P2 : forall u v x, In (u, v, x) (snd (@nil (N * inode), @nil (N * N * iedge))) ->
                   In u (map fst (fst (@nil (N * inode), @nil (N * N * iedge)))) /\ In v (map fst (fst (@nil (N * inode), @nil (N * N * iedge)))))
      by (intros u v x []).
    destruct (fold_changed (gedges g) ([], []) P1 P2 closedg) as ((I1 & I1') & I2 & I3).
    simpl in I3. repeat split; auto; apply (I2 u v x); assumption.
  Qed.
End RC.

(** * the centre of the ITS of a pair written without hydrogen atoms *)
Definition edges_pos (t : its) : Prop := forall u v x, In (u, v, x) (gedges t) -> 0 < eG x \/ 0 < eH x.

Section Centre.
  Variables G H : hostg.
  Hypothesis PW : pair_wf G H.
  Hypothesis CG : closed G.
  Hypothesis CH : closed H.
  (** no bond of G or H joins two hydrogen atoms *)
  Hypothesis NHH : forall u v x, In (u, v, x) (gedges (its_construct G H)) -> is_hh (its_construct G H) u v = false.
  Let HG := pw_A _ _ PW.
  Let HH := pw_B _ _ PW.
  Let T0 := its_construct G H.
  Let rc := get_rc T0.

  Lemma T0_label n a : label T0 n = Some a -> a = its_node G H n /\ In n (node_ids G).
  Proof. intros E. apply (construct_node G H PW n a). apply assoc_in. exact E. Qed.
  Lemma T0_closed u v x : In (u, v, x) (gedges T0) -> (exists a, label T0 u = Some a) /\ (exists b, label T0 v = Some b).
  Proof.
    intros I. destruct (construct_edge_orders G H PW CG CH u v x I) as (Iu & Iv & _).
    split; apply in_ids_label; apply (construct_ids_in G H PW); assumption.
  Qed.
  Lemma T0_edges_pos : edges_pos T0.
  Proof.
    intros u v x I. destruct (construct_edge G H u v x I) as [(o & Io & ->)|(o & Io & _ & ->)]; unfold eG, eH; simpl.
    - left. exact (wf_host_orders G u v o HG Io).
    - right. exact (wf_host_orders H u v o HH Io).
  Qed.

  Let SP := get_rc_spec T0 NHH T0_closed.

  Lemma rc_in_T0 u v x : In (u, v, x) (gedges rc) -> In (u, v, x) (gedges T0) /\ changed x = true.
  Proof. intros I. unfold rc in I. rewrite (proj1 (proj2 (proj2 SP))) in I. apply filter_In in I. exact I. Qed.
  Lemma rc_edges_pos : edges_pos rc.
  Proof. intros u v x I. apply (T0_edges_pos u v x). exact (proj1 (rc_in_T0 u v x I)). Qed.

  Lemma rc_node n a : In (n, a) (gnodes rc) -> In n (node_ids G) /\ iG a = side_tuple G n /\ iH a = side_tuple H n.
  Proof.
    intros I. destruct (proj1 (proj2 SP) n a I) as (a' & E & ->). destruct (T0_label n a' E) as [-> In_]. auto.
  Qed.

  Theorem rc_fits : fits G H rc.
  Proof.
    constructor.
    - unfold wf_rcb. apply andb_true_intro; split; [apply andb_true_intro; split|].
      + apply NoDup_nodupb. exact (proj1 SP).
      + apply simple_b_of_P. unfold rc. rewrite (proj1 (proj2 (proj2 SP))). apply simpleP_filter.
        exact (construct_simple G H PW).
      + apply forallb_forall. intros [[u v] x] I. destruct (rc_in_T0 u v x I) as [I0 _].
        destruct (wf_rc_nonneg T0 u v x (construct_wf G H PW) I0). simpl.
        apply andb_true_intro; split; apply Z.leb_le; assumption.
    - intros n a I. destruct (rc_node n a I) as (In_ & E1 & E2). destruct (in_ids_label G n In_) as [x Ex].
      destruct (in_ids_label H n (proj1 (pw_ids _ _ PW n) In_)) as [y Ey]. exists x, y.
      unfold node_fit. rewrite E1, E2. unfold side_tuple. rewrite Ex, Ey. repeat split; auto; lia.
    - intros u v x I. destruct (proj2 (proj2 (proj2 SP)) u v x I) as [Iu Iv]. destruct (rc_in_T0 u v x I) as [I0 _].
      destruct (construct_edge_orders G H PW CG CH u v x I0) as (_ & _ & Eg & Eh & _). auto.
  Qed.

  Theorem rc_describes : centre_carries T0 = true -> describes G H rc.
  Proof.
    intros CC. constructor.
    - exact rc_fits.
    - intros u v NE. destruct (construct_cover G H u v NE) as [x Ex].
      exists x. unfold adj, rc. rewrite (proj1 (proj2 (proj2 SP))). apply (find_edge_filter changed); [exact Ex|].
      unfold adj in Ex. apply find_edge_in in Ex. destruct Ex as (p & q & I & Hp).
      destruct (construct_edge_orders G H PW CG CH p q x I) as (_ & _ & Eg & Eh & Es).
      rewrite (order_in_peq G p q u v Hp) in Eg. rewrite (order_in_peq H p q u v Hp) in Eh.
      unfold changed. apply negb_true_iff. apply Z.eqb_neq. lia.
    - intros n x y Ex Ey NE. destruct (in_dec N.eq_dec n (node_ids rc)) as [I|NI]; [exact I|]. exfalso. apply NE.
      unfold centre_carries in CC. fold T0 in CC. fold rc in CC.
      destruct (outside_change T0 rc) eqn:Eo; [|discriminate]. unfold outside_change in Eo.
      apply map_eq_nil in Eo.
      assert (In_ : In n (node_ids G)) by exact (label_some_in G n x Ex).
      destruct (in_ids_label T0 n (proj2 (construct_ids_in G H PW n) In_)) as [a Ea].
      pose proof (filter_nil_inv _ _ Eo (n, a) (assoc_in n (gnodes T0) Ea)) as Hf. simpl in Hf.
      assert (Hn : has_node rc n = false).
      { unfold has_node. destruct (label rc n) as [b|] eqn:Eb; [|reflexivity]. exfalso. exact (NI (label_some_in rc n b Eb)). }
      rewrite Hn in Hf. simpl in Hf. destruct (T0_label n a Ea) as [-> _].
      unfold its_node, side_tuple in Hf; simpl in Hf. rewrite Ex, Ey in Hf.
      apply orb_false_elim in Hf. destruct Hf as [H1 H2].
      apply negb_false_iff in H1. apply negb_false_iff in H2. apply Z.eqb_eq in H1. apply Z.eqb_eq in H2.
      unfold sel. rewrite (pw_el _ _ PW n x y Ex Ey), H1, H2. reflexivity.
  Qed.
End Centre.

(** a pair written without hydrogen atoms: no H-H bond, no explicit hydrogen in the centre *)
Section NoH.
  Variables G H : hostg.
  Hypothesis PW : pair_wf G H.
  Hypothesis CG : closed G.
  Hypothesis CH : closed H.
  Hypothesis NH : no_explicit_H G = true.

  Lemma G_not_H n x : label G n = Some x -> N.eqb (a_el x) EL_H = false.
  Proof.
    intros E. unfold no_explicit_H in NH. rewrite forallb_forall in NH.
    specialize (NH (n, x) (assoc_in n (gnodes G) E)). simpl in NH. apply negb_true_iff. exact NH.
  Qed.
  Lemma T0_noH u : is_H_i (its_construct G H) u = false.
  Proof.
    unfold is_H_i. destruct (label (its_construct G H) u) as [a|] eqn:E; [|reflexivity].
    destruct (T0_label G H PW u a E) as [-> I]. destruct (in_ids_label G u I) as [x Ex].
    unfold its_node, side_tuple; simpl. rewrite Ex. exact (G_not_H u x Ex).
  Qed.
  Lemma noH_noHH : forall u v x, In (u, v, x) (gedges (its_construct G H)) -> is_hh (its_construct G H) u v = false.
  Proof. intros u v x _. unfold is_hh. rewrite T0_noH. reflexivity. Qed.
  Lemma rc_no_explicit : explicit_centre (get_rc (its_construct G H)) = false.
  Proof.
    unfold explicit_centre. destruct (existsb _ (gnodes (get_rc (its_construct G H)))) eqn:E; [|reflexivity]. exfalso.
    apply existsb_exists in E. destruct E as ([n a] & I & Hh). simpl in Hh.
    destruct (rc_node G H PW CG CH noH_noHH n a I) as (In_ & E1 & _). destruct (in_ids_label G n In_) as [x Ex].
    rewrite E1 in Hh. unfold side_tuple in Hh. rewrite Ex, (G_not_H n x Ex) in Hh. discriminate.
  Qed.
End NoH.

(** * inversion *)
Lemma sel_inv_tuple t : sel (inv_tuple t) = sel t.
Proof. reflexivity. Qed.

Section Invert.
  Variables (A B : hostg) (t : its).
  Hypothesis HA : wf_hostb A = true.
  Hypothesis HB : wf_hostb B = true.

  Lemma invert_fits : fits A B t -> fits B A (invert_template t).
  Proof.
    intros F. constructor.
    - apply invert_wf. exact (f_wf _ _ _ F).
    - intros n a I. rewrite invert_gnodes in I. apply in_map_iff in I. destruct I as ([k a0] & E & I). simpl in E. inversion E; subst.
      destruct (f_nodes _ _ _ F n a0 I) as (x & y & Ex & Ey & E1 & E2 & E3 & E4 & E5 & E6). exists y, x.
      unfold node_fit, inv_node; simpl. repeat split; auto; lia.
    - intros u v y I. destruct (invert_edge_inv t u v y I) as (x & Ix & _ & Eg & Eh & _).
      destruct (f_edges _ _ _ F u v x Ix) as (Iu & Iv & Egx & Ehx). rewrite !invert_ids.
      pose proof (order_in_nonneg A u v HA). pose proof (order_in_nonneg B u v HB). repeat split; auto; lia.
  Qed.

  Lemma invert_describes : describes A B t -> edges_pos t -> describes B A (invert_template t).
  Proof.
    intros D EP. constructor.
    - apply invert_fits. exact (d_fits _ _ _ D).
    - intros u v NE. destruct (d_cover_e _ _ _ D u v (not_eq_sym NE)) as [x Ex].
      unfold adj in Ex. apply find_edge_in in Ex. destruct Ex as (p & q & I & Hp).
      destruct (wf_rc_nonneg t p q x (d_wf _ _ _ D) I) as [N1 N2].
      pose proof (invert_edge_in t p q x I N1 N2 (EP p q x I)) as I'.
      unfold adj. exact (in_find_some _ u v p q _ I' Hp).
    - intros n x y Ex Ey NE. rewrite invert_ids. exact (d_cover_n _ _ _ D n y x Ey Ex (not_eq_sym NE)).
  Qed.
End Invert.
