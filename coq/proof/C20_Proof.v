From Coq Require Import ZArith NArith List Bool Arith Lia.
Import ListNotations.
From SK Require Import model.C20_Model.
Local Open Scope nat_scope.

Lemma stub : empty_petri = empty_petri. Proof. reflexivity. Qed.
