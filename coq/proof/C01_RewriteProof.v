(** C01 — the quantifier of the property inside the model: "every SMILES re-rooting / fragment reordering / reversal".
    * extensionality: construct and decompose depend only on the labels and the bond map of their arguments (not on the
      order in which networkx lists nodes and edges);
    * re-rooting / fragment reordering = the same atoms in another index order, every bond between the renumbered ends in
      either direction and in any order: the molecule graph, the ITS and the decomposition are the same maps;
    * reversal: the ITS of the reversed reaction is the ITS with both halves of typesGH swapped, every order pair swapped
      and standard_order negated. *)
From Coq Require Import List NArith ZArith Bool Lia Arith Permutation.
From SK Require Import lib.LGraph lib.C01_GraphLemmas model.C01_Model model.C02_Model model.C01_String model.C01_Rewrite
  proof.C01_Proof proof.C01_StringProof proof.C01_StringPipe.
Import ListNotations.
Local Open Scope Z_scope.

(** * extensionality *)
Lemma geq_node_ids {A B} (g g' : lgraph A B) n : (forall k, label g' k = label g k) -> In n (node_ids g') <-> In n (node_ids g).
Proof.
  intros E. split; intros I; apply node_label_some in I; destruct I as (a & L); [rewrite E in L|rewrite <- E in L]; eapply label_some_node; eauto.
Qed.

Lemma geq_length {A B} (g g' : lgraph A B) : wf g -> wf g' -> (forall k, label g' k = label g k) ->
  length (gnodes g') = length (gnodes g).
Proof.
  intros W W' E. rewrite <- (map_length fst (gnodes g')), <- (map_length fst (gnodes g)).
  apply Permutation_length. apply NoDup_Permutation; [apply W'|apply W|]. intros n. apply (geq_node_ids g g' n E).
Qed.

Lemma side_tuple_ext (G G' : mgraph) n : label G' n = label G n -> side_tuple G' n = side_tuple G n.
Proof. unfold side_tuple. intros ->. reflexivity. Qed.
Lemma order_in_ext (G G' : mgraph) u v : adj G' u v = adj G u v -> order_in G' u v = order_in G u v.
Proof. unfold order_in. intros ->. reflexivity. Qed.

Theorem construct_ext (G H G' H' : mgraph) : wf G -> wf H -> wf G' -> wf H' -> geq G' G -> geq H' H ->
  geq (its_construct G' H') (its_construct G H).
Proof.
  intros WG WH WG' WH' [LG AG] [LH AH].
  assert (base_is_G G' H' = base_is_G G H) as EB.
  { unfold base_is_G. rewrite (geq_length G G' WG WG' LG), (geq_length H H' WH WH' LH). reflexivity. }
  split.
  - intros n. rewrite !its_label. unfold its_base, its_other. rewrite EB.
    assert (forall m, its_node G' H' n m = its_node G H n m) as EN
      by (intros m; unfold its_node; rewrite (side_tuple_ext G G' n (LG n)), (side_tuple_ext H H' n (LH n)); reflexivity).
    destruct (base_is_G G H); rewrite ?LG, ?LH;
      repeat match goal with |- context [match ?x with _ => _ end] => destruct x end; rewrite ?EN; reflexivity.
  - intros u v. rewrite !its_adj by assumption. rewrite AG, AH, (order_in_ext G G' u v (AG u v)), (order_in_ext H H' u v (AH u v)). reflexivity.
Qed.

Theorem decompose_ext (I I' : its) : wf I -> wf I' -> geq I' I ->
  geq (fst (its_decompose I')) (fst (its_decompose I)) /\ geq (snd (its_decompose I')) (snd (its_decompose I)).
Proof.
  intros W W' [L A]. unfold its_decompose. cbn [fst snd].
  split; (split; [intros n; rewrite !dec_label, L; reflexivity|
                   intros u v; rewrite !dec_adj by (apply wf_consistent; assumption); rewrite A; reflexivity]).
Qed.

(** * re-rooting / fragment reordering of one side *)
Lemma NoDup_map_inj_in {X Y} (f : X -> Y) (l : list X) :
  (forall x y, In x l -> In y l -> f x = f y -> x = y) -> NoDup l -> NoDup (map f l).
Proof.
  induction l as [|a l IH]; intros Inj ND; [constructor|]. inversion ND as [|? ? Na ND']; subst. cbn. constructor.
  - intros I. apply in_map_iff in I. destruct I as (b & E & Ib). assert (b = a) by (apply Inj; [right; exact Ib|left; reflexivity|exact E]). subst. contradiction.
  - apply IH; [|exact ND']. intros x y Hx Hy. apply Inj; right; assumption.
Qed.

(** the renumbering reaches every atom of m' *)
Lemma rewritten_onto s m m' : rewritten s m m' ->
  forall i' a, nth_error (rm_atoms m') i' = Some a -> exists i, (i < length (rm_atoms m))%nat /\ s i = i'.
Proof.
  intros (EL & Inj & At & _) i' a E.
  (* pigeonhole on the images of 0..n-1 *)
  set (n := length (rm_atoms m)) in *.
  assert (forall i, (i < n)%nat -> (s i < n)%nat) as Rg.
  { intros i Hi. destruct (nth_error (rm_atoms m) i) as [x|] eqn:Ex; [|apply nth_error_None in Ex; fold n in Ex; lia].
    apply At in Ex. assert (nth_error (rm_atoms m') (s i) <> None) as K by congruence. apply nth_error_Some in K. lia. }
  assert (i' < n)%nat as Hi' by (assert (nth_error (rm_atoms m') i' <> None) as K by congruence; apply nth_error_Some in K; lia).
  assert (NoDup (map s (seq 0 n))) as ND.
  { apply NoDup_map_inj_in; [|apply seq_NoDup]. intros x y Hx Hy. apply in_seq in Hx, Hy. apply Inj; lia. }
  assert (incl (map s (seq 0 n)) (seq 0 n)) as Inc.
  { intros y Iy. apply in_map_iff in Iy. destruct Iy as (x & <- & Ix). apply in_seq in Ix. apply in_seq. specialize (Rg x). lia. }
  assert (incl (seq 0 n) (map s (seq 0 n))) as Inc'.
  { apply NoDup_length_incl; [exact ND| |exact Inc]. rewrite map_length. lia. }
  assert (In i' (map s (seq 0 n))) as Ii by (apply Inc'; apply in_seq; lia).
  apply in_map_iff in Ii. destruct Ii as (i & <- & Ix). apply in_seq in Ix. exists i. split; [lia|reflexivity].
Qed.

Lemma rewritten_atoms s m m' : rewritten s m m' -> forall a, In a (rm_atoms m') <-> In a (rm_atoms m).
Proof.
  intros R a. pose proof R as (EL & Inj & At & _). split; intros I; apply In_nth_error in I; destruct I as (i & E).
  - destruct (rewritten_onto s m m' R i a E) as (j & Hj & <-).
    destruct (nth_error (rm_atoms m) j) as [x|] eqn:Ex; [|apply nth_error_None in Ex; lia].
    pose proof (At j x Ex) as K. rewrite E in K. inversion K; subst. eapply nth_error_In; eauto.
  - eapply nth_error_In. apply (At i a E).
Qed.

Lemma rewritten_ix s m m' : rewritten s m m' -> forall i, (i < length (rm_atoms m))%nat ->
  lookup_idx (s i) (mapped_ix m') = lookup_idx i (mapped_ix m).
Proof.
  intros (EL & Inj & At & _) i Hi. rewrite !mapped_ix_spec.
  destruct (nth_error (rm_atoms m) i) as [a|] eqn:E; [|apply nth_error_None in E; lia]. rewrite (At i a E). reflexivity.
Qed.

(** the two molecule graphs are the same maps *)
Theorem rewritten_graph s m m' : rewritten s m m' -> rmol_ok m -> rmol_ok m' -> geq (graph_of m') (graph_of m).
Proof.
  intros R [Nm Sm] [Nm' Sm']. pose proof R as (EL & Inj & At & Bf & Bb & Bd). split.
  - intros n. apply option_ext. intros g. unfold label, graph_of. cbn [gnodes]. split; intros L.
    + apply assoc_in in L. apply assoc_nodup_in; [exact Nm|]. apply mapped_nodes_in in L. apply mapped_nodes_in.
      destruct L as (x & Ix & K). exists x. split; [apply (rewritten_atoms s m m' R); exact Ix|exact K].
    + apply assoc_in in L. apply assoc_nodup_in; [exact Nm'|]. apply mapped_nodes_in in L. apply mapped_nodes_in.
      destruct L as (x & Ix & K). exists x. split; [apply (rewritten_atoms s m m' R); exact Ix|exact K].
  - intros u v. apply option_ext. intros o. unfold adj, graph_of. cbn [gedges].
    rewrite (find_edge_iff (simple_consistent Sm')), (find_edge_iff (simple_consistent Sm)).
    assert (forall mm a b, In (a, b, o) (mapped_bonds mm) <->
              exists i j, In (i, j, o) (rm_bonds mm) /\ lookup_idx i (mapped_ix mm) = Some a /\ lookup_idx j (mapped_ix mm) = Some b) as MB.
    { intros mm a b. unfold mapped_bonds. rewrite in_flat_map. split.
      - intros ([[i j] x] & Ib & K). cbn [fst snd] in K.
        destruct (lookup_idx i (mapped_ix mm)) as [a'|] eqn:Ei; [|destruct K].
        destruct (lookup_idx j (mapped_ix mm)) as [b'|] eqn:Ej; [|destruct K]. destruct K as [K|[]]. inversion K; subst. eauto.
      - intros (i & j & Ib & Ei & Ej). exists (i, j, o). split; [exact Ib|]. cbn [fst snd]. rewrite Ei, Ej. left. reflexivity. }
    rewrite !MB. split.
    + intros [(i' & j' & Ib & Ei & Ej)|(i' & j' & Ib & Ei & Ej)];
        destruct (Bb i' j' o Ib) as (i & j & Io & -> & ->);
        assert ((i < length (rm_atoms m))%nat /\ (j < length (rm_atoms m))%nat) as [Hi Hj]
          by (destruct Io as [Io|Io]; apply Bd in Io; tauto);
        rewrite (rewritten_ix s m m' R i Hi) in Ei; rewrite (rewritten_ix s m m' R j Hj) in Ej;
        destruct Io as [Io|Io]; eauto 8.
    + intros [(i & j & Ib & Ei & Ej)|(i & j & Ib & Ei & Ej)];
        destruct (Bd i j o Ib) as [Hi Hj];
        rewrite <- (rewritten_ix s m m' R i Hi) in Ei; rewrite <- (rewritten_ix s m m' R j Hj) in Ej;
        destruct (Bf i j o Ib) as [K|K]; eauto 8.
Qed.

(** ... hence the ITS of the rewritten reaction and its decomposition are the same maps *)
Theorem rewritten_its sr sp mr mr' mp mp' :
  rewritten sr mr mr' -> rewritten sp mp mp' -> rmol_ok mr -> rmol_ok mr' -> rmol_ok mp -> rmol_ok mp' ->
  wf (graph_of mr) -> wf (graph_of mp) -> wf (graph_of mr') -> wf (graph_of mp') ->
  let I := its_construct (graph_of mr) (graph_of mp) in
  let I' := its_construct (graph_of mr') (graph_of mp') in
  rsmi_to_its_m mr' mp' = Some I' /\ rsmi_to_its_m mr mp = Some I /\
  geq I' I /\
  geq (fst (its_decompose I')) (fst (its_decompose I)) /\ geq (snd (its_decompose I')) (snd (its_decompose I)).
Proof.
  intros Rr Rp Or Or' Op Op' Wr Wp Wr' Wp' I I'.
  assert (geq I' I) as GI.
  { apply construct_ext; try assumption; [apply (rewritten_graph sr)|apply (rewritten_graph sp)]; assumption. }
  split; [|split; [|split; [exact GI|]]].
  - unfold rsmi_to_its_m, rsmi_to_graph_m. destruct Or' as [A B], Op' as [C D].
    rewrite (mol_to_graph_closed mr' A B), (mol_to_graph_closed mp' C D). reflexivity.
  - unfold rsmi_to_its_m, rsmi_to_graph_m. destruct Or as [A B], Op as [C D].
    rewrite (mol_to_graph_closed mr A B), (mol_to_graph_closed mp C D). reflexivity.
  - apply decompose_ext; [apply its_wf; assumption|apply its_wf; assumption|exact GI].
Qed.

(** * reversal *)
Theorem reverse_its (G H : mgraph) : wf G -> wf H -> same_nodes G H -> amap_id G -> amap_id H ->
  (forall n, label (its_construct H G) n = option_map swap_inode (label (its_construct G H) n)) /\
  (forall u v, adj (its_construct H G) u v = option_map swap_iedge (adj (its_construct G H) u v)) /\
  geq (fst (its_decompose (its_construct H G))) (snd (its_decompose (its_construct G H))) /\
  geq (snd (its_decompose (its_construct H G))) (fst (its_decompose (its_construct G H))).
Proof.
  intros WG WH S AG AH.
  assert (forall n, label (its_construct H G) n = option_map swap_inode (label (its_construct G H) n)) as EL.
  { intros n. rewrite !its_label. unfold its_base, its_other.
    assert (forall m, swap_inode (its_node G H n m) = its_node H G n m) as SW by (intros m; reflexivity).
    assert (label G n = None <-> label H n = None) as NN.
    { split; intros E; [apply (same_nodes_label_none G H n S E)|].
      apply (same_nodes_label_none H G n); [intros k; symmetry; apply S|exact E]. }
    destruct (label G n) as [a|] eqn:LG, (label H n) as [b|] eqn:LH;
      try (destruct NN as [N1 N2]; try (specialize (N1 eq_refl); discriminate); try (specialize (N2 eq_refl); discriminate)).
    - destruct (base_is_G H G), (base_is_G G H); cbn [option_map]; rewrite ?LG, ?LH; cbn [option_map];
        rewrite <- SW, ?(AG n a LG), ?(AH n b LH); reflexivity.
    - destruct (base_is_G H G), (base_is_G G H); cbn [option_map]; rewrite ?LG, ?LH; reflexivity. }
  assert (forall u v, adj (its_construct H G) u v = option_map swap_iedge (adj (its_construct G H) u v)) as EA.
  { intros u v. rewrite !its_adj by assumption. unfold mk_iedge, swap_iedge.
    destruct (adj H u v), (adj G u v); cbn; try reflexivity; f_equal; f_equal; lia. }
  split; [exact EL|]. split; [exact EA|].
  assert (consistent (gedges (its_construct H G)) /\ consistent (gedges (its_construct G H))) as [C1 C2]
    by (split; apply wf_consistent; apply its_wf; assumption).
  unfold its_decompose. cbn [fst snd]. split; split.
  - intros n. rewrite !dec_label, EL. destruct (label (its_construct G H) n); reflexivity.
  - intros u v. rewrite !dec_adj by assumption. rewrite EA. destruct (adj (its_construct G H) u v); reflexivity.
  - intros n. rewrite !dec_label, EL. destruct (label (its_construct G H) n); reflexivity.
  - intros u v. rewrite !dec_adj by assumption. rewrite EA. destruct (adj (its_construct G H) u v); reflexivity.
Qed.

(** * non-vacuity *)
(** ex_mp of C01_StringPipe ([CH3:1][OH:3].[Br-:2]) re-rooted and with its fragments reordered: [Br-:2].[OH:3][CH3:1] *)
Definition ex_mp_rw : rmol :=
  RM [RA 17013%N false 0 (-1) 2%N []; RA 82%N false 1 0 3%N [70%N]; RA 70%N false 3 0 1%N [82%N]]
     [(1%nat, 2%nat, 2)].
Definition ex_s (i : nat) : nat := match i with 0 => 2 | 1 => 1 | 2 => 0 | n => n end%nat.

Example C01_rewritten_nonvacuous :
  rewritten ex_s ex_mp ex_mp_rw /\ rmol_ok ex_mp /\ rmol_ok ex_mp_rw /\
  gnodes (graph_of ex_mp_rw) <> gnodes (graph_of ex_mp) /\ gedges (graph_of ex_mp_rw) <> gedges (graph_of ex_mp) /\
  geq (graph_of ex_mp_rw) (graph_of ex_mp).
Proof.
  assert (rewritten ex_s ex_mp ex_mp_rw) as R.
  { split; [reflexivity|]. split.
    { intros i j Hi Hj E. cbn in Hi, Hj. destruct i as [|[|[|i]]]; destruct j as [|[|[|j]]]; cbn in E; try lia; try congruence. }
    split.
    { intros i a E. destruct i as [|[|[|i]]]; cbn in E |- *; exact E. }
    split.
    { intros i j o I. cbn in I. destruct I as [I|[]]. inversion I; subst. right. left. reflexivity. }
    split.
    { intros i j o I. cbn in I. destruct I as [I|[]]. inversion I; subst. exists 1%nat, 0%nat. split; [right; left; reflexivity|split; reflexivity]. }
    intros i j o I. cbn in I. destruct I as [I|[]]. inversion I; subst. cbn. lia. }
  assert (rmol_ok ex_mp /\ rmol_ok ex_mp_rw) as [O1 O2] by (split; split; cbn; repeat constructor; cbn; intuition discriminate).
  split; [exact R|]. split; [exact O1|]. split; [exact O2|]. split; [discriminate|]. split; [discriminate|].
  apply (rewritten_graph ex_s); assumption.
Qed.

Example C01_reverse_nonvacuous :
  wf ex_G /\ wf ex_H /\ same_nodes ex_G ex_H /\ amap_id ex_G /\ amap_id ex_H /\
  adj (its_construct ex_G ex_H) 1%N 2%N = Some (IE 2 0 2) /\ adj (its_construct ex_H ex_G) 1%N 2%N = Some (IE 0 2 (-2)).
Proof.
  split; [exact ex_G_wf|]. split; [exact ex_H_wf|]. split; [exact ex_same|].
  split; [|split; [|split; reflexivity]]; intros n a L; apply assoc_in in L; cbn in L;
    repeat (destruct L as [E|L]; [inversion E; reflexivity|]); destruct L.
Qed.
